(* RejectProofs.v — the rejection direction for Parse (soundness of
   acceptance): when stage 1's verdict is [true] and the specification says
   the (trimmed) text is not a JSON text with a container at the root, stage 2
   returns an error.  The proof is a failure simulation: by induction on the
   specification's fuel, wherever the recursive descent gives up the goto
   machine fails too (or the final stage-1 state contradicts the verdict). *)
From Coq Require Import ZifyBool ZifyN ZifyNat.
From SJ Require Import Model.Base Model.RefTables Spec.Json Model.Number Model.Str Model.Stage1.
From SJ Require Import Proofs.StrArith Proofs.StrProofs Proofs.NumLex Proofs.NumberProofs Proofs.TrimProofs.
From SJ Require Import Model.Stage2 Model.Driver Model.Tape Proofs.AtomProofs.
From SJ Require Import Proofs.Stage1Proofs Proofs.Stage1Buffers Proofs.Stage2Base Proofs.Stage2Proofs.
From SJ Require Import Proofs.Stage1Reject Proofs.StrTotal Proofs.Stage2Total Proofs.Stage1Closed.
Open Scope N_scope.

(* ------------------------------------------------------------------ *)
(* stage 1: the first non-blank byte after a pseudo-predecessor         *)

Lemma step_struct pr c :
  is_json_ws c = false -> (pr = true \/ is_markup c = true \/ c = cQUOTE) ->
  snd (s1_step false (OutS pr) c) = true.
Proof.
  intros Hw H. unfold s1_step, OutS. cbn [s_bsodd s_instr s_pred s_err snd]. rewrite Hw.
  destruct (c =? cQUOTE) eqn:Eq.
  - assert (Eb : (c =? cBSLASH) = false) by (unfold cQUOTE, cBSLASH in *; lia).
    rewrite Eb. cbn [negb andb orb xorb]. rewrite orb_true_r. reflexivity.
  - destruct H as [-> | [H | H]].
    + destruct (c =? cBSLASH); cbn [negb andb orb xorb]; rewrite !andb_true_r, !orb_false_r;
        destruct (is_markup c); reflexivity.
    + rewrite H. destruct (c =? cBSLASH); cbn [negb andb orb xorb]; reflexivity.
    + unfold cQUOTE in *. lia.
Qed.

(* the first non-blank byte [b] of [s] is certainly a structural position *)
Definition sure (pr : bool) (s : bytes) (b : byte) : Prop :=
  pr = true \/ (exists w s', s = w :: s' /\ is_json_ws (b2n w) = true) \/
  is_markup (b2n b) = true \/ b2n b = cQUOTE.

Lemma fold_to_first s pr p b r :
  skip_ws s = b :: r -> sure pr s b ->
  exists pr', s1_fold false (OutS pr) p s =
    consp (p + (length s - length (b :: r))) (s1_fold false (fst (s1_step false (OutS pr') (b2n b))) (S (p + (length s - length (b :: r)))) r).
Proof.
  intros Hsk Hsure.
  pose proof (skip_ws_head _ _ _ Hsk) as Hnw.
  destruct s as [|w s']; [discriminate|].
  destruct (is_json_ws (b2n w)) eqn:Ew.
  - (* at least one blank skipped *)
    rewrite (fold_ws _ _ _ _ Ew).
    destruct (fold_skip_ws s' true (S p)) as (pr' & Hpr & Hf). rewrite (Hpr eq_refl) in Hf.
    assert (Hsk' : skip_ws s' = b :: r) by (cbn [skip_ws] in Hsk; rewrite Ew in Hsk; exact Hsk).
    rewrite Hf, Hsk'. exists true.
    pose proof (skip_ws_length s') as Hl. rewrite Hsk' in Hl.
    replace (S p + (length s' - length (b :: r)))%nat with (p + (length (w :: s') - length (b :: r)))%nat
      by (cbn [length] in *; lia).
    cbn [s1_fold]. rewrite (step_struct true _ Hnw (or_introl eq_refl)). reflexivity.
  - assert (E : w :: s' = b :: r) by (cbn [skip_ws] in Hsk; rewrite Ew in Hsk; exact Hsk).
    injection E as -> ->. exists pr. rewrite Nat.sub_diag, Nat.add_0_r.
    cbn [s1_fold]. rewrite (step_struct pr _ Hnw).
    + reflexivity.
    + destruct Hsure as [H|[(w & s'' & E & Hw)|H]]; [left; exact H| |right; exact H].
      injection E as <- _. congruence.
Qed.

Definition delim (r : bytes) : Prop :=
  match r with [] => True | b :: _ => is_json_ws (b2n b) = true \/ is_markup (b2n b) = true end.

Lemma sure_of_delim pr r b r' : skip_ws r = b :: r' -> (pr = true \/ delim r) -> sure pr r b.
Proof.
  intros Hsk [H|H]; [left; exact H|].
  destruct r as [|w s']; [discriminate|]. cbn [delim] in H. destruct H as [H|H].
  - right; left. exists w, s'. auto.
  - destruct (is_json_ws (b2n w)) eqn:Ew.
    + right; left. exists w, s'. auto.
    + cbn [skip_ws] in Hsk. rewrite Ew in Hsk. injection Hsk as -> _. right; right; left. exact H.
Qed.

Lemma rest_ok_delim r : rest_ok r = true -> delim r.
Proof.
  destruct r as [|b r]; [exact (fun _ => I)|]. unfold rest_ok, is_eov_byte, delim, is_markup. cbv zeta.
  destruct (is_json_ws (b2n b)); [auto|]. intros H. right. lia.
Qed.

Lemma follows_ok_delim r : follows_ok r = true -> delim r.
Proof.
  destruct r as [|b r]; [discriminate|]. unfold follows_ok, delim.
  intros H. apply orb_true_iff in H. exact H.
Qed.

Lemma skip_ws_nil_last r : skip_ws r = [] -> r <> [] -> exists init c, r = init ++ [c] /\ is_json_ws (b2n c) = true.
Proof.
  intros Hsk Hne. destruct (skip_ws_split r) as (w & Hw & Hall). rewrite Hsk, app_nil_r in Hw. subst w.
  destruct (exists_last Hne) as (init & c & ->). exists init, c. split; [reflexivity|].
  apply Forall_app in Hall. destruct Hall as [_ Hc]. inversion Hc; assumption.
Qed.

(* literal prefixes *)
Lemma starts_with_true rest : starts_with [116; 114; 117; 101] (of_codes [116; 114; 117; 101] ++ rest) = Some rest.
Proof. reflexivity. Qed.
Lemma starts_with_false rest : starts_with [102; 97; 108; 115; 101] (of_codes [102; 97; 108; 115; 101] ++ rest) = Some rest.
Proof. reflexivity. Qed.
Lemma starts_with_null rest : starts_with [110; 117; 108; 108] (of_codes [110; 117; 108; 108] ++ rest) = Some rest.
Proof. reflexivity. Qed.

Lemma tlw m k k' : tl_ok m k -> k' <= k -> tl_ok m k'.
Proof. unfold tl_ok. lia. Qed.

Section Rej.
Variable copy : bool.
Variable msg : bytes.
Hypothesis Hlen : N.of_nat (length msg) < STRINGBUFBIT.
Variable stF : s1st.
(* what a positive stage-1 verdict says about the final state *)
Hypothesis Hinstr : s_instr stF = false.
Hypothesis Herr : s_err stF = false.

Local Notation mwf := (mwf msg).
Local Notation at_text := (at_text msg stF).

(* ------------------------------------------------------------------ *)
(* reading the next structural                                         *)

Lemma read_first m s pr b r :
  mwf m -> at_text m s pr -> skip_ws s = b :: r -> sure pr s b ->
  exists i1 cb rb, update_char m = UChar (adv m i1 (b :: r) cb rb) (b2n b).
Proof.
  intros Hwf (pre & Hm & Hi & Hc & Hs & Hf & Hp) Hsk Hsure.
  destruct (fold_to_first s pr (length pre) b r Hsk Hsure) as (pr' & Hfold).
  destruct (skip_ws_split s) as (w & Hw & _). rewrite Hsk in Hw.
  assert (Lw : (length s - length (b :: r) = length w)%nat).
  { rewrite Hw at 1. rewrite app_length. lia. }
  rewrite Lw in Hfold. rewrite Hfold in Hp. cbn [consp fst snd] in Hp.
  set (pre1 := pre ++ w).
  assert (L1 : length pre1 = (length pre + length w)%nat) by (unfold pre1; apply app_length).
  rewrite <- L1 in Hp. rewrite incs_cons in Hp.
  destruct (update_char_pending m _ _ (wf_rb _ m Hwf) Hp) as (cb & rb & Hrest & Hrb & Hu).
  assert (Hm1 : msg = pre1 ++ b :: r).
  { unfold pre1. rewrite <- app_assoc, <- Hw. exact Hm. }
  set (d := (S (length pre1) - N.to_nat (idx1 m))%nat) in *.
  assert (Hd : (1 <= d)%nat) by (unfold d; lia).
  assert (Hncur : (if idx1 m =? 0 then skipn (d - 1) (whole m) else skipn d (cur m)) = b :: r).
  { destruct (N.eqb_spec (idx1 m) 0) as [E0|E0].
    - rewrite (wf_whole _ m Hwf). replace (d - 1)%nat with (length pre1) by (unfold d; lia).
      rewrite Hm1 at 1. rewrite skipn_app, Nat.sub_diag, skipn_all. reflexivity.
    - rewrite (Hc E0), StrProofs.skipn_skipn'.
      replace (N.to_nat (idx1 m) - 1 + d)%nat with (length pre1) by (unfold d; lia).
      rewrite Hm1 at 1. rewrite skipn_app, Nat.sub_diag, skipn_all. reflexivity. }
  exists (idx1 m + N.of_nat d), cb, rb.
  rewrite Hu. cbv zeta. rewrite Hncur.
  replace ((d =? 0)%nat) with false by lia. reflexivity.
Qed.

Lemma no_next m s pr : mwf m -> at_text m s pr -> skip_ws s = [] -> update_char m = UDone m.
Proof.
  intros Hwf (pre & Hm & Hi & Hc & Hs & Hf & Hp) Hsk.
  destruct (fold_skip_ws s pr (length pre)) as (pr' & _ & Hsw).
  rewrite Hsk in Hsw. cbn [s1_fold] in Hsw. rewrite Hsw in Hp. cbn [snd] in Hp. rewrite incs_nil in Hp.
  apply update_char_done; [exact (wf_rb _ m Hwf)|exact Hp].
Qed.

(* the final state of stage 1, seen from the first non-blank byte of the remaining text *)
Lemma final_from_first m s pr b r :
  at_text m s pr -> skip_ws s = b :: r -> sure pr s b ->
  exists pr' p, fst (s1_fold false (fst (s1_step false (OutS pr') (b2n b))) p r) = stF.
Proof.
  intros (pre & Hm & Hi & Hc & Hs & Hf & Hp) Hsk Hsure.
  destruct (fold_to_first s pr (length pre) b r Hsk Hsure) as (pr' & Hfold).
  rewrite Hfold in Hf. cbn [consp fst] in Hf. eexists _, _. exact Hf.
Qed.

(* ------------------------------------------------------------------ *)
(* rejection                                                           *)

Definition rejects (l : label) (m : m2) : Prop :=
  forall fuel, (length (pending m) < fuel)%nat -> run_labels fuel copy l m = Err.

Lemma rejects_fail l m : step copy l m = Fail -> rejects l m.
Proof. intros H fuel Hf. destruct fuel as [|f]; [lia|]. cbn [run_labels]. rewrite H. reflexivity. Qed.

Lemma rejects_eof l m : update_char m = UDone m -> (2 <= length (stack m))%nat -> rejects l m.
Proof.
  intros Hu Hd fuel Hf. destruct fuel as [|f]; [lia|]. cbn [run_labels]. unfold step. rewrite Hu.
  unfold finish. destruct (stack m) as [|a [|b st]]; cbn [length] in Hd; try lia. reflexivity.
Qed.

Lemma rejects_nsteps k l m l1 m1 : nsteps copy k l m l1 m1 -> rejects l1 m1 -> rejects l m.
Proof.
  intros Hn Hr fuel Hf. pose proof (nsteps_pending copy _ _ _ _ _ Hn) as Hp.
  replace fuel with (k + (fuel - k))%nat by lia.
  rewrite (nsteps_run copy _ _ _ _ _ Hn). apply Hr. lia.
Qed.

(* a step that reads byte [c] with the rest of the buffer [b :: r] *)
Lemma rejects_read m s pr b r l :
  mwf m -> at_text m s pr -> skip_ws s = b :: r -> sure pr s b ->
  (forall m1, update_char m = UChar m1 (b2n b) -> cur m1 = b :: r -> sfuel m1 = sfuel m -> step copy l m = Fail) ->
  rejects l m.
Proof.
  intros Hwf Hat Hsk Hsure H.
  destruct (read_first m s pr b r Hwf Hat Hsk Hsure) as (i1 & cb & rb & Hu).
  apply rejects_fail. apply (H _ Hu); reflexivity.
Qed.

(* --- an ill-formed string literal ---------------------------------- *)
Lemma rej_string m s pr b r f l l' :
  mwf m -> at_text m s pr -> skip_ws s = b :: r -> b2n b = cQUOTE -> spec_string f r [] = SInvalid ->
  (forall m1, update_char m = UChar m1 cQUOTE -> step copy l m = do_string copy m1 (fun m'' => Next l' m'')) ->
  rejects l m.
Proof.
  intros Hwf Hat Hsk Hq Hspec Hstep.
  assert (Hsure : sure pr s b) by (right; right; right; exact Hq).
  destruct (final_from_first m s pr b r Hat Hsk Hsure) as (pr' & p & Hfin).
  rewrite (step_quote_open pr' _ Hq) in Hfin. cbn [fst] in Hfin.
  destruct (spec_invalid_cases2 _ _ _ Hspec)
    as [(pre & d & x & rest & Hs & Hd & Hp & Hx) | [(d & Hd & Hp) | (pre & d & q & Hs & Hd & Hq0 & Htq)]].
  - (* control character inside the string: stage 1 raised its error flag *)
    exfalso. rewrite Hs in Hfin.
    pose proof (fold_prefix_ctl pre d true p x rest Hd Hp Hx) as E. rewrite Hfin, Herr in E. discriminate.
  - (* no closing quote: stage 1 ended inside the string *)
    exfalso. pose proof (fold_unterminated r d true p Hd Hp) as E. rewrite Hfin, Hinstr in E. discriminate.
  - (* malformed escape: the string kernel fails *)
    apply (rejects_read m s pr b r l Hwf Hat Hsk Hsure).
    intros m1 Hu Hcur Hsf. rewrite Hq in Hu. rewrite (Hstep m1 Hu).
    unfold do_string. rewrite Hcur. unfold parse_string_model, str_validate.
    rewrite Hs, (str_reject _ pre d q); try assumption; [reflexivity|].
    rewrite Hsf, (wf_sfuel _ m Hwf).
    destruct Hat as (pre0 & Hm & _).
    destruct (skip_ws_split s) as (w & Hw & _). rewrite Hsk in Hw.
    apply (f_equal (@length byte)) in Hm. rewrite Hw, Hs, !app_length in Hm. cbn [length] in Hm.
    rewrite app_length in Hm. lia.
Qed.


(* ------------------------------------------------------------------ *)
(* successful sub-values: the acceptance simulation, with the stage-1
   pseudo-predecessor flag after the value made explicit                *)

Definition continues (l : label) (m : m2) (cont : label) (r : bytes) : Prop :=
  exists k m' pr', nsteps copy k l m cont m' /\ mwf m' /\ stack m' = stack m /\
    at_text m' r pr' /\ tl_ok m' 0 /\ (pr' = true \/ delim r).

Lemma arr_sim2 f r0 d r m ret T0 st0 :
  match skip_ws r0 with
  | b' :: r' => if b2n b' =? cRBRACK then SOk (DArr [], r') else spec_elems f (b' :: r') []
  | [] => SInvalid
  end = SOk (d, r) ->
  mwf m -> at_text m r0 true -> tl_ok m 0 -> ret < 4 ->
  tape_rev m = mk_word cLBRACK 0 :: T0 -> stack m = (N.of_nat (length T0) * 4 + ret) :: st0 ->
  exists k m', nsteps copy k L_arrBegin m (cont_of ret) m' /\ mwf m' /\ at_text m' r true /\ tl_ok m' 1 /\ stack m' = st0.
Proof.
  intros Hspec Hwf Hat Htl Hret Htape Hst.
  destruct (sim_all copy msg Hlen stF f) as (_ & HE & _).
  destruct (skip_ws r0) as [|b' r'] eqn:Esk; [discriminate|].
  destruct (b2n b' =? cRBRACK) eqn:Eb.
  - injection Hspec as <- <-. apply N.eqb_eq in Eb.
    destruct (sim_close copy msg Hlen stF m r0 true b' r' L_arrBegin T0 [] (mk_word cLBRACK 0) st0 ret Hwf Hat Htl Esk)
      as (m' & Hn & Hwf' & Hat' & Htl' & _ & _ & Hst' & _); auto.
    exists 1%nat, m'. auto.
  - destruct (at_text_skip msg Hlen stF m r0 true Hat) as (pr1 & Hpr1 & Hat1). rewrite (Hpr1 eq_refl), Esk in Hat1.
    destruct (HE _ _ _ _ m L_arrBegin Hspec (or_introl eq_refl) Hwf Hat1 Htl)
      as (k & m1 & wsm & ap & pr2 & r1 & b3 & l' & Hn & Hfr & Hat2 & Htl2 & Hsk2 & Hb3 & _ & _).
    destruct Hfr as [Hwf1 Htape1 Hstrs1 Hst1].
    rewrite Htape in Htape1. rewrite Hst in Hst1.
    destruct (sim_close copy msg Hlen stF m1 r1 pr2 b3 r L_arrCont T0 wsm (mk_word cLBRACK 0) st0 ret Hwf1 Hat2 Htl2 Hsk2)
      as (m' & Hn' & Hwf' & Hat' & Htl' & _ & _ & Hst' & _); auto.
    exists (k + 1)%nat, m'. split; [eapply nsteps_trans; [exact Hn|exact Hn']|]. auto.
Qed.

Lemma obj_sim2 f r0 d r m ret T0 st0 :
  match skip_ws r0 with
  | b' :: r' => if b2n b' =? cRBRACE then SOk (DObj [], r') else spec_members f (b' :: r') []
  | [] => SInvalid
  end = SOk (d, r) ->
  mwf m -> at_text m r0 true -> tl_ok m 0 -> ret < 4 ->
  tape_rev m = mk_word cLBRACE 0 :: T0 -> stack m = (N.of_nat (length T0) * 4 + ret) :: st0 ->
  exists k m', nsteps copy k L_objBegin m (cont_of ret) m' /\ mwf m' /\ at_text m' r true /\ tl_ok m' 1 /\ stack m' = st0.
Proof.
  intros Hspec Hwf Hat Htl Hret Htape Hst.
  destruct (sim_all copy msg Hlen stF f) as (_ & _ & HM).
  destruct (skip_ws r0) as [|b' r'] eqn:Esk; [discriminate|].
  destruct (b2n b' =? cRBRACE) eqn:Eb.
  - injection Hspec as <- <-. apply N.eqb_eq in Eb.
    destruct (sim_close copy msg Hlen stF m r0 true b' r' L_objBegin T0 [] (mk_word cLBRACE 0) st0 ret Hwf Hat Htl Esk)
      as (m' & Hn & Hwf' & Hat' & Htl' & _ & _ & Hst' & _); auto.
    exists 1%nat, m'. auto.
  - destruct (at_text_skip msg Hlen stF m r0 true Hat) as (pr1 & Hpr1 & Hat1). rewrite (Hpr1 eq_refl), Esk in Hat1.
    destruct (HM _ _ _ _ m L_objBegin Hspec (or_introl eq_refl) Hwf Hat1 Htl)
      as (k & m1 & wsm & ap & pr2 & r1 & b3 & l' & Hn & Hfr & Hat2 & Htl2 & Hsk2 & Hb3 & _ & _).
    destruct Hfr as [Hwf1 Htape1 Hstrs1 Hst1].
    rewrite Htape in Htape1. rewrite Hst in Hst1.
    destruct (sim_close copy msg Hlen stF m1 r1 pr2 b3 r L_objCont T0 wsm (mk_word cLBRACE 0) st0 ret Hwf1 Hat2 Htl2 Hsk2)
      as (m' & Hn' & Hwf' & Hat' & Htl' & _ & _ & Hst' & _); auto.
    exists (k + 1)%nat, m'. split; [eapply nsteps_trans; [exact Hn|exact Hn']|]. auto.
Qed.

Lemma step_vlabel2 l ret cont m m1 c :
  vlabel l ret cont -> update_char m = UChar m1 c -> (l = L_arrBegin -> (c =? cRBRACK) = false) ->
  step copy l m = value_switch copy m1 c ret cont.
Proof.
  intros Hv Hu Hc. rewrite (step_uchar copy l m m1 c Hu).
  destruct Hv as [(-> & -> & ->)|[(-> & -> & ->)|(-> & -> & ->)]]; try reflexivity.
  rewrite (Hc eq_refl). reflexivity.
Qed.

(* a whole container value, from its opening byte *)
Lemma container_continues m s b r0 l ret cont f d r :
  mwf m -> at_text m s true -> tl_ok m 0 -> skip_ws s = b :: r0 -> ret < 4 -> cont = cont_of ret ->
  (b2n b = cLBRACE /\
   match skip_ws r0 with
   | b' :: r' => if b2n b' =? cRBRACE then SOk (DObj [], r') else spec_members f (b' :: r') []
   | [] => SInvalid
   end = SOk (d, r) \/
   b2n b = cLBRACK /\
   match skip_ws r0 with
   | b' :: r' => if b2n b' =? cRBRACK then SOk (DArr [], r') else spec_elems f (b' :: r') []
   | [] => SInvalid
   end = SOk (d, r)) ->
  (forall m1 lb, update_char m = UChar m1 (b2n b) -> (b2n b = cLBRACE /\ lb = L_objBegin \/ b2n b = cLBRACK /\ lb = L_arrBegin) ->
     step copy l m = Next lb (write_tape (push_scope m1 ret) 0 (b2n b))) ->
  exists k m', nsteps copy k l m cont m' /\ mwf m' /\ stack m' = stack m /\ at_text m' r true /\ tl_ok m' 1.
Proof.
  intros Hwf Hat Htl Esk Hret -> Hcase Hstep.
  destruct Hcase as [(E1 & Hspec)|(E2 & Hspec)].
  - destruct (sim_open copy msg Hlen stF m s b r0 l ret L_objBegin Hwf Hat Htl Esk (or_introl (conj E1 eq_refl)))
      as (m2 & Hn2 & Hwf2 & Hat2 & Htl2 & Htape2 & Hstrs2 & Hst2).
    { intros m1 Hu. apply Hstep; auto. }
    rewrite E1 in Htape2. rewrite (wf_tlen _ m Hwf) in Hst2.
    destruct (obj_sim2 f r0 d r m2 ret (tape_rev m) (stack m) Hspec Hwf2 Hat2 (tlw m2 1 0 Htl2 ltac:(lia)) Hret Htape2 Hst2)
      as (k & m' & Hn & Hwf' & Hat' & Htl' & Hst').
    exists (1 + k)%nat, m'. split; [eapply nsteps_trans; [exact Hn2|exact Hn]|]. auto.
  - destruct (sim_open copy msg Hlen stF m s b r0 l ret L_arrBegin Hwf Hat Htl Esk (or_intror (conj E2 eq_refl)))
      as (m2 & Hn2 & Hwf2 & Hat2 & Htl2 & Htape2 & Hstrs2 & Hst2).
    { intros m1 Hu. apply Hstep; auto. }
    rewrite E2 in Htape2. rewrite (wf_tlen _ m Hwf) in Hst2.
    destruct (arr_sim2 f r0 d r m2 ret (tape_rev m) (stack m) Hspec Hwf2 Hat2 (tlw m2 1 0 Htl2 ltac:(lia)) Hret Htape2 Hst2)
      as (k & m' & Hn & Hwf' & Hat' & Htl' & Hst').
    exists (1 + k)%nat, m'. split; [eapply nsteps_trans; [exact Hn2|exact Hn]|]. auto.
Qed.

(* a scalar token accepted by its validator *)
Lemma scalar_continues m s b t r' l cont (op : m2 -> m2) ws :
  mwf m -> at_text m s true -> tl_ok m 0 ->
  skip_ws s = (b :: t) ++ r' -> forallb (fun b => plainc (b2n b)) (b :: t) = true ->
  (length ws <= 2)%nat -> delim r' ->
  (forall m1, tape_rev (op m1) = rev ws ++ tape_rev m1 /\ tlen (op m1) = tlen m1 + N.of_nat (length ws) /\
              same_but_tape m1 (op m1)) ->
  (forall m1, update_char m = UChar m1 (b2n b) -> cur m1 = (b :: t) ++ r' -> step copy l m = Next cont (op m1)) ->
  continues l m cont r'.
Proof.
  intros Hwf Hat Htl Hsk Hpl Hws Hdel Hop Hstep.
  destruct (sim_scalar copy msg Hlen stF m s b t r' l cont op ws Hwf Hat Htl Hsk Hpl Hws Hop Hstep)
    as (m' & pr' & Hn & Hfr & Hat' & Htl').
  exists 1%nat, m', pr'. destruct Hfr as [A B C D]. auto 10.
Qed.

Definition V_ok (f : nat) : Prop := forall s d r m l ret cont,
  spec_value f s = SOk (d, r) -> vlabel l ret cont ->
  mwf m -> at_text m s true -> tl_ok m 0 ->
  rejects l m \/ continues l m cont r.

Lemma V_ok_all f : V_ok f.
Proof.
  destruct f as [|f]; [intros s d r m l ret cont H; discriminate H|].
  intros s d r m l ret cont Hspec Hvl Hwf Hat Htl.
  destruct (vlabel_cont _ _ _ Hvl) as [Hcont Hret].
  rewrite spec_value_S in Hspec.
  destruct (skip_ws s) as [|b r0] eqn:Esk; [discriminate|]. cbv zeta in Hspec.
  assert (Hsure : sure true s b) by (left; reflexivity).
  destruct (b2n b =? cLBRACE) eqn:E1.
  { right. apply N.eqb_eq in E1.
    destruct (container_continues m s b r0 l ret cont f d r Hwf Hat Htl Esk Hret Hcont (or_introl (conj E1 Hspec)))
      as (k & m' & Hn & Hwf' & Hst' & Hat' & Htl').
    { intros m1 lb Hu Hlb. rewrite (step_vlabel2 l ret cont m m1 _ Hvl Hu) by (intros _; rewrite E1; reflexivity).
      destruct Hlb as [(_ & ->)|(E & _)]; [|rewrite E1 in E; discriminate].
      rewrite value_switch_lbrace by exact E1. rewrite E1. reflexivity. }
    exists k, m', true. split; [exact Hn|]. split; [exact Hwf'|]. split; [exact Hst'|]. split; [exact Hat'|].
    split; [eapply tlw; [exact Htl'|lia]|left; reflexivity]. }
  destruct (b2n b =? cLBRACK) eqn:E2.
  { right. apply N.eqb_eq in E2.
    destruct (container_continues m s b r0 l ret cont f d r Hwf Hat Htl Esk Hret Hcont (or_intror (conj E2 Hspec)))
      as (k & m' & Hn & Hwf' & Hst' & Hat' & Htl').
    { intros m1 lb Hu Hlb. rewrite (step_vlabel2 l ret cont m m1 _ Hvl Hu) by (intros _; rewrite E2; reflexivity).
      destruct Hlb as [(E & _)|(_ & ->)]; [rewrite E2 in E; discriminate|].
      rewrite value_switch_lbrack by exact E2. rewrite E2. reflexivity. }
    exists k, m', true. split; [exact Hn|]. split; [exact Hwf'|]. split; [exact Hst'|]. split; [exact Hat'|].
    split; [eapply tlw; [exact Htl'|lia]|left; reflexivity]. }
  destruct (b2n b =? cQUOTE) eqn:E3.
  { right. apply N.eqb_eq in E3.
    destruct (spec_string f r0 []) as [[str r']| | |] eqn:Es; try discriminate.
    injection Hspec as <- <-.
    destruct (sim_string copy msg Hlen stF m s true b r0 str r' f l cont Hwf Hat Htl Esk E3 Es)
      as (m1 & w & len & ap & Hn & Hfr & Hat1 & Htl1 & _).
    { intros m1 Hu. rewrite (step_vlabel2 l ret cont m m1 _ Hvl Hu) by reflexivity.
      apply value_switch_quote. reflexivity. }
    exists 1%nat, m1, true. destruct Hfr as [A B C D]. auto 10. }
  destruct (b2n b =? c_t) eqn:E4.
  { apply N.eqb_eq in E4.
    destruct (starts_with [116; 114; 117; 101] (b :: r0)) as [r'|] eqn:Esw; [|discriminate].
    injection Hspec as <- <-.
    apply starts_with_split in Esw. cbn [of_codes map app] in Esw.
    destruct (follows_ok r') eqn:Hfol.
    - right. rewrite Esw in Esk. injection Esw as -> _.
      apply (scalar_continues m s (n2b 116) [n2b 114; n2b 117; n2b 101] r' l cont (fun m1 => write_tape m1 0 c_t) [mk_word c_t 0]
                Hwf Hat Htl Esk eq_refl); [cbn [length]; lia|apply follows_ok_delim; exact Hfol| |].
      + intros m1. split; [reflexivity|]. split; [reflexivity|]. apply same_write_tape.
      + intros m1 Hu Hcur. rewrite (step_vlabel2 l ret cont m m1 _ Hvl Hu) by reflexivity.
        rewrite value_switch_t by reflexivity. rewrite Hcur.
        replace (is_true_atom ([n2b 116; n2b 114; n2b 117; n2b 101] ++ r')) with true; [reflexivity|].
        symmetry. apply true_atom_spec. exists r'. split; [reflexivity|exact Hfol].
    - left. apply (rejects_read m s true b r0 l Hwf Hat Esk Hsure). intros m1 Hu Hcur _.
      rewrite (step_vlabel2 l ret cont m m1 _ Hvl Hu) by (intros _; rewrite E4; reflexivity).
      rewrite value_switch_t by exact E4. rewrite Hcur.
      destruct (is_true_atom (b :: r0)) eqn:Ea; [|reflexivity]. exfalso.
      apply true_atom_spec in Ea. destruct Ea as (rest & Er & Hf). cbn [of_codes map app] in Er.
      rewrite Esw in Er. injection Er as ->. congruence. }
  destruct (b2n b =? c_f) eqn:E5.
  { apply N.eqb_eq in E5.
    destruct (starts_with [102; 97; 108; 115; 101] (b :: r0)) as [r'|] eqn:Esw; [|discriminate].
    injection Hspec as <- <-.
    apply starts_with_split in Esw. cbn [of_codes map app] in Esw.
    destruct (follows_ok r') eqn:Hfol.
    - right. rewrite Esw in Esk. injection Esw as -> _.
      apply (scalar_continues m s (n2b 102) [n2b 97; n2b 108; n2b 115; n2b 101] r' l cont (fun m1 => write_tape m1 0 c_f) [mk_word c_f 0]
                Hwf Hat Htl Esk eq_refl); [cbn [length]; lia|apply follows_ok_delim; exact Hfol| |].
      + intros m1. split; [reflexivity|]. split; [reflexivity|]. apply same_write_tape.
      + intros m1 Hu Hcur. rewrite (step_vlabel2 l ret cont m m1 _ Hvl Hu) by reflexivity.
        rewrite value_switch_f by reflexivity. rewrite Hcur.
        replace (is_false_atom ([n2b 102; n2b 97; n2b 108; n2b 115; n2b 101] ++ r')) with true; [reflexivity|].
        symmetry. apply false_atom_spec. exists r'. split; [reflexivity|exact Hfol].
    - left. apply (rejects_read m s true b r0 l Hwf Hat Esk Hsure). intros m1 Hu Hcur _.
      rewrite (step_vlabel2 l ret cont m m1 _ Hvl Hu) by (intros _; rewrite E5; reflexivity).
      rewrite value_switch_f by exact E5. rewrite Hcur.
      destruct (is_false_atom (b :: r0)) eqn:Ea; [|reflexivity]. exfalso.
      apply false_atom_spec in Ea. destruct Ea as (rest & Er & Hf). cbn [of_codes map app] in Er.
      rewrite Esw in Er. injection Er as ->. congruence. }
  destruct (b2n b =? c_n) eqn:E6.
  { apply N.eqb_eq in E6.
    destruct (starts_with [110; 117; 108; 108] (b :: r0)) as [r'|] eqn:Esw; [|discriminate].
    injection Hspec as <- <-.
    apply starts_with_split in Esw. cbn [of_codes map app] in Esw.
    destruct (follows_ok r') eqn:Hfol.
    - right. rewrite Esw in Esk. injection Esw as -> _.
      apply (scalar_continues m s (n2b 110) [n2b 117; n2b 108; n2b 108] r' l cont (fun m1 => write_tape m1 0 c_n) [mk_word c_n 0]
                Hwf Hat Htl Esk eq_refl); [cbn [length]; lia|apply follows_ok_delim; exact Hfol| |].
      + intros m1. split; [reflexivity|]. split; [reflexivity|]. apply same_write_tape.
      + intros m1 Hu Hcur. rewrite (step_vlabel2 l ret cont m m1 _ Hvl Hu) by reflexivity.
        rewrite value_switch_n by reflexivity. rewrite Hcur.
        replace (is_null_atom ([n2b 110; n2b 117; n2b 108; n2b 108] ++ r')) with true; [reflexivity|].
        symmetry. apply null_atom_spec. exists r'. split; [reflexivity|exact Hfol].
    - left. apply (rejects_read m s true b r0 l Hwf Hat Esk Hsure). intros m1 Hu Hcur _.
      rewrite (step_vlabel2 l ret cont m m1 _ Hvl Hu) by (intros _; rewrite E6; reflexivity).
      rewrite value_switch_n by exact E6. rewrite Hcur.
      destruct (is_null_atom (b :: r0)) eqn:Ea; [|reflexivity]. exfalso.
      apply null_atom_spec in Ea. destruct Ea as (rest & Er & Hf). cbn [of_codes map app] in Er.
      rewrite Esw in Er. injection Er as ->. congruence. }
  destruct ((b2n b =? cMINUS) || is_digit (b2n b)) eqn:E7; [|discriminate].
  destruct (lex_number (b :: r0)) as [[lit r']|] eqn:El; [|discriminate].
  destruct (num_spec lit) as [n|] eqn:En; [|discriminate].
  injection Hspec as <- <-.
  assert (Hnb : (b2n b =? cRBRACK) = false).
  { unfold is_digit, cMINUS, c0, c9, cRBRACK in *. lia. }
  destruct (rest_ok r') eqn:Hrest.
  - right.
    destruct (lex_number_shape _ _ _ El) as (pc & Hpwf & Hren & _).
    destruct (render pc) as [|b' t] eqn:Er.
    { exfalso. apply (render_nonempty pc Hpwf). rewrite Er. reflexivity. }
    cbn [app] in Hren. injection Hren as <- Hr0.
    assert (Hpl : forallb (fun b => plainc (b2n b)) (b :: t) = true).
    { pose proof (partb_render pc Hpwf) as Hp. rewrite Er in Hp. rewrite forallb_forall in *.
      intros x Hx. apply partb_plainc. apply Hp. exact Hx. }
    assert (Esk' : skip_ws s = (b :: t) ++ r') by (rewrite Esk, Hr0; reflexivity).
    pose proof (number_model_correct _ _ _ El Hrest) as Hnum. rewrite En in Hnum. cbn [option_map] in Hnum.
    apply (scalar_continues m s b t r' l cont (fun m1 => write_raw2 m1 (fst (enc_num n)) (snd (enc_num n)))
              [fst (enc_num n); snd (enc_num n)] Hwf Hat Htl Esk' Hpl); [cbn [length]; lia|apply rest_ok_delim; exact Hrest| |].
    + intros m1. split; [reflexivity|]. split; [reflexivity|]. apply same_write_raw2.
    + intros m1 Hu Hcur.
      rewrite (step_vlabel2 l ret cont m m1 _ Hvl Hu) by (intros _; exact Hnb).
      rewrite value_switch_num by exact E7. rewrite Hcur. cbn [app]. rewrite <- Hr0, Hnum.
      destruct (enc_num n). reflexivity.
  - left. apply (rejects_read m s true b r0 l Hwf Hat Esk Hsure). intros m1 Hu Hcur _.
    rewrite (step_vlabel2 l ret cont m m1 _ Hvl Hu) by (intros _; exact Hnb).
    rewrite value_switch_num by exact E7. rewrite Hcur.
    rewrite (number_model_reject b r0 E7); [reflexivity|]. right. exists lit, r'. auto.
Qed.


(* ------------------------------------------------------------------ *)
(* after a value: what the machine sees at the continuation label      *)

Lemma continues_next l m cont r :
  continues l m cont r -> (2 <= length (stack m))%nat ->
  (forall m' pr', mwf m' -> stack m' = stack m -> at_text m' r pr' -> tl_ok m' 0 -> (pr' = true \/ delim r) ->
      rejects cont m') ->
  rejects l m.
Proof.
  intros (k & m' & pr' & Hn & Hwf' & Hst' & Hat' & Htl' & Hd) Hdepth H.
  apply (rejects_nsteps _ _ _ _ _ Hn). apply (H m' pr'); assumption.
Qed.

(* ------------------------------------------------------------------ *)
(* the failure simulation                                              *)

Definition R_V (f : nat) : Prop := forall s m l ret cont,
  spec_value f s = SInvalid -> vlabel l ret cont ->
  (l = L_arrBegin -> forall b r, skip_ws s = b :: r -> (b2n b =? cRBRACK) = false) ->
  mwf m -> at_text m s true -> tl_ok m 0 -> (2 <= length (stack m))%nat ->
  rejects l m.

Definition R_E (f : nat) : Prop := forall s acc m l,
  spec_elems f s acc = SInvalid -> (l = L_arrBegin \/ l = L_arrValue) ->
  (l = L_arrBegin -> forall b r, skip_ws s = b :: r -> (b2n b =? cRBRACK) = false) ->
  mwf m -> at_text m s true -> tl_ok m 0 -> (2 <= length (stack m))%nat ->
  rejects l m.

Definition R_M (f : nat) : Prop := forall s acc m l,
  spec_members f s acc = SInvalid -> (l = L_objBegin \/ l = L_objKey) ->
  (l = L_objBegin -> forall b r, skip_ws s = b :: r -> (b2n b =? cRBRACE) = false) ->
  mwf m -> at_text m s true -> tl_ok m 0 -> (2 <= length (stack m))%nat ->
  rejects l m.

(* inside a freshly opened container *)
Lemma arr_rej f r0 m :
  R_E f ->
  match skip_ws r0 with
  | b' :: r' => if b2n b' =? cRBRACK then SOk (DArr [], r') else spec_elems f (b' :: r') []
  | [] => SInvalid
  end = SInvalid ->
  mwf m -> at_text m r0 true -> tl_ok m 0 -> (2 <= length (stack m))%nat ->
  rejects L_arrBegin m.
Proof.
  intros HE Hspec Hwf Hat Htl Hdepth.
  destruct (skip_ws r0) as [|b' r'] eqn:Esk.
  { apply rejects_eof; [eapply no_next; eassumption|exact Hdepth]. }
  destruct (b2n b' =? cRBRACK) eqn:Eb; [discriminate|].
  destruct (at_text_skip msg Hlen stF m r0 true Hat) as (pr1 & Hpr1 & Hat1). rewrite (Hpr1 eq_refl), Esk in Hat1.
  apply (HE (b' :: r') [] m L_arrBegin Hspec (or_introl eq_refl)); try assumption.
  intros _ b r Hs. rewrite (skip_ws_nonws b' r' (skip_ws_head _ _ _ Esk)) in Hs. injection Hs as <- _. exact Eb.
Qed.

Lemma obj_rej f r0 m :
  R_M f ->
  match skip_ws r0 with
  | b' :: r' => if b2n b' =? cRBRACE then SOk (DObj [], r') else spec_members f (b' :: r') []
  | [] => SInvalid
  end = SInvalid ->
  mwf m -> at_text m r0 true -> tl_ok m 0 -> (2 <= length (stack m))%nat ->
  rejects L_objBegin m.
Proof.
  intros HM Hspec Hwf Hat Htl Hdepth.
  destruct (skip_ws r0) as [|b' r'] eqn:Esk.
  { apply rejects_eof; [eapply no_next; eassumption|exact Hdepth]. }
  destruct (b2n b' =? cRBRACE) eqn:Eb; [discriminate|].
  destruct (at_text_skip msg Hlen stF m r0 true Hat) as (pr1 & Hpr1 & Hat1). rewrite (Hpr1 eq_refl), Esk in Hat1.
  apply (HM (b' :: r') [] m L_objBegin Hspec (or_introl eq_refl)); try assumption.
  intros _ b r Hs. rewrite (skip_ws_nonws b' r' (skip_ws_head _ _ _ Esk)) in Hs. injection Hs as <- _. exact Eb.
Qed.

(* opening a container whose content is rejected *)
Lemma open_rej m s b r0 l ret lb :
  mwf m -> at_text m s true -> tl_ok m 0 -> skip_ws s = b :: r0 -> (1 <= length (stack m))%nat ->
  ((b2n b = cLBRACE /\ lb = L_objBegin) \/ (b2n b = cLBRACK /\ lb = L_arrBegin)) ->
  (forall m1, update_char m = UChar m1 (b2n b) ->
     step copy l m = Next lb (write_tape (push_scope m1 ret) 0 (b2n b))) ->
  (forall m2, mwf m2 -> at_text m2 r0 true -> tl_ok m2 0 -> (2 <= length (stack m2))%nat -> rejects lb m2) ->
  rejects l m.
Proof.
  intros Hwf Hat Htl Esk Hdep Hcase Hstep H.
  destruct (sim_open copy msg Hlen stF m s b r0 l ret lb Hwf Hat Htl Esk Hcase Hstep)
    as (m2 & Hn2 & Hwf2 & Hat2 & Htl2 & _ & _ & Hst2).
  apply (rejects_nsteps _ _ _ _ _ Hn2). apply H; try assumption.
  - eapply tlw; [exact Htl2|lia].
  - rewrite Hst2. cbn [length]. lia.
Qed.

Lemma value_switch_other m c ret cont :
  (c =? cLBRACE) = false -> (c =? cLBRACK) = false -> (c =? cQUOTE) = false -> (c =? c_t) = false ->
  (c =? c_f) = false -> (c =? c_n) = false -> (c =? cMINUS) || is_digit c = false ->
  value_switch copy m c ret cont = Fail.
Proof.
  intros E1 E2 E3 E4 E5 E6 E7. unfold value_switch. rewrite E1, E2, E3, E4, E5, E6, E7. reflexivity.
Qed.

Lemma RV_step f : R_E f -> R_M f -> R_V (S f).
Proof.
  intros HE HM s m l ret cont Hspec Hvl Hside Hwf Hat Htl Hdepth.
  destruct (vlabel_cont _ _ _ Hvl) as [Hcont Hret].
  rewrite spec_value_S in Hspec.
  destruct (skip_ws s) as [|b r0] eqn:Esk.
  { apply rejects_eof; [eapply no_next; eassumption|exact Hdepth]. }
  cbv zeta in Hspec.
  assert (Hsure : sure true s b) by (left; reflexivity).
  assert (Hside' : l = L_arrBegin -> (b2n b =? cRBRACK) = false).
  { intros El. exact (Hside El b r0 eq_refl). }
  destruct (b2n b =? cLBRACE) eqn:E1.
  { apply N.eqb_eq in E1.
    apply (open_rej m s b r0 l ret L_objBegin Hwf Hat Htl Esk ltac:(lia) (or_introl (conj E1 eq_refl))).
    - intros m1 Hu. rewrite (step_vlabel2 l ret cont m m1 _ Hvl Hu Hside').
      rewrite value_switch_lbrace by exact E1. rewrite E1. reflexivity.
    - intros m2 Hwf2 Hat2 Htl2 Hd2. apply (obj_rej f r0 m2 HM Hspec); assumption. }
  destruct (b2n b =? cLBRACK) eqn:E2.
  { apply N.eqb_eq in E2.
    apply (open_rej m s b r0 l ret L_arrBegin Hwf Hat Htl Esk ltac:(lia) (or_intror (conj E2 eq_refl))).
    - intros m1 Hu. rewrite (step_vlabel2 l ret cont m m1 _ Hvl Hu Hside').
      rewrite value_switch_lbrack by exact E2. rewrite E2. reflexivity.
    - intros m2 Hwf2 Hat2 Htl2 Hd2. apply (arr_rej f r0 m2 HE Hspec); assumption. }
  destruct (b2n b =? cQUOTE) eqn:E3.
  { apply N.eqb_eq in E3.
    destruct (spec_string f r0 []) as [[str r']| | |] eqn:Es; try discriminate.
    apply (rej_string m s true b r0 f l cont Hwf Hat Esk E3 Es).
    intros m1 Hu. rewrite <- E3 in Hu. rewrite (step_vlabel2 l ret cont m m1 _ Hvl Hu Hside').
    apply value_switch_quote. exact E3. }
  destruct (b2n b =? c_t) eqn:E4.
  { destruct (starts_with [116; 114; 117; 101] (b :: r0)) as [r'|] eqn:Esw; [discriminate|].
    apply (rejects_read m s true b r0 l Hwf Hat Esk Hsure). intros m1 Hu Hcur _.
    rewrite (step_vlabel2 l ret cont m m1 _ Hvl Hu Hside').
    rewrite value_switch_t by (apply N.eqb_eq; exact E4). rewrite Hcur.
    destruct (is_true_atom (b :: r0)) eqn:Ea; [|reflexivity]. exfalso.
    apply true_atom_spec in Ea. destruct Ea as (rest & Er & Hf).
    rewrite Er, starts_with_true in Esw. discriminate. }
  destruct (b2n b =? c_f) eqn:E5.
  { destruct (starts_with [102; 97; 108; 115; 101] (b :: r0)) as [r'|] eqn:Esw; [discriminate|].
    apply (rejects_read m s true b r0 l Hwf Hat Esk Hsure). intros m1 Hu Hcur _.
    rewrite (step_vlabel2 l ret cont m m1 _ Hvl Hu Hside').
    rewrite value_switch_f by (apply N.eqb_eq; exact E5). rewrite Hcur.
    destruct (is_false_atom (b :: r0)) eqn:Ea; [|reflexivity]. exfalso.
    apply false_atom_spec in Ea. destruct Ea as (rest & Er & Hf).
    rewrite Er, starts_with_false in Esw. discriminate. }
  destruct (b2n b =? c_n) eqn:E6.
  { destruct (starts_with [110; 117; 108; 108] (b :: r0)) as [r'|] eqn:Esw; [discriminate|].
    apply (rejects_read m s true b r0 l Hwf Hat Esk Hsure). intros m1 Hu Hcur _.
    rewrite (step_vlabel2 l ret cont m m1 _ Hvl Hu Hside').
    rewrite value_switch_n by (apply N.eqb_eq; exact E6). rewrite Hcur.
    destruct (is_null_atom (b :: r0)) eqn:Ea; [|reflexivity]. exfalso.
    apply null_atom_spec in Ea. destruct Ea as (rest & Er & Hf).
    rewrite Er, starts_with_null in Esw. discriminate. }
  apply (rejects_read m s true b r0 l Hwf Hat Esk Hsure). intros m1 Hu Hcur _.
  rewrite (step_vlabel2 l ret cont m m1 _ Hvl Hu Hside').
  destruct ((b2n b =? cMINUS) || is_digit (b2n b)) eqn:E7.
  - rewrite value_switch_num by exact E7. rewrite Hcur.
    replace (parse_number_model (b :: r0)) with (@None (N * N)); [reflexivity|]. symmetry.
    destruct (lex_number (b :: r0)) as [[lit r']|] eqn:El.
    + destruct (num_spec lit) as [n|] eqn:En; [discriminate|].
      destruct (rest_ok r') eqn:Hrest.
      * exact (number_model_nonfinite _ _ _ El Hrest En).
      * apply (number_model_reject b r0 E7). right. exists lit, r'. auto.
    + apply (number_model_reject b r0 E7). left. exact El.
  - apply value_switch_other; assumption.
Qed.

Lemma RE_step f : R_V f -> R_E f -> R_E (S f).
Proof.
  intros HV HE s acc m l Hspec Hl Hside Hwf Hat Htl Hdepth.
  rewrite spec_elems_S in Hspec.
  assert (Hvl : vlabel l retArray L_arrCont).
  { destruct Hl as [-> | ->]; [right; right|right; left]; auto. }
  destruct (spec_value f s) as [[v r1]| | |] eqn:Ev; try discriminate.
  2:{ apply (HV s m l retArray L_arrCont Ev Hvl Hside); assumption. }
  destruct (V_ok_all f s v r1 m l retArray L_arrCont Ev Hvl Hwf Hat Htl) as [Hrej|Hcont]; [exact Hrej|].
  apply (continues_next _ _ _ _ Hcont Hdepth).
  intros m' pr' Hwf' Hst' Hat' Htl' Hd.
  destruct (skip_ws r1) as [|b r'] eqn:Esk.
  { apply rejects_eof; [eapply no_next; eassumption|rewrite Hst'; exact Hdepth]. }
  destruct (b2n b =? cCOMMA) eqn:Ec.
  - destruct (sim_markup copy msg Hlen stF m' r1 pr' b r' L_arrCont L_arrValue Hwf' Hat' Htl' Esk)
      as (m2 & Hn2 & Hfr2 & Hat2 & Htl2).
    { right; right. apply N.eqb_eq in Ec. auto. }
    apply (rejects_nsteps _ _ _ _ _ Hn2).
    destruct Hfr2 as [Hwf2 _ _ Hst2].
    apply (HE r' (v :: acc) m2 L_arrValue Hspec (or_intror eq_refl)); try assumption.
    + intros E; discriminate E.
    + rewrite Hst2, Hst'. exact Hdepth.
  - destruct (b2n b =? cRBRACK) eqn:Eb; [discriminate|].
    apply (rejects_read m' r1 pr' b r' L_arrCont Hwf' Hat' Esk (sure_of_delim _ _ _ _ Esk Hd)).
    intros m1 Hu _ _. rewrite (step_uchar copy _ _ _ _ Hu), Ec, Eb. reflexivity.
Qed.

Lemma RM_step f : R_V f -> R_M f -> R_M (S f).
Proof.
  intros HV HM s acc m l Hspec Hl Hside Hwf Hat Htl Hdepth.
  rewrite spec_members_S in Hspec.
  destruct (skip_ws s) as [|b r0] eqn:Esk.
  { apply rejects_eof; [eapply no_next; eassumption|exact Hdepth]. }
  assert (Hsure : sure true s b) by (left; reflexivity).
  destruct (b2n b =? cQUOTE) eqn:Eq.
  2:{ apply (rejects_read m s true b r0 l Hwf Hat Esk Hsure). intros m1 Hu _ _.
      rewrite (step_uchar copy _ _ _ _ Hu). destruct Hl as [-> | ->]; rewrite Eq; [|reflexivity].
      rewrite (Hside eq_refl b r0 eq_refl). reflexivity. }
  apply N.eqb_eq in Eq.
  assert (Hstr : forall m1, update_char m = UChar m1 cQUOTE ->
            step copy l m = do_string copy m1 (fun m'' => Next L_objColon m'')).
  { intros m1 Hu. rewrite (step_uchar copy l m m1 _ Hu). destruct Hl as [-> | ->]; reflexivity. }
  destruct (spec_string f r0 []) as [[key r1]| | |] eqn:Es; try discriminate.
  2:{ apply (rej_string m s true b r0 f l L_objColon Hwf Hat Esk Eq Es Hstr). }
  (* key *)
  destruct (sim_string copy msg Hlen stF m s true b r0 key r1 f l L_objColon Hwf Hat Htl Esk Eq Es Hstr)
    as (m1 & kw & klen & ap1 & Hn1 & Hfr1 & Hat1 & Htl1 & _).
  apply (rejects_nsteps _ _ _ _ _ Hn1).
  destruct Hfr1 as [Hwf1 _ _ Hst1].
  assert (Hd1 : (2 <= length (stack m1))%nat) by (rewrite Hst1; exact Hdepth).
  destruct (skip_ws r1) as [|b1 r2] eqn:Esk1.
  { apply rejects_eof; [eapply no_next; eassumption|exact Hd1]. }
  destruct (b2n b1 =? cCOLON) eqn:Ecol.
  2:{ apply (rejects_read m1 r1 true b1 r2 L_objColon Hwf1 Hat1 Esk1 (or_introl eq_refl)). intros m1' Hu _ _.
      rewrite (step_uchar copy _ _ _ _ Hu), Ecol. reflexivity. }
  apply N.eqb_eq in Ecol.
  (* colon *)
  destruct (sim_markup copy msg Hlen stF m1 r1 true b1 r2 L_objColon L_objValue Hwf1 Hat1 Htl1 Esk1)
    as (m2 & Hn2 & Hfr2 & Hat2 & Htl2).
  { left. auto. }
  apply (rejects_nsteps _ _ _ _ _ Hn2).
  destruct Hfr2 as [Hwf2 _ _ Hst2].
  assert (Hd2 : (2 <= length (stack m2))%nat) by (rewrite Hst2; exact Hd1).
  assert (Hvl : vlabel L_objValue retObject L_objCont) by (left; auto).
  destruct (spec_value f r2) as [[v r3]| | |] eqn:Ev; try discriminate.
  2:{ apply (HV r2 m2 L_objValue retObject L_objCont Ev Hvl); try assumption. intros E; discriminate E. }
  (* value *)
  destruct (V_ok_all f r2 v r3 m2 L_objValue retObject L_objCont Ev Hvl Hwf2 Hat2 Htl2) as [Hrej|Hcont]; [exact Hrej|].
  apply (continues_next _ _ _ _ Hcont Hd2).
  intros m3 pr3 Hwf3 Hst3 Hat3 Htl3 Hdl.
  assert (Hd3 : (2 <= length (stack m3))%nat) by (rewrite Hst3; exact Hd2).
  destruct (skip_ws r3) as [|b3 r4] eqn:Esk3.
  { apply rejects_eof; [eapply no_next; eassumption|exact Hd3]. }
  destruct (b2n b3 =? cCOMMA) eqn:Ec.
  - destruct (sim_markup copy msg Hlen stF m3 r3 pr3 b3 r4 L_objCont L_objKey Hwf3 Hat3 Htl3 Esk3)
      as (m4 & Hn4 & Hfr4 & Hat4 & Htl4).
    { right; left. apply N.eqb_eq in Ec. auto. }
    apply (rejects_nsteps _ _ _ _ _ Hn4).
    destruct Hfr4 as [Hwf4 _ _ Hst4].
    apply (HM r4 ((key, v) :: acc) m4 L_objKey Hspec (or_intror eq_refl)); try assumption.
    + intros E; discriminate E.
    + rewrite Hst4. exact Hd3.
  - destruct (b2n b3 =? cRBRACE) eqn:Eb; [discriminate|].
    apply (rejects_read m3 r3 pr3 b3 r4 L_objCont Hwf3 Hat3 Esk3 (sure_of_delim _ _ _ _ Esk3 Hdl)).
    intros m1' Hu _ _. rewrite (step_uchar copy _ _ _ _ Hu), Ec, Eb. reflexivity.
Qed.

Theorem rej_all : forall f, R_V f /\ R_E f /\ R_M f.
Proof.
  induction f as [|f (HV & HE & HM)].
  - split; [|split].
    + intros s m l ret cont H; discriminate H.
    + intros s acc m l H; discriminate H.
    + intros s acc m l H; discriminate H.
  - split; [|split].
    + apply RV_step; assumption.
    + apply RE_step; assumption.
    + apply RM_step; assumption.
Qed.


(* ------------------------------------------------------------------ *)
(* the root                                                            *)

Lemma spec_elems_container : forall f s acc d r, spec_elems f s acc = SOk (d, r) -> is_container d = true.
Proof.
  induction f as [|f IH]; intros s acc d r H; [discriminate|].
  rewrite spec_elems_S in H.
  destruct (spec_value f s) as [[v r1]| | |]; try discriminate.
  destruct (skip_ws r1) as [|b r']; [discriminate|].
  destruct (b2n b =? cCOMMA); [eapply IH; exact H|].
  destruct (b2n b =? cRBRACK); [|discriminate]. injection H as <- _. reflexivity.
Qed.

Lemma spec_members_container : forall f s acc d r, spec_members f s acc = SOk (d, r) -> is_container d = true.
Proof.
  induction f as [|f IH]; intros s acc d r H; [discriminate|].
  rewrite spec_members_S in H.
  destruct (skip_ws s) as [|b r0]; [discriminate|].
  destruct (b2n b =? cQUOTE); [|discriminate].
  destruct (spec_string f r0 []) as [[key r1]| | |]; try discriminate.
  destruct (skip_ws r1) as [|b1 r2]; [discriminate|].
  destruct (b2n b1 =? cCOLON); [|discriminate].
  destruct (spec_value f r2) as [[v r3]| | |]; try discriminate.
  destruct (skip_ws r3) as [|b3 r4]; [discriminate|].
  destruct (b2n b3 =? cCOMMA); [eapply IH; exact H|].
  destruct (b2n b3 =? cRBRACE); [|discriminate]. injection H as <- _. reflexivity.
Qed.

Hypothesis Hfirst : skip_ws msg <> [].
Hypothesis Hlast : forall init c, msg = init ++ [c] -> is_json_ws (b2n c) = false.

(* trailing content after the root value *)
Lemma trailing_rej m r :
  mwf m -> at_text m r true -> r <> [] -> rejects L_startContinue m.
Proof.
  intros Hwf Hat Hne.
  destruct (skip_ws r) as [|b r'] eqn:Esk.
  { exfalso. destruct (skip_ws_nil_last r Esk Hne) as (init & c & -> & Hc).
    destruct Hat as (pre & Hm & _). rewrite app_assoc in Hm. rewrite (Hlast _ _ Hm) in Hc. discriminate. }
  apply (rejects_read m r true b r' L_startContinue Hwf Hat Esk (or_introl eq_refl)).
  intros m1 Hu _ _. rewrite (step_uchar copy _ _ _ _ Hu).
  pose proof (skip_ws_head _ _ _ Esk) as Hnw.
  replace (b2n b =? cLF) with false; [reflexivity|].
  unfold is_json_ws in Hnw. destruct (b2n b =? cLF); [|reflexivity]. rewrite !orb_true_r in Hnw. cbn in Hnw. lia.
Qed.

Theorem root_rejects f m0 :
  mwf m0 -> at_text m0 msg true -> tl_ok m0 0 -> (1 <= length (stack m0))%nat ->
  (spec_value f msg = SInvalid \/
   exists d r, spec_value f msg = SOk (d, r) /\ (r <> [] \/ is_container d = false)) ->
  rejects L_start m0.
Proof.
  intros Hwf Hat Htl Hdepth Hspec.
  destruct f as [|f].
  { destruct Hspec as [H|(d & r & H & _)]; discriminate H. }
  destruct (rej_all f) as (_ & HE & HM).
  rewrite spec_value_S in Hspec.
  destruct (skip_ws msg) as [|b r0] eqn:Esk; [congruence|]. cbv zeta in Hspec.
  assert (Hsure : sure true msg b) by (left; reflexivity).
  assert (Hret : retStart < 4) by reflexivity.
  destruct (b2n b =? cLBRACE) eqn:E1.
  { apply N.eqb_eq in E1.
    assert (Hst : forall m1, update_char m0 = UChar m1 (b2n b) ->
              step copy L_start m0 = Next L_objBegin (write_tape (push_scope m1 retStart) 0 (b2n b))).
    { intros m1 Hu. rewrite (step_uchar copy L_start m0 m1 _ Hu). unfold continue_root. rewrite E1. reflexivity. }
    destruct Hspec as [Hspec|(d & r & Hspec & Hbad)].
    - apply (open_rej m0 msg b r0 L_start retStart L_objBegin Hwf Hat Htl Esk Hdepth (or_introl (conj E1 eq_refl)) Hst).
      intros m2 Hwf2 Hat2 Htl2 Hd2. apply (obj_rej f r0 m2 HM Hspec); assumption.
    - destruct (container_continues m0 msg b r0 L_start retStart L_startContinue f d r Hwf Hat Htl Esk Hret eq_refl
                  (or_introl (conj E1 Hspec)))
        as (k & m' & Hn & Hwf' & Hst' & Hat' & Htl').
      { intros m1 lb Hu [(_ & ->)|(E & _)]; [exact (Hst m1 Hu)|rewrite E1 in E; discriminate]. }
      apply (rejects_nsteps _ _ _ _ _ Hn). apply (trailing_rej m' r Hwf' Hat').
      destruct Hbad as [Hr|Hc]; [exact Hr|]. exfalso.
      destruct (skip_ws r0) as [|b' r']; [discriminate|].
      destruct (b2n b' =? cRBRACE).
      + injection Hspec as <- _. discriminate.
      + rewrite (spec_members_container _ _ _ _ _ Hspec) in Hc. discriminate. }
  destruct (b2n b =? cLBRACK) eqn:E2.
  { apply N.eqb_eq in E2.
    assert (Hst : forall m1, update_char m0 = UChar m1 (b2n b) ->
              step copy L_start m0 = Next L_arrBegin (write_tape (push_scope m1 retStart) 0 (b2n b))).
    { intros m1 Hu. rewrite (step_uchar copy L_start m0 m1 _ Hu). unfold continue_root. rewrite E1, E2. reflexivity. }
    destruct Hspec as [Hspec|(d & r & Hspec & Hbad)].
    - apply (open_rej m0 msg b r0 L_start retStart L_arrBegin Hwf Hat Htl Esk Hdepth (or_intror (conj E2 eq_refl)) Hst).
      intros m2 Hwf2 Hat2 Htl2 Hd2. apply (arr_rej f r0 m2 HE Hspec); assumption.
    - destruct (container_continues m0 msg b r0 L_start retStart L_startContinue f d r Hwf Hat Htl Esk Hret eq_refl
                  (or_intror (conj E2 Hspec)))
        as (k & m' & Hn & Hwf' & Hst' & Hat' & Htl').
      { intros m1 lb Hu [(E & _)|(_ & ->)]; [rewrite E2 in E; discriminate|exact (Hst m1 Hu)]. }
      apply (rejects_nsteps _ _ _ _ _ Hn). apply (trailing_rej m' r Hwf' Hat').
      destruct Hbad as [Hr|Hc]; [exact Hr|]. exfalso.
      destruct (skip_ws r0) as [|b' r']; [discriminate|].
      destruct (b2n b' =? cRBRACK).
      + injection Hspec as <- _. discriminate.
      + rewrite (spec_elems_container _ _ _ _ _ Hspec) in Hc. discriminate. }
  (* the root is not a container: the machine fails on the first byte *)
  apply (rejects_read m0 msg true b r0 L_start Hwf Hat Esk Hsure).
  intros m1 Hu _ _. rewrite (step_uchar copy _ _ _ _ Hu). unfold continue_root. rewrite E1, E2. reflexivity.
Qed.

End Rej.

(* ------------------------------------------------------------------ *)
(* the two stages on an invalid message                                *)

Lemma fold_left_len2 : forall (bufs : list (list nat)) a,
  fold_left (fun a b => (a + length b)%nat) bufs a = (a + length (concat bufs))%nat.
Proof.
  induction bufs as [|b r IH]; intros a; cbn [fold_left concat]; [cbn [length]; lia|].
  rewrite IH, app_length. lia.
Qed.

(* the specification does not see one JSON text with a container at the root *)
Definition spec_bad (f : nat) (msg : bytes) : Prop :=
  spec_value f msg = SInvalid \/
  exists d r, spec_value f msg = SOk (d, r) /\ (r <> [] \/ is_container d = false).

Theorem message_rejects (copy : bool) (msg : bytes) (f : nat) :
  N.of_nat (length msg) < STRINGBUFBIT ->
  skip_ws msg <> [] -> (forall init c, msg = init ++ [c] -> is_json_ws (b2n c) = false) ->
  spec_bad f msg ->
  o_ok (s1_buffers false msg) = true ->
  run2 copy msg (bufs_incs 0 (o_bufs (s1_buffers false msg))) = Err.
Proof.
  intros Hlen Hfirst Hlast Hbad Hok.
  assert (Hne : msg <> []) by (intros E; apply Hfirst; rewrite E; reflexivity).
  destruct (s1_buffers_gen msg Hne) as (Hnonempty & _ & Hgood). cbv zeta in Hnonempty, Hgood.
  destruct (Hgood Hok) as (Hcat & Hinstr & Herr).
  set (o := s1_buffers false msg) in *.
  set (stF := fst (s1_fold false s1_init 0 msg)) in *.
  set (bufs := bufs_incs 0 (o_bufs o)).
  set (m0 := write_tape (push_scope (m2_init msg bufs) retStart) 0 TagRoot).
  assert (Hcatb : concat bufs = incs 0 (snd (s1_fold false (OutS true) 0 msg))).
  { unfold bufs. rewrite bufs_incs_concat, Hcat. reflexivity. }
  assert (Hneb : noempty bufs) by (unfold bufs; apply bufs_incs_noempty; exact Hnonempty).
  assert (Hwf0 : mwf msg m0) by (constructor; try reflexivity; exact Hneb).
  assert (Hat0 : at_text msg stF m0 msg true).
  { exists []. cbn [app length]. split; [reflexivity|]. split; [cbn; lia|]. split; [intros H; exfalso; apply H; reflexivity|].
    split; [cbn; lia|]. split; [reflexivity|]. exact Hcatb. }
  assert (Htl0 : tl_ok m0 0) by (unfold tl_ok; cbn; lia).
  pose proof (root_rejects copy msg Hlen stF Hinstr Herr Hfirst Hlast f m0 Hwf0 Hat0 Htl0 ltac:(cbn; lia) Hbad) as Hrej.
  unfold run2. cbv zeta. fold m0. rewrite fold_left_len2. apply Hrej.
  change (pending m0) with (concat bufs). lia.
Qed.

(* ------------------------------------------------------------------ *)
(* totality: Parse never panics and never runs out of fuel              *)

Theorem run2_stage1_total (copy : bool) (msg : bytes) :
  run2 copy msg (bufs_incs 0 (o_bufs (s1_buffers false msg))) = Err \/
  exists m, run2 copy msg (bufs_incs 0 (o_bufs (s1_buffers false msg))) = Ok m.
Proof.
  destruct msg as [|b0 msg0] eqn:Emsg.
  { right. eexists. destruct copy; vm_compute; reflexivity. }
  rewrite <- Emsg. assert (Hne : msg <> []) by (rewrite Emsg; discriminate). clear Emsg.
  destruct (handed_positions_ok msg Hne) as (Hnonempty & Hincr & Hrange & Hclosed). cbv zeta in *.
  apply (run2_total (fun mem => hc false mem = true) parse_string_model_total copy msg _
                    (concat (o_bufs (s1_buffers false msg)))).
  - apply bufs_incs_noempty. exact Hnonempty.
  - apply bufs_incs_concat.
  - exact Hincr.
  - exact Hrange.
  - exact Hclosed.
Qed.

Theorem parse_message_total (copy : bool) (bs : bytes) :
  parse_model copy bs = Err \/ exists p, parse_model copy bs = Ok p.
Proof.
  unfold parse_model, parse_message.
  destruct (run2_stage1_total copy (trim_space_go bs)) as [E|(m & E)]; rewrite E.
  - left. reflexivity.
  - destruct (o_ok (s1_buffers false (trim_space_go bs))); [right; eexists; reflexivity|left; reflexivity].
Qed.

(* ------------------------------------------------------------------ *)
(* the specification's verdict SInvalid, unfolded                      *)

Lemma trim_empty bs : rtrim_ws (skip_ws bs) = [] -> trim_space_go bs = [].
Proof.
  intros H.
  assert (Hu : skip_ws bs = []).
  { destruct (skip_ws bs) as [|b0 u0] eqn:Eu; [reflexivity|]. exfalso.
    pose proof (skip_ws_head _ _ _ Eu) as Hb0.
    unfold rtrim_ws in H. apply (f_equal (@rev byte)) in H. rewrite rev_involutive in H. change (rev []) with (@nil byte) in H.
    destruct (skip_ws_split (rev (b0 :: u0))) as (w & Hw & Hall). rewrite H, app_nil_r in Hw. subst w.
    apply Forall_rev in Hall. rewrite rev_involutive in Hall. inversion Hall as [|? ? Hx _]; subst. congruence. }
  unfold trim_space_go.
  rewrite (trim_left_skip_ws bs (S (length bs))); [|lia|rewrite Hu; exact I].
  rewrite Hu. reflexivity.
Qed.

Lemma spec_parse_invalid bs : spec_parse bs = SInvalid ->
  let t := rtrim_ws (skip_ws bs) in
  t = [] \/
  (trim_space_go bs = t /\ skip_ws t <> [] /\ (forall init c, t = init ++ [c] -> is_json_ws (b2n c) = false) /\
   spec_bad (2 * length t + 2) t /\ (length t <= length bs)%nat).
Proof.
  unfold spec_parse. cbv zeta. intros H.
  destruct (rtrim_ws (skip_ws bs)) as [|b t0] eqn:Et; [left; reflexivity|right].
  destruct (edge_unclaimed (b2n b) || edge_unclaimed (b2n (last (b :: t0) x00))) eqn:Eedge; [discriminate|].
  apply orb_false_iff in Eedge.
  split; [|split; [|split; [|split]]].
  - rewrite <- Et. apply trim_agree_gen; cbv zeta; rewrite Et; [exact Eedge|discriminate].
  - destruct (rtrim_ws_split (skip_ws bs)) as (w2 & Hu & _). rewrite Et in Hu. cbn [app] in Hu.
    rewrite (skip_ws_nonws b t0 (skip_ws_head _ _ _ Hu)). discriminate.
  - intros init c E.
    assert (Hr : skip_ws (rev (skip_ws bs)) = rev (b :: t0)).
    { unfold rtrim_ws in Et. rewrite <- Et, rev_involutive. reflexivity. }
    rewrite E, rev_app_distr in Hr. cbn [rev app] in Hr. exact (skip_ws_head _ _ _ Hr).
  - unfold spec_bad.
    destruct (spec_value (2 * length (b :: t0) + 2) (b :: t0)) as [[d r]| | |] eqn:Ev; try discriminate.
    + right. exists d, r. split; [reflexivity|].
      destruct r; [|left; discriminate]. right. destruct (is_container d); [discriminate|reflexivity].
    + left. reflexivity.
  - rewrite <- Et. etransitivity; [|apply skip_ws_length].
    unfold rtrim_ws. rewrite rev_length. pose proof (skip_ws_length (rev (skip_ws bs))) as Hl.
    rewrite rev_length in Hl. exact Hl.
Qed.

(* ------------------------------------------------------------------ *)
(* the main theorems                                                   *)

(* soundness of acceptance, weak form: an invalid text is never accepted *)
Theorem parse_never_accepts_invalid : forall (copy : bool) (bs : bytes),
  N.of_nat (length bs) < 2 ^ 55 ->
  spec_parse bs = SInvalid -> forall p, parse_model copy bs <> Ok p.
Proof.
  intros copy bs Hlen Hspec p.
  destruct (spec_parse_invalid bs Hspec) as [Ht|(Htrim & Hfirst & Hlast & Hbad & Hl)]; cbv zeta in *.
  - unfold parse_model, parse_message. rewrite (trim_empty bs Ht).
    destruct copy; vm_compute; discriminate.
  - set (t := rtrim_ws (skip_ws bs)) in *.
    assert (Hlt : N.of_nat (length t) < STRINGBUFBIT) by (change STRINGBUFBIT with (2 ^ 55); lia).
    unfold parse_model, parse_message. rewrite Htrim.
    destruct (o_ok (s1_buffers false t)) eqn:Hok.
    + rewrite (message_rejects copy t _ Hlt Hfirst Hlast Hbad Hok). discriminate.
    + destruct (run2 copy t (bufs_incs 0 (o_bufs (s1_buffers false t)))); discriminate.
Qed.

(* soundness of acceptance, strong form: an invalid text yields an error
   (not a panic, not a run-away) *)
Theorem parse_rejects_invalid : forall (copy : bool) (bs : bytes),
  N.of_nat (length bs) < 2 ^ 55 ->
  spec_parse bs = SInvalid -> parse_model copy bs = Err.
Proof.
  intros copy bs Hlen Hspec.
  destruct (parse_message_total copy bs) as [E|(p & E)]; [exact E|].
  exfalso. exact (parse_never_accepts_invalid copy bs Hlen Hspec p E).
Qed.

(* equivalently: whatever the model accepts, the specification does not call invalid *)
Corollary parse_ok_spec : forall (copy : bool) (bs : bytes) p,
  N.of_nat (length bs) < 2 ^ 55 ->
  parse_model copy bs = Ok p -> spec_parse bs <> SInvalid.
Proof.
  intros copy bs p Hlen Hok Hs. exact (parse_never_accepts_invalid copy bs Hlen Hs p Hok).
Qed.

Print Assumptions message_rejects.
Print Assumptions parse_message_total.
Print Assumptions parse_never_accepts_invalid.
Print Assumptions parse_rejects_invalid.

(* ------------------------------------------------------------------ *)
(* C01 in full, outside the exclusions: acceptance iff validity        *)

From SJ Require Import Proofs.AcceptProofs.

Corollary parse_accepts_iff : forall (copy : bool) (bs : bytes),
  N.of_nat (length bs) < 2 ^ 55 ->
  spec_parse bs <> SOut -> spec_parse bs <> SFuel ->
  ((exists p, parse_model copy bs = Ok p) <-> (exists d, spec_parse bs = SOk d)).
Proof.
  intros copy bs Hlen Hout Hfuel. split.
  - intros (p & Hp). destruct (spec_parse bs) as [d| | |] eqn:Es; try congruence.
    + exists d. reflexivity.
    + exfalso. exact (parse_never_accepts_invalid copy bs Hlen Es p Hp).
  - intros (d & Hd). destruct (parse_accepts_valid copy bs d Hlen Hd) as (p & Hp & _). exists p. exact Hp.
Qed.

(* ------------------------------------------------------------------ *)
(* examples: one input per class of error                              *)

From SJ Require Import Model.Oracle.
Import String.StringSyntax.
Open Scope string_scope.

Definition rejected (s : String.string) : bool :=
  match spec_parse (lit s), parse_model true (lit s), parse_model false (lit s) with
  | SInvalid, Err, Err => true
  | _, _, _ => false
  end.

Example ex_rejected : forallb rejected
  [ "";                     (* empty *)
    "   ";                  (* blank *)
    "1"; """abc"""; "nul"; "true";          (* root is not a container *)
    "[1,2]garbage"; "[1] x"; "{""a"":1}}"; "[1]]"; "{}{}"; "[1],";   (* trailing content *)
    "[true false]"; "[""a"" ""b""]"; "[1 2]"; "{""a"" 1}"; "{""a"":1 ""b"":2}";  (* missing separators *)
    "[1,]"; "[,1]"; "{""a"":1,}"; "{,}"; "[1,,2]";                  (* extra separators *)
    "{""a""}"; "{""a"":}"; "{1:2}"; "{""a"":1:2}"; "[1:2]";          (* object shape *)
    "[tru]"; "[truex]"; "[nullx]"; "[fals]"; "[True]";              (* bad atoms *)
    "[-]"; "[1e]"; "[1.]"; "[01]"; "[1.5x]"; "[12""a""]"; "[+1]"; "[.5]"; "[1e999]"; "[-1e999]";  (* bad numbers *)
    "[""a\qb""]"; "[""a\u12""]"; "[""\u12G4""]"; "[""\";              (* bad escapes *)
    "[""abc"; "[""}"; "{""a"":""]}";                                  (* unterminated strings *)
    "[1"; "[[1]"; "{""a"":1"; "[1,2"; "["; "{"; "[[[[";              (* unbalanced *)
    "]"; "}"; "[}"; "{]"; "[1}"; "{""a"":1]";                        (* mismatched *)
    "[[]x]"; "[{}x]"; "[""a""x]"; "[x]"; "[@]" ] = true.
Proof. vm_compute. reflexivity. Qed.

(* a control character inside a string: rejected by stage 1's error flag only *)
Example ex_ctl : let s := lit "[""a" ++ [n2b 10] ++ lit "b""]" in
  (match spec_parse s with SInvalid => true | _ => false end,
   match parse_model true s with Err => true | _ => false end,
   o_ok (s1_buffers false s)) = (true, true, false).
Proof. vm_compute. reflexivity. Qed.

(* more than one index buffer, then an unterminated string: stage 2 runs on the
   buffers already handed over and the dangling quote is never handed over *)
Definition ex_long : bytes :=
  lit "[" ++ concat (repeat (lit "1,") 1500) ++ lit """abc".
Example ex_long_rejected :
  (match spec_parse ex_long with SInvalid => true | _ => false end,
   match parse_model true ex_long with Err => true | _ => false end,
   length (o_bufs (s1_buffers false ex_long))) = (true, true, 2%nat).
Proof. vm_compute. reflexivity. Qed.

Print Assumptions parse_accepts_iff.
