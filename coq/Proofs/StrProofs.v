(* StrProofs.v — property C04: the 32-byte-window model of the string kernel
   decodes exactly as the scalar specification, whatever the length and
   wherever the escapes fall relative to the windows. *)
From Coq Require Import ZifyBool ZifyN ZifyNat.
From SJ Require Import Model.Base Model.RefTables Spec.Json Model.Str Proofs.StrArith.
Open Scope N_scope.

(* ------------------------------------------------------------------ *)
(* list facts                                                           *)

Lemma take_pad_length {A} (d : A) n : forall l, length (take_pad d n l) = n.
Proof. induction n; intros [|x l]; cbn [take_pad length]; auto. Qed.

Lemma take_pad_nth {A} (d : A) n : forall l i, (i < n)%nat -> nth i (take_pad d n l) d = nth i l d.
Proof.
  induction n; intros l i H; [lia|].
  destruct l as [|x l], i as [|i]; cbn [take_pad nth]; auto.
  - rewrite IHn by lia. destruct i; reflexivity.
  - apply IHn. lia.
Qed.

Lemma take_pad_firstn {A} (d : A) n : forall l, (n <= length l)%nat -> take_pad d n l = firstn n l.
Proof.
  induction n; intros [|x l] H; cbn [take_pad firstn length] in *; auto; try lia.
  f_equal. apply IHn. lia.
Qed.

Lemma find_idx_some {A} (p : A -> bool) d : forall l i,
  find_idx p l = Some i ->
  (i < length l)%nat /\ p (nth i l d) = true /\ forall j, (j < i)%nat -> p (nth j l d) = false.
Proof.
  induction l as [|a l IH]; intros i H; cbn [find_idx] in H; [discriminate|].
  destruct (p a) eqn:E.
  - inversion H; subst. cbn [length nth]. repeat split; [lia|exact E|intros; lia].
  - destruct (find_idx p l) as [k|] eqn:F; cbn [option_map] in H; [|discriminate].
    inversion H; subst. destruct (IH k eq_refl) as (H1 & H2 & H3).
    cbn [length nth]. repeat split; [lia|exact H2|].
    intros [|j] Hj; [exact E|apply H3; lia].
Qed.

Lemma find_idx_none {A} (p : A -> bool) d : forall l,
  find_idx p l = None -> forall j, (j < length l)%nat -> p (nth j l d) = false.
Proof.
  induction l as [|a l IH]; intros H j Hj; cbn [length] in Hj; [lia|].
  cbn [find_idx] in H. destruct (p a) eqn:E; [discriminate|].
  destruct (find_idx p l) eqn:F; cbn [option_map] in H; [discriminate|].
  destruct j as [|j]; cbn [nth]; [exact E|apply IH; [reflexivity|lia]].
Qed.

Lemma nth_b_skipn k : forall l i, nth_b (skipn k l) i = nth_b l (k + i).
Proof.
  unfold nth_b. induction k; intros l i; [reflexivity|].
  destruct l as [|x l]; cbn [skipn Nat.add nth].
  - destruct i; reflexivity.
  - apply IHk.
Qed.

Lemma nth_b_app_l l t i : (i < length l)%nat -> nth_b (l ++ t) i = nth_b l i.
Proof. intros H. unfold nth_b. rewrite app_nth1 by exact H. reflexivity. Qed.

Lemma nth_b_app_r l t i : nth_b (l ++ t) (length l + i) = nth_b t i.
Proof.
  unfold nth_b. rewrite app_nth2 by lia. f_equal. f_equal. lia.
Qed.

Lemma first_of_some c cur i :
  first_of c (win32 cur) = Some i ->
  (i < 32)%nat /\ nth_b cur i = c /\ forall j, (j < i)%nat -> nth_b cur j <> c.
Proof.
  unfold first_of, win32. intros H.
  apply (find_idx_some _ x00) in H. destruct H as (H1 & H2 & H3).
  rewrite take_pad_length in H1. split; [exact H1|]. split.
  - rewrite take_pad_nth in H2 by exact H1. apply N.eqb_eq in H2. exact H2.
  - intros j Hj. specialize (H3 j Hj). rewrite take_pad_nth in H3 by lia.
    apply N.eqb_neq in H3. exact H3.
Qed.

Lemma first_of_none c cur :
  first_of c (win32 cur) = None -> forall j, (j < 32)%nat -> nth_b cur j <> c.
Proof.
  unfold first_of, win32. intros H j Hj.
  pose proof (find_idx_none _ x00 _ H j) as H3.
  rewrite take_pad_length in H3. specialize (H3 Hj).
  rewrite take_pad_nth in H3 by exact Hj. apply N.eqb_neq in H3. exact H3.
Qed.

Lemma win32_firstn cur k : (k <= 32)%nat -> (k <= length cur)%nat -> firstn k (win32 cur) = firstn k cur.
Proof.
  unfold win32. revert cur. generalize 32%nat as m.
  induction k; intros m cur Hm Hk; [reflexivity|].
  destruct m as [|m]; [lia|]. destruct cur as [|x cur]; cbn [length] in Hk; [lia|].
  cbn [take_pad firstn]. f_equal. apply IHk; lia.
Qed.

(* ------------------------------------------------------------------ *)
(* the escape token, in the words of the specification                  *)

Inductive tok_res := TOk (n : nat) (o : bytes) | TInvalid | TOut.

(* [p] starts at a backslash: source bytes consumed and bytes produced *)
Definition esc_tok (p : bytes) : tok_res :=
  match p with
  | _ :: e :: r2 =>
    if b2n e =? c_u then
      match r2 with
      | h0 :: h1 :: h2 :: h3 :: r3 =>
        match hex4_spec h0 h1 h2 h3 with
        | None => TInvalid
        | Some cu =>
          if (55296 <=? cu) && (cu <=? 56319) then
            match r3 with
            | s0 :: s1 :: l0 :: l1 :: l2 :: l3 :: r4 =>
              if (b2n s0 =? cBSLASH) && (b2n s1 =? c_u) then
                match hex4_spec l0 l1 l2 l3 with
                | Some lo => if (56320 <=? lo) && (lo <=? 57343)
                             then TOk 12 (utf8_spec (65536 + (cu - 55296) * 1024 + (lo - 56320)))
                             else TOut
                | None => TOut
                end
              else TOut
            | _ => TOut
            end
          else if (56320 <=? cu) && (cu <=? 57343) then TOut
          else TOk 6 (utf8_spec cu)
        end
      | _ => TInvalid
      end
    else match escape_spec (b2n e) with Some v => TOk 2 [n2b v] | None => TInvalid end
  | _ => TInvalid
  end.

(* what the specification does at a backslash *)
Lemma spec_bs f b r acc :
  (b2n b =? cQUOTE) = false -> (b2n b <? 32) = false -> (b2n b =? cBSLASH) = true ->
  spec_string (S f) (b :: r) acc =
  match esc_tok (b :: r) with
  | TOk n o => spec_string f (skipn n (b :: r)) (rev o ++ acc)
  | TInvalid => SInvalid
  | TOut => SOut
  end.
Proof.
  intros H1 H2 H3. cbn [spec_string]. rewrite H1, H2, H3. unfold esc_tok.
  destruct r as [|e r2]; [reflexivity|].
  destruct (b2n e =? c_u).
  { destruct r2 as [|h0 [|h1 [|h2 [|h3 r3]]]]; try reflexivity.
    destruct (hex4_spec h0 h1 h2 h3) as [cu|]; [|reflexivity].
    destruct ((55296 <=? cu) && (cu <=? 56319)).
    { destruct r3 as [|s0 [|s1 [|l0 [|l1 [|l2 [|l3 r4]]]]]]; try reflexivity.
      destruct ((b2n s0 =? cBSLASH) && (b2n s1 =? c_u)); [|reflexivity].
      destruct (hex4_spec l0 l1 l2 l3) as [lo|]; [|reflexivity].
      destruct ((56320 <=? lo) && (lo <=? 57343)); reflexivity. }
    destruct ((56320 <=? cu) && (cu <=? 57343)); reflexivity. }
  destruct (escape_spec (b2n e)); reflexivity.
Qed.

Lemma esc_tok_inv p n o :
  esc_tok p = TOk n o ->
  (exists b e r v, p = b :: e :: r /\ b2n e <> c_u /\ escape_spec (b2n e) = Some v /\
                   n = 2%nat /\ o = [n2b v]) \/
  (exists b e h0 h1 h2 h3 r cu,
      p = b :: e :: h0 :: h1 :: h2 :: h3 :: r /\ b2n e = c_u /\
      hex4_spec h0 h1 h2 h3 = Some cu /\ ((55296 <=? cu) && (cu <=? 56319)) = false /\
      ((56320 <=? cu) && (cu <=? 57343)) = false /\
      n = 6%nat /\ o = utf8_spec cu) \/
  (exists b e h0 h1 h2 h3 s0 s1 l0 l1 l2 l3 r cu lo,
      p = b :: e :: h0 :: h1 :: h2 :: h3 :: s0 :: s1 :: l0 :: l1 :: l2 :: l3 :: r /\
      b2n e = c_u /\ hex4_spec h0 h1 h2 h3 = Some cu /\ 55296 <= cu <= 56319 /\
      b2n s0 = cBSLASH /\ b2n s1 = c_u /\ hex4_spec l0 l1 l2 l3 = Some lo /\
      56320 <= lo <= 57343 /\ n = 12%nat /\
      o = utf8_spec (65536 + (cu - 55296) * 1024 + (lo - 56320))).
Proof.
  unfold esc_tok. intros H.
  destruct p as [|b [|e r2]]; try discriminate.
  destruct (b2n e =? c_u) eqn:Eu.
  - right. apply N.eqb_eq in Eu.
    destruct r2 as [|h0 [|h1 [|h2 [|h3 r3]]]]; try discriminate.
    destruct (hex4_spec h0 h1 h2 h3) as [cu|] eqn:Hh; [|discriminate].
    destruct ((55296 <=? cu) && (cu <=? 56319)) eqn:Ehi.
    + right.
      destruct r3 as [|s0 [|s1 [|l0 [|l1 [|l2 [|l3 r4]]]]]]; try discriminate.
      destruct ((b2n s0 =? cBSLASH) && (b2n s1 =? c_u)) eqn:Es; [|discriminate].
      destruct (hex4_spec l0 l1 l2 l3) as [lo|] eqn:Hl; [|discriminate].
      destruct ((56320 <=? lo) && (lo <=? 57343)) eqn:Elo; [|discriminate].
      remember (utf8_spec (65536 + (cu - 55296) * 1024 + (lo - 56320))) as X eqn:EX.
      injection H as <- <-.
      exists b, e, h0, h1, h2, h3, s0, s1, l0, l1, l2, l3, r4, cu, lo.
      repeat split; try reflexivity; try assumption; try lia.
    + left. destruct ((56320 <=? cu) && (cu <=? 57343)) eqn:Elo; [discriminate|].
      injection H as <- <-.
      exists b, e, h0, h1, h2, h3, r3, cu. repeat split; try reflexivity; assumption.
  - left. apply N.eqb_neq in Eu.
    destruct (escape_spec (b2n e)) as [v|] eqn:Ev; [|discriminate].
    injection H as <- <-. exists b, e, r2, v. repeat split; try reflexivity; assumption.
Qed.

Lemma hexval_noquote c v : hexval c = Some v -> c <> 34.
Proof. intros H E. subst c. vm_compute in H. discriminate. Qed.

Lemma hex4_spec_noquote a b c d v :
  hex4_spec a b c d = Some v -> b2n a <> 34 /\ b2n b <> 34 /\ b2n c <> 34 /\ b2n d <> 34.
Proof.
  unfold hex4_spec. intros H.
  destruct (hexval (b2n a)) eqn:Ea; [|discriminate].
  destruct (hexval (b2n b)) eqn:Eb; [|discriminate].
  destruct (hexval (b2n c)) eqn:Ec; [|discriminate].
  destruct (hexval (b2n d)) eqn:Ed; [|discriminate].
  repeat split; eapply hexval_noquote; eassumption.
Qed.

(* size facts of a token *)
Lemma esc_tok_len p n o :
  esc_tok p = TOk n o ->
  (2 <= n <= 12)%nat /\ (n <= length p)%nat /\ (1 <= length o)%nat /\ (length o < n)%nat.
Proof.
  intros H. apply esc_tok_inv in H.
  destruct H as [(b & e & r & v & -> & _ & _ & -> & ->)
               |[(b & e & h0 & h1 & h2 & h3 & r & cu & -> & _ & Hh & _ & _ & -> & ->)
                |(b & e & h0 & h1 & h2 & h3 & s0 & s1 & l0 & l1 & l2 & l3 & r & cu & lo & -> & _ & _ & _ & _ & _ & _ & _ & -> & ->)]].
  - cbn [length]. lia.
  - apply hex4_ok in Hh. destruct Hh as [_ Hlt].
    pose proof (utf8_spec_len_bmp cu Hlt). cbn [length]. lia.
  - pose proof (utf8_spec_len_le4 (65536 + (cu - 55296) * 1024 + (lo - 56320))).
    cbn [length]. lia.
Qed.

(* a token depends only on its own bytes *)
Lemma esc_tok_app p t n o : esc_tok p = TOk n o -> esc_tok (p ++ t) = TOk n o.
Proof.
  unfold esc_tok.
  destruct p as [|b [|e r2]]; try discriminate. cbn [app].
  destruct (b2n e =? c_u).
  { destruct r2 as [|h0 [|h1 [|h2 [|h3 r3]]]]; try discriminate. cbn [app].
    destruct (hex4_spec h0 h1 h2 h3) as [cu|]; [|discriminate].
    destruct ((55296 <=? cu) && (cu <=? 56319)).
    { destruct r3 as [|s0 [|s1 [|l0 [|l1 [|l2 [|l3 r4]]]]]]; try discriminate. cbn [app].
      intros H; exact H. }
    intros H; exact H. }
  intros H; exact H.
Qed.

Lemma esc_tok_firstn p n o : esc_tok p = TOk n o -> esc_tok (firstn n p) = TOk n o.
Proof.
  intros H. apply esc_tok_inv in H.
  destruct H as [(b & e & r & v & -> & Hne & Hv & -> & ->)
               |[(b & e & h0 & h1 & h2 & h3 & r & cu & -> & He & Hh & Ehi & Elo & -> & ->)
                |(b & e & h0 & h1 & h2 & h3 & s0 & s1 & l0 & l1 & l2 & l3 & r & cu & lo & -> & He & Hh & Hcu & Hs0 & Hs1 & Hl & Hlo & -> & ->)]];
    cbn [firstn]; unfold esc_tok.
  - apply N.eqb_neq in Hne. rewrite Hne, Hv. reflexivity.
  - apply N.eqb_eq in He. rewrite He, Hh, Ehi, Elo. reflexivity.
  - apply N.eqb_eq in He, Hs0, Hs1. rewrite He, Hh, Hs0, Hs1, Hl.
    replace ((55296 <=? cu) && (cu <=? 56319)) with true by lia.
    replace ((56320 <=? lo) && (lo <=? 57343)) with true by lia.
    reflexivity.
Qed.

Lemma skipn_firstn_app {A} n : forall (l t : list A),
  (n <= length l)%nat -> skipn n (firstn n l ++ t) = t.
Proof.
  induction n; intros l t H; [reflexivity|].
  destruct l as [|x l]; cbn [length] in H; [lia|].
  cbn [firstn app skipn]. apply IHn. lia.
Qed.

(* the bytes of a \u token are never quotes *)
Lemma esc_tok_u_noquote p n o :
  esc_tok p = TOk n o -> nth_b p 0 = 92 -> nth_b p 1 = c_u ->
  forall j, (j < n)%nat -> nth_b p j <> 34.
Proof.
  intros H Hb Hu. apply esc_tok_inv in H.
  destruct H as [(b & e & r & v & -> & Hne & _ & -> & ->)
               |[(b & e & h0 & h1 & h2 & h3 & r & cu & -> & He & Hh & _ & _ & -> & ->)
                |(b & e & h0 & h1 & h2 & h3 & s0 & s1 & l0 & l1 & l2 & l3 & r & cu & lo & -> & He & Hh & _ & Hs0 & Hs1 & Hl & _ & -> & ->)]].
  - exfalso. apply Hne. exact Hu.
  - unfold nth_b in *. cbn [nth] in *.
    apply hex4_spec_noquote in Hh. destruct Hh as (A0 & A1 & A2 & A3).
    intros j Hj.
    unfold c_u, cBSLASH in *.
    destruct j as [|[|[|[|[|[|j]]]]]]; cbn [nth]; try assumption; lia.
  - unfold nth_b in *. cbn [nth] in *.
    apply hex4_spec_noquote in Hh. destruct Hh as (A0 & A1 & A2 & A3).
    apply hex4_spec_noquote in Hl. destruct Hl as (B0 & B1 & B2 & B3).
    intros j Hj.
    unfold c_u, cBSLASH in *.
    destruct j as [|[|[|[|[|[|[|[|[|[|[|[|j]]]]]]]]]]]]; cbn [nth]; try assumption; lia.
Qed.

(* ------------------------------------------------------------------ *)
(* byte-level decoding relation: [dec_rel src dec] — the body [src]
   (no closing quote) is a sequence of literal bytes and well-formed
   escapes, decoding to [dec]                                           *)

Inductive dec_rel : bytes -> bytes -> Prop :=
| DNil : dec_rel [] []
| DLit b s d : b2n b <> 34 -> b2n b <> 92 -> dec_rel s d -> dec_rel (b :: s) (b :: d)
| DEsc s n o d : nth_b s 0 = 92 -> esc_tok s = TOk n o -> dec_rel (skipn n s) d ->
                 dec_rel s (o ++ d).

Lemma dec_rel_lit_app l : forall s d,
  Forall (fun b => b2n b <> 34 /\ b2n b <> 92) l -> dec_rel s d -> dec_rel (l ++ s) (l ++ d).
Proof.
  induction l as [|b l IH]; intros s d Hl Hd; [exact Hd|].
  inversion Hl as [|? ? [H1 H2] Hl']; subst.
  cbn [app]. apply DLit; [exact H1|exact H2|]. apply IH; assumption.
Qed.

Lemma dec_rel_nil d : dec_rel [] d -> d = [].
Proof.
  intros H. inversion H as [| |s n o d' Hb Ht Hd]; subst; [reflexivity|].
  cbn in Ht. discriminate.
Qed.

Lemma dec_rel_head_quote b s d : dec_rel (b :: s) d -> b2n b = 34 -> False.
Proof.
  intros H E. inversion H as [|? ? ? H1 | s' n o d' Hb Ht Hd]; subst.
  - contradiction.
  - unfold nth_b in Hb. cbn [nth] in Hb. lia.
Qed.

(* a run of bytes that are neither quote nor backslash is copied as is *)
Lemma lit_prefix : forall k src dec tail,
  dec_rel src dec ->
  (nth_b tail 0 = 34 \/ nth_b tail 0 = 92) ->
  (forall j, (j < k)%nat -> nth_b (src ++ tail) j <> 34 /\ nth_b (src ++ tail) j <> 92) ->
  (k <= length src)%nat /\
  exists dec', dec = firstn k src ++ dec' /\ dec_rel (skipn k src) dec'.
Proof.
  induction k as [|k IH]; intros src dec tail Hd Ht H.
  { split; [lia|]. exists dec. split; [reflexivity|exact Hd]. }
  destruct src as [|b s].
  { exfalso. destruct (H 0%nat ltac:(lia)) as [A B]. cbn [app] in A, B. destruct Ht; contradiction. }
  inversion Hd as [|? ? d' H1 H2 Hd' | s' n o d' Hb Htok Hd']; subst.
  - destruct (IH s d' tail Hd' Ht) as (Hk & dec' & -> & Hr).
    { intros j Hj. apply (H (S j)). lia. }
    split; [cbn [length]; lia|]. exists dec'. split; [reflexivity|exact Hr].
  - exfalso. destruct (H 0%nat ltac:(lia)) as [_ B]. apply B.
    unfold nth_b in *. cbn [app nth] in *. exact Hb.
Qed.

(* ------------------------------------------------------------------ *)
(* specification -> dec_rel                                             *)

Lemma utf8_seq_len_lit s n :
  utf8_seq_len s = Some n ->
  (n <= length s)%nat /\ Forall (fun b => 128 <= b2n b) (firstn n s).
Proof.
  unfold utf8_seq_len, is_cont. intros H.
  destruct s as [|b0 [|b1 r1]]; try discriminate.
  destruct ((194 <=? b2n b0) && (b2n b0 <=? 223)) eqn:E1.
  { destruct ((128 <=? b2n b1) && (b2n b1 <=? 191)) eqn:E2; [|discriminate].
    injection H as <-. split; [cbn [length]; lia|].
    cbn [firstn]. repeat constructor; lia. }
  destruct r1 as [|b2 r2]; [discriminate|].
  destruct (b2n b0 =? 224) eqn:E3.
  { destruct ((160 <=? b2n b1) && (b2n b1 <=? 191) && ((128 <=? b2n b2) && (b2n b2 <=? 191))) eqn:E4;
      [|discriminate].
    injection H as <-. split; [cbn [length]; lia|].
    cbn [firstn]. repeat constructor; lia. }
  destruct ((225 <=? b2n b0) && (b2n b0 <=? 236) || (b2n b0 =? 238) || (b2n b0 =? 239)) eqn:E5.
  { destruct ((128 <=? b2n b1) && (b2n b1 <=? 191) && ((128 <=? b2n b2) && (b2n b2 <=? 191))) eqn:E6;
      [|discriminate].
    injection H as <-. split; [cbn [length]; lia|].
    cbn [firstn]. repeat constructor; lia. }
  destruct (b2n b0 =? 237) eqn:E7.
  { destruct ((128 <=? b2n b1) && (b2n b1 <=? 159) && ((128 <=? b2n b2) && (b2n b2 <=? 191))) eqn:E8;
      [|discriminate].
    injection H as <-. split; [cbn [length]; lia|].
    cbn [firstn]. repeat constructor; lia. }
  destruct r2 as [|b3 r3]; [discriminate|].
  destruct (b2n b0 =? 240) eqn:E9.
  { match type of H with (if ?c then _ else _) = _ => destruct c eqn:E10 end; [|discriminate].
    injection H as <-. split; [cbn [length]; lia|].
    cbn [firstn]. repeat constructor; lia. }
  destruct ((241 <=? b2n b0) && (b2n b0 <=? 243)) eqn:E11.
  { match type of H with (if ?c then _ else _) = _ => destruct c eqn:E12 end; [|discriminate].
    injection H as <-. split; [cbn [length]; lia|].
    cbn [firstn]. repeat constructor; lia. }
  destruct (b2n b0 =? 244) eqn:E13; [|discriminate].
  match type of H with (if ?c then _ else _) = _ => destruct c eqn:E14 end; [|discriminate].
  injection H as <-. split; [cbn [length]; lia|].
  cbn [firstn]. repeat constructor; lia.
Qed.

Theorem spec_string_dec fuel : forall s acc d r,
  spec_string fuel s acc = SOk (d, r) ->
  exists src dec, s = src ++ x22 :: r /\ d = rev acc ++ dec /\ dec_rel src dec.
Proof.
  induction fuel as [|f IH]; intros s acc d r H; [discriminate|].
  destruct s as [|b s']; [discriminate|].
  destruct (b2n b =? cQUOTE) eqn:Eq.
  { cbn [spec_string] in H. rewrite Eq in H. injection H as <- <-.
    apply N.eqb_eq in Eq. apply b2n_quote in Eq. subst b.
    exists [], []. rewrite app_nil_r. repeat split. constructor. }
  destruct (b2n b <? 32) eqn:Ec.
  { cbn [spec_string] in H. rewrite Eq, Ec in H. discriminate. }
  destruct (b2n b =? cBSLASH) eqn:Eb.
  { rewrite spec_bs in H by assumption.
    destruct (esc_tok (b :: s')) as [n o| |] eqn:Et; try discriminate.
    apply IH in H. destruct H as (src & dec & Hs & -> & Hd).
    pose proof (esc_tok_len _ _ _ Et) as (Hn2 & Hn & _ & _).
    exists (firstn n (b :: s') ++ src), (o ++ dec). split; [|split].
    - rewrite <- app_assoc, <- Hs. symmetry. apply firstn_skipn.
    - rewrite rev_app_distr, rev_involutive, <- app_assoc. reflexivity.
    - apply DEsc with (n := n).
      + apply N.eqb_eq in Eb. destruct n as [|n]; [lia|]. exact Eb.
      + apply esc_tok_app. apply esc_tok_firstn. exact Et.
      + rewrite skipn_firstn_app by exact Hn. exact Hd. }
  destruct (b2n b <? 128) eqn:Ea.
  { cbn [spec_string] in H. rewrite Eq, Ec, Eb, Ea in H.
    apply IH in H. destruct H as (src & dec & -> & -> & Hd).
    exists (b :: src), (b :: dec). split; [reflexivity|]. split.
    - cbn [rev]. rewrite <- app_assoc. reflexivity.
    - apply DLit; [unfold cQUOTE in Eq; lia|unfold cBSLASH in Eb; lia|exact Hd]. }
  cbn [spec_string] in H. rewrite Eq, Ec, Eb, Ea in H.
  destruct (utf8_seq_len (b :: s')) as [n|] eqn:Eu; [|discriminate].
  apply IH in H. destruct H as (src & dec & Hs & -> & Hd).
  apply utf8_seq_len_lit in Eu. destruct Eu as [Hn Hall].
  exists (firstn n (b :: s') ++ src), (firstn n (b :: s') ++ dec). split; [|split].
  - rewrite <- app_assoc, <- Hs. symmetry. apply firstn_skipn.
  - rewrite rev_app_distr, rev_involutive, <- app_assoc. reflexivity.
  - apply dec_rel_lit_app; [|exact Hd].
    eapply Forall_impl; [|exact Hall]. cbn beta. intros a Ha. lia.
Qed.

(* ------------------------------------------------------------------ *)
(* one iteration of the model, factored out                             *)

Definition model_esc (p : bytes) (dist : nat) : option (nat * bytes) :=
  if nth_b p 1 =? c_u then
    match str_unicode p dist with
    | None => None
    | Some (adv, cp) =>
      match utf8_len cp with None => None | Some _ => Some (adv, utf8_enc cp) end
    end
  else
    if escape_map_ref (nth_b p 1) =? 0 then None
    else Some (2%nat, [n2b (escape_map_ref (nth_b p 1))]).

Definition esc_dist (cur : bytes) (bi : nat) (q : option nat) : nat :=
  match q with
  | Some qi => (qi - bi)%nat
  | None =>
    if (bi <? 21)%nat then (32 - bi)%nat
    else
      ((match first_of cQUOTE (win32 (skipn (bi - 20) cur)) with Some t => t | None => 32%nat end)
       - 20)%nat
  end.

Inductive step_res := Done (r : str_res) | Cont (adv : nat) (out' : bytes).

Definition str_step (cur : bytes) (consumed : nat) (out : bytes) : step_res :=
  let w := win32 cur in
  let bs := first_of cBSLASH w in
  let q := first_of cQUOTE w in
  let quote_first := match q, bs with
                     | Some qi, Some bi => (qi <? bi)%nat
                     | Some _, None => true
                     | None, _ => false
                     end in
  if quote_first then
    match q with
    | Some qi => Done (StrOk (consumed + qi) (rev (rev (firstn qi w) ++ out)))
    | None => Done StrFail
    end
  else
    match bs with
    | None => Cont 32 (rev w ++ out)
    | Some bi =>
      match model_esc (skipn bi cur) (esc_dist cur bi q) with
      | None => Done StrFail
      | Some (adv, o) => Cont (bi + adv) (rev o ++ rev (firstn bi w) ++ out)
      end
    end.

Lemma str_loop_S fuel cur c out max :
  str_loop (S fuel) cur c out max =
  match str_step cur c out with
  | Done r => r
  | Cont adv out' =>
    match max with
    | Some m => if (c + adv <? m)%nat then str_loop fuel (skipn adv cur) (c + adv) out' max
                else StrFail
    | None => str_loop fuel (skipn adv cur) (c + adv) out' max
    end
  end.
Proof.
  cbn [str_loop]. unfold str_step, model_esc, esc_dist. cbv zeta.
  destruct (first_of cBSLASH (win32 cur)) as [bi|];
    destruct (first_of cQUOTE (win32 cur)) as [qi|]; try reflexivity.
  - rewrite !nth_b_skipn, Nat.add_1_r. destruct (qi <? bi)%nat; [reflexivity|].
    destruct (nth_b cur (S bi) =? c_u).
    + destruct (str_unicode (skipn bi cur) (qi - bi)) as [[adv cp]|]; [|reflexivity].
      destruct (utf8_len cp); reflexivity.
    + destruct (escape_map_ref (nth_b cur (S bi)) =? 0); reflexivity.
  - rewrite !nth_b_skipn, Nat.add_1_r.
    destruct (nth_b cur (S bi) =? c_u).
    + match goal with |- context [str_unicode ?p ?d] => destruct (str_unicode p d) as [[adv cp]|] end;
        [|reflexivity].
      destruct (utf8_len cp); reflexivity.
    + destruct (escape_map_ref (nth_b cur (S bi)) =? 0); reflexivity.
Qed.

(* ------------------------------------------------------------------ *)
(* the model's escape step agrees with the specification's token        *)

Lemma str_unicode_6 b e h0 h1 h2 h3 r dist cu :
  hex4_spec h0 h1 h2 h3 = Some cu -> ((55296 <=? cu) && (cu <=? 56319)) = false ->
  (6 <= dist)%nat ->
  str_unicode (b :: e :: h0 :: h1 :: h2 :: h3 :: r) dist = Some (6%nat, cu).
Proof.
  intros Hh Ehi Hd. unfold str_unicode.
  destruct (dist <? 6)%nat eqn:E; [lia|].
  unfold nth_b. cbn [nth]. cbv zeta.
  destruct (hex4_ok _ _ _ _ _ Hh) as [-> Hlt].
  rewrite surrogate_test by exact Hlt. rewrite Ehi. reflexivity.
Qed.

Lemma str_unicode_12 b e h0 h1 h2 h3 s0 s1 l0 l1 l2 l3 r dist cu lo :
  hex4_spec h0 h1 h2 h3 = Some cu -> 55296 <= cu <= 56319 ->
  b2n s0 = cBSLASH -> b2n s1 = c_u ->
  hex4_spec l0 l1 l2 l3 = Some lo -> 56320 <= lo <= 57343 ->
  (12 <= dist)%nat ->
  str_unicode (b :: e :: h0 :: h1 :: h2 :: h3 :: s0 :: s1 :: l0 :: l1 :: l2 :: l3 :: r) dist
  = Some (12%nat, 65536 + (cu - 55296) * 1024 + (lo - 56320)).
Proof.
  intros Hh Hcu Hs0 Hs1 Hl Hlo Hd. unfold str_unicode.
  destruct (dist <? 6)%nat eqn:E; [lia|].
  unfold nth_b. cbn [nth]. cbv zeta.
  destruct (hex4_ok _ _ _ _ _ Hh) as [-> Hlt].
  destruct (hex4_ok _ _ _ _ _ Hl) as [-> Hlt2].
  rewrite surrogate_test by exact Hlt.
  replace ((55296 <=? cu) && (cu <=? 56319)) with true by lia.
  destruct (dist <? 12)%nat eqn:E2; [lia|].
  rewrite Hs0, Hs1, !N.eqb_refl. cbn [negb].
  destruct (surrogate_arith cu lo Hcu Hlo) as [E3 E4].
  rewrite E3, E4. reflexivity.
Qed.

Lemma model_esc_ok p t n o dist :
  esc_tok p = TOk n o -> (nth_b p 1 = c_u -> (n <= dist)%nat) ->
  model_esc (p ++ t) dist = Some (n, o).
Proof.
  intros H Hd. apply esc_tok_inv in H.
  destruct H as [(b & e & r & v & -> & Hne & Hv & -> & ->)
               |[(b & e & h0 & h1 & h2 & h3 & r & cu & -> & He & Hh & Ehi & Elo & -> & ->)
                |(b & e & h0 & h1 & h2 & h3 & s0 & s1 & l0 & l1 & l2 & l3 & r & cu & lo & -> & He & Hh & Hcu & Hs0 & Hs1 & Hl & Hlo & -> & ->)]];
    cbn [app]; unfold model_esc; unfold nth_b in *; cbn [nth] in *.
  - apply N.eqb_neq in Hne. rewrite Hne. rewrite escape_map_spec, Hv.
    apply escape_spec_nonzero in Hv. destruct (v =? 0) eqn:E; [lia|]. reflexivity.
  - specialize (Hd He). rewrite He, N.eqb_refl.
    rewrite (str_unicode_6 _ _ _ _ _ _ _ _ _ Hh Ehi Hd).
    destruct (hex4_ok _ _ _ _ _ Hh) as [_ Hlt].
    rewrite utf8_len_spec by lia. rewrite utf8_enc_eq. reflexivity.
  - specialize (Hd He). rewrite He, N.eqb_refl.
    rewrite (str_unicode_12 _ _ _ _ _ _ _ _ _ _ _ _ _ _ _ _ Hh Hcu Hs0 Hs1 Hl Hlo Hd).
    rewrite utf8_len_spec by lia. rewrite utf8_enc_eq. reflexivity.
Qed.

(* the distance to the next quote, as the kernel computes it, is at least
   the token length *)
Lemma esc_dist_ge cur bi n q :
  q = first_of cQUOTE (win32 cur) -> (bi < 32)%nat -> (n <= 12)%nat ->
  (forall qi, q = Some qi -> (bi <= qi)%nat) ->
  (forall j, (j < n)%nat -> nth_b cur (bi + j) <> 34) ->
  (n <= esc_dist cur bi q)%nat.
Proof.
  intros Hq Hbi Hn Hqi Htok. unfold esc_dist. destruct q as [qi|].
  - specialize (Hqi qi eq_refl). symmetry in Hq. apply first_of_some in Hq.
    destruct Hq as (_ & Hc & _).
    destruct (Nat.lt_ge_cases (qi - bi) n) as [L|G]; [|exact G].
    exfalso. apply (Htok (qi - bi)%nat L).
    replace (bi + (qi - bi))%nat with qi by lia. exact Hc.
  - destruct (bi <? 21)%nat eqn:E; [lia|].
    destruct (first_of cQUOTE (win32 (skipn (bi - 20) cur))) as [t|] eqn:Et; [|lia].
    apply first_of_some in Et. destruct Et as (Ht & Hc & _). rewrite nth_b_skipn in Hc.
    destruct (Nat.lt_ge_cases t (20 + n)) as [L|G]; [|lia]. exfalso.
    destruct (Nat.lt_ge_cases t 20) as [L2|G2].
    + symmetry in Hq. apply (first_of_none _ _ Hq (bi - 20 + t)%nat); [lia|exact Hc].
    + apply (Htok (t - 20)%nat); [lia|].
      replace (bi + (t - 20))%nat with (bi - 20 + t)%nat by lia. exact Hc.
Qed.

(* ------------------------------------------------------------------ *)
(* one iteration on  src ++ tail  where [src] decodes and [tail] starts
   with a quote or a backslash                                          *)

Lemma nth_b_tail src tail : nth_b (src ++ tail) (length src) = nth_b tail 0.
Proof. pose proof (nth_b_app_r src tail 0) as H. rewrite Nat.add_0_r in H. exact H. Qed.

Lemma firstn_app_le {A} k (l t : list A) : (k <= length l)%nat -> firstn k (l ++ t) = firstn k l.
Proof.
  intros H. rewrite firstn_app. replace (k - length l)%nat with 0%nat by lia.
  cbn [firstn]. apply app_nil_r.
Qed.

Lemma skipn_app_le {A} k (l t : list A) : (k <= length l)%nat -> skipn k (l ++ t) = skipn k l ++ t.
Proof.
  intros H. rewrite skipn_app. replace (k - length l)%nat with 0%nat by lia. reflexivity.
Qed.

Lemma skipn_skipn' {A} n k : forall l : list A, skipn n (skipn k l) = skipn (k + n) l.
Proof.
  induction k; intros l; [reflexivity|].
  destruct l as [|x l]; cbn [skipn Nat.add]; [destruct n; reflexivity|apply IHk].
Qed.

Lemma skipn_head_b k l b s : skipn k l = b :: s -> b2n b = nth_b l k.
Proof.
  intros E. pose proof (nth_b_skipn k l 0) as H. rewrite E, Nat.add_0_r in H.
  unfold nth_b at 1 in H. cbn [nth] in H. exact H.
Qed.

Lemma skipn_nonempty {A} k (l : list A) : (k < length l)%nat -> skipn k l <> [].
Proof.
  intros H E. apply (f_equal (@length A)) in E. rewrite skipn_length in E. cbn [length] in E. lia.
Qed.

Lemma quote_case src dec tail qi :
  dec_rel src dec -> (nth_b tail 0 = 34 \/ nth_b tail 0 = 92) ->
  nth_b (src ++ tail) qi = 34 ->
  (forall j, (j < qi)%nat -> nth_b (src ++ tail) j <> 34 /\ nth_b (src ++ tail) j <> 92) ->
  qi = length src /\ nth_b tail 0 = 34 /\ dec = src.
Proof.
  intros Hd Ht Hq Hl.
  destruct (lit_prefix qi src dec tail Hd Ht Hl) as (Hk & dec' & -> & Hr).
  destruct (Nat.eq_dec qi (length src)) as [->|Hne].
  - split; [reflexivity|]. rewrite nth_b_tail in Hq. split; [exact Hq|].
    rewrite skipn_all in Hr. apply dec_rel_nil in Hr. subst dec'.
    rewrite firstn_all, app_nil_r. reflexivity.
  - exfalso. assert (Hlt : (qi < length src)%nat) by lia.
    rewrite nth_b_app_l in Hq by exact Hlt.
    destruct (skipn qi src) as [|b s''] eqn:Es.
    { exact (skipn_nonempty _ _ Hlt Es). }
    apply (dec_rel_head_quote _ _ _ Hr). rewrite (skipn_head_b _ _ _ _ Es). exact Hq.
Qed.

Definition esc_branch (cur : bytes) (bi : nat) (q : option nat) (out : bytes) : step_res :=
  match model_esc (skipn bi cur) (esc_dist cur bi q) with
  | None => Done StrFail
  | Some (adv, o) => Cont (bi + adv) (rev o ++ rev (firstn bi (win32 cur)) ++ out)
  end.

Lemma esc_case src dec tail bi q out :
  dec_rel src dec -> (nth_b tail 0 = 34 \/ nth_b tail 0 = 92) ->
  q = first_of cQUOTE (win32 (src ++ tail)) -> (bi < 32)%nat ->
  nth_b (src ++ tail) bi = 92 ->
  (forall j, (j < bi)%nat -> nth_b (src ++ tail) j <> 34 /\ nth_b (src ++ tail) j <> 92) ->
  (forall qi, q = Some qi -> (bi <= qi)%nat) ->
  (exists adv out' dec',
      esc_branch (src ++ tail) bi q out = Cont adv out' /\ (1 <= adv <= length src)%nat /\
      dec_rel (skipn adv src) dec' /\ rev out' ++ dec' = rev out ++ dec) \/
  (nth_b tail 0 = 92 /\ dec = src /\ (length src < 32)%nat /\
   exists dist,
     esc_branch (src ++ tail) bi q out =
     match model_esc tail dist with
     | None => Done StrFail
     | Some (adv, o) => Cont (length src + adv) (rev o ++ rev src ++ out)
     end).
Proof.
  intros Hd Ht Hq Hb32 Hbc Hlit Hqi. subst q.
  destruct (lit_prefix bi src dec tail Hd Ht Hlit) as (Hk & dec' & -> & Hr).
  destruct (Nat.eq_dec bi (length src)) as [->|Hne].
  - right. rewrite nth_b_tail in Hbc. split; [exact Hbc|].
    rewrite skipn_all in Hr. apply dec_rel_nil in Hr. subst dec'.
    rewrite firstn_all, app_nil_r. split; [reflexivity|]. split; [exact Hb32|].
    eexists. unfold esc_branch.
    rewrite skipn_app_le by lia. rewrite skipn_all. cbn [app].
    rewrite win32_firstn by (try lia; rewrite app_length; lia).
    rewrite firstn_app_le by lia. rewrite firstn_all. reflexivity.
  - left. assert (Hlt : (bi < length src)%nat) by lia.
    rewrite nth_b_app_l in Hbc by exact Hlt.
    destruct (skipn bi src) as [|b s''] eqn:Es.
    { exfalso. exact (skipn_nonempty _ _ Hlt Es). }
    pose proof (skipn_head_b _ _ _ _ Es) as Hb. rewrite Hbc in Hb.
    inversion Hr as [|? ? d'' H1 H2 Hd'' | s0 n o d'' Hb0 Htok Hd'']; subst.
    { contradiction. }
    rewrite <- Es in *.
    pose proof (esc_tok_len _ _ _ Htok) as (Hn2 & Hnl & _ & _).
    rewrite skipn_length in Hnl.
    assert (Hm : model_esc (skipn bi (src ++ tail))
                           (esc_dist (src ++ tail) bi (first_of cQUOTE (win32 (src ++ tail))))
                 = Some (n, o)).
    { rewrite skipn_app_le by lia. apply model_esc_ok; [exact Htok|].
      intros Hu. apply esc_dist_ge; [reflexivity|exact Hb32|lia|exact Hqi|].
      intros j Hj. rewrite nth_b_app_l by lia. rewrite <- nth_b_skipn.
      exact (esc_tok_u_noquote _ _ _ Htok Hb0 Hu j Hj). }
    exists (bi + n)%nat, (rev o ++ rev (firstn bi (win32 (src ++ tail))) ++ out), d''.
    split; [unfold esc_branch; rewrite Hm; reflexivity|].
    split; [lia|]. split.
    + rewrite skipn_skipn' in Hd''. exact Hd''.
    + rewrite win32_firstn by (try lia; rewrite app_length; lia).
      rewrite firstn_app_le by lia.
      rewrite !rev_app_distr, !rev_involutive, <- !app_assoc. reflexivity.
Qed.

Lemma str_step_gen src dec tail c out :
  dec_rel src dec -> (nth_b tail 0 = 34 \/ nth_b tail 0 = 92) ->
  (exists adv out' dec',
      str_step (src ++ tail) c out = Cont adv out' /\ (1 <= adv <= length src)%nat /\
      dec_rel (skipn adv src) dec' /\ rev out' ++ dec' = rev out ++ dec) \/
  (nth_b tail 0 = 34 /\
   str_step (src ++ tail) c out = Done (StrOk (c + length src) (rev out ++ dec))) \/
  (nth_b tail 0 = 92 /\ dec = src /\ (length src < 32)%nat /\
   exists dist,
     str_step (src ++ tail) c out =
     match model_esc tail dist with
     | None => Done StrFail
     | Some (adv, o) => Cont (length src + adv) (rev o ++ rev src ++ out)
     end).
Proof.
  intros Hd Ht. unfold str_step. cbv zeta.
  destruct (first_of cBSLASH (win32 (src ++ tail))) as [bi|] eqn:Ebs;
    destruct (first_of cQUOTE (win32 (src ++ tail))) as [qi|] eqn:Eq.
  - pose proof (first_of_some _ _ _ Ebs) as (Hb32 & Hbc & Hbl).
    pose proof (first_of_some _ _ _ Eq) as (Hq32 & Hqc & Hql).
    unfold cQUOTE, cBSLASH in Hbc, Hqc, Hbl, Hql.
    destruct (qi <? bi)%nat eqn:Elt.
    + right; left.
      destruct (quote_case src dec tail qi Hd Ht Hqc) as (-> & Ht34 & ->).
      { intros j Hj. split; [apply Hql; lia|apply Hbl; lia]. }
      split; [exact Ht34|].
      rewrite win32_firstn by (try lia; rewrite app_length; lia).
      rewrite firstn_app_le by lia. rewrite firstn_all.
      rewrite rev_app_distr, rev_involutive. reflexivity.
    + destruct (esc_case src dec tail bi (Some qi) out Hd Ht (eq_sym Eq) Hb32 Hbc) as [H|H].
      { intros j Hj. split; [apply Hql; lia|apply Hbl; lia]. }
      { intros qi' E. injection E as <-. lia. }
      * left. exact H.
      * right; right. exact H.
  - pose proof (first_of_some _ _ _ Ebs) as (Hb32 & Hbc & Hbl).
    pose proof (first_of_none _ _ Eq) as Hqn.
    unfold cQUOTE, cBSLASH in Hbc, Hbl, Hqn.
    destruct (esc_case src dec tail bi None out Hd Ht (eq_sym Eq) Hb32 Hbc) as [H|H].
    { intros j Hj. split; [apply Hqn; lia|apply Hbl; lia]. }
    { intros qi' E. discriminate. }
    + left. exact H.
    + right; right. exact H.
  - pose proof (first_of_none _ _ Ebs) as Hbn.
    pose proof (first_of_some _ _ _ Eq) as (Hq32 & Hqc & Hql).
    unfold cQUOTE, cBSLASH in Hbn, Hqc, Hql.
    right; left.
    destruct (quote_case src dec tail qi Hd Ht Hqc) as (-> & Ht34 & ->).
    { intros j Hj. split; [apply Hql; lia|apply Hbn; lia]. }
    split; [exact Ht34|].
    rewrite win32_firstn by (try lia; rewrite app_length; lia).
    rewrite firstn_app_le by lia. rewrite firstn_all.
    rewrite rev_app_distr, rev_involutive. reflexivity.
  - pose proof (first_of_none _ _ Ebs) as Hbn.
    pose proof (first_of_none _ _ Eq) as Hqn.
    unfold cQUOTE, cBSLASH in Hbn, Hqn.
    left.
    destruct (lit_prefix 32 src dec tail Hd Ht) as (Hk & dec' & -> & Hr).
    { intros j Hj. split; [apply Hqn; lia|apply Hbn; lia]. }
    exists 32%nat, (rev (win32 (src ++ tail)) ++ out), dec'.
    split; [reflexivity|]. split; [lia|]. split; [exact Hr|].
    unfold win32. rewrite take_pad_firstn by (rewrite app_length; lia).
    rewrite firstn_app_le by lia.
    rewrite rev_app_distr, rev_involutive, <- app_assoc. reflexivity.
Qed.

(* ------------------------------------------------------------------ *)
(* C04, kernel level: the window walk decodes like the specification    *)

Lemma str_loop_dec : forall fuel src dec rest c out,
  dec_rel src dec -> (length src < fuel)%nat ->
  str_loop fuel (src ++ x22 :: rest) c out None = StrOk (c + length src) (rev out ++ dec).
Proof.
  induction fuel as [|f IH]; intros src dec rest c out Hd Hf; [lia|].
  rewrite str_loop_S.
  destruct (str_step_gen src dec (x22 :: rest) c out Hd (or_introl eq_refl))
    as [(adv & out' & dec' & Hs & Ha & Hd' & Ho) | [(_ & Hs) | (Ht & _)]].
  - rewrite Hs. rewrite skipn_app_le by lia.
    rewrite (IH (skipn adv src) dec' rest (c + adv)%nat out' Hd').
    + rewrite skipn_length, Ho. f_equal. lia.
    + rewrite skipn_length. lia.
  - rewrite Hs. reflexivity.
  - vm_compute in Ht. discriminate.
Qed.

(* main theorem: whenever the specification decodes the string body in
   [mem] (the bytes after the opening quote), the model, started on the same
   memory, stops at the same closing quote with the same decoded bytes *)
Theorem str_loop_correct mem sfuel dec rest :
  spec_string sfuel mem [] = SOk (dec, rest) ->
  exists src,
    mem = src ++ x22 :: rest /\
    forall fuel, (length src < fuel)%nat ->
                 str_loop fuel mem 0 [] None = StrOk (length src) dec.
Proof.
  intros H. apply spec_string_dec in H. destruct H as (src & dec' & -> & -> & Hd).
  exists src. split; [reflexivity|]. intros fuel Hf.
  rewrite (str_loop_dec fuel src dec' rest 0%nat [] Hd Hf). reflexivity.
Qed.

Corollary str_validate_correct mem sfuel dec rest max fuel :
  spec_string sfuel mem [] = SOk (dec, rest) -> (length mem < fuel)%nat ->
  exists src, mem = src ++ x22 :: rest /\ str_validate mem max fuel = StrOk (length src) dec.
Proof.
  intros H Hf. destruct (str_loop_correct _ _ _ _ H) as (src & E & Hl).
  exists src. split; [exact E|]. unfold str_validate. apply Hl.
  rewrite E, app_length in Hf. lia.
Qed.

(* ------------------------------------------------------------------ *)
(* fuel                                                                 *)

Lemma model_esc_adv p dist adv o : model_esc p dist = Some (adv, o) -> (2 <= adv)%nat.
Proof.
  unfold model_esc, str_unicode. cbv zeta.
  destruct (nth_b p 1 =? c_u).
  - destruct (dist <? 6)%nat; [discriminate|].
    match goal with |- context [if ?c then _ else Some (6%nat, _)] => destruct c end.
    + destruct (dist <? 12)%nat; [discriminate|].
      destruct (negb (nth_b p 6 =? cBSLASH)); [discriminate|].
      destruct (negb (nth_b p 7 =? c_u)); [discriminate|].
      match goal with |- context [if ?c then None else _] => destruct c end; [discriminate|].
      match goal with |- context [utf8_len ?x] => destruct (utf8_len x) end; [|discriminate].
      intros H. injection H as <- _. lia.
    + match goal with |- context [utf8_len ?x] => destruct (utf8_len x) end; [|discriminate].
      intros H. injection H as <- _. lia.
  - destruct (escape_map_ref (nth_b p 1) =? 0); [discriminate|].
    intros H. injection H as <- _. lia.
Qed.

Lemma str_step_adv cur c out adv out' : str_step cur c out = Cont adv out' -> (1 <= adv)%nat.
Proof.
  unfold str_step. cbv zeta.
  destruct (first_of cBSLASH (win32 cur)) as [bi|];
    destruct (first_of cQUOTE (win32 cur)) as [qi|]; try discriminate.
  - destruct (qi <? bi)%nat; [discriminate|].
    destruct (model_esc (skipn bi cur) (esc_dist cur bi (Some qi))) as [[a o]|] eqn:E; [|discriminate].
    intros H. injection H as <- _. apply model_esc_adv in E. lia.
  - destruct (model_esc (skipn bi cur) (esc_dist cur bi None)) as [[a o]|] eqn:E; [|discriminate].
    intros H. injection H as <- _. apply model_esc_adv in E. lia.
  - intros H. injection H as <- _. lia.
Qed.

Lemma str_step_done cur c out r :
  str_step cur c out = Done r -> r <> StrFuel /\ forall n d, r = StrOk n d -> (c <= n)%nat.
Proof.
  unfold str_step. cbv zeta.
  destruct (first_of cBSLASH (win32 cur)) as [bi|];
    destruct (first_of cQUOTE (win32 cur)) as [qi|]; try discriminate.
  - destruct (qi <? bi)%nat.
    + intros H. injection H as <-. split; [discriminate|]. intros n d E. injection E as <- _. lia.
    + destruct (model_esc (skipn bi cur) (esc_dist cur bi (Some qi))) as [[a o]|]; [discriminate|].
      intros H. injection H as <-. split; discriminate.
  - destruct (model_esc (skipn bi cur) (esc_dist cur bi None)) as [[a o]|]; [discriminate|].
    intros H. injection H as <-. split; discriminate.
  - intros H. injection H as <-. split; [discriminate|]. intros n d E. injection E as <- _. lia.
Qed.

(* more fuel never changes a definite answer *)
Lemma str_loop_mono : forall f cur c out r,
  str_loop f cur c out None = r -> r <> StrFuel ->
  forall f', (f <= f')%nat -> str_loop f' cur c out None = r.
Proof.
  induction f as [|f IH]; intros cur c out r H Hr f' Hf.
  { cbn [str_loop] in H. congruence. }
  destruct f' as [|f']; [lia|].
  rewrite str_loop_S in *. destruct (str_step cur c out) as [r0|adv out']; [exact H|].
  apply (IH _ _ _ _ H Hr). lia.
Qed.

(* a successful walk needs no more fuel than the source length it reports *)
Lemma str_loop_ok_fuel : forall f cur c out n d,
  str_loop f cur c out None = StrOk n d ->
  (c <= n)%nat /\ str_loop (S (n - c)) cur c out None = StrOk n d.
Proof.
  induction f as [|f IH]; intros cur c out n d H; [discriminate|].
  rewrite str_loop_S in H. rewrite str_loop_S.
  destruct (str_step cur c out) as [r0|adv out'] eqn:Es.
  - subst r0. split; [|reflexivity]. apply str_step_done in Es. destruct Es as [_ Es].
    exact (Es n d eq_refl).
  - apply str_step_adv in Es. apply IH in H. destruct H as [Hle H]. split; [lia|].
    apply (str_loop_mono _ _ _ _ _ H); [discriminate|lia].
Qed.

(* the copying pass repeats the validating pass *)
Theorem str_validate_copy_agree mem max fuel n dec :
  str_validate mem max fuel = StrOk n dec -> str_copy mem n = StrOk n dec.
Proof.
  unfold str_validate, str_copy. intros H.
  apply str_loop_ok_fuel in H. destruct H as [_ H]. rewrite Nat.sub_0_r in H.
  apply (str_loop_mono _ _ _ _ _ H); [discriminate|lia].
Qed.

(* ------------------------------------------------------------------ *)
(* C04 at the parseString level                                         *)

Definition no_bslash (s : bytes) : bool := forallb (fun b => negb (b2n b =? 92)) s.

(* every escape shrinks; without escapes the body is its own decoding *)
Lemma dec_rel_len src dec :
  dec_rel src dec ->
  (no_bslash src = true -> dec = src) /\
  (no_bslash src = false -> (length dec < length src)%nat) /\
  (length dec <= length src)%nat.
Proof.
  induction 1 as [|b s d H1 H2 Hd (A & B & C)|s n o d Hb Ht Hd (A & B & C)].
  - repeat split; auto; discriminate.
  - unfold no_bslash in *. cbn [forallb length].
    replace (b2n b =? 92) with false by lia. cbn [negb andb].
    repeat split.
    + intros E. rewrite (A E). reflexivity.
    + intros E. specialize (B E). lia.
    + lia.
  - pose proof (esc_tok_len _ _ _ Ht) as (Hn2 & Hnl & Ho1 & Ho2).
    rewrite skipn_length in C. rewrite app_length.
    assert (L : (length o + length d < length s)%nat) by lia.
    repeat split; [|intros _; exact L|lia].
    intros E. exfalso. destruct s as [|b s]; [cbn [length] in Hnl; lia|].
    unfold nth_b in Hb. cbn [nth] in Hb.
    unfold no_bslash in E. cbn [forallb] in E. rewrite Hb in E. cbn in E. discriminate.
Qed.

(* the same at the level of the specification: the source body is longer
   than the decoded string exactly when it contains an escape *)
Corollary spec_string_shrinks mem sfuel dec rest :
  spec_string sfuel mem [] = SOk (dec, rest) ->
  exists src,
    mem = src ++ x22 :: rest /\
    (no_bslash src = true -> dec = src) /\
    (no_bslash src = false -> (length dec < length src)%nat).
Proof.
  intros H. apply spec_string_dec in H. destruct H as (src & dec' & -> & -> & Hd).
  exists src. split; [reflexivity|]. cbn [rev app].
  pose proof (dec_rel_len _ _ Hd) as (A & B & _). split; assumption.
Qed.

Theorem parse_string_model_correct mem sfuel dec rest q0 idx max copy slen fuel :
  spec_string sfuel mem [] = SOk (dec, rest) -> (length mem < fuel)%nat ->
  exists src r,
    mem = src ++ x22 :: rest /\
    parse_string_model (q0 :: mem) idx max copy slen fuel = Ok r /\
    ps_len r = N.of_nat (length dec) /\
    (if negb copy && no_bslash src
     then ps_app r = [] /\ ps_word r = mk_word TagString (idx + 1) /\ dec = src
     else ps_app r = dec /\ ps_word r = mk_word TagString (STRINGBUFBIT + slen)).
Proof.
  intros H Hfuel. apply spec_string_dec in H. destruct H as (src & dec' & -> & -> & Hd).
  cbn [rev app].
  assert (Hv : str_validate (src ++ x22 :: rest) max fuel = StrOk (length src) dec').
  { unfold str_validate.
    rewrite (str_loop_dec _ src dec' rest 0%nat [] Hd); [reflexivity|].
    rewrite app_length in Hfuel. lia. }
  pose proof (str_validate_copy_agree _ _ _ _ _ Hv) as Hc.
  pose proof (dec_rel_len _ _ Hd) as (A & B & C).
  exists src. unfold parse_string_model. rewrite Hv.
  destruct copy.
  - cbn [orb negb andb]. rewrite Hc. eexists. split; [reflexivity|]. split; [reflexivity|].
    cbn [ps_app ps_word ps_len]. repeat split.
  - cbn [orb negb andb]. destruct (no_bslash src) eqn:E.
    + rewrite (A eq_refl). rewrite Nat.eqb_refl. cbn [negb].
      eexists. split; [reflexivity|]. split; [reflexivity|].
      cbn [ps_app ps_word ps_len]. repeat split.
    + specialize (B eq_refl).
      destruct (Nat.eqb_spec (length src) (length dec')) as [E2|E2]; [lia|]. cbn [negb].
      rewrite Hc. eexists. split; [reflexivity|]. split; [reflexivity|].
      cbn [ps_app ps_word ps_len]. repeat split.
Qed.

(* ------------------------------------------------------------------ *)
(* rejection: a malformed escape makes the kernel fail                  *)

Lemma model_esc_u_bad p dist :
  nth_b p 1 = c_u ->
  N.testbit (hex4 (nth_b p 2) (nth_b p 3) (nth_b p 4) (nth_b p 5)) 31 = true ->
  model_esc p dist = None.
Proof.
  intros Hu Hb. unfold model_esc, str_unicode. rewrite Hu, N.eqb_refl.
  destruct (dist <? 6)%nat; [reflexivity|]. cbv zeta.
  rewrite (bit31_not_surrogate _ Hb). rewrite (bit31_utf8_len _ Hb). reflexivity.
Qed.

Lemma hex4_spec_pad3 a b c : hex4_spec a b c x00 = None.
Proof.
  unfold hex4_spec. change (hexval (b2n x00)) with (@None N).
  repeat match goal with |- context [match hexval ?x with _ => _ end] => destruct (hexval x) end;
    reflexivity.
Qed.
Lemma hex4_spec_pad2 a b d : hex4_spec a b x00 d = None.
Proof.
  unfold hex4_spec. change (hexval (b2n x00)) with (@None N).
  repeat match goal with |- context [match hexval ?x with _ => _ end] => destruct (hexval x) end;
    reflexivity.
Qed.
Lemma hex4_spec_pad1 a c d : hex4_spec a x00 c d = None.
Proof.
  unfold hex4_spec. change (hexval (b2n x00)) with (@None N).
  repeat match goal with |- context [match hexval ?x with _ => _ end] => destruct (hexval x) end;
    reflexivity.
Qed.
Lemma hex4_spec_pad0 b c d : hex4_spec x00 b c d = None.
Proof.
  unfold hex4_spec. change (hexval (b2n x00)) with (@None N). reflexivity.
Qed.

(* [p] is everything from the offending backslash to the end of memory *)
Lemma model_esc_bad p dist : esc_tok p = TInvalid -> model_esc p dist = None.
Proof.
  unfold esc_tok. intros H.
  destruct p as [|b [|e r2]]; try reflexivity.
  destruct (b2n e =? c_u) eqn:Eu.
  - apply N.eqb_eq in Eu. apply model_esc_u_bad; [exact Eu|].
    unfold nth_b. cbn [nth].
    destruct r2 as [|h0 [|h1 [|h2 [|h3 r3]]]]; cbn [nth].
    + apply hex4_bad_bit. apply hex4_spec_pad0.
    + apply hex4_bad_bit. apply hex4_spec_pad1.
    + apply hex4_bad_bit. apply hex4_spec_pad2.
    + apply hex4_bad_bit. apply hex4_spec_pad3.
    + apply hex4_bad_bit.
      destruct (hex4_spec h0 h1 h2 h3) as [cu|]; [|reflexivity]. exfalso.
      destruct ((55296 <=? cu) && (cu <=? 56319)).
      { destruct r3 as [|s0 [|s1 [|l0 [|l1 [|l2 [|l3 r4]]]]]]; try discriminate.
        destruct ((b2n s0 =? cBSLASH) && (b2n s1 =? c_u)); [|discriminate].
        destruct (hex4_spec l0 l1 l2 l3) as [lo|]; [|discriminate].
        destruct ((56320 <=? lo) && (lo <=? 57343)); discriminate. }
      destruct ((56320 <=? cu) && (cu <=? 57343)); discriminate.
  - destruct (escape_spec (b2n e)) as [v|] eqn:Ev; [discriminate|].
    unfold model_esc, nth_b. cbn [nth]. rewrite Eu.
    rewrite escape_map_spec, Ev. reflexivity.
Qed.

(* the kernel fails at the first malformed escape: [pre] is a well-formed
   prefix without unescaped quote, [p] starts at a backslash that begins no
   valid escape (unknown letter, \u with a non-hex digit, or truncated) *)
Theorem str_reject : forall fuel pre d p c out,
  dec_rel pre d -> nth_b p 0 = 92 -> esc_tok p = TInvalid ->
  (length pre < fuel)%nat ->
  str_loop fuel (pre ++ p) c out None = StrFail.
Proof.
  induction fuel as [|f IH]; intros pre d p c out Hd Hp Ht Hf; [lia|].
  rewrite str_loop_S.
  destruct (str_step_gen pre d p c out Hd (or_intror Hp))
    as [(adv & out' & dec' & Hs & Ha & Hd' & Ho) | [(Hq & _) | (_ & _ & _ & dist & Hs)]].
  - rewrite Hs. rewrite skipn_app_le by lia.
    apply (IH _ dec'); [exact Hd'|exact Hp|exact Ht|]. rewrite skipn_length. lia.
  - rewrite Hp in Hq. discriminate.
  - rewrite Hs. rewrite (model_esc_bad _ dist Ht). reflexivity.
Qed.

(* why the specification says SInvalid: a control character, no closing
   quote at all, or a malformed escape after a well-formed prefix *)
Theorem spec_invalid_cases : forall fuel s acc,
  spec_string fuel s acc = SInvalid ->
  (exists b, In b s /\ b2n b < 32) \/
  (exists d, dec_rel s d) \/
  (exists pre d p, s = pre ++ p /\ dec_rel pre d /\ nth_b p 0 = 92 /\ esc_tok p = TInvalid).
Proof.
  induction fuel as [|f IH]; intros s acc H; [discriminate|].
  destruct s as [|b s'].
  { right; left. exists []. constructor. }
  destruct (b2n b =? cQUOTE) eqn:Eq.
  { cbn [spec_string] in H. rewrite Eq in H. discriminate. }
  destruct (b2n b <? 32) eqn:Ec.
  { left. exists b. split; [left; reflexivity|lia]. }
  destruct (b2n b =? cBSLASH) eqn:Eb.
  { rewrite spec_bs in H by assumption.
    destruct (esc_tok (b :: s')) as [n o| |] eqn:Et; try discriminate.
    - pose proof (esc_tok_len _ _ _ Et) as (Hn2 & Hn & _ & _).
      assert (Hhd : nth_b (firstn n (b :: s')) 0 = 92).
      { apply N.eqb_eq in Eb. destruct n as [|n]; [lia|]. exact Eb. }
      apply IH in H. destruct H as [(x & Hin & Hx) | [(d & Hd) | (pre & d & p & Hs & Hd & Hp & Htp)]].
      + left. exists x. split; [|exact Hx].
        rewrite <- (firstn_skipn n (b :: s')). apply in_or_app. right. exact Hin.
      + right; left. exists (o ++ d). apply DEsc with (n := n); [|exact Et|exact Hd].
        apply N.eqb_eq in Eb. exact Eb.
      + right; right. exists (firstn n (b :: s') ++ pre), (o ++ d), p. split; [|split; [|split]].
        * rewrite <- app_assoc, <- Hs. symmetry. apply firstn_skipn.
        * apply DEsc with (n := n); [|apply esc_tok_app, esc_tok_firstn; exact Et|].
          -- unfold nth_b in *. rewrite app_nth1; [exact Hhd|].
             rewrite firstn_length. cbn [length] in *. lia.
          -- rewrite skipn_firstn_app by exact Hn. exact Hd.
        * exact Hp.
        * exact Htp.
    - right; right. exists [], [], (b :: s'). split; [reflexivity|]. split; [constructor|].
      split; [apply N.eqb_eq in Eb; exact Eb|exact Et]. }
  destruct (b2n b <? 128) eqn:Ea.
  { cbn [spec_string] in H. rewrite Eq, Ec, Eb, Ea in H.
    assert (L1 : b2n b <> 34) by (unfold cQUOTE in Eq; lia).
    assert (L2 : b2n b <> 92) by (unfold cBSLASH in Eb; lia).
    apply IH in H. destruct H as [(x & Hin & Hx) | [(d & Hd) | (pre & d & p & Hs & Hd & Hp & Htp)]].
    - left. exists x. split; [right; exact Hin|exact Hx].
    - right; left. exists (b :: d). apply DLit; assumption.
    - right; right. exists (b :: pre), (b :: d), p. rewrite Hs.
      split; [reflexivity|]. split; [apply DLit; assumption|]. split; assumption. }
  cbn [spec_string] in H. rewrite Eq, Ec, Eb, Ea in H.
  destruct (utf8_seq_len (b :: s')) as [n|] eqn:Eu; [|discriminate].
  apply utf8_seq_len_lit in Eu. destruct Eu as [Hn Hall].
  assert (Hall' : Forall (fun b => b2n b <> 34 /\ b2n b <> 92) (firstn n (b :: s'))).
  { eapply Forall_impl; [|exact Hall]. cbn beta. intros a Ha. lia. }
  apply IH in H. destruct H as [(x & Hin & Hx) | [(d & Hd) | (pre & d & p & Hs & Hd & Hp & Htp)]].
  - left. exists x. split; [|exact Hx].
    rewrite <- (firstn_skipn n (b :: s')). apply in_or_app. right. exact Hin.
  - right; left. exists (firstn n (b :: s') ++ d).
    rewrite <- (firstn_skipn n (b :: s')) at 1. apply dec_rel_lit_app; assumption.
  - right; right. exists (firstn n (b :: s') ++ pre), (firstn n (b :: s') ++ d), p.
    split; [|split; [|split]].
    + rewrite <- app_assoc, <- Hs. symmetry. apply firstn_skipn.
    + apply dec_rel_lit_app; assumption.
    + exact Hp.
    + exact Htp.
Qed.

(* rejection against the specification: when the specification rejects a
   string body that contains no control character (those are stage 1's
   business) and that is not simply unterminated, the kernel fails *)
Theorem str_reject_spec mem sfuel max fuel :
  spec_string sfuel mem [] = SInvalid -> (length mem < fuel)%nat ->
  (forall b, In b mem -> 32 <= b2n b) ->
  str_validate mem max fuel = StrFail \/ (exists d, dec_rel mem d).
Proof.
  intros H Hfuel Hctl. apply spec_invalid_cases in H.
  destruct H as [(x & Hin & Hx) | [Hun | (pre & d & p & -> & Hd & Hp & Htp)]].
  - specialize (Hctl x Hin). lia.
  - right. exact Hun.
  - left. unfold str_validate. apply (str_reject _ pre d p); try assumption.
    rewrite app_length in Hfuel. lia.
Qed.

(* ------------------------------------------------------------------ *)
(* no closing quote at all: the kernel never reports success            *)

Lemma model_esc_short p n o dist :
  esc_tok p = TOk n o -> nth_b p 1 = c_u -> (dist < n)%nat -> model_esc p dist = None.
Proof.
  intros H Hu Hd. apply esc_tok_inv in H.
  destruct H as [(b & e & r & v & -> & Hne & Hv & -> & ->)
               |[(b & e & h0 & h1 & h2 & h3 & r & cu & -> & He & Hh & Ehi & Elo & -> & ->)
                |(b & e & h0 & h1 & h2 & h3 & s0 & s1 & l0 & l1 & l2 & l3 & r & cu & lo & -> & He & Hh & Hcu & Hs0 & Hs1 & Hl & Hlo & -> & ->)]].
  - exfalso. apply Hne. exact Hu.
  - unfold model_esc, str_unicode. rewrite Hu, N.eqb_refl.
    destruct (dist <? 6)%nat eqn:E; [reflexivity|lia].
  - unfold model_esc, str_unicode. rewrite Hu, N.eqb_refl.
    destruct (dist <? 6)%nat eqn:E; [reflexivity|].
    unfold nth_b. cbn [nth]. cbv zeta.
    destruct (hex4_ok _ _ _ _ _ Hh) as [-> Hlt].
    rewrite surrogate_test by exact Hlt.
    replace ((55296 <=? cu) && (cu <=? 56319)) with true by lia.
    destruct (dist <? 12)%nat eqn:E2; [reflexivity|lia].
Qed.

Lemma model_esc_det p n o dist adv o' :
  esc_tok p = TOk n o -> model_esc p dist = Some (adv, o') -> adv = n.
Proof.
  intros H Hm.
  destruct (N.eq_dec (nth_b p 1) c_u) as [Hu|Hu].
  - destruct (Nat.le_gt_cases n dist) as [L|G].
    + pose proof (model_esc_ok p [] n o dist H (fun _ => L)) as E.
      rewrite app_nil_r in E. congruence.
    + rewrite (model_esc_short _ _ _ _ H Hu G) in Hm. discriminate.
  - pose proof (model_esc_ok p [] n o dist H (fun E => False_ind _ (Hu E))) as E.
    rewrite app_nil_r in E. congruence.
Qed.

(* literal prefix, no tail needed when the prefix stays inside [src] *)
Lemma lit_prefix_in k src dec :
  dec_rel src dec -> (k <= length src)%nat ->
  (forall j, (j < k)%nat -> nth_b src j <> 34 /\ nth_b src j <> 92) ->
  exists dec', dec = firstn k src ++ dec' /\ dec_rel (skipn k src) dec'.
Proof.
  intros Hd Hk H.
  destruct (lit_prefix k src dec [x22] Hd (or_introl eq_refl)) as (_ & R).
  - intros j Hj. rewrite nth_b_app_l by lia. apply H. exact Hj.
  - exact R.
Qed.

Lemma nth_b_beyond l i : (length l <= i)%nat -> nth_b l i = 0.
Proof. intros H. unfold nth_b. rewrite nth_overflow by exact H. reflexivity. Qed.

Lemma str_step_unterminated src dec c out :
  dec_rel src dec ->
  (exists r, str_step src c out = Done r /\ forall n d, r <> StrOk n d) \/
  (exists adv out' dec', str_step src c out = Cont adv out' /\ dec_rel (skipn adv src) dec').
Proof.
  intros Hd.
  assert (Hquote : forall qi, nth_b src qi = 34 ->
            (forall j, (j < qi)%nat -> nth_b src j <> 34 /\ nth_b src j <> 92) -> False).
  { intros qi Hq Hl.
    assert (Hlt : (qi < length src)%nat).
    { destruct (Nat.lt_ge_cases qi (length src)) as [L|G]; [exact L|].
      rewrite nth_b_beyond in Hq by exact G. discriminate. }
    destruct (lit_prefix_in qi src dec Hd ltac:(lia) Hl) as (dec' & _ & Hr).
    destruct (skipn qi src) as [|b s''] eqn:Es.
    { exact (skipn_nonempty _ _ Hlt Es). }
    apply (dec_rel_head_quote _ _ _ Hr). rewrite (skipn_head_b _ _ _ _ Es). exact Hq. }
  assert (Hesc : forall bi q, nth_b src bi = 92 ->
            (forall j, (j < bi)%nat -> nth_b src j <> 34 /\ nth_b src j <> 92) ->
            (exists r, esc_branch src bi q out = Done r /\ forall n d, r <> StrOk n d) \/
            (exists adv out' dec', esc_branch src bi q out = Cont adv out' /\
                                   dec_rel (skipn adv src) dec')).
  { intros bi q Hb Hl.
    assert (Hlt : (bi < length src)%nat).
    { destruct (Nat.lt_ge_cases bi (length src)) as [L|G]; [exact L|].
      rewrite nth_b_beyond in Hb by exact G. discriminate. }
    destruct (lit_prefix_in bi src dec Hd ltac:(lia) Hl) as (dec' & _ & Hr).
    destruct (skipn bi src) as [|b s''] eqn:Es.
    { exfalso. exact (skipn_nonempty _ _ Hlt Es). }
    pose proof (skipn_head_b _ _ _ _ Es) as Hb'. rewrite Hb in Hb'.
    inversion Hr as [|? ? d'' H1 H2 Hd'' | s0 n o d'' Hb0 Htok Hd'']; subst.
    { contradiction. }
    rewrite <- Es in *. unfold esc_branch.
    destruct (model_esc (skipn bi src) (esc_dist src bi q)) as [[adv o']|] eqn:Em.
    - right. rewrite (model_esc_det _ _ _ _ _ _ Htok Em).
      eexists _, _, d''. split; [reflexivity|].
      rewrite skipn_skipn' in Hd''. exact Hd''.
    - left. eexists. split; [reflexivity|]. discriminate. }
  unfold str_step. cbv zeta.
  destruct (first_of cBSLASH (win32 src)) as [bi|] eqn:Ebs;
    destruct (first_of cQUOTE (win32 src)) as [qi|] eqn:Eq.
  - pose proof (first_of_some _ _ _ Ebs) as (Hb32 & Hbc & Hbl).
    pose proof (first_of_some _ _ _ Eq) as (Hq32 & Hqc & Hql).
    unfold cQUOTE, cBSLASH in Hbc, Hqc, Hbl, Hql.
    destruct (qi <? bi)%nat eqn:Elt.
    + exfalso. apply (Hquote qi Hqc). intros j Hj. split; [apply Hql; lia|apply Hbl; lia].
    + apply (Hesc bi (Some qi) Hbc). intros j Hj. split; [apply Hql; lia|apply Hbl; lia].
  - pose proof (first_of_some _ _ _ Ebs) as (Hb32 & Hbc & Hbl).
    pose proof (first_of_none _ _ Eq) as Hqn.
    unfold cQUOTE, cBSLASH in Hbc, Hbl, Hqn.
    apply (Hesc bi None Hbc). intros j Hj. split; [apply Hqn; lia|apply Hbl; lia].
  - pose proof (first_of_none _ _ Ebs) as Hbn.
    pose proof (first_of_some _ _ _ Eq) as (Hq32 & Hqc & Hql).
    unfold cQUOTE, cBSLASH in Hbn, Hqc, Hql.
    exfalso. apply (Hquote qi Hqc). intros j Hj. split; [apply Hql; lia|apply Hbn; lia].
  - pose proof (first_of_none _ _ Ebs) as Hbn.
    pose proof (first_of_none _ _ Eq) as Hqn.
    unfold cQUOTE, cBSLASH in Hbn, Hqn.
    right. destruct (Nat.le_gt_cases 32 (length src)) as [L|G].
    + destruct (lit_prefix_in 32 src dec Hd L) as (dec' & _ & Hr).
      { intros j Hj. split; [apply Hqn; lia|apply Hbn; lia]. }
      eexists _, _, dec'. split; [reflexivity|exact Hr].
    + eexists _, _, []. split; [reflexivity|].
      rewrite skipn_all2 by lia. constructor.
Qed.

Theorem str_unterminated : forall fuel src dec c out n d,
  dec_rel src dec -> str_loop fuel src c out None <> StrOk n d.
Proof.
  induction fuel as [|f IH]; intros src dec c out n d Hd; [discriminate|].
  rewrite str_loop_S.
  destruct (str_step_unterminated src dec c out Hd)
    as [(r & Hs & Hr) | (adv & out' & dec' & Hs & Hd')]; rewrite Hs.
  - apply Hr.
  - apply (IH _ dec'). exact Hd'.
Qed.

(* whenever the specification rejects a body without control characters,
   the kernel does not accept it *)
Theorem str_reject_spec_never_ok mem sfuel max fuel :
  spec_string sfuel mem [] = SInvalid -> (length mem < fuel)%nat ->
  (forall b, In b mem -> 32 <= b2n b) ->
  forall n d, str_validate mem max fuel <> StrOk n d.
Proof.
  intros H Hfuel Hctl n d.
  destruct (str_reject_spec mem sfuel max fuel H Hfuel Hctl) as [E|(d' & Hd)].
  - rewrite E. discriminate.
  - unfold str_validate. apply (str_unterminated _ _ d'). exact Hd.
Qed.

Print Assumptions spec_string_dec.
Print Assumptions str_loop_correct.
Print Assumptions str_validate_correct.
Print Assumptions str_validate_copy_agree.
Print Assumptions parse_string_model_correct.
Print Assumptions str_reject.
Print Assumptions str_reject_spec.
Print Assumptions str_unterminated.
Print Assumptions str_reject_spec_never_ok.
