(* MaskModel.v — mask-level (bit-parallel) model of the stage-1 block kernels.

   One 64-byte block is turned into 64-bit masks (bit i <-> byte i of the
   block) and combined with 64-bit integer instructions.  The model follows
   the assembly of /repo instruction by instruction at the level of the
   general-purpose / mask registers; the byte-wise SIMD compares that produce
   the input masks are abstracted by [mask_of] (their constants and look-up
   tables are tied to [is_markup] / [is_json_ws] / [< 0x20] / the broadcast
   bytes by Tie/Stage1AsmTie.v).

   The two kernel families differ only in how a byte predicate becomes a
   64-bit mask:
     AVX2    two 32-byte halves: VPCMPEQB/VPCMPGTB ymm ; VPMOVMSKB -> 32 bits
             each ; SHLQ $32 ; ORQ                      ([mask_of_avx2])
     AVX-512 one 64-byte compare straight into a mask register:
             VPCMPEQB/VPCMPGTB zmm -> K ; KMOVQ K, r64   ([mask_of])
   and in whether masks are combined in K registers (KNOTQ/KANDQ/KORQ) or in
   general-purpose registers (NOTQ/ANDQ/ORQ/ANDNQ).  Everything after the
   masks exist is literally the same instruction sequence (the macro
   FIND_ODD_BACKSLASH_SEQUENCES is shared, __finalize_structurals_avx512 is a
   copy of __finalize_structurals preceded by three KMOVQ, the carry-less
   multiply and SARQ are the same instructions, __flatten_bits_incremental is
   one routine used by both).  [mask_block] is therefore the model of both;
   [mask_block_avx2] spells out the AVX2 way of forming the masks and
   MaskProofsBlock.mask_block_avx2_eq proves it equal.

   Definitions only; proofs are in Proofs/MaskProofs*.v, the final statements
   in Proofs/MaskFinal.v. *)
From SJ Require Import Model.Base Model.RefTables Model.Stage1.
Open Scope N_scope.

(* ------------------------------------------------------------------ *)
(* 64-bit register operations                                          *)

Definition ones64 : N := 18446744073709551615.       (* 0xFFFFFFFFFFFFFFFF *)
Definition even_bits : N := 6148914691236517205.     (* 0x5555555555555555, MOVQ $0x5555555555555555, R8 *)
Definition odd_bits : N := 12297829382473034410.     (* 0xAAAAAAAAAAAAAAAA, MOVQ $0xaaaaaaaaaaaaaaaa, R10 *)

(* NOTQ r / KNOTQ k : complement within 64 bits *)
Definition not64 (x : N) : N := N.ldiff ones64 x.
(* ANDNQ b, a, dst (Intel: andn dst, a, b) : ~a & b *)
Definition andn64 (a b : N) : N := N.ldiff b a.
(* LEAQ (AX)(AX*1), r : x + x, wrapped to 64 bits, i.e. x << 1 *)
Definition shl1 (x : N) : N := w64 (x + x).
(* ADDQ with the carry flag (SETCS) *)
Definition add64 (a b : N) : N * bool := (w64 (a + b), two64 <=? a + b).
(* SHRQ $63 : logical shift *)
Definition shr63 (x : N) : N := N.shiftr x 63.
(* SARQ $63 : arithmetic shift of the two's-complement reading *)
Definition sar63 (x : N) : N := u64_of_Z (Z.shiftr (s64 x) 63).

(* VPCLMULQDQ $0 : carry-less product of the low quadwords, as the XOR of
   the shifted copies of b selected by the bits of a (n = 64 bits of a) *)
Fixpoint clmul (n : nat) (a b : N) : N :=
  match n with
  | O => 0
  | S k => N.lxor (clmul k a b)
                  (if N.testbit a (N.of_nat k) then N.shiftl b (N.of_nat k) else 0)
  end.
(* VMOVQ X2, AX : the low 64 bits of the 128-bit product *)
Definition clmul_lo64 (a b : N) : N := w64 (clmul 64 a b).

(* ------------------------------------------------------------------ *)
(* byte predicates to masks                                            *)

(* bit i of the result is set iff p holds of byte i of the block
   (AVX-512: one compare into a K register, KMOVQ to a general register) *)
Fixpoint mask_of (p : N -> bool) (block : list N) : N :=
  match block with
  | [] => 0
  | b :: r => 2 * mask_of p r + N.b2n (p b)
  end.

(* AVX2: the two 32-byte halves give 32 bits each (VPMOVMSKB), the high half
   is shifted (SHLQ $32) and the halves are merged (ORQ) *)
Definition mask_of_avx2 (p : N -> bool) (block : list N) : N :=
  N.lor (mask_of p (firstn 32 block)) (N.shiftl (mask_of p (skipn 32 block)) 32).

(* the masks the kernels start from *)
Definition cmp_mask (c : N) (block : list N) : N := mask_of (fun b => b =? c) block.
(* VPCMPEQB against the broadcast 0x5c (LCDATA1 of find_odd_backslash_sequences, OBSS_CONST) *)
Definition bs_mask := cmp_mask cBSLASH.
(* VPCMPEQB against the broadcast 0x22 (LCDATA1+0x00 of find_quote_mask_and_bits, QMAB_CONST1) *)
Definition quote_cmp_mask := cmp_mask cQUOTE.
(* VPXOR 0x80.. ; VPCMPGTB 0xa0.. : signed (0xa0 > b xor 0x80) <-> b < 0x20
   (Tie.Stage1AsmTie.tie_quote_kernel_consts) *)
Definition ctl_mask := mask_of (fun b => b <? 32).
(* nibble look-ups VPSHUFB lowtab[b] & hightab[b>>4], AND 0x07, compare with 0,
   complement (Tie.Stage1AsmTie.tie_stage1_classification) *)
Definition struct_cls_mask := mask_of is_markup.
(* the same with AND 0x18 *)
Definition ws_cls_mask := mask_of is_json_ws.
(* VPCMPEQB against the broadcast 0x0a (find_newline_delimiters) *)
Definition lf_mask := cmp_mask cLF.

(* ------------------------------------------------------------------ *)
(* find_odd_backslash_sequences  (macro FIND_ODD_BACKSLASH_SEQUENCES,
   shared by both families).  Returns odd_ends and the new
   prev_iter_ends_odd_backslash. *)
Definition find_odd_backslash_sequences (bs_bits prev : N) : N * N :=
  (* LEAQ (AX)(AX*1),CX ; NOTQ CX ; ANDQ AX,CX *)
  let start_edges := N.land bs_bits (not64 (shl1 bs_bits)) in
  (* MOVQ (DX),R9 ; SI = (R9 xor R8) & CX *)
  let even_starts := N.land (N.lxor prev even_bits) start_edges in
  (* DI = (R9 xor R10) & CX *)
  let odd_starts := N.land (N.lxor prev odd_bits) start_edges in
  (* ADDQ AX,SI *)
  let even_carries := fst (add64 even_starts bs_bits) in
  (* XORL CX,CX ; ADDQ AX,DI ; SETCS CX *)
  let '(odd_sum, carry) := add64 odd_starts bs_bits in
  (* ORQ R9,DI *)
  let odd_carries := N.lor odd_sum prev in
  (* NOTQ AX *)
  let nbs := not64 bs_bits in
  (* ANDQ AX,R10 ; ANDQ SI,R10 *)
  let even_start_odd_end := N.land (N.land odd_bits nbs) even_carries in
  (* ANDQ R8,AX ; ANDQ DI,AX *)
  let odd_start_even_end := N.land (N.land nbs even_bits) odd_carries in
  (* ORQ R10,AX ; MOVQ CX,(DX) *)
  (N.lor odd_start_even_end even_start_odd_end, N.b2n carry).

(* ------------------------------------------------------------------ *)
(* find_quote_mask_and_bits.  Returns quote_mask, quote_bits, the new
   prev_iter_inside_quote and the new error mask. *)
Definition find_quote_mask_and_bits (quotes ctl odd_ends prev_inq err : N) : N * N * N * N :=
  (* AVX2: NOTQ DX ; ANDQ SI,DX      AVX-512: KNOTQ ; KANDQ ; KMOVQ K_QUOTEBITS,DX *)
  let quote_bits := N.land quotes (not64 odd_ends) in
  (* VMOVQ DX,X2 ; VPCMPEQD X3,X3,X3 ; VPCLMULQDQ $0,X3,X2,X2 ; VMOVQ X2,AX ; XORQ (CX),AX *)
  let quote_mask := N.lxor (clmul_lo64 quote_bits ones64) prev_inq in
  (* AVX2: ANDQ AX,SI ; ORQ SI,(R9)   AVX-512: KANDQ ; KORQ K_TEMP1,K_ERRORMASK,K_ERRORMASK *)
  let err' := N.lor err (N.land ctl quote_mask) in
  (* MOVQ AX,DX ; SARQ $63,DX ; MOVQ DX,(CX) *)
  let prev_inq' := sar63 quote_mask in
  (quote_mask, quote_bits, prev_inq', err').

(* ------------------------------------------------------------------ *)
(* finalize_structurals (same instruction sequence in both families).
   Returns the structural mask and the new prev_iter_ends_pseudo_pred. *)
Definition finalize_structurals (structurals whitespace quote_mask quote_bits prev_pred : N) : N * N :=
  (* ANDNQ DI,DX,DI ; ORQ CX,DI *)
  let s := N.lor (andn64 quote_mask structurals) quote_bits in
  (* MOVQ DI,AX ; ORQ SI,AX *)
  let pseudo_pred := N.lor s whitespace in
  (* LEAQ (AX)(AX*1),R9 ; ORQ (R8),R9 *)
  let shifted := N.lor (shl1 pseudo_pred) prev_pred in
  (* SHRQ $63,AX ; MOVQ AX,(R8) *)
  let prev_pred' := shr63 pseudo_pred in
  (* NOTQ SI ; ANDNQ SI,DX,AX ; ANDQ R9,AX *)
  let pseudo := N.land (andn64 quote_mask (not64 whitespace)) shifted in
  (* ORQ DI,AX *)
  let s2 := N.lor pseudo s in
  (* NOTQ CX ; ORQ DX,CX ; ANDQ CX,AX *)
  (N.land s2 (N.lor (not64 quote_bits) quote_mask), prev_pred').

(* find_newline_delimiters: ANDNQ BX,DX,BX *)
Definition find_newline_delimiters (lf quote_mask : N) : N := andn64 quote_mask lf.

(* ------------------------------------------------------------------ *)
(* the carried state of the kernels, as the four uint64 the Go code keeps *)
Record kstate := {
  k_odd : N;    (* prev_iter_ends_odd_backslash: 0 or 1 *)
  k_inq : N;    (* prev_iter_inside_quote: all zeros or all ones *)
  k_pred : N;   (* prev_iter_ends_pseudo_pred: 0 or 1 *)
  k_err : N     (* error_mask *)
}.

Definition kstate_init : kstate := {| k_odd := 0; k_inq := 0; k_pred := 1; k_err := 0 |}.

(* all intermediate masks of one block (what VerifSubKernels / VerifFinalize
   of /repo/verif_export.go expose) *)
Record kmasks := {
  km_odd_ends : N;
  km_quote_mask : N;
  km_quote_bits : N;
  km_whitespace : N;
  km_structurals_in : N;
  km_structurals : N     (* after finalize and, for NDJSON, the newline delimiters *)
}.

(* one block through the kernels, generic in the way byte predicates become
   masks (mk = mask_of for AVX-512, mask_of_avx2 for AVX2) *)
Definition mask_block_gen (mk : (N -> bool) -> list N -> N) (nd : bool) (st : kstate) (block : list N)
  : kstate * kmasks :=
  let bs := mk (fun b => b =? cBSLASH) block in
  let '(odd_ends, odd') := find_odd_backslash_sequences bs (k_odd st) in
  let quotes := mk (fun b => b =? cQUOTE) block in
  let ctl := mk (fun b => b <? 32) block in
  let '(quote_mask, quote_bits, inq', err') :=
    find_quote_mask_and_bits quotes ctl odd_ends (k_inq st) (k_err st) in
  let ws := mk is_json_ws block in
  let str_in := mk is_markup block in
  let '(structurals, pred') := finalize_structurals str_in ws quote_mask quote_bits (k_pred st) in
  (* CMPQ ndjson,$0 ; JZ skip ; CALL __find_newline_delimiters ; ORQ BX,AX *)
  let structurals' :=
    if nd then N.lor structurals (find_newline_delimiters (mk (fun b => b =? cLF) block) quote_mask)
    else structurals in
  ({| k_odd := odd'; k_inq := inq'; k_pred := pred'; k_err := err' |},
   {| km_odd_ends := odd_ends; km_quote_mask := quote_mask; km_quote_bits := quote_bits;
      km_whitespace := ws; km_structurals_in := str_in; km_structurals := structurals' |}).

Definition mask_block_full := mask_block_gen mask_of.
Definition mask_block_full_avx2 := mask_block_gen mask_of_avx2.

(* the harness entry point: carried state and structural mask of one block *)
Definition mask_block (nd : bool) (st : kstate) (block : list N) : kstate * N :=
  let '(st', m) := mask_block_full nd st block in (st', km_structurals m).
Definition mask_block_avx2 (nd : bool) (st : kstate) (block : list N) : kstate * N :=
  let '(st', m) := mask_block_full_avx2 nd st block in (st', km_structurals m).

(* ------------------------------------------------------------------ *)
(* flatten_bits: the set bits of a mask, in increasing order, as absolute
   positions (base = position of bit 0) *)
Definition flatten_bits (base : nat) (m : N) : list nat :=
  map (fun i => (base + i)%nat) (filter (fun i => N.testbit m (N.of_nat i)) (seq 0 64)).

(* __flatten_bits_incremental as written (TZCNTQ / SHRQ loop): the increments
   stored into the index buffer, the new carried and the new position.
   [tz m] is TZCNTQ for m <> 0. *)
Fixpoint tz_aux (fuel : nat) (m : N) (k : N) : N :=
  match fuel with
  | O => k
  | S f => if N.odd m then k else tz_aux f (N.div2 m) (k + 1)
  end.
Definition tzcnt (m : N) : N := tz_aux 64 m 0.

(* the loop after the first iteration: mask already shifted, [shifts] bits
   consumed so far *)
Fixpoint flatten_loop (fuel : nat) (m shifts position : N) (acc : list N) : list N * N * N :=
  match fuel with
  | O => (rev acc, shifts, position)
  | S f =>
    if m =? 0 then (rev acc, shifts, position)
    else
      let z := tzcnt m + 1 in                       (* TZCNTQ ; INCQ *)
      (* SHRQ ZEROS,MASK (the count is taken modulo 64 by the hardware) ; ADDQ ZEROS,SHIFTS ;
         MOVL ZEROS,(DI)(INDEX*4) ; ADDQ ZEROS,POSITION *)
      flatten_loop f (N.shiftr m (z mod 64)) (shifts + z)
                   (w64 (position + z)) (w32 z :: acc)
  end.

(* returns (increments, carried', position') *)
Definition flatten_bits_incremental (mask carried position : N) : list N * N * N :=
  if mask =? 0 then ([], w64 (carried + 64), position)            (* JCS done ; CARRIED += 64 - 0 *)
  else
    let z := tzcnt mask in
    let m1 := N.shiftr (N.shiftr mask 1) (z mod 64) in (* SHRQ $1 ; SHRQ ZEROS *)
    let z1 := z + 1 in                                 (* INCQ ZEROS *)
    let first := w64 (z1 + carried) in                 (* ADDQ CARRIED,ZEROS *)
    let '(incs, shifts, pos') :=
      flatten_loop 64 m1 z1 (w64 (position + first)) [w32 first] in
    (incs, w64 (64 - shifts), pos').                   (* CARRIED = 0 + (64 - SHIFTS) *)

(* ------------------------------------------------------------------ *)
(* the whole message, block by block, the last block padded with spaces
   (MASK_WHITESPACE / VPBROADCASTQ WHITESPACE) *)
Fixpoint mask_blocks_gen (mb : bool -> kstate -> list N -> kstate * N)
         (fuel : nat) (nd : bool) (st : kstate) (p : nat) (bs : list N)
  : kstate * list (list nat) :=
  match fuel with
  | O => (st, [])
  | S f =>
    match bs with
    | [] => (st, [])
    | _ =>
      let '(st', m) := mb nd st (take_pad cSPACE 64 bs) in
      let '(st'', rest) := mask_blocks_gen mb f nd st' (p + 64) (skipn 64 bs) in
      (st'', flatten_bits p m :: rest)
    end
  end.

Definition mask_blocks := mask_blocks_gen mask_block.
Definition mask_blocks_avx2 := mask_blocks_gen mask_block_avx2.

Definition mask_all (nd : bool) (msg : bytes) : kstate * list (list nat) :=
  mask_blocks (S (length msg / 64)) nd kstate_init 0 (map b2n msg).
Definition mask_all_avx2 (nd : bool) (msg : bytes) : kstate * list (list nat) :=
  mask_blocks_avx2 (S (length msg / 64)) nd kstate_init 0 (map b2n msg).

(* find_structural_bits_in_slice on a buffer small enough never to fill the
   index buffer (the early exit "CMPQ BX, indexes_len ; JGE done" is modelled by
   Stage1.take_blocks): per block, the kernels, then flatten_bits_incremental
   appending to the index buffer.  Returns the carried kernel state, the
   increments written, carried and position. *)
Fixpoint mask_slice (fuel : nat) (nd : bool) (st : kstate) (carried position : N) (bs : list N)
         (acc : list N) : kstate * list N * N * N :=
  match fuel with
  | O => (st, acc, carried, position)
  | S f =>
    match bs with
    | [] => (st, acc, carried, position)
    | _ =>
      let '(st', m) := mask_block nd st (take_pad cSPACE 64 bs) in
      let '(incs, c', p') := flatten_bits_incremental m carried position in
      mask_slice f nd st' c' p' (skipn 64 bs) (acc ++ incs)
    end
  end.

(* ------------------------------------------------------------------ *)
(* relation with the scalar state of Model/Stage1.v *)
Definition kstate_wf (st : kstate) : Prop :=
  (k_odd st = 0 \/ k_odd st = 1) /\ (k_inq st = 0 \/ k_inq st = ones64) /\
  (k_pred st = 0 \/ k_pred st = 1) /\ k_err st < two64.

Definition kstate_wfb (st : kstate) : bool :=
  ((k_odd st =? 0) || (k_odd st =? 1)) && ((k_inq st =? 0) || (k_inq st =? ones64)) &&
  ((k_pred st =? 0) || (k_pred st =? 1)) && (k_err st <? two64).

Definition abs_kstate (st : kstate) : s1st :=
  {| s_bsodd := negb (k_odd st =? 0); s_instr := negb (k_inq st =? 0);
     s_pred := negb (k_pred st =? 0); s_err := negb (k_err st =? 0) |}.

Definition conc_kstate (s : s1st) : kstate :=
  {| k_odd := N.b2n (s_bsodd s); k_inq := if s_instr s then ones64 else 0;
     k_pred := N.b2n (s_pred s); k_err := N.b2n (s_err s) |}.
