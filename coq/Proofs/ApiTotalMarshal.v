(* ApiTotalMarshal.v — Iter.MarshalJSONBuffer and Array.MarshalJSONBuffer on
   ARBITRARY tapes: never Crash, never OutOfFuel with the model's own fuel;
   and the explicit stack of the Go loop is never empty where it is indexed. *)
From SJ Require Import Model.Base Model.RefTables Spec.Json Model.Tape Model.Iter Model.Walk
     Model.FloatFmt Model.Marshal.
From SJ Require Import Proofs.ApiTotalBase Proofs.ApiTotalLookup.
From Coq Require Import Lia ZifyBool ZifyNat ZifyN.
Open Scope Z_scope.

Definition stk_top (stack : list frame) : frame := match stack with t :: _ => t | [] => FNone end.

(* the separator / continue step after a scalar or a closing tag *)
Definition m_after_g (rec : iter -> list frame -> bytes -> outcome bytes)
           (pj : pjson) (i : iter) (stack : list frame) (out : bytes) : outcome bytes :=
  do tg <- peek_next_tag pj i;
  if (tg =? TagEnd)%N then
    (match stack with _ :: _ :: _ => Err | _ => Ok (rev out) end)
  else
    do r <- advance_into pj i;
    let i' := fst r in
    let out' :=
      match stk_top stack with
      | FArray => if (i_t i' =? TagArrayEnd)%N then out else emit out [n2b 44]
      | FObject => if (i_t i' =? TagObjectEnd)%N then out else emit out [n2b 44]
      | _ => out
      end in
    rec i' stack out'.

Definition m_after (f : nat) (pj : pjson) := m_after_g (marshal_loop f pj) pj.

Definition m_keyed (pj : pjson) (i : iter) (stack : list frame) (out : bytes) : outcome (iter * bytes) :=
  match stk_top stack with
  | FObject =>
    if negb (i_t i =? TagObjectEnd)%N then
      do sb <- string_bytes pj i;
      do tg <- peek_next_tag pj i;
      if (tg =? TagEnd)%N then Err
      else do r <- advance_into pj i; Ok (fst r, emit out (quote_str sb ++ [n2b 58]))
    else Ok (i, out)
  | _ => Ok (i, out)
  end.

Definition m_body_g (rec aft : iter -> list frame -> bytes -> outcome bytes)
           (pj : pjson) (i : iter) (stack : list frame) (out : bytes) : outcome bytes :=
  let top := stk_top stack in
  let t := i_t i in
  if (t =? TagRoot)%N then
    let is_open := i_off i <? Z.of_N (i_cur i) in
    match stack with
    | _ :: _ :: _ =>
      if is_open then Err
      else match top with
           | FRoot =>
             do tg <- peek_next_tag pj i;
             let out' := if (tg =? TagEnd)%N then out else emit out [n2b 10] in
             aft i (tl stack) out'
           | FNone => Ok (rev out)
           | _ => Err
           end
    | _ =>
      (* a closing root right after the value the iterator stood on (the iterators
         ParsedJson.ForEach hands out): done (fix F20) *)
      if negb is_open && negb (match out with [] => true | _ => false end) then Ok (rev out) else
      let i0 := if is_open then set_i i (i_off i) 0 (i_cur i) (i_t i) else i in
      do r <- advance_into pj i0;
      rec (fst r) (FRoot :: stack) out
    end
  else if (t =? TagString)%N then
    do sb <- string_bytes pj i; aft i stack (emit out (quote_str sb))
  else if (t =? TagInteger)%N then
    do z <- iter_int pj i; aft i stack (emit out (dec_of_Z z))
  else if (t =? TagUint)%N then
    do u <- iter_uint pj i; aft i stack (emit out (dec_of_N u))
  else if (t =? TagFloat)%N then
    do b <- iter_float pj i;
    match fmt_float b with
    | Some s => aft i stack (emit out s)
    | None => Err
    end
  else if (t =? TagNull)%N then aft i stack (emit out (lit_bytes [110; 117; 108; 108]%N))
  else if (t =? TagBoolTrue)%N then aft i stack (emit out (lit_bytes [116; 114; 117; 101]%N))
  else if (t =? TagBoolFalse)%N then aft i stack (emit out (lit_bytes [102; 97; 108; 115; 101]%N))
  else if (t =? TagObjectStart)%N then
    do r <- advance_into pj i; rec (fst r) (FObject :: stack) (emit out [n2b 123])
  else if (t =? TagObjectEnd)%N then
    match top with
    | FObject => aft i (tl stack) (emit out [n2b 125])
    | _ => Err
    end
  else if (t =? TagArrayStart)%N then
    do r <- advance_into pj i; rec (fst r) (FArray :: stack) (emit out [n2b 91])
  else if (t =? TagArrayEnd)%N then
    match top with
    | FArray => aft i (tl stack) (emit out [n2b 93])
    | _ => Err
    end
  else if (t =? TagEnd)%N then
    do tg <- peek_next_tag pj i;
    if (tg =? TagEnd)%N then Err
    else do r <- advance_into pj i; rec (fst r) stack out
  else aft i stack out.

Definition m_body (f : nat) (pj : pjson) := m_body_g (marshal_loop f pj) (m_after f pj) pj.

Lemma marshal_loop_S f pj i stack out :
  marshal_loop (S f) pj i stack out =
    do ko <- m_keyed pj i stack out;
    let '(i, out) := ko in m_body f pj i stack out.
Proof. reflexivity. Qed.

(* ------------------------------------------------------------------ *)
(* termination measure: words of the view after the queued tag        *)

Definition phi (i : iter) : nat := Z.to_nat (i_len i - i_off i).

Definition minv (fuel : nat) (i : iter) : Prop :=
  (phi i + 1 < fuel)%nat \/ (i_t i = TagEnd /\ i_len i <= pos i /\ (0 < fuel)%nat).

Lemma into_step pj i0 f : iter_ok pj i0 -> (phi i0 < f)%nat ->
  okP false (fun r => iter_ok pj (fst r) /\ minv f (fst r) /\ (phi (fst r) <= phi i0)%nat /\
                      (pos i0 < i_len i0 -> (phi (fst r) < phi i0)%nat))
      (advance_into pj i0).
Proof.
  intros Hok Hf. eapply okP_weaken; [|apply (advance_into_spec pj i0 Hok)].
  intros [i' tg] [[A B C F D] _]. cbn [fst snd] in *.
  pose proof Hok as ([K0 K1] & K2 & K3 & K4).
  split; [exact A|]. unfold minv, phi, pos in *. rewrite B.
  destruct (Z_lt_le_dec (i_off i0 + i_add i0) (i_len i0)) as [Hlt|Hle].
  - specialize (F Hlt). split; [left; lia|]. split; lia.
  - destruct (D Hle) as (D1 & D2 & D3). split; [right; repeat split; auto; lia|]. split; lia.
Qed.

Section Body.
Variables (pj : pjson) (f : nat).
Hypothesis IH : forall i stack out, iter_ok pj i -> minv f i -> okP false top (marshal_loop f pj i stack out).

Lemma m_after_spec i stack out : iter_ok pj i -> (phi i < f)%nat -> okP false top (m_after f pj i stack out).
Proof.
  intros Hok Hf. unfold m_after, m_after_g.
  eapply okP_bind; [apply (peek_next_tag_spec pj i Hok)|]. intros tg _.
  destruct (tg =? TagEnd)%N; [destruct stack as [|? [|? ?]]; exact I|].
  eapply okP_bind; [apply (into_step pj i f Hok Hf)|].
  intros r (R1 & R2 & _). cbv zeta. apply IH; assumption.
Qed.

Lemma m_into_spec i0 stack out : iter_ok pj i0 -> (phi i0 < f)%nat ->
  okP false top (do r <- advance_into pj i0; marshal_loop f pj (fst r) stack out).
Proof.
  intros Hok Hf. eapply okP_bind; [apply (into_step pj i0 f Hok Hf)|].
  intros r (R1 & R2 & _). apply IH; assumption.
Qed.

Lemma m_body_spec i stack out : iter_ok pj i -> (phi i < f)%nat -> okP false top (m_body f pj i stack out).
Proof.
  intros Hok Hf. unfold m_body, m_body_g. cbv zeta. fold (m_after f pj).
  destruct (i_t i =? TagRoot)%N.
  { destruct stack as [|s1 [|s2 rest]].
    - destruct (negb (i_off i <? Z.of_N (i_cur i)) && negb match out with [] => true | _ => false end); [exact I|].
      apply m_into_spec; [|destruct (i_off i <? Z.of_N (i_cur i)); exact Hf].
      destruct (i_off i <? Z.of_N (i_cur i)); [|exact Hok].
      destruct Hok as (K1 & K2 & K3 & K4). unfold iter_ok, set_i; cbn. auto with zarith.
    - destruct (negb (i_off i <? Z.of_N (i_cur i)) && negb match out with [] => true | _ => false end); [exact I|].
      apply m_into_spec; [|destruct (i_off i <? Z.of_N (i_cur i)); exact Hf].
      destruct (i_off i <? Z.of_N (i_cur i)); [|exact Hok].
      destruct Hok as (K1 & K2 & K3 & K4). unfold iter_ok, set_i; cbn. auto with zarith.
    - destruct (i_off i <? Z.of_N (i_cur i)); [exact I|].
      cbn [stk_top]. destruct s1; try exact I.
      eapply okP_bind; [apply (peek_next_tag_spec pj i Hok)|]. intros tg _.
      apply m_after_spec; assumption. }
  destruct (i_t i =? TagString)%N.
  { eapply okP_bind; [apply (string_bytes_spec pj i Hok)|]. intros; apply m_after_spec; assumption. }
  destruct (i_t i =? TagInteger)%N.
  { eapply okP_bind; [apply (iter_int_spec pj i Hok)|]. intros; apply m_after_spec; assumption. }
  destruct (i_t i =? TagUint)%N.
  { eapply okP_bind; [apply (iter_uint_spec pj i Hok)|]. intros; apply m_after_spec; assumption. }
  destruct (i_t i =? TagFloat)%N.
  { eapply okP_bind; [apply (iter_float_spec pj i Hok)|]. intros b _.
    destruct (fmt_float b); [apply m_after_spec; assumption|exact I]. }
  destruct (i_t i =? TagNull)%N; [apply m_after_spec; assumption|].
  destruct (i_t i =? TagBoolTrue)%N; [apply m_after_spec; assumption|].
  destruct (i_t i =? TagBoolFalse)%N; [apply m_after_spec; assumption|].
  destruct (i_t i =? TagObjectStart)%N; [apply m_into_spec; assumption|].
  destruct (i_t i =? TagObjectEnd)%N.
  { destruct (stk_top stack); try exact I. apply m_after_spec; assumption. }
  destruct (i_t i =? TagArrayStart)%N; [apply m_into_spec; assumption|].
  destruct (i_t i =? TagArrayEnd)%N.
  { destruct (stk_top stack); try exact I. apply m_after_spec; assumption. }
  destruct (i_t i =? TagEnd)%N; [|apply m_after_spec; assumption].
  eapply okP_bind; [apply (peek_next_tag_spec pj i Hok)|]. intros tg _.
  destruct (tg =? TagEnd)%N; [exact I|]. apply m_into_spec; assumption.
Qed.
End Body.

Lemma string_bytes_not_string pj i : i_t i <> TagString -> string_bytes pj i = Err.
Proof. intros H. unfold string_bytes. apply N.eqb_neq in H. rewrite H. reflexivity. Qed.

Lemma marshal_loop_spec : forall fuel pj i stack out,
  iter_ok pj i -> minv fuel i -> okP false top (marshal_loop fuel pj i stack out).
Proof.
  induction fuel as [|f IH]; intros pj i stack out Hok Hinv.
  { destruct Hinv as [H|(_ & _ & H)]; lia. }
  rewrite marshal_loop_S.
  destruct Hinv as [Hphi|(Ht & Hend & _)].
  - (* inside the view *)
    assert (Hf : (phi i < f)%nat) by lia.
    unfold m_keyed.
    destruct (stk_top stack) eqn:Etop; cbn [obind]; try (apply m_body_spec; auto; fail).
    destruct (negb (i_t i =? TagObjectEnd)%N); cbn [obind]; [|apply m_body_spec; auto].
    eapply okP_bind with (P := fun ko => iter_ok pj (fst ko) /\ (phi (fst ko) < f)%nat).
    + eapply okP_bind; [apply (string_bytes_spec pj i Hok)|]. intros sb _.
      eapply okP_bind; [apply (peek_next_tag_spec pj i Hok)|]. intros tg _.
      destruct (tg =? TagEnd)%N; [exact I|].
      eapply okP_bind; [apply (into_step pj i f Hok Hf)|].
      intros r (R1 & R2 & R3 & _). cbn [okP fst]. split; [exact R1|lia].
    + intros [i1 out1] [K1 K2]. cbn [fst] in *. apply m_body_spec; auto.
  - (* queued TagEnd at the end of the view: the loop stops here *)
    unfold m_keyed.
    assert (Hbody : forall out', okP false top (m_body f pj i stack out')).
    { intros out'. unfold m_body, m_body_g. cbv zeta. rewrite Ht.
      change (TagEnd =? TagRoot)%N with false. change (TagEnd =? TagString)%N with false.
      change (TagEnd =? TagInteger)%N with false. change (TagEnd =? TagUint)%N with false.
      change (TagEnd =? TagFloat)%N with false. change (TagEnd =? TagNull)%N with false.
      change (TagEnd =? TagBoolTrue)%N with false. change (TagEnd =? TagBoolFalse)%N with false.
      change (TagEnd =? TagObjectStart)%N with false. change (TagEnd =? TagObjectEnd)%N with false.
      change (TagEnd =? TagArrayStart)%N with false. change (TagEnd =? TagArrayEnd)%N with false.
      change (TagEnd =? TagEnd)%N with true. cbv iota.
      pose proof (peek_next_tag_spec pj i Hok) as Hp.
      destruct (peek_next_tag pj i) as [tg| | |]; cbn [okP obind] in *; try tauto.
      rewrite (Hp Hend). exact I. }
    destruct (stk_top stack); cbn [obind]; try apply Hbody.
    rewrite Ht. change (negb (TagEnd =? TagObjectEnd)%N) with true. cbv iota.
    rewrite string_bytes_not_string by (rewrite Ht; discriminate). exact I.
Qed.

Theorem marshal_iter_total pj i : iter_ok pj i -> okP false top (marshal_iter pj i).
Proof.
  intros Hok. unfold marshal_iter. apply marshal_loop_spec; [exact Hok|].
  left. destruct Hok as ([K0 K1] & K2 & _). unfold phi, tlen in *. lia.
Qed.

(* ------------------------------------------------------------------ *)
(* Array.MarshalJSONBuffer                                             *)

Definition marr_fin (pj : pjson) (it' : iter) (out : bytes) : outcome bytes :=
  do tg <- peek_next_tag pj it';
  if (tg =? TagArrayEnd)%N then Ok (n2b 91 :: out ++ [n2b 93]) else Err.

Definition marr_go (pj : pjson) :=
  fix go (fuel : nat) (it : iter) (out : bytes) : outcome bytes :=
     match fuel with
     | O => OutOfFuel
     | S f =>
       do r <- advance_iter pj it;
       match r with
       | (it', None, _) => marr_fin pj it' out
       | (it', Some el, ty) =>
         if (ty =? TypeNone)%N then
           if (i_t it' =? TagArrayEnd)%N then Ok (n2b 91 :: out ++ [n2b 93]) else marr_fin pj it' out
         else
           do s <- marshal_iter pj el;
           do tg <- peek_next_tag pj it';
           if (tg =? TagArrayEnd)%N then marr_fin pj it' (out ++ s) else go f it' (out ++ s ++ [n2b 44])
       end
     end.

Lemma marshal_array_eq pj a : marshal_array pj a = marr_go pj (cont_fuel a) (cont_iter a) [].
Proof. reflexivity. Qed.

Lemma marr_fin_spec pj it out : iter_ok pj it -> okP false top (marr_fin pj it out).
Proof.
  intros Hok. unfold marr_fin. eapply okP_bind; [apply (peek_next_tag_spec pj it Hok)|].
  intros tg _. destruct (tg =? TagArrayEnd)%N; exact I.
Qed.

Lemma marr_go_spec : forall fuel pj it out,
  iter_ok pj it -> (mu it < fuel)%nat -> okP false top (marr_go pj fuel it out).
Proof.
  induction fuel as [|f IH]; intros pj it out Hok Hf; [lia|].
  cbn [marr_go].
  eapply okP_bind; [apply (advance_iter_spec pj it Hok)|].
  intros [[it' [el|]] ty]; cbn [ai_post].
  2:{ intros [HA _]. apply marr_fin_spec. exact (ap_ok _ _ _ _ HA). }
  intros (HA & D & Hty & Hr & _). pose proof (ap_ok _ _ _ _ HA) as Hok'.
  destruct (ty =? TypeNone)%N; [destruct (i_t it' =? TagArrayEnd)%N; [exact I|apply marr_fin_spec; exact Hok']|].
  eapply okP_bind; [apply (marshal_iter_total pj el); apply D|]. intros s _.
  eapply okP_bind; [apply (peek_next_tag_spec pj it' Hok')|]. intros tg _.
  destruct (tg =? TagArrayEnd)%N; [apply marr_fin_spec; exact Hok'|].
  apply IH; [exact Hok'|].
  assert (mu it' < mu it)%nat; [|lia].
  apply (adv_post_mu pj); [exact HA|]. unfold mu. lia.
Qed.

Theorem marshal_array_total pj a : cont_ok pj a -> okP false top (marshal_array pj a).
Proof.
  intros Ho. rewrite marshal_array_eq. apply marr_go_spec; [apply cont_iter_ok; exact Ho|].
  destruct Ho as [[H0 H1] H2]. unfold mu, pos, cont_fuel, cont_iter; cbn. lia.
Qed.

(* ------------------------------------------------------------------ *)
(* the explicit stack is never empty where Go indexes stack[len(stack)-1] *)

(* The model reads the top of an empty stack as FNone instead of Crash.  Here
   is the same loop with the index made Crash-capable at the two places the
   Go code evaluates stack[len(stack)-1] (head of the loop, and the separator
   switch after AdvanceInto); it is EQUAL to the model's loop from [FNone]. *)
Definition m_after_c (rec : iter -> list frame -> bytes -> outcome bytes)
           (pj : pjson) (i : iter) (stack : list frame) (out : bytes) : outcome bytes :=
  match stack with
  | [] => do tg <- peek_next_tag pj i;
          if (tg =? TagEnd)%N then Ok (rev out) else do r <- advance_into pj i; Crash
  | _ => m_after_g rec pj i stack out
  end.

Fixpoint marshal_chk (fuel : nat) (pj : pjson) (i : iter) (stack : list frame) (out : bytes) : outcome bytes :=
  match fuel with
  | O => OutOfFuel
  | S f =>
    match stack with
    | [] => Crash
    | _ =>
      do ko <- m_keyed pj i stack out;
      let '(i, out) := ko in
      m_body_g (marshal_chk f pj) (m_after_c (marshal_chk f pj) pj) pj i stack out
    end
  end.

Inductive stack_ok : list frame -> Prop :=
| so_base : stack_ok [FNone]
| so_push x s : x <> FNone -> stack_ok s -> stack_ok (x :: s).

Lemma stack_ok_pop s : stack_ok s -> stk_top s <> FNone -> stack_ok (tl s).
Proof. intros H. destruct H; cbn; [intros K; now elim K|auto]. Qed.

Lemma m_after_ext rec1 rec2 pj i stack out :
  (forall i' s' o', stack_ok s' -> rec1 i' s' o' = rec2 i' s' o') -> stack_ok stack ->
  m_after_c rec1 pj i stack out = m_after_g rec2 pj i stack out.
Proof.
  intros Hr Hs. unfold m_after_c. destruct stack as [|x s]; [inversion Hs|].
  unfold m_after_g. destruct (peek_next_tag pj i); cbn [obind]; try reflexivity.
  destruct (a =? TagEnd)%N; [reflexivity|].
  destruct (advance_into pj i); cbn [obind]; try reflexivity. cbv zeta. apply Hr. exact Hs.
Qed.

Lemma m_body_ext rec1 rec2 pj i stack out :
  (forall i' s' o', stack_ok s' -> rec1 i' s' o' = rec2 i' s' o') -> stack_ok stack ->
  m_body_g rec1 (m_after_c rec1 pj) pj i stack out = m_body_g rec2 (m_after_g rec2 pj) pj i stack out.
Proof.
  intros Hr Hs.
  assert (Ha : forall i' s' o', stack_ok s' -> m_after_c rec1 pj i' s' o' = m_after_g rec2 pj i' s' o').
  { intros. apply m_after_ext; assumption. }
  assert (Hpop : stk_top stack <> FNone -> stack_ok (tl stack)).
  { intros Hx. apply stack_ok_pop; [exact Hs|exact Hx]. }
  unfold m_body_g. cbv zeta.
  destruct (i_t i =? TagRoot)%N.
  { destruct stack as [|s1 [|s2 rest]].
    - inversion Hs.
    - destruct (negb (i_off i <? Z.of_N (i_cur i)) && negb match out with [] => true | _ => false end); [reflexivity|].
      destruct (advance_into pj _); cbn [obind]; try reflexivity.
      apply Hr. constructor; [discriminate|exact Hs].
    - destruct (i_off i <? Z.of_N (i_cur i)); [reflexivity|].
      cbn [stk_top]. destruct s1; try reflexivity.
      destruct (peek_next_tag pj i); cbn [obind]; try reflexivity.
      apply Ha. apply Hpop. cbn. discriminate. }
  destruct (i_t i =? TagString)%N.
  { destruct (string_bytes pj i); cbn [obind]; try reflexivity. apply Ha, Hs. }
  destruct (i_t i =? TagInteger)%N.
  { destruct (iter_int pj i); cbn [obind]; try reflexivity. apply Ha, Hs. }
  destruct (i_t i =? TagUint)%N.
  { destruct (iter_uint pj i); cbn [obind]; try reflexivity. apply Ha, Hs. }
  destruct (i_t i =? TagFloat)%N.
  { destruct (iter_float pj i); cbn [obind]; try reflexivity.
    destruct (fmt_float a); [apply Ha, Hs|reflexivity]. }
  destruct (i_t i =? TagNull)%N; [apply Ha, Hs|].
  destruct (i_t i =? TagBoolTrue)%N; [apply Ha, Hs|].
  destruct (i_t i =? TagBoolFalse)%N; [apply Ha, Hs|].
  destruct (i_t i =? TagObjectStart)%N.
  { destruct (advance_into pj i); cbn [obind]; try reflexivity.
    apply Hr. constructor; [discriminate|exact Hs]. }
  destruct (i_t i =? TagObjectEnd)%N.
  { destruct (stk_top stack) eqn:Et; try reflexivity. apply Ha. apply Hpop. discriminate. }
  destruct (i_t i =? TagArrayStart)%N.
  { destruct (advance_into pj i); cbn [obind]; try reflexivity.
    apply Hr. constructor; [discriminate|exact Hs]. }
  destruct (i_t i =? TagArrayEnd)%N.
  { destruct (stk_top stack) eqn:Et; try reflexivity. apply Ha. apply Hpop. discriminate. }
  destruct (i_t i =? TagEnd)%N; [|apply Ha, Hs].
  destruct (peek_next_tag pj i); cbn [obind]; try reflexivity.
  destruct (a =? TagEnd)%N; [reflexivity|].
  destruct (advance_into pj i); cbn [obind]; try reflexivity. apply Hr, Hs.
Qed.

Lemma marshal_chk_eq : forall fuel pj i stack out, stack_ok stack ->
  marshal_chk fuel pj i stack out = marshal_loop fuel pj i stack out.
Proof.
  induction fuel as [|f IH]; intros pj i stack out Hs; [reflexivity|].
  rewrite marshal_loop_S. cbn [marshal_chk].
  destruct stack as [|x s] eqn:Es; [inversion Hs|]. rewrite <- Es in *.
  destruct (m_keyed pj i stack out) as [[i1 out1]| | |]; cbn [obind]; try reflexivity.
  unfold m_body, m_after. apply m_body_ext; [|exact Hs].
  intros. apply IH. assumption.
Qed.

(* hence: MarshalJSONBuffer never evaluates stack[len(stack)-1] on an empty
   stack, for any tape *)
Theorem marshal_stack_never_empty pj i : iter_ok pj i ->
  marshal_chk (3 * S (length (pj_tape pj)) + 8) pj i [FNone] [] = marshal_iter pj i /\
  marshal_chk (3 * S (length (pj_tape pj)) + 8) pj i [FNone] [] <> Crash.
Proof.
  intros Hok. assert (E : marshal_chk (3 * S (length (pj_tape pj)) + 8) pj i [FNone] [] = marshal_iter pj i).
  { unfold marshal_iter. apply marshal_chk_eq. constructor. }
  split; [exact E|]. rewrite E. eapply okP_no_crash. apply marshal_iter_total. exact Hok.
Qed.
