(* TapeDen.v — the fuelled abstraction function of Model/Tape.v computes
   exactly the segment relations of TapeSeg.v (goal B: locality). *)
From SJ Require Import Model.Base Model.RefTables Spec.Json Model.Tape.
From SJ Require Import Proofs.TapeBase Proofs.TapeSeg.
From Coq Require Import ZifyBool ZifyN ZifyNat.
Open Scope N_scope.

(* evaluate comparisons between closed tags *)
Ltac tageq :=
  repeat match goal with
  | |- context [N.eqb ?a ?b] =>
    let v := eval vm_compute in (N.eqb a b) in
    match v with
    | true => change (N.eqb a b) with true
    | false => change (N.eqb a b) with false
    end
  end; cbv iota; cbn [andb orb negb].

Ltac tageq_in H :=
  repeat match type of H with
  | context [N.eqb ?a ?b] =>
    let v := eval vm_compute in (N.eqb a b) in
    match v with
    | true => change (N.eqb a b) with true in H
    | false => change (N.eqb a b) with false in H
    end
  end; cbv iota in H; cbn [andb orb negb] in H.

Lemma skipn_app_exact {A} (a b : list A) n : n = length a -> skipn n (a ++ b) = b.
Proof.
  intros ->. induction a as [|x a IH]; [reflexivity|]. cbn [length app skipn]. exact IH.
Qed.

Lemma firstn_app_exact {A} (a b : list A) n : n = length a -> firstn n (a ++ b) = a.
Proof.
  intros ->. induction a as [|x a IH]; [reflexivity|]. cbn [length app firstn]. now rewrite IH.
Qed.

Lemma skipn_jump (w : N) junk X k :
  k = nlen junk + 1 -> skipn (N.to_nat k) (w :: junk ++ X) = X.
Proof.
  intros ->. replace (N.to_nat (nlen junk + 1)) with (S (length junk)) by (unfold nlen; lia).
  cbn [skipn]. apply skipn_app_exact. reflexivity.
Qed.

Definition head_not_nop (l : list N) : Prop :=
  match l with [] => True | w :: _ => word_tag w <> TagNop end.

Section Den.
Variables (msg strings : bytes).
Variables (strict adj : bool).

Notation val_seg := (val_seg msg strings strict adj).
Notation items := (items msg strings strict adj).
Notation mitems := (mitems msg strings strict adj).
Notation nops_seg := (nops_seg strict).
Notation den_value := (den_value msg strings).
Notation den_elems := (den_elems msg strings).
Notation den_members := (den_members msg strings).

(* one NOP jump *)
Lemma skip_nops_jump f i w junk X :
  word_tag w = TagNop -> word_val w = nlen junk + 1 ->
  skip_nops (S f) i (w :: junk ++ X) = skip_nops f (i + nlen junk + 1) X.
Proof.
  intros Ht Hv. rewrite skip_nops_S. rewrite Ht. tageq. cbv zeta.
  destruct (word_val w =? 0) eqn:E0; [lia|].
  rewrite (skipn_jump w junk X _ Hv). rewrite Hv. rewrite N.add_assoc. reflexivity.
Qed.

Lemma skip_nops_stop f i X : head_not_nop X -> skip_nops (S f) i X = Some (i, X).
Proof.
  intros H. rewrite skip_nops_S. destruct X as [|w r]; [reflexivity|].
  cbn [head_not_nop] in H. destruct (word_tag w =? TagNop) eqn:E; [lia|reflexivity].
Qed.

Lemma nops_seg_skip n : nops_seg n -> forall f i tail,
  (length n < f)%nat -> head_not_nop tail ->
  skip_nops f i (n ++ tail) = Some (i + nlen n, tail).
Proof.
  induction 1 as [|w junk rest Ht Hv Hrun Hrest IH]; intros f i tail Hf Hhd.
  - destruct f as [|f]; [lia|]. cbn [app]. rewrite skip_nops_stop by exact Hhd.
    rewrite nlen_nil, N.add_0_r. reflexivity.
  - destruct f as [|f]; [lia|]. cbn [app]. rewrite <- app_assoc.
    rewrite skip_nops_jump by assumption.
    rewrite IH by (auto; nl). f_equal. f_equal. nl.
Qed.

Lemma val_seg_head_not_nop i v d X : val_seg i v d -> head_not_nop (v ++ X).
Proof.
  intros H. destruct (val_seg_head _ _ _ _ _ _ _ H) as (w & r & -> & Ht).
  cbn [app head_not_nop]. intros E. rewrite E in Ht. discriminate Ht.
Qed.

Lemma den_elems_jump f i w junk rest acc x :
  word_tag w = TagNop -> word_val w = nlen junk + 1 ->
  den_elems f (i + nlen junk + 1) rest acc = Some x ->
  den_elems (S f) i (w :: junk ++ rest) acc = Some x.
Proof.
  intros Ht Hv H. destruct f as [|f]; [discriminate H|].
  rewrite den_elems_S in H. rewrite den_elems_S. rewrite skip_nops_jump by assumption.
  dmatch H. destruct p as [i' rest'].
  destruct rest' as [|w' r]; [discriminate H|].
  destruct (word_tag w' =? TagArrayEnd) eqn:Ee; [exact H|].
  dmatch H. destruct p as [[d j] r'].
  rewrite (den_value_mono msg strings f (S f) _ _ _ (Nat.le_succ_diag_r f) E0).
  apply den_elems_mono with (f := f); [lia|exact H].
Qed.

Lemma den_members_jump f i w junk rest acc x :
  word_tag w = TagNop -> word_val w = nlen junk + 1 ->
  den_members f (i + nlen junk + 1) rest acc = Some x ->
  den_members (S f) i (w :: junk ++ rest) acc = Some x.
Proof.
  intros Ht Hv H. destruct f as [|f]; [discriminate H|].
  rewrite den_members_S in H. rewrite den_members_S. rewrite skip_nops_jump by assumption.
  dmatch H. destruct p as [i' rest'].
  destruct rest' as [|w' r]; [discriminate H|].
  destruct (word_tag w' =? TagObjectEnd) eqn:Ee; [exact H|].
  destruct (word_tag w' =? TagString) eqn:Es; [|discriminate H].
  destruct r as [|len r1]; [discriminate H|].
  destruct (string_at msg strings (word_val w') len) as [k|] eqn:Ek; [|discriminate H].
  dmatch H. destruct p as [i2 r2].
  rewrite (skip_nops_mono f (S f) _ _ _ (Nat.le_succ_diag_r f) E0).
  dmatch H. destruct p as [[d j] r'].
  rewrite (den_value_mono msg strings f (S f) _ _ _ (Nat.le_succ_diag_r f) E1).
  apply den_members_mono with (f := f); [lia|exact H].
Qed.

(* segments => computation, with an explicit fuel bound *)
Lemma seg_den :
  (forall i v d, val_seg i v d -> forall f tail, (length v < f)%nat ->
     den_value f i (v ++ tail) = Some (d, i + nlen v, tail)) /\
  (forall i b l, items i b l -> forall f e tail acc, word_tag e = TagArrayEnd ->
     (length b + 1 < f)%nat ->
     den_elems f i (b ++ e :: tail) acc = Some (rev acc ++ l, i + nlen b + 1, tail)) /\
  (forall i b l, mitems i b l -> forall f e tail acc, word_tag e = TagObjectEnd ->
     (length b + 1 < f)%nat ->
     den_members f i (b ++ e :: tail) acc = Some (rev acc ++ l, i + nlen b + 1, tail)).
Proof.
  apply seg_mutind.
  - (* string *) intros i w len s Ht Hs f tail Hf. destruct f as [|f]; [lia|].
    cbn [app]. rewrite den_value_S. cbv zeta. rewrite Ht. tageq. rewrite Hs. reflexivity.
  - intros i w x Ht _ f tail Hf. destruct f as [|f]; [lia|].
    cbn [app]. rewrite den_value_S. cbv zeta. rewrite Ht. tageq. reflexivity.
  - intros i w x Ht _ f tail Hf. destruct f as [|f]; [lia|].
    cbn [app]. rewrite den_value_S. cbv zeta. rewrite Ht. tageq. reflexivity.
  - intros i w x Ht f tail Hf. destruct f as [|f]; [lia|].
    cbn [app]. rewrite den_value_S. cbv zeta. rewrite Ht. tageq. reflexivity.
  - intros i w Ht _ f tail Hf. destruct f as [|f]; [lia|].
    cbn [app]. rewrite den_value_S. cbv zeta. rewrite Ht. tageq. reflexivity.
  - intros i w Ht _ f tail Hf. destruct f as [|f]; [lia|].
    cbn [app]. rewrite den_value_S. cbv zeta. rewrite Ht. tageq. reflexivity.
  - intros i w Ht _ f tail Hf. destruct f as [|f]; [lia|].
    cbn [app]. rewrite den_value_S. cbv zeta. rewrite Ht. tageq. reflexivity.
  - (* array *) intros i w body e l Ht _ IH He Hv _ f tail Hf. destruct f as [|f]; [lia|].
    cbn [app]. rewrite den_value_S. cbv zeta. rewrite Ht. tageq.
    rewrite <- app_assoc. cbn [app].
    rewrite (IH f e tail [] He) by (revert Hf; nl).
    cbn [rev app].
    replace (i + 1 + nlen body + 1 =? word_val w) with true by (rewrite Hv; lia).
    f_equal. f_equal. f_equal. nl.
  - (* object *) intros i w body e l Ht _ IH He Hv _ f tail Hf. destruct f as [|f]; [lia|].
    cbn [app]. rewrite den_value_S. cbv zeta. rewrite Ht. tageq.
    rewrite <- app_assoc. cbn [app].
    rewrite (IH f e tail [] He) by (revert Hf; nl).
    cbn [rev app].
    replace (i + 1 + nlen body + 1 =? word_val w) with true by (rewrite Hv; lia).
    f_equal. f_equal. f_equal. nl.
  - (* items nil *) intros i f e tail acc He Hf. destruct f as [|f]; [lia|]. destruct f as [|f]; [cbn in Hf; lia|].
    cbn [app]. rewrite den_elems_S. rewrite skip_nops_stop by (cbn; rewrite He; discriminate).
    rewrite He. tageq. rewrite app_nil_r. f_equal. f_equal. f_equal. nl.
  - (* items nop *) intros i w junk rest l Ht Hv _ _ IH f e tail acc He Hf.
    destruct f as [|f]; [lia|]. cbn [app]. rewrite <- app_assoc.
    erewrite den_elems_jump; [reflexivity|exact Ht|exact Hv|].
    rewrite (IH f e tail acc He) by (revert Hf; nl).
    f_equal. f_equal. f_equal. nl.
  - (* items val *) intros i v d rest l Hval IHv _ IHr f e tail acc He Hf.
    destruct f as [|f]; [lia|]. rewrite <- app_assoc. rewrite den_elems_S.
    pose proof (val_seg_nonempty _ _ _ _ _ _ _ Hval) as Hne.
    destruct f as [|f]; [revert Hf; nl|].
    rewrite skip_nops_stop by (eapply val_seg_head_not_nop; exact Hval).
    destruct (val_seg_head _ _ _ _ _ _ _ Hval) as (w0 & r0 & Ev & Htag).
    subst v. cbn [app].
    replace (word_tag w0 =? TagArrayEnd) with false
      by (symmetry; apply N.eqb_neq; intros E; rewrite E in Htag; discriminate Htag).
    change (w0 :: r0 ++ rest ++ e :: tail) with ((w0 :: r0) ++ rest ++ e :: tail).
    rewrite (IHv (S f) (rest ++ e :: tail)) by (revert Hf; nl).
    rewrite (IHr (S f) e tail (d :: acc) He) by (revert Hf Hne; nl).
    cbn [rev]. rewrite <- app_assoc. cbn [app]. f_equal. f_equal. f_equal. nl.
  - (* mitems nil *) intros i f e tail acc He Hf. destruct f as [|f]; [lia|]. destruct f as [|f]; [cbn in Hf; lia|].
    cbn [app]. rewrite den_members_S. rewrite skip_nops_stop by (cbn; rewrite He; discriminate).
    rewrite He. tageq. rewrite app_nil_r. f_equal. f_equal. f_equal. nl.
  - (* mitems nop *) intros i w junk rest l Ht Hv _ _ IH f e tail acc He Hf.
    destruct f as [|f]; [lia|]. cbn [app]. rewrite <- app_assoc.
    erewrite den_members_jump; [reflexivity|exact Ht|exact Hv|].
    rewrite (IH f e tail acc He) by (revert Hf; nl).
    f_equal. f_equal. f_equal. nl.
  - (* mitems member *) intros i w len k n2 v d rest l Ht Hk Hn2 _ Hval IHv _ IHr f e tail acc He Hf.
    destruct f as [|f]; [lia|]. cbn [app]. rewrite den_members_S.
    destruct f as [|f]; [revert Hf; nl|].
    rewrite skip_nops_stop by (cbn; rewrite Ht; discriminate).
    rewrite Ht. tageq. rewrite Hk.
    pose proof (val_seg_nonempty _ _ _ _ _ _ _ Hval) as Hne.
    rewrite <- !app_assoc.
    rewrite (nops_seg_skip n2 Hn2 (S f) (i + 2) (v ++ rest ++ e :: tail))
      by (try (eapply val_seg_head_not_nop; exact Hval); revert Hf; nl).
    rewrite (IHv (S f) (rest ++ e :: tail)) by (revert Hf; nl).
    rewrite (IHr (S f) e tail ((k, d) :: acc) He) by (revert Hf Hne; nl).
    cbn [rev]. rewrite <- app_assoc. cbn [app]. f_equal. f_equal. f_equal. nl.
Qed.


Lemma nops_items n : nops_seg n -> forall i rest l,
  items (i + nlen n) rest l -> items i (n ++ rest) l.
Proof.
  induction 1 as [|w junk n' Ht Hv Hrun Hn' IH]; intros i rest l H.
  - rewrite nlen_nil, N.add_0_r in H. exact H.
  - cbn [app]. rewrite <- app_assoc. apply it_nop; try assumption.
    apply IH. replace (i + nlen junk + 1 + nlen n') with (i + nlen (w :: junk ++ n')) by nl.
    exact H.
Qed.

Lemma nops_mitems n : nops_seg n -> forall i rest l,
  mitems (i + nlen n) rest l -> mitems i (n ++ rest) l.
Proof.
  induction 1 as [|w junk n' Ht Hv Hrun Hn' IH]; intros i rest l H.
  - rewrite nlen_nil, N.add_0_r in H. exact H.
  - cbn [app]. rewrite <- app_assoc. apply mi_nop; try assumption.
    apply IH. replace (i + nlen junk + 1 + nlen n') with (i + nlen (w :: junk ++ n')) by nl.
    exact H.
Qed.

Lemma nops_seg_app a : nops_seg a -> forall b, nops_seg b -> nops_seg (a ++ b).
Proof.
  induction 1 as [|w junk n' Ht Hv Hrun Hn' IH]; intros b Hb; [exact Hb|].
  cbn [app]. rewrite <- app_assoc. apply ns_cons; auto.
Qed.

End Den.

(* ------------------------------------------------------------------ *)
(* computation => segments                                             *)

Section DenSeg.
Variables (msg strings : bytes).

Notation val_seg := (val_seg msg strings false false).
Notation items := (items msg strings false false).
Notation mitems := (mitems msg strings false false).
Notation nops_seg := (nops_seg false).
Notation den_value := (den_value msg strings).
Notation den_elems := (den_elems msg strings).
Notation den_members := (den_members msg strings).

Lemma skip_nops_seg f : forall i rest i' rest',
  skip_nops f i rest = Some (i', rest') -> rest' <> [] ->
  exists n, rest = n ++ rest' /\ i' = i + nlen n /\ nops_seg n /\ head_not_nop rest'.
Proof.
  induction f as [|f IH]; intros i rest i' rest' H Hne; [discriminate H|].
  rewrite skip_nops_S in H. destruct rest as [|w r0].
  - injection H as <- <-. congruence.
  - destruct (word_tag w =? TagNop) eqn:Et.
    + cbv zeta in H. destruct (word_val w =? 0) eqn:E0; [discriminate H|].
      apply IH in H; [|exact Hne]. destruct H as (n' & Hsk & -> & Hn' & Hhd).
      remember (N.to_nat (word_val w)) as K eqn:EK.
      destruct K as [|K']; [lia|]. cbn [skipn] in Hsk.
      assert (HK : (K' < length r0)%nat).
      { destruct (Nat.lt_ge_cases K' (length r0)) as [Hlt|Hge]; [exact Hlt|].
        rewrite skipn_all2 in Hsk by exact Hge.
        destruct n'; [|discriminate Hsk]. cbn [app] in Hsk. congruence. }
      exists ((w :: firstn K' r0) ++ n'). repeat split.
      * cbn [app]. rewrite <- app_assoc. rewrite <- Hsk. rewrite firstn_skipn. reflexivity.
      * rewrite nlen_app, nlen_cons. unfold nlen. rewrite firstn_length_le by lia. lia.
      * cbn [app]. apply ns_cons; try assumption.
        -- apply N.eqb_eq in Et. exact Et.
        -- unfold nlen. rewrite firstn_length_le by lia. lia.
        -- discriminate.
      * exact Hhd.
    + injection H as <- <-. exists []. repeat split.
      * rewrite nlen_nil. lia.
      * constructor.
      * cbn. apply N.eqb_neq in Et. exact Et.
Qed.

Lemma items_snoc_val : forall i b l, items i b l -> forall v d,
  val_seg (i + nlen b) v d -> items i (b ++ v) (l ++ [d]).
Proof.
  induction 1 as [i|i w junk rest l Ht Hv Hrun Hr IH|i v0 d0 rest l Hv0 Hr IH]; intros v d Hvd.
  - rewrite nlen_nil, N.add_0_r in Hvd. cbn [app].
    rewrite <- (app_nil_r v). apply it_val; [exact Hvd|constructor].
  - cbn [app]. rewrite <- app_assoc. apply it_nop; try assumption. apply IH.
    replace (i + nlen junk + 1 + nlen rest) with (i + nlen (w :: junk ++ rest)) by nl. exact Hvd.
  - rewrite <- app_assoc. cbn [app]. apply it_val; [exact Hv0|]. apply IH.
    replace (i + nlen v0 + nlen rest) with (i + nlen (v0 ++ rest)) by nl. exact Hvd.
Qed.


Lemma den_seg f :
  (forall i rest d j rest', den_value f i rest = Some (d, j, rest') ->
     exists v, rest = v ++ rest' /\ j = i + nlen v /\ val_seg i v d) /\
  (forall i rest acc l j rest', den_elems f i rest acc = Some (l, j, rest') ->
     exists b e l', rest = b ++ e :: rest' /\ j = i + nlen b + 1 /\
       word_tag e = TagArrayEnd /\ l = rev acc ++ l' /\ items i b l') /\
  (forall i rest acc l j rest', den_members f i rest acc = Some (l, j, rest') ->
     exists b e l', rest = b ++ e :: rest' /\ j = i + nlen b + 1 /\
       word_tag e = TagObjectEnd /\ l = rev acc ++ l' /\ mitems i b l').
Proof.
  induction f as [|f (IHv & IHe & IHm)].
  - repeat split; intros; discriminate.
  - repeat split.
    + intros i rest d j rest' H. rewrite den_value_S in H. cbv zeta in H.
      destruct rest as [|w r]; [discriminate H|].
      destruct (word_tag w =? TagString) eqn:Es.
      { apply N.eqb_eq in Es. destruct r as [|len r']; [discriminate H|].
        destruct (string_at msg strings (word_val w) len) as [s|] eqn:Hs; [|discriminate H].
        injection H as <- <- <-. exists [w; len]. repeat split. constructor; assumption. }
      destruct (word_tag w =? TagInteger) eqn:Ei.
      { apply N.eqb_eq in Ei. destruct r as [|x r']; [discriminate H|].
        injection H as <- <- <-. exists [w; x]. repeat split. constructor; [assumption|discriminate]. }
      destruct (word_tag w =? TagUint) eqn:Eu.
      { apply N.eqb_eq in Eu. destruct r as [|x r']; [discriminate H|].
        injection H as <- <- <-. exists [w; x]. repeat split. constructor; [assumption|discriminate]. }
      destruct (word_tag w =? TagFloat) eqn:Ef.
      { apply N.eqb_eq in Ef. destruct r as [|x r']; [discriminate H|].
        injection H as <- <- <-. exists [w; x]. repeat split. constructor; assumption. }
      destruct (word_tag w =? TagNull) eqn:En.
      { apply N.eqb_eq in En. injection H as <- <- <-. exists [w]. repeat split.
        constructor; [assumption|discriminate]. }
      destruct (word_tag w =? TagBoolTrue) eqn:Et.
      { apply N.eqb_eq in Et. injection H as <- <- <-. exists [w]. repeat split.
        constructor; [assumption|discriminate]. }
      destruct (word_tag w =? TagBoolFalse) eqn:Efa.
      { apply N.eqb_eq in Efa. injection H as <- <- <-. exists [w]. repeat split.
        constructor; [assumption|discriminate]. }
      destruct (word_tag w =? TagArrayStart) eqn:Ea.
      { apply N.eqb_eq in Ea. dmatch H. destruct p as [[l j0] r'].
        destruct (j0 =? word_val w) eqn:Ej; [|discriminate H]. injection H as <- <- <-.
        apply IHe in E. destruct E as (b & e & l' & -> & -> & He & -> & Hit).
        exists (w :: b ++ [e]). repeat split.
        - cbn [app]. rewrite <- app_assoc. reflexivity.
        - nl.
        - cbn [rev app]. apply vs_arr; try assumption; [lia|discriminate]. }
      destruct (word_tag w =? TagObjectStart) eqn:Eo; [|discriminate H].
      { apply N.eqb_eq in Eo. dmatch H. destruct p as [[l j0] r'].
        destruct (j0 =? word_val w) eqn:Ej; [|discriminate H]. injection H as <- <- <-.
        apply IHm in E. destruct E as (b & e & l' & -> & -> & He & -> & Hit).
        exists (w :: b ++ [e]). repeat split.
        - cbn [app]. rewrite <- app_assoc. reflexivity.
        - nl.
        - cbn [rev app]. apply vs_obj; try assumption; [lia|discriminate]. }
    + intros i rest acc l j rest' H. rewrite den_elems_S in H.
      dmatch H. destruct p as [i' r1]. destruct r1 as [|w r]; [discriminate H|].
      apply skip_nops_seg in E; [|discriminate]. destruct E as (n & -> & -> & Hn & Hhd).
      destruct (word_tag w =? TagArrayEnd) eqn:Ee.
      { apply N.eqb_eq in Ee. injection H as <- <- <-.
        exists n, w, []. split; [reflexivity|]. split; [reflexivity|]. split; [exact Ee|].
        split; [now rewrite app_nil_r|].
        rewrite <- (app_nil_r n). apply nops_items; [exact Hn|constructor]. }
      dmatch H. destruct p as [[d j0] r'].
      apply IHv in E. destruct E as (v & Ev & -> & Hv).
      apply IHe in H. destruct H as (b & e & l' & -> & -> & He & -> & Hit).
      exists (n ++ v ++ b), e, (d :: l'). repeat split.
      * rewrite Ev. rewrite <- !app_assoc. reflexivity.
      * nl.
      * exact He.
      * cbn [rev]. rewrite <- app_assoc. reflexivity.
      * apply nops_items; [exact Hn|]. apply it_val; assumption.
    + intros i rest acc l j rest' H. rewrite den_members_S in H.
      dmatch H. destruct p as [i' r1]. destruct r1 as [|w r]; [discriminate H|].
      apply skip_nops_seg in E; [|discriminate]. destruct E as (n & -> & -> & Hn & Hhd).
      destruct (word_tag w =? TagObjectEnd) eqn:Ee.
      { apply N.eqb_eq in Ee. injection H as <- <- <-.
        exists n, w, []. split; [reflexivity|]. split; [reflexivity|]. split; [exact Ee|].
        split; [now rewrite app_nil_r|].
        rewrite <- (app_nil_r n). apply nops_mitems; [exact Hn|constructor]. }
      destruct (word_tag w =? TagString) eqn:Es; [|discriminate H]. apply N.eqb_eq in Es.
      destruct r as [|len r1]; [discriminate H|].
      destruct (string_at msg strings (word_val w) len) as [k|] eqn:Hk; [|discriminate H].
      dmatch H. destruct p as [i2 r2].
      dmatch H. destruct p as [[d j0] r'].
      pose proof E0 as E0'. apply IHv in E0. destruct E0 as (v & Ev & -> & Hv).
      apply skip_nops_seg in E.
      2:{ subst r2. pose proof (val_seg_nonempty _ _ _ _ _ _ _ Hv). destruct v; [cbn in *; lia|discriminate]. }
      destruct E as (n2 & -> & -> & Hn2 & _).
      apply IHm in H. destruct H as (b & e & l' & -> & -> & He & -> & Hit).
      exists (n ++ w :: len :: n2 ++ v ++ b), e, ((k, d) :: l'). repeat split.
      * rewrite Ev. rewrite <- !app_assoc. cbn [app]. rewrite <- !app_assoc. reflexivity.
      * nl.
      * exact He.
      * cbn [rev]. rewrite <- app_assoc. reflexivity.
      * apply nops_mitems; [exact Hn|].
        apply mi_mem; try assumption; try discriminate.
Qed.

End DenSeg.

(* ------------------------------------------------------------------ *)
(* roots                                                               *)

Section Roots.
Variables (msg strings : bytes).
Variables (strict adj : bool).

Notation val_seg := (val_seg msg strings strict adj).
Notation nops_seg := (nops_seg strict).
Notation roots_seg := (roots_seg msg strings strict adj).
Notation den_value := (den_value msg strings).
Notation den_roots := (den_roots msg strings).

Lemma den_roots_jump f i w junk rest acc x :
  word_tag w = TagNop -> word_val w = nlen junk + 1 ->
  den_roots f (i + nlen junk + 1) rest acc = Some x ->
  den_roots (S f) i (w :: junk ++ rest) acc = Some x.
Proof.
  intros Ht Hv H. destruct f as [|f]; [discriminate H|].
  rewrite den_roots_S in H. rewrite den_roots_S. rewrite skip_nops_jump by assumption.
  dmatch H. destruct p as [i' rest'].
  destruct rest' as [|w' r]; [exact H|].
  destruct (word_tag w' =? TagRoot) eqn:Er; [|discriminate H].
  dmatch H. destruct p as [i1 r1].
  rewrite (skip_nops_mono f (S f) _ _ _ (Nat.le_succ_diag_r f) E0).
  dmatch H. destruct p as [[d j] r2].
  rewrite (den_value_mono msg strings f (S f) _ _ _ (Nat.le_succ_diag_r f) E1).
  dmatch H. destruct p as [j' l3].
  rewrite (skip_nops_mono f (S f) _ _ _ (Nat.le_succ_diag_r f) E2).
  destruct l3 as [|c r3]; [discriminate H|].
  destruct ((word_tag c =? TagRoot) && (word_val c =? i') && (word_val w' =? j' + 1)) eqn:Ec; [|discriminate H].
  apply den_roots_mono with (f := f); [lia|exact H].
Qed.

Lemma nops_roots n : nops_seg n -> forall i rest l,
  roots_seg (i + nlen n) rest l -> roots_seg i (n ++ rest) l.
Proof.
  induction 1 as [|w junk n' Ht Hv Hrun Hn' IH]; intros i rest l H.
  - rewrite nlen_nil, N.add_0_r in H. exact H.
  - cbn [app]. rewrite <- app_assoc. apply rs_nop; try assumption.
    apply IH. replace (i + nlen junk + 1 + nlen n') with (i + nlen (w :: junk ++ n')) by nl.
    exact H.
Qed.

Lemma roots_den : forall i rest l, roots_seg i rest l -> forall f acc,
  ((length rest + 1 < f)%nat \/ (l <> [] /\ (length rest < f)%nat)) ->
  den_roots f i rest acc = Some (rev acc ++ l).
Proof.
  induction 1 as [i|i w rest Hs Ht Hv|i w junk rest l Ht Hv Hrun Hr IH
                  |i w n1 v d n2 c rest l Ht Hn1 Hval Hn2 Hc Hcv Hwv Hr IH]; intros f acc Hf.
  - destruct Hf as [Hf|[Hf _]]; [|congruence].
    destruct f as [|[|f]]; [cbn in Hf; lia|cbn in Hf; lia|].
    rewrite den_roots_S, skip_nops_S. rewrite app_nil_r. reflexivity.
  - destruct Hf as [Hf|[Hf _]]; [|congruence].
    destruct f as [|[|[|f]]]; try (cbn in Hf; lia).
    rewrite den_roots_S, skip_nops_S. rewrite Ht. tageq. cbv zeta.
    destruct (word_val w =? 0) eqn:E0; [lia|].
    rewrite skipn_all2 by (revert Hv; nl).
    rewrite skip_nops_S. rewrite app_nil_r. reflexivity.
  - destruct f as [|f]; [lia|].
    apply den_roots_jump; try assumption. apply IH.
    destruct Hf as [Hf|[Hl Hf]]; [left|right; split; [exact Hl|]]; revert Hf; nl.
  - assert (Hf' : (length (w :: n1 ++ v ++ n2 ++ c :: rest) < f)%nat) by (destruct Hf as [Hf|[_ Hf]]; lia).
    clear Hf. destruct f as [|f]; [lia|].
    pose proof (val_seg_nonempty _ _ _ _ _ _ _ Hval) as Hne.
    destruct f as [|f]; [revert Hf'; nl|].
    rewrite den_roots_S. rewrite skip_nops_stop by (cbn; rewrite Ht; discriminate).
    rewrite Ht. tageq.
    rewrite (nops_seg_skip strict n1 Hn1 (S f) (i + 1) (v ++ n2 ++ c :: rest))
      by (try (eapply val_seg_head_not_nop; exact Hval); revert Hf'; nl).
    rewrite (proj1 (seg_den msg strings strict adj) _ _ _ Hval (S f) (n2 ++ c :: rest))
      by (revert Hf'; nl).
    rewrite (nops_seg_skip strict n2 Hn2 (S f) _ (c :: rest))
      by (try (cbn; rewrite Hc; discriminate); revert Hf'; nl).
    rewrite Hc. tageq.
    replace (word_val c =? i) with true by lia.
    replace (word_val w =? i + 1 + nlen n1 + nlen v + nlen n2 + 1) with true by lia.
    cbn [andb].
    rewrite IH by (left; revert Hf' Hne; nl).
    cbn [rev]. rewrite <- app_assoc. reflexivity.
Qed.

End Roots.

Section RootsSeg.
Variables (msg strings : bytes).

Notation val_seg := (val_seg msg strings false false).
Notation nops_seg := (nops_seg false).
Notation roots_seg := (roots_seg msg strings false false).
Notation den_value := (den_value msg strings).
Notation den_roots := (den_roots msg strings).

Lemma skip_nops_end f : forall i rest i',
  skip_nops f i rest = Some (i', []) -> roots_seg i rest [].
Proof.
  induction f as [|f IH]; intros i rest i' H; [discriminate H|].
  rewrite skip_nops_S in H. destruct rest as [|w r0]; [constructor|].
  destruct (word_tag w =? TagNop) eqn:Et; [|discriminate H].
  apply N.eqb_eq in Et. cbv zeta in H.
  destruct (word_val w =? 0) eqn:E0; [discriminate H|].
  destruct (N.lt_ge_cases (nlen r0 + 1) (word_val w)) as [Hlt|Hge].
  - apply rs_over; auto.
  - remember (N.to_nat (word_val w)) as K eqn:EK.
    destruct K as [|K']; [lia|]. cbn [skipn] in H.
    apply IH in H.
    rewrite <- (firstn_skipn K' r0).
    assert (HK : (K' <= length r0)%nat) by (revert Hge; nl).
    apply rs_nop; try assumption.
    + unfold nlen. rewrite firstn_length_le by lia. lia.
    + discriminate.
    + replace (i + nlen (firstn K' r0) + 1) with (i + word_val w); [exact H|].
      unfold nlen. rewrite firstn_length_le by lia. lia.
Qed.

Lemma roots_seg_nil_inv i l : roots_seg i [] l -> l = [].
Proof. intros H. inversion H; reflexivity. Qed.

Lemma skip_nops_roots f i rest i' rest' l :
  skip_nops f i rest = Some (i', rest') -> roots_seg i' rest' l -> roots_seg i rest l.
Proof.
  intros Hs Hr. destruct rest' as [|w r].
  - apply roots_seg_nil_inv in Hr. subst l. eapply skip_nops_end. exact Hs.
  - apply skip_nops_seg in Hs; [|discriminate].
    destruct Hs as (n & -> & -> & Hn & _). apply nops_roots; assumption.
Qed.

Lemma den_roots_seg f : forall i rest acc l,
  den_roots f i rest acc = Some l -> exists l', l = rev acc ++ l' /\ roots_seg i rest l'.
Proof.
  induction f as [|f IH]; intros i rest acc l H; [discriminate H|].
  rewrite den_roots_S in H.
  dmatch H. destruct p as [i' r1]. destruct r1 as [|w r].
  - injection H as <-. exists []. split; [now rewrite app_nil_r|].
    eapply skip_nops_end. exact E.
  - destruct (word_tag w =? TagRoot) eqn:Er; [|discriminate H]. apply N.eqb_eq in Er.
    dmatch H. destruct p as [i1 r1].
    dmatch H. destruct p as [[d j] r2].
    dmatch H. destruct p as [j' l3]. destruct l3 as [|c r3]; [discriminate H|].
    destruct ((word_tag c =? TagRoot) && (word_val c =? i') && (word_val w =? j' + 1)) eqn:Ec; [|discriminate H].
    apply IH in H. destruct H as (l' & -> & Hr).
    exists (d :: l'). split; [cbn [rev]; now rewrite <- app_assoc|].
    eapply skip_nops_roots; [exact E|].
    apply (proj1 (den_seg msg strings f)) in E1. destruct E1 as (v & -> & -> & Hv).
    apply skip_nops_seg in E0.
    2:{ pose proof (val_seg_nonempty _ _ _ _ _ _ _ Hv). destruct v; [cbn in *; lia|discriminate]. }
    destruct E0 as (n1 & -> & -> & Hn1 & _).
    apply skip_nops_seg in E2; [|discriminate].
    destruct E2 as (n2 & -> & -> & Hn2 & _).
    apply rs_root; try assumption; try lia.
Qed.

End RootsSeg.

(* ------------------------------------------------------------------ *)
(* denote                                                              *)

Theorem denote_roots_seg msg strings tape l :
  denote msg strings tape = Some l -> roots_seg msg strings false false 0 tape l.
Proof.
  unfold denote. intros H. apply den_roots_seg in H. destruct H as (l' & -> & H). exact H.
Qed.

Theorem roots_seg_denote msg strings strict adj tape l :
  roots_seg msg strings strict adj 0 tape l -> l <> [] -> denote msg strings tape = Some l.
Proof.
  intros H Hne. unfold denote.
  rewrite (roots_den msg strings strict adj 0 tape l H (S (length tape)) []); [reflexivity|].
  right. split; [exact Hne|lia].
Qed.

Lemma app_eq_len {A} (a a' x x' : list A) :
  a ++ x = a' ++ x' -> length a = length a' -> a = a' /\ x = x'.
Proof.
  revert a'. induction a as [|h a IH]; intros [|h' a'] E Hl; try discriminate Hl.
  - split; [reflexivity|exact E].
  - cbn [app] in E. injection E as -> E. cbn [length] in Hl.
    destruct (IH a' E ltac:(lia)) as [-> ->]. split; reflexivity.
Qed.
