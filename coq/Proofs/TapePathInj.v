(* TapePathInj.v — a path determines its tape index (the converse of
   TapePathFun), weakening of the structure flags, and transfer of a position
   found in the plain structure to the strict structure of a well-formed tape. *)
From SJ Require Import Model.Base Model.RefTables Spec.Json Spec.EditSpec Model.Tape.
From SJ Require Import Proofs.TapeBase Proofs.TapeSeg Proofs.TapeDen Proofs.TapePath.
From Coq Require Import ZifyBool ZifyN ZifyNat.
Open Scope N_scope.

(* ------------------------------------------------------------------ *)
(* weakening: forget the strict / adjacency constraints                 *)

Section Weaken.
Variables (msg strings : bytes) (strict adj : bool).

Lemma nops_weaken n : nops_seg strict n -> nops_seg false n.
Proof. induction 1; constructor; auto; discriminate. Qed.

Lemma seg_weaken :
  (forall i v d, val_seg msg strings strict adj i v d -> val_seg msg strings false false i v d) /\
  (forall i v l, items msg strings strict adj i v l -> items msg strings false false i v l) /\
  (forall i v l, mitems msg strings strict adj i v l -> mitems msg strings false false i v l).
Proof.
  apply seg_mutind; intros; econstructor; eauto using nops_weaken; discriminate.
Qed.

Lemma roots_weaken i v l :
  roots_seg msg strings strict adj i v l -> roots_seg msg strings false false i v l.
Proof.
  induction 1 as [i|i w rest Hs Ht Hv|i w junk rest l Ht Hv Hrun Hr IH
                  |i w n1 v d n2 c rest l Ht Hn1 Hval Hn2 Hc Hcv Hwv Hr IH].
  - constructor.
  - apply rs_over; auto.
  - apply rs_nop; auto. discriminate.
  - apply rs_root; eauto using nops_weaken. apply seg_weaken. exact Hval.
Qed.

Lemma hole_weaken :
  (forall i a sub b p, vhole msg strings strict adj i a sub b p -> vhole msg strings false false i a sub b p) /\
  (forall i a sub b n p, ihole msg strings strict adj i a sub b n p -> ihole msg strings false false i a sub b n p) /\
  (forall i a sub b n p, mhole msg strings strict adj i a sub b n p -> mhole msg strings false false i a sub b n p).
Proof.
  apply hole_mutind; intros;
    [eapply vh_arr | eapply vh_obj | eapply ih_nop | eapply ih_skip | eapply ih_here
    | eapply ih_in | eapply mh_nop | eapply mh_skip | eapply mh_here | eapply mh_in];
    eauto using nops_weaken; try discriminate;
    first [ eapply (proj1 seg_weaken); eassumption
          | eapply (proj1 (proj2 seg_weaken)); eassumption
          | eapply (proj2 (proj2 seg_weaken)); eassumption ].
Qed.

Lemma rhole_weaken i a sub b n p :
  rhole msg strings strict adj i a sub b n p -> rhole msg strings false false i a sub b n p.
Proof.
  induction 1; [eapply rh_nop | eapply rh_skip | eapply rh_here | eapply rh_in];
    eauto using nops_weaken; try discriminate;
    first [ eapply (proj1 seg_weaken); eassumption
          | eapply roots_weaken; eassumption
          | eapply (proj1 hole_weaken); eassumption ].
Qed.

Lemma index_path_weaken tape k p :
  index_path msg strings strict adj tape k p -> index_path msg strings false false tape k p.
Proof.
  intros (a & sub & b & n & q & E1 & E2 & E3 & H).
  exists a, sub, b, n, q. repeat split; auto. apply rhole_weaken. exact H.
Qed.

End Weaken.

(* ------------------------------------------------------------------ *)
(* a path determines the index                                          *)

Section Inj.
Variables (msg strings : bytes) (strict adj : bool).
Notation val_seg := (val_seg msg strings strict adj).
Notation nops_seg := (nops_seg strict).
Notation vhole := (vhole msg strings strict adj).
Notation ihole := (ihole msg strings strict adj).
Notation mhole := (mhole msg strings strict adj).
Notation rhole := (rhole msg strings strict adj).

Lemma nops_det n n' X X' :
  nops_seg n -> nops_seg n' -> n ++ X = n' ++ X' -> head_not_nop X -> head_not_nop X' ->
  n = n' /\ X = X'.
Proof.
  intros H1 H2 E HX HX'.
  pose proof (nops_seg_skip strict n H1 (S (length n + length n')) 0 X ltac:(lia) HX) as D1.
  pose proof (nops_seg_skip strict n' H2 (S (length n + length n')) 0 X' ltac:(lia) HX') as D2.
  rewrite E in D1. rewrite D1 in D2. injection D2 as Hn ->.
  apply app_eq_len in E; [exact E|]. revert Hn. nl.
Qed.

Lemma vhole_fill i a sub b p : vhole i a sub b p -> exists d, val_seg i (a ++ sub ++ b) d.
Proof. intros H. destruct (proj1 (hole_repl msg strings strict adj) _ _ _ _ _ H) as (d & _ & Hd & _). eauto. Qed.

Lemma vhole_head i a sub b p : vhole i a sub b p ->
  exists w a0, a = w :: a0 /\ is_val_tag (word_tag w) = true.
Proof.
  intros H; inversion H; subst; eexists; eexists; (split; [reflexivity|]);
    match goal with Ht : word_tag _ = _ |- _ => rewrite Ht; reflexivity end.
Qed.

Ltac tag_contra :=
  match goal with
  | H1 : word_tag ?w = TagNop, H2 : is_val_tag (word_tag ?w) = true |- _ =>
    rewrite H1 in H2; discriminate H2
  | H1 : word_tag ?w = ?t1, H2 : word_tag ?w = ?t2 |- _ => rewrite H1 in H2; discriminate H2
  end.

(* expose the head of a value segment inside a list equation *)
Ltac val_head H :=
  let w := fresh "wv" in let r := fresh "rv" in let E := fresh "Ev" in let T := fresh "Tv" in
  destruct (val_seg_head _ _ _ _ _ _ _ H) as (w & r & E & T).

Lemma hole_inj :
  (forall i a sub b p, vhole i a sub b p -> forall a' sub' b', vhole i a' sub' b' p ->
     a ++ sub ++ b = a' ++ sub' ++ b' -> nlen a = nlen a') /\
  (forall i a sub b n p, ihole i a sub b n p -> forall a' sub' b', ihole i a' sub' b' n p ->
     a ++ sub ++ b = a' ++ sub' ++ b' -> nlen a = nlen a') /\
  (forall i a sub b n p, mhole i a sub b n p -> forall a' sub' b', mhole i a' sub' b' n p ->
     a ++ sub ++ b = a' ++ sub' ++ b' -> nlen a = nlen a').
Proof.
  apply hole_mutind.
  - (* vh_arr *)
    intros i w a sub b e n p Ht He Hv Hs Hh IH a' sub' b' H2 E.
    inversion H2; subst.
    + cbn [app] in E. injection E as -> E.
      assert (El : a ++ sub ++ b = a0 ++ sub' ++ b0).
      { replace (a ++ sub ++ b ++ [e]) with ((a ++ sub ++ b) ++ [e]) in E by leq.
        replace (a0 ++ sub' ++ b0 ++ [e0]) with ((a0 ++ sub' ++ b0) ++ [e0]) in E by leq.
        apply app_eq_len in E; [tauto|].
        match goal with H : word_val w0 = _ |- _ => rewrite Hv in H; revert H; nl end. }
      rewrite !nlen_cons. f_equal. eapply IH; eauto.
    + cbn [app] in E. injection E as -> E. tag_contra.
  - (* vh_obj *)
    intros i w a sub b e n p Ht He Hv Hs Hh IH a' sub' b' H2 E.
    inversion H2; subst.
    + cbn [app] in E. injection E as -> E. tag_contra.
    + cbn [app] in E. injection E as -> E.
      assert (El : a ++ sub ++ b = a0 ++ sub' ++ b0).
      { replace (a ++ sub ++ b ++ [e]) with ((a ++ sub ++ b) ++ [e]) in E by leq.
        replace (a0 ++ sub' ++ b0 ++ [e0]) with ((a0 ++ sub' ++ b0) ++ [e0]) in E by leq.
        apply app_eq_len in E; [tauto|].
        match goal with H : word_val w0 = _ |- _ => rewrite Hv in H; revert H; nl end. }
      rewrite !nlen_cons. f_equal. eapply IH; eauto.
  - (* ih_nop *)
    intros i w junk a sub b n p Ht Hv Hrun Hh IH a' sub' b' H2 E.
    inversion H2; subst.
    + cbn [app] in E. injection E as -> E.
      assert (El : junk = junk0 /\ a ++ sub ++ b = a0 ++ sub' ++ b').
      { rewrite <- !app_assoc in E. apply app_eq_len in E; [exact E|].
        match goal with H : word_val w0 = _ |- _ => rewrite Hv in H; revert H; nl end. }
      destruct El as [<- El]. rewrite !nlen_cons, !nlen_app. f_equal. f_equal. eapply IH; eauto.
    + match goal with H : val_seg _ _ _ |- _ => val_head H end. subst.
      cbn [app] in E. injection E as -> E. tag_contra.
    + match goal with H : val_seg _ _ _ |- _ => val_head H end. subst.
      cbn [app] in E. injection E as -> E. tag_contra.
    + match goal with H : vhole _ _ _ _ _ |- _ => destruct (vhole_head _ _ _ _ _ H) as (w1 & a1 & -> & T1) end.
      cbn [app] in E. injection E as -> E. tag_contra.
  - (* ih_skip *)
    intros i v d a sub b n p Hval Hh IH a' sub' b' H2 E.
    val_head Hval. subst v.
    inversion H2; subst.
    + cbn [app] in E. injection E as <- E. tag_contra.
    + match goal with H : val_seg i v _ |- _ => rename H into Hval' end.
      rewrite <- !app_assoc in E.
      destruct (val_seg_det _ _ _ _ _ _ _ _ _ _ _ Hval Hval' E) as (<- & _ & El).
      rewrite !nlen_app. f_equal. eapply IH; eauto.
  - (* ih_here *)
    intros i sub d rest l Hval Hrest a' sub' b' H2 E.
    val_head Hval. subst sub.
    inversion H2; subst.
    + cbn [app] in E. injection E as <- E. tag_contra.
    + reflexivity.
    + match goal with H : vhole _ _ _ _ [] |- _ => inversion H end.
  - (* ih_in *)
    intros i a sub b p rest l Hh IH Hrest a' sub' b' H2 E.
    destruct (vhole_head _ _ _ _ _ Hh) as (w1 & a1 & -> & T1).
    inversion H2; subst.
    + cbn [app] in E. injection E as <- E. tag_contra.
    + inversion Hh.
    + match goal with H : vhole i a' sub' _ _ |- _ => rename H into Hh' end.
      destruct (vhole_fill _ _ _ _ _ Hh) as (d1 & F1). destruct (vhole_fill _ _ _ _ _ Hh') as (d2 & F2).
      assert (E' : ((w1 :: a1) ++ sub ++ b) ++ rest = (a' ++ sub' ++ b0) ++ rest0).
      { rewrite <- ?app_assoc. rewrite <- ?app_assoc in E. exact E. }
      destruct (val_seg_det _ _ _ _ _ _ _ _ _ _ _ F1 F2 E') as (El & _ & _).
      eapply IH; eauto.
  - (* mh_nop *)
    intros i w junk a sub b n p Ht Hv Hrun Hh IH a' sub' b' H2 E.
    inversion H2; subst.
    + cbn [app] in E. injection E as -> E.
      assert (El : junk = junk0 /\ a ++ sub ++ b = a0 ++ sub' ++ b').
      { rewrite <- !app_assoc in E. apply app_eq_len in E; [exact E|].
        match goal with H : word_val w0 = _ |- _ => rewrite Hv in H; revert H; nl end. }
      destruct El as [<- El]. rewrite !nlen_cons, !nlen_app. f_equal. f_equal. eapply IH; eauto.
    + cbn [app] in E. injection E as -> E. tag_contra.
    + cbn [app] in E. injection E as -> E. tag_contra.
    + cbn [app] in E. injection E as -> E. tag_contra.
  - (* mh_skip *)
    intros i w len k n2 v d a sub b n p Ht Hk Hn2 Hadj Hval Hh IH a' sub' b' H2 E.
    inversion H2; subst.
    + cbn [app] in E. injection E as <- E. tag_contra.
    + match goal with H : val_seg _ v0 _ |- _ => rename H into Hval' end.
      cbn [app] in E. injection E as <- <- E. rewrite <- !app_assoc in E.
      destruct (nops_det n2 n0 _ _ Hn2 ltac:(assumption) E
                  (val_seg_head_not_nop _ _ _ _ _ _ _ _ Hval)
                  (val_seg_head_not_nop _ _ _ _ _ _ _ _ Hval')) as (<- & E2).
      destruct (val_seg_det _ _ _ _ _ _ _ _ _ _ _ Hval Hval' E2) as (<- & _ & El).
      rewrite !nlen_cons, !nlen_app. f_equal. f_equal. f_equal. f_equal. eapply IH; eauto.
  - (* mh_here *)
    intros i w len k n2 sub d rest l Ht Hk Hn2 Hadj Hval Hrest a' sub' b' H2 E.
    inversion H2; subst.
    + cbn [app] in E. injection E as <- E. tag_contra.
    + match goal with H : val_seg _ sub' _ |- _ => rename H into Hval' end.
      cbn [app] in E. injection E as <- <- E.
      destruct (nops_det n2 n0 _ _ Hn2 ltac:(assumption) E
                  (val_seg_head_not_nop _ _ _ _ _ _ _ _ Hval)
                  (val_seg_head_not_nop _ _ _ _ _ _ _ _ Hval')) as (<- & E2).
      reflexivity.
    + match goal with H : vhole _ _ _ _ [] |- _ => inversion H end.
  - (* mh_in *)
    intros i w len k n2 a sub b p rest l Ht Hk Hn2 Hadj Hh IH Hrest a' sub' b' H2 E.
    inversion H2; subst.
    + cbn [app] in E. injection E as <- E. tag_contra.
    + inversion Hh.
    + match goal with H : vhole _ a0 sub' _ _ |- _ => rename H into Hh' end.
      destruct (vhole_fill _ _ _ _ _ Hh) as (d1 & F1). destruct (vhole_fill _ _ _ _ _ Hh') as (d2 & F2).
      cbn [app] in E. injection E as <- <- E. rewrite <- !app_assoc in E.
      assert (E' : n2 ++ (a ++ sub ++ b) ++ rest = n0 ++ (a0 ++ sub' ++ b0) ++ rest0).
      { rewrite <- !app_assoc. exact E. }
      destruct (nops_det n2 n0 _ _ Hn2 ltac:(assumption) E'
                  (val_seg_head_not_nop _ _ _ _ _ _ _ _ F1)
                  (val_seg_head_not_nop _ _ _ _ _ _ _ _ F2)) as (<- & E2).
      destruct (val_seg_det _ _ _ _ _ _ _ _ _ _ _ F1 F2 E2) as (El & _ & _).
      rewrite !nlen_cons, !nlen_app. f_equal. f_equal. f_equal. eapply IH; eauto.
Qed.

End Inj.

Section RInj.
Variables (msg strings : bytes) (strict adj : bool).
Notation val_seg := (val_seg msg strings strict adj).
Notation nops_seg := (nops_seg strict).
Notation vhole := (vhole msg strings strict adj).
Notation rhole := (rhole msg strings strict adj).

Ltac tag_contra :=
  match goal with
  | H1 : word_tag ?w = ?t1, H2 : word_tag ?w = ?t2 |- _ => rewrite H1 in H2; discriminate H2
  end.

Lemma root_head_not_nop c X : word_tag c = TagRoot -> head_not_nop (c :: X).
Proof. intros H. cbn. rewrite H. discriminate. Qed.

Lemma rhole_inj : forall i a sub b n p, rhole i a sub b n p ->
  forall a' sub' b', rhole i a' sub' b' n p ->
  a ++ sub ++ b = a' ++ sub' ++ b' -> nlen a = nlen a'.
Proof.
  induction 1 as [i w junk a sub b n p Ht Hv Hrun _ IH
                 |i w n1 v d n2 c a sub b n p Ht Hn1 Hval Hn2 Hc Hcv Hwv _ IH
                 |i w n1 sub d n2 c rest l Ht Hn1 Hval Hn2 Hc Hcv Hwv Hrest
                 |i w n1 a sub b p n2 c rest l Ht Hn1 Hh Hn2 Hc Hcv Hwv Hrest];
    intros a' sub' b' H2 E.
  - inversion H2; subst; cbn [app] in E; injection E as -> E; try tag_contra.
    assert (El : junk = junk0 /\ a ++ sub ++ b = a0 ++ sub' ++ b').
    { rewrite <- !app_assoc in E. apply app_eq_len in E; [exact E|].
      match goal with H : word_val w0 = _ |- _ => rewrite Hv in H; revert H; nl end. }
    destruct El as [<- El]. rewrite !nlen_cons, !nlen_app. f_equal. f_equal. eapply IH; eauto.
  - inversion H2; subst; cbn [app] in E; injection E as -> E; try tag_contra.
    match goal with H : TapeSeg.val_seg _ _ _ _ _ v0 _ |- _ => rename H into Hval' end.
    rewrite <- ?app_assoc in E.
    destruct (nops_det strict n1 n0 _ _ Hn1 ltac:(assumption) E
                (val_seg_head_not_nop _ _ _ _ _ _ _ _ Hval)
                (val_seg_head_not_nop _ _ _ _ _ _ _ _ Hval')) as (<- & E2).
    destruct (val_seg_det _ _ _ _ _ _ _ _ _ _ _ Hval Hval' E2) as (<- & _ & E3).
    cbn [app] in E3.
    assert (Hc0 : word_tag c0 = TagRoot) by assumption.
    assert (Hn3 : nops_seg n3) by assumption.
    destruct (nops_det strict n2 n3 _ _ Hn2 Hn3 E3
                (root_head_not_nop _ _ Hc) (root_head_not_nop _ _ Hc0)) as (<- & E4).
    injection E4 as <- E5.
    rewrite !nlen_cons, !nlen_app, !nlen_cons. f_equal. f_equal. f_equal. f_equal. f_equal.
    eapply IH; eauto.
  - inversion H2; subst; cbn [app] in E; injection E as -> E; try tag_contra.
    + match goal with H : TapeSeg.val_seg _ _ _ _ _ sub' _ |- _ => rename H into Hval' end.
      destruct (nops_det strict n1 n0 _ _ Hn1 ltac:(assumption) E
                  (val_seg_head_not_nop _ _ _ _ _ _ _ _ Hval)
                  (val_seg_head_not_nop _ _ _ _ _ _ _ _ Hval')) as (<- & E2).
      reflexivity.
    + match goal with H : TapePath.vhole _ _ _ _ _ _ _ _ [] |- _ => inversion H end.
  - inversion H2; subst; cbn [app] in E; injection E as -> E; try tag_contra.
    + inversion Hh.
    + match goal with H : TapePath.vhole _ _ _ _ _ a0 sub' _ _ |- _ => rename H into Hh' end.
      destruct (vhole_fill _ _ _ _ _ _ _ _ _ Hh) as (d1 & F1).
      destruct (vhole_fill _ _ _ _ _ _ _ _ _ Hh') as (d2 & F2).
      assert (E' : n1 ++ (a ++ sub ++ b) ++ n2 ++ c :: rest = n0 ++ (a0 ++ sub' ++ b0) ++ n3 ++ c0 :: rest0).
      { rewrite <- ?app_assoc. rewrite <- ?app_assoc in E. exact E. }
      destruct (nops_det strict n1 n0 _ _ Hn1 ltac:(assumption) E'
                  (val_seg_head_not_nop _ _ _ _ _ _ _ _ F1)
                  (val_seg_head_not_nop _ _ _ _ _ _ _ _ F2)) as (<- & E2).
      destruct (val_seg_det _ _ _ _ _ _ _ _ _ _ _ F1 F2 E2) as (El & _ & _).
      rewrite !nlen_cons, !nlen_app. f_equal. f_equal.
      eapply (proj1 (hole_inj msg strings strict adj)); eauto.
Qed.

(* a path is the path of at most one tape index *)
Theorem index_path_inj tape k k' p :
  index_path msg strings strict adj tape k p -> index_path msg strings strict adj tape k' p -> k = k'.
Proof.
  intros (a & sub & b & n & q & Et & -> & -> & H1) (a' & sub' & b' & n' & q' & Et' & -> & Ep & H2).
  injection Ep as <- <-. rewrite Et in Et'. eapply rhole_inj; eauto.
Qed.

End RInj.

(* ------------------------------------------------------------------ *)
(* a position found in the plain structure of a tape that also has the
   strict structure is a position of the strict structure                *)

Theorem strict_position msg strings strict adj tape ds k p sub dsub pre post :
  roots_seg msg strings strict adj 0 tape ds ->
  index_path msg strings false false tape k p ->
  tape = pre ++ sub ++ post -> k = nlen pre ->
  val_seg msg strings false false k sub dsub ->
  index_path msg strings strict adj tape k p /\ val_seg msg strings strict adj k sub dsub.
Proof.
  intros Hr Hip Et Ek Hv.
  (* the denotation and the value at p *)
  pose proof Hip as (a & sub0 & b & n & q & Et0 & Ek0 & Ep & Hh).
  destruct (rhole_repl _ _ _ _ _ _ _ _ _ _ Hh) as (ds0 & dsub0 & Hds0 & Hsub0 & Hg0 & _).
  assert (ds0 = ds).
  { rewrite <- Et0 in Hds0.
    pose proof (roots_den _ _ _ _ _ _ _ Hr (S (S (length tape))) [] ltac:(left; lia)) as D1.
    pose proof (roots_den _ _ _ _ _ _ _ Hds0 (S (S (length tape))) [] ltac:(left; lia)) as D2.
    rewrite D1 in D2. injection D2 as ->. reflexivity. }
  subst ds0. rewrite <- Ep in Hg0.
  (* a strict position for the same path *)
  destruct (path_index_exists _ _ _ _ _ _ _ _ Hr Hg0) as (k' & Hip').
  pose proof (index_path_weaken _ _ _ _ _ _ _ Hip') as Hipw.
  assert (k' = k) by (eapply index_path_inj; eauto). subst k'.
  split; [exact Hip'|].
  destruct Hip' as (a' & sub' & b' & n' & q' & Et' & Ek' & Ep' & Hh').
  destruct (rhole_repl _ _ _ _ _ _ _ _ _ _ Hh') as (_ & dsub' & _ & Hsub' & _).
  rewrite N.add_0_l in Hsub'. rewrite <- Ek' in Hsub'.
  (* same segment *)
  rewrite Et in Et'. apply app_eq_len in Et'; [|revert Ek Ek'; unfold nlen; lia].
  destruct Et' as [<- Es].
  pose proof (proj1 (seg_weaken _ _ _ _) _ _ _ Hsub') as Hw.
  destruct (val_seg_det _ _ _ _ _ _ _ _ _ _ _ Hv Hw Es) as (-> & -> & _). exact Hsub'.
Qed.
