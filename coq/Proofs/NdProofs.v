(* NdProofs.v — the acceptance direction for ParseND (property C08): every
   input the NDJSON specification accepts is accepted by the model of
   simdjson-go's ParseND, in both string modes, and the tape denotes exactly
   the specification's sequence of documents. *)
From Coq Require Import ZifyBool ZifyN ZifyNat.
From SJ Require Import Model.Base Model.RefTables Spec.Json Model.Number Model.Str Model.Stage1.
From SJ Require Import Proofs.StrArith Proofs.StrProofs Proofs.TrimProofs.
From SJ Require Import Model.Stage2 Model.Driver Model.Tape.
From SJ Require Import Proofs.Stage1Proofs Proofs.Stage1Buffers Proofs.Stage2Base Proofs.Stage2Proofs.
From SJ Require Import Proofs.AcceptProofs.
From SJ Require Import Proofs.NdSpec Proofs.NdStage1 Proofs.NdMachine Proofs.NdDenote.
Open Scope N_scope.

(* ------------------------------------------------------------------ *)
(* small facts                                                         *)

Definition lfb (w : bytes) : bool := existsb (fun b => b2n b =? cLF) w.

Lemma has_lf_lfb w : has_lf w -> lfb w = true.
Proof.
  intros H. apply existsb_exists. apply Exists_exists in H. destruct H as (b & Hin & Hb).
  exists b. split; [exact Hin|]. apply N.eqb_eq. exact Hb.
Qed.

(* a text that is empty or starts with white space *)
Definition ws_head (s : bytes) : Prop :=
  match s with [] => True | c :: _ => is_json_ws (b2n c) = true end.

Lemma fold_false_ws_head s pr pr' p : ws_head s ->
  snd (s1_fold false (OutS pr) p s) = snd (s1_fold false (OutS pr') p s).
Proof.
  destruct s as [|c s]; [reflexivity|]. cbn [ws_head]. intros H.
  rewrite !fold_ws by exact H. reflexivity.
Qed.

Lemma pending_setb m cb rb : pending (setb m cb rb) = cb ++ concat rb.
Proof. reflexivity. Qed.

Lemma tl_weaken10 m : tl_ok m 1 -> tl_ok m 0.
Proof. unfold tl_ok. lia. Qed.

(* --- closing a root -------------------------------------------------- *)

Lemma root_div n : (n * 4 + retStart) / 4 = n.
Proof. rewrite N.div_add_l by lia. rewrite (N.div_small retStart 4) by (unfold retStart; lia). lia. Qed.

Lemma cycle_root_ok m D ws :
  stack m = [N.of_nat (length D) * 4 + retStart] ->
  tape_rev m = rev ws ++ mk_word TagRoot 0 :: rev D ->
  tlen m = N.of_nat (length (tape_rev m)) -> tlen m + 1 < two56 ->
  cycle_root m =
  Ok (write_tape (push_scope (write_tape (set_tape (set_stack m [])
        (rev ws ++ mk_word TagRoot (tlen m + 1) :: rev D)) (N.of_nat (length D)) TagRoot) retStart) 0 TagRoot).
Proof.
  intros Hst Htape Htl Hb. unfold cycle_root. rewrite Hst, root_div.
  assert (Hlt : N.of_nat (length D) < tlen (set_stack m [])).
  { msimpl. rewrite Htl, Htape, app_length. cbn [length]. rewrite !rev_length. lia. }
  rewrite (annotate_ok _ _ _ Hlt). cbn [obind]. do 4 f_equal.
  cbn [tlen tape_rev set_stack]. rewrite Htape.
  replace (N.to_nat (tlen m - 1 - N.of_nat (length D))) with (length (rev ws)).
  2:{ rewrite Htl, Htape, app_length. cbn [length]. rewrite !rev_length. lia. }
  rewrite upd_nth_app. unfold addOneForRoot. rewrite lor_mk by exact Hb. reflexivity.
Qed.

Lemma finish_ok m D ws :
  stack m = [N.of_nat (length D) * 4 + retStart] ->
  tape_rev m = rev ws ++ mk_word TagRoot 0 :: rev D ->
  tlen m = N.of_nat (length (tape_rev m)) -> tlen m + 1 < two56 ->
  finish m =
  Ok (write_tape (set_tape (set_stack m []) (rev ws ++ mk_word TagRoot (tlen m + 1) :: rev D))
        (N.of_nat (length D)) TagRoot).
Proof.
  intros Hst Htape Htl Hb. unfold finish. rewrite Hst, root_div.
  assert (Hlt : N.of_nat (length D) < tlen (set_stack m [])).
  { msimpl. rewrite Htl, Htape, app_length. cbn [length]. rewrite !rev_length. lia. }
  rewrite (annotate_ok _ _ _ Hlt). cbn [obind]. do 2 f_equal.
  cbn [tlen tape_rev set_stack]. rewrite Htape.
  replace (N.to_nat (tlen m - 1 - N.of_nat (length D))) with (length (rev ws)).
  2:{ rewrite Htl, Htape, app_length. cbn [length]. rewrite !rev_length. lia. }
  rewrite upd_nth_app. unfold addOneForRoot. rewrite lor_mk by exact Hb. reflexivity.
Qed.

Section NdSim.
Variable copy : bool.
Variable msg : bytes.
Hypothesis Hlen : N.of_nat (length msg) < STRINGBUFBIT.

(* ------------------------------------------------------------------ *)
(* the invariant of the machine fed with the NDJSON structurals         *)

Definition at_nd (m : m2) (s : bytes) (pr : bool) : Prop :=
  exists pre, msg = pre ++ s /\
  (N.to_nat (idx1 m) <= length pre)%nat /\
  (idx1 m <> 0 -> cur m = skipn (N.to_nat (idx1 m) - 1) msg) /\
  slen m <= N.of_nat (length pre) /\
  pending m = incs (N.to_nat (idx1 m)) (snd (s1_fold true (OutS pr) (length pre) s)).

Lemma at_nd_idx m s pr : at_nd m s pr -> idx1 m <= N.of_nat (length msg).
Proof. intros (pre & Hm & Hi & _). rewrite Hm, app_length. lia. Qed.

(* a blank that is not an LF is invisible *)
Lemma at_nd_skip1 m c s pr : at_nd m (c :: s) pr -> is_json_ws (b2n c) = true -> b2n c <> cLF ->
  at_nd m s true.
Proof.
  intros (pre & Hm & Hi & Hc & Hs & Hp) Hw Hn.
  exists (pre ++ [c]). rewrite app_length. cbn [length].
  split; [rewrite <- app_assoc; exact Hm|]. split; [lia|]. split; [exact Hc|]. split; [lia|].
  rewrite fold_ws_nd in Hp by assumption. replace (length pre + 1)%nat with (S (length pre)) by lia. exact Hp.
Qed.

(* fetching the next structural: its byte heads the remaining text *)
Lemma read_nd m pr b r pr2 :
  mwf msg m -> at_nd m (b :: r) pr ->
  (forall p, s1_fold true (OutS pr) p (b :: r) = consp p (s1_fold true (OutS pr2) (S p) r)) ->
  exists pre1 cb rb,
    msg = pre1 ++ b :: r /\
    let m1 := adv m (N.of_nat (S (length pre1))) (b :: r) cb rb in
    update_char m = UChar m1 (b2n b) /\ mwf msg m1 /\ at_nd m1 r pr2 /\
    length (pending m) = S (length (pending m1)) /\ idx1 m < idx1 m1.
Proof.
  intros Hwf (pre & Hm & Hi & Hc & Hs & Hp) Hfold.
  rewrite Hfold in Hp. cbn [consp snd] in Hp. rewrite incs_cons in Hp.
  destruct (update_char_pending m _ _ (wf_rb msg m Hwf) Hp) as (cb & rb & Hrest & Hrb & Hu).
  exists pre, cb, rb. split; [exact Hm|]. cbv zeta.
  set (d := (S (length pre) - N.to_nat (idx1 m))%nat) in *.
  assert (Hd : (1 <= d)%nat) by (unfold d; lia).
  assert (Hncur : (if idx1 m =? 0 then skipn (d - 1) (whole m) else skipn d (cur m)) = b :: r).
  { destruct (N.eqb_spec (idx1 m) 0) as [E0|E0].
    - rewrite (wf_whole msg m Hwf). replace (d - 1)%nat with (length pre) by (unfold d; lia).
      rewrite Hm at 1. rewrite skipn_app, Nat.sub_diag, skipn_all. reflexivity.
    - rewrite (Hc E0), skipn_skipn'.
      replace (N.to_nat (idx1 m) - 1 + d)%nat with (length pre) by (unfold d; lia).
      rewrite Hm at 1. rewrite skipn_app, Nat.sub_diag, skipn_all. reflexivity. }
  assert (Hi1 : idx1 m + N.of_nat d = N.of_nat (S (length pre))) by (unfold d; lia).
  assert (Hu' : update_char m = UChar (adv m (N.of_nat (S (length pre))) (b :: r) cb rb) (b2n b)).
  { rewrite Hu. cbv zeta. rewrite Hncur, Hi1.
    replace ((d =? 0)%nat) with false by lia. reflexivity. }
  split; [exact Hu'|]. split; [|split; [|split]].
  - destruct Hwf as [A B C D E]. constructor; msimpl; assumption.
  - exists (pre ++ [b]). msimpl. rewrite Nat2N.id, app_length. cbn [length].
    split; [rewrite <- app_assoc; exact Hm|]. split; [lia|].
    split.
    { intros _. replace (S (length pre) - 1)%nat with (length pre) by lia.
      rewrite Hm at 1. rewrite skipn_app, Nat.sub_diag, skipn_all. reflexivity. }
    split; [lia|].
    replace (length pre + 1)%nat with (S (length pre)) by lia.
    unfold pending. msimpl. exact Hrest.
  - unfold pending at 1. fold (pending m). rewrite Hp. unfold pending. msimpl. rewrite Hrest. reflexivity.
  - msimpl. lia.
Qed.

(* ------------------------------------------------------------------ *)
(* what stays put while the machine only moves over the text            *)

Definition same_core (m m' : m2) : Prop :=
  tape_rev m' = tape_rev m /\ tlen m' = tlen m /\ strs_rev m' = strs_rev m /\ stack m' = stack m.

Lemma same_core_refl m : same_core m m.
Proof. repeat split. Qed.

Lemma same_core_trans a b c : same_core a b -> same_core b c -> same_core a c.
Proof. intros (A1 & A2 & A3 & A4) (B1 & B2 & B3 & B4). repeat split; congruence. Qed.

Lemma same_core_adv m i c cb rb : same_core m (adv m i c cb rb).
Proof. repeat split. Qed.

(* --- the separator between two documents ---------------------------- *)
Lemma sep_run : forall w, allws w -> forall m l pr s,
  mwf msg m -> at_nd m (w ++ s) pr -> (l = L_startContinue \/ l = L_ndSkip) ->
  exists k m' pr',
    nsteps copy k l m (if lfb w then L_ndSkip else l) m' /\ mwf msg m' /\ at_nd m' s pr' /\
    same_core m m' /\ idx1 m + (if lfb w then 1 else 0) <= idx1 m'.
Proof.
  induction 1 as [|c w Hc Hw IH]; intros m l pr s Hwf Hat Hl.
  - exists 0%nat, m, pr. cbn [lfb existsb app] in *.
    split; [constructor|]. split; [exact Hwf|]. split; [exact Hat|]. split; [apply same_core_refl|lia].
  - cbn [app] in Hat. cbn [lfb existsb]. fold (lfb w).
    destruct (N.eqb_spec (b2n c) cLF) as [E|E]; cbn [orb].
    + (* an LF: one step *)
      destruct (read_nd m pr c (w ++ s) true Hwf Hat) as (pre1 & cb & rb & Hm1 & H).
      { intros p. apply fold_lf_nd. exact E. }
      cbv zeta in H. destruct H as (Hu & Hwf1 & Hat1 & Hpend & Hidx).
      set (m1 := adv m (N.of_nat (S (length pre1))) (c :: w ++ s) cb rb) in *.
      destruct (IH m1 L_ndSkip true s Hwf1 Hat1 (or_intror eq_refl)) as (k & m' & pr' & Hn & Hwf' & Hat' & Hsc & Hi').
      exists (S k), m', pr'.
      split.
      { econstructor; [|exact Hpend|].
        - rewrite (step_uchar copy l m m1 _ Hu). rewrite E.
          destruct Hl as [-> | ->]; reflexivity.
        - destruct (lfb w); exact Hn. }
      split; [exact Hwf'|]. split; [exact Hat'|].
      split; [eapply same_core_trans; [apply same_core_adv|exact Hsc]|].
      destruct (lfb w); lia.
    + (* another blank: no step *)
      apply at_nd_skip1 in Hat; [|exact Hc|exact E].
      apply (IH m l true s Hwf Hat Hl).
Qed.

(* --- one document, after its opening brace/bracket ------------------ *)

Lemma body_state b r0 d : good_doc (b :: r0) d -> N.of_nat (length (b :: r0)) < STRINGBUFBIT ->
  exists pr1, forall p, fst (s1_fold false (OutS true) p r0) = OutS pr1.
Proof.
  intros Hg Hl. destruct (good_doc_head _ _ Hg) as (b' & r0' & E & Hop). injection E as <- <-.
  destruct (good_doc_state (b :: r0) d true 0 false Hg Hl) as (pr1 & Hs).
  rewrite fold_markup in Hs by (apply opener_markup; exact Hop). cbn [consp fst] in Hs.
  exists pr1. intros p. rewrite <- Hs. apply s1_fold_fst_p.
Qed.

Lemma doc_body m b r0 d rest lb T0 st0 :
  mwf msg m -> at_nd m (r0 ++ rest) true -> tl_ok m 0 ->
  (exists pre0, msg = pre0 ++ b :: r0 ++ rest) ->
  good_doc (b :: r0) d -> ws_head rest ->
  ((b2n b = cLBRACE /\ lb = L_objBegin) \/ (b2n b = cLBRACK /\ lb = L_arrBegin)) ->
  tape_rev m = mk_word (b2n b) 0 :: T0 -> stack m = (N.of_nat (length T0) * 4 + retStart) :: st0 ->
  exists k m' ws ap pr',
    nsteps copy k lb m L_startContinue m' /\ mwf msg m' /\ at_nd m' rest pr' /\ tl_ok m' 1 /\
    tape_rev m' = rev ws ++ T0 /\ strs_rev m' = rev ap ++ strs_rev m /\ stack m' = st0 /\
    gv msg (rev (strs_rev m')) (N.of_nat (length T0)) ws d.
Proof.
  intros Hwf Hat Htl (pre0 & Hm0) Hg Hrest Hcase Htape Hst.
  destruct Hat as (pre & Hm & Hi & Hc & Hs & Hp).
  assert (Hlt : N.of_nat (length (b :: r0)) < STRINGBUFBIT).
  { pose proof Hlen as Hl. rewrite Hm0 in Hl. rewrite app_length in Hl. cbn [length] in *. rewrite app_length in Hl. lia. }
  destruct (body_state b r0 d Hg Hlt) as (pr1 & Hst1).
  assert (Hnl : nolf r0).
  { destruct Hg as (Hnl & _). inversion Hnl; assumption. }
  set (i := N.to_nat (idx1 m)) in *.
  set (A := snd (s1_fold false (OutS true) (length pre) r0)).
  set (X := snd (s1_fold false (OutS pr1) (length pre + length r0) rest)).
  set (Y := snd (s1_fold true (OutS pr1) (length pre + length r0) rest)).
  assert (EX : snd (s1_fold false (OutS true) (length pre) (r0 ++ rest)) = A ++ X).
  { rewrite s1_fold_app. cbn [snd]. rewrite Hst1. reflexivity. }
  assert (EY : snd (s1_fold true (OutS true) (length pre) (r0 ++ rest)) = A ++ Y).
  { rewrite s1_fold_app. cbn [snd]. rewrite (s1_fold_nolf r0) by exact Hnl. rewrite Hst1. reflexivity. }
  rewrite EY in Hp.
  set (stF := fst (s1_fold false (OutS true) (length pre) (r0 ++ rest))).
  set (mv := setb m (incs i (A ++ X)) []).
  assert (Hwfv : mwf msg mv).
  { destruct Hwf as [W1 W2 W3 W4 W5]. constructor; try assumption. constructor. }
  assert (Hatv : at_text msg stF mv (r0 ++ rest) true).
  { exists pre. split; [exact Hm|]. split; [exact Hi|]. split; [exact Hc|]. split; [exact Hs|]. split; [reflexivity|].
    unfold mv. rewrite pending_setb. cbn [concat]. rewrite app_nil_r, EX. reflexivity. }
  assert (Htlv : tl_ok mv 0) by exact Htl.
  (* what the virtual run gives, transferred to the real machine *)
  assert (Hfin : forall k mv' ws ap pr',
    nsteps copy k lb mv L_startContinue mv' -> mwf msg mv' -> at_text msg stF mv' rest pr' -> tl_ok mv' 1 ->
    tape_rev mv' = rev ws ++ T0 -> strs_rev mv' = rev ap ++ strs_rev mv -> stack mv' = st0 ->
    gv msg (rev (strs_rev mv')) (N.of_nat (length T0)) ws d ->
    exists k m' ws ap pr',
      nsteps copy k lb m L_startContinue m' /\ mwf msg m' /\ at_nd m' rest pr' /\ tl_ok m' 1 /\
      tape_rev m' = rev ws ++ T0 /\ strs_rev m' = rev ap ++ strs_rev m /\ stack m' = st0 /\
      gv msg (rev (strs_rev m')) (N.of_nat (length T0)) ws d).
  { intros k mv' ws ap pr' Hn Hwf' Hat' Htl' Htape' Hstrs' Hst' Hgv.
    destruct Hat' as (pre2 & Hm2 & Hi2 & Hc2 & Hs2 & Hf2 & Hp2).
    assert (Lpre2 : length pre2 = (length pre + length r0)%nat).
    { pose proof (f_equal (@length byte) Hm2) as L2. pose proof (f_equal (@length byte) Hm) as L1.
      rewrite !app_length in L1. rewrite !app_length in L2. lia. }
    rewrite Lpre2 in Hp2. rewrite (fold_false_ws_head rest pr' pr1 _ Hrest) in Hp2. fold X in Hp2.
    assert (Hk : k = length A).
    { pose proof (nsteps_pending copy _ _ _ _ _ Hn) as Hk. rewrite Hp2 in Hk.
      unfold mv in Hk. rewrite pending_setb in Hk. cbn [concat] in Hk.
      rewrite app_nil_r, !incs_length, app_length in Hk. lia. }
    assert (Hsort : sorted_from i A).
    { unfold A. apply fold_sorted. lia. }
    destruct (nsteps_transfer copy k lb mv L_startContinue mv' Hn A X Y (cbuf m) (rbufs m)
                (eq_sym Hk) Hsort (Forall_nil _) (wf_rb msg m Hwf))
      as (cb1 & rb1 & Hn1 & Hne1 & HP1 & HP1').
    { unfold mv. rewrite pending_setb. cbn [concat]. apply app_nil_r. }
    { exact Hp. }
    change (setb mv (cbuf m) (rbufs m)) with (setb m (cbuf m) (rbufs m)) in Hn1. rewrite setb_id in Hn1.
    exists k, (setb mv' cb1 rb1), ws, ap, pr1.
    split; [exact Hn1|].
    split. { destruct Hwf' as [W1 W2 W3 W4 W5]. constructor; assumption. }
    split.
    { exists pre2. split; [exact Hm2|]. split; [exact Hi2|]. split; [exact Hc2|]. split; [exact Hs2|].
      rewrite pending_setb, Lpre2. exact HP1'. }
    split; [exact Htl'|]. split; [exact Htape'|]. split; [exact Hstrs'|]. split; [exact Hst'|exact Hgv]. }
  (* the specification on the rest of the message *)
  destruct Hg as (_ & Hv & Hcd & _).
  pose proof (spec_value_ext _ _ _ rest Hv Hcd) as Hvx.
  remember (2 * length (b :: r0) + 2)%nat as f0 eqn:Ef0.
  destruct f0 as [|f]; [discriminate Hvx|].
  rewrite spec_value_S in Hvx.
  assert (Hbws : is_json_ws (b2n b) = false).
  { destruct Hcase as [(-> & _)|(-> & _)]; reflexivity. }
  change ((b :: r0) ++ rest) with (b :: r0 ++ rest) in Hvx.
  rewrite skip_ws_nonws in Hvx by exact Hbws. cbv zeta in Hvx.
  destruct (sim_all copy msg Hlen stF f) as (_ & HE & HM).
  destruct Hcase as [(Eb & ->)|(Eb & ->)].
  - rewrite Eb in Hvx. change (cLBRACE =? cLBRACE) with true in Hvx. cbv iota in Hvx.
    rewrite Eb in Htape.
    destruct (obj_sim copy msg Hlen stF f HM (r0 ++ rest) d rest mv retStart T0 st0 Hvx Hwfv Hatv Htlv eq_refl Htape Hst)
      as (k & mv' & ws & ap & pr' & Hn & Hwf' & Hat' & Htl' & Htape' & Hstrs' & Hst' & Hgv & _ & _).
    exact (Hfin k mv' ws ap pr' Hn Hwf' Hat' Htl' Htape' Hstrs' Hst' Hgv).
  - rewrite Eb in Hvx. change (cLBRACK =? cLBRACE) with false in Hvx. change (cLBRACK =? cLBRACK) with true in Hvx.
    cbv iota in Hvx. rewrite Eb in Htape.
    destruct (arr_sim copy msg Hlen stF f HE (r0 ++ rest) d rest mv retStart T0 st0 Hvx Hwfv Hatv Htlv eq_refl Htape Hst)
      as (k & mv' & ws & ap & pr' & Hn & Hwf' & Hat' & Htl' & Htape' & Hstrs' & Hst' & Hgv & _ & _).
    exact (Hfin k mv' ws ap pr' Hn Hwf' Hat' Htl' Htape' Hstrs' Hst' Hgv).
Qed.

(* --- opening a document --------------------------------------------- *)

Lemma at_nd_upd m m' r pr :
  at_nd m r pr -> idx1 m' = idx1 m -> cur m' = cur m -> pending m' = pending m -> slen m' = slen m ->
  at_nd m' r pr.
Proof.
  intros (pre & Hm & Hi & Hc & Hs & Hp) E1 E2 E3 E4.
  exists pre. rewrite E1, E2, E3, E4. repeat split; assumption.
Qed.

Definition open_case (b : byte) (lb : label) : Prop :=
  (b2n b = cLBRACE /\ lb = L_objBegin) \/ (b2n b = cLBRACK /\ lb = L_arrBegin).

Lemma opener_case b : opener b -> exists lb, open_case b lb.
Proof. intros [H|H]; [exists L_objBegin; left|exists L_arrBegin; right]; split; auto. Qed.

Lemma continue_root_open m b lb : open_case b lb ->
  continue_root m (b2n b) = Next lb (write_tape (push_scope m retStart) 0 (b2n b)).
Proof. intros [(-> & ->)|(-> & ->)]; reflexivity. Qed.

(* the first document *)
Lemma open_first m b r pr :
  mwf msg m -> at_nd m (b :: r) pr -> tl_ok m 0 -> opener b ->
  exists m2 lb, nsteps copy 1 L_start m lb m2 /\ mwf msg m2 /\ at_nd m2 r true /\ tl_ok m2 1 /\
    open_case b lb /\
    tape_rev m2 = mk_word (b2n b) 0 :: tape_rev m /\ strs_rev m2 = strs_rev m /\
    stack m2 = (tlen m * 4 + retStart) :: stack m /\ (exists pre0, msg = pre0 ++ b :: r).
Proof.
  intros Hwf Hat Htl Hop.
  destruct (opener_case b Hop) as (lb & Hcase).
  destruct (read_nd m pr b r true Hwf Hat) as (pre1 & cb & rb & Hm1 & H).
  { intros p. apply fold_markup_nd. apply opener_markup. exact Hop. }
  cbv zeta in H. destruct H as (Hu & Hwf1 & Hat1 & Hpend & Hidx).
  set (m1 := adv m (N.of_nat (S (length pre1))) (b :: r) cb rb) in *.
  exists (write_tape (push_scope m1 retStart) 0 (b2n b)), lb.
  split.
  { apply nsteps_one; [|rewrite Hpend; reflexivity].
    rewrite (step_uchar copy L_start m m1 _ Hu). apply continue_root_open. exact Hcase. }
  split.
  { destruct Hwf1 as [A B C D E]. constructor; msimpl; try assumption. cbn [length]. rewrite C. lia. }
  split; [apply (at_nd_upd m1); [exact Hat1|reflexivity..]|].
  split; [unfold tl_ok in *; unfold m1 in Hidx |- *; msimpl_in Hidx; msimpl; lia|].
  split; [exact Hcase|]. split; [reflexivity|]. split; [reflexivity|]. split; [reflexivity|].
  exists pre1. exact Hm1.
Qed.

(* a later document: the previous root is closed in the same step *)
Lemma open_next m b r pr D ws :
  mwf msg m -> at_nd m (b :: r) pr -> tl_ok m 3 -> opener b ->
  stack m = [N.of_nat (length D) * 4 + retStart] ->
  tape_rev m = rev ws ++ mk_word TagRoot 0 :: rev D ->
  exists m2 lb, nsteps copy 1 L_ndSkip m lb m2 /\ mwf msg m2 /\ at_nd m2 r true /\ tl_ok m2 1 /\
    open_case b lb /\
    tape_rev m2 = mk_word (b2n b) 0 :: mk_word TagRoot 0 :: rev (D ++ root_words (N.of_nat (length D)) ws) /\
    strs_rev m2 = strs_rev m /\
    stack m2 = [(N.of_nat (length D) + N.of_nat (length ws) + 3) * 4 + retStart;
                (N.of_nat (length D) + N.of_nat (length ws) + 2) * 4 + retStart] /\
    (exists pre0, msg = pre0 ++ b :: r).
Proof.
  intros Hwf Hat Htl Hop Hst Htape.
  destruct (opener_case b Hop) as (lb & Hcase).
  pose proof (at_nd_idx _ _ _ Hat) as Hidx0.
  destruct (read_nd m pr b r true Hwf Hat) as (pre1 & cb & rb & Hm1 & H).
  { intros p. apply fold_markup_nd. apply opener_markup. exact Hop. }
  cbv zeta in H. destruct H as (Hu & Hwf1 & Hat1 & Hpend & Hidx).
  set (m1 := adv m (N.of_nat (S (length pre1))) (b :: r) cb rb) in *.
  assert (Htlen : tlen m = N.of_nat (length D) + N.of_nat (length ws) + 1).
  { rewrite (wf_tlen msg m Hwf), Htape, app_length. cbn [length]. rewrite !rev_length. lia. }
  assert (Hb : tlen m1 + 1 < two56).
  { unfold tl_ok in Htl. rewrite two56_val. unfold m1. msimpl. lia. }
  assert (Hcr := cycle_root_ok m1 D ws Hst Htape (wf_tlen msg m1 Hwf1) Hb).
  set (mc := write_tape (push_scope (write_tape (set_tape (set_stack m1 [])
        (rev ws ++ mk_word TagRoot (tlen m1 + 1) :: rev D)) (N.of_nat (length D)) TagRoot) retStart) 0 TagRoot) in *.
  exists (write_tape (push_scope mc retStart) 0 (b2n b)), lb.
  assert (Hnlf : (b2n b =? cLF) = false) by (destruct Hop as [-> | ->]; reflexivity).
  split.
  { apply nsteps_one; [|rewrite Hpend; reflexivity].
    rewrite (step_uchar copy L_ndSkip m m1 _ Hu). rewrite Hnlf, Hcr. apply continue_root_open. exact Hcase. }
  split.
  { destruct Hwf1 as [A B C E F]. constructor; unfold mc; msimpl; try assumption.
    cbn [length]. rewrite app_length. cbn [length]. rewrite !rev_length. unfold m1. msimpl. lia. }
  split; [apply (at_nd_upd m1); [exact Hat1|reflexivity..]|].
  split; [unfold tl_ok in *; unfold mc; unfold m1 in Hidx |- *; msimpl_in Hidx; msimpl; lia|].
  split; [exact Hcase|].
  split.
  { unfold mc. msimpl. unfold root_words. rewrite rev_app_distr, rev_container.
    unfold m1. msimpl. rewrite Htlen. cbn [app]. rewrite <- app_assoc. cbn [app].
    repeat first [lia | reflexivity | progress f_equal]. }
  split; [reflexivity|].
  split.
  { unfold mc. msimpl. unfold m1. msimpl. rewrite Htlen. repeat first [lia | reflexivity | progress f_equal]. }
  exists pre1. exact Hm1.
Qed.

(* ------------------------------------------------------------------ *)
(* the loop over the documents                                          *)

(* the machine is in state startContinue after a document whose words [ws]
   follow the open root word; [l] holds the closed roots *)
Definition Inv (m : m2) (l : list (list N * doc)) (ws : list N) (d : doc) (s : bytes) (pr : bool) : Prop :=
  mwf msg m /\ at_nd m s pr /\ tl_ok m 1 /\
  tape_rev m = rev ws ++ mk_word TagRoot 0 :: rev (roots_tape 0 l) /\
  stack m = [N.of_nat (length (roots_tape 0 l)) * 4 + retStart] /\
  gv msg (rev (strs_rev m)) (N.of_nat (length (roots_tape 0 l)) + 1) ws d /\
  roots_gv msg (rev (strs_rev m)) 0 l.

Definition sep_cond (w : bytes) (items : list item) : Prop :=
  allws w /\ match items with [] => w = [] | _ :: _ => lfb w = true end.

Lemma item_sep i r : item_ok i -> seps_ok (i :: r) -> sep_cond (it_w i) r /\ seps_ok r.
Proof.
  intros [_ Hw] [H1 H2]. split; [|exact H2]. split; [exact Hw|].
  destruct r; [exact H1|apply has_lf_lfb; exact H1].
Qed.

Lemma sep_ws_head w items : sep_cond w items -> ws_head (w ++ flat items).
Proof.
  intros [Hw Hc]. destruct w as [|c w'].
  - destruct items; [exact I|]. cbn in Hc. discriminate.
  - inversion Hw; assumption.
Qed.

Lemma tail_run : forall items w, Forall item_ok items -> seps_ok items -> sep_cond w items ->
  forall m l ws d pr, Inv m l ws d (w ++ flat items) pr ->
  exists k m' l' ws' d' pr',
    nsteps copy k L_startContinue m L_startContinue m' /\ Inv m' l' ws' d' [] pr' /\
    map snd (l' ++ [(ws', d')]) = map snd (l ++ [(ws, d)]) ++ map it_d items.
Proof.
  induction items as [|i r IH]; intros w Hok Hsep Hsc m l ws d pr HInv.
  - destruct Hsc as [_ ->]. cbn [app flat] in HInv.
    exists 0%nat, m, l, ws, d, pr. split; [constructor|]. split; [exact HInv|].
    cbn [map]. rewrite app_nil_r. reflexivity.
  - destruct Hsc as [Hw Hlf].
    destruct HInv as (Hwf & Hat & Htl & Htape & Hst & Hgv & Hrg).
    inversion Hok as [|? ? Hi Hr]; subst.
    destruct (item_sep i r Hi Hsep) as [Hsc Hsep'].
    destruct Hi as [Hg Hwi].
    destruct (good_doc_head _ _ Hg) as (b & r0 & Et & Hop).
    rewrite Et in Hg.
    set (rest := it_w i ++ flat r) in *.
    assert (Eflat : flat (i :: r) = b :: r0 ++ rest).
    { cbn [flat]. rewrite Et. reflexivity. }
    rewrite Eflat in Hat.
    destruct (sep_run w Hw m L_startContinue pr _ Hwf Hat (or_introl eq_refl))
      as (k1 & m1 & pr1 & Hn1 & Hwf1 & Hat1 & (Sc1 & Sc2 & Sc3 & Sc4) & Hi1).
    rewrite Hlf in Hn1, Hi1.
    assert (Htl1 : tl_ok m1 3). { unfold tl_ok in *. rewrite Sc2. lia. }
    pose proof (at_nd_idx _ _ _ Hat1) as Hidx1.
    assert (Htlen1 : tlen m1 = N.of_nat (length (roots_tape 0 l)) + N.of_nat (length ws) + 1).
    { rewrite (wf_tlen msg m1 Hwf1), Sc1, Htape, app_length. cbn [length]. rewrite !rev_length. lia. }
    rewrite <- Sc4 in Hst. rewrite <- Sc1 in Htape.
    destruct (open_next m1 b (r0 ++ rest) pr1 (roots_tape 0 l) ws Hwf1 Hat1 Htl1 Hop Hst Htape)
      as (m2 & lb & Hn2 & Hwf2 & Hat2 & Htl2 & Hcase & Htape2 & Hstrs2 & Hst2 & Hpre0).
    set (D' := roots_tape 0 l ++ root_words (N.of_nat (length (roots_tape 0 l))) ws) in *.
    set (T0 := mk_word TagRoot 0 :: rev D').
    assert (LD' : N.of_nat (length D') = N.of_nat (length (roots_tape 0 l)) + N.of_nat (length ws) + 2).
    { unfold D'. rewrite app_length, root_words_length. lia. }
    assert (LT0 : N.of_nat (length T0) = N.of_nat (length D') + 1).
    { unfold T0. cbn [length]. rewrite rev_length. lia. }
    assert (Hst2' : stack m2 = (N.of_nat (length T0) * 4 + retStart) :: [N.of_nat (length D') * 4 + retStart]).
    { rewrite Hst2, LT0, LD'. repeat first [lia | reflexivity | progress f_equal]. }
    destruct (doc_body m2 b r0 (it_d i) rest lb T0 _ Hwf2 Hat2 (tl_weaken10 m2 Htl2) Hpre0 Hg
                (sep_ws_head _ _ Hsc) Hcase Htape2 Hst2')
      as (k3 & m3 & ws1 & ap & pr3 & Hn3 & Hwf3 & Hat3 & Htl3 & Htape3 & Hstrs3 & Hst3 & Hgv3).
    assert (ED : roots_tape 0 (l ++ [(ws, d)]) = D').
    { rewrite roots_tape_app, N.add_0_l. reflexivity. }
    assert (HInv3 : Inv m3 (l ++ [(ws, d)]) ws1 (it_d i) rest pr3).
    { split; [exact Hwf3|]. split; [exact Hat3|]. split; [exact Htl3|].
      rewrite ED. split; [exact Htape3|]. split; [exact Hst3|].
      split; [rewrite <- LT0; exact Hgv3|].
      rewrite Hstrs3, rev_app_distr, rev_involutive. apply roots_gv_mono.
      rewrite Hstrs2, Sc3. apply roots_gv_app; [exact Hrg|rewrite N.add_0_l; exact Hgv|].
      unfold tl_ok in Htl1. rewrite two56_val. lia. }
    destruct (IH (it_w i) Hr Hsep' Hsc m3 (l ++ [(ws, d)]) ws1 (it_d i) pr3 HInv3)
      as (k4 & m' & l' & ws' & d' & pr' & Hn4 & HInv' & Hmap).
    exists (k1 + (1 + (k3 + k4)))%nat, m', l', ws', d', pr'.
    split.
    { eapply nsteps_trans; [exact Hn1|]. eapply nsteps_trans; [exact Hn2|].
      eapply nsteps_trans; [exact Hn3|exact Hn4]. }
    split; [exact HInv'|].
    rewrite Hmap, !map_app. cbn [map snd]. rewrite <- !app_assoc. reflexivity.
Qed.

(* ------------------------------------------------------------------ *)
(* stage 2 on a message in normal form                                  *)

Theorem stage2_nd items bufs :
  items <> [] -> Forall item_ok items -> seps_ok items -> msg = flat items ->
  concat bufs = incs 0 (snd (s1_fold true s1_init 0 msg)) -> noempty bufs ->
  exists m, run2 copy msg bufs = Ok m /\
            denote msg (final_strings m) (final_tape m) = Some (map it_d items).
Proof.
  intros Hne Hok Hsep Emsg Hcat Hnb.
  destruct items as [|i r]; [congruence|].
  inversion Hok as [|? ? Hi Hr]; subst x l.
  destruct (item_sep i r Hi Hsep) as [Hsc Hsep'].
  destruct Hi as [Hg Hwi].
  destruct (good_doc_head _ _ Hg) as (b & r0 & Et & Hop).
  rewrite Et in Hg.
  set (rest := it_w i ++ flat r) in *.
  assert (Eflat : msg = b :: r0 ++ rest).
  { rewrite Emsg. cbn [flat]. rewrite Et. reflexivity. }
  set (m0 := write_tape (push_scope (m2_init msg bufs) retStart) 0 TagRoot).
  assert (Hwf0 : mwf msg m0) by (constructor; try reflexivity; exact Hnb).
  assert (Hat0 : at_nd m0 (b :: r0 ++ rest) true).
  { exists []. cbn [app length]. split; [exact Eflat|]. split; [cbn; lia|].
    split; [intros H; exfalso; apply H; reflexivity|]. split; [cbn; lia|].
    rewrite <- Eflat. exact Hcat. }
  assert (Htl0 : tl_ok m0 0) by (unfold tl_ok; cbn; lia).
  destruct (open_first m0 b (r0 ++ rest) true Hwf0 Hat0 Htl0 Hop)
    as (m2 & lb & Hn2 & Hwf2 & Hat2 & Htl2 & Hcase & Htape2 & Hstrs2 & Hst2 & Hpre0).
  destruct (doc_body m2 b r0 (it_d i) rest lb [mk_word TagRoot 0] [0 * 4 + retStart] Hwf2 Hat2
              (tl_weaken10 m2 Htl2) Hpre0 Hg (sep_ws_head _ _ Hsc) Hcase Htape2 Hst2)
    as (k3 & m3 & ws1 & ap & pr3 & Hn3 & Hwf3 & Hat3 & Htl3 & Htape3 & Hstrs3 & Hst3 & Hgv3).
  assert (HInv3 : Inv m3 [] ws1 (it_d i) rest pr3).
  { split; [exact Hwf3|]. split; [exact Hat3|]. split; [exact Htl3|].
    split; [exact Htape3|]. split; [exact Hst3|]. split; [exact Hgv3|exact I]. }
  destruct (tail_run r (it_w i) Hr Hsep' Hsc m3 [] ws1 (it_d i) pr3 HInv3)
    as (k4 & m' & l' & ws' & d' & pr' & Hn4 & HInv' & Hmap).
  destruct HInv' as (Hwf' & Hat' & Htl' & Htape' & Hst' & Hgv' & Hrg').
  assert (Hn : nsteps copy (1 + (k3 + k4)) L_start m0 L_startContinue m').
  { eapply nsteps_trans; [exact Hn2|]. eapply nsteps_trans; [exact Hn3|exact Hn4]. }
  pose proof (at_nd_idx _ _ _ Hat') as Hidx'.
  destruct Hat' as (pre & _ & _ & _ & _ & Hpend'). cbn [s1_fold snd] in Hpend'. rewrite incs_nil in Hpend'.
  pose proof (nsteps_pending copy _ _ _ _ _ Hn) as Hk. rewrite Hpend' in Hk. cbn [length] in Hk.
  assert (Hn0 : fold_left (fun a b => (a + length b)%nat) bufs 0%nat = (1 + (k3 + k4))%nat).
  { rewrite fold_left_len. change (pending m0) with (concat bufs) in Hk. lia. }
  assert (Hrun : run2 copy msg bufs = finish m').
  { unfold run2. cbv zeta. fold m0. rewrite Hn0.
    replace (S (S (1 + (k3 + k4)))) with ((1 + (k3 + k4)) + 2)%nat by lia.
    rewrite (nsteps_run copy _ _ _ _ _ Hn 2%nat). cbn [run_labels].
    unfold step. rewrite (update_char_done m' (wf_rb _ _ Hwf') Hpend'). reflexivity. }
  set (D := roots_tape 0 l') in *.
  assert (Htlen : tlen m' = N.of_nat (length D) + N.of_nat (length ws') + 1).
  { rewrite (wf_tlen msg m' Hwf'), Htape', app_length. cbn [length]. rewrite !rev_length. lia. }
  assert (Hb : tlen m' + 1 < two56).
  { unfold tl_ok in Htl'. rewrite two56_val. lia. }
  pose proof (finish_ok m' D ws' Hst' Htape' (wf_tlen msg m' Hwf') Hb) as Hfin.
  eexists. split; [rewrite Hrun; exact Hfin|].
  unfold final_strings, final_tape. msimpl.
  assert (Etape : rev (mk_word TagRoot (N.of_nat (length D)) :: rev ws' ++ mk_word TagRoot (tlen m' + 1) :: rev D)
                  = roots_tape 0 (l' ++ [(ws', d')])).
  { rewrite roots_tape_app, N.add_0_l. fold D. unfold root_words.
    cbn [rev]. rewrite rev_app_distr. cbn [rev]. rewrite !rev_involutive, Htlen.
    rewrite <- !app_assoc. cbn [app].
    repeat first [lia | reflexivity | progress f_equal]. }
  rewrite Etape.
  rewrite denote_roots.
  - rewrite Hmap. reflexivity.
  - destruct l'; discriminate.
  - apply roots_gv_app; [exact Hrg'|rewrite N.add_0_l; exact Hgv'|]. fold D. lia.
Qed.

End NdSim.

(* ------------------------------------------------------------------ *)
(* the main theorem                                                    *)

Theorem parsend_accepts_valid : forall copy bs ds, N.of_nat (length bs) < 2^55 ->
  nd_spec bs = SOk ds ->
  exists p, parsend_model copy bs = Ok p /\ denote (p_msg p) (p_strings p) (p_tape p) = Some ds.
Proof.
  intros copy bs ds Hlen Hspec.
  destruct (nd_spec_msg bs ds Hspec) as (items & Etrim & Hok & Hsep & Hne & Hds & Hl).
  set (msg := flat items) in *.
  assert (Hlt : N.of_nat (length msg) < STRINGBUFBIT).
  { change STRINGBUFBIT with (2 ^ 55). lia. }
  destruct (nd_stage1 items Hne Hok Hsep Hlt) as (Hokv & Hcat & Hnb). fold msg in Hokv, Hcat, Hnb.
  destruct (stage2_nd copy msg Hlt items (bufs_incs 0 (o_bufs (s1_buffers true msg))) Hne Hok Hsep eq_refl)
    as (m & Hrun & Hden).
  - rewrite bufs_incs_concat, Hcat. reflexivity.
  - apply bufs_incs_noempty. exact Hnb.
  - unfold parsend_model, parse_message. rewrite Etrim. fold msg. rewrite Hrun, Hokv.
    eexists. split; [reflexivity|]. cbn [p_msg p_strings p_tape]. rewrite Hds. exact Hden.
Qed.

(* ------------------------------------------------------------------ *)
(* examples exercising the conclusion                                  *)

From SJ Require Import Model.Oracle.
Import String.StringSyntax.
Open Scope string_scope.

Definition nd_accepts_and_denotes (copy : bool) (bs : bytes) : bool :=
  match nd_spec bs, parsend_model copy bs with
  | SOk ds, Ok p =>
    match denote (p_msg p) (p_strings p) (p_tape p) with
    | Some ds' => bytes_eqb (show_docs ds) (show_docs ds') && (length ds =? length ds')%nat
    | None => false
    end
  | _, _ => false
  end.

Definition nl : bytes := [x0a].
Definition crlf : bytes := [x0d; x0a].

(* leading blank lines, CRLF line ends, blank lines between documents, an
   escaped string, spaces and tabs around the texts, trailing blank lines *)
Definition ex_nd : bytes :=
  nl ++ lit "  " ++ crlf ++
  lit "{""a"": [1, -2.5e3, ""x\tyé😀""], ""b"": {}}" ++ crlf ++
  crlf ++ lit " 	 " ++ nl ++
  lit "  [true, null, [], {""k"":""plain""}]  " ++ nl ++
  lit " " ++ nl ++
  lit "{""k"":{""z"":[18446744073709551615]}}" ++ lit " " ++ crlf ++ nl ++ lit "  ".

Example ex_nd_spec : match nd_spec ex_nd with SOk ds => length ds | _ => O end = 3%nat.
Proof. vm_compute. reflexivity. Qed.
Example ex_nd_accept_copy : nd_accepts_and_denotes true ex_nd = true.
Proof. vm_compute. reflexivity. Qed.
Example ex_nd_accept_nocopy : nd_accepts_and_denotes false ex_nd = true.
Proof. vm_compute. reflexivity. Qed.

(* a single document without any line end, and two documents on adjacent lines *)
Example ex_nd_single : nd_accepts_and_denotes true (lit "{""a"":1}") = true.
Proof. vm_compute. reflexivity. Qed.
Example ex_nd_two : nd_accepts_and_denotes false (lit "[1]" ++ nl ++ lit "[2]") = true.
Proof. vm_compute. reflexivity. Qed.

(* outside the hypothesis: a line whose edge byte makes spec_parse answer SOut *)
Example ex_nd_out : nd_spec (lit "[1]" ++ nl ++ [x0b] ++ lit "[2]") = SOut.
Proof. vm_compute. reflexivity. Qed.
(* no document at all *)
Example ex_nd_none : nd_spec (nl ++ lit "  " ++ crlf) = SInvalid.
Proof. vm_compute. reflexivity. Qed.

Print Assumptions parsend_accepts_valid.
