(* MarshalProofsSpecOk.v — property C10: every document the specification
   reads from a text satisfies the side conditions of the marshal theorems
   (doc_okb): its strings are well-formed UTF-8 (escapes are decoded to
   well-formed sequences, raw sequences are validated), its integers fit
   their Go type and its floats are finite 64-bit patterns.  Hence for a
   freshly parsed document the round-trip theorems need no hypothesis on the
   document at all. *)
From Coq Require Import ZArith NArith List Bool Lia ZifyBool ZifyN ZifyNat.
From Coq.Strings Require Import Byte.
From Coq Require Import Floats.SpecFloat.
From Flocq Require Import Core Digits.
From SJ Require Import Model.Base Model.RefTables Spec.Json Model.Number Model.Iter Model.FloatFmt.
From SJ Require Import Proofs.NumLex Proofs.NumberProofs Proofs.NumberFinal Proofs.StrArith Proofs.StrProofs
     Proofs.SerBase Proofs.EscapeProofs Proofs.NumBits Proofs.FloatFmtBits Proofs.FloatFmtReal
     Proofs.FloatFmtProofs Proofs.NdSpec.
From SJ Require Import Model.Marshal Proofs.MarshalProofsBase Proofs.MarshalProofsNum Proofs.MarshalProofsText.
Import ListNotations.
Local Open Scope N_scope.

Ltac Zify.zify_post_hook ::= Z.div_mod_to_equations.

(* ------------------------------------------------------------------ *)
(* well-formed UTF-8, compositionally                                    *)

Inductive wf8 : bytes -> Prop :=
| wf8_nil : wf8 []
| wf8_ascii b s : b2n b < 128 -> wf8 s -> wf8 (b :: s)
| wf8_seq u s n : utf8_seq_len u = Some n -> length u = n -> wf8 s -> wf8 (u ++ s).

Lemma wf8_app a b : wf8 a -> wf8 b -> wf8 (a ++ b).
Proof.
  induction 1 as [|c s Hc Hs IH|u s n Hu Hl Hs IH]; intros Hb; [exact Hb| |].
  - cbn [app]. constructor; auto.
  - rewrite <- app_assoc. econstructor; eauto.
Qed.

Lemma wf8_ok_aux s : wf8 s -> forall g, (length s <= g)%nat -> utf8_ok_aux g s = true.
Proof.
  induction 1 as [|c s Hc Hs IH|u s n Hu Hl Hs IH]; intros g Hg.
  - destruct g; reflexivity.
  - destruct g as [|g]; [cbn [length] in Hg; lia|]. cbn [utf8_ok_aux].
    replace (b2n c <? 128) with true by lia. apply IH. cbn [length] in Hg. lia.
  - pose proof (utf8_seq_len_ge2 _ _ Hu) as Hn2.
    destruct (utf8_seq_len_lit _ _ Hu) as [_ Hall].
    destruct u as [|b u']; [cbn [length] in Hl; lia|].
    rewrite <- Hl in Hall. rewrite firstn_all in Hall. inversion Hall as [|? ? Hb _]; subst.
    rewrite app_length in Hg.
    destruct g as [|g]; [cbn [length] in Hg; lia|].
    cbn [app utf8_ok_aux]. replace (b2n b <? 128) with false by lia.
    change (b :: u' ++ s) with ((b :: u') ++ s).
    rewrite (utf8_seq_len_app _ s _ Hu).
    rewrite skipn_app, skipn_all, Nat.sub_diag. cbn [skipn app].
    apply IH. cbn [length] in *. lia.
Qed.

Theorem wf8_utf8_ok s : wf8 s -> utf8_ok s = true.
Proof. intros H. apply (wf8_ok_aux s H). lia. Qed.

Lemma wf8_one b : b2n b < 128 -> wf8 [b].
Proof. intros H. constructor; [exact H|constructor]. Qed.

Lemma wf8_raw s n : utf8_seq_len s = Some n -> wf8 (firstn n s).
Proof.
  intros H. destruct (utf8_seq_len_lit _ _ H) as [Hn _].
  rewrite <- (app_nil_r (firstn n s)). apply (wf8_seq _ [] n).
  - pose proof (utf8_seq_len_local s n [] H) as L. rewrite app_nil_r in L. exact L.
  - apply firstn_length_le. exact Hn.
  - constructor.
Qed.

Ltac decide_ifs :=
  repeat match goal with
  | |- context [if ?c then _ else _] =>
    first [replace c with true by lia | replace c with false by lia]; cbv iota
  end.

(* the encoder produces well-formed sequences for every scalar value *)
Lemma utf8_spec_wf cp : cp < 1114112 -> ~ (55296 <= cp <= 57343) -> wf8 (utf8_spec cp).
Proof.
  intros Hmax Hsur. unfold utf8_spec.
  destruct (N.ltb_spec cp 128) as [H1|H1].
  { apply wf8_one. rewrite b2n_n2b_small by lia. exact H1. }
  destruct (N.ltb_spec cp 2048) as [H2|H2].
  { rewrite <- (app_nil_r [_; _]). apply (wf8_seq _ [] 2%nat); [|reflexivity|constructor].
    unfold utf8_seq_len, is_cont. cbv zeta. rewrite !b2n_n2b_small by lia. decide_ifs. reflexivity. }
  destruct (N.ltb_spec cp 65536) as [H3|H3].
  { rewrite <- (app_nil_r [_; _; _]). apply (wf8_seq _ [] 3%nat); [|reflexivity|constructor].
    unfold utf8_seq_len, is_cont. cbv zeta. rewrite !b2n_n2b_small by lia.
    assert (C : cp / 4096 = 0 \/ (1 <= cp / 4096 <= 12) \/ cp / 4096 = 13 \/ (14 <= cp / 4096 <= 15)) by lia.
    destruct C as [C|[C|[C|C]]]; decide_ifs; reflexivity. }
  rewrite <- (app_nil_r [_; _; _; _]). apply (wf8_seq _ [] 4%nat); [|reflexivity|constructor].
  unfold utf8_seq_len, is_cont. cbv zeta. rewrite !b2n_n2b_small by lia.
  assert (C : cp / 262144 = 0 \/ (1 <= cp / 262144 <= 3) \/ cp / 262144 = 4) by lia.
  destruct C as [C|[C|C]]; decide_ifs; reflexivity.
Qed.

Lemma hexval_lt c v : hexval c = Some v -> v < 16.
Proof.
  unfold hexval, is_digit, c0, c9. intros H.
  destruct ((48 <=? c) && (c <=? 57)) eqn:E1; [injection H as <-; lia|].
  destruct ((97 <=? c) && (c <=? 102)) eqn:E2; [injection H as <-; lia|].
  destruct ((65 <=? c) && (c <=? 70)) eqn:E3; [injection H as <-; lia|discriminate H].
Qed.

Lemma hex4_lt a b c d v : hex4_spec a b c d = Some v -> v < 65536.
Proof.
  unfold hex4_spec. intros H.
  destruct (hexval (b2n a)) as [x|] eqn:Ea; [|discriminate H].
  destruct (hexval (b2n b)) as [y|] eqn:Eb; [|discriminate H].
  destruct (hexval (b2n c)) as [z|] eqn:Ec; [|discriminate H].
  destruct (hexval (b2n d)) as [w|] eqn:Ed; [|discriminate H].
  injection H as <-. apply hexval_lt in Ea, Eb, Ec, Ed. lia.
Qed.

Lemma escape_spec_lt c v : escape_spec c = Some v -> v < 128.
Proof.
  unfold escape_spec. intros H.
  repeat match type of H with
  | (if ?c then _ else _) = _ => destruct c; [injection H as <-; lia|]
  end. discriminate H.
Qed.

Ltac step H :=
  match type of H with
  | (if ?c then _ else _) = _ => destruct c eqn:?; try discriminate H
  | (match ?x with _ => _ end) = _ => destruct x eqn:?; try discriminate H
  end.

Theorem spec_string_wf8 : forall fuel s acc d r,
  spec_string fuel s acc = SOk (d, r) -> wf8 (rev acc) -> wf8 d.
Proof.
  induction fuel as [|f IH]; intros s acc d r H Hacc; [discriminate H|].
  cbn [spec_string] in H. unfold cQUOTE, cBSLASH, c_u in H.
  repeat step H;
    try (injection H as <- <-; exact Hacc);
    apply (IH _ _ _ _ H); clear H IH;
    repeat match goal with
    | Hh : hex4_spec _ _ _ _ = Some _ |- _ => apply hex4_lt in Hh
    | He : escape_spec _ = Some _ |- _ => apply escape_spec_lt in He
    end.
  - (* surrogate pair *)
    rewrite rev_app_distr, rev_involutive. apply wf8_app; [exact Hacc|]. apply utf8_spec_wf; lia.
  - (* \uXXXX *)
    rewrite rev_app_distr, rev_involutive. apply wf8_app; [exact Hacc|]. apply utf8_spec_wf; lia.
  - (* simple escape *)
    cbn [rev]. apply wf8_app; [exact Hacc|]. apply wf8_one. rewrite b2n_n2b_small by lia. assumption.
  - (* ASCII *)
    cbn [rev]. apply wf8_app; [exact Hacc|]. apply wf8_one. lia.
  - (* raw multi-byte sequence *)
    rewrite rev_app_distr, rev_involutive. apply wf8_app; [exact Hacc|]. apply wf8_raw. assumption.
Qed.

Corollary spec_string_utf8_ok fuel s d r :
  spec_string fuel s [] = SOk (d, r) -> utf8_ok d = true.
Proof. intros H. apply wf8_utf8_ok. apply (spec_string_wf8 fuel s [] d r H). constructor. Qed.

(* ------------------------------------------------------------------ *)
(* numbers                                                              *)

Local Open Scope Z_scope.

Lemma bounded_facts m e : SpecFloat.bounded 53 1024 m e = true ->
  Zpos m < 2 ^ 53 /\ e <= 971 /\ (2 ^ 52 <= Zpos m -> -1074 <= e).
Proof.
  intros H. unfold SpecFloat.bounded in H. apply andb_prop in H. destruct H as [Hc He].
  apply Zle_bool_imp_le in He.
  unfold SpecFloat.canonical_mantissa in Hc. apply Zeq_bool_eq in Hc.
  unfold SpecFloat.fexp, SpecFloat.emin in Hc.
  rewrite Zpos_digits2_pos in Hc.
  pose proof (Zdigits_correct radix2 (Zpos m)) as Hd. rewrite Z.abs_eq in Hd by lia.
  set (dg := Zdigits radix2 (Zpos m)) in *.
  assert (Hdp : 0 < dg) by (apply Zdigits_gt_0; discriminate).
  change (Z.pow radix2) with (Z.pow 2) in Hd.
  assert (dg <= 53) by lia.
  split; [|split; [lia|]].
  - apply Z.lt_le_trans with (2 ^ dg); [tauto|]. apply Z.pow_le_mono_r; lia.
  - intros Hm. lia.
Qed.

Lemma finite_bits_ok f : SpecFloat.valid_binary 53 1024 f = true -> sf_is_finite f = true ->
  (bits_of_sf f < two64)%N /\ sf_is_finite (sf_of_bits (bits_of_sf f)) = true.
Proof.
  intros Hv Hf. destruct f as [s|s| |s m e]; try discriminate Hf.
  - destruct s; vm_compute; split; reflexivity.
  - cbn [SpecFloat.valid_binary] in Hv. destruct (bounded_facts m e Hv) as (Hm & He & Hlo).
    change (2 ^ 53) with 9007199254740992 in Hm. change (2 ^ 52) with 4503599627370496 in Hlo.
    rewrite sf_of_bits_finite_iff. unfold bits_of_sf, two52, two63, two64.
    destruct (Z.ltb_spec (Zpos m) 4503599627370496) as [Hs|Hb].
    + split; [destruct s; lia|]. apply negb_true_iff, N.eqb_neq. destruct s; lia.
    + specialize (Hlo Hb). split; [destruct s; lia|]. apply negb_true_iff, N.eqb_neq. destruct s; lia.
Qed.

Lemma dec_to_float_bits_ok neg m e10 : sf_is_finite (dec_to_float neg m e10) = true ->
  (bits_of_sf (dec_to_float neg m e10) < two64)%N /\
  sf_is_finite (sf_of_bits (bits_of_sf (dec_to_float neg m e10))) = true.
Proof.
  intros Hf. destruct m as [|p|p].
  - destruct neg; vm_compute; split; reflexivity.
  - apply finite_bits_ok; [apply dec_to_float_valid|exact Hf].
  - destruct neg; vm_compute; split; reflexivity.
Qed.

Theorem num_spec_okb l n : num_spec l = Some n -> num_okb n = true.
Proof.
  unfold num_spec. cbv zeta.
  set (fl := dec_to_float _ _ _).
  intros H.
  assert (Hfl : sf_is_finite fl = true -> forall flags, num_okb (NFloat (bits_of_sf fl) flags) = true).
  { intros Hfin flags. cbn [num_okb]. destruct (dec_to_float_bits_ok _ _ _ Hfin) as [A B].
    fold fl in A, B. rewrite B. apply andb_true_iff. split; [apply N.ltb_lt; exact A|reflexivity]. }
  destruct (nl_frac l), (nl_exp l);
    try (destruct (sf_is_finite fl) eqn:Ef; [injection H as <-; apply Hfl; reflexivity|discriminate H]).
  destruct ((min_int64 <=? _) && (_ <=? max_int64)) eqn:E1; [injection H as <-; exact E1|].
  destruct ((0 <=? _) && (_ <=? max_uint64)) eqn:E2.
  { injection H as <-. cbn [num_okb]. unfold max_uint64, two64 in *. lia. }
  destruct (sf_is_finite fl) eqn:Ef; [injection H as <-; apply Hfl; reflexivity|discriminate H].
Qed.

(* ------------------------------------------------------------------ *)
(* documents                                                            *)

Local Open Scope nat_scope.

Lemma forallb_rev {A} (p : A -> bool) l : forallb p (rev l) = forallb p l.
Proof.
  induction l as [|x l IH]; [reflexivity|]. cbn [rev forallb].
  rewrite forallb_app, IH. cbn [forallb]. rewrite andb_true_r. apply andb_comm.
Qed.

Definition O_V (f : nat) : Prop := forall s d r, spec_value f s = SOk (d, r) -> doc_okb d = true.
Definition O_E (f : nat) : Prop := forall s acc d r,
  spec_elems f s acc = SOk (d, r) -> forallb doc_okb acc = true -> doc_okb d = true.
Definition O_M (f : nat) : Prop := forall s acc d r,
  spec_members f s acc = SOk (d, r) -> forallb member_okb acc = true -> doc_okb d = true.

Lemma starts_with_some p s r : starts_with p s = Some r -> True.
Proof. trivial. Qed.

Lemma OV_step f : O_E f -> O_M f -> O_V (S f).
Proof.
  intros HE HM s d r H. cbn [spec_value] in H.
  destruct (skip_ws s) as [|b t]; [discriminate H|]. cbv zeta in H.
  destruct (b2n b =? cLBRACE)%N.
  { destruct (skip_ws t) as [|b' r']; [discriminate H|].
    destruct (b2n b' =? cRBRACE)%N; [injection H as <- <-; reflexivity|].
    apply (HM _ _ _ _ H). reflexivity. }
  destruct (b2n b =? cLBRACK)%N.
  { destruct (skip_ws t) as [|b' r']; [discriminate H|].
    destruct (b2n b' =? cRBRACK)%N; [injection H as <- <-; reflexivity|].
    apply (HE _ _ _ _ H). reflexivity. }
  destruct (b2n b =? cQUOTE)%N.
  { destruct (spec_string f t []) as [[str r']| | |] eqn:Es; try discriminate H.
    injection H as <- <-. cbn [doc_okb]. apply (spec_string_utf8_ok _ _ _ _ Es). }
  destruct (b2n b =? c_t)%N.
  { destruct (starts_with _ _); [injection H as <- <-; reflexivity|discriminate H]. }
  destruct (b2n b =? c_f)%N.
  { destruct (starts_with _ _); [injection H as <- <-; reflexivity|discriminate H]. }
  destruct (b2n b =? c_n)%N.
  { destruct (starts_with _ _); [injection H as <- <-; reflexivity|discriminate H]. }
  destruct ((b2n b =? cMINUS)%N || is_digit (b2n b)); [|discriminate H].
  destruct (lex_number (b :: t)) as [[l r']|]; [|discriminate H].
  destruct (num_spec l) as [n|] eqn:En; [|discriminate H].
  injection H as <- <-. cbn [doc_okb]. apply (num_spec_okb _ _ En).
Qed.

Lemma OE_step f : O_V f -> O_E f -> O_E (S f).
Proof.
  intros HV HE s acc d r H Hacc. rewrite spec_elems_eq in H.
  destruct (spec_value f s) as [[v r1]| | |] eqn:Ev; try discriminate H.
  pose proof (HV _ _ _ Ev) as Hv.
  destruct (skip_ws r1) as [|b r']; [discriminate H|].
  destruct (b2n b =? cCOMMA)%N.
  { apply (HE _ _ _ _ H). cbn [forallb]. rewrite Hv, Hacc. reflexivity. }
  destruct (b2n b =? cRBRACK)%N; [|discriminate H].
  injection H as <- <-. cbn [doc_okb]. rewrite forallb_app, forallb_rev. cbn [forallb]. rewrite Hv, Hacc. reflexivity.
Qed.

Lemma OM_step f : O_V f -> O_M f -> O_M (S f).
Proof.
  intros HV HM s acc d r H Hacc. cbn [spec_members] in H.
  destruct (skip_ws s) as [|b t]; [discriminate H|].
  destruct (b2n b =? cQUOTE)%N; [|discriminate H].
  destruct (spec_string f t []) as [[key r1]| | |] eqn:Es; try discriminate H.
  pose proof (spec_string_utf8_ok _ _ _ _ Es) as Hk.
  destruct (skip_ws r1) as [|b1 r2]; [discriminate H|].
  destruct (b2n b1 =? cCOLON)%N; [|discriminate H].
  destruct (spec_value f r2) as [[v r3]| | |] eqn:Ev; try discriminate H.
  pose proof (HV _ _ _ Ev) as Hv.
  destruct (skip_ws r3) as [|b3 r4]; [discriminate H|].
  assert (Hm : member_okb (key, v) = true) by (unfold member_okb; cbn [fst snd]; rewrite Hk, Hv; reflexivity).
  destruct (b2n b3 =? cCOMMA)%N.
  { apply (HM _ _ _ _ H). cbn [forallb]. rewrite Hm, Hacc. reflexivity. }
  destruct (b2n b3 =? cRBRACE)%N; [|discriminate H].
  injection H as <- <-. cbn [doc_okb].
  change (fun kv : bytes * doc => utf8_ok (fst kv) && doc_okb (snd kv)) with member_okb.
  rewrite forallb_app, forallb_rev. cbn [forallb]. rewrite Hm, Hacc. reflexivity.
Qed.

Theorem spec_ok_all : forall f, O_V f /\ O_E f /\ O_M f.
Proof.
  induction f as [|f (HV & HE & HM)].
  - repeat split; intros s; intros; discriminate.
  - split; [apply OV_step; assumption|]. split; [apply OE_step|apply OM_step]; assumption.
Qed.

Theorem spec_value_doc_okb f s d r : spec_value f s = SOk (d, r) -> doc_okb d = true.
Proof. apply (proj1 (spec_ok_all f)). Qed.

Theorem spec_parse_doc_okb s d : spec_parse s = SOk d -> doc_okb d = true /\ is_container d = true.
Proof.
  unfold spec_parse. cbv zeta. intros H.
  destruct (rtrim_ws (skip_ws s)) as [|b t] eqn:Et; [discriminate H|].
  destruct (edge_unclaimed (b2n b) || edge_unclaimed (b2n (last (b :: t) x00))); [discriminate H|].
  destruct (spec_value _ _) as [[d' r]| | |] eqn:Ev; try discriminate H.
  destruct r; [|discriminate H].
  destruct (is_container d') eqn:Ec; [|discriminate H].
  injection H as <-. split; [apply (spec_value_doc_okb _ _ _ _ Ev)|exact Ec].
Qed.

Lemma nd_lines_okb : forall ls acc ds, nd_lines ls acc = SOk ds ->
  docs_okb acc = true -> docs_okb ds = true.
Proof.
  induction ls as [|l ls IH]; intros acc ds H Hacc.
  - cbn [nd_lines] in H. injection H as <-. unfold docs_okb in *. rewrite forallb_rev. exact Hacc.
  - cbn [nd_lines] in H. destruct (is_blank_line l); [apply (IH _ _ H Hacc)|].
    destruct (spec_parse l) as [d| | |] eqn:Ep; try discriminate H.
    apply (IH _ _ H). destruct (spec_parse_doc_okb _ _ Ep) as [A B].
    unfold docs_okb in *. cbn [forallb]. rewrite A, B, Hacc. reflexivity.
Qed.

Theorem nd_spec_docs_okb s ds : nd_spec s = SOk ds -> docs_okb ds = true /\ ds <> [].
Proof.
  unfold nd_spec. cbv zeta. intros H.
  destruct (existsb _ _); [discriminate H|].
  destruct (nd_lines (split_lf s) []) as [l| | |] eqn:El; try discriminate H.
  destruct l as [|d l']; [discriminate H|]. injection H as <-.
  split; [apply (nd_lines_okb _ _ _ El); reflexivity|discriminate].
Qed.

Print Assumptions spec_parse_doc_okb.
