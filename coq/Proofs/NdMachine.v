(* NdMachine.v — the stage-2 machine reads its index buffers only through the
   next pending increment.  Two machines that agree on everything but the
   index buffers, and whose next [k] pending increments agree, perform the
   same [k] steps.  This transfers the simulation proved for Parse (whose
   invariant speaks about the non-NDJSON structurals of the remaining text)
   to a machine fed with the NDJSON structurals, one document at a time. *)
From Coq Require Import ZifyBool ZifyN ZifyNat.
From SJ Require Import Model.Base Model.RefTables Spec.Json Model.Number Model.Str Model.Stage1.
From SJ Require Import Proofs.StrArith Proofs.StrProofs.
From SJ Require Import Model.Stage2 Model.Tape Proofs.Stage1Proofs Proofs.Stage2Base.
Open Scope N_scope.

(* ------------------------------------------------------------------ *)
(* replacing the index buffers                                         *)

Definition setb (m : m2) (cb : list nat) (rb : list (list nat)) : m2 :=
  {| tape_rev := tape_rev m; tlen := tlen m; strs_rev := strs_rev m; slen := slen m;
     stack := stack m; idx1 := idx1 m; cur := cur m; whole := whole m; sfuel := sfuel m;
     cbuf := cb; rbufs := rb |}.

Lemma setb_id m : setb m (cbuf m) (rbufs m) = m.
Proof. destruct m; reflexivity. Qed.

Lemma setb_setb m cb rb cb' rb' : setb (setb m cb rb) cb' rb' = setb m cb' rb'.
Proof. reflexivity. Qed.

Definition lift (cb : list nat) (rb : list (list nat)) (r : step_res) : step_res :=
  match r with
  | Next l m => Next l (setb m cb rb)
  | Succeed m => Succeed (setb m cb rb)
  | Fail => Fail
  | SCrash => SCrash
  | SFuelOut => SFuelOut
  end.

Definition olift (cb : list nat) (rb : list (list nat)) (r : outcome m2) : outcome m2 :=
  match r with Ok m => Ok (setb m cb rb) | Err => Err | Crash => Crash | OutOfFuel => OutOfFuel end.

(* what a step does once the next structural has been fetched *)
Definition post (copy : bool) (l : label) (m' : m2) (c : N) : step_res :=
  match l with
  | L_start => continue_root m' c
  | L_startContinue => if c =? cLF then Next L_ndSkip m' else Fail
  | L_ndSkip =>
    if c =? cLF then Next L_ndSkip m'
    else match cycle_root m' with
         | Ok m'' => continue_root m'' c
         | _ => SCrash
         end
  | L_objBegin =>
    if c =? cQUOTE then do_string copy m' (fun m'' => Next L_objColon m'')
    else if c =? cRBRACE then scope_end m' c
    else Fail
  | L_objColon => if c =? cCOLON then Next L_objValue m' else Fail
  | L_objValue => value_switch copy m' c retObject L_objCont
  | L_objCont =>
    if c =? cCOMMA then Next L_objKey m'
    else if c =? cRBRACE then scope_end m' c
    else Fail
  | L_objKey =>
    if c =? cQUOTE then do_string copy m' (fun m'' => Next L_objColon m'') else Fail
  | L_arrBegin =>
    if c =? cRBRACK then scope_end m' c else value_switch copy m' c retArray L_arrCont
  | L_arrValue => value_switch copy m' c retArray L_arrCont
  | L_arrCont =>
    if c =? cCOMMA then Next L_arrValue m'
    else if c =? cRBRACK then scope_end m' c
    else Fail
  end.

Lemma step_post copy l m m' c : update_char m = UChar m' c -> step copy l m = post copy l m' c.
Proof. intros H. unfold step, post. rewrite H. reflexivity. Qed.

Lemma annotate_setb m cb rb loc v : annotate (setb m cb rb) loc v = olift cb rb (annotate m loc v).
Proof. unfold annotate. cbn [tlen setb]. destruct (tlen m <=? loc); reflexivity. Qed.

Lemma scope_end_setb m cb rb c : scope_end (setb m cb rb) c = lift cb rb (scope_end m c).
Proof.
  unfold scope_end. cbn [stack setb]. destruct (stack m) as [|offset st]; [reflexivity|].
  change (write_tape (set_stack (setb m cb rb) st) (offset / 4) c)
    with (setb (write_tape (set_stack m st) (offset / 4) c) cb rb).
  rewrite annotate_setb. cbn [tlen setb].
  destruct (annotate (write_tape (set_stack m st) (offset / 4) c) (offset / 4)
              (tlen (write_tape (set_stack m st) (offset / 4) c))) as [m3| | |]; try reflexivity.
  cbn [olift]. destruct (offset mod 4 =? retArray); [reflexivity|].
  destruct (offset mod 4 =? retObject); reflexivity.
Qed.

Lemma do_string_setb copy m cb rb l' :
  do_string copy (setb m cb rb) (fun m'' => Next l' m'') = lift cb rb (do_string copy m (fun m'' => Next l' m'')).
Proof.
  unfold do_string. cbn [cur idx1 slen sfuel setb].
  rewrite (parse_string_model_max (cur m) (idx1 m - 1) (peek_size (setb m cb rb)) (peek_size m)).
  destruct (parse_string_model (cur m) (idx1 m - 1) (peek_size m) copy (slen m) (sfuel m)); reflexivity.
Qed.

Lemma value_switch_setb copy m cb rb c ret cont :
  value_switch copy (setb m cb rb) c ret cont = lift cb rb (value_switch copy m c ret cont).
Proof.
  unfold value_switch.
  destruct (c =? cQUOTE); [apply do_string_setb|].
  cbn [cur setb].
  destruct (c =? c_t); [destruct (is_true_atom (cur m)); reflexivity|].
  destruct (c =? c_f); [destruct (is_false_atom (cur m)); reflexivity|].
  destruct (c =? c_n); [destruct (is_null_atom (cur m)); reflexivity|].
  destruct ((c =? cMINUS) || is_digit c).
  { destruct (parse_number_model (cur m)) as [[w1 w2]|]; reflexivity. }
  destruct (c =? cLBRACE); [reflexivity|].
  destruct (c =? cLBRACK); reflexivity.
Qed.

Lemma continue_root_setb m cb rb c : continue_root (setb m cb rb) c = lift cb rb (continue_root m c).
Proof.
  unfold continue_root. destruct (c =? cLBRACE); [reflexivity|]. destruct (c =? cLBRACK); reflexivity.
Qed.

Lemma cycle_root_setb m cb rb : cycle_root (setb m cb rb) = olift cb rb (cycle_root m).
Proof.
  unfold cycle_root. cbn [stack setb]. destruct (stack m) as [|offset st]; [reflexivity|].
  change (set_stack (setb m cb rb) st) with (setb (set_stack m st) cb rb).
  rewrite annotate_setb. cbn [tlen setb].
  destruct (annotate (set_stack m st) (offset / 4) (tlen (set_stack m st) + addOneForRoot)); reflexivity.
Qed.

Lemma post_setb copy l m cb rb c : post copy l (setb m cb rb) c = lift cb rb (post copy l m c).
Proof.
  destruct l; unfold post.
  - apply continue_root_setb.
  - destruct (c =? cLF); reflexivity.
  - destruct (c =? cLF); [reflexivity|]. rewrite cycle_root_setb.
    destruct (cycle_root m) as [m''| | |]; cbn [olift]; try reflexivity. apply continue_root_setb.
  - destruct (c =? cQUOTE); [apply do_string_setb|]. destruct (c =? cRBRACE); [apply scope_end_setb|reflexivity].
  - destruct (c =? cCOLON); reflexivity.
  - apply value_switch_setb.
  - destruct (c =? cCOMMA); [reflexivity|]. destruct (c =? cRBRACE); [apply scope_end_setb|reflexivity].
  - destruct (c =? cQUOTE); [apply do_string_setb|reflexivity].
  - destruct (c =? cRBRACK); [apply scope_end_setb|apply value_switch_setb].
  - apply value_switch_setb.
  - destruct (c =? cCOMMA); [reflexivity|]. destruct (c =? cRBRACK); [apply scope_end_setb|reflexivity].
Qed.

(* a step leaves the index buffers alone after the fetch ... *)
Lemma post_bufs copy l m c l1 m1 : post copy l m c = Next l1 m1 -> cbuf m1 = cbuf m /\ rbufs m1 = rbufs m.
Proof.
  intros H. pose proof (post_setb copy l m (cbuf m) (rbufs m) c) as E.
  rewrite setb_id, H in E. cbn [lift] in E. injection E as E.
  rewrite E. split; reflexivity.
Qed.

(* ... and does not move the read position *)
Lemma annotate_idx1 m loc v m' : annotate m loc v = Ok m' -> idx1 m' = idx1 m.
Proof. unfold annotate. destruct (tlen m <=? loc); [discriminate|]. intros H. injection H as <-. reflexivity. Qed.

Lemma scope_end_idx1 m c l1 m1 : scope_end m c = Next l1 m1 -> idx1 m1 = idx1 m.
Proof.
  unfold scope_end. destruct (stack m) as [|offset st]; [discriminate|].
  destruct (annotate _ _ _) as [m3| | |] eqn:Ea; try discriminate.
  apply annotate_idx1 in Ea. cbn [idx1 write_tape set_stack] in Ea.
  destruct (offset mod 4 =? retArray); [intros H; injection H as _ <-; exact Ea|].
  destruct (offset mod 4 =? retObject); intros H; injection H as _ <-; exact Ea.
Qed.

Lemma do_string_idx1 copy m l' l1 m1 : do_string copy m (fun m'' => Next l' m'') = Next l1 m1 -> idx1 m1 = idx1 m.
Proof.
  unfold do_string. destruct (parse_string_model _ _ _ _ _ _); try discriminate.
  intros H. injection H as _ <-. reflexivity.
Qed.

Lemma value_switch_idx1 copy m c ret cont l1 m1 : value_switch copy m c ret cont = Next l1 m1 -> idx1 m1 = idx1 m.
Proof.
  unfold value_switch.
  destruct (c =? cQUOTE); [apply do_string_idx1|].
  destruct (c =? c_t); [destruct (is_true_atom (cur m)); [|discriminate]; intros H; injection H as _ <-; reflexivity|].
  destruct (c =? c_f); [destruct (is_false_atom (cur m)); [|discriminate]; intros H; injection H as _ <-; reflexivity|].
  destruct (c =? c_n); [destruct (is_null_atom (cur m)); [|discriminate]; intros H; injection H as _ <-; reflexivity|].
  destruct ((c =? cMINUS) || is_digit c).
  { destruct (parse_number_model (cur m)) as [[w1 w2]|]; [|discriminate]. intros H; injection H as _ <-; reflexivity. }
  destruct (c =? cLBRACE); [intros H; injection H as _ <-; reflexivity|].
  destruct (c =? cLBRACK); [intros H; injection H as _ <-; reflexivity|discriminate].
Qed.

Lemma continue_root_idx1 m c l1 m1 : continue_root m c = Next l1 m1 -> idx1 m1 = idx1 m.
Proof.
  unfold continue_root.
  destruct (c =? cLBRACE); [intros H; injection H as _ <-; reflexivity|].
  destruct (c =? cLBRACK); [intros H; injection H as _ <-; reflexivity|discriminate].
Qed.

Lemma cycle_root_idx1 m m' : cycle_root m = Ok m' -> idx1 m' = idx1 m.
Proof.
  unfold cycle_root. destruct (stack m) as [|offset st]; [discriminate|].
  destruct (annotate _ _ _) as [m3| | |] eqn:Ea; try discriminate.
  apply annotate_idx1 in Ea. cbn [obind]. intros H. injection H as <-. exact Ea.
Qed.

Lemma post_idx1 copy l m c l1 m1 : post copy l m c = Next l1 m1 -> idx1 m1 = idx1 m.
Proof.
  destruct l; unfold post.
  - apply continue_root_idx1.
  - destruct (c =? cLF); [|discriminate]. intros H; injection H as _ <-; reflexivity.
  - destruct (c =? cLF); [intros H; injection H as _ <-; reflexivity|].
    destruct (cycle_root m) as [m''| | |] eqn:Ec; try discriminate.
    intros H. apply continue_root_idx1 in H. rewrite H. eapply cycle_root_idx1; exact Ec.
  - destruct (c =? cQUOTE); [apply do_string_idx1|]. destruct (c =? cRBRACE); [apply scope_end_idx1|discriminate].
  - destruct (c =? cCOLON); [|discriminate]. intros H; injection H as _ <-; reflexivity.
  - apply value_switch_idx1.
  - destruct (c =? cCOMMA); [intros H; injection H as _ <-; reflexivity|].
    destruct (c =? cRBRACE); [apply scope_end_idx1|discriminate].
  - destruct (c =? cQUOTE); [apply do_string_idx1|discriminate].
  - destruct (c =? cRBRACK); [apply scope_end_idx1|apply value_switch_idx1].
  - apply value_switch_idx1.
  - destruct (c =? cCOMMA); [intros H; injection H as _ <-; reflexivity|].
    destruct (c =? cRBRACK); [apply scope_end_idx1|discriminate].
Qed.

(* ------------------------------------------------------------------ *)
(* one step                                                            *)

Lemma step_transfer copy l m cb0 rb0 d P Y l1 m1 :
  noempty (rbufs m) -> noempty rb0 ->
  pending m = d :: P -> cb0 ++ concat rb0 = d :: Y ->
  step copy l m = Next l1 m1 ->
  exists cb1 rb1,
    step copy l (setb m cb0 rb0) = Next l1 (setb m1 cb1 rb1) /\
    pending m1 = P /\ cb1 ++ concat rb1 = Y /\ noempty (rbufs m1) /\ noempty rb1 /\
    idx1 m1 = idx1 m + N.of_nat d.
Proof.
  intros Hne Hne0 Hp Hp0 Hstep.
  destruct (update_char_pending m d P Hne Hp) as (cb & rb & Hrest & Hrb & Hu).
  assert (Hp0' : pending (setb m cb0 rb0) = d :: Y) by exact Hp0.
  destruct (update_char_pending (setb m cb0 rb0) d Y Hne0 Hp0') as (cb1 & rb1 & Hrest1 & Hrb1 & Hu1).
  cbv zeta in Hu, Hu1. cbn [idx1 whole cur setb] in Hu1.
  destruct ((d =? 0)%nat && (idx1 m =? 0)).
  { unfold step in Hstep. rewrite Hu in Hstep. discriminate. }
  destruct (if idx1 m =? 0 then skipn (d - 1) (whole m) else skipn d (cur m)) as [|b ncur] eqn:En.
  { unfold step in Hstep. rewrite Hu in Hstep. discriminate. }
  set (m' := adv m (idx1 m + N.of_nat d) (b :: ncur) cb rb) in *.
  change (adv (setb m cb0 rb0) (idx1 m + N.of_nat d) (b :: ncur) cb1 rb1) with (setb m' cb1 rb1) in Hu1.
  rewrite (step_post copy l m m' _ Hu) in Hstep.
  exists cb1, rb1.
  rewrite (step_post copy l _ _ _ Hu1), post_setb, Hstep. cbn [lift].
  destruct (post_bufs _ _ _ _ _ _ Hstep) as [Ecb Erb].
  pose proof (post_idx1 _ _ _ _ _ _ Hstep) as Ei.
  split; [reflexivity|].
  split; [unfold pending; rewrite Ecb, Erb; exact Hrest|].
  split; [exact Hrest1|]. split; [rewrite Erb; exact Hrb|]. split; [exact Hrb1|].
  rewrite Ei. reflexivity.
Qed.

(* ------------------------------------------------------------------ *)
(* positions                                                           *)

(* increasing positions, the first one not before [i - 1] *)
Fixpoint sorted_from (i : nat) (l : list nat) : Prop :=
  match l with
  | [] => True
  | a :: r => (i <= S a)%nat /\ sorted_from (S a) r
  end.

Lemma sorted_from_app_l : forall a b i, sorted_from i (a ++ b) -> sorted_from i a.
Proof.
  induction a as [|x a IH]; intros b i H; [exact I|].
  cbn [app sorted_from] in *. destruct H as [H1 H2]. split; [exact H1|]. eapply IH. exact H2.
Qed.

Lemma fold_sorted nd : forall bs st p i, (i <= S p)%nat -> sorted_from i (snd (s1_fold nd st p bs)).
Proof.
  induction bs as [|b r IH]; intros st p i Hi; [exact I|].
  cbn [s1_fold]. destruct (snd (s1_step nd st (b2n b))).
  - cbn [consp snd sorted_from]. split; [exact Hi|]. apply IH. lia.
  - apply IH. lia.
Qed.

(* ------------------------------------------------------------------ *)
(* k steps                                                             *)

Lemma nsteps_transfer copy : forall k l mv l' mv', nsteps copy k l mv l' mv' ->
  forall A X Y cb0 rb0,
  length A = k -> sorted_from (N.to_nat (idx1 mv)) A ->
  noempty (rbufs mv) -> noempty rb0 ->
  pending mv = incs (N.to_nat (idx1 mv)) (A ++ X) ->
  cb0 ++ concat rb0 = incs (N.to_nat (idx1 mv)) (A ++ Y) ->
  exists cb1 rb1,
    nsteps copy k l (setb mv cb0 rb0) l' (setb mv' cb1 rb1) /\
    noempty rb1 /\
    pending mv' = incs (N.to_nat (idx1 mv')) X /\
    cb1 ++ concat rb1 = incs (N.to_nat (idx1 mv')) Y.
Proof.
  induction 1 as [l m|k l m l1 m1 l2 m2 Hs Hp Hn IH]; intros A X Y cb0 rb0 HA Hsort Hne Hne0 HP HP0.
  - destruct A; [|discriminate]. cbn [app] in *.
    exists cb0, rb0. split; [constructor|]. split; [exact Hne0|]. split; [exact HP|exact HP0].
  - destruct A as [|a A']; [discriminate|]. cbn [length] in HA. injection HA as HA.
    cbn [app] in HP, HP0. rewrite incs_cons in HP, HP0.
    destruct Hsort as [Hi Hsort].
    destruct (step_transfer copy l m cb0 rb0 _ _ _ l1 m1 Hne Hne0 HP HP0 Hs)
      as (cb1 & rb1 & Hs1 & HP1 & HP1' & Hne1 & Hne1' & Hidx).
    assert (Ei : N.to_nat (idx1 m1) = S a) by lia.
    rewrite <- Ei in HP1, HP1', Hsort.
    destruct (IH A' X Y cb1 rb1 HA Hsort Hne1 Hne1' HP1 HP1') as (cb2 & rb2 & Hn2 & Hne2 & HP2 & HP2').
    exists cb2, rb2. split; [|split; [exact Hne2|split; [exact HP2|exact HP2']]].
    econstructor; [exact Hs1| |exact Hn2].
    unfold pending. cbn [cbuf rbufs setb]. rewrite HP0, HP1'. cbn [length]. rewrite !incs_length. reflexivity.
Qed.
