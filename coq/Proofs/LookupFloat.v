(* LookupFloat.v — int -> float (Iter.Float() on an integer, Array.AsFloat):
   float_of_Z z is the bit pattern of the correctly rounded (nearest, ties to
   even) binary64 of z, in the sense of NumFloat.is_rounding_of (Flocq); hence
   the conversion is exact for |z| <= 2^53.  (property C12, last sentence) *)
From Coq Require Import ZArith Reals Lia Lra.
From Flocq Require Import Core BinarySingleNaN.
From Coq Require Import Floats.SpecFloat.
From SJ Require Import Model.Base Spec.Json Model.Iter Proofs.NumFloat.
Local Open Scope Z_scope.

Lemma binary_round_NE s m e :
  SpecFloat.binary_round Json.prec Json.emax s m e
  = BinarySingleNaN.binary_round Json.prec Json.emax mode_NE s m e.
Proof.
  unfold SpecFloat.binary_round, BinarySingleNaN.binary_round, shl_align_fexp.
  destruct (shl_align m e _) as [mz ez]. apply binary_round_aux_NE.
Qed.

(* the spec_float whose bits float_of_Z returns *)
Definition sf_of_Z (z : Z) : spec_float := SpecFloat.binary_normalize Json.prec Json.emax z 0 false.

Lemma float_of_Z_bits z : float_of_Z z = bits_of_sf (sf_of_Z z).
Proof. reflexivity. Qed.

Theorem sf_of_Z_rounding z : z <> 0 -> is_rounding_of (z <? 0) (IZR z) (sf_of_Z z).
Proof.
  intros Hz. unfold sf_of_Z, SpecFloat.binary_normalize, is_rounding_of.
  destruct z as [|p|p]; [congruence| |].
  - rewrite binary_round_NE.
    destruct (binary_round_correct Json.prec Json.emax Hprec Hmax mode_NE false p 0) as [Hv H].
    cbv zeta in H.
    replace (F2R {| Fnum := cond_Zopp false (Z.pos p); Fexp := 0 |}) with (IZR (Z.pos p)) in H
      by (unfold F2R, Fnum, Fexp, cond_Zopp; simpl bpow; ring).
    rewrite round_fexp_is_FLT in H. change (round_mode mode_NE) with ZnearestE in H.
    change (bpow radix2 Json.emax) with (bpow radix2 1024) in H.
    change (Z.pos p <? 0) with false.
    destruct (Rlt_bool _ _).
    + destruct H as (H1 & H2 & H3). rewrite sf_is_finite_eq. auto.
    + exact H.
  - rewrite binary_round_NE.
    destruct (binary_round_correct Json.prec Json.emax Hprec Hmax mode_NE true p 0) as [Hv H].
    cbv zeta in H.
    replace (F2R {| Fnum := cond_Zopp true (Z.pos p); Fexp := 0 |}) with (IZR (Z.neg p)) in H
      by (unfold F2R, Fnum, Fexp, cond_Zopp; simpl bpow; change (- Z.pos p) with (Z.neg p); ring).
    rewrite round_fexp_is_FLT in H. change (round_mode mode_NE) with ZnearestE in H.
    change (bpow radix2 Json.emax) with (bpow radix2 1024) in H.
    change (Z.neg p <? 0) with true.
    destruct (Rlt_bool _ _).
    + destruct H as (H1 & H2 & H3). rewrite sf_is_finite_eq. auto.
    + exact H.
Qed.

(* integers up to 2^53 in magnitude are binary64 numbers *)
Lemma int_is_b64 z : Z.abs z <= 2 ^ 53 -> rnd64 (IZR z) = IZR z.
Proof.
  intros Hz. apply round_generic; [apply valid_rnd_N|].
  apply generic_format_FLT.
  destruct (Z.eq_dec (Z.abs z) (2 ^ 53)) as [E|E].
  - (* +-2^53 = +-1 * 2^53 *)
    apply (FLT_spec radix2 (-1074) 53 _ (Float radix2 (Z.sgn z) 53)).
    + unfold F2R, Fnum, Fexp. rewrite <- (IZR_Zpower radix2 53) by lia. rewrite <- mult_IZR.
      f_equal. change (radix2 ^ 53) with (2 ^ 53). rewrite <- E. destruct z; cbn; lia.
    + cbn [Fnum]. change (radix2 ^ 53) with (2 ^ 53). destruct z; cbn; lia.
    + cbn [Fexp]. lia.
  - apply (FLT_spec radix2 (-1074) 53 _ (Float radix2 z 0)).
    + unfold F2R, Fnum, Fexp. simpl bpow. ring.
    + cbn [Fnum]. change (radix2 ^ 53) with (2 ^ 53). lia.
    + cbn [Fexp]. lia.
Qed.

(* ... so int -> float is exact there (and everywhere in int64 / uint64 it is
   finite: the overflow branch of is_rounding_of is not taken) *)
Theorem sf_of_Z_exact z :
  Z.abs z <= 2 ^ 53 ->
  SF2R radix2 (sf_of_Z z) = IZR z /\ sf_is_finite (sf_of_Z z) = true /\
  valid_binary Json.prec Json.emax (sf_of_Z z) = true.
Proof.
  intros Hz. destruct (Z.eq_dec z 0) as [->|Hnz].
  { unfold sf_of_Z. cbn. repeat split; reflexivity. }
  pose proof (sf_of_Z_rounding z Hnz) as H. unfold is_rounding_of in H.
  rewrite (int_is_b64 z Hz) in H.
  assert (Hlt : (Rabs (IZR z) < bpow radix2 1024)%R).
  { rewrite <- abs_IZR. apply Rle_lt_trans with (IZR (2 ^ 53)); [apply IZR_le; exact Hz|].
    change (2 ^ 53) with (radix2 ^ 53). rewrite IZR_Zpower by lia. apply bpow_lt. lia. }
  rewrite (Rlt_bool_true _ _ Hlt) in H. destruct H as (H1 & H2 & _ & H4). auto.
Qed.

(* every int64 / uint64 converts to a finite float: the correctly rounded one *)
Theorem sf_of_Z_finite z :
  z <> 0 -> Z.abs z <= 2 ^ 64 ->
  SF2R radix2 (sf_of_Z z) = rnd64 (IZR z) /\ sf_is_finite (sf_of_Z z) = true /\
  sign_SF (sf_of_Z z) = (z <? 0) /\ valid_binary Json.prec Json.emax (sf_of_Z z) = true.
Proof.
  intros Hnz Hz. pose proof (sf_of_Z_rounding z Hnz) as H. unfold is_rounding_of in H.
  assert (Hlt : (Rabs (rnd64 (IZR z)) < bpow radix2 1024)%R).
  { apply Rle_lt_trans with (bpow radix2 64); [|apply bpow_lt; lia].
    apply abs_round_le_generic.
    - apply FLT_exp_valid. unfold Prec_gt_0. lia.
    - apply valid_rnd_N.
    - apply generic_format_bpow. unfold FLT_exp. lia.
    - rewrite <- abs_IZR. rewrite <- (IZR_Zpower radix2 64) by lia. apply IZR_le. exact Hz. }
  rewrite (Rlt_bool_true _ _ Hlt) in H. exact H.
Qed.

Print Assumptions sf_of_Z_rounding.
Print Assumptions sf_of_Z_exact.
