(* NumberFinal.v — C03 assembled: parseNumber's model, the RFC 8259 lexer, the
   type cascade and Flocq's correctly rounded binary64 in one statement. *)
From Coq Require Import ZArith NArith Reals List Bool Lia Lra.
From Coq Require Import Floats.SpecFloat.
From Flocq Require Import Core Binary Bits.
From SJ Require Import Model.Base Model.RefTables Spec.Json Model.Number.
From SJ Require Import Proofs.NumLex Proofs.NumInt Proofs.NumFloat Proofs.NumBits Proofs.NumberProofs.
Import ListNotations.
Local Open Scope Z_scope.

Definition lit_mant (l : numlit) : Z :=
  digits_val (nl_int l ++ match nl_frac l with Some f => f | None => [] end) 0.
Definition lit_e10 (l : numlit) : Z :=
  (match nl_exp l with Some e => e | None => 0 end)
  - Z.of_nat (match nl_frac l with Some f => length f | None => O end).

(* a float result of the specification is the IEEE-754 encoding of the
   correctly rounded exact value of the literal *)
Definition is_b64_rounding (neg : bool) (m e10 : Z) (bits : N) : Prop :=
  match m with
  | Zpos mp =>
    let x := dec_val neg mp e10 in
    (Rabs (rnd64 x) < bpow radix2 1024)%R /\
    exists b : binary64,
      Binary.is_finite 53 1024 b = true /\ Binary.B2R 53 1024 b = rnd64 x /\
      Binary.Bsign 53 1024 b = neg /\ Z.of_N bits = bits_of_b64 b
  | _ => bits = (if neg then two63 else 0)%N
  end.

Lemma dec_to_float_b64 : forall neg m e10,
  sf_is_finite (dec_to_float neg m e10) = true ->
  is_b64_rounding neg m e10 (bits_of_sf (dec_to_float neg m e10)).
Proof.
  intros neg m e10 Hfin. unfold is_b64_rounding.
  destruct m as [|mp|mp]; try reflexivity.
  pose proof (dec_to_float_correct neg mp e10) as Hc. unfold is_rounding_of in Hc.
  set (f := dec_to_float neg (Z.pos mp) e10) in *.
  destruct (Rlt_bool_spec (Rabs (rnd64 (dec_val neg mp e10))) (bpow radix2 1024)) as [Hlt|Hge].
  2:{ rewrite Hc in Hfin. discriminate Hfin. }
  destruct Hc as (Hr & _ & Hs & Hv). split; [exact Hlt|].
  assert (Hnn : f <> S754_nan) by (intro E; rewrite E in Hfin; discriminate Hfin).
  destruct (valid_sf_is_b64 f Hv Hnn) as (b & Hb & Hbn).
  exists b. repeat split.
  - rewrite <- Hb in Hfin. destruct b; try reflexivity; discriminate Hfin.
  - rewrite <- Hr, <- Hb. destruct b; reflexivity.
  - rewrite <- Hs, <- Hb. destruct b; try reflexivity. discriminate Hbn.
  - rewrite <- Hb. apply bits_of_sf_b64. exact Hbn.
Qed.

Lemma num_spec_float_inv : forall l bits flags,
  num_spec l = Some (NFloat bits flags) ->
  sf_is_finite (dec_to_float (nl_neg l) (lit_mant l) (lit_e10 l)) = true /\
  bits = bits_of_sf (dec_to_float (nl_neg l) (lit_mant l) (lit_e10 l)).
Proof.
  intros l bits flags H. unfold num_spec in H. fold (lit_mant l) in H. fold (lit_e10 l) in H.
  cbv zeta in H.
  destruct (nl_frac l), (nl_exp l);
    repeat match type of H with
           | (if ?c then _ else _) = _ => destruct c eqn:?; try discriminate H
           end;
    inversion H; subst; auto.
Qed.

(* C03, float case *)
Theorem number_float_correct : forall s l rest bits flags,
  lex_number s = Some (l, rest) -> rest_ok rest = true ->
  num_spec l = Some (NFloat bits flags) ->
  parse_number_model s = Some (mk_word TagFloat flags, bits) /\
  is_b64_rounding (nl_neg l) (lit_mant l) (lit_e10 l) bits.
Proof.
  intros s l rest bits flags Hl Hr Hn. split.
  - rewrite (number_model_correct s l rest Hl Hr), Hn. reflexivity.
  - destruct (num_spec_float_inv l bits flags Hn) as [Hfin Hb]. rewrite Hb.
    apply dec_to_float_b64. exact Hfin.
Qed.

(* C03, rejection of non-finite values: exactly when the correctly rounded
   value reaches 2^1024 in magnitude *)
Theorem number_nonfinite_iff : forall l,
  num_spec l = None <->
  exists mp, lit_mant l = Zpos mp /\
             (bpow radix2 1024 <= Rabs (rnd64 (dec_val (nl_neg l) mp (lit_e10 l))))%R.
Proof.
  intros l. split.
  - intros H.
    assert (Hf : sf_is_finite (dec_to_float (nl_neg l) (lit_mant l) (lit_e10 l)) = false).
    { unfold num_spec in H. fold (lit_mant l) in H. fold (lit_e10 l) in H. cbv zeta in H.
      destruct (nl_frac l), (nl_exp l);
        repeat match type of H with
               | (if ?c then _ else _) = _ => destruct c eqn:?; try discriminate H
               end; auto. }
    destruct (lit_mant l) as [|mp|mp] eqn:Em; try discriminate Hf.
    exists mp. split; [reflexivity|].
    destruct (Rle_or_lt (bpow radix2 1024) (Rabs (rnd64 (dec_val (nl_neg l) mp (lit_e10 l))))) as [Hle|Hlt]; [exact Hle|].
    apply dec_to_float_finite_iff in Hlt. congruence.
  - intros (mp & Em & Hge).
    assert (Hf : sf_is_finite (dec_to_float (nl_neg l) (lit_mant l) (lit_e10 l)) = false).
    { rewrite Em. destruct (sf_is_finite (dec_to_float (nl_neg l) (Z.pos mp) (lit_e10 l))) eqn:E; [|reflexivity].
      apply dec_to_float_finite_iff in E. lra. }
    (* a non-finite literal is beyond both integer ranges *)
    unfold num_spec. fold (lit_mant l). fold (lit_e10 l). cbv zeta.
    destruct (nl_frac l) eqn:Efr, (nl_exp l) eqn:Eex; rewrite ?Hf; try reflexivity.
    (* integer literal: anything up to 2^64 rounds far below 2^1024 *)
    assert (He : lit_e10 l = 0) by (unfold lit_e10; rewrite Efr, Eex; reflexivity).
    rewrite He in Hge.
    assert (Hbig : 2 ^ 64 < Z.pos mp).
    { destruct (Z.lt_ge_cases (2 ^ 64) (Z.pos mp)) as [Hb|Hs]; [exact Hb|]. exfalso.
      rewrite <- round_NE_abs in Hge by (apply FLT_exp_valid; unfold Prec_gt_0; lia).
      rewrite dec_val_abs in Hge. change (bpow radix10 0) with 1%R in Hge. rewrite Rmult_1_r in Hge.
      assert (Hle : (rnd64 (IZR (Z.pos mp)) <= rnd64 (bpow radix2 64))%R).
      { apply round_le.
        - apply FLT_exp_valid; unfold Prec_gt_0; lia.
        - apply valid_rnd_N.
        - rewrite <- IZR_Zpower by lia. apply IZR_le. exact Hs. }
      rewrite (round_generic radix2 b64exp ZnearestE (bpow radix2 64)) in Hle
        by (apply generic_format_bpow; unfold FLT_exp; lia).
      assert (bpow radix2 64 < bpow radix2 1024)%R by (apply bpow_lt; lia).
      lra. }
    rewrite Em.
    unfold min_int64, max_int64, max_uint64.
    change (2 ^ 64) with 18446744073709551616 in Hbig.
    destruct (nl_neg l).
    + destruct (Z.leb_spec (-9223372036854775808) (- Z.pos mp)); [lia|]. cbn [andb].
      destruct (Z.leb_spec 0 (- Z.pos mp)); [lia|]. reflexivity.
    + destruct (Z.leb_spec (Z.pos mp) 9223372036854775807); [lia|]. rewrite andb_false_r.
      destruct (Z.leb_spec (Z.pos mp) 18446744073709551615); [lia|]. rewrite andb_false_r.
      reflexivity.
Qed.

Print Assumptions number_float_correct.
Print Assumptions number_nonfinite_iff.
