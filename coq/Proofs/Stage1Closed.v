(* Stage1Closed.v — what stage 2 may assume about the positions stage 1 hands
   over, whatever the input: they are strictly increasing, inside the
   message, and every handed-over position that holds a double quote is the
   opening quote of a string that is closed (in stage 1's sense: [hc]), so
   the string kernel cannot run away on it.  This holds also when stage 1
   finally reports failure, thanks to strip-and-carry: a buffer handed over
   before the end of the message never ends with a quote. *)
From Coq Require Import ZifyBool ZifyN ZifyNat.
From SJ Require Import Model.Base Model.RefTables Spec.Json Model.Str Model.Stage1.
From SJ Require Import Proofs.StrArith Proofs.StrProofs Proofs.TrimProofs.
From SJ Require Import Proofs.Stage1Proofs Proofs.Stage1Buffers Proofs.Stage1Reject Proofs.StrTotal.
From SJ Require Import Model.Stage2 Proofs.Stage2Base Proofs.Stage2Total.
Open Scope N_scope.

(* ------------------------------------------------------------------ *)
(* positions are strictly increasing                                   *)

Lemma incr_weaken : forall qs lo lo', (lo' <= lo)%nat -> incr lo qs -> incr lo' qs.
Proof. intros [|q r] lo lo' H; cbn [incr]; [auto|]. intros [A B]. split; [lia|exact B]. Qed.

Lemma s1_fold_incr nd : forall bs st p, incr p (snd (s1_fold nd st p bs)).
Proof.
  induction bs as [|b r IH]; intros st p; [exact I|].
  cbn [s1_fold]. destruct (snd (s1_step nd st (b2n b))); cbn [consp snd incr].
  - split; [lia|apply IH].
  - apply (incr_weaken _ (S p)); [lia|apply IH].
Qed.

Lemma incr_app_l : forall a b lo, incr lo (a ++ b) -> incr lo a.
Proof.
  induction a as [|x a IH]; intros b lo H; [exact I|].
  cbn [app incr] in *. destruct H as [A B]. split; [exact A|eapply IH; exact B].
Qed.

(* ------------------------------------------------------------------ *)
(* inside a string                                                     *)

(* one step from inside a string *)
Lemma step_in_facts st c : s_instr st = true ->
  s_bsodd (fst (s1_step false st c)) = (if c =? 92 then negb (s_bsodd st) else false) /\
  s_instr (fst (s1_step false st c)) = negb ((c =? 34) && negb (negb (c =? 92) && s_bsodd st)).
Proof.
  intros Hi. unfold s1_step. cbn [fst s_bsodd s_instr]. rewrite Hi.
  change cBSLASH with 92. change cQUOTE with 34. split; [reflexivity|].
  destruct ((c =? 34) && negb (negb (c =? 92) && s_bsodd st)); reflexivity.
Qed.

Lemma step_in_snd st c :
  s_instr st = true -> s_instr (fst (s1_step false st c)) = true -> snd (s1_step false st c) = false.
Proof.
  intros Hi. unfold s1_step. cbn [fst snd s_instr]. rewrite Hi.
  destruct ((c =? cQUOTE) && negb (negb (c =? cBSLASH) && s_bsodd st)); cbn [xorb negb]; [discriminate|].
  intros _. cbn [negb andb orb]. rewrite !andb_false_r. reflexivity.
Qed.

(* while the fold stays inside the string it emits nothing; if it emits a
   position later, or ends outside, an unescaped quote was met *)
Lemma in_string_hc : forall r st p,
  s_instr st = true ->
  (snd (s1_fold false st p r) <> [] \/ s_instr (fst (s1_fold false st p r)) = false) ->
  hc (s_bsodd st) r = true.
Proof.
  induction r as [|c r IH]; intros st p Hin H.
  - cbn [s1_fold fst snd] in H. destruct H as [H|H]; [congruence|]. rewrite Hin in H. discriminate.
  - destruct (step_in_facts st (b2n c) Hin) as (Hbo & Hi').
    assert (Hrec : s_instr (fst (s1_step false st (b2n c))) = true ->
              hc (s_bsodd (fst (s1_step false st (b2n c)))) r = true).
    { intros Hi1. apply (IH _ (S p) Hi1).
      cbn [s1_fold] in H. rewrite (step_in_snd st (b2n c) Hin Hi1) in H. exact H. }
    cbn [hc].
    destruct (s_bsodd st) eqn:Ebo.
    + rewrite Hbo in Hrec. 
      assert (E : (if b2n c =? 92 then negb true else false) = false) by (destruct (b2n c =? 92); reflexivity).
      rewrite E in Hrec. apply Hrec. rewrite Hi'.
      destruct (b2n c =? 34) eqn:Eq; [|reflexivity].
      assert (Eb : (b2n c =? 92) = false) by lia. rewrite Eb. reflexivity.
    + destruct (b2n c =? 92) eqn:Eb.
      * rewrite Hbo in Hrec. apply Hrec. rewrite Hi'.
        assert (Eq : (b2n c =? 34) = false) by lia. rewrite Eq. reflexivity.
      * destruct (b2n c =? 34) eqn:Eq; [reflexivity|].
        rewrite Hbo in Hrec. apply Hrec. rewrite Hi'. reflexivity.
Qed.

(* reachable states: after a backslash the pseudo-predecessor flag is off *)
Definition okst (st : s1st) : Prop := s_bsodd st = true -> s_pred st = false.

Lemma okst_step st c : okst (fst (s1_step false st c)).
Proof.
  unfold okst, s1_step. cbn [fst s_bsodd s_pred].
  destruct (c =? cBSLASH) eqn:Eb; [|discriminate].
  intros _.
  assert (Eq : (c =? cQUOTE) = false) by (unfold cQUOTE, cBSLASH in *; lia).
  assert (Ew : is_json_ws c = false) by (unfold is_json_ws, cSPACE, cTAB, cLF, cCR, cBSLASH in *; lia).
  assert (Em : is_markup c = false)
    by (unfold is_markup, cLBRACE, cRBRACE, cLBRACK, cRBRACK, cCOMMA, cCOLON, cBSLASH in *; lia).
  rewrite Eq, Ew, Em. reflexivity.
Qed.

(* a structural position that holds a quote opens a string *)
Lemma struct_quote_opens st c :
  okst st -> c = 34 -> snd (s1_step false st c) = true ->
  s_instr (fst (s1_step false st c)) = true /\ s_bsodd (fst (s1_step false st c)) = false.
Proof.
  intros Hok -> H. unfold s1_step in *. cbn [fst snd s_instr s_bsodd] in *.
  change (34 =? cBSLASH) with false in *. change (34 =? cQUOTE) with true in *.
  change (is_json_ws 34) with false in *. change (is_markup 34) with false in *.
  change (34 =? cLF) with false in *.
  cbn [negb andb orb xorb] in *. split; [|reflexivity].
  destruct (s_bsodd st) eqn:Eb.
  - rewrite (Hok Eb) in H. cbn [negb andb orb xorb] in H. discriminate.
  - cbn [negb andb orb xorb] in *. destruct (s_instr st); [|reflexivity].
    destruct (s_pred st); cbn [negb andb orb xorb] in H; discriminate.
Qed.

Lemma snd_consp q x : snd (consp q x) = q :: snd x.
Proof. reflexivity. Qed.
Lemma fst_consp q x : fst (consp q x) = fst x.
Proof. reflexivity. Qed.

Theorem quote_closed_fold : forall bs st p a q b,
  okst st ->
  snd (s1_fold false st p bs) = a ++ q :: b ->
  nth_b bs (q - p) = 34 ->
  (b <> [] \/ s_instr (fst (s1_fold false st p bs)) = false) ->
  hc false (skipn (S (q - p)) bs) = true.
Proof.
  induction bs as [|c r IH]; intros st p a q b Hok Hps Hq Hcl.
  - cbn [s1_fold snd] in Hps. destruct a; discriminate.
  - cbn [s1_fold] in Hps, Hcl.
    assert (Hok' : okst (fst (s1_step false st (b2n c)))) by apply okst_step.
    assert (Hrec : forall a', snd (s1_fold false (fst (s1_step false st (b2n c))) (S p) r) = a' ++ q :: b ->
              (b <> [] \/ s_instr (fst (s1_fold false (fst (s1_step false st (b2n c))) (S p) r)) = false) ->
              hc false (skipn (S (q - p)) (c :: r)) = true).
    { intros a' Hps' Hcl'.
      assert (Hr : (S p <= q)%nat).
      { assert (Hin : In q (snd (s1_fold false (fst (s1_step false st (b2n c))) (S p) r))).
        { rewrite Hps'. apply in_or_app. right. left. reflexivity. }
        apply s1_fold_range in Hin. lia. }
      replace (q - p)%nat with (S (q - S p)) in * by lia.
      cbn [skipn]. apply (IH _ (S p) a' q b Hok' Hps'); [|exact Hcl'].
      unfold nth_b in *. cbn [nth] in Hq. exact Hq. }
    destruct (snd (s1_step false st (b2n c))) eqn:Efl.
    + rewrite snd_consp in Hps. rewrite fst_consp in Hcl.
      destruct a as [|x a'].
      * cbn [app] in Hps.
        assert (Hb : snd (s1_fold false (fst (s1_step false st (b2n c))) (S p) r) = b) by congruence.
        assert (Epq : p = q) by congruence. subst q. clear Hps.
        rewrite Nat.sub_diag in *. unfold nth_b in Hq. cbn [nth] in Hq.
        destruct (struct_quote_opens st (b2n c) Hok Hq Efl) as (Hi & Hbo).
        cbn [skipn]. rewrite <- Hbo. apply (in_string_hc r _ (S p) Hi).
        rewrite Hb. exact Hcl.
      * cbn [app] in Hps.
        assert (Hps2 : snd (s1_fold false (fst (s1_step false st (b2n c))) (S p) r) = a' ++ q :: b) by congruence.
        exact (Hrec a' Hps2 Hcl).
    + exact (Hrec a Hps Hcl).
Qed.

(* ------------------------------------------------------------------ *)
(* the positions handed to stage 2                                     *)

Lemma lastmk_not_quote msg a q : lastmk msg (a ++ [q]) -> nth_b msg q <> 34.
Proof.
  unfold lastmk. rewrite rev_app_distr. cbn [rev app]. unfold byte_at.
  intros H E. rewrite E in H. discriminate.
Qed.

Theorem handed_positions_ok msg :
  msg <> [] ->
  let qs := concat (o_bufs (s1_buffers false msg)) in
  Forall (fun b => b <> []) (o_bufs (s1_buffers false msg)) /\
  incr 0 qs /\
  Forall (fun q => (q < length msg)%nat) qs /\
  Forall (fun q => nth_b msg q = 34 -> hc false (skipn (S q) msg) = true) qs.
Proof.
  intros Hne. cbv zeta.
  destruct (s1_buffers_gen msg Hne) as (Hnonempty & (rest & Hps & Hcl) & _). cbv zeta in *.
  set (qs := concat (o_bufs (s1_buffers false msg))) in *.
  set (fin := fst (s1_fold false s1_init 0 msg)) in *.
  split; [exact Hnonempty|]. split; [|split].
  - apply (incr_app_l qs rest). rewrite <- Hps. apply s1_fold_incr.
  - apply Forall_forall. intros q Hq.
    assert (Hin : In q (snd (s1_fold false s1_init 0 msg))) by (rewrite Hps; apply in_or_app; left; exact Hq).
    apply s1_fold_range in Hin. lia.
  - apply Forall_forall. intros q Hq Hbyte.
    apply in_split in Hq. destruct Hq as (a & b & Eqs).
    assert (Hok0 : okst s1_init) by (intros E; discriminate E).
    pose proof (quote_closed_fold msg s1_init 0 a q (b ++ rest) Hok0) as H.
    rewrite !Nat.sub_0_r in H. apply H; [|exact Hbyte|].
    + rewrite Hps, Eqs, <- app_assoc. reflexivity.
    + fold fin. destruct b as [|x b'].
      * cbn [app]. destruct Hcl as [Hr|[Hi|Hm]]; [left; exact Hr|right; exact Hi|].
        exfalso. rewrite Eqs in Hm. exact (lastmk_not_quote msg a q Hm Hbyte).
      * left. discriminate.
Qed.

Print Assumptions handed_positions_ok.
