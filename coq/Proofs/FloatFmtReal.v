(* FloatFmtReal.v — C18, real-number layer (Flocq): a finite positive binary64
   x as a real; "the decimal c*10^k parses back to x's bit pattern" is
   "round-to-nearest-even of c*10^k is x"; monotonicity of that property and
   the classical 17-digit bound. *)
From Coq Require Import ZArith Reals Lia Lra.
From Flocq Require Import Core BinarySingleNaN.
From Coq Require Import Floats.SpecFloat.
From SJ Require Import Model.Base Spec.Json Proofs.NumFloat Proofs.FloatFmtBits.
Local Open Scope Z_scope.

(* value of the positive finite float (m, e) *)
Definition xval (m : positive) (e : Z) : R := F2R (Float radix2 (Zpos m) e).

Lemma xval_pos m e : (0 < xval m e)%R.
Proof. apply F2R_gt_0. reflexivity. Qed.

Lemma format_fexp_FLT x :
  generic_format radix2 (SpecFloat.fexp Json.prec Json.emax) x -> generic_format radix2 b64exp x.
Proof.
  unfold generic_format, scaled_mantissa, cexp. rewrite fexp_is_FLT. intros H; exact H.
Qed.

Lemma xval_format m e :
  SpecFloat.bounded 53 1024 m e = true -> generic_format radix2 b64exp (xval m e).
Proof.
  intros Hb. apply format_fexp_FLT.
  exact (generic_format_B2R Json.prec Json.emax (@B754_finite Json.prec Json.emax false m e Hb)).
Qed.

Lemma xval_lt_emax m e :
  SpecFloat.bounded 53 1024 m e = true -> (xval m e < bpow radix2 1024)%R.
Proof. intros Hb. exact (bounded_lt_emax Json.prec Json.emax m e Hb). Qed.

Lemma rnd64_xval m e : SpecFloat.bounded 53 1024 m e = true -> rnd64 (xval m e) = xval m e.
Proof. intros Hb. apply round_generic; [apply valid_rnd_N|]. apply xval_format. exact Hb. Qed.

(* value of a positive decimal *)
Definition dval (c k : Z) : R := (IZR c * bpow radix10 k)%R.

Lemma dec_val_dval c k : dec_val false c k = dval (Zpos c) k.
Proof. rewrite dec_val_bpow. reflexivity. Qed.

(* dec_to_float always yields a valid, non-NaN value *)
Lemma dec_to_float_valid neg c k :
  SpecFloat.valid_binary 53 1024 (dec_to_float neg (Zpos c) k) = true /\
  dec_to_float neg (Zpos c) k <> S754_nan.
Proof.
  pose proof (dec_to_float_correct neg c k) as Hc. unfold is_rounding_of in Hc.
  destruct (Rlt_bool _ _).
  - destruct Hc as (_ & Hf & _ & Hv). split; [exact Hv|]. intros E. rewrite E in Hf. discriminate Hf.
  - rewrite Hc. split; [reflexivity|discriminate].
Qed.

(* the round-trip test of the search, in real-number words *)
Theorem dec_ok_iff m e c k :
  SpecFloat.bounded 53 1024 m e = true ->
  bits_of_sf (dec_to_float false (Zpos c) k) = bits_of_sf (S754_finite false m e)
  <-> rnd64 (dval (Zpos c) k) = xval m e.
Proof.
  intros Hb. rewrite <- dec_val_dval.
  pose proof (dec_to_float_correct false c k) as Hc. unfold is_rounding_of in Hc.
  destruct (dec_to_float_valid false c k) as [Hv Hn].
  split.
  - intros E.
    assert (Ef : dec_to_float false (Zpos c) k = S754_finite false m e).
    { apply bits_of_sf_inj; [exact Hv|exact Hb|exact Hn|discriminate|exact E]. }
    rewrite Ef in Hc. destruct (Rlt_bool _ _).
    + destruct Hc as (Hr & _). rewrite <- Hr. reflexivity.
    + discriminate Hc.
  - intros E. rewrite E in Hc.
    rewrite Rlt_bool_true in Hc.
    2:{ rewrite Rabs_pos_eq by (apply Rlt_le, xval_pos). apply xval_lt_emax. exact Hb. }
    destruct Hc as (Hr & Hf & Hs & Hv').
    set (f := dec_to_float false (Zpos c) k) in *.
    assert (Ef : f = S754_finite false m e).
    { pose (x1 := @SF2B Json.prec Json.emax f Hv').
      pose (x2 := @B754_finite Json.prec Json.emax false m e Hb).
      assert (E12 : x1 = x2).
      { apply B2R_Bsign_inj.
        - unfold x1. rewrite is_finite_SF2B, <- sf_is_finite_eq. exact Hf.
        - reflexivity.
        - unfold x1. rewrite B2R_SF2B. exact Hr.
        - unfold x1. rewrite Bsign_SF2B. exact Hs. }
      apply (f_equal (@B2SF Json.prec Json.emax)) in E12. unfold x1 in E12.
      rewrite B2SF_SF2B in E12. exact E12. }
    rewrite Ef. reflexivity.
Qed.

(* monotonicity: between a decimal that rounds to x and x itself, everything
   rounds to x *)
Lemma rnd_between_lo x v1 v2 :
  generic_format radix2 b64exp x -> (v1 <= v2)%R -> (v2 <= x)%R -> rnd64 v1 = x -> rnd64 v2 = x.
Proof.
  intros Fx H12 H2x H1. apply Rle_antisym.
  - apply round_le_generic; try assumption; try apply valid_rnd_N; apply FLT_exp_valid; exact Hprec.
  - rewrite <- H1. apply round_le; try assumption; try apply valid_rnd_N; apply FLT_exp_valid; exact Hprec.
Qed.

Lemma rnd_between_hi x v1 v2 :
  generic_format radix2 b64exp x -> (x <= v2)%R -> (v2 <= v1)%R -> rnd64 v1 = x -> rnd64 v2 = x.
Proof.
  intros Fx Hx2 H21 H1. apply Rle_antisym.
  - rewrite <- H1. apply round_le; try assumption; try apply valid_rnd_N; apply FLT_exp_valid; exact Hprec.
  - apply round_ge_generic; try assumption; try apply valid_rnd_N; apply FLT_exp_valid; exact Hprec.
Qed.

(* 17 digits: anything within x * 10^-16 / 2 of x rounds to x *)
Lemma two53_gt : (/ 10000000000000000 * (1 + / 9007199254740992) < / 9007199254740992)%R.
Proof. lra. Qed.

Lemma bpow2_m53 : bpow radix2 (-53) = (/ 9007199254740992)%R.
Proof. change (-53) with (- (53)). rewrite bpow_opp. rewrite <- IZR_Zpower by lia. reflexivity. Qed.

Theorem rnd_near x v :
  generic_format radix2 b64exp x -> (0 < x)%R ->
  (Rabs (v - x) <= x * / 10000000000000000 / 2)%R -> rnd64 v = x.
Proof.
  intros Fx Hx Hv.
  assert (Hvalid : Valid_exp b64exp) by (apply FLT_exp_valid; exact Hprec).
  pose proof two53_gt as Hnum.
  apply Rabs_le_inv in Hv. destruct Hv as [Hlo Hhi].
  apply Rle_antisym.
  - (* upper side: succ x = x + ulp x, ulp x > x * 2^-53 *)
    apply (@round_N_le_midp radix2 b64exp Hvalid); [exact Fx|].
    rewrite succ_eq_pos by (apply Rlt_le; exact Hx).
    pose proof (@ulp_FLT_gt radix2 (-1074) 53 Hprec x) as Hu.
    rewrite Rabs_pos_eq in Hu by (apply Rlt_le; exact Hx). change (bpow radix2 (- (53))) with (bpow radix2 (-53)) in Hu. rewrite bpow2_m53 in Hu.
    set (u := ulp radix2 b64exp x) in *.
    assert (x * / 10000000000000000 < u)%R.
    { apply Rle_lt_trans with (2 := Hu).
      apply Rmult_le_compat_l; [lra|]. lra. }
    lra.
  - (* lower side: x - pred x = ulp (pred x) > pred x * 2^-53 *)
    apply (@round_N_ge_midp radix2 b64exp Hvalid); [exact Fx|].
    pose proof (@pred_plus_ulp radix2 b64exp Hvalid x Hx Fx) as Hp.
    pose proof (@ulp_FLT_gt radix2 (-1074) 53 Hprec (pred radix2 b64exp x)) as Hu.
    assert (Hp0 : (0 <= pred radix2 b64exp x)%R) by (apply (@pred_ge_0 radix2 b64exp Hvalid); [exact Hx|exact Fx]).
    rewrite Rabs_pos_eq in Hu by exact Hp0. change (bpow radix2 (- (53))) with (bpow radix2 (-53)) in Hu. rewrite bpow2_m53 in Hu.
    set (y := pred radix2 b64exp x) in *. set (g := ulp radix2 b64exp y) in *.
    assert (Hg : (x * / 10000000000000000 < g)%R).
    { destruct (Rlt_or_le (x * / 10000000000000000) g) as [H|H]; [exact H|exfalso].
      assert (Hxg : (x * / 9007199254740992 < g * (1 + / 9007199254740992))%R).
      { replace x with (y + g)%R at 1 by exact Hp. lra. }
      assert (g * (1 + / 9007199254740992) <= x * / 10000000000000000 * (1 + / 9007199254740992))%R.
      { apply Rmult_le_compat_r; lra. }
      assert (x * (/ 10000000000000000 * (1 + / 9007199254740992)) < x * / 9007199254740992)%R.
      { apply Rmult_lt_compat_l; [exact Hx|exact Hnum]. }
      lra. }
    lra.
Qed.

(* a valid finite value is determined by its sign and real value *)
Lemma sf_real_inj f g :
  valid_binary Json.prec Json.emax f = true -> valid_binary Json.prec Json.emax g = true ->
  sf_is_finite f = true -> sf_is_finite g = true ->
  SF2R radix2 f = SF2R radix2 g -> sign_SF f = sign_SF g -> f = g.
Proof.
  intros Hf Hg Ff Fg Hr Hs.
  pose (x1 := @SF2B Json.prec Json.emax f Hf).
  pose (x2 := @SF2B Json.prec Json.emax g Hg).
  assert (E12 : x1 = x2).
  { apply B2R_Bsign_inj.
    - unfold x1. rewrite is_finite_SF2B, <- sf_is_finite_eq. exact Ff.
    - unfold x2. rewrite is_finite_SF2B, <- sf_is_finite_eq. exact Fg.
    - unfold x1, x2. rewrite !B2R_SF2B. exact Hr.
    - unfold x1, x2. rewrite !Bsign_SF2B. exact Hs. }
  apply (f_equal (@B2SF Json.prec Json.emax)) in E12. unfold x1, x2 in E12.
  rewrite !B2SF_SF2B in E12. exact E12.
Qed.

Lemma is_rounding_of_unique s r f g : is_rounding_of s r f -> is_rounding_of s r g -> f = g.
Proof.
  unfold is_rounding_of. destruct (Rlt_bool _ _).
  - intros (A1 & A2 & A3 & A4) (B1 & B2 & B3 & B4).
    apply sf_real_inj; try assumption; congruence.
  - intros -> ->. reflexivity.
Qed.

(* dec_to_float depends only on the value of the decimal *)
Theorem dec_to_float_ext s c1 k1 c2 k2 :
  (0 < c1)%Z -> (0 < c2)%Z -> dval c1 k1 = dval c2 k2 ->
  dec_to_float s c1 k1 = dec_to_float s c2 k2.
Proof.
  intros H1 H2 E. destruct c1 as [|q1|q1]; try lia. destruct c2 as [|q2|q2]; try lia.
  apply (is_rounding_of_unique s (dec_val s q1 k1)).
  - apply dec_to_float_correct.
  - replace (dec_val s q1 k1) with (dec_val s q2 k2); [apply dec_to_float_correct|].
    rewrite !dec_val_bpow. unfold dval in E.
    destruct s; unfold cond_Zopp; rewrite ?opp_IZR; lra.
Qed.

(* ------------------------------------------------------------------ *)
(* sign: dec_to_float with the other sign is the same value, sign flipped *)

Definition sf_with_sign (s : bool) (f : spec_float) : spec_float :=
  match f with
  | S754_zero _ => S754_zero s
  | S754_infinity _ => S754_infinity s
  | S754_nan => S754_nan
  | S754_finite _ m e => S754_finite s m e
  end.

Lemma binary_round_aux_sign s mz ez lz :
  SpecFloat.binary_round_aux Json.prec Json.emax s mz ez lz
  = sf_with_sign s (SpecFloat.binary_round_aux Json.prec Json.emax false mz ez lz).
Proof.
  unfold SpecFloat.binary_round_aux.
  destruct (shr_fexp Json.prec Json.emax mz ez lz) as [mrs' e'].
  destruct (shr_fexp Json.prec Json.emax _ e' loc_Exact) as [mrs'' e''].
  destruct (shr_m mrs''); try reflexivity.
  destruct (Zle_bool e'' (Json.emax - Json.prec)); reflexivity.
Qed.

Lemma dec_to_float_sign s c k :
  dec_to_float s c k = sf_with_sign s (dec_to_float false c k).
Proof.
  unfold dec_to_float. destruct c as [|p|p]; try reflexivity.
  destruct (310 <? k + ndigits p); [reflexivity|].
  destruct (k + ndigits p <? -330); [reflexivity|].
  unfold dec_round.
  destruct (SFdiv_core_binary Json.prec Json.emax _ 0 _ 0) as [[mz ez] lz].
  apply binary_round_aux_sign.
Qed.

Lemma bits_of_sf_with_sign s f :
  f <> S754_nan ->
  bits_of_sf (sf_with_sign s f) = ((if s then two63 else 0) + bits_of_sf (sf_with_sign false f))%N.
Proof.
  intros Hn. destruct f as [s0|s0| |s0 m e]; try congruence; cbn [sf_with_sign].
  - unfold bits_of_sf. rewrite N.add_0_r. reflexivity.
  - unfold bits_of_sf. rewrite (N.add_0_l 9218868437227405312). reflexivity.
  - apply bits_of_sf_sign.
Qed.

Print Assumptions dec_ok_iff.
Print Assumptions rnd_near.
