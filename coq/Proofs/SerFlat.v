(* SerFlat.v — a flat (left-to-right, stack-based) characterisation of tape
   well-formedness, in the form both Serialize and Deserialize traverse the
   tape, and the proof that [wf_check] implies it. *)
From Coq Require Import ZifyBool ZifyN ZifyNat.
From SJ Require Import Model.Base Model.RefTables Spec.Json Model.Tape Model.Iter Model.WF Model.Serialize.
From SJ Require Import Proofs.StrArith Proofs.Stage2Base Proofs.DeserSafe Proofs.SerBase.
Open Scope N_scope.

(* concatenation of NOP runs, each word of a run holding the distance to the
   run's end *)
Inductive nruns : list N -> Prop :=
| nruns_nil : nruns []
| nruns_cons k ns : (0 < k)%nat -> N.of_nat k < two56 -> nruns ns -> nruns (nrun k ++ ns).

Definition head_not_nop (r : list N) : Prop :=
  match r with [] => True | w :: _ => (word_tag w =? TagNop) = false end.

(* open containers / roots: (position of the opening word, its payload, its tag) *)
Definition stack := list (N * N * N).

Definition in_bound (stk : stack) (j : N) : Prop :=
  match stk with [] => True | (_, v, _) :: _ => j < v end.

Definition is_opent (t : N) : Prop := t = TagObjectStart \/ t = TagArrayStart \/ t = TagRoot.

Lemma in_bound_le stk j j' : j' <= j -> in_bound stk j -> in_bound stk j'.
Proof. destruct stk as [|[[q v] t] stk]; cbn [in_bound]; [auto|lia]. Qed.

Section Flat.
Variables nmsg nstr : N.

Inductive flat_ok : stack -> N -> list N -> Prop :=
| F_nil off : flat_ok [] off []
| F_nops stk off ns r :
    ns <> [] -> nruns ns -> head_not_nop r ->
    flat_ok stk (off + N.of_nat (length ns)) r -> flat_ok stk off (ns ++ r)
| F_str stk off w len r :
    word_tag w = TagString -> str_ok nmsg nstr (word_val w) len = true ->
    in_bound stk (off + 2) -> flat_ok stk (off + 2) r -> flat_ok stk off (w :: len :: r)
| F_num stk off w v r :
    word_tag w = TagInteger \/ word_tag w = TagUint -> word_val w = 0 ->
    in_bound stk (off + 2) -> flat_ok stk (off + 2) r -> flat_ok stk off (w :: v :: r)
| F_flt stk off w v r :
    word_tag w = TagFloat ->
    in_bound stk (off + 2) -> flat_ok stk (off + 2) r -> flat_ok stk off (w :: v :: r)
| F_atom stk off w r :
    word_tag w = TagNull \/ word_tag w = TagBoolTrue \/ word_tag w = TagBoolFalse -> word_val w = 0 ->
    in_bound stk (off + 1) -> flat_ok stk (off + 1) r -> flat_ok stk off (w :: r)
| F_open stk off w r :
    is_opent (word_tag w) -> in_bound stk (word_val w) ->
    flat_ok ((off, word_val w, word_tag w) :: stk) (off + 1) r -> flat_ok stk off (w :: r)
| F_close stk off w r q t :
    is_opent t -> word_tag w = tagOpenToClose_ref t -> word_val w = q ->
    flat_ok stk (off + 1) r -> flat_ok ((q, off + 1, t) :: stk) off (w :: r).

Lemma flat_ok_bound stk off r : flat_ok stk off r -> in_bound stk off.
Proof.
  induction 1 as [off|stk off ns r Hne Hns Hh H IH|stk off w len r Ht Hs Hb H IH|stk off w v r Ht Hv Hb H IH
                 |stk off w v r Ht Hb H IH|stk off w r Ht Hv Hb H IH|stk off w r Ht Hb H IH|stk off w r q t Ht Hw Hq H IH].
  - exact I.
  - eapply in_bound_le; [|exact IH]; lia.
  - eapply in_bound_le; [|exact Hb]; lia.
  - eapply in_bound_le; [|exact Hb]; lia.
  - eapply in_bound_le; [|exact Hb]; lia.
  - eapply in_bound_le; [|exact Hb]; lia.
  - cbn [in_bound] in IH. eapply in_bound_le; [|exact Hb]; lia.
  - cbn [in_bound]. lia.
Qed.

(* every open entry's end lies inside the remaining tape *)
Lemma flat_ok_stack_le stk off r : flat_ok stk off r ->
  forall q v t, In (q, v, t) stk -> v <= off + N.of_nat (length r).
Proof.
  induction 1 as [off|stk0 off ns r Hne Hns Hh H IH|stk0 off w len r Ht Hs Hb H IH|stk0 off w v0 r Ht Hv Hb H IH
                 |stk0 off w v0 r Ht Hb H IH|stk0 off w r Ht Hv Hb H IH|stk0 off w r Ht Hb H IH|stk0 off w r q0 t0 Ht Hw Hq H IH];
    intros q v t Hin.
  - destruct Hin.
  - specialize (IH _ _ _ Hin). rewrite app_length. lia.
  - specialize (IH _ _ _ Hin). cbn [length]. lia.
  - specialize (IH _ _ _ Hin). cbn [length]. lia.
  - specialize (IH _ _ _ Hin). cbn [length]. lia.
  - specialize (IH _ _ _ Hin). cbn [length]. lia.
  - specialize (IH q v t (or_intror Hin)). cbn [length]. lia.
  - cbn [length]. destruct Hin as [Hin|Hin].
    + injection Hin as <- <- <-. lia.
    + specialize (IH _ _ _ Hin). lia.
Qed.

Lemma flat_ok_top_le stk off r q v t : flat_ok ((q, v, t) :: stk) off r -> v <= off + N.of_nat (length r).
Proof. intros H. apply (flat_ok_stack_le _ _ _ H q v t). left. reflexivity. Qed.

Lemma flat_nops stk off ns r :
  nruns ns -> head_not_nop r -> flat_ok stk (off + N.of_nat (length ns)) r -> flat_ok stk off (ns ++ r).
Proof.
  intros Hns Hh H. destruct ns as [|x ns].
  - cbn [length app] in *. rewrite N.add_0_r in H. exact H.
  - apply F_nops; [discriminate|exact Hns|exact Hh|exact H].
Qed.

(* ------------------------------------------------------------------ *)
(* wf_check implies flat_ok                                            *)

Variable nops : bool.

Lemma nop_run_S f i rest target :
  nop_run (S f) i rest target =
    if i =? target then Some (i, rest)
    else match rest with
         | w :: r => if (word_tag w =? TagNop) && (word_val w =? target - i) && (i <? target) then nop_run f (i + 1) r target else None
         | [] => None
         end.
Proof. reflexivity. Qed.

Lemma nop_run_spec : forall f i rest target j r,
  nop_run f i rest target = Some (j, r) ->
  j = target /\ i <= target /\ rest = nrun (N.to_nat (target - i)) ++ r.
Proof.
  induction f as [|f IH]; intros i rest target j r H; [discriminate|].
  rewrite nop_run_S in H.
  destruct (i =? target) eqn:E.
  - injection H as <- <-. apply N.eqb_eq in E. subst.
    rewrite N.sub_diag. cbn [N.to_nat nrun app]. repeat split; lia.
  - destruct rest as [|w r0]; [discriminate|].
    destruct ((word_tag w =? TagNop) && (word_val w =? target - i) && (i <? target)) eqn:Ec; [|discriminate].
    apply andb_true_iff in Ec. destruct Ec as [Ec Hlt]. apply andb_true_iff in Ec. destruct Ec as [Htag Hval].
    apply N.eqb_eq in Htag, Hval. apply N.ltb_lt in Hlt.
    destruct (IH _ _ _ _ _ H) as (Hj & Hle & Hr).
    split; [exact Hj|]. split; [lia|].
    replace (N.to_nat (target - i)) with (S (N.to_nat (target - (i + 1)))) by lia.
    cbn [nrun app]. rewrite <- Hr. f_equal.
    apply word_of_tag_val; [exact Htag|]. rewrite Hval. lia.
Qed.

Lemma skip_runs_S f i rest :
  skip_runs nops (S f) i rest =
    match rest with
    | w :: _ =>
      if word_tag w =? TagNop then
        if negb nops || (word_val w =? 0) then None
        else match nop_run (S (N.to_nat (word_val w))) i rest (i + word_val w) with
             | Some (j, r) => skip_runs nops f j r
             | None => None
             end
      else Some (i, rest)
    | [] => Some (i, rest)
    end.
Proof. reflexivity. Qed.

Lemma skip_runs_spec : forall f i rest j r,
  skip_runs nops f i rest = Some (j, r) ->
  exists ns, rest = ns ++ r /\ nruns ns /\ j = i + N.of_nat (length ns) /\ head_not_nop r.
Proof.
  induction f as [|f IH]; intros i rest j r H; [discriminate|].
  rewrite skip_runs_S in H.
  destruct rest as [|w rest0].
  { injection H as <- <-. exists []. repeat split; [constructor|cbn [length]; lia]. }
  destruct (word_tag w =? TagNop) eqn:Et.
  2:{ injection H as <- <-. exists []. repeat split; [constructor|cbn [length]; lia|exact Et]. }
  destruct (negb nops || (word_val w =? 0)) eqn:En; [discriminate|].
  apply orb_false_iff in En. destruct En as [_ Hnz]. apply N.eqb_neq in Hnz.
  destruct (nop_run (S (N.to_nat (word_val w))) i (w :: rest0) (i + word_val w)) as [[j1 r1]|] eqn:Er; [|discriminate].
  destruct (nop_run_spec _ _ _ _ _ _ Er) as (Hj1 & _ & Hr1).
  destruct (IH _ _ _ _ H) as (ns & Hr & Hns & Hj & Hh).
  replace (i + word_val w - i) with (word_val w) in Hr1 by lia.
  exists (nrun (N.to_nat (word_val w)) ++ ns).
  split; [rewrite Hr1, Hr, app_assoc; reflexivity|].
  split; [constructor; [lia| |exact Hns]|].
  { rewrite N2Nat.id. apply word_val_lt. }
  split; [|exact Hh].
  rewrite app_length, nrun_length. lia.
Qed.

Lemma wf_value_S f i rest :
  wf_value nmsg nstr nops (S f) i rest =
    match rest with
    | [] => None
    | w :: r =>
      let t := word_tag w in
      let v := word_val w in
      if t =? TagString then
        match r with len :: r' => if str_ok nmsg nstr v len then Some (i + 2, r') else None | [] => None end
      else if (t =? TagInteger) || (t =? TagUint) then
        match r with _ :: r' => if v =? 0 then Some (i + 2, r') else None | [] => None end
      else if t =? TagFloat then
        match r with _ :: r' => Some (i + 2, r') | [] => None end
      else if (t =? TagNull) || (t =? TagBoolTrue) || (t =? TagBoolFalse) then
        if v =? 0 then Some (i + 1, r) else None
      else if t =? TagArrayStart then wf_elems nmsg nstr nops f i (i + 1) r v
      else if t =? TagObjectStart then wf_members nmsg nstr nops f i (i + 1) r v
      else None
    end.
Proof. reflexivity. Qed.

Lemma wf_elems_S f start i rest endp1 :
  wf_elems nmsg nstr nops (S f) start i rest endp1 =
    match skip_runs nops f i rest with
    | None => None
    | Some (i', rest') =>
      match rest' with
      | [] => None
      | w :: r =>
        if word_tag w =? TagArrayEnd then
          if (word_val w =? start) && (i' + 1 =? endp1) then Some (i' + 1, r) else None
        else match wf_value nmsg nstr nops f i' rest' with
             | Some (j, r') => if j <? endp1 then wf_elems nmsg nstr nops f start j r' endp1 else None
             | None => None
             end
      end
    end.
Proof. reflexivity. Qed.

Lemma wf_members_S f start i rest endp1 :
  wf_members nmsg nstr nops (S f) start i rest endp1 =
    match skip_runs nops f i rest with
    | None => None
    | Some (i', rest') =>
      match rest' with
      | [] => None
      | w :: r =>
        if word_tag w =? TagObjectEnd then
          if (word_val w =? start) && (i' + 1 =? endp1) then Some (i' + 1, r) else None
        else if word_tag w =? TagString then
          match r with
          | len :: r1 =>
            if str_ok nmsg nstr (word_val w) len then
              match skip_runs nops f (i' + 2) r1 with
              | Some (i2, r2) =>
                match wf_value nmsg nstr nops f i2 r2 with
                | Some (j, r') => if j <? endp1 then wf_members nmsg nstr nops f start j r' endp1 else None
                | None => None
                end
              | None => None
              end
            else None
          | [] => None
          end
        else None
      end
    end.
Proof. reflexivity. Qed.

Lemma wf_flat : forall f,
  (forall i rest j r stk, wf_value nmsg nstr nops f i rest = Some (j, r) ->
     flat_ok stk j r -> flat_ok stk i rest) /\
  (forall start i rest endp1 j r stk, wf_elems nmsg nstr nops f start i rest endp1 = Some (j, r) ->
     flat_ok stk j r -> j = endp1 /\ flat_ok ((start, endp1, TagArrayStart) :: stk) i rest) /\
  (forall start i rest endp1 j r stk, wf_members nmsg nstr nops f start i rest endp1 = Some (j, r) ->
     flat_ok stk j r -> j = endp1 /\ flat_ok ((start, endp1, TagObjectStart) :: stk) i rest).
Proof.
  induction f as [|f (IHv & IHe & IHm)].
  { repeat split; intros; discriminate. }
  split; [|split].
  - (* value *)
    intros i rest j r stk H Hk. rewrite wf_value_S in H.
    destruct rest as [|w r0]; [discriminate|]. cbv zeta in H.
    destruct (word_tag w =? TagString) eqn:E1.
    { destruct r0 as [|len r']; [discriminate|].
      destruct (str_ok nmsg nstr (word_val w) len) eqn:Es; [|discriminate].
      injection H as <- <-. apply N.eqb_eq in E1.
      apply F_str; [exact E1|exact Es|apply (flat_ok_bound _ _ _ Hk)|exact Hk]. }
    destruct ((word_tag w =? TagInteger) || (word_tag w =? TagUint)) eqn:E2.
    { destruct r0 as [|x r']; [discriminate|].
      destruct (word_val w =? 0) eqn:Ev; [|discriminate].
      injection H as <- <-. apply N.eqb_eq in Ev.
      apply F_num; [|exact Ev|apply (flat_ok_bound _ _ _ Hk)|exact Hk].
      apply orb_true_iff in E2. destruct E2 as [E2|E2]; apply N.eqb_eq in E2; auto. }
    destruct (word_tag w =? TagFloat) eqn:E3.
    { destruct r0 as [|x r']; [discriminate|].
      injection H as <- <-. apply N.eqb_eq in E3.
      apply F_flt; [exact E3|apply (flat_ok_bound _ _ _ Hk)|exact Hk]. }
    destruct ((word_tag w =? TagNull) || (word_tag w =? TagBoolTrue) || (word_tag w =? TagBoolFalse)) eqn:E4.
    { destruct (word_val w =? 0) eqn:Ev; [|discriminate].
      injection H as <- <-. apply N.eqb_eq in Ev.
      apply F_atom; [|exact Ev|apply (flat_ok_bound _ _ _ Hk)|exact Hk].
      apply orb_true_iff in E4. destruct E4 as [E4|E4]; [apply orb_true_iff in E4; destruct E4 as [E4|E4]|];
        apply N.eqb_eq in E4; auto. }
    destruct (word_tag w =? TagArrayStart) eqn:E5.
    { apply N.eqb_eq in E5. destruct (IHe _ _ _ _ _ _ stk H Hk) as [Hj Hf].
      apply F_open; [right; left; exact E5| |rewrite E5; exact Hf].
      rewrite <- Hj. apply (flat_ok_bound _ _ _ Hk). }
    destruct (word_tag w =? TagObjectStart) eqn:E6; [|discriminate].
    apply N.eqb_eq in E6. destruct (IHm _ _ _ _ _ _ stk H Hk) as [Hj Hf].
    apply F_open; [left; exact E6| |rewrite E6; exact Hf].
    rewrite <- Hj. apply (flat_ok_bound _ _ _ Hk).
  - (* elements *)
    intros start i rest endp1 j r stk H Hk. rewrite wf_elems_S in H.
    destruct (skip_runs nops f i rest) as [[i' rest']|] eqn:Esk; [|discriminate].
    destruct (skip_runs_spec _ _ _ _ _ Esk) as (ns & Hrest & Hns & Hi' & Hh).
    destruct rest' as [|w r1]; [discriminate|].
    destruct (word_tag w =? TagArrayEnd) eqn:Ee.
    { destruct ((word_val w =? start) && (i' + 1 =? endp1)) eqn:Ec; [|discriminate].
      injection H as <- <-. apply andb_true_iff in Ec. destruct Ec as [Ev Ep].
      apply N.eqb_eq in Ev, Ep, Ee. split; [exact Ep|].
      rewrite Hrest. apply flat_nops; [exact Hns|exact Hh|]. rewrite <- Hi', <- Ep.
      apply F_close; [right; left; reflexivity|exact Ee|exact Ev|exact Hk]. }
    destruct (wf_value nmsg nstr nops f i' (w :: r1)) as [[j1 r']|] eqn:Ev; [|discriminate].
    destruct (j1 <? endp1) eqn:Elt; [|discriminate].
    destruct (IHe _ _ _ _ _ _ stk H Hk) as [Hj Hf]. split; [exact Hj|].
    rewrite Hrest. apply flat_nops; [exact Hns|exact Hh|]. rewrite <- Hi'.
    apply (IHv _ _ _ _ _ Ev Hf).
  - (* members *)
    intros start i rest endp1 j r stk H Hk. rewrite wf_members_S in H.
    destruct (skip_runs nops f i rest) as [[i' rest']|] eqn:Esk; [|discriminate].
    destruct (skip_runs_spec _ _ _ _ _ Esk) as (ns & Hrest & Hns & Hi' & Hh).
    destruct rest' as [|w r1]; [discriminate|].
    destruct (word_tag w =? TagObjectEnd) eqn:Ee.
    { destruct ((word_val w =? start) && (i' + 1 =? endp1)) eqn:Ec; [|discriminate].
      injection H as <- <-. apply andb_true_iff in Ec. destruct Ec as [Ev Ep].
      apply N.eqb_eq in Ev, Ep, Ee. split; [exact Ep|].
      rewrite Hrest. apply flat_nops; [exact Hns|exact Hh|]. rewrite <- Hi', <- Ep.
      apply F_close; [left; reflexivity|exact Ee|exact Ev|exact Hk]. }
    destruct (word_tag w =? TagString) eqn:Es; [|discriminate].
    destruct r1 as [|len r1]; [discriminate|].
    destruct (str_ok nmsg nstr (word_val w) len) eqn:Eok; [|discriminate].
    destruct (skip_runs nops f (i' + 2) r1) as [[i2 r2]|] eqn:Esk2; [|discriminate].
    destruct (skip_runs_spec _ _ _ _ _ Esk2) as (ns2 & Hr1 & Hns2 & Hi2 & Hh2).
    destruct (wf_value nmsg nstr nops f i2 r2) as [[j1 r']|] eqn:Ev; [|discriminate].
    destruct (j1 <? endp1) eqn:Elt; [|discriminate].
    destruct (IHm _ _ _ _ _ _ stk H Hk) as [Hj Hf]. split; [exact Hj|].
    rewrite Hrest. apply flat_nops; [exact Hns|exact Hh|]. rewrite <- Hi'.
    pose proof (IHv _ _ _ _ _ Ev Hf) as Hf2.
    assert (Hf1 : flat_ok ((start, endp1, TagObjectStart) :: stk) (i' + 2) r1).
    { rewrite Hr1. apply flat_nops; [exact Hns2|exact Hh2|]. rewrite <- Hi2. exact Hf2. }
    apply N.eqb_eq in Es.
    apply F_str; [exact Es|exact Eok|apply (flat_ok_bound _ _ _ Hf1)|exact Hf1].
Qed.

Lemma wf_roots_S f i rest :
  wf_roots nmsg nstr nops (S f) i rest =
    match skip_runs nops f i rest with
    | None => false
    | Some (i', rest') =>
      match rest' with
      | [] => true
      | w :: r =>
        if word_tag w =? TagRoot then
          match skip_runs nops f (i' + 1) r with
          | Some (i1, r1) =>
            match wf_value nmsg nstr nops f i1 r1 with
            | Some (j, r2) =>
              match skip_runs nops f j r2 with
              | Some (j', c :: r3) =>
                (word_tag c =? TagRoot) && (word_val c =? i') && (word_val w =? j' + 1) && wf_roots nmsg nstr nops f (j' + 1) r3
              | _ => false
              end
            | None => false
            end
          | None => false
          end
        else false
      end
    end.
Proof. reflexivity. Qed.

Lemma wf_roots_flat : forall f i rest, wf_roots nmsg nstr nops f i rest = true -> flat_ok [] i rest.
Proof.
  induction f as [|f IH]; intros i rest H; [discriminate|].
  rewrite wf_roots_S in H.
  destruct (skip_runs nops f i rest) as [[i' rest']|] eqn:Esk; [|discriminate].
  destruct (skip_runs_spec _ _ _ _ _ Esk) as (ns & Hrest & Hns & Hi' & Hh).
  rewrite Hrest. apply flat_nops; [exact Hns|exact Hh|]. rewrite <- Hi'.
  destruct rest' as [|w r]; [constructor|].
  destruct (word_tag w =? TagRoot) eqn:Et; [|discriminate].
  destruct (skip_runs nops f (i' + 1) r) as [[i1 r1]|] eqn:Esk1; [|discriminate].
  destruct (skip_runs_spec _ _ _ _ _ Esk1) as (ns1 & Hr & Hns1 & Hi1 & Hh1).
  destruct (wf_value nmsg nstr nops f i1 r1) as [[j r2]|] eqn:Ev; [|discriminate].
  destruct (skip_runs nops f j r2) as [[j' [|c r3]]|] eqn:Esk2; try discriminate.
  destruct (skip_runs_spec _ _ _ _ _ Esk2) as (ns2 & Hr2 & Hns2 & Hj' & Hh2).
  apply andb_true_iff in H. destruct H as [H Hroots].
  apply andb_true_iff in H. destruct H as [H Hw].
  apply andb_true_iff in H. destruct H as [Hc Hcv].
  apply N.eqb_eq in Et, Hc, Hcv, Hw.
  apply IH in Hroots.
  assert (F3 : flat_ok [(i', j' + 1, TagRoot)] j' (c :: r3)).
  { apply F_close; [right; right; reflexivity|exact Hc|exact Hcv|exact Hroots]. }
  assert (F2 : flat_ok [(i', j' + 1, TagRoot)] j r2).
  { rewrite Hr2. apply flat_nops; [exact Hns2|exact Hh2|]. rewrite <- Hj'. exact F3. }
  pose proof (proj1 (wf_flat f) _ _ _ _ _ Ev F2) as F1.
  assert (F0 : flat_ok [(i', j' + 1, TagRoot)] (i' + 1) r).
  { rewrite Hr. apply flat_nops; [exact Hns1|exact Hh1|]. rewrite <- Hi1. exact F1. }
  apply F_open; [right; right; exact Et|exact I|]. rewrite Et, Hw. exact F0.
Qed.

End Flat.

Theorem wf_check_flat nops pj : wf_check nops pj = true ->
  flat_ok (N.of_nat (length (pj_msg pj))) (N.of_nat (length (pj_strings pj))) [] 0 (pj_tape pj).
Proof. unfold wf_check. apply wf_roots_flat. Qed.
