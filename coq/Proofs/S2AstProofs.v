(* S2AstProofs.v — the hand-written stage-2 model (Model/Stage2.v) expressed as a
   table of decision trees, and the theorem that ANY translated program whose
   decision table equals it runs exactly like Stage2.run2.  The table equality
   itself is a closed computation over 11 sites x 256 characters, discharged
   for the program regenerated from /repo in Tie/Stage2AstTie.v. *)
From Coq Require Import String Lia.
From SJ Require Import Model.Base Model.RefTables Model.Number Model.Str Model.Stage2 Model.S2Ast Proofs.StrArith.
Open Scope N_scope.

Definition NSITES : nat := 11.

Definition site_of (l : label) : nat :=
  match l with
  | L_start => 0 | L_startContinue => 1 | L_ndSkip => 2
  | L_objBegin => 3 | L_objColon => 4 | L_objValue => 5 | L_objCont => 6 | L_objKey => 7
  | L_arrBegin => 8 | L_arrCont => 9 | L_arrValue => 10
  end%nat.

Definition label_of (k : nat) : option label :=
  match k with
  | 0 => Some L_start | 1 => Some L_startContinue | 2 => Some L_ndSkip
  | 3 => Some L_objBegin | 4 => Some L_objColon | 5 => Some L_objValue | 6 => Some L_objCont | 7 => Some L_objKey
  | 8 => Some L_arrBegin | 9 => Some L_arrCont | 10 => Some L_arrValue
  | _ => None
  end%nat.

Lemma label_of_site l : label_of (site_of l) = Some l.
Proof. destruct l; reflexivity. Qed.

Lemma label_of_some k l : label_of k = Some l -> k = site_of l.
Proof.
  do 11 (destruct k as [|k]; [intros H; inversion H; reflexivity|]). discriminate.
Qed.

Lemma label_of_lt k : (k <? NSITES)%nat = true <-> label_of k <> None.
Proof.
  do 11 (destruct k as [|k]; [split; [discriminate|reflexivity]|]).
  split; [discriminate|]. intros H; exfalso; apply H; reflexivity.
Qed.

(* --- the model as decision trees -------------------------------------- *)

Definition dfail : dec := DReturn false.

Definition d_continue_root (c : N) : dec :=
  if c =? cLBRACE then DPush retStart (DWrite0 cLBRACE (DNext 3))
  else if c =? cLBRACK then DPush retStart (DWrite0 cLBRACK (DNext 8))
  else dfail.

Definition d_scope_end : dec :=
  DLoadOffset (DDropScope (DWriteOffCur (DAnnotate false
    (DSwitchRet [(retArray, DNext 9); (retObject, DNext 6)] (DNext 1))))).

Definition d_value (c ret : N) (cont : nat) : dec :=
  if c =? cQUOTE then DString dfail (DNext cont)
  else if c =? c_t then DAtom AkTrue dfail (DWrite0 c_t (DNext cont))
  else if c =? c_f then DAtom AkFalse dfail (DWrite0 c_f (DNext cont))
  else if c =? c_n then DAtom AkNull dfail (DWrite0 c_n (DNext cont))
  else if (c =? cMINUS) || is_digit c then DNumber dfail (DNext cont)
  else if c =? cLBRACE then DPush ret (DWrite0 cLBRACE (DNext 3))
  else if c =? cLBRACK then DPush ret (DWrite0 cLBRACK (DNext 8))
  else dfail.

Definition d_cycle_root (c : N) : dec :=
  DLoadOffset (DDropScope (DAnnotate true (DWriteOff TagRoot (DPush retStart (DWrite0 TagRoot (d_continue_root c)))))).

Definition model_dec (k : nat) (c : N) : dec :=
  match k with
  | 0%nat => d_continue_root c
  | 1%nat => if c =? cLF then DNext 2 else dfail
  | 2%nat => if c =? cLF then DNext 2 else d_cycle_root c
  | 3%nat => if c =? cQUOTE then DString dfail (DNext 4) else if c =? cRBRACE then d_scope_end else dfail
  | 4%nat => if c =? cCOLON then DNext 5 else dfail
  | 5%nat => d_value c retObject 6
  | 6%nat => if c =? cCOMMA then DNext 7 else if c =? cRBRACE then d_scope_end else dfail
  | 7%nat => if c =? cQUOTE then DString dfail (DNext 4) else dfail
  | 8%nat => if c =? cRBRACK then d_scope_end else d_value c retArray 9
  | 9%nat => if c =? cCOMMA then DNext 10 else if c =? cRBRACK then d_scope_end else dfail
  | 10%nat => d_value c retArray 9
  | _ => DStuck
  end.

Definition model_entry : dec := DPrologue (DPush retStart (DWrite0 TagRoot (DNext 0))).
Definition model_succeed : dec :=
  DLoadOffset (DDropScope (DStackNonEmpty (DReturn false)
    (DAnnotate true (DWriteOff TagRoot (DSetValid (DReturn true)))))).

Definition to_step (r : rres) : step_res :=
  match r with
  | RNext k m => match label_of k with Some l => Next l m | None => SCrash end
  | RRet false _ => Fail
  | RRet true _ => SCrash
  | RCrash => SCrash
  | RFuel => SFuelOut
  end.

(* --- the model's step IS the decision table --------------------------- *)

Lemma scope_end_dec copy m c :
  to_step (run_dec copy d_scope_end m 0 c) = scope_end m c.
Proof.
  unfold d_scope_end, scope_end. cbn [run_dec].
  destruct (stack m) as [|o st] eqn:Hs; [reflexivity|].
  cbn [stack set_stack].
  destruct (annotate (write_tape (set_stack m st) (o / 4) c) (o / 4) (tlen (write_tape (set_stack m st) (o / 4) c))) as [m3| | |] eqn:Ha;
    try reflexivity.
  destruct (o mod 4 =? retArray); [reflexivity|].
  destruct (o mod 4 =? retObject); reflexivity.
Qed.

Lemma do_string_dec copy m k :
  (k < NSITES)%nat ->
  to_step (run_dec copy (DString dfail (DNext k)) m 0 0) =
  do_string copy m (fun m' => match label_of k with Some l => Next l m' | None => SCrash end).
Proof.
  intros _. unfold do_string. cbn [run_dec].
  destruct (parse_string_model (cur m) (idx1 m - 1) (peek_size m) copy (slen m) (sfuel m)); reflexivity.
Qed.

Lemma run_dec_string_ch copy kf ko m off c c' :
  (forall m, run_dec copy kf m off c = run_dec copy kf m off c') ->
  (forall m, run_dec copy ko m off c = run_dec copy ko m off c') ->
  run_dec copy (DString kf ko) m off c = run_dec copy (DString kf ko) m off c'.
Proof.
  intros Hf Ho. cbn [run_dec].
  destruct (parse_string_model (cur m) (idx1 m - 1) (peek_size m) copy (slen m) (sfuel m)); auto.
Qed.

Lemma value_switch_dec copy m c ret cont l :
  label_of cont = Some l ->
  to_step (run_dec copy (d_value c ret cont) m 0 c) = value_switch copy m c ret l.
Proof.
  intros Hl. unfold d_value, value_switch.
  destruct (c =? cQUOTE).
  { unfold do_string. cbn [run_dec].
    destruct (parse_string_model (cur m) (idx1 m - 1) (peek_size m) copy (slen m) (sfuel m)); cbn [to_step]; try rewrite Hl; reflexivity. }
  destruct (c =? c_t).
  { cbn [run_dec atom_ok]. destruct (is_true_atom (cur m)); cbn [run_dec to_step dfail]; try rewrite Hl; reflexivity. }
  destruct (c =? c_f).
  { cbn [run_dec atom_ok]. destruct (is_false_atom (cur m)); cbn [run_dec to_step dfail]; try rewrite Hl; reflexivity. }
  destruct (c =? c_n).
  { cbn [run_dec atom_ok]. destruct (is_null_atom (cur m)); cbn [run_dec to_step dfail]; try rewrite Hl; reflexivity. }
  destruct ((c =? cMINUS) || is_digit c).
  { cbn [run_dec]. destruct (parse_number_model (cur m)) as [[w1 w2]|]; cbn [run_dec to_step dfail]; try rewrite Hl; reflexivity. }
  destruct (c =? cLBRACE); [reflexivity|].
  destruct (c =? cLBRACK); reflexivity.
Qed.

Lemma continue_root_dec copy m c :
  to_step (run_dec copy (d_continue_root c) m 0 c) = continue_root m c.
Proof.
  unfold d_continue_root, continue_root.
  destruct (c =? cLBRACE); [reflexivity|]. destruct (c =? cLBRACK); reflexivity.
Qed.

(* run_dec of d_continue_root does not use the offset register *)
Lemma continue_root_dec_off copy m c off :
  run_dec copy (d_continue_root c) m off c = run_dec copy (d_continue_root c) m 0 c.
Proof.
  unfold d_continue_root.
  destruct (c =? cLBRACE); [reflexivity|]. destruct (c =? cLBRACK); reflexivity.
Qed.

Lemma cycle_root_dec copy m c :
  to_step (run_dec copy (d_cycle_root c) m 0 c) =
  match cycle_root m with Ok m'' => continue_root m'' c | _ => SCrash end.
Proof.
  unfold d_cycle_root, cycle_root. cbn [run_dec].
  destruct (stack m) as [|o st] eqn:Hs; [reflexivity|].
  cbn [stack set_stack].
  cbn [tlen set_stack].
  destruct (annotate (set_stack m st) (o / 4) (tlen m + addOneForRoot)) as [m2'| | |] eqn:Ha; cbn [obind]; try reflexivity.
  rewrite continue_root_dec_off. apply continue_root_dec.
Qed.

Definition step_body (copy : bool) (l : label) (m' : m2) (c : N) : step_res :=
  match l with
  | L_start => continue_root m' c
  | L_startContinue => if c =? cLF then Next L_ndSkip m' else Fail
  | L_ndSkip =>
    if c =? cLF then Next L_ndSkip m'
    else match cycle_root m' with
         | Ok m'' => continue_root m'' c
         | _ => SCrash
         end
  | L_objBegin =>
    if c =? cQUOTE then do_string copy m' (fun m'' => Next L_objColon m'')
    else if c =? cRBRACE then scope_end m' c
    else Fail
  | L_objColon => if c =? cCOLON then Next L_objValue m' else Fail
  | L_objValue => value_switch copy m' c retObject L_objCont
  | L_objCont =>
    if c =? cCOMMA then Next L_objKey m'
    else if c =? cRBRACE then scope_end m' c
    else Fail
  | L_objKey =>
    if c =? cQUOTE then do_string copy m' (fun m'' => Next L_objColon m'') else Fail
  | L_arrBegin =>
    if c =? cRBRACK then scope_end m' c else value_switch copy m' c retArray L_arrCont
  | L_arrValue => value_switch copy m' c retArray L_arrCont
  | L_arrCont =>
    if c =? cCOMMA then Next L_arrValue m'
    else if c =? cRBRACK then scope_end m' c
    else Fail
  end.

Lemma step_unfold copy l m :
  step copy l m = match update_char m with
                  | UCrash => SCrash
                  | UDone m' => Succeed m'
                  | UChar m' c => step_body copy l m' c
                  end.
Proof. unfold step, step_body. destruct (update_char m); reflexivity. Qed.

Lemma string_dec_to copy m c k l :
  label_of k = Some l ->
  to_step (run_dec copy (DString dfail (DNext k)) m 0 c) = do_string copy m (fun m'' => Next l m'').
Proof.
  intros Hl. unfold do_string. cbn [run_dec].
  destruct (parse_string_model (cur m) (idx1 m - 1) (peek_size m) copy (slen m) (sfuel m)); cbn [to_step]; try rewrite Hl; reflexivity.
Qed.

Theorem step_body_dec copy l m' c :
  to_step (run_dec copy (model_dec (site_of l) c) m' 0 c) = step_body copy l m' c.
Proof.
  destruct l; cbn [site_of model_dec step_body].
  - apply continue_root_dec.
  - destruct (c =? cLF); reflexivity.
  - destruct (c =? cLF); [reflexivity|]. apply cycle_root_dec.
  - destruct (c =? cQUOTE); [apply string_dec_to; reflexivity|].
    destruct (c =? cRBRACE); [apply scope_end_dec|reflexivity].
  - destruct (c =? cCOLON); reflexivity.
  - apply value_switch_dec; reflexivity.
  - destruct (c =? cCOMMA); [reflexivity|]. destruct (c =? cRBRACE); [apply scope_end_dec|reflexivity].
  - destruct (c =? cQUOTE); [apply string_dec_to; reflexivity|reflexivity].
  - destruct (c =? cRBRACK); [apply scope_end_dec|]. apply value_switch_dec; reflexivity.
  - apply value_switch_dec; reflexivity.
  - destruct (c =? cCOMMA); [reflexivity|]. destruct (c =? cRBRACK); [apply scope_end_dec|reflexivity].
Qed.

Lemma finish_dec copy m :
  match run_dec copy model_succeed m 0 0 with
  | RRet true m' => Ok m'
  | RRet false _ => Err
  | RNext _ _ => Crash
  | RCrash => Crash
  | RFuel => OutOfFuel
  end = finish m.
Proof.
  unfold model_succeed, finish. cbn [run_dec].
  destruct (stack m) as [|o st] eqn:Hs; [reflexivity|].
  cbn [stack set_stack].
  destruct st as [|x st']; [|reflexivity].
  cbn [tlen set_stack].
  unfold annotate. cbn [tlen set_stack].
  destruct (tlen m <=? o / 4); reflexivity.
Qed.

Lemma update_char_lt m m' c : update_char m = UChar m' c -> c < 256.
Proof.
  unfold update_char. intros H.
  repeat match type of H with
         | context [match ?x with _ => _ end] => destruct x eqn:?; try discriminate
         | context [if ?x then _ else _] => destruct x eqn:?; try discriminate
         end;
  inversion H; subst; apply b2n_lt.
Qed.

(* --- any program with the model's decision table runs like run2 -------- *)

Section Refine.
  Variable p : prog.
  Hypothesis Htable : forall k c, (k < NSITES)%nat -> c < 256 -> site_dec p k c = model_dec k c.
  Hypothesis Hentry : block_dec p ENTRY = model_entry.
  Hypothesis Hsucc : block_dec p SUCCEED = model_succeed.

  Lemma finish_ast_eq copy m : finish_ast copy p m = finish m.
  Proof. unfold finish_ast. rewrite Hsucc. apply finish_dec. Qed.

  Lemma run_sites_eq copy f : forall l m,
    run_sites f copy p NSITES (site_of l) m = run_labels f copy l m.
  Proof.
    induction f as [|f IH]; intros l m; [reflexivity|].
    cbn [run_sites run_labels]. rewrite step_unfold.
    destruct (update_char m) as [m'|m' c|] eqn:Hu.
    - apply finish_ast_eq.
    - rewrite Htable; [|destruct l; cbn; unfold NSITES; lia | eapply update_char_lt; eassumption].
      rewrite <- step_body_dec.
      destruct (run_dec copy (model_dec (site_of l) c) m' 0 c) as [k' m''|[|] m''| |]; cbn [to_step]; try reflexivity.
      destruct (label_of k') as [l'|] eqn:Hl.
      + assert (Hk : (k' <? NSITES)%nat = true) by (apply label_of_lt; rewrite Hl; discriminate).
        rewrite Hk. rewrite (label_of_some _ _ Hl). apply IH.
      + assert (Hk : (k' <? NSITES)%nat = false).
        { destruct (k' <? NSITES)%nat eqn:E; [|reflexivity]. apply label_of_lt in E. congruence. }
        rewrite Hk. reflexivity.
    - reflexivity.
  Qed.

  Theorem run_ast_eq_run2 : forall copy msg bufs, run_ast p NSITES copy msg bufs = run2 copy msg bufs.
  Proof.
    intros copy msg bufs. unfold run_ast, run2. rewrite Hentry. unfold model_entry. cbn [run_dec].
    change (0 <? NSITES)%nat with true. cbn iota.
    apply (run_sites_eq copy _ L_start).
  Qed.
End Refine.
