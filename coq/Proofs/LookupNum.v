(* LookupNum.v — the typed accessors Int / Uint / Float / StringBytes on an
   iterator that denotes a document, and the exact ranges in which the
   numeric conversions succeed (property C12, last sentence). *)
From SJ Require Import Model.Base Model.RefTables Spec.Json Spec.EditSpec Model.Tape
     Model.Iter Model.Walk Model.Edit Model.WF.
From SJ Require Import Proofs.TapeBase Proofs.TapeSeg Proofs.TapeDen Proofs.TapePath
     Proofs.TapeEdit Proofs.TapeIter Proofs.TapeDelete Proofs.TapeWF Proofs.TapeWalk
     Proofs.LookupBase.
From Coq Require Import Lia ZifyBool ZifyN ZifyNat Floats.SpecFloat.
Open Scope N_scope.

(* ------------------------------------------------------------------ *)
(* the conversions, as functions of the number denoted                  *)

(* float64 -> int64 (Go: error when v >= 2^63 or v < -2^63, else int64(v)) *)
Definition float_to_int (bits : N) : outcome Z :=
  let f := sf_of_bits bits in
  if sf_ge_pow2 f 63 then Err
  else if sf_lt_negpow2 f 63 then Err
  else match sf_trunc f with Some z => Ok z | None => Ok (- 9223372036854775808)%Z end.

(* float64 -> uint64 (Go: error when v >= 2^64 or v < 0, else uint64(v)) *)
Definition float_to_uint (bits : N) : outcome N :=
  let f := sf_of_bits bits in
  if sf_ge_pow2 f 64 then Err
  else if sf_neg f then Err
  else match sf_trunc f with Some z => Ok (Z.to_N z) | None => Ok two63 end.

Definition conv_int (nv : num) : outcome Z :=
  match nv with
  | NInt z => Ok z
  | NUint u => if two63 <=? u then Err else Ok (Z.of_N u)
  | NFloat b _ => float_to_int b
  end.

Definition conv_uint (nv : num) : outcome N :=
  match nv with
  | NInt z => if (z <? 0)%Z then Err else Ok (Z.to_N z)
  | NUint u => Ok u
  | NFloat b _ => float_to_uint b
  end.

Definition conv_float (nv : num) : outcome N :=
  match nv with
  | NInt z => Ok (float_of_Z z)
  | NUint u => Ok (float_of_Z (Z.of_N u))
  | NFloat b _ => Ok b
  end.

Definition doc_int (d : doc) : outcome Z := match d with DNum nv => conv_int nv | _ => Err end.
Definition doc_uint (d : doc) : outcome N := match d with DNum nv => conv_uint nv | _ => Err end.
Definition doc_float (d : doc) : outcome N := match d with DNum nv => conv_float nv | _ => Err end.
Definition doc_string (d : doc) : outcome bytes := match d with DStr s => Ok s | _ => Err end.

(* every tape word is a uint64 *)
Definition words64 (pj : pjson) : Prop := Forall (fun w => w < two64) (pj_tape pj).

Lemma s64_neg_iff x : x < two64 -> ((s64 x <? 0)%Z = (two63 <=? x)).
Proof.
  intros H. unfold s64.
  destruct (x <? two63) eqn:E.
  - replace (two63 <=? x) with false by lia. lia.
  - replace (two63 <=? x) with true by lia. unfold two64, two63 in *. lia.
Qed.

Lemma s64_to_N x : x < two63 -> Z.to_N (s64 x) = x.
Proof. intros H. unfold s64. replace (x <? two63) with true by lia. lia. Qed.

(* ------------------------------------------------------------------ *)
(* accessors on a denoting iterator                                     *)

Section Accessors.
Variables (strict adj : bool).

Lemma denotes_shape pj it d :
  denotes strict adj pj it d ->
  exists pre w r post, pj_tape pj = pre ++ (w :: r) ++ post /\
    val_seg (pj_msg pj) (pj_strings pj) strict adj (nlen pre) (w :: r) d /\
    walk_iter it (nlen pre) (w :: r) /\ i_t it = word_tag w /\ i_cur it = word_val w.
Proof.
  intros (pre & v & post & Ht & Hv & Hw).
  pose proof Hw as ((_ & _ & w & r & -> & Hit & Hcur) & _).
  exists pre, w, r, post. repeat split; auto; apply Hw.
Qed.

Theorem iter_int_denotes pj it d :
  denotes strict adj pj it d -> iter_int pj it = doc_int d.
Proof.
  intros Hd. destruct (denotes_shape pj it d Hd) as (pre & w & r & post & Ht & Hv & Hw & Hit & Hcur).
  unfold iter_int. rewrite Hit.
  inversion Hv; subst;
    match goal with Htag : word_tag w = _ |- _ => rewrite Htag end; tsimp; try reflexivity;
    rewrite (payload_ok pj it pre w _ post Ht Hw); reflexivity.
Qed.

Theorem iter_float_denotes pj it d :
  denotes strict adj pj it d -> iter_float pj it = doc_float d.
Proof.
  intros Hd. destruct (denotes_shape pj it d Hd) as (pre & w & r & post & Ht & Hv & Hw & Hit & Hcur).
  unfold iter_float. rewrite Hit.
  inversion Hv; subst;
    match goal with Htag : word_tag w = _ |- _ => rewrite Htag end; tsimp; try reflexivity;
    rewrite (payload_ok pj it pre w _ post Ht Hw); reflexivity.
Qed.

Theorem iter_uint_denotes pj it d :
  words64 pj -> denotes strict adj pj it d -> iter_uint pj it = doc_uint d.
Proof.
  intros H64 Hd.
  destruct (denotes_shape pj it d Hd) as (pre & w & r & post & Ht & Hv & Hw & Hit & Hcur).
  unfold iter_uint. rewrite Hit.
  inversion Hv; subst;
    match goal with Htag : word_tag w = _ |- _ => rewrite Htag end; tsimp; try reflexivity;
    rewrite (payload_ok pj it pre w _ post Ht Hw); try reflexivity.
  (* int -> uint *)
  cbn [obind doc_uint conv_uint].
  assert (Hx : x < two64).
  { unfold words64 in H64. rewrite Ht in H64. rewrite Forall_forall in H64. apply H64.
    apply in_or_app. right. apply in_or_app. left. right. now left. }
  rewrite (s64_neg_iff x Hx).
  destruct (two63 <=? x) eqn:E; [reflexivity|]. rewrite s64_to_N by lia. reflexivity.
Qed.

Theorem string_bytes_denotes pj it d :
  N.of_nat (length (pj_msg pj)) < two64 -> N.of_nat (length (pj_strings pj)) < two64 ->
  denotes strict adj pj it d -> string_bytes pj it = doc_string d.
Proof.
  intros Bm Bs Hd.
  destruct (denotes_shape pj it d Hd) as (pre & w & r & post & Ht & Hv & Hw & Hit & Hcur).
  unfold string_bytes. rewrite Hit.
  inversion Hv; subst;
    match goal with Htag : word_tag w = _ |- _ => rewrite Htag end; tsimp; try reflexivity.
  destruct Hw as ((Hoff & Hlen & _) & _ & _). cbn [length] in Hlen.
  replace (i_len it <=? i_off it)%Z with false by (revert Hoff Hlen; nl).
  rewrite (rd_app pj (i_len it) (i_off it) (pre ++ [w]) len post)
    by (try (rewrite Ht; leq); revert Hoff Hlen; lens).
  cbn [obind]. rewrite Hcur.
  rewrite (string_byte_at_ok pj (word_val w) len s) by assumption. reflexivity.
Qed.

End Accessors.

(* ------------------------------------------------------------------ *)
(* the exact ranges                                                     *)

(* value of a finite float as a fraction p / q, q = 2^k > 0 *)
Definition sf_frac (f : spec_float) : option (Z * Z) :=
  match f with
  | S754_zero _ => Some (0, 1)%Z
  | S754_finite s m e =>
    let sm := if s then Zneg m else Zpos m in
    if (0 <=? e)%Z then Some (sm * 2 ^ e, 1)%Z else Some (sm, 2 ^ (- e))%Z
  | _ => None
  end.

Lemma sf_frac_pos f p q : sf_frac f = Some (p, q) -> (0 < q)%Z.
Proof.
  destruct f as [s| s| |s m e]; cbn [sf_frac]; intros H; try discriminate H.
  - injection H as <- <-. lia.
  - destruct (0 <=? e)%Z eqn:E; injection H as <- <-; [lia|]. apply Z.pow_pos_nonneg; lia.
Qed.

Definition two63z : Z := 9223372036854775808.
Definition two64z : Z := 18446744073709551616.

(* float -> int64: succeeds exactly when -2^63 <= v < 2^63 (v = p/q); the
   result is v truncated towards zero *)
Theorem float_to_int_range bits p q :
  sf_frac (sf_of_bits bits) = Some (p, q) ->
  ((- two63z * q <= p < two63z * q)%Z -> float_to_int bits = Ok (p ÷ q)%Z) /\
  (~ (- two63z * q <= p < two63z * q)%Z -> float_to_int bits = Err).
Proof.
  unfold float_to_int. cbv zeta.
  destruct (sf_of_bits bits) as [s| s| |s m e]; cbn [sf_frac]; intros H; try discriminate H.
  - injection H as <- <-. cbn [sf_ge_pow2 sf_lt_negpow2 sf_trunc]. unfold two63z.
    split; intros R; [reflexivity|lia].
  - destruct (0 <=? e)%Z eqn:E.
    + injection H as <- <-. rewrite Z.quot_1_r.
      assert (Hp : (0 < 2 ^ e)%Z) by (apply Z.pow_pos_nonneg; lia).
      destruct s; cbn [sf_ge_pow2 sf_lt_negpow2 sf_trunc]; rewrite E;
        change (2 ^ 63)%Z with two63z.
      * destruct (two63z <? Z.pos m * 2 ^ e)%Z eqn:C; split; intros R; try reflexivity; try lia.
        f_equal. lia.
      * destruct (two63z <=? Z.pos m * 2 ^ e)%Z eqn:C; split; intros R; try reflexivity; try lia.
    + injection H as <- <-.
      assert (Hp : (0 < 2 ^ (- e))%Z) by (apply Z.pow_pos_nonneg; lia).
      destruct s; cbn [sf_ge_pow2 sf_lt_negpow2 sf_trunc]; rewrite E;
        change (2 ^ 63)%Z with two63z.
      * destruct (two63z * 2 ^ (- e) <? Z.pos m)%Z eqn:C; split; intros R; try reflexivity; try lia.
        f_equal. change (Z.neg m) with (- Z.pos m)%Z.
        rewrite Z.quot_opp_l by lia. rewrite Z.quot_div_nonneg by lia. reflexivity.
      * destruct (two63z * 2 ^ (- e) <=? Z.pos m)%Z eqn:C; split; intros R; try reflexivity; try lia.
        f_equal. rewrite Z.quot_div_nonneg by lia. reflexivity.
Qed.

(* float -> uint64: succeeds exactly when 0 <= v < 2^64 (negative zero
   counts as 0; any negative value, however small, is refused); the result
   is v truncated *)
Theorem float_to_uint_range bits p q :
  sf_frac (sf_of_bits bits) = Some (p, q) ->
  ((0 <= p < two64z * q)%Z -> float_to_uint bits = Ok (Z.to_N (p ÷ q))) /\
  (~ (0 <= p < two64z * q)%Z -> float_to_uint bits = Err).
Proof.
  unfold float_to_uint. cbv zeta.
  destruct (sf_of_bits bits) as [s| s| |s m e]; cbn [sf_frac]; intros H; try discriminate H.
  - injection H as <- <-. cbn [sf_ge_pow2 sf_neg sf_trunc]. unfold two64z.
    split; intros R; [reflexivity|lia].
  - destruct (0 <=? e)%Z eqn:E.
    + injection H as <- <-. rewrite Z.quot_1_r.
      assert (Hp : (0 < 2 ^ e)%Z) by (apply Z.pow_pos_nonneg; lia).
      destruct s; cbn [sf_ge_pow2 sf_neg sf_trunc]; try rewrite E;
        change (2 ^ 64)%Z with two64z.
      * split; intros R; [lia|reflexivity].
      * destruct (two64z <=? Z.pos m * 2 ^ e)%Z eqn:C; split; intros R; try reflexivity; try lia.
    + injection H as <- <-.
      assert (Hp : (0 < 2 ^ (- e))%Z) by (apply Z.pow_pos_nonneg; lia).
      destruct s; cbn [sf_ge_pow2 sf_neg sf_trunc]; try rewrite E;
        change (2 ^ 64)%Z with two64z.
      * split; intros R; [lia|reflexivity].
      * destruct (two64z * 2 ^ (- e) <=? Z.pos m)%Z eqn:C; split; intros R; try reflexivity; try lia.
        f_equal. rewrite Z.quot_div_nonneg by lia. reflexivity.
Qed.

(* not finite: infinities are refused, NaN is passed to the hardware conversion *)
Lemma float_to_int_nonfinite bits :
  sf_frac (sf_of_bits bits) = None ->
  (sf_of_bits bits = S754_nan /\ float_to_int bits = Ok (- two63z)%Z /\ float_to_uint bits = Ok two63) \/
  ((exists s, sf_of_bits bits = S754_infinity s) /\ float_to_int bits = Err /\ float_to_uint bits = Err).
Proof.
  unfold float_to_int, float_to_uint. cbv zeta.
  destruct (sf_of_bits bits) as [s| s| |s m e]; cbn [sf_frac]; intros H; try discriminate H.
  - right. split; [eexists; reflexivity|]. destruct s; split; reflexivity.
  - left. repeat split; reflexivity.
  - destruct (0 <=? e)%Z; discriminate H.
Qed.

(* integers: uint64 -> int64 exactly below 2^63, int64 -> uint64 exactly from 0 *)
Theorem uint_to_int_range u :
  (u < two63 -> conv_int (NUint u) = Ok (Z.of_N u)) /\ (two63 <= u -> conv_int (NUint u) = Err).
Proof. cbn [conv_int]. split; intros H; [replace (two63 <=? u) with false by lia|replace (two63 <=? u) with true by lia]; reflexivity. Qed.

Theorem int_to_uint_range z :
  ((0 <= z)%Z -> conv_uint (NInt z) = Ok (Z.to_N z)) /\ ((z < 0)%Z -> conv_uint (NInt z) = Err).
Proof. cbn [conv_uint]. split; intros H; [replace (z <? 0)%Z with false by lia|replace (z <? 0)%Z with true by lia]; reflexivity. Qed.

(* ------------------------------------------------------------------ *)
(* the boundary cases                                                   *)

(* bit patterns: 2^63, the largest double below 2^63, -2^63, the largest
   double below -2^63 in value, 2^64, the largest double below 2^64, -0.0,
   -0.5, 0.75, -1.5 *)
Definition f_2p63 : N := 4890909195324358656.        (* 0x43E0000000000000 *)
Definition f_2p63_pred : N := 4890909195324358655.   (* 0x43DFFFFFFFFFFFFF = 2^63 - 1024 *)
Definition f_m2p63 : N := 14114281232179134464.      (* 0xC3E0000000000000 *)
Definition f_m2p63_succ : N := 14114281232179134465. (* 0xC3E0000000000001 = -(2^63 + 2048) *)
Definition f_2p64 : N := 4895412794951729152.        (* 0x43F0000000000000 *)
Definition f_2p64_pred : N := 4895412794951729151.   (* 0x43EFFFFFFFFFFFFF = 2^64 - 2048 *)
Definition f_m0 : N := 9223372036854775808.          (* 0x8000000000000000 *)
Definition f_mhalf : N := 13826050856027422720.      (* 0xBFE0000000000000 *)
Definition f_075 : N := 4604930618986332160.         (* 0x3FE8000000000000 *)
Definition f_m15 : N := 13832806255468478464.        (* 0xBFF8000000000000 *)

Example float_int_boundaries :
  sf_frac (sf_of_bits f_2p63) = Some (two63z, 1%Z) /\ float_to_int f_2p63 = Err /\
  float_to_int f_2p63_pred = Ok (two63z - 1024)%Z /\
  sf_frac (sf_of_bits f_m2p63) = Some ((- two63z)%Z, 1%Z) /\ float_to_int f_m2p63 = Ok (- two63z)%Z /\
  float_to_int f_m2p63_succ = Err /\
  float_to_int f_075 = Ok 0%Z /\ float_to_int f_m15 = Ok (-1)%Z /\ float_to_int f_mhalf = Ok 0%Z.
Proof. vm_compute. repeat split; reflexivity. Qed.

Example float_uint_boundaries :
  sf_frac (sf_of_bits f_2p64) = Some (two64z, 1%Z) /\ float_to_uint f_2p64 = Err /\
  float_to_uint f_2p64_pred = Ok (Z.to_N (two64z - 2048)) /\
  float_to_uint f_2p63 = Ok two63 /\
  float_to_uint f_m0 = Ok 0 /\ float_to_uint f_mhalf = Err /\ float_to_uint f_075 = Ok 0.
Proof. vm_compute. repeat split; reflexivity. Qed.

(* int -> float is float64(int64): exact up to 2^53, rounded to nearest even
   beyond *)
Example int_float_boundaries :
  float_of_Z 0 = 0 /\ float_of_Z 1 = 4607182418800017408 /\
  sf_frac (sf_of_bits (float_of_Z 9007199254740992)) = Some (9007199254740992, 1)%Z /\
  sf_frac (sf_of_bits (float_of_Z 9007199254740993)) = Some (9007199254740992, 1)%Z /\
  sf_frac (sf_of_bits (float_of_Z 9007199254740995)) = Some (9007199254740996, 1)%Z /\
  sf_frac (sf_of_bits (float_of_Z (-9007199254740993))) = Some (-9007199254740992, 1)%Z /\
  float_of_Z 9223372036854775807 = f_2p63 /\
  float_of_Z (-9223372036854775808) = f_m2p63 /\
  float_of_Z 18446744073709551615 = f_2p64.
Proof. vm_compute. repeat split; reflexivity. Qed.
