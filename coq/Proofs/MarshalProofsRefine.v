(* MarshalProofsRefine.v — property C10, layer (a): REFINEMENT.
   On every tape that has a denotation (denote = Some ds; NOP gaps of
   deletions included, no further well-formedness needed) the modelled
   Iter.MarshalJSONBuffer of the root iterator returns exactly
   print_docs ds: the text, or the error outcome when some float is not
   finite.  Never Crash, never OutOfFuel. *)
From SJ Require Import Model.Base Model.RefTables Spec.Json Model.Tape Model.Iter Model.Walk
     Model.FloatFmt.
From SJ Require Import Proofs.TapeBase Proofs.TapeSeg Proofs.TapeDen Proofs.TapePath Proofs.TapeEdit
     Proofs.TapeIter Proofs.SerBase.
From SJ Require Import Model.Marshal Proofs.MarshalProofsBase.
From Coq Require Import ZifyBool ZifyN ZifyNat.
Open Scope Z_scope.

(* lengths of concatenations, then lia *)
Ltac len :=
  unfold at_pos, nlen in *; cbn [length] in *;
  repeat (match goal with
          | H : context [length (_ ++ _)] |- _ => rewrite app_length in H
          | |- context [length (_ ++ _)] => rewrite app_length
          end; cbn [length] in *);
  lia.

Lemma iter_int_on pj it pre w x X :
  pj_tape pj = pre ++ w :: x :: X -> on_word it (length pre) w ->
  (Z.of_nat (length pre) + 2 <= i_len it)%Z -> word_tag w = TagInteger ->
  iter_int pj it = Ok (s64 x).
Proof.
  intros Htape (Ho & Hc & Ht & _) Hlen Hw. unfold iter_int. rewrite Ht, Hw.
  rewrite (payload_on pj it pre w x X Htape Ho Hlen). reflexivity.
Qed.
Lemma iter_uint_on pj it pre w x X :
  pj_tape pj = pre ++ w :: x :: X -> on_word it (length pre) w ->
  (Z.of_nat (length pre) + 2 <= i_len it)%Z -> word_tag w = TagUint ->
  iter_uint pj it = Ok x.
Proof.
  intros Htape (Ho & Hc & Ht & _) Hlen Hw. unfold iter_uint. rewrite Ht, Hw.
  rewrite (payload_on pj it pre w x X Htape Ho Hlen). reflexivity.
Qed.
Lemma iter_float_on pj it pre w x X :
  pj_tape pj = pre ++ w :: x :: X -> on_word it (length pre) w ->
  (Z.of_nat (length pre) + 2 <= i_len it)%Z -> word_tag w = TagFloat ->
  iter_float pj it = Ok x.
Proof.
  intros Htape (Ho & Hc & Ht & _) Hlen Hw. unfold iter_float. rewrite Ht, Hw.
  rewrite (payload_on pj it pre w x X Htape Ho Hlen). reflexivity.
Qed.

Lemma on_word_pos1 it p w : on_word it p w -> is2 (word_tag w) = false -> at_pos it (S p).
Proof. intros H E. pose proof (on_word_pos it p w H) as P. rewrite E in P. exact P. Qed.
Lemma on_word_pos2 it p w : on_word it p w -> is2 (word_tag w) = true -> at_pos it (S (S p)).
Proof. intros H E. pose proof (on_word_pos it p w H) as P. rewrite E in P. exact P. Qed.

Section Refine.
Variables (pj : pjson) (strict adj : bool).
Notation msg := (pj_msg pj).
Notation strings := (pj_strings pj).
Notation val_seg := (val_seg msg strings strict adj).
Notation items := (items msg strings strict adj).
Notation mitems := (mitems msg strings strict adj).
Notation roots_seg := (roots_seg msg strings strict adj).
Notation nops_seg := (nops_seg strict).
Notation ML f := (marshal_loop f pj).

(* the value whose segment v starts at index k, iterator on its first word *)
Definition P_val (k : N) (v : list N) (d : doc) : Prop :=
  forall pre X w r it f stack out R,
    pj_tape pj = pre ++ v ++ X -> nlen pre = k -> v = w :: r ->
    on_word it (length pre) w ->
    Z.of_nat (length pre) + Z.of_nat (length v) <= i_len it ->
    (forall ie, i_len ie = i_len it -> at_pos ie (length pre + length v) ->
        after_step (ML f) pj ie stack (emit out (pr_doc d)) = R) ->
    switch_step (ML (cost d + f)) pj it stack out = if fin_doc d then R else Err.

Definition P_items (k : N) (body : list N) (l : list doc) : Prop :=
  forall n0 pre X e it f st out aft R,
    nops_seg n0 -> pj_tape pj = pre ++ n0 ++ body ++ e :: X -> word_tag e = TagArrayEnd ->
    (nlen pre + nlen n0 = k)%N -> at_pos it (length pre) ->
    Z.of_nat (length pre + length n0 + length body) < i_len it ->
    (forall ie, i_len ie = i_len it -> at_pos ie (length pre + length n0 + length body + 1) ->
        after_step (ML f) pj ie st (emit out (pr_elems aft l ++ [n2b 93])) = R) ->
    gstep aft (ML (cost_list l + S f)) pj it (FArray :: st) out =
      if forallb fin_doc l then R else Err.

Definition P_mitems (k : N) (body : list N) (l : list (bytes * doc)) : Prop :=
  forall n0 pre X e it f st out aft R,
    nops_seg n0 -> pj_tape pj = pre ++ n0 ++ body ++ e :: X -> word_tag e = TagObjectEnd ->
    (nlen pre + nlen n0 = k)%N -> at_pos it (length pre) ->
    Z.of_nat (length pre + length n0 + length body) < i_len it ->
    (forall ie, i_len ie = i_len it -> at_pos ie (length pre + length n0 + length body + 1) ->
        after_step (ML f) pj ie st (emit out (pr_members aft l ++ [n2b 125])) = R) ->
    gstep aft (ML (cost_mlist l + S f)) pj it (FObject :: st) out =
      if fin_members l then R else Err.

(* ---- scalars ---- *)
Lemma case_str i w len s :
  word_tag w = TagString -> string_at msg strings (word_val w) len = Some s ->
  P_val i [w; len] (DStr s).
Proof.
  intros Htag Hs pre X w0 r it f stack out R Htape Hk Hv Hon Hlen Hcont.
  injection Hv as <- <-. cbn [app] in Htape. cbn [length] in Hlen.
  rewrite switch_string by (destruct Hon as (_ & _ & -> & _); exact Htag).
  rewrite (string_bytes_on pj it pre w len X s Htape Hon ltac:(lia) Htag Hs). cbn [obind].
  apply Hcont; [reflexivity|].
  pose proof (on_word_pos2 it _ w Hon ltac:(rewrite Htag; reflexivity)). len.
Qed.

Lemma case_int i w x :
  word_tag w = TagInteger -> P_val i [w; x] (DNum (NInt (s64 x))).
Proof.
  intros Htag pre X w0 r it f stack out R Htape Hk Hv Hon Hlen Hcont.
  injection Hv as <- <-. cbn [app] in Htape. cbn [length] in Hlen.
  rewrite switch_int by (destruct Hon as (_ & _ & -> & _); exact Htag).
  rewrite (iter_int_on pj it pre w x X Htape Hon ltac:(lia) Htag). cbn [obind].
  apply Hcont; [reflexivity|].
  pose proof (on_word_pos2 it _ w Hon ltac:(rewrite Htag; reflexivity)). len.
Qed.

Lemma case_uint i w x :
  word_tag w = TagUint -> P_val i [w; x] (DNum (NUint x)).
Proof.
  intros Htag pre X w0 r it f stack out R Htape Hk Hv Hon Hlen Hcont.
  injection Hv as <- <-. cbn [app] in Htape. cbn [length] in Hlen.
  rewrite switch_uint by (destruct Hon as (_ & _ & -> & _); exact Htag).
  rewrite (iter_uint_on pj it pre w x X Htape Hon ltac:(lia) Htag). cbn [obind].
  apply Hcont; [reflexivity|].
  pose proof (on_word_pos2 it _ w Hon ltac:(rewrite Htag; reflexivity)). len.
Qed.

Lemma case_float i w x :
  word_tag w = TagFloat -> P_val i [w; x] (DNum (NFloat x (word_val w))).
Proof.
  intros Htag pre X w0 r it f stack out R Htape Hk Hv Hon Hlen Hcont.
  injection Hv as <- <-. cbn [app] in Htape. cbn [length] in Hlen.
  rewrite switch_float by (destruct Hon as (_ & _ & -> & _); exact Htag).
  rewrite (iter_float_on pj it pre w x X Htape Hon ltac:(lia) Htag). cbn [obind].
  cbn [fin_doc fin_num pr_doc pr_num cost Nat.add].
  cbn [pr_doc pr_num] in Hcont.
  destruct (fmt_float x) as [s|]; [|reflexivity].
  apply Hcont; [reflexivity|].
  pose proof (on_word_pos2 it _ w Hon ltac:(rewrite Htag; reflexivity)). len.
Qed.

Lemma case_null i w : word_tag w = TagNull -> P_val i [w] DNull.
Proof.
  intros Htag pre X w0 r it f stack out R Htape Hk Hv Hon Hlen Hcont.
  injection Hv as <- <-.
  rewrite switch_null by (destruct Hon as (_ & _ & -> & _); exact Htag).
  apply Hcont; [reflexivity|].
  pose proof (on_word_pos1 it _ w Hon ltac:(rewrite Htag; reflexivity)). len.
Qed.
Lemma case_true i w : word_tag w = TagBoolTrue -> P_val i [w] (DBool true).
Proof.
  intros Htag pre X w0 r it f stack out R Htape Hk Hv Hon Hlen Hcont.
  injection Hv as <- <-.
  rewrite switch_true by (destruct Hon as (_ & _ & -> & _); exact Htag).
  apply Hcont; [reflexivity|].
  pose proof (on_word_pos1 it _ w Hon ltac:(rewrite Htag; reflexivity)). len.
Qed.
Lemma case_false i w : word_tag w = TagBoolFalse -> P_val i [w] (DBool false).
Proof.
  intros Htag pre X w0 r it f stack out R Htape Hk Hv Hon Hlen Hcont.
  injection Hv as <- <-.
  rewrite switch_false by (destruct Hon as (_ & _ & -> & _); exact Htag).
  apply Hcont; [reflexivity|].
  pose proof (on_word_pos1 it _ w Hon ltac:(rewrite Htag; reflexivity)). len.
Qed.

(* ---- containers ---- *)
Lemma case_arr i w body e l :
  word_tag w = TagArrayStart -> P_items (i + 1)%N body l -> word_tag e = TagArrayEnd ->
  P_val i (w :: body ++ [e]) (DArr l).
Proof.
  intros Htag IH He pre X w0 r it f stack out R Htape Hk Hv Hon Hlen Hcont.
  injection Hv as <- <-.
  rewrite switch_arr by (destruct Hon as (_ & _ & -> & _); exact Htag).
  change (enter_step ?ml pj it ?s ?o false) with (gstep false ml pj it s o).
  replace (cost (DArr l) + f)%nat with (cost_list l + S f)%nat
    by (cbn [cost]; unfold cost_list; lia).
  apply (IH [] (pre ++ [w]) X e it f stack (emit out [n2b 91]) false R).
  - constructor.
  - rewrite Htape. leq.
  - exact He.
  - len.
  - pose proof (on_word_pos1 it _ w Hon ltac:(rewrite Htag; reflexivity)). len.
  - len.
  - intros ie Hl Hp. rewrite emit_emit. apply Hcont; [exact Hl|]. len.
Qed.

Lemma case_obj i w body e l :
  word_tag w = TagObjectStart -> P_mitems (i + 1)%N body l -> word_tag e = TagObjectEnd ->
  P_val i (w :: body ++ [e]) (DObj l).
Proof.
  intros Htag IH He pre X w0 r it f stack out R Htape Hk Hv Hon Hlen Hcont.
  injection Hv as <- <-.
  rewrite switch_obj by (destruct Hon as (_ & _ & -> & _); exact Htag).
  change (enter_step ?ml pj it ?s ?o false) with (gstep false ml pj it s o).
  replace (cost (DObj l) + f)%nat with (cost_mlist l + S f)%nat
    by (cbn [cost]; unfold cost_mlist; lia).
  apply (IH [] (pre ++ [w]) X e it f stack (emit out [n2b 123]) false R).
  - constructor.
  - rewrite Htape. leq.
  - exact He.
  - len.
  - pose proof (on_word_pos1 it _ w Hon ltac:(rewrite Htag; reflexivity)). len.
  - len.
  - intros ie Hl Hp. rewrite emit_emit. apply Hcont; [exact Hl|]. len.
Qed.

(* ---- array items ---- *)
Lemma case_it_nil i : P_items i [] [].
Proof.
  intros n0 pre X e it f st out aft R Hn0 Htape He Hk Hpos Hlen Hcont.
  cbn [app] in Htape.
  assert (Hne : word_tag e <> TagNop /\ word_tag e <> TagEnd) by (rewrite He; split; discriminate).
  rewrite (gstep_enter strict aft _ pj it n0 e pre X _ _ Hn0 Htape (proj1 Hne) (proj2 Hne) Hpos)
    by len.
  unfold enter_step.
  rewrite (advance_into_on strict pj it n0 e pre X Hn0 Htape (proj1 Hne) Hpos) by len.
  cbn [obind fst]. rewrite entered_t, He, sep_out_arr_end.
  change (cost_list [] + S f)%nat with (S f).
  rewrite marshal_loop_S, keyed_arr. cbn [obind fst snd].
  rewrite switch_arr_end by (rewrite entered_t; exact He).
  apply Hcont; [reflexivity|].
  pose proof (on_word_pos1 _ _ e (entered_on_word it (length pre + length n0) e)
                ltac:(rewrite He; reflexivity)). len.
Qed.

Lemma nops_one w junk :
  word_tag w = TagNop -> word_val w = (nlen junk + 1)%N ->
  (strict = true -> is_run (w :: junk)) -> nops_seg (w :: junk).
Proof.
  intros Ht Hv Hr.
  pose proof (ns_cons strict w junk [] Ht Hv Hr (ns_nil strict)) as H.
  rewrite app_nil_r in H. exact H.
Qed.

Lemma case_it_nop i w junk rest l :
  word_tag w = TagNop -> word_val w = (nlen junk + 1)%N ->
  (strict = true -> is_run (w :: junk)) ->
  P_items (i + nlen junk + 1)%N rest l -> P_items i (w :: junk ++ rest) l.
Proof.
  intros Ht Hv Hrun IH n0 pre X e it f st out aft R Hn0 Htape He Hk Hpos Hlen Hcont.
  apply (IH (n0 ++ w :: junk) pre X e it f st out aft R).
  - apply nops_seg_app; [exact Hn0|apply nops_one; assumption].
  - rewrite Htape. leq.
  - exact He.
  - len.
  - exact Hpos.
  - len.
  - intros ie Hl Hp. apply Hcont; [exact Hl|]. len.
Qed.

Lemma case_it_val i v d rest l :
  val_seg i v d -> P_val i v d -> P_items (i + nlen v)%N rest l -> P_items i (v ++ rest) (d :: l).
Proof.
  intros Hv IHv IH n0 pre X e it f st out aft R Hn0 Htape He Hk Hpos Hlen Hcont.
  destruct (val_seg_head _ _ _ _ _ _ _ Hv) as (w & r & -> & Htag).
  destruct (val_tag_not _ Htag) as (T1 & T2 & T3 & T4 & T5).
  assert (Htape' : pj_tape pj = pre ++ n0 ++ w :: (r ++ rest ++ e :: X)) by (rewrite Htape; leq).
  rewrite (gstep_enter strict aft _ pj it n0 w pre _ _ _ Hn0 Htape' T1 T2 Hpos) by len.
  unfold enter_step.
  rewrite (advance_into_on strict pj it n0 w pre _ Hn0 Htape' T1 Hpos) by len.
  cbn [obind fst]. rewrite entered_t, (sep_out_arr_val aft st _ out T3).
  replace (cost_list (d :: l) + S f)%nat with (S (cost d + (cost_list l + S f)))
    by (unfold cost_list, list_sum; cbn [map fold_right]; lia).
  rewrite marshal_loop_S, keyed_arr. cbn [obind fst snd].
  rewrite (IHv (pre ++ n0) (rest ++ e :: X) w r _ (cost_list l + S f)%nat (FArray :: st)
               (emit out (sepc aft)) (if forallb fin_doc l then R else Err)).
  - cbn [forallb]. destruct (fin_doc d); reflexivity.
  - rewrite Htape. leq.
  - len.
  - reflexivity.
  - rewrite app_length. apply entered_on_word.
  - rewrite entered_len. len.
  - intros ie Hl Hp. rewrite entered_len in Hl.
    change (after_step ?ml pj ie ?s ?o) with (gstep true ml pj ie s o).
    apply (IH [] (pre ++ n0 ++ w :: r) X e ie f st _ true R).
    + constructor.
    + rewrite Htape. leq.
    + exact He.
    + len.
    + len.
    + len.
    + intros ie2 Hl2 Hp2. rewrite !emit_emit. rewrite <- pr_elems_cons.
      apply Hcont; [congruence|]. len.
Qed.

(* ---- object members ---- *)
Lemma case_mi_nil i : P_mitems i [] [].
Proof.
  intros n0 pre X e it f st out aft R Hn0 Htape He Hk Hpos Hlen Hcont.
  cbn [app] in Htape.
  assert (Hne : word_tag e <> TagNop /\ word_tag e <> TagEnd) by (rewrite He; split; discriminate).
  rewrite (gstep_enter strict aft _ pj it n0 e pre X _ _ Hn0 Htape (proj1 Hne) (proj2 Hne) Hpos)
    by len.
  unfold enter_step.
  rewrite (advance_into_on strict pj it n0 e pre X Hn0 Htape (proj1 Hne) Hpos) by len.
  cbn [obind fst]. rewrite entered_t, He, sep_out_obj_end.
  change (cost_mlist [] + S f)%nat with (S f).
  rewrite marshal_loop_S, keyed_obj_end by (rewrite entered_t; exact He). cbn [obind fst snd].
  rewrite switch_obj_end by (rewrite entered_t; exact He).
  apply Hcont; [reflexivity|].
  pose proof (on_word_pos1 _ _ e (entered_on_word it (length pre + length n0) e)
                ltac:(rewrite He; reflexivity)). len.
Qed.

Lemma case_mi_nop i w junk rest l :
  word_tag w = TagNop -> word_val w = (nlen junk + 1)%N ->
  (strict = true -> is_run (w :: junk)) ->
  P_mitems (i + nlen junk + 1)%N rest l -> P_mitems i (w :: junk ++ rest) l.
Proof.
  intros Ht Hv Hrun IH n0 pre X e it f st out aft R Hn0 Htape He Hk Hpos Hlen Hcont.
  apply (IH (n0 ++ w :: junk) pre X e it f st out aft R).
  - apply nops_seg_app; [exact Hn0|apply nops_one; assumption].
  - rewrite Htape. leq.
  - exact He.
  - len.
  - exact Hpos.
  - len.
  - intros ie Hl Hp. apply Hcont; [exact Hl|]. len.
Qed.

(* the key step: iterator on the key string, value after the NOPs n2 *)
Lemma keyed_obj_key it pre w len n2 wv X st out k :
  pj_tape pj = pre ++ w :: len :: n2 ++ wv :: X ->
  on_word it (length pre) w -> word_tag w = TagString ->
  string_at msg strings (word_val w) len = Some k ->
  nops_seg n2 -> word_tag wv <> TagNop -> word_tag wv <> TagEnd ->
  Z.of_nat (length pre + 2 + length n2) < i_len it ->
  keyed_step pj it (FObject :: st) out =
    Ok (entered it (length pre + 2 + length n2) wv, emit out (quote_str k ++ [n2b 58])).
Proof.
  intros Htape Hon Htag Hk Hn2 T1 T2 Hlen.
  unfold keyed_step. cbn [top_of].
  replace (i_t it) with TagString by (destruct Hon as (_ & _ & -> & _); symmetry; exact Htag).
  change (negb (TagString =? TagObjectEnd)%N) with true. cbv iota.
  rewrite (string_bytes_on pj it pre w len _ k Htape Hon ltac:(lia) Htag Hk). cbn [obind].
  assert (Htape' : pj_tape pj = (pre ++ [w; len]) ++ n2 ++ wv :: X) by (rewrite Htape; leq).
  assert (Hpos : at_pos it (length (pre ++ [w; len]))).
  { pose proof (on_word_pos2 it _ w Hon ltac:(rewrite Htag; reflexivity)). len. }
  rewrite (peek_at strict pj it n2 wv _ X Hn2 Htape' T1 Hpos) by len. cbn [obind].
  replace (word_tag wv =? TagEnd)%N with false by (symmetry; apply N.eqb_neq; exact T2).
  rewrite (advance_into_on strict pj it n2 wv _ X Hn2 Htape' T1 Hpos) by len.
  cbn [obind fst]. do 2 f_equal. f_equal. len.
Qed.

Lemma case_mi_mem i w len k n2 v d rest l :
  word_tag w = TagString -> string_at msg strings (word_val w) len = Some k ->
  nops_seg n2 ->
  val_seg (i + 2 + nlen n2)%N v d -> P_val (i + 2 + nlen n2)%N v d ->
  P_mitems (i + 2 + nlen n2 + nlen v)%N rest l ->
  P_mitems i (w :: len :: n2 ++ v ++ rest) ((k, d) :: l).
Proof.
  intros Htagw Hkey Hn2 Hv IHv IH n0 pre X e it f st out aft R Hn0 Htape He Hk Hpos Hlen Hcont.
  destruct (val_seg_head _ _ _ _ _ _ _ Hv) as (wv & r & -> & Htag).
  destruct (val_tag_not _ Htag) as (T1 & T2 & T3 & T4 & T5).
  assert (W1 : word_tag w <> TagNop /\ word_tag w <> TagEnd /\ word_tag w <> TagObjectEnd)
    by (rewrite Htagw; repeat split; discriminate).
  destruct W1 as (W1 & W2 & W3).
  assert (Htape' : pj_tape pj = pre ++ n0 ++ w :: (len :: n2 ++ (wv :: r) ++ rest ++ e :: X))
    by (rewrite Htape; leq).
  rewrite (gstep_enter strict aft _ pj it n0 w pre _ _ _ Hn0 Htape' W1 W2 Hpos) by len.
  unfold enter_step.
  rewrite (advance_into_on strict pj it n0 w pre _ Hn0 Htape' W1 Hpos) by len.
  cbn [obind fst]. rewrite entered_t, (sep_out_obj_val aft st _ out W3).
  replace (cost_mlist ((k, d) :: l) + S f)%nat with (S (cost d + (cost_mlist l + S f)))
    by (unfold cost_mlist, list_sum; cbn [map fold_right snd]; lia).
  rewrite marshal_loop_S.
  rewrite (keyed_obj_key _ (pre ++ n0) w len n2 wv (r ++ rest ++ e :: X) st _ k).
  - cbn [obind fst snd].
    rewrite (IHv (pre ++ n0 ++ w :: len :: n2) (rest ++ e :: X) wv r _ (cost_mlist l + S f)%nat
                 (FObject :: st) _ (if fin_members l then R else Err)).
    + unfold fin_members. cbn [forallb snd]. destruct (fin_doc d); reflexivity.
    + rewrite Htape. leq.
    + len.
    + reflexivity.
    + replace (length (pre ++ n0 ++ w :: len :: n2)) with (length (pre ++ n0) + 2 + length n2)%nat
        by len. apply entered_on_word.
    + rewrite !entered_len. len.
    + intros ie Hl Hp. rewrite !entered_len in Hl.
      change (after_step ?ml pj ie ?s ?o) with (gstep true ml pj ie s o).
      apply (IH [] (pre ++ n0 ++ w :: len :: n2 ++ wv :: r) X e ie f st _ true R).
      * constructor.
      * rewrite Htape. leq.
      * exact He.
      * len.
      * len.
      * len.
      * intros ie2 Hl2 Hp2. rewrite !emit_emit. rewrite <- pr_members_cons.
        apply Hcont; [congruence|]. len.
  - rewrite Htape. leq.
  - rewrite app_length. apply entered_on_word.
  - exact Htagw.
  - exact Hkey.
  - exact Hn2.
  - exact T1.
  - exact T2.
  - rewrite entered_len. len.
Qed.

Theorem marshal_seg :
  (forall i v d, val_seg i v d -> P_val i v d) /\
  (forall i b l, items i b l -> P_items i b l) /\
  (forall i b l, mitems i b l -> P_mitems i b l).
Proof.
  apply seg_mutind; intros.
  - eapply case_str; eauto.
  - apply case_int; auto.
  - apply case_uint; auto.
  - apply case_float; auto.
  - apply case_null; auto.
  - apply case_true; auto.
  - apply case_false; auto.
  - apply case_arr; auto.
  - apply case_obj; auto.
  - apply case_it_nil.
  - apply case_it_nop; auto.
  - apply case_it_val; auto.
  - apply case_mi_nil.
  - apply case_mi_nop; auto.
  - eapply case_mi_mem; eauto.
Qed.

End Refine.

(* ------------------------------------------------------------------ *)
(* fuel: the loop runs at most once per tape word                       *)

Section Bound.
Variables (msg strings : bytes) (strict adj : bool).

Lemma cost_bound :
  (forall i v d, val_seg msg strings strict adj i v d -> (S (cost d) <= length v)%nat) /\
  (forall i b l, items msg strings strict adj i b l -> (cost_list l <= length b)%nat) /\
  (forall i b l, mitems msg strings strict adj i b l -> (cost_mlist l <= length b)%nat).
Proof.
  apply seg_mutind; intros; cbn [cost] in *; unfold cost_list, cost_mlist, list_sum in *;
    cbn [map fold_right snd length] in *;
    repeat rewrite app_length in *; cbn [length] in *; try lia.
Qed.

Lemma cost_roots_bound i rest l :
  roots_seg msg strings strict adj i rest l -> (cost_roots l <= length rest)%nat.
Proof.
  induction 1 as [i|i w rest Hs Ht Hv|i w junk rest l Ht Hv Hrun Hr IH
                  |i w n1 v d n2 c rest l Htw Hn1 Hv Hn2 Htc Hvc Hvw Hr IH];
    unfold cost_roots, list_sum in *; cbn [map fold_right length] in *;
    repeat rewrite app_length in *; cbn [length] in *; try lia.
  pose proof (proj1 cost_bound _ _ _ Hv). repeat rewrite app_length in *. cbn [length] in *. lia.
Qed.
End Bound.

(* ------------------------------------------------------------------ *)
(* the sequence of roots                                                *)

Lemma join_true c xs : xs <> [] -> join_with c true xs = c :: join_with c false xs.
Proof. destruct xs; [congruence|reflexivity]. Qed.

Lemma enter_none ml pj i st out :
  enter_step ml pj i (FNone :: st) out true = do r <- advance_into pj i; ml (fst r) (FNone :: st) out.
Proof. reflexivity. Qed.

Section Roots.
Variables (pj : pjson) (strict adj : bool).
Notation msg := (pj_msg pj).
Notation strings := (pj_strings pj).
Notation val_seg := (val_seg msg strings strict adj).
Notation roots_seg := (roots_seg msg strings strict adj).
Notation nops_seg := (nops_seg strict).
Notation ML f := (marshal_loop f pj).

Definition next_tag (l : list doc) : N := match l with [] => TagEnd | _ => TagRoot end.

Lemma roots_peek k rest l : roots_seg k rest l -> forall n0 pre it,
  nops_seg n0 -> pj_tape pj = pre ++ n0 ++ rest -> at_pos it (length pre) ->
  i_len it = Z.of_nat (length (pj_tape pj)) ->
  peek_next_tag pj it = Ok (next_tag l).
Proof.
  induction 1 as [i|i w rest Hs Ht Hv|i w junk rest l Ht Hv Hrun Hr IH
                  |i w n1 v d n2 c rest l Htw Hn1 Hv Hn2 Htc Hvc Hvw Hr IH];
    intros n0 pre it Hn0 Htape Hpos Hlen.
  - apply (peek_at_end strict pj it n0 pre [] Hn0 Htape Hpos). rewrite Hlen, Htape. len.
  - apply (peek_at_over strict pj it n0 w pre rest Hn0 Htape Ht Hv Hpos Hlen).
  - apply (IH (n0 ++ w :: junk) pre it).
    + apply nops_seg_app; [exact Hn0|apply nops_one; assumption].
    + rewrite Htape. leq.
    + exact Hpos.
    + exact Hlen.
  - cbn [next_tag]. rewrite <- Htw.
    apply (peek_at strict pj it n0 w pre _ Hn0 Htape); [rewrite Htw; discriminate|exact Hpos|].
    rewrite Hlen, Htape. len.
Qed.

Definition roots_tail (out : bytes) (d : doc) (l : list doc) : outcome bytes :=
  if forallb fin_doc l then Ok (rev (emit out (pr_docs (d :: l)))) else Err.

Lemma roots_run k rest l : roots_seg k rest l -> l <> [] -> forall n0 pre it f out,
  nops_seg n0 -> pj_tape pj = pre ++ n0 ++ rest -> (nlen pre + nlen n0 = k)%N ->
  at_pos it (length pre) -> i_len it = Z.of_nat (length (pj_tape pj)) ->
  enter_step (ML (cost_roots l + f)) pj it [FNone] out true =
    if forallb fin_doc l then Ok (rev (emit out (pr_docs l))) else Err.
Proof.
  induction 1 as [i|i w rest Hs Ht Hv|i w junk rest l Ht Hv Hrun Hr IH
                  |i w n1 v d n2 c rest l Htw Hn1 Hv Hn2 Htc Hvc Hvw Hr IH];
    intros Hne n0 pre it f out Hn0 Htape Hk Hpos Hlen; try congruence.
  - apply (IH Hne (n0 ++ w :: junk) pre it f out).
    + apply nops_seg_app; [exact Hn0|apply nops_one; assumption].
    + rewrite Htape. leq.
    + len.
    + exact Hpos.
    + exact Hlen.
  - clear Hne.
    destruct (val_seg_head _ _ _ _ _ _ _ Hv) as (wv & r & -> & Htag).
    destruct (val_tag_not _ Htag) as (T1 & T2 & T3 & T4 & T5).
    assert (Hlt : i_len it = Z.of_nat (length pre + length n0 + 1 + length n1 + length (wv :: r)
                                       + length n2 + 1 + length rest)).
    { rewrite Hlen, Htape. len. }
    assert (W1 : word_tag w <> TagNop) by (rewrite Htw; discriminate).
    assert (C1 : word_tag c <> TagNop /\ word_tag c <> TagEnd) by (rewrite Htc; split; discriminate).
    set (p := (length pre + length n0)%nat).
    (* open the root *)
    unfold enter_step.
    rewrite (advance_into_on strict pj it n0 w pre _ Hn0 Htape W1 Hpos) by len.
    cbn [obind fst]. rewrite sep_out_none. fold p.
    replace (cost_roots (d :: l) + f)%nat with (S (S (cost d + S (cost_roots l + f))))
      by (unfold cost_roots, list_sum; cbn [map fold_right]; lia).
    rewrite marshal_loop_S, keyed_none. cbn [obind fst snd].
    rewrite switch_root_open; [|rewrite entered_t; exact Htw|].
    2:{ unfold entered, with_calc, set_i. cbn [i_off i_cur]. rewrite Hvw. subst p. len. }
    set (i0 := set_i _ _ 0 _ _).
    assert (Hi0 : at_pos i0 (length (pre ++ n0 ++ [w])) /\ i_len i0 = i_len it).
    { split; [|reflexivity]. subst i0. unfold at_pos, entered, with_calc, set_i. cbn [i_off i_add].
      subst p. len. }
    destruct Hi0 as (Hi0 & Hl0).
    assert (Htape1 : pj_tape pj = (pre ++ n0 ++ [w]) ++ n1 ++ wv :: (r ++ n2 ++ c :: rest))
      by (rewrite Htape; leq).
    rewrite (advance_into_on strict pj i0 n1 wv _ _ Hn1 Htape1 T1 Hi0) by len.
    cbn [obind fst].
    (* the value *)
    rewrite marshal_loop_S, keyed_root. cbn [obind fst snd].
    rewrite (proj1 (marshal_seg pj strict adj) _ _ _ Hv (pre ++ n0 ++ w :: n1) (n2 ++ c :: rest)
               wv r _ (S (cost_roots l + f)) [FRoot; FNone] out (roots_tail out d l)).
    + unfold roots_tail. cbn [forallb]. destruct (fin_doc d); reflexivity.
    + rewrite Htape. leq.
    + len.
    + reflexivity.
    + replace (length (pre ++ n0 ++ w :: n1)) with (length (pre ++ n0 ++ [w]) + length n1)%nat by len.
      apply entered_on_word.
    + rewrite entered_len, Hl0. len.
    + (* the closing root word *)
      intros ie Hl Hp. rewrite entered_len, Hl0 in Hl.
      assert (Htape2 : pj_tape pj = (pre ++ n0 ++ w :: n1 ++ wv :: r) ++ n2 ++ c :: rest)
        by (rewrite Htape; leq).
      assert (Hp' : at_pos ie (length (pre ++ n0 ++ w :: n1 ++ wv :: r))) by len.
      rewrite (after_enter strict _ pj ie n2 c _ rest _ _ Hn2 Htape2 (proj1 C1) (proj2 C1) Hp') by len.
      unfold enter_step.
      rewrite (advance_into_on strict pj ie n2 c _ rest Hn2 Htape2 (proj1 C1) Hp') by len.
      cbn [obind fst]. rewrite sep_out_root.
      set (ic := entered ie _ c).
      assert (Hic : at_pos ic (length (pre ++ n0 ++ w :: n1 ++ (wv :: r) ++ n2 ++ [c])) /\
                    i_len ic = Z.of_nat (length (pj_tape pj))).
      { split; [|subst ic; rewrite entered_len; congruence].
        pose proof (on_word_pos1 _ _ c (entered_on_word ie (length (pre ++ n0 ++ w :: n1 ++ wv :: r) + length n2) c)
                      ltac:(rewrite Htc; reflexivity)) as P. fold ic in P. len. }
      destruct Hic as (Hic & Hlc).
      assert (Htape3 : pj_tape pj = (pre ++ n0 ++ w :: n1 ++ (wv :: r) ++ n2 ++ [c]) ++ [] ++ rest)
        by (rewrite Htape; leq).
      pose proof (roots_peek _ _ _ Hr [] _ ic (ns_nil strict) Htape3 Hic Hlc) as Hpk.
      rewrite marshal_loop_S, keyed_root. cbn [obind fst snd].
      rewrite switch_root_close; [|subst ic; rewrite entered_t; exact Htc|].
      2:{ subst ic. unfold entered, with_calc, set_i. cbn [i_off i_cur]. rewrite Hvc. len. }
      rewrite Hpk. cbn [obind].
      destruct l as [|d' l'].
      * cbn [next_tag]. change (TagEnd =? TagEnd)%N with true. cbv iota.
        unfold after_step. rewrite Hpk. cbn [obind next_tag].
        change (TagEnd =? TagEnd)%N with true. cbv iota.
        unfold roots_tail, pr_docs. cbn [forallb map join_with app]. rewrite app_nil_r. reflexivity.
      * cbn [next_tag]. change (TagRoot =? TagEnd)%N with false. cbv iota.
        unfold after_step. rewrite Hpk. cbn [obind next_tag].
        change (TagRoot =? TagEnd)%N with false. cbv iota.
        rewrite (IH ltac:(discriminate) [] _ ic f _ (ns_nil strict) Htape3 ltac:(len) Hic Hlc).
        unfold roots_tail. destruct (forallb fin_doc (d' :: l')); [|reflexivity].
        rewrite !emit_emit. reflexivity.
Qed.

End Roots.

(* ------------------------------------------------------------------ *)
(* REFINEMENT                                                           *)

Definition marshal_spec (ds : list doc) : outcome bytes :=
  match ds with
  | [] => Err                                  (* "no content queued in iterator" *)
  | _ => match print_docs ds with Some s => Ok s | None => Err end
  end.

Theorem marshal_refines_seg pj strict adj ds :
  roots_seg (pj_msg pj) (pj_strings pj) strict adj 0 (pj_tape pj) ds ->
  marshal_iter pj (iter0 pj) = marshal_spec ds.
Proof.
  intros Hr. unfold marshal_iter.
  pose proof (cost_roots_bound _ _ _ _ _ _ _ Hr) as Hb.
  replace (3 * S (length (pj_tape pj)) + 8)%nat
    with (S (cost_roots ds + (3 * S (length (pj_tape pj)) + 7 - cost_roots ds)))%nat by lia.
  set (f := (3 * S (length (pj_tape pj)) + 7 - cost_roots ds)%nat).
  rewrite marshal_loop_S, keyed_none. cbn [obind fst snd].
  rewrite switch_end by reflexivity.
  assert (Hp0 : at_pos (iter0 pj) (length (@nil N))) by reflexivity.
  rewrite (roots_peek pj strict adj _ _ _ Hr [] [] (iter0 pj) (ns_nil strict) eq_refl Hp0 eq_refl).
  cbn [obind]. destruct ds as [|d ds'].
  - reflexivity.
  - cbn [next_tag]. change (TagRoot =? TagEnd)%N with false. cbv iota.
    rewrite <- enter_none.
    rewrite (roots_run pj strict adj _ _ _ Hr ltac:(discriminate) [] [] (iter0 pj) f []
               (ns_nil strict) eq_refl eq_refl Hp0 eq_refl).
    unfold marshal_spec, print_docs.
    destruct (forallb fin_doc (d :: ds')); [|reflexivity].
    unfold emit. rewrite app_nil_r, rev_involutive. reflexivity.
Qed.

(* every tape with a denotation: no well-formedness hypothesis beyond that *)
Theorem marshal_refines pj ds :
  denote (pj_msg pj) (pj_strings pj) (pj_tape pj) = Some ds ->
  marshal_iter pj (iter0 pj) = marshal_spec ds.
Proof. intros H. apply denote_roots_seg in H. eapply marshal_refines_seg. exact H. Qed.

Corollary marshal_never_crashes pj ds :
  denote (pj_msg pj) (pj_strings pj) (pj_tape pj) = Some ds ->
  marshal_iter pj (iter0 pj) <> Crash /\ marshal_iter pj (iter0 pj) <> OutOfFuel.
Proof.
  intros H. rewrite (marshal_refines pj ds H). unfold marshal_spec.
  destruct ds; [split; discriminate|]. destruct (print_docs _); split; discriminate.
Qed.


(* ------------------------------------------------------------------ *)
(* an iterator on one value, its view restricted to that value (what
   AdvanceIter, FindElement, ForEach hand out): the text of that value    *)

Definition value_spec (d : doc) : outcome bytes :=
  match print_doc d with Some s => Ok s | None => Err end.

Theorem marshal_value_iter pj strict adj pre v X d w r it :
  pj_tape pj = pre ++ v ++ X ->
  val_seg (pj_msg pj) (pj_strings pj) strict adj (nlen pre) v d -> v = w :: r ->
  on_word it (length pre) w -> i_len it = Z.of_nat (length pre + length v) ->
  marshal_iter pj it = value_spec d.
Proof.
  intros Htape Hv Ev Hon Hlen. unfold marshal_iter.
  pose proof (proj1 (cost_bound _ _ _ _) _ _ _ Hv) as Hb.
  assert (Hl : (length v <= length (pj_tape pj))%nat) by (rewrite Htape; len).
  replace (3 * S (length (pj_tape pj)) + 8)%nat
    with (S (cost d + (3 * S (length (pj_tape pj)) + 7 - cost d)))%nat by lia.
  set (f := (3 * S (length (pj_tape pj)) + 7 - cost d)%nat).
  rewrite marshal_loop_S, keyed_none. cbn [obind fst snd].
  rewrite (proj1 (marshal_seg pj strict adj) _ _ _ Hv pre X w r it f [FNone] [] (Ok (pr_doc d))
             Htape eq_refl Ev Hon ltac:(len)).
  - unfold value_spec, print_doc. destruct (fin_doc d); reflexivity.
  - intros ie Hl' Hp. unfold after_step.
    assert (Htape' : pj_tape pj = (pre ++ v) ++ [] ++ X) by (rewrite Htape; leq).
    rewrite (peek_at_end strict pj ie [] (pre ++ v) X (ns_nil strict) Htape').
    + cbn [obind]. change (TagEnd =? TagEnd)%N with true. cbv iota.
      unfold emit. rewrite app_nil_r, rev_involutive. reflexivity.
    + len.
    + rewrite Hl', Hlen. len.
Qed.

(* AdvanceIter onto a value hands out exactly such an iterator *)
Section AdvIter.
Variables (msg strings : bytes) (strict adj : bool).

Lemma advance_iter_loop_skip pj i n : nops_seg strict n -> forall f pre X off,
  pj_tape pj = pre ++ n ++ X -> off = Z.of_nat (length pre) ->
  (off + Z.of_nat (length n) < i_len i)%Z -> (length n < f)%nat ->
  exists f', (0 < f')%nat /\
    advance_iter_loop f pj i off = advance_iter_loop f' pj i (off + Z.of_nat (length n))%Z.
Proof.
  induction 1 as [|w junk rest Ht Hv Hrun Hrest IH]; intros f pre X off Htape Hoff Hlen Hf.
  - exists f. split; [cbn in Hf; lia|]. cbn [length]. f_equal. lia.
  - destruct f as [|f]; [lia|].
    cbn [length] in Hlen, Hf. rewrite app_length in Hlen, Hf.
    destruct (IH f (pre ++ w :: junk) X (off + Z.of_nat (length junk) + 1)%Z) as (f' & Hf' & E).
    + rewrite Htape. leq.
    + rewrite app_length. cbn [length]. lia.
    + lia.
    + lia.
    + exists f'. split; [exact Hf'|].
      cbn [advance_iter_loop].
      replace (off =? i_len i)%Z with false by lia.
      replace (i_len i <? off)%Z with false by lia.
      cbn [app] in Htape. rewrite <- app_assoc in Htape.
      rewrite (rd_app pj (i_len i) off pre w _ Htape Hoff) by lia.
      cbn [obind]. rewrite Ht. change (TagNop =? TagNop)%N with true. cbv iota.
      replace (word_val w =? 0)%N with false by (rewrite Hv; lia).
      rewrite Hv.
      replace (off + 1 + Z.of_N (nlen junk + 1) - 1)%Z with (off + Z.of_nat (length junk) + 1)%Z
        by (unfold nlen; lia).
      rewrite E. f_equal. cbn [length]. rewrite app_length. lia.
Qed.

Lemma advance_iter_value pj it n w r d pre X :
  nops_seg strict n -> pj_tape pj = pre ++ n ++ (w :: r) ++ X ->
  val_seg msg strings strict adj (nlen pre + nlen n) (w :: r) d ->
  at_pos it (length pre) ->
  (Z.of_nat (length pre + length n + length (w :: r)) <= i_len it)%Z ->
  exists it' el, advance_iter pj it = Ok (it', Some el, TagToType_ref (word_tag w)) /\
    on_word el (length pre + length n) w /\
    i_len el = Z.of_nat (length pre + length n + length (w :: r)) /\
    at_pos it' (length pre + length n + length (w :: r)) /\ i_len it' = i_len it /\
    TagToType_ref (word_tag w) <> TypeNone.
Proof.
  intros Hn Htape Hv Hpos Hlen.
  destruct (val_seg_head _ _ _ _ _ _ _ Hv) as (w' & r' & E & Htag). injection E as <- <-.
  destruct (val_tag_not _ Htag) as (T1 & _).
  unfold advance_iter. rewrite Hpos. cbn [length] in Hlen.
  destruct (advance_iter_loop_skip pj it n Hn (fuel_of it) pre ((w :: r) ++ X) _ Htape eq_refl)
    as (f' & Hf' & ->).
  { lia. } { unfold fuel_of. lia. }
  destruct f' as [|f']; [lia|]. cbn [advance_iter_loop].
  replace (Z.of_nat (length pre) + Z.of_nat (length n) =? i_len it)%Z with false by lia.
  replace (i_len it <? Z.of_nat (length pre) + Z.of_nat (length n))%Z with false by lia.
  assert (Htape' : pj_tape pj = (pre ++ n) ++ w :: (r ++ X)) by (rewrite Htape; leq).
  rewrite (rd_app pj (i_len it) _ (pre ++ n) w _ Htape') by (rewrite ?app_length; lia).
  cbn [obind].
  replace (word_tag w =? TagNop)%N with false by (symmetry; apply N.eqb_neq; exact T1).
  set (off1 := (Z.of_nat (length pre) + Z.of_nat (length n) + 1)%Z).
  assert (Hadd : calc_next false off1 (word_val w) (word_tag w) = Z.of_nat (length r)).
  { rewrite <- (calc_next_val _ _ _ _ _ _ _ _ Hv). f_equal. subst off1. unfold nlen. lia. }
  unfold with_calc, set_i. cbn [i_off i_cur i_t i_add i_len]. rewrite Hadd.
  replace (Z.of_nat (length r) <? 0)%Z with false by lia.
  replace (i_len it <? off1 + Z.of_nat (length r))%Z with false by (subst off1; lia).
  do 2 eexists. split; [reflexivity|].
  split; [|split; [|split; [|split]]].
  - unfold on_word. cbn [i_off i_cur i_t i_add]. subst off1.
    split; [lia|]. split; [reflexivity|]. split; [reflexivity|].
    unfold calc_next. destruct (is2 (word_tag w)); [reflexivity|].
    destruct (is_open (word_tag w)); reflexivity.
  - cbn [i_len length]. subst off1. lia.
  - unfold at_pos. cbn [i_off i_add length]. subst off1. lia.
  - reflexivity.
  - apply val_tag_type. exact Htag.
Qed.
End AdvIter.

Print Assumptions marshal_refines.
Print Assumptions marshal_value_iter.
