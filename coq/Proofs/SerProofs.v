(* SerProofs.v — Serialize followed by Deserialize, for EVERY string hash:
   on a well-formed tape (possibly with NOP runs) Serialize does not panic,
   Deserialize accepts its output and the rebuilt tape denotes the same
   documents (property C11 on the model).  The same holds for any sections
   accepted by the hash-independent check [ser_check], and every output of
   the model's Serialize passes that check. *)
From Coq Require Import ZifyBool ZifyN ZifyNat.
From SJ Require Import Model.Base Model.RefTables Spec.Json Model.Tape Model.Iter Model.WF Model.Serialize.
From SJ Require Import Proofs.StrArith Proofs.Stage2Base Proofs.DeserSafe Proofs.SerBase Proofs.SerFlat Proofs.SerDen Proofs.SerSteps Proofs.SerLock Proofs.SerDenTotal Proofs.SerWf Proofs.SerFraming.
Open Scope N_scope.

(* ------------------------------------------------------------------ *)
(* Serialize does not panic on a well-formed tape                       *)

Section Total.
Variable hash : bytes -> N.
Variable pj : pjson.

Lemma emit_ok a b o : (exists out, o = Ok out) -> exists out, emit a b o = Ok out.
Proof. intros [[[x y] z] ->]. cbn [emit]. eauto. Qed.

Lemma ser3_total : forall stk off rest,
  flat_ok (N.of_nat (length (pj_msg pj))) (N.of_nat (length (pj_strings pj))) stk off rest ->
  forall sb tbl, exists out, ser3 hash pj off rest sb tbl = Ok out.
Proof.
  induction 1 as [off|stk off ns r Hne Hns Hh H IH|stk off w len r Ht Hs Hb H IH|stk off w v r Ht Hv Hb H IH
                 |stk off w v r Ht Hb H IH|stk off w r Ht Hv Hb H IH|stk off w r Ht Hb H IH|stk off w r q t Ht Hw Hq H IH];
    intros sb tbl.
  - cbn [ser3]. eauto.
  - rewrite ser3_nops by (apply nruns_all_nop; exact Hns). apply emit_ok, IH.
  - rewrite ser3_str by exact Ht.
    destruct (str_ok_string_at pj _ _ Hs) as [s Hsa].
    pose proof (string_byte_at_string_at pj (word_val w) len) as Hsb. rewrite Hsa in Hsb. rewrite Hsb.
    destruct (idx hash sb tbl s) as [[sb1 tbl1] o]. apply emit_ok, IH.
  - rewrite ser3_num by exact Ht. apply emit_ok, IH.
  - rewrite ser3_flt by exact Ht. destruct (word_val w =? 0); apply emit_ok, IH.
  - rewrite ser3_atom by exact Ht. apply emit_ok, IH.
  - rewrite ser3_open by exact Ht. apply emit_ok, IH.
  - destruct Ht as [E|[E|E]]; subst t.
    + rewrite ser3_close by (left; exact Hw). apply emit_ok, IH.
    + rewrite ser3_close by (right; exact Hw). apply emit_ok, IH.
    + rewrite ser3_open by (right; right; exact Hw). apply emit_ok, IH.
Qed.

(* all emitted value words fit in 64 bits *)
Lemma ser3_vals_bound : forall rest off sb tbl tg vl sbF,
  Forall (fun w => w < two64) rest -> N.of_nat (length sbF) < STRINGBUFBIT ->
  ser3 hash pj off rest sb tbl = Ok (tg, vl, sbF) -> Forall (fun v => v < two64) vl.
Proof.
  intros rest. remember (length rest) as n eqn:Hn.
  revert rest Hn. induction n as [n IHn] using lt_wf_ind.
  intros rest Hn off sb tbl tg vl sbF Hall HsbF.
  destruct rest as [|entry r].
  { cbn [ser3]. intros H. injection H as _ <- _. constructor. }
  rewrite ser3_cons. cbv zeta. cbn [length] in Hn.
  inversion Hall as [|? ? Hentry Hr]; subst.
  assert (Hemit : forall tg1 vl1 off1 r1 sb1 tbl1,
    (length r1 < S (length r))%nat -> Forall (fun w => w < two64) r1 -> Forall (fun v => v < two64) vl1 ->
    emit tg1 vl1 (ser3 hash pj off1 r1 sb1 tbl1) = Ok (tg, vl, sbF) -> Forall (fun v => v < two64) vl).
  { intros tg1 vl1 off1 r1 sb1 tbl1 Hl Hr1 Hvl1 H.
    destruct (ser3 hash pj off1 r1 sb1 tbl1) as [[[a b] c]| | |] eqn:E; cbn [emit] in H; try discriminate.
    injection H as _ <- <-. apply Forall_app. split; [exact Hvl1|].
    apply (IHn (length r1) Hl r1 eq_refl _ _ _ _ _ _ Hr1 HsbF E). }
  assert (Hw64 : forall x, w64 x < two64) by (intros x; unfold w64; apply N.mod_lt; discriminate).
  destruct (word_tag entry =? TagNop); [apply Hemit; [lia|exact Hr|constructor]|].
  destruct (word_tag entry =? TagString).
  { destruct r as [|len r']; [discriminate|].
    destruct (string_byte_at pj (word_val entry) len) as [s| | |]; try discriminate.
    destruct (idx hash sb tbl s) as [[sb1 tbl1] o] eqn:Ei.
    inversion Hr as [|? ? Hlen Hr']; subst.
    intros H.
    destruct (ser3 hash pj (off + 2) r' sb1 tbl1) as [[[a b] c]| | |] eqn:E; cbn [emit] in H; try discriminate.
    injection H as _ <- <-.
    destruct (idx_sound _ _ _ _ _ _ _ Ei) as [_ Hsl].
    destruct (slice_length _ _ _ _ Hsl) as [_ Hob].
    destruct (ser3_prefix _ _ _ _ _ _ _ _ _ E) as [e2 He2].
    rewrite He2, app_length in HsbF.
    cbn [app]. constructor; [unfold two64, STRINGBUFBIT in *; lia|].
    constructor; [unfold two64, STRINGBUFBIT in *; lia|].
    refine (IHn (length r') _ r' eq_refl _ _ _ _ _ _ Hr' _ E); [cbn [length]; lia|].
    rewrite He2, app_length. exact HsbF. }
  destruct ((word_tag entry =? TagUint) || (word_tag entry =? TagInteger)).
  { destruct r as [|v r']; [discriminate|]. inversion Hr as [|? ? Hv Hr']; subst.
    apply Hemit; [cbn [length]; lia|exact Hr'|constructor; [exact Hv|constructor]]. }
  destruct (word_tag entry =? TagFloat).
  { destruct r as [|v r']; [discriminate|]. inversion Hr as [|? ? Hv Hr']; subst.
    destruct (word_val entry =? 0); apply Hemit; try exact Hr'; try (cbn [length]; lia).
    - constructor; [exact Hv|constructor].
    - constructor; [exact Hentry|constructor; [exact Hv|constructor]]. }
  destruct ((word_tag entry =? TagNull) || (word_tag entry =? TagBoolTrue) || (word_tag entry =? TagBoolFalse));
    [apply Hemit; [lia|exact Hr|constructor]|].
  destruct ((word_tag entry =? TagObjectStart) || (word_tag entry =? TagArrayStart) || (word_tag entry =? TagRoot));
    [apply Hemit; [lia|exact Hr|constructor; [apply Hw64|constructor]]|].
  destruct ((word_tag entry =? TagObjectEnd) || (word_tag entry =? TagArrayEnd) || (word_tag entry =? TagEnd));
    [apply Hemit; [lia|exact Hr|constructor]|].
  discriminate.
Qed.

(* size of the de-duplicated string buffer *)
Lemma idx_len sb tbl s sb1 tbl1 o : idx hash sb tbl s = (sb1, tbl1, o) ->
  (length sb1 <= length sb + length s)%nat.
Proof.
  unfold idx.
  match goal with |- context [if ?c then (_, _, _) else _] => destruct c end;
    intros H; injection H as <- _ _; rewrite ?app_length; lia.
Qed.

Lemma string_byte_at_len p len s : string_byte_at pj p len = Ok s ->
  N.of_nat (length s) <= N.max (N.of_nat (length (pj_msg pj))) (N.of_nat (length (pj_strings pj))).
Proof.
  unfold string_byte_at.
  destruct (N.land p STRINGBUFBIT =? 0).
  - destruct ((N.of_nat (length (pj_msg pj)) <? len) || (N.of_nat (length (pj_msg pj)) - len <? p)); [discriminate|].
    intros H. injection H as <-. rewrite firstn_length, skipn_length. lia.
  - destruct ((N.of_nat (length (pj_strings pj)) <? len) || (N.of_nat (length (pj_strings pj)) - len <? N.land p STRINGBUFMASK)); [discriminate|].
    intros H. injection H as <-. rewrite firstn_length, skipn_length. lia.
Qed.

Lemma ser3_strbuf_len : forall rest off sb tbl tg vl sbF,
  ser3 hash pj off rest sb tbl = Ok (tg, vl, sbF) ->
  N.of_nat (length sbF) <= N.of_nat (length sb) +
    N.of_nat (length rest) * N.max (N.of_nat (length (pj_msg pj))) (N.of_nat (length (pj_strings pj))).
Proof.
  set (M := N.max (N.of_nat (length (pj_msg pj))) (N.of_nat (length (pj_strings pj)))).
  intros rest. remember (length rest) as n eqn:Hn.
  revert rest Hn. induction n as [n IHn] using lt_wf_ind.
  intros rest Hn off sb tbl tg vl sbF.
  destruct rest as [|entry r].
  { cbn [ser3]. intros H. injection H as _ _ <-. lia. }
  rewrite ser3_cons. cbv zeta. cbn [length] in Hn.
  assert (Hemit : forall tg1 vl1 off1 r1 sb1 tbl1,
    (length r1 < n)%nat -> N.of_nat (length sb1) + N.of_nat (length r1) * M <= N.of_nat (length sb) + N.of_nat n * M ->
    emit tg1 vl1 (ser3 hash pj off1 r1 sb1 tbl1) = Ok (tg, vl, sbF) ->
    N.of_nat (length sbF) <= N.of_nat (length sb) + N.of_nat n * M).
  { intros tg1 vl1 off1 r1 sb1 tbl1 Hl Hle H.
    destruct (ser3 hash pj off1 r1 sb1 tbl1) as [[[a b] c]| | |] eqn:E; cbn [emit] in H; try discriminate.
    injection H as _ _ <-.
    pose proof (IHn (length r1) Hl r1 eq_refl _ _ _ _ _ _ E) as IH. fold M in IH. lia. }
  assert (Hstep1 : N.of_nat (length sb) + N.of_nat (length r) * M <= N.of_nat (length sb) + N.of_nat n * M).
  { subst n. apply N.add_le_mono_l. apply N.mul_le_mono_r. lia. }
  destruct (word_tag entry =? TagNop); [apply Hemit; [lia|exact Hstep1]|].
  destruct (word_tag entry =? TagString).
  { destruct r as [|len r']; [discriminate|].
    destruct (string_byte_at pj (word_val entry) len) as [s| | |] eqn:Esb; try discriminate.
    destruct (idx hash sb tbl s) as [[sb1 tbl1] o] eqn:Ei.
    apply Hemit; [cbn [length] in Hn; lia|].
    pose proof (idx_len _ _ _ _ _ _ Ei) as H1.
    pose proof (string_byte_at_len _ _ _ Esb) as H2. fold M in H2.
    subst n. cbn [length].
    replace (N.of_nat (S (S (length r')))) with (N.of_nat (length r') + 2) by lia.
    rewrite N.mul_add_distr_r. lia. }
  assert (Hstep2 : forall v r', r = v :: r' ->
    N.of_nat (length sb) + N.of_nat (length r') * M <= N.of_nat (length sb) + N.of_nat n * M).
  { intros v r' ->. subst n. apply N.add_le_mono_l. apply N.mul_le_mono_r. cbn [length]. lia. }
  destruct ((word_tag entry =? TagUint) || (word_tag entry =? TagInteger)).
  { destruct r as [|v r']; [discriminate|]. apply Hemit; [cbn [length] in Hn; lia|apply (Hstep2 v); reflexivity]. }
  destruct (word_tag entry =? TagFloat).
  { destruct r as [|v r']; [discriminate|].
    destruct (word_val entry =? 0); (apply Hemit; [cbn [length] in Hn; lia|apply (Hstep2 v); reflexivity]). }
  destruct ((word_tag entry =? TagNull) || (word_tag entry =? TagBoolTrue) || (word_tag entry =? TagBoolFalse));
    [apply Hemit; [lia|exact Hstep1]|].
  destruct ((word_tag entry =? TagObjectStart) || (word_tag entry =? TagArrayStart) || (word_tag entry =? TagRoot));
    [apply Hemit; [lia|exact Hstep1]|].
  destruct ((word_tag entry =? TagObjectEnd) || (word_tag entry =? TagArrayEnd) || (word_tag entry =? TagEnd));
    [apply Hemit; [lia|exact Hstep1]|].
  discriminate.
Qed.


Lemma emit_tags a b o tg vl sbF : emit a b o = Ok (tg, vl, sbF) ->
  exists tg1 vl1, o = Ok (tg1, vl1, sbF) /\ tg = a ++ tg1 /\ vl = b ++ vl1.
Proof.
  destruct o as [[[x y] z]| | |]; cbn [emit]; intros H; try discriminate.
  injection H as <- <- <-. eauto.
Qed.

Lemma string_byte_at_ok p len s : string_byte_at pj p len = Ok s ->
  string_at (pj_msg pj) (pj_strings pj) p len = Some s.
Proof.
  intros H. pose proof (string_byte_at_string_at pj p len) as Hs.
  destruct (string_at (pj_msg pj) (pj_strings pj) p len); congruence.
Qed.

(* what Serialize emits is an encoding of the tape, for any hash *)
Lemma ser3_enc : forall rest off sb tbl tg vl sbF,
  ser3 hash pj off rest sb tbl = Ok (tg, vl, sbF) ->
  enc (pj_msg pj) (pj_strings pj) sbF off rest tg vl.
Proof.
  intros rest. remember (length rest) as n eqn:Hn.
  revert rest Hn. induction n as [n IHn] using lt_wf_ind.
  intros rest Hn off sb tbl tg vl sbF.
  destruct rest as [|entry r].
  { cbn [ser3]. intros H. injection H as <- <- _. constructor. }
  rewrite ser3_cons. cbv zeta. cbn [length] in Hn.
  assert (Hrec : forall off1 r1 sb1 tbl1 tg1 vl1, (length r1 < n)%nat ->
            ser3 hash pj off1 r1 sb1 tbl1 = Ok (tg1, vl1, sbF) ->
            enc (pj_msg pj) (pj_strings pj) sbF off1 r1 tg1 vl1).
  { intros off1 r1 sb1 tbl1 tg1 vl1 Hl E. apply (IHn (length r1) Hl r1 eq_refl _ _ _ _ _ _ E). }
  destruct (word_tag entry =? TagNop) eqn:E0.
  { intros H. destruct (emit_tags _ _ _ _ _ _ H) as (tg1 & vl1 & Es & -> & ->).
    apply N.eqb_eq in E0. rewrite E0. cbn [app]. apply enc_nop; [exact E0|]. (eapply Hrec; [|exact Es]; lia). }
  destruct (word_tag entry =? TagString) eqn:E1.
  { destruct r as [|len r']; [discriminate|].
    destruct (string_byte_at pj (word_val entry) len) as [s| | |] eqn:Esb; try discriminate.
    destruct (idx hash sb tbl s) as [[sb1 tbl1] o] eqn:Ei.
    intros H. destruct (emit_tags _ _ _ _ _ _ H) as (tg1 & vl1 & Es & -> & ->).
    apply N.eqb_eq in E1. rewrite E1. cbn [app].
    pose proof (string_byte_at_ok _ _ _ Esb) as Hsa.
    pose proof (string_at_length _ _ _ _ _ Hsa) as Hls.
    destruct (idx_sound _ _ _ _ _ _ _ Ei) as [_ Hsl].
    destruct (ser3_prefix _ _ _ _ _ _ _ _ _ Es) as [e2 He2].
    rewrite Hls. apply (enc_str _ _ _ _ _ _ _ _ s); [exact E1|exact Hsa| |].
    - rewrite He2. apply slice_app. rewrite <- Hls. exact Hsl.
    - (eapply Hrec; [|exact Es]; cbn [length] in Hn; lia). }
  destruct ((word_tag entry =? TagUint) || (word_tag entry =? TagInteger)) eqn:E2.
  { destruct r as [|v r']; [discriminate|].
    intros H. destruct (emit_tags _ _ _ _ _ _ H) as (tg1 & vl1 & Es & -> & ->). cbn [app].
    apply enc_num; [|(eapply Hrec; [|exact Es]; cbn [length] in Hn; lia)].
    apply orb_true_iff in E2. destruct E2 as [E2|E2]; apply N.eqb_eq in E2; auto. }
  destruct (word_tag entry =? TagFloat) eqn:E3.
  { destruct r as [|v r']; [discriminate|]. apply N.eqb_eq in E3.
    destruct (word_val entry =? 0) eqn:Ev; intros H;
      destruct (emit_tags _ _ _ _ _ _ H) as (tg1 & vl1 & Es & -> & ->); cbn [app].
    - apply N.eqb_eq in Ev. rewrite E3. apply enc_flt0; [exact E3|exact Ev|(eapply Hrec; [|exact Es]; cbn [length] in Hn; lia)].
    - apply N.eqb_neq in Ev. apply enc_flt1; [exact E3|exact Ev|(eapply Hrec; [|exact Es]; cbn [length] in Hn; lia)]. }
  destruct ((word_tag entry =? TagNull) || (word_tag entry =? TagBoolTrue) || (word_tag entry =? TagBoolFalse)) eqn:E4.
  { intros H. destruct (emit_tags _ _ _ _ _ _ H) as (tg1 & vl1 & Es & -> & ->). cbn [app].
    apply enc_atom; [|(eapply Hrec; [|exact Es]; lia)].
    apply orb_true_iff in E4. destruct E4 as [E4|E4]; [apply orb_true_iff in E4; destruct E4 as [E4|E4]|];
      apply N.eqb_eq in E4; auto. }
  destruct ((word_tag entry =? TagObjectStart) || (word_tag entry =? TagArrayStart) || (word_tag entry =? TagRoot)) eqn:E5.
  { intros H. destruct (emit_tags _ _ _ _ _ _ H) as (tg1 & vl1 & Es & -> & ->). cbn [app].
    apply enc_open; [|(eapply Hrec; [|exact Es]; lia)].
    apply orb_true_iff in E5. destruct E5 as [E5|E5]; [apply orb_true_iff in E5; destruct E5 as [E5|E5]|];
      apply N.eqb_eq in E5; unfold is_opent; auto. }
  destruct ((word_tag entry =? TagObjectEnd) || (word_tag entry =? TagArrayEnd) || (word_tag entry =? TagEnd)) eqn:E6; [|discriminate].
  intros H. destruct (emit_tags _ _ _ _ _ _ H) as (tg1 & vl1 & Es & -> & ->). cbn [app].
  apply enc_close; [|(eapply Hrec; [|exact Es]; lia)].
  apply orb_true_iff in E6. destruct E6 as [E6|E6]; [apply orb_true_iff in E6; destruct E6 as [E6|E6]|];
    apply N.eqb_eq in E6; auto.
Qed.

End Total.

(* ------------------------------------------------------------------ *)
(* the hash-independent check [ser_check] is exactly [enc]              *)

Section Check.
Variable pj : pjson.
Variable SB : bytes.

Lemma ser_check_loop_S f off entry r tags vals :
  ser_check_loop (S f) pj off (entry :: r) tags vals SB =
      let t := word_tag entry in
      let payload := word_val entry in
      match tags with
      | [] => false
      | tg :: tags' =>
        let g := b2n tg in
        if t =? TagString then
          match r, vals with
          | len :: r', o :: l :: vals' =>
            match string_byte_at pj payload len with
            | Ok sb =>
              (g =? TagString) && (l =? N.of_nat (length sb)) && (o + l <=? N.of_nat (length SB)) &&
              bytes_eqb (firstn (N.to_nat l) (skipn (N.to_nat o) SB)) sb &&
              ser_check_loop f pj (off + 2) r' tags' vals' SB
            | _ => false
            end
          | _, _ => false
          end
        else if (t =? TagUint) || (t =? TagInteger) || ((t =? TagFloat) && (payload =? 0)) then
          match r, vals with
          | v :: r', v' :: vals' => (g =? t) && (v =? v') && ser_check_loop f pj (off + 2) r' tags' vals' SB
          | _, _ => false
          end
        else if t =? TagFloat then
          match r, vals with
          | v :: r', e' :: v' :: vals' => (g =? tagFloatWithFlag) && (e' =? entry) && (v =? v') && ser_check_loop f pj (off + 2) r' tags' vals' SB
          | _, _ => false
          end
        else if (t =? TagObjectStart) || (t =? TagArrayStart) || (t =? TagRoot) then
          match vals with
          | v' :: vals' => (g =? t) && (v' =? w64 (payload + two64 - off)) && ser_check_loop f pj (off + 1) r tags' vals' SB
          | [] => false
          end
        else if (t =? TagNop) || (t =? TagNull) || (t =? TagBoolTrue) || (t =? TagBoolFalse) ||
                (t =? TagObjectEnd) || (t =? TagArrayEnd) || (t =? TagEnd) then
          (g =? t) && ser_check_loop f pj (off + 1) r tags' vals SB
        else false
      end.
Proof. reflexivity. Qed.

Lemma byte_of_b2n tb t : (b2n tb =? t) = true -> tb = n2b t.
Proof. intros H. apply N.eqb_eq in H. rewrite <- H. symmetry. apply n2b_b2n. Qed.

Lemma bytes_eqb_refl : forall a, bytes_eqb a a = true.
Proof.
  unfold bytes_eqb. intros a. rewrite Nat.eqb_refl. cbn [andb].
  induction a as [|x a IH]; [reflexivity|]. cbn [combine forallb fst snd]. rewrite IH, andb_true_r.
  unfold beq. destruct x; reflexivity.
Qed.

(* soundness of the check *)
Lemma check_enc : forall f off rest tg vl,
  ser_check_loop f pj off rest tg vl SB = true -> enc (pj_msg pj) (pj_strings pj) SB off rest tg vl.
Proof.
  induction f as [|f IH]; intros off rest tg vl H; [discriminate|].
  destruct rest as [|entry r].
  { cbn [ser_check_loop] in H. destruct tg; [|discriminate]. destruct vl; [|discriminate]. constructor. }
  rewrite ser_check_loop_S in H. cbv zeta in H.
  destruct tg as [|tb tg']; [discriminate|].
  destruct (word_tag entry =? TagString) eqn:E1.
  { destruct r as [|len r']; [discriminate|]. destruct vl as [|o [|l vl']]; try discriminate.
    destruct (string_byte_at pj (word_val entry) len) as [s| | |] eqn:Esb; try discriminate.
    apply andb_true_iff in H. destruct H as [H Hrec].
    apply andb_true_iff in H. destruct H as [H Heq].
    apply andb_true_iff in H. destruct H as [H Hle].
    apply andb_true_iff in H. destruct H as [Hg Hl].
    apply byte_of_b2n in Hg. apply N.eqb_eq in Hl. apply N.eqb_eq in E1. apply bytes_eqb_true in Heq.
    pose proof (string_byte_at_ok _ _ _ _ Esb) as Hsa.
    pose proof (string_at_length _ _ _ _ _ Hsa) as Hls.
    subst tb l. rewrite Hls in *.
    apply (enc_str _ _ _ _ _ _ _ _ s); [exact E1|exact Hsa| |apply IH; exact Hrec].
    unfold slice. rewrite Hle. f_equal. exact Heq. }
  destruct ((word_tag entry =? TagUint) || (word_tag entry =? TagInteger) || ((word_tag entry =? TagFloat) && (word_val entry =? 0))) eqn:E2.
  { destruct r as [|v r']; [discriminate|]. destruct vl as [|v' vl']; [discriminate|].
    apply andb_true_iff in H. destruct H as [H Hrec].
    apply andb_true_iff in H. destruct H as [Hg Hv].
    apply byte_of_b2n in Hg. apply N.eqb_eq in Hv. subst tb v'.
    apply orb_true_iff in E2. destruct E2 as [E2|E2].
    - apply enc_num; [|apply IH; exact Hrec].
      apply orb_true_iff in E2. destruct E2 as [E2|E2]; apply N.eqb_eq in E2; auto.
    - apply andb_true_iff in E2. destruct E2 as [Et Ev]. apply N.eqb_eq in Et, Ev.
      rewrite Et. apply enc_flt0; [exact Et|exact Ev|apply IH; exact Hrec]. }
  destruct (word_tag entry =? TagFloat) eqn:E3.
  { destruct r as [|v r']; [discriminate|]. destruct vl as [|e' [|v' vl']]; try discriminate.
    apply andb_true_iff in H. destruct H as [H Hrec].
    apply andb_true_iff in H. destruct H as [H Hv].
    apply andb_true_iff in H. destruct H as [Hg He].
    apply byte_of_b2n in Hg. apply N.eqb_eq in Hv, He. subst tb v' e'.
    apply N.eqb_eq in E3.
    apply enc_flt1; [exact E3| |apply IH; exact Hrec].
    intros Ev. rewrite E3, Ev in E2. discriminate. }
  destruct ((word_tag entry =? TagObjectStart) || (word_tag entry =? TagArrayStart) || (word_tag entry =? TagRoot)) eqn:E4.
  { destruct vl as [|v' vl']; [discriminate|].
    apply andb_true_iff in H. destruct H as [H Hrec].
    apply andb_true_iff in H. destruct H as [Hg Hv].
    apply byte_of_b2n in Hg. apply N.eqb_eq in Hv. subst tb v'.
    apply enc_open; [|apply IH; exact Hrec].
    apply orb_true_iff in E4. destruct E4 as [E4|E4]; [apply orb_true_iff in E4; destruct E4 as [E4|E4]|];
      apply N.eqb_eq in E4; unfold is_opent; auto. }
  destruct ((word_tag entry =? TagNop) || (word_tag entry =? TagNull) || (word_tag entry =? TagBoolTrue) ||
            (word_tag entry =? TagBoolFalse) || (word_tag entry =? TagObjectEnd) || (word_tag entry =? TagArrayEnd) ||
            (word_tag entry =? TagEnd)) eqn:E5; [|discriminate].
  apply andb_true_iff in H. destruct H as [Hg Hrec].
  apply byte_of_b2n in Hg. subst tb. apply IH in Hrec.
  repeat (apply orb_true_iff in E5; destruct E5 as [E5|E5]); apply N.eqb_eq in E5.
  - rewrite E5. apply enc_nop; assumption.
  - apply enc_atom; auto.
  - apply enc_atom; auto.
  - apply enc_atom; auto.
  - apply enc_close; auto.
  - apply enc_close; auto.
  - apply enc_close; auto.
Qed.

(* completeness of the check *)
Lemma enc_check : forall off rest tg vl, enc (pj_msg pj) (pj_strings pj) SB off rest tg vl ->
  forall f, (length rest < f)%nat -> ser_check_loop f pj off rest tg vl SB = true.
Proof.
  induction 1 as [off|off w r tg vl Ht H IH|off w len r o s tg vl Ht Hsa Hsl H IH|off w v r tg vl Ht H IH
                 |off w v r tg vl Ht Hv H IH|off w v r tg vl Ht Hv H IH|off w r tg vl Ht H IH
                 |off w r tg vl Ht H IH|off w r tg vl Ht H IH];
    intros f Hf; (destruct f as [|f]; [cbn [length] in Hf; lia|]); cbn [length] in Hf.
  - reflexivity.
  - rewrite ser_check_loop_S. cbv zeta. rewrite Ht.
    rewrite b2n_n2b_small by (unfold TagNop; lia).
    change (TagNop =? TagString) with false. cbv iota.
    change ((TagNop =? TagUint) || (TagNop =? TagInteger) || (TagNop =? TagFloat) && (word_val w =? 0)) with false. cbv iota.
    change (TagNop =? TagFloat) with false. cbv iota.
    change ((TagNop =? TagObjectStart) || (TagNop =? TagArrayStart) || (TagNop =? TagRoot)) with false. cbv iota.
    change (TagNop =? TagNop) with true. cbn [orb andb]. apply IH. lia.
  - rewrite ser_check_loop_S. cbv zeta. rewrite Ht.
    change (TagString =? TagString) with true. cbv iota.
    pose proof (string_byte_at_string_at pj (word_val w) len) as Hsb. rewrite Hsa in Hsb. rewrite Hsb.
    rewrite b2n_n2b_small by (unfold TagString; lia).
    change (TagString =? TagString) with true.
    pose proof (string_at_length _ _ _ _ _ Hsa) as Hls.
    unfold slice in Hsl. destruct (o + len <=? N.of_nat (length SB)) eqn:Ele; [|discriminate].
    injection Hsl as Hsl. rewrite Hsl, bytes_eqb_refl.
    replace (len =? N.of_nat (length s)) with true by lia. cbn [andb]. apply IH. lia.
  - rewrite ser_check_loop_S. cbv zeta.
    assert (Hc : (word_tag w =? TagString) = false /\ (word_tag w =? TagUint) || (word_tag w =? TagInteger) = true /\ word_tag w < 256).
    { destruct Ht as [E|E]; rewrite E; repeat split. }
    destruct Hc as (E1 & E2 & E3). rewrite E1, E2. cbn [orb].
    rewrite b2n_n2b_small by exact E3. rewrite !N.eqb_refl. cbn [andb]. apply IH. lia.
  - rewrite ser_check_loop_S. cbv zeta. rewrite Ht, Hv.
    change (TagFloat =? TagString) with false. cbv iota.
    change ((TagFloat =? TagUint) || (TagFloat =? TagInteger) || (TagFloat =? TagFloat) && (0 =? 0)) with true. cbv iota.
    rewrite b2n_n2b_small by (unfold TagFloat; lia). rewrite !N.eqb_refl. cbn [andb]. apply IH. lia.
  - rewrite ser_check_loop_S. cbv zeta. rewrite Ht.
    change (TagFloat =? TagString) with false. cbv iota.
    replace (word_val w =? 0) with false by lia.
    change ((TagFloat =? TagUint) || (TagFloat =? TagInteger) || (TagFloat =? TagFloat) && false) with false. cbv iota.
    change (TagFloat =? TagFloat) with true. cbv iota.
    rewrite b2n_n2b_small by (unfold tagFloatWithFlag; lia). rewrite !N.eqb_refl. cbn [andb]. apply IH. lia.
  - rewrite ser_check_loop_S. cbv zeta.
    assert (Hc : (word_tag w =? TagString) = false /\ (word_tag w =? TagUint) || (word_tag w =? TagInteger) = false /\
                 (word_tag w =? TagFloat) = false /\
                 (word_tag w =? TagObjectStart) || (word_tag w =? TagArrayStart) || (word_tag w =? TagRoot) = false /\
                 (word_tag w =? TagNop) || (word_tag w =? TagNull) || (word_tag w =? TagBoolTrue) || (word_tag w =? TagBoolFalse) ||
                 (word_tag w =? TagObjectEnd) || (word_tag w =? TagArrayEnd) || (word_tag w =? TagEnd) = true /\ word_tag w < 256).
    { destruct Ht as [E|[E|E]]; rewrite E; repeat split. }
    destruct Hc as (E1 & E2 & E3 & E4 & E5 & E6). rewrite E1, E2, E3, E4, E5. cbn [orb andb].
    rewrite b2n_n2b_small by exact E6. rewrite !N.eqb_refl. cbn [andb]. apply IH. lia.
  - rewrite ser_check_loop_S. cbv zeta.
    assert (Hc : (word_tag w =? TagString) = false /\ (word_tag w =? TagUint) || (word_tag w =? TagInteger) = false /\
                 (word_tag w =? TagFloat) = false /\
                 (word_tag w =? TagObjectStart) || (word_tag w =? TagArrayStart) || (word_tag w =? TagRoot) = true /\ word_tag w < 256).
    { destruct Ht as [E|[E|E]]; rewrite E; repeat split. }
    destruct Hc as (E1 & E2 & E3 & E4 & E6). rewrite E1, E2, E3, E4. cbn [orb andb].
    rewrite b2n_n2b_small by exact E6. rewrite !N.eqb_refl. cbn [andb]. apply IH. lia.
  - rewrite ser_check_loop_S. cbv zeta.
    assert (Hc : (word_tag w =? TagString) = false /\ (word_tag w =? TagUint) || (word_tag w =? TagInteger) = false /\
                 (word_tag w =? TagFloat) = false /\
                 (word_tag w =? TagObjectStart) || (word_tag w =? TagArrayStart) || (word_tag w =? TagRoot) = false /\
                 (word_tag w =? TagNop) || (word_tag w =? TagNull) || (word_tag w =? TagBoolTrue) || (word_tag w =? TagBoolFalse) ||
                 (word_tag w =? TagObjectEnd) || (word_tag w =? TagArrayEnd) || (word_tag w =? TagEnd) = true /\ word_tag w < 256).
    { destruct Ht as [E|[E|E]]; rewrite E; repeat split. }
    destruct Hc as (E1 & E2 & E3 & E4 & E5 & E6). rewrite E1, E2, E3, E4, E5. cbn [orb andb].
    rewrite b2n_n2b_small by exact E6. rewrite !N.eqb_refl. cbn [andb]. apply IH. lia.
Qed.

End Check.

(* whole 8-byte words only *)
Lemma le_words_length : forall k vb f, length vb = (8 * k)%nat -> (length vb < f)%nat ->
  length (le_words f vb) = k.
Proof.
  induction k as [|k IH]; intros vb f Hl Hf.
  - destruct vb; [|discriminate]. destruct f; reflexivity.
  - destruct f as [|f]; [lia|].
    do 8 (destruct vb as [|? vb]; [cbn [length] in Hl; lia|]).
    rewrite le_words_S. cbn [length] in *. f_equal. apply IH; lia.
Qed.

(* ------------------------------------------------------------------ *)
(* the theorems                                                         *)

(* (b) Serialize does not panic on a well-formed tape, whatever the hash *)
Theorem ser_core_total : forall (hash : bytes -> N) nops pj,
  wf_check nops pj = true -> exists out, ser_core hash pj = Ok out.
Proof.
  intros hash nops pj Hwf. rewrite ser_core_ser3.
  apply (ser3_total hash pj _ _ _ (wf_check_flat nops pj Hwf)).
Qed.

(* (a) whatever the hash, the sections Serialize produces encode the tape:
   same tag stream, same values, and every string reference (offset, length)
   addresses the string's bytes in the final buffer *)
Theorem ser_core_enc : forall (hash : bytes -> N) pj tags vals strbuf,
  ser_core hash pj = Ok (tags, vals, strbuf) ->
  enc (pj_msg pj) (pj_strings pj) strbuf 0 (pj_tape pj) tags vals.
Proof. intros hash pj tags vals strbuf H. rewrite ser_core_ser3 in H. apply (ser3_enc _ _ _ _ _ _ _ _ _ H). Qed.

(* [ser_check] accepts exactly the encodings made of whole value words *)
Theorem ser_check_sound : forall pj tags vb strbuf,
  ser_check pj tags vb strbuf = true ->
  enc (pj_msg pj) (pj_strings pj) strbuf 0 (pj_tape pj) tags (le_words (S (length vb)) vb) /\
  N.of_nat (length vb) = 8 * N.of_nat (length (le_words (S (length vb)) vb)).
Proof.
  intros pj tags vb strbuf H. unfold ser_check in H.
  apply andb_true_iff in H. destruct H as [Hm Hc].
  split; [apply (check_enc _ _ _ _ _ _ _ Hc)|].
  apply Nat.eqb_eq in Hm. apply Nat.mod_divides in Hm; [|discriminate]. destruct Hm as [k Hk].
  rewrite (le_words_length k) by lia. lia.
Qed.

Theorem ser_check_complete : forall pj tags vals strbuf,
  enc (pj_msg pj) (pj_strings pj) strbuf 0 (pj_tape pj) tags vals ->
  Forall (fun v => v < two64) vals ->
  ser_check pj tags (bytes_of_words vals) strbuf = true.
Proof.
  intros pj tags vals strbuf He Hv. unfold ser_check.
  rewrite le_words_bytes_of_words' by exact Hv.
  rewrite bytes_of_words_length.
  replace ((8 * length vals) mod 8)%nat with O by (rewrite Nat.mul_comm, Nat.mod_mul; [reflexivity|discriminate]).
  cbn [Nat.eqb andb]. apply (enc_check _ _ _ _ _ _ He). lia.
Qed.

(* every output of the model's Serialize, for every hash, passes the check *)
Theorem ser_core_passes_check : forall (hash : bytes -> N) pj tags vals strbuf,
  Forall (fun w => w < two64) (pj_tape pj) ->
  ser_core hash pj = Ok (tags, vals, strbuf) ->
  N.of_nat (length strbuf) < STRINGBUFBIT ->
  ser_check pj tags (bytes_of_words vals) strbuf = true.
Proof.
  intros hash pj tags vals strbuf Hall Hser Hsb.
  apply ser_check_complete; [apply (ser_core_enc hash); exact Hser|].
  rewrite ser_core_ser3 in Hser. apply (ser3_vals_bound hash pj _ _ _ _ _ _ _ Hall Hsb Hser).
Qed.

(* the tape rebuilt by Deserialize is related to the original by [R]:
   same words, except that strings are re-addressed into the new buffer and
   every block of NOP runs becomes a single run *)
Theorem ser_deser_related_init : forall (hash : bytes -> N) nops pj tags vals strbuf init,
  wf_check nops pj = true ->
  N.of_nat (length (pj_tape pj)) < two56 ->
  Forall (fun w => w < two64) (pj_tape pj) ->
  ser_core hash pj = Ok (tags, vals, strbuf) ->
  N.of_nat (length strbuf) < STRINGBUFBIT ->
  length init = length (pj_tape pj) ->
  exists t', deser_core init tags (bytes_of_words vals) = Ok t' /\
             R (pj_msg pj) (pj_strings pj) strbuf (pj_tape pj) t'.
Proof.
  intros hash nops pj tags vals strbuf init Hwf Hlen Hall Hser Hsb Hinit.
  apply (deser_core_enc _ _ _ Hsb); try assumption.
  - apply (wf_check_flat nops pj Hwf).
  - apply (ser_core_enc hash). exact Hser.
  - rewrite ser_core_ser3 in Hser. apply (ser3_vals_bound hash pj _ _ _ _ _ _ _ Hall Hsb Hser).
Qed.

Theorem ser_deser_related : forall (hash : bytes -> N) nops pj tags vals strbuf,
  wf_check nops pj = true ->
  N.of_nat (length (pj_tape pj)) < two56 ->
  Forall (fun w => w < two64) (pj_tape pj) ->
  ser_core hash pj = Ok (tags, vals, strbuf) ->
  N.of_nat (length strbuf) < STRINGBUFBIT ->
  exists t', deser_core (repeat 0 (length (pj_tape pj))) tags (bytes_of_words vals) = Ok t' /\
             R (pj_msg pj) (pj_strings pj) strbuf (pj_tape pj) t'.
Proof.
  intros hash nops pj tags vals strbuf Hwf Hlen Hall Hser Hsb.
  apply (ser_deser_related_init hash nops); try assumption. apply repeat_length.
Qed.

(* C11 on the model: for EVERY hash function, the rebuilt tape denotes the
   same documents *)
Theorem ser_deser_roundtrip : forall (hash : bytes -> N) nops pj tags vals strbuf,
  wf_check nops pj = true ->
  N.of_nat (length (pj_tape pj)) < two56 ->
  Forall (fun w => w < two64) (pj_tape pj) ->
  ser_core hash pj = Ok (tags, vals, strbuf) ->
  N.of_nat (length strbuf) < STRINGBUFBIT ->
  exists t', deser_core (repeat 0 (length (pj_tape pj))) tags (bytes_of_words vals) = Ok t' /\
             length t' = length (pj_tape pj) /\
             forall d, denote (pj_msg pj) (pj_strings pj) (pj_tape pj) = Some d ->
                       denote strbuf [] t' = Some d.
Proof.
  intros hash nops pj tags vals strbuf Hwf Hlen Hall Hser Hsb.
  destruct (ser_deser_related hash nops pj tags vals strbuf Hwf Hlen Hall Hser Hsb) as (t' & Hd & HR).
  exists t'. split; [exact Hd|]. split; [symmetry; apply (R_length _ _ _ _ _ HR)|].
  intros d Hden. apply (denote_sim _ _ _ _ _ _ HR Hden).
Qed.

(* with the fuel lemma of SerDenTotal: equality of the denotations for every
   well-formed tape that is not made of NOPs only *)
Theorem ser_deser_roundtrip_eq : forall (hash : bytes -> N) nops pj tags vals strbuf,
  wf_check nops pj = true ->
  N.of_nat (length (pj_tape pj)) < two56 ->
  Forall (fun w => w < two64) (pj_tape pj) ->
  Exists (fun w => (word_tag w =? TagNop) = false) (pj_tape pj) ->
  ser_core hash pj = Ok (tags, vals, strbuf) ->
  N.of_nat (length strbuf) < STRINGBUFBIT ->
  exists t', deser_core (repeat 0 (length (pj_tape pj))) tags (bytes_of_words vals) = Ok t' /\
             denote strbuf [] t' = denote (pj_msg pj) (pj_strings pj) (pj_tape pj).
Proof.
  intros hash nops pj tags vals strbuf Hwf Hlen Hall Hex Hser Hsb.
  destruct (ser_deser_roundtrip hash nops pj tags vals strbuf Hwf Hlen Hall Hser Hsb) as (t' & Hd & _ & Hden).
  destruct (wf_denote_some nops pj Hwf Hex) as [d Hdd].
  exists t'. split; [exact Hd|]. rewrite Hdd. apply Hden. exact Hdd.
Qed.

(* the same for ANY sections accepted by the hash-independent check — in
   particular for the sections an actual Serialize call produced with its
   per-process hash *)
Theorem check_deser_roundtrip : forall nops pj tags vb strbuf,
  wf_check nops pj = true ->
  N.of_nat (length (pj_tape pj)) < two56 ->
  N.of_nat (length strbuf) < STRINGBUFBIT ->
  ser_check pj tags vb strbuf = true ->
  exists t', deser_core (repeat 0 (length (pj_tape pj))) tags vb = Ok t' /\
             R (pj_msg pj) (pj_strings pj) strbuf (pj_tape pj) t' /\
             forall d, denote (pj_msg pj) (pj_strings pj) (pj_tape pj) = Some d ->
                       denote strbuf [] t' = Some d.
Proof.
  intros nops pj tags vb strbuf Hwf Hlen Hsb Hc.
  destruct (ser_check_sound _ _ _ _ Hc) as [He Hvb].
  destruct (deser_core_enc_bytes _ _ _ Hsb (pj_tape pj) (repeat 0 (length (pj_tape pj))) tags vb
              (wf_check_flat nops pj Hwf) He Hvb Hlen (repeat_length _ _)) as (t' & Hd & HR).
  exists t'. split; [exact Hd|]. split; [exact HR|].
  intros d Hden. apply (denote_sim _ _ _ _ _ _ HR Hden).
Qed.

Theorem check_deser_roundtrip_eq : forall nops pj tags vb strbuf,
  wf_check nops pj = true ->
  N.of_nat (length (pj_tape pj)) < two56 ->
  N.of_nat (length strbuf) < STRINGBUFBIT ->
  Exists (fun w => (word_tag w =? TagNop) = false) (pj_tape pj) ->
  ser_check pj tags vb strbuf = true ->
  exists t', deser_core (repeat 0 (length (pj_tape pj))) tags vb = Ok t' /\
             denote strbuf [] t' = denote (pj_msg pj) (pj_strings pj) (pj_tape pj).
Proof.
  intros nops pj tags vb strbuf Hwf Hlen Hsb Hex Hc.
  destruct (check_deser_roundtrip nops pj tags vb strbuf Hwf Hlen Hsb Hc) as (t' & Hd & _ & Hden).
  destruct (wf_denote_some nops pj Hwf Hex) as [d Hdd].
  exists t'. split; [exact Hd|]. rewrite Hdd. apply Hden. exact Hdd.
Qed.

(* the rebuilt ParsedJson (tape, no string buffer, message = de-duplicated
   strings) is again a well-formed tape *)
Theorem ser_deser_wf : forall (hash : bytes -> N) nops pj tags vals strbuf,
  wf_check nops pj = true ->
  N.of_nat (length (pj_tape pj)) < two56 ->
  Forall (fun w => w < two64) (pj_tape pj) ->
  ser_core hash pj = Ok (tags, vals, strbuf) ->
  N.of_nat (length strbuf) < STRINGBUFBIT ->
  exists t', deser_core (repeat 0 (length (pj_tape pj))) tags (bytes_of_words vals) = Ok t' /\
             wf_check true {| pj_tape := t'; pj_strings := []; pj_msg := strbuf |} = true.
Proof.
  intros hash nops pj tags vals strbuf Hwf Hlen Hall Hser Hsb.
  destruct (ser_deser_related hash nops pj tags vals strbuf Hwf Hlen Hall Hser Hsb) as (t' & Hd & HR).
  exists t'. split; [exact Hd|]. apply (wf_check_related nops pj strbuf t' Hwf HR).
Qed.

Theorem check_deser_wf : forall nops pj tags vb strbuf,
  wf_check nops pj = true ->
  N.of_nat (length (pj_tape pj)) < two56 ->
  N.of_nat (length strbuf) < STRINGBUFBIT ->
  ser_check pj tags vb strbuf = true ->
  exists t', deser_core (repeat 0 (length (pj_tape pj))) tags vb = Ok t' /\
             wf_check true {| pj_tape := t'; pj_strings := []; pj_msg := strbuf |} = true.
Proof.
  intros nops pj tags vb strbuf Hwf Hlen Hsb Hc.
  destruct (check_deser_roundtrip nops pj tags vb strbuf Hwf Hlen Hsb Hc) as (t' & Hd & HR & _).
  exists t'. split; [exact Hd|]. apply (wf_check_related nops pj strbuf t' Hwf HR).
Qed.

(* the size of the string buffer follows from the sizes of the input:
   at most one string per two tape words, each no longer than the buffer it
   came from *)
Theorem ser_core_strbuf_len : forall (hash : bytes -> N) pj tags vals strbuf,
  ser_core hash pj = Ok (tags, vals, strbuf) ->
  N.of_nat (length strbuf) <=
    N.of_nat (length (pj_tape pj)) * N.max (N.of_nat (length (pj_msg pj))) (N.of_nat (length (pj_strings pj))).
Proof.
  intros hash pj tags vals strbuf H. rewrite ser_core_ser3 in H.
  apply ser3_strbuf_len in H. cbn [length] in H. lia.
Qed.

(* ------------------------------------------------------------------ *)
(* special case: no strings and no NOPs -- the tape itself comes back    *)

Lemma enc_R_eq msg strs SB : forall off T tg vl, enc msg strs SB off T tg vl ->
  ~ In (n2b TagNop) tg -> ~ In (n2b TagString) tg ->
  forall T', R msg strs SB T T' -> T' = T.
Proof.
  induction 1 as [off|off w r tg vl Ht H IH|off w len r o s tg vl Ht Hsa Hsl H IH|off w v r tg vl Ht H IH
                 |off w v r tg vl Ht Hv H IH|off w v r tg vl Ht Hv H IH|off w r tg vl Ht H IH
                 |off w r tg vl Ht H IH|off w r tg vl Ht H IH];
    intros Hn1 Hn2 T' HR.
  - apply (R_nil_inv _ _ _ _ HR).
  - exfalso. apply Hn1. left. reflexivity.
  - exfalso. apply Hn2. left. reflexivity.
  - assert (Htt : two_tag (word_tag w)) by (unfold two_tag; tauto).
    destruct (R_inv_two _ _ _ _ _ _ Htt HR) as (v0 & r0 & r' & E & -> & HR'). injection E as <- <-.
    f_equal. f_equal. apply IH; [| |exact HR']; intros Hin; [apply Hn1|apply Hn2]; right; exact Hin.
  - assert (Htt : two_tag (word_tag w)) by (unfold two_tag; tauto).
    destruct (R_inv_two _ _ _ _ _ _ Htt HR) as (v0 & r0 & r' & E & -> & HR'). injection E as <- <-.
    f_equal. f_equal. apply IH; [| |exact HR']; intros Hin; [apply Hn1|apply Hn2]; right; exact Hin.
  - assert (Htt : two_tag (word_tag w)) by (unfold two_tag; tauto).
    destruct (R_inv_two _ _ _ _ _ _ Htt HR) as (v0 & r0 & r' & E & -> & HR'). injection E as <- <-.
    f_equal. f_equal. apply IH; [| |exact HR']; intros Hin; [apply Hn1|apply Hn2]; right; exact Hin.
  - assert (Hot : one_tag (word_tag w)) by (destruct Ht as [E|[E|E]]; rewrite E; repeat split).
    destruct (R_inv_one _ _ _ _ _ _ Hot HR) as (r' & -> & HR').
    f_equal. apply IH; [| |exact HR']; intros Hin; [apply Hn1|apply Hn2]; right; exact Hin.
  - destruct (R_inv_one _ _ _ _ _ _ (one_tag_open _ Ht) HR) as (r' & -> & HR').
    f_equal. apply IH; [| |exact HR']; intros Hin; [apply Hn1|apply Hn2]; right; exact Hin.
  - assert (Hot : one_tag (word_tag w)) by (destruct Ht as [E|[E|E]]; rewrite E; repeat split).
    destruct (R_inv_one _ _ _ _ _ _ Hot HR) as (r' & -> & HR').
    f_equal. apply IH; [| |exact HR']; intros Hin; [apply Hn1|apply Hn2]; right; exact Hin.
Qed.

Theorem roundtrip_no_strings_no_nops : forall (hash : bytes -> N) nops pj tags vals strbuf,
  wf_check nops pj = true ->
  N.of_nat (length (pj_tape pj)) < two56 ->
  Forall (fun w => w < two64) (pj_tape pj) ->
  ser_core hash pj = Ok (tags, vals, strbuf) ->
  N.of_nat (length strbuf) < STRINGBUFBIT ->
  ~ In (n2b TagNop) tags -> ~ In (n2b TagString) tags ->
  deser_core (repeat 0 (length (pj_tape pj))) tags (bytes_of_words vals) = Ok (pj_tape pj).
Proof.
  intros hash nops pj tags vals strbuf Hwf Hlen Hall Hser Hsb Hn1 Hn2.
  destruct (ser_deser_related hash nops pj tags vals strbuf Hwf Hlen Hall Hser Hsb) as (t' & Hd & HR).
  rewrite (enc_R_eq _ _ _ _ _ _ _ (ser_core_enc hash _ _ _ _ Hser) Hn1 Hn2 _ HR) in Hd. exact Hd.
Qed.

(* ------------------------------------------------------------------ *)
(* end to end through the framing of an uncompressed blob               *)

Theorem serialize_blob_roundtrip : forall (hash : bytes -> N) nops pj tags vals strbuf,
  wf_check nops pj = true ->
  Forall (fun w => w < two64) (pj_tape pj) ->
  ser_core hash pj = Ok (tags, vals, strbuf) ->
  N.of_nat (length (pj_tape pj)) <= limit -> N.of_nat (length strbuf) <= limit ->
  N.of_nat (length tags) <= limit -> N.of_nat (length (bytes_of_words vals)) <= limit ->
  exists t', deser_blob (raw_blob (N.of_nat (length (pj_tape pj))) [] strbuf tags (bytes_of_words vals)) = DOk t' [] strbuf /\
    forall d, denote (pj_msg pj) (pj_strings pj) (pj_tape pj) = Some d -> denote strbuf [] t' = Some d.
Proof.
  intros hash nops pj tags vals strbuf Hwf Hall Hser Hl1 Hl2 Hl3 Hl4.
  destruct (ser_deser_roundtrip hash nops pj tags vals strbuf Hwf) as (t' & Hd & _ & Hden); try assumption.
  { unfold limit, two56 in *. lia. }
  { unfold limit, STRINGBUFBIT in *. lia. }
  exists t'. split; [|exact Hden].
  rewrite deser_blob_raw; try assumption; [|cbn [length]; unfold limit; lia].
  rewrite Nat2N.id. rewrite Hd. reflexivity.
Qed.

Print Assumptions ser_core_total.
Print Assumptions ser_core_passes_check.
Print Assumptions ser_deser_roundtrip.
Print Assumptions ser_deser_roundtrip_eq.
Print Assumptions check_deser_roundtrip.
Print Assumptions check_deser_roundtrip_eq.
Print Assumptions ser_deser_wf.
Print Assumptions roundtrip_no_strings_no_nops.
Print Assumptions serialize_blob_roundtrip.
