(* LookupBulk.v — the bulk accessors of Array: AsFloat / AsInteger / AsUint64
   and AsString return what mapping the typed accessor over the elements of
   plain traversal returns (property C12, part 4). *)
From SJ Require Import Model.Base Model.RefTables Spec.Json Spec.EditSpec Model.Tape
     Model.Iter Model.Walk Model.Edit Model.WF.
From SJ Require Import Proofs.TapeBase Proofs.TapeSeg Proofs.TapeDen Proofs.TapePath
     Proofs.TapeEdit Proofs.TapeIter Proofs.TapeDelete Proofs.TapeWF Proofs.TapeWalk
     Proofs.LookupBase Proofs.LookupFind Proofs.LookupEach Proofs.LookupNum.
From Coq Require Import Lia ZifyBool ZifyN ZifyNat.
Open Scope N_scope.

(* map with failure: the result of the first failing element wins *)
Fixpoint omap {A B} (f : A -> outcome B) (l : list A) : outcome (list B) :=
  match l with
  | [] => Ok []
  | x :: r => do y <- f x; do ys <- omap f r; Ok (y :: ys)
  end.

Lemma omap_Forall2 {A A' B} (g : A -> outcome B) (h : A' -> outcome B) its l :
  Forall2 (fun it d => g it = h d) its l -> omap g its = omap h l.
Proof. induction 1 as [|it d its l E _ IH]; [reflexivity|]. cbn [omap]. now rewrite E, IH. Qed.

Lemma Forall2_weaken {A B} (P Q : A -> B -> Prop) l l' :
  (forall a b, P a b -> Q a b) -> Forall2 P l l' -> Forall2 Q l l'.
Proof. intros H. induction 1; constructor; auto. Qed.

Lemma omap_ok_length {A B} (f : A -> outcome B) l ys : omap f l = Ok ys -> length ys = length l.
Proof.
  revert ys. induction l as [|x r IH]; intros ys H; cbn [omap] in H.
  - injection H as <-. reflexivity.
  - destruct (f x) as [y| | |]; try discriminate H. cbn [obind] in H.
    destruct (omap f r) as [ys'| | |]; try discriminate H. cbn [obind] in H.
    injection H as <-. cbn [length]. f_equal. apply IH. reflexivity.
Qed.

(* the element of a numeric bulk accessor *)
Definition elem_num (k : numkind) (d : doc) : outcome Z :=
  match k with
  | KFloat => do b <- doc_float d; Ok (Z.of_N b)
  | KInt => doc_int d
  | KUint => do u <- doc_uint d; Ok (Z.of_N u)
  end.

Lemma elem_num_ok_err k d : (exists y, elem_num k d = Ok y) \/ elem_num k d = Err.
Proof.
  destruct k, d as [| |[z|u|b fl]| | |]; cbn [elem_num doc_float doc_int doc_uint conv_float conv_int conv_uint obind];
    try (right; reflexivity); try (left; eexists; reflexivity).
  - destruct (two63 <=? u); [right|left; eexists]; reflexivity.
  - unfold float_to_int. cbv zeta.
    destruct (sf_ge_pow2 (sf_of_bits b) 63); [right; reflexivity|].
    destruct (sf_lt_negpow2 (sf_of_bits b) 63); [right; reflexivity|].
    destruct (sf_trunc (sf_of_bits b)); left; eexists; reflexivity.
  - destruct (z <? 0)%Z; [right|left; eexists]; reflexivity.
  - unfold float_to_uint. cbv zeta.
    destruct (sf_ge_pow2 (sf_of_bits b) 64); [right; reflexivity|].
    destruct (sf_neg (sf_of_bits b)); [right; reflexivity|].
    destruct (sf_trunc (sf_of_bits b)); left; eexists; reflexivity.
Qed.

(* the typed accessor the bulk accessor stands for *)
Definition iter_num (k : numkind) (pj : pjson) (it : iter) : outcome Z :=
  match k with
  | KFloat => do b <- iter_float pj it; Ok (Z.of_N b)
  | KInt => iter_int pj it
  | KUint => do u <- iter_uint pj it; Ok (Z.of_N u)
  end.

Lemma iter_num_denotes strict adj k pj it d :
  words64 pj -> denotes strict adj pj it d -> iter_num k pj it = elem_num k d.
Proof.
  intros H64 Hd. destruct k; cbn [iter_num elem_num].
  - now rewrite (iter_float_denotes strict adj pj it d Hd).
  - now rewrite (iter_int_denotes strict adj pj it d Hd).
  - now rewrite (iter_uint_denotes strict adj pj it d H64 Hd).
Qed.

Definition is_num_doc (d : doc) : bool := match d with DNum _ => true | _ => false end.

(* ------------------------------------------------------------------ *)
(* AsFloat / AsInteger / AsUint64                                       *)

Section AsNum.
Variables (strict adj : bool).
Notation vseg pj := (val_seg (pj_msg pj) (pj_strings pj) strict adj).
Notation iseg pj := (items (pj_msg pj) (pj_strings pj) strict adj).

Lemma as_num_loop_S f k pj a acc :
  as_num_loop (S f) k pj a acc =
    if (c_len a <=? c_off a)%Z then Err else
    do w <- rd pj (c_len a) (c_off a);
    let tag := word_tag w in
    let off := (c_off a + 1)%Z in
    if t_is tag TagArrayEnd then Ok (rev acc)
    else if t_is tag TagFloat || t_is tag TagInteger || t_is tag TagUint then
      if (c_len a <=? off)%Z then Err
      else
        do v <- rd pj (c_len a) off;
        let i := {| i_len := c_len a; i_off := off; i_add := 1; i_cur := 0%N; i_t := tag |} in
        let res : outcome Z :=
          match k with
          | KFloat => do b <- iter_float pj i; Ok (Z.of_N b)
          | KInt => iter_int pj i
          | KUint => do u <- iter_uint pj i; Ok (Z.of_N u)
          end in
        do x <- res;
        as_num_loop f k pj {| c_len := c_len a; c_off := off + 1 |} (x :: acc)
    else if t_is tag TagNop then
      let skip := Z.of_N (word_val w) in
      if (skip <=? 0)%Z then Err
      else as_num_loop f k pj {| c_len := c_len a; c_off := off + (skip - 1) |} acc
    else Err.
Proof. reflexivity. Qed.

(* one element: the conversion made by the loop is the typed accessor's *)
Lemma as_num_elem k pj pre w x X d clen :
  pj_tape pj = pre ++ [w; x] ++ X -> x < two64 ->
  vseg pj (nlen pre) [w; x] d -> (Z.of_nat (length pre) + 2 < clen)%Z ->
  let i := {| i_len := clen; i_off := Z.of_nat (length pre) + 1; i_add := 1; i_cur := 0%N; i_t := word_tag w |} in
  (t_is (word_tag w) TagFloat || t_is (word_tag w) TagInteger || t_is (word_tag w) TagUint) = is_num_doc d /\
  t_is (word_tag w) TagArrayEnd = false /\
  (is_num_doc d = true ->
   match k with
   | KFloat => do b <- iter_float pj i; Ok (Z.of_N b)
   | KInt => iter_int pj i
   | KUint => do u <- iter_uint pj i; Ok (Z.of_N u)
   end = elem_num k d).
Proof.
  intros Ht Hx Hv Hl i. subst i.
  assert (Hpay : forall t, payload pj {| i_len := clen; i_off := Z.of_nat (length pre) + 1;
                                         i_add := 1; i_cur := 0%N; i_t := t |} = Ok x).
  { intros t. unfold payload. cbn [i_len i_off].
    replace (clen <=? Z.of_nat (length pre) + 1)%Z with false by lia.
    apply (rd_app pj clen _ (pre ++ [w]) x X); [rewrite Ht; leq|lens|lia]. }
  inversion Hv; subst;
    match goal with Htag : word_tag w = _ |- _ => rewrite Htag in * end;
    (split; [reflexivity|]); (split; [reflexivity|]); intros Hn; try discriminate Hn;
    destruct k; cbn [elem_num doc_float doc_int doc_uint conv_float conv_int conv_uint];
    unfold iter_float, iter_int, iter_uint; cbn [i_t]; tsimp; rewrite Hpay; cbn [obind];
    try reflexivity.
  (* int -> uint *)
  rewrite (s64_neg_iff x Hx).
  destruct (two63 <=? x) eqn:E; [reflexivity|]. cbn [obind]. rewrite s64_to_N by lia. reflexivity.
Qed.

(* the loop over an item sequence: NOP runs (deleted elements) are skipped *)
Lemma as_num_loop_items k pj :
  words64 pj ->
  forall i body l, iseg pj i body l ->
  forall pre a e post f acc, i = nlen pre ->
  pj_tape pj = pre ++ body ++ e :: post -> word_tag e = TagArrayEnd ->
  c_off a = Z.of_nat (length pre) ->
  c_len a = Z.of_nat (length pre + length body + 1) ->
  (length body < f)%nat ->
  as_num_loop f k pj a acc = do ys <- omap (elem_num k) l; Ok (rev acc ++ ys).
Proof.
  intros H64.
  induction 1 as [i|i w junk rest l Hw Hwv Hrun Hr IH|i v d rest l Hv Hr IH];
    intros pre a e post f acc Ei Ht He Hoff Hlen Hf; subst i;
    (destruct f as [|f]; [lia|]); rewrite as_num_loop_S.
  - cbn [app length] in *.
    replace (c_len a <=? c_off a)%Z with false by lia.
    rewrite (rd_app pj (c_len a) (c_off a) pre e post Ht Hoff) by lia.
    cbn [obind omap]. cbv zeta. rewrite He. change (t_is TagArrayEnd TagArrayEnd) with true. cbv iota.
    rewrite app_nil_r. reflexivity.
  - (* a NOP run: jump over it *)
    replace (c_len a <=? c_off a)%Z with false by (rewrite Hlen, Hoff; lens).
    cbn [app] in Ht. rewrite <- app_assoc in Ht.
    rewrite (rd_app pj (c_len a) (c_off a) pre w _ Ht Hoff) by (rewrite Hlen, Hoff; lens).
    cbn [obind]. cbv zeta. rewrite Hw.
    change (t_is TagNop TagArrayEnd) with false.
    change (t_is TagNop TagFloat || t_is TagNop TagInteger || t_is TagNop TagUint) with false.
    change (t_is TagNop TagNop) with true. cbv iota.
    replace (Z.of_N (word_val w) <=? 0)%Z with false by (rewrite Hwv; lia).
    apply (IH (pre ++ w :: junk)) with (e := e) (post := post).
    + lens.
    + rewrite Ht. leq.
    + exact He.
    + cbn [c_off]. rewrite Hoff, Hwv. lens.
    + cbn [c_len]. rewrite Hlen. lens.
    + revert Hf. lens.
  - destruct (val_seg_head _ _ _ _ _ _ _ Hv) as (w & r & -> & Htag).
    replace (c_len a <=? c_off a)%Z with false by (rewrite Hlen, Hoff; lens).
    rewrite <- app_assoc in Ht. cbn [app] in Ht.
    rewrite (rd_app pj (c_len a) (c_off a) pre w _ Ht Hoff) by (rewrite Hlen, Hoff; lens).
    cbn [obind omap]. cbv zeta.
    destruct (is_num_doc d) eqn:En.
    + destruct d as [| |nv| | |]; try discriminate En.
      assert (Er : exists x, r = [x]).
      { inversion Hv; subst; eexists; reflexivity. }
      destruct Er as (x & ->).
      assert (Hx : x < two64).
      { unfold words64 in H64. rewrite Ht in H64. rewrite Forall_forall in H64. apply H64.
        apply in_or_app. right. right. now left. }
      destruct (as_num_elem k pj pre w x ((rest ++ e :: post)) (DNum nv) (c_len a))
        as (Etag & Eend & Eres); auto.
      { rewrite Hlen. lens. }
      rewrite Eend, Etag. cbn [is_num_doc]. cbv iota.
      replace (c_len a <=? c_off a + 1)%Z with false by (rewrite Hlen, Hoff; lens).
      rewrite (rd_app pj (c_len a) (c_off a + 1) (pre ++ [w]) x (rest ++ e :: post))
        by (try (rewrite Ht; leq); rewrite ?Hlen, ?Hoff; lens).
      cbn [obind]. rewrite Hoff. rewrite (Eres eq_refl).
      destruct (elem_num k (DNum nv)) as [y| | |]; cbn [obind]; try reflexivity.
      rewrite (IH (pre ++ [w; x])) with (e := e) (post := post).
      * destruct (omap (elem_num k) l); cbn [obind]; try reflexivity.
        cbn [rev]. rewrite <- app_assoc. reflexivity.
      * lens.
      * rewrite Ht. leq.
      * exact He.
      * cbn [c_off]. lens.
      * cbn [c_len]. rewrite Hlen. lens.
      * revert Hf. lens.
    + (* not a number: refused (a value never carries the NOP tag) *)
      assert (Hnn : (t_is (word_tag w) TagFloat || t_is (word_tag w) TagInteger || t_is (word_tag w) TagUint) = false
                    /\ t_is (word_tag w) TagArrayEnd = false /\ t_is (word_tag w) TagNop = false).
      { inversion Hv; subst; try discriminate En;
          match goal with Ht' : word_tag w = _ |- _ => rewrite Ht' end; repeat split; reflexivity. }
      destruct Hnn as (-> & -> & ->). cbv iota.
      destruct d as [| |nv| | |]; try discriminate En; destruct k; reflexivity.
Qed.

(* AsFloat / AsInteger / AsUint64 on the array at [pre] (NOP runs allowed): the
   conversions of the elements, in order, or an error when an element is not
   a number or does not fit *)
Theorem as_num_refines k pj a pre sub post l :
  words64 pj ->
  pj_tape pj = pre ++ sub ++ post -> vseg pj (nlen pre) sub (DArr l) -> cont_at a pre sub ->
  as_num k pj a = omap (elem_num k) l.
Proof.
  intros H64 Ht Hv (Hoff & Hlen).
  inversion Hv; subst.
  match goal with H : items _ _ _ _ _ body l |- _ => rename H into Hit end.
  unfold as_num.
  rewrite (as_num_loop_items k pj H64 _ body l Hit (pre ++ [w])) with (e := e) (post := post).
  - destruct (omap (elem_num k) l); reflexivity.
  - lens.
  - rewrite Ht. leq.
  - assumption.
  - rewrite Hoff. lens.
  - rewrite Hlen. lens.
  - unfold cont_fuel. rewrite Hlen. lens.
Qed.

End AsNum.

(* ------------------------------------------------------------------ *)
(* AsString                                                             *)

Lemma doc_type_string d : doc_type d = TypeString <-> exists s, d = DStr s.
Proof.
  split.
  - destruct d as [| | [ | | ] |s| |]; intros H; try discriminate H. exists s. reflexivity.
  - intros (s & ->). reflexivity.
Qed.

Section AsString.
Variables (strict adj : bool).
Notation vseg pj := (val_seg (pj_msg pj) (pj_strings pj) strict adj).
Notation iseg pj := (items (pj_msg pj) (pj_strings pj) strict adj).

Lemma as_string_loop_S f pj it acc :
  as_string_loop (S f) pj it acc =
    do r <- advance_iter pj it;
    match r with
    | (it', None, _) => Ok (rev acc)
    | (it', Some el, ty) =>
      if t_is ty TypeNone then Ok (rev acc)
      else if t_is ty TypeString then do s <- string_bytes pj el; as_string_loop f pj it' (s :: acc)
      else Err
    end.
Proof. reflexivity. Qed.

Lemma as_string_loop_spec pj :
  N.of_nat (length (pj_msg pj)) < two64 -> N.of_nat (length (pj_strings pj)) < two64 ->
  forall l body pre, iseg pj (nlen pre) body l ->
  forall it e post f acc,
  pj_tape pj = pre ++ body ++ e :: post -> word_tag e = TagArrayEnd ->
  (i_off it + i_add it)%Z = Z.of_nat (length pre) ->
  i_len it = Z.of_nat (length pre + length body + 1) ->
  (length l < f)%nat ->
  as_string_loop f pj it acc = do ys <- omap doc_string l; Ok (rev acc ++ ys).
Proof.
  intros Bm Bs.
  induction l as [|d l IH]; intros body pre Hit it e post f acc Ht He Hoff Hlen Hf;
    apply items_front in Hit; (destruct f as [|f]; [lia|]); rewrite as_string_loop_S.
  - destruct (advance_iter_end strict pj it body e pre post Hit Ht (or_introl He) Hoff ltac:(lia))
      as (it' & el & ->).
    cbn [obind omap]. change (t_is TypeNone TypeNone) with true. cbv iota.
    rewrite app_nil_r. reflexivity.
  - destruct Hit as (n & v & rest & -> & Hn & Hv & Hrest).
    destruct (val_seg_head _ _ _ _ _ _ _ Hv) as (w & r & -> & Htag).
    rewrite <- !app_assoc in Ht.
    destruct (advance_iter_value _ _ strict adj pj it n w r d pre (rest ++ e :: post) Hn Ht Hv Hoff)
      as (Hadv & Hon & Hadd & Hl' & Hty & Wsub & _).
    { rewrite Hlen. lens. }
    rewrite Hadv. cbn [obind omap].
    remember (land it (Z.of_nat (length pre) + Z.of_nat (length n) + 1) w) as it' eqn:Eit'. clear Eit'.
    rewrite (val_seg_type _ _ _ _ _ _ _ _ Hv) in *.
    replace (t_is (doc_type d) TypeNone) with false by (symmetry; apply N.eqb_neq; exact Hty).
    assert (Hden : denotes strict adj pj (sub_iter it') d).
    { exists (pre ++ n), (w :: r), (rest ++ e :: post).
      split; [rewrite Ht; leq|]. split; [eapply val_seg_idx; [|exact Hv]; lens|].
      destruct Wsub as ((A & B & C) & D & E).
      split; [|split; assumption]. split; [rewrite A; lens|]. split; [revert B; lens|exact C]. }
    destruct (t_is (doc_type d) TypeString) eqn:Es.
    + rewrite (string_bytes_denotes strict adj pj _ d Bm Bs Hden).
      apply N.eqb_eq in Es. apply doc_type_string in Es. destruct Es as (s & ->).
      cbn [doc_string obind].
      pose proof Hon as (Hoff' & _ & _).
      rewrite (IH rest (pre ++ n ++ w :: r)) with (e := e) (post := post).
      * destruct (omap doc_string l); cbn [obind]; try reflexivity.
        cbn [rev]. rewrite <- app_assoc. reflexivity.
      * eapply items_idx; [|exact Hrest]. lens.
      * rewrite Ht. leq.
      * exact He.
      * rewrite Hoff', Hadd. lens.
      * rewrite Hl', Hlen. lens.
      * cbn [length] in Hf. lia.
    + destruct d as [| | [ | | ] |s| |]; try reflexivity. discriminate Es.
Qed.

(* AsString on the array at [pre] (NOP runs allowed): the strings, in order,
   or an error when an element is not a string *)
Theorem as_string_refines pj a pre sub post l :
  N.of_nat (length (pj_msg pj)) < two64 -> N.of_nat (length (pj_strings pj)) < two64 ->
  pj_tape pj = pre ++ sub ++ post -> vseg pj (nlen pre) sub (DArr l) -> cont_at a pre sub ->
  as_string pj a = omap doc_string l.
Proof.
  intros Bm Bs Ht Hv (Hoff & Hlen).
  inversion Hv; subst.
  match goal with H : items _ _ _ _ _ body l |- _ => rename H into Hit end.
  unfold as_string.
  rewrite (as_string_loop_spec pj Bm Bs l body (pre ++ [w])) with (e := e) (post := post).
  - destruct (omap doc_string l); reflexivity.
  - eapply items_idx; [|exact Hit]. nl.
  - rewrite Ht. leq.
  - assumption.
  - cbn [cont_iter i_off i_add]. rewrite Hoff. lens.
  - cbn [cont_iter i_len]. rewrite Hlen. lens.
  - pose proof (proj1 (proj2 (seg_lengths _ _ _ _)) _ _ _ Hit) as Hll.
    unfold cont_fuel. rewrite Hlen. lens.
Qed.

(* the same, literally as "the typed accessor mapped over what ForEach yields" *)
Theorem as_string_is_foreach pj a pre sub post l :
  N.of_nat (length (pj_msg pj)) < two64 -> N.of_nat (length (pj_strings pj)) < two64 ->
  pj_tape pj = pre ++ sub ++ post -> vseg pj (nlen pre) sub (DArr l) -> cont_at a pre sub ->
  as_string pj a = do its <- arr_foreach pj a; omap (string_bytes pj) its.
Proof.
  intros Bm Bs Ht Hv Hc.
  rewrite (as_string_refines pj a pre sub post l Bm Bs Ht Hv Hc).
  destruct (arr_foreach_refines strict adj pj a pre sub post l Ht Hv Hc) as (its & -> & HF).
  cbn [obind]. symmetry. apply omap_Forall2.
  eapply Forall2_weaken; [|exact HF]. intros it d Hd. apply (string_bytes_denotes strict adj); assumption.
Qed.

Theorem as_num_is_foreach k pj a pre sub post l :
  words64 pj ->
  pj_tape pj = pre ++ sub ++ post -> vseg pj (nlen pre) sub (DArr l) -> cont_at a pre sub ->
  as_num k pj a = do its <- arr_foreach pj a; omap (iter_num k pj) its.
Proof.
  intros H64 Ht Hv Hc.
  rewrite (as_num_refines strict adj k pj a pre sub post l H64 Ht Hv Hc).
  destruct (arr_foreach_refines strict adj pj a pre sub post l Ht Hv Hc) as (its & -> & HF).
  cbn [obind]. symmetry. apply omap_Forall2.
  eapply Forall2_weaken; [|exact HF]. intros it d Hd. eapply iter_num_denotes; eauto.
Qed.

End AsString.
