(* Proofs/ReuseProofs.v -- property C15: parsing with a reused ParsedJson
   gives the result a fresh one gives, because the only state that survives a
   call and is read by the next one -- the contents of the index channel -- is
   empty between calls.  Model: Model/Reuse.v; the channel results come from
   Proofs/RingProofs.v. *)
From Coq Require Import List Arith Lia PeanoNat Bool.
From SJ Require Import Model.Base Model.Driver Model.Ring Model.Reuse Proofs.RingProofs.
Import ListNotations.
Open Scope nat_scope.

(* ------------------------------------------------------------------ *)
(* 1. what reset leaves of the previous state                          *)
(* ------------------------------------------------------------------ *)

(* group (a): nothing of the old object *)
Theorem reset_fields_independent (s s' : istate) (c : call) :
  i_fields (reset s c) = i_fields (reset s' c).
Proof.
  unfold reset. destruct (i_caps s) as [[ct cs] cd], (i_caps s') as [[ct' cs'] cd'].
  reflexivity.
Qed.

(* group (b): the channel contents go through untouched *)
Lemma reset_chan (s : istate) (c : call) : chan_contents (reset s c) = chan_contents s.
Proof.
  unfold reset, chan_contents. destruct (i_caps s) as [[ct cs] cd]. cbn [i_chan].
  destruct (i_chan s); reflexivity.
Qed.

Lemma reuse_inv_iff (s : istate) : reuse_inv_b s = true <-> chan_contents s = [].
Proof.
  unfold reuse_inv_b. destruct (chan_contents s); split; congruence.
Qed.

Section Reuse.
  Variable result : Type.
  Variable core : fields -> list citem -> result * fields * list citem.

  Notation run := (Reuse.run result core).
  Notation parse := (parse result core).

  (* two objects with the same channel contents are indistinguishable *)
  Lemma parse_same_chan (s s' : istate) (c : call) :
    chan_contents s = chan_contents s' ->
    fst (parse s c) = fst (parse s' c) /\
    i_fields (snd (parse s c)) = i_fields (snd (parse s' c)) /\
    chan_contents (snd (parse s c)) = chan_contents (snd (parse s' c)).
  Proof.
    intros H. unfold Reuse.parse, Reuse.run.
    rewrite (reset_fields_independent s s' c), !reset_chan, H.
    destruct (core (i_fields (reset s' c)) (chan_contents s')) as [[r f] q].
    repeat split; reflexivity.
  Qed.

  (* ===== reuse_independent ===== *)
  Theorem reuse_independent (s : istate) (c : call) :
    reuse_inv_b s = true ->
    fst (parse s c) = fst (parse fresh c) /\
    i_fields (snd (parse s c)) = i_fields (snd (parse fresh c)).
  Proof.
    intros H. apply reuse_inv_iff in H.
    destruct (parse_same_chan s fresh c) as (H1 & H2 & _); [rewrite H; reflexivity|].
    split; assumption.
  Qed.

  (* The link to the Ring model: started on an empty channel, what [core]
     leaves in the channel is the channel of a completed Ring run (both stages
     have returned: the terminator was sent and received).  This is what the
     sequential and the concurrent path of parseMessage are, see section 2. *)
  Hypothesis core_is_ring :
    forall f, exists n evs st,
      Ring.run indexSlots chanCap (Ring.init n) evs = Some st /\
      final st = true /\
      snd (core f []) = queue st.

  (* ===== the invariant is re-established by every call ===== *)
  Theorem reuse_inv_preserved (s : istate) (c : call) :
    reuse_inv_b s = true -> reuse_inv_b (snd (parse s c)) = true.
  Proof.
    intros H. apply reuse_inv_iff in H. apply reuse_inv_iff.
    unfold Reuse.parse, Reuse.run. rewrite reset_chan, H.
    destruct (core_is_ring (i_fields (reset s c))) as (n & evs & st & Hrun & Hfin & Hq).
    destruct (core (i_fields (reset s c)) []) as [[r f] q]. cbn [snd] in *.
    unfold chan_contents. cbn [i_chan]. rewrite Hq.
    exact (proj1 (ring_final_empty _ _ _ _ _ Hrun Hfin)).
  Qed.

  (* any number of calls on the same object, starting from a new one *)
  Fixpoint parse_all (s : istate) (cs : list call) : list result * istate :=
    match cs with
    | [] => ([], s)
    | c :: r => let '(x, s1) := parse s c in
                let '(xs, s2) := parse_all s1 r in (x :: xs, s2)
    end.

  Theorem reuse_many (s : istate) (cs : list call) :
    reuse_inv_b s = true ->
    fst (parse_all s cs) = map (fun c => fst (parse fresh c)) cs /\
    reuse_inv_b (snd (parse_all s cs)) = true.
  Proof.
    revert s. induction cs as [|c cs IH]; intros s H; [split; [reflexivity|exact H]|].
    cbn [parse_all map].
    pose proof (reuse_independent s c H) as [H1 _].
    pose proof (reuse_inv_preserved s c H) as H2.
    destruct (parse s c) as [x s1]. cbn [fst snd] in *.
    destruct (IH s1 H2) as [I1 I2].
    destruct (parse_all s1 cs) as [xs s2]. cbn [fst snd] in *.
    split; [rewrite H1, I1; reflexivity|exact I2].
  Qed.

  Corollary reuse_from_fresh (cs : list call) :
    fst (parse_all fresh cs) = map (fun c => fst (parse fresh c)) cs.
  Proof. apply reuse_many. reflexivity. Qed.
End Reuse.

(* ------------------------------------------------------------------ *)
(* 2. the drain paths are completed Ring runs                          *)
(* ------------------------------------------------------------------ *)

(* concurrent path (len(Message) > 8 KiB): any interleaving of the two
   goroutines; parseMessage returns after wg.Wait() and after
   findStructuralIndices has returned, i.e. in a final state *)
Corollary concurrent_path_clean (n : nat) (evs : list ev) (s : st) :
  Ring.run indexSlots chanCap (Ring.init n) evs = Some s -> final s = true ->
  queue s = [].
Proof. intros Hrun Hfin. exact (proj1 (ring_final_empty _ _ _ _ _ Hrun Hfin)). Qed.

(* ... and such a state is always reached: no deadlock, bounded length
   (ring_no_deadlock_nonempty, ring_terminates in RingProofs) *)

(* sequential path: checked exhaustively for the real parameters (16 slots,
   capacity 14): for every n with n + 1 <= 14, success, late failure, stage-1
   failure, and stage-2 failure after j = 0 .. n buffers *)
Lemma seq_paths_clean_check : seq_paths_clean_b = true.
Proof. vm_compute. reflexivity. Qed.

Lemma clean_final_spec (n : nat) (evs : list ev) :
  clean_final n evs = true ->
  exists s, Ring.run indexSlots chanCap (Ring.init n) evs = Some s /\
            final s = true /\ queue s = [].
Proof.
  unfold clean_final. destruct (Ring.run indexSlots chanCap (Ring.init n) evs) as [s|];
    [|discriminate].
  intros H. apply andb_prop in H. destruct H as [H1 H2].
  exists s. split; [reflexivity|]. split; [exact H1|].
  destruct (queue s); [reflexivity|discriminate H2].
Qed.

Theorem seq_paths_clean (n j : nat) :
  n < chanCap -> j <= n ->
  (exists s, Ring.run indexSlots chanCap (Ring.init n) (seq_ok n) = Some s /\
             final s = true /\ queue s = []) /\
  (exists s, Ring.run indexSlots chanCap (Ring.init n) (seq_fail2 n j) = Some s /\
             final s = true /\ queue s = []) /\
  (exists s, Ring.run indexSlots chanCap (Ring.init n) (seq_fail2_late n) = Some s /\
             final s = true /\ queue s = []) /\
  (exists s, Ring.run indexSlots chanCap (Ring.init n) (seq_fail1 n) = Some s /\
             final s = true /\ queue s = []).
Proof.
  intros Hn Hj. pose proof seq_paths_clean_check as H.
  unfold seq_paths_clean_b in H. rewrite forallb_forall in H.
  specialize (H n). rewrite in_seq in H. specialize (H ltac:(lia)).
  apply andb_prop in H. destruct H as [H H4].
  apply andb_prop in H. destruct H as [H H3].
  apply andb_prop in H. destruct H as [H1 H2].
  rewrite forallb_forall in H4. specialize (H4 j). rewrite in_seq in H4.
  specialize (H4 ltac:(lia)).
  repeat split; apply clean_final_spec; assumption.
Qed.

(* The stage-1 failure path of Model/Reuse.v, [seq_fail1 n], is the one where
   findStructuralIndices has SENT every buffer it acquired and reports the
   error at its end (error_mask set by a kernel: e.g. a control character
   inside a string).  The other stage-1 failure path leaves the loop by
   "break" between the acquire and the send (no structural character in the
   buffer, unterminated string, last structural not a closing brace/bracket):
   n buffers sent, buffer n acquired and ABANDONED, then the terminator.  Its
   schedule, for a run of n + 1 acquires: *)
Definition seq_stage1_abandon (n : nat) : list ev :=
  rep_evs n [Acquire; Send] ++ [Acquire; SendTerm].

Definition seq_fail1_abandon (n : nat) : list ev :=
  seq_stage1_abandon n ++ [Fail2] ++ rep_evs (S n) recv1.

(* for every n with n + 1 <= 14 (n sent buffers and the terminator fit into
   the channel without a consumer) *)
Definition seq_abandon_clean_b : bool :=
  forallb (fun n => clean_final (S n) (seq_fail1_abandon n)) (seq 0 chanCap).

Lemma seq_abandon_clean_check : seq_abandon_clean_b = true.
Proof. vm_compute. reflexivity. Qed.

Theorem seq_fail1_abandon_clean (n : nat) :
  n < chanCap ->
  exists s, Ring.run indexSlots chanCap (Ring.init (S n)) (seq_fail1_abandon n) = Some s /\
            final s = true /\ queue s = [].
Proof.
  intros Hn. pose proof seq_abandon_clean_check as H.
  unfold seq_abandon_clean_b in H. rewrite forallb_forall in H.
  specialize (H n). rewrite in_seq in H. specialize (H ltac:(lia)).
  apply clean_final_spec. exact H.
Qed.

(* the sequential path needs no ring argument of its own: its schedules are
   Ring schedules, so every Ring theorem (safety, order) applies to them *)

(* ------------------------------------------------------------------ *)
(* 3. group (c): stale ring contents are never read                    *)
(* ------------------------------------------------------------------ *)

Lemma inv_ring_start (CAP n : nat) (r0 : nat -> nat) : Inv CAP n 0 (ring_start n [] r0).
Proof.
  constructor; unfold ring_start, live;
    cbn [produced filling term_sent queue held waiting finished failed consumed n_total
         opt_list qids app length map andb].
  - exists 0. cbn. repeat split; lia.
  - left. reflexivity.
  - lia.
  - lia.
  - reflexivity.
  - intros H; discriminate H.
  - intros H; discriminate H.
  - intros H; discriminate H.
  - reflexivity.
  - reflexivity.
Qed.

Lemma ringok_ring_start (S n : nat) (r0 : nat -> nat) : RingOk S (ring_start n [] r0).
Proof. intros i Hi _. unfold ring_start in Hi. cbn [produced] in Hi. lia. Qed.

(* whatever the ring slots contain at entry, every buffer the consumer holds,
   or that waits in the channel, contains what stage 1 wrote during this call *)
Theorem stale_ring_never_read (S CAP n : nat) (r0 : nat -> nat) (evs : list ev) (s : st) :
  CAP + 2 <= S ->
  Ring.run S CAP (ring_start n [] r0) evs = Some s -> Safe S s.
Proof.
  intros HC Hrun. assert (HS : 0 < S) by lia.
  apply (inv_safe S CAP n (n_sent evs + 0) s HC).
  - exact (proj1 (inv_run_gen S CAP n evs 0 _ s (inv_ring_start CAP n r0) Hrun)).
  - exact (run_invariant S CAP (RingOk S)
             (fun s0 e s1 H0 H1 => ringok_step S CAP s0 e s1 HS H0 H1)
             evs _ s (ringok_ring_start S n r0) Hrun).
Qed.

Lemma ring_start_init (n : nat) : ring_start n [] (fun _ => 0) = Ring.init n.
Proof. reflexivity. Qed.

(* ------------------------------------------------------------------ *)
(* 4. non-vacuity                                                      *)
(* ------------------------------------------------------------------ *)

(* the invariant matters: a stale terminator left in the channel makes stage 2
   of the next call stop before it has seen anything (Ring level) ... *)
Example stale_terminator_ring :
  option_map (fun s => (finished s, consumed s, produced s))
             (Ring.run indexSlots chanCap (ring_start 3 [None] (fun _ => 0)) [RecvWait; Recv])
  = Some (true, [], 0).
Proof. vm_compute. reflexivity. Qed.

(* ... and at the level of parse: with the toy core (the result is what stage 2
   received) an object whose channel holds a stale buffer gives another result
   than a new object, one whose channel is empty gives the same *)
Definition toy_call : call := {| c_msg := repeat_b x20 2 ++ repeat_b x61 9; c_nd := false; c_copy := true |}.

Definition dirty : istate :=
  {| i_fields := i_fields fresh; i_caps := (10, 10, 10); i_chan := Some [Some 7] |}.
Definition used : istate :=
  {| i_fields := {| f_message := [x31]; f_tape := [5%N]; f_strings := [x32]; f_scopes := [1%N];
                    f_indexesChan := 9%N; f_buffersOffset := 3%N;
                    f_ndjson := true; f_copyStrings := false |};
     i_caps := (100, 200, 128); i_chan := Some [] |}.

Example reuse_inv_matters :
  fst (parse _ toy_core fresh toy_call) = [0; 1] /\
  fst (parse _ toy_core used toy_call) = [0; 1] /\
  fst (parse _ toy_core dirty toy_call) = [7; 0; 1] /\
  reuse_inv_b used = true /\ reuse_inv_b dirty = false /\
  reuse_inv_b (snd (parse _ toy_core used toy_call)) = true.
Proof. vm_compute. repeat split. Qed.

(* the sequential path on 3 buffers with a stage-2 failure after the first *)
Example seq_fail2_example :
  option_map (fun s => (final s, queue s, consumed s, failed s))
             (Ring.run indexSlots chanCap (Ring.init 3) (seq_fail2 3 1))
  = Some (true, [], [0], true).
Proof. vm_compute. reflexivity. Qed.

(* the sequential path when stage 1 breaks out of its loop in the 4th buffer:
   3 buffers sent, one abandoned, nothing consumed, everything drained *)
Example seq_fail1_abandon_example :
  option_map (fun s => (final s, queue s, consumed s, produced s, filling s))
             (Ring.run indexSlots chanCap (Ring.init 4) (seq_fail1_abandon 3))
  = Some (true, [], [], 4, None) /\
  n_sent (seq_fail1_abandon 3) = 3 /\ producer_abandoned (seq_fail1_abandon 3) = true.
Proof. vm_compute. repeat split. Qed.

(* stage 1 alone cannot run to completion when it needs more than the
   channel's capacity: the sequential path is only sound for small inputs *)
Example seq_stage1_blocks :
  Ring.run indexSlots chanCap (Ring.init 14) (seq_stage1 14) = None /\
  clean_final 13 (seq_ok 13) = true.
Proof. vm_compute. split; reflexivity. Qed.

Print Assumptions reset_fields_independent.
Print Assumptions reuse_independent.
Print Assumptions reuse_inv_preserved.
Print Assumptions reuse_many.
Print Assumptions concurrent_path_clean.
Print Assumptions seq_paths_clean.
Print Assumptions seq_fail1_abandon_clean.
Print Assumptions stale_ring_never_read.
