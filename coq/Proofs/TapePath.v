(* TapePath.v — positions inside a tape: the relation between the tape index
   of a value and its abstract path (index_path), and the replacement
   theorem: substituting, for the segment of a value, a segment of the same
   length that reads as a new value (possibly followed by NOPs) changes the
   denotation exactly by replacing the value at that path. *)
From SJ Require Import Model.Base Model.RefTables Spec.Json Spec.EditSpec Model.Tape.
From SJ Require Import Proofs.TapeBase Proofs.TapeSeg Proofs.TapeDen.
From Coq Require Import ZifyBool ZifyN ZifyNat.
Open Scope N_scope.

Section Holes.
Variables (msg strings : bytes).
Variables (strict adj : bool).

Notation val_seg := (val_seg msg strings strict adj).
Notation items := (items msg strings strict adj).
Notation mitems := (mitems msg strings strict adj).
Notation nops_seg := (nops_seg strict).
Notation roots_seg := (roots_seg msg strings strict adj).

(* [vhole i a sub b p]: a ++ sub ++ b is the segment of a container value at
   index i, and sub (at index i + |a|) is the segment of the value at the
   non-empty relative path p inside it. *)
Inductive vhole : N -> list N -> list N -> list N -> path -> Prop :=
| vh_arr i w a sub b e n p :
    word_tag w = TagArrayStart -> word_tag e = TagArrayEnd ->
    word_val w = i + nlen (a ++ sub ++ b) + 2 -> (strict = true -> word_val e = i) ->
    ihole (i + 1) a sub b n p -> vhole i (w :: a) sub (b ++ [e]) (n :: p)
| vh_obj i w a sub b e n p :
    word_tag w = TagObjectStart -> word_tag e = TagObjectEnd ->
    word_val w = i + nlen (a ++ sub ++ b) + 2 -> (strict = true -> word_val e = i) ->
    mhole (i + 1) a sub b n p -> vhole i (w :: a) sub (b ++ [e]) (n :: p)
with ihole : N -> list N -> list N -> list N -> nat -> path -> Prop :=
| ih_nop i w junk a sub b n p :
    word_tag w = TagNop -> word_val w = nlen junk + 1 ->
    (strict = true -> is_run (w :: junk)) ->
    ihole (i + nlen junk + 1) a sub b n p -> ihole i (w :: junk ++ a) sub b n p
| ih_skip i v d a sub b n p :
    val_seg i v d -> ihole (i + nlen v) a sub b n p -> ihole i (v ++ a) sub b (S n) p
| ih_here i sub d rest l :
    val_seg i sub d -> items (i + nlen sub) rest l -> ihole i [] sub rest 0 []
| ih_in i a sub b p rest l :
    vhole i a sub b p -> items (i + nlen (a ++ sub ++ b)) rest l ->
    ihole i a sub (b ++ rest) 0 p
with mhole : N -> list N -> list N -> list N -> nat -> path -> Prop :=
| mh_nop i w junk a sub b n p :
    word_tag w = TagNop -> word_val w = nlen junk + 1 ->
    (strict = true -> is_run (w :: junk)) ->
    mhole (i + nlen junk + 1) a sub b n p -> mhole i (w :: junk ++ a) sub b n p
| mh_skip i w len k n2 v d a sub b n p :
    word_tag w = TagString -> string_at msg strings (word_val w) len = Some k ->
    nops_seg n2 -> (adj = true -> n2 = []) ->
    val_seg (i + 2 + nlen n2) v d ->
    mhole (i + 2 + nlen n2 + nlen v) a sub b n p ->
    mhole i (w :: len :: n2 ++ v ++ a) sub b (S n) p
| mh_here i w len k n2 sub d rest l :
    word_tag w = TagString -> string_at msg strings (word_val w) len = Some k ->
    nops_seg n2 -> (adj = true -> n2 = []) ->
    val_seg (i + 2 + nlen n2) sub d ->
    mitems (i + 2 + nlen n2 + nlen sub) rest l ->
    mhole i (w :: len :: n2) sub rest 0 []
| mh_in i w len k n2 a sub b p rest l :
    word_tag w = TagString -> string_at msg strings (word_val w) len = Some k ->
    nops_seg n2 -> (adj = true -> n2 = []) ->
    vhole (i + 2 + nlen n2) a sub b p ->
    mitems (i + 2 + nlen n2 + nlen (a ++ sub ++ b)) rest l ->
    mhole i (w :: len :: n2 ++ a) sub (b ++ rest) 0 p.

Scheme vh_mut := Minimality for vhole Sort Prop
  with ih_mut := Minimality for ihole Sort Prop
  with mh_mut := Minimality for mhole Sort Prop.
Combined Scheme hole_mutind from vh_mut, ih_mut, mh_mut.

Inductive rhole : N -> list N -> list N -> list N -> nat -> path -> Prop :=
| rh_nop i w junk a sub b n p :
    word_tag w = TagNop -> word_val w = nlen junk + 1 ->
    (strict = true -> is_run (w :: junk)) ->
    rhole (i + nlen junk + 1) a sub b n p -> rhole i (w :: junk ++ a) sub b n p
| rh_skip i w n1 v d n2 c a sub b n p :
    word_tag w = TagRoot -> nops_seg n1 -> val_seg (i + 1 + nlen n1) v d -> nops_seg n2 ->
    word_tag c = TagRoot -> word_val c = i ->
    word_val w = i + 1 + nlen n1 + nlen v + nlen n2 + 1 ->
    rhole (i + 1 + nlen n1 + nlen v + nlen n2 + 1) a sub b n p ->
    rhole i (w :: n1 ++ v ++ n2 ++ c :: a) sub b (S n) p
| rh_here i w n1 sub d n2 c rest l :
    word_tag w = TagRoot -> nops_seg n1 -> val_seg (i + 1 + nlen n1) sub d -> nops_seg n2 ->
    word_tag c = TagRoot -> word_val c = i ->
    word_val w = i + 1 + nlen n1 + nlen sub + nlen n2 + 1 ->
    roots_seg (i + 1 + nlen n1 + nlen sub + nlen n2 + 1) rest l ->
    rhole i (w :: n1) sub (n2 ++ c :: rest) 0 []
| rh_in i w n1 a sub b p n2 c rest l :
    word_tag w = TagRoot -> nops_seg n1 -> vhole (i + 1 + nlen n1) a sub b p -> nops_seg n2 ->
    word_tag c = TagRoot -> word_val c = i ->
    word_val w = i + 1 + nlen n1 + nlen (a ++ sub ++ b) + nlen n2 + 1 ->
    roots_seg (i + 1 + nlen n1 + nlen (a ++ sub ++ b) + nlen n2 + 1) rest l ->
    rhole i (w :: n1 ++ a) sub (b ++ n2 ++ c :: rest) 0 p.

(* "the value whose first word is at tape index k is at abstract path p" *)
Definition index_path (tape : list N) (k : N) (p : path) : Prop :=
  exists a sub b n q, tape = a ++ sub ++ b /\ k = nlen a /\ p = n :: q /\ rhole 0 a sub b n q.

(* the value segment at index k *)
Definition value_at (tape : list N) (k : N) (sub : list N) (d : doc) : Prop :=
  exists a b, tape = a ++ sub ++ b /\ k = nlen a /\ val_seg k sub d.


(* what may be substituted for the segment sub of a value at index k: a value
   followed by NOPs, of the same total length *)
Definition repl_ok (k : N) (sub sub2 : list N) (d' : doc) : Prop :=
  exists sub' n', sub2 = sub' ++ n' /\ val_seg k sub' d' /\ nops_seg n' /\
                  length sub2 = length sub.


Lemma val_seg_idx i i' v d : i = i' -> val_seg i v d -> val_seg i' v d.
Proof. intros ->; auto. Qed.
Lemma items_idx i i' v d : i = i' -> items i v d -> items i' v d.
Proof. intros ->; auto. Qed.
Lemma mitems_idx i i' v d : i = i' -> mitems i v d -> mitems i' v d.
Proof. intros ->; auto. Qed.
Lemma roots_idx i i' v d : i = i' -> roots_seg i v d -> roots_seg i' v d.
Proof. intros ->; auto. Qed.

Lemma repl_items i sub sub2 d' rest l :
  repl_ok i sub sub2 d' -> items (i + nlen sub) rest l -> items i (sub2 ++ rest) (d' :: l).
Proof.
  intros (sub' & n' & -> & Hv & Hn & Hlen) Hr. rewrite <- app_assoc.
  apply it_val; [exact Hv|]. apply nops_items; [exact Hn|].
  eapply items_idx; [|exact Hr]. revert Hlen; nl.
Qed.

Lemma repl_mitems i sub sub2 d' rest l :
  repl_ok i sub sub2 d' -> mitems (i + nlen sub) rest l ->
  exists v' rest', sub2 ++ rest = v' ++ rest' /\ val_seg i v' d' /\ mitems (i + nlen v') rest' l.
Proof.
  intros (sub' & n' & -> & Hv & Hn & Hlen) Hr. exists sub', (n' ++ rest).
  split; [leq|]. split; [exact Hv|]. apply nops_mitems; [exact Hn|].
  eapply mitems_idx; [|exact Hr]. revert Hlen; nl.
Qed.

Lemma hole_repl :
  (forall i a sub b p, vhole i a sub b p ->
     exists d dsub, val_seg i (a ++ sub ++ b) d /\ val_seg (i + nlen a) sub dsub /\
       get_doc p d = Some dsub /\
       forall sub2 d', repl_ok (i + nlen a) sub sub2 d' ->
         exists d2, val_seg i (a ++ sub2 ++ b) d2 /\ upd_doc p (fun _ => Some d') d = Some d2) /\
  (forall i a sub b n p, ihole i a sub b n p ->
     exists L dsub, items i (a ++ sub ++ b) L /\ val_seg (i + nlen a) sub dsub /\
       (exists x, nth_error L n = Some x /\ get_doc p x = Some dsub) /\
       forall sub2 d', repl_ok (i + nlen a) sub sub2 d' ->
         exists L2, items i (a ++ sub2 ++ b) L2 /\
                    upd_list n (upd_doc p (fun _ => Some d')) L = Some L2) /\
  (forall i a sub b n p, mhole i a sub b n p ->
     exists L dsub, mitems i (a ++ sub ++ b) L /\ val_seg (i + nlen a) sub dsub /\
       (exists x, nth_error L n = Some x /\ get_doc p (snd x) = Some dsub) /\
       forall sub2 d', repl_ok (i + nlen a) sub sub2 d' ->
         exists L2, mitems i (a ++ sub2 ++ b) L2 /\
                    upd_list n (fun kv => option_map (fun v => (fst kv, v))
                                            (upd_doc p (fun _ => Some d') (snd kv))) L = Some L2).
Proof.
  apply hole_mutind.
  - (* array *)
    intros i w a sub b e n p Ht He Hv Hs _ (L & dsub & HL & Hsub & (x & Hx & Hg) & Hrep).
    exists (DArr L), dsub. split; [|split; [|split]].
    + replace ((w :: a) ++ sub ++ b ++ [e]) with (w :: (a ++ sub ++ b) ++ [e]) by leq.
      apply vs_arr; auto.
    + eapply val_seg_idx; [|exact Hsub]. nl.
    + cbn [get_doc]. rewrite Hx. exact Hg.
    + intros sub2 d' Hok.
      assert (Hok' : repl_ok (i + 1 + nlen a) sub sub2 d').
      { destruct Hok as (s' & n' & E1 & E2 & E3 & E4). exists s', n'. repeat split; auto.
        eapply val_seg_idx; [|exact E2]. nl. }
      destruct (Hrep sub2 d' Hok') as (L2 & HL2 & Hu).
      exists (DArr L2). split.
      * replace ((w :: a) ++ sub2 ++ b ++ [e]) with (w :: (a ++ sub2 ++ b) ++ [e]) by leq.
        apply vs_arr; auto. destruct Hok as (_ & _ & _ & _ & _ & Hlen). revert Hv Hlen. nl.
      * cbn [upd_doc]. rewrite Hu. reflexivity.
  - (* object *)
    intros i w a sub b e n p Ht He Hv Hs _ (L & dsub & HL & Hsub & (x & Hx & Hg) & Hrep).
    exists (DObj L), dsub. split; [|split; [|split]].
    + replace ((w :: a) ++ sub ++ b ++ [e]) with (w :: (a ++ sub ++ b) ++ [e]) by leq.
      apply vs_obj; auto.
    + eapply val_seg_idx; [|exact Hsub]. nl.
    + cbn [get_doc]. rewrite Hx. exact Hg.
    + intros sub2 d' Hok.
      assert (Hok' : repl_ok (i + 1 + nlen a) sub sub2 d').
      { destruct Hok as (s' & n' & E1 & E2 & E3 & E4). exists s', n'. repeat split; auto.
        eapply val_seg_idx; [|exact E2]. nl. }
      destruct (Hrep sub2 d' Hok') as (L2 & HL2 & Hu).
      exists (DObj L2). split.
      * replace ((w :: a) ++ sub2 ++ b ++ [e]) with (w :: (a ++ sub2 ++ b) ++ [e]) by leq.
        apply vs_obj; auto. destruct Hok as (_ & _ & _ & _ & _ & Hlen). revert Hv Hlen. nl.
      * cbn [upd_doc]. rewrite Hu. reflexivity.
  - (* items: nop *)
    intros i w junk a sub b n p Ht Hv Hrun _ (L & dsub & HL & Hsub & Hx & Hrep).
    exists L, dsub. split; [|split; [|split]].
    + replace ((w :: junk ++ a) ++ sub ++ b) with (w :: junk ++ (a ++ sub ++ b)) by leq.
      apply it_nop; auto.
    + eapply val_seg_idx; [|exact Hsub]. nl.
    + exact Hx.
    + intros sub2 d' Hok.
      assert (Hok' : repl_ok (i + nlen junk + 1 + nlen a) sub sub2 d').
      { destruct Hok as (s' & n' & E1 & E2 & E3 & E4). exists s', n'. repeat split; auto.
        eapply val_seg_idx; [|exact E2]. nl. }
      destruct (Hrep sub2 d' Hok') as (L2 & HL2 & Hu).
      exists L2. split; [|exact Hu].
      replace ((w :: junk ++ a) ++ sub2 ++ b) with (w :: junk ++ (a ++ sub2 ++ b)) by leq.
      apply it_nop; auto.
  - (* items: skip *)
    intros i v d a sub b n p Hval _ (L & dsub & HL & Hsub & Hx & Hrep).
    exists (d :: L), dsub. split; [|split; [|split]].
    + replace ((v ++ a) ++ sub ++ b) with (v ++ (a ++ sub ++ b)) by leq.
      apply it_val; auto.
    + eapply val_seg_idx; [|exact Hsub]. nl.
    + exact Hx.
    + intros sub2 d' Hok.
      assert (Hok' : repl_ok (i + nlen v + nlen a) sub sub2 d').
      { destruct Hok as (s' & n' & E1 & E2 & E3 & E4). exists s', n'. repeat split; auto.
        eapply val_seg_idx; [|exact E2]. nl. }
      destruct (Hrep sub2 d' Hok') as (L2 & HL2 & Hu).
      exists (d :: L2). split.
      * replace ((v ++ a) ++ sub2 ++ b) with (v ++ (a ++ sub2 ++ b)) by leq.
        apply it_val; auto.
      * cbn [upd_list]. rewrite Hu. reflexivity.
  - (* items: here *)
    intros i sub d rest l Hval Hrest.
    exists (d :: l), d. split; [|split; [|split]].
    + cbn [app]. apply it_val; auto.
    + eapply val_seg_idx; [|exact Hval]. nl.
    + exists d. split; reflexivity.
    + intros sub2 d' Hok. exists (d' :: l). split; [|reflexivity].
      cbn [app]. eapply repl_items; [|exact Hrest].
      destruct Hok as (s' & n' & E1 & E2 & E3 & E4). exists s', n'. repeat split; auto.
      eapply val_seg_idx; [|exact E2]. nl.
  - (* items: in *)
    intros i a sub b p rest l _ (d & dsub & Hd & Hsub & Hg & Hrep) Hrest.
    exists (d :: l), dsub. split; [|split; [|split]].
    + replace (a ++ sub ++ b ++ rest) with ((a ++ sub ++ b) ++ rest) by leq.
      apply it_val; auto.
    + exact Hsub.
    + exists d. split; [reflexivity|exact Hg].
    + intros sub2 d' Hok. destruct (Hrep sub2 d' Hok) as (d2 & Hd2 & Hu).
      exists (d2 :: l). split.
      * replace (a ++ sub2 ++ b ++ rest) with ((a ++ sub2 ++ b) ++ rest) by leq.
        apply it_val; auto. eapply items_idx; [|exact Hrest].
        destruct Hok as (_ & _ & _ & _ & _ & Hlen). revert Hlen. nl.
      * cbn [upd_list]. rewrite Hu. reflexivity.
  - (* members: nop *)
    intros i w junk a sub b n p Ht Hv Hrun _ (L & dsub & HL & Hsub & Hx & Hrep).
    exists L, dsub. split; [|split; [|split]].
    + replace ((w :: junk ++ a) ++ sub ++ b) with (w :: junk ++ (a ++ sub ++ b)) by leq.
      apply mi_nop; auto.
    + eapply val_seg_idx; [|exact Hsub]. nl.
    + exact Hx.
    + intros sub2 d' Hok.
      assert (Hok' : repl_ok (i + nlen junk + 1 + nlen a) sub sub2 d').
      { destruct Hok as (s' & n' & E1 & E2 & E3 & E4). exists s', n'. repeat split; auto.
        eapply val_seg_idx; [|exact E2]. nl. }
      destruct (Hrep sub2 d' Hok') as (L2 & HL2 & Hu).
      exists L2. split; [|exact Hu].
      replace ((w :: junk ++ a) ++ sub2 ++ b) with (w :: junk ++ (a ++ sub2 ++ b)) by leq.
      apply mi_nop; auto.
  - (* members: skip *)
    intros i w len k n2 v d a sub b n p Ht Hk Hn2 Hadj Hval _ (L & dsub & HL & Hsub & Hx & Hrep).
    exists ((k, d) :: L), dsub. split; [|split; [|split]].
    + replace ((w :: len :: n2 ++ v ++ a) ++ sub ++ b) with (w :: len :: n2 ++ v ++ (a ++ sub ++ b)) by leq.
      apply mi_mem; auto.
    + eapply val_seg_idx; [|exact Hsub]. nl.
    + exact Hx.
    + intros sub2 d' Hok.
      assert (Hok' : repl_ok (i + 2 + nlen n2 + nlen v + nlen a) sub sub2 d').
      { destruct Hok as (s' & n' & E1 & E2 & E3 & E4). exists s', n'. repeat split; auto.
        eapply val_seg_idx; [|exact E2]. nl. }
      destruct (Hrep sub2 d' Hok') as (L2 & HL2 & Hu).
      exists ((k, d) :: L2). split.
      * replace ((w :: len :: n2 ++ v ++ a) ++ sub2 ++ b) with (w :: len :: n2 ++ v ++ (a ++ sub2 ++ b)) by leq.
        apply mi_mem; auto.
      * cbn [upd_list]. rewrite Hu. reflexivity.
  - (* members: here *)
    intros i w len k n2 sub d rest l Ht Hk Hn2 Hadj Hval Hrest.
    exists ((k, d) :: l), d. split; [|split; [|split]].
    + replace ((w :: len :: n2) ++ sub ++ rest) with (w :: len :: n2 ++ sub ++ rest) by leq.
      apply mi_mem; auto.
    + eapply val_seg_idx; [|exact Hval]. nl.
    + exists (k, d). split; reflexivity.
    + intros sub2 d' Hok. exists ((k, d') :: l). split; [|reflexivity].
      assert (Hok' : repl_ok (i + 2 + nlen n2) sub sub2 d').
      { destruct Hok as (s' & n' & E1 & E2 & E3 & E4). exists s', n'. repeat split; auto.
        eapply val_seg_idx; [|exact E2]. nl. }
      destruct (repl_mitems _ _ _ _ _ _ Hok' Hrest) as (v' & rest' & E & Hv' & Hr').
      replace ((w :: len :: n2) ++ sub2 ++ rest) with (w :: len :: n2 ++ (sub2 ++ rest)) by leq.
      rewrite E. apply mi_mem; auto.
  - (* members: in *)
    intros i w len k n2 a sub b p rest l Ht Hk Hn2 Hadj _ (d & dsub & Hd & Hsub & Hg & Hrep) Hrest.
    exists ((k, d) :: l), dsub. split; [|split; [|split]].
    + replace ((w :: len :: n2 ++ a) ++ sub ++ b ++ rest) with (w :: len :: n2 ++ (a ++ sub ++ b) ++ rest) by leq.
      apply mi_mem; auto.
    + eapply val_seg_idx; [|exact Hsub]. nl.
    + exists (k, d). split; [reflexivity|exact Hg].
    + intros sub2 d' Hok.
      assert (Hok' : repl_ok (i + 2 + nlen n2 + nlen a) sub sub2 d').
      { destruct Hok as (s' & n' & E1 & E2 & E3 & E4). exists s', n'. repeat split; auto.
        eapply val_seg_idx; [|exact E2]. nl. }
      destruct (Hrep sub2 d' Hok') as (d2 & Hd2 & Hu).
      exists ((k, d2) :: l). split.
      * replace ((w :: len :: n2 ++ a) ++ sub2 ++ b ++ rest) with (w :: len :: n2 ++ (a ++ sub2 ++ b) ++ rest) by leq.
        apply mi_mem; auto. eapply mitems_idx; [|exact Hrest].
        destruct Hok as (_ & _ & _ & _ & _ & Hlen). revert Hlen. nl.
      * cbn [upd_list fst snd]. rewrite Hu. reflexivity.
Qed.


Lemma rhole_repl : forall i a sub b n p, rhole i a sub b n p ->
  exists ds dsub, roots_seg i (a ++ sub ++ b) ds /\ val_seg (i + nlen a) sub dsub /\
    get_docs (n :: p) ds = Some dsub /\
    forall sub2 d', repl_ok (i + nlen a) sub sub2 d' ->
      exists ds2, roots_seg i (a ++ sub2 ++ b) ds2 /\
                  upd_docs (n :: p) (fun _ => Some d') ds = Some ds2.
Proof.
  induction 1 as [i w junk a sub b n p Ht Hv Hrun _ IH
                 |i w n1 v d n2 c a sub b n p Ht Hn1 Hval Hn2 Hc Hcv Hwv _ IH
                 |i w n1 sub d n2 c rest l Ht Hn1 Hval Hn2 Hc Hcv Hwv Hrest
                 |i w n1 a sub b p n2 c rest l Ht Hn1 Hh Hn2 Hc Hcv Hwv Hrest].
  - destruct IH as (ds & dsub & Hds & Hsub & Hg & Hrep).
    exists ds, dsub. split; [|split; [|split]].
    + replace ((w :: junk ++ a) ++ sub ++ b) with (w :: junk ++ (a ++ sub ++ b)) by leq.
      apply rs_nop; auto.
    + eapply val_seg_idx; [|exact Hsub]. nl.
    + exact Hg.
    + intros sub2 d' Hok.
      assert (Hok' : repl_ok (i + nlen junk + 1 + nlen a) sub sub2 d').
      { destruct Hok as (s' & n' & E1 & E2 & E3 & E4). exists s', n'. repeat split; auto.
        eapply val_seg_idx; [|exact E2]. nl. }
      destruct (Hrep sub2 d' Hok') as (L2 & HL2 & Hu).
      exists L2. split; [|exact Hu].
      replace ((w :: junk ++ a) ++ sub2 ++ b) with (w :: junk ++ (a ++ sub2 ++ b)) by leq.
      apply rs_nop; auto.
  - destruct IH as (ds & dsub & Hds & Hsub & Hg & Hrep).
    exists (d :: ds), dsub. split; [|split; [|split]].
    + replace ((w :: n1 ++ v ++ n2 ++ c :: a) ++ sub ++ b)
        with (w :: n1 ++ v ++ n2 ++ c :: (a ++ sub ++ b)) by leq.
      apply rs_root; auto.
    + eapply val_seg_idx; [|exact Hsub]. nl.
    + exact Hg.
    + intros sub2 d' Hok.
      assert (Hok' : repl_ok (i + 1 + nlen n1 + nlen v + nlen n2 + 1 + nlen a) sub sub2 d').
      { destruct Hok as (s' & n' & E1 & E2 & E3 & E4). exists s', n'. repeat split; auto.
        eapply val_seg_idx; [|exact E2]. nl. }
      destruct (Hrep sub2 d' Hok') as (L2 & HL2 & Hu).
      exists (d :: L2). split.
      * replace ((w :: n1 ++ v ++ n2 ++ c :: a) ++ sub2 ++ b)
          with (w :: n1 ++ v ++ n2 ++ c :: (a ++ sub2 ++ b)) by leq.
        apply rs_root; auto.
      * cbn [upd_docs upd_list] in *. rewrite Hu. reflexivity.
  - exists (d :: l), d. split; [|split; [|split]].
    + replace ((w :: n1) ++ sub ++ n2 ++ c :: rest) with (w :: n1 ++ sub ++ n2 ++ c :: rest) by leq.
      apply rs_root; auto.
    + eapply val_seg_idx; [|exact Hval]. nl.
    + reflexivity.
    + intros sub2 d' (s' & n' & -> & Hs' & Hn' & Hlen).
      exists (d' :: l). split; [|reflexivity].
      replace ((w :: n1) ++ (s' ++ n') ++ n2 ++ c :: rest)
        with (w :: n1 ++ s' ++ (n' ++ n2) ++ c :: rest) by leq.
      apply rs_root; auto.
      * eapply val_seg_idx; [|exact Hs']. nl.
      * apply nops_seg_app; assumption.
      * revert Hwv Hlen. nl.
      * eapply roots_idx; [|exact Hrest]. revert Hlen. nl.
  - destruct (proj1 hole_repl _ _ _ _ _ Hh) as (d & dsub & Hd & Hsub & Hg & Hrep).
    exists (d :: l), dsub. split; [|split; [|split]].
    + replace ((w :: n1 ++ a) ++ sub ++ b ++ n2 ++ c :: rest)
        with (w :: n1 ++ (a ++ sub ++ b) ++ n2 ++ c :: rest) by leq.
      apply rs_root; auto.
    + eapply val_seg_idx; [|exact Hsub]. nl.
    + exact Hg.
    + intros sub2 d' Hok.
      assert (Hok' : repl_ok (i + 1 + nlen n1 + nlen a) sub sub2 d').
      { destruct Hok as (s' & n' & E1 & E2 & E3 & E4). exists s', n'. repeat split; auto.
        eapply val_seg_idx; [|exact E2]. nl. }
      destruct (Hrep sub2 d' Hok') as (d2 & Hd2 & Hu).
      exists (d2 :: l). split.
      * replace ((w :: n1 ++ a) ++ sub2 ++ b ++ n2 ++ c :: rest)
          with (w :: n1 ++ (a ++ sub2 ++ b) ++ n2 ++ c :: rest) by leq.
        destruct Hok as (_ & _ & _ & _ & _ & Hlen).
        apply rs_root; auto.
        -- revert Hwv Hlen. nl.
        -- eapply roots_idx; [|exact Hrest]. revert Hlen. nl.
      * cbn [upd_docs upd_list]. rewrite Hu. reflexivity.
Qed.

(* determinism of segments: a value segment is determined by the tape suffix *)
Lemma val_seg_det i v d v' d' t t' :
  val_seg i v d -> val_seg i v' d' -> v ++ t = v' ++ t' -> v = v' /\ d = d' /\ t = t'.
Proof.
  intros H1 H2 E.
  pose proof (proj1 (seg_den msg strings strict adj) _ _ _ H1 (S (length v + length v')) t ltac:(lia)) as D1.
  pose proof (proj1 (seg_den msg strings strict adj) _ _ _ H2 (S (length v + length v')) t' ltac:(lia)) as D2.
  rewrite E in D1. rewrite D1 in D2. injection D2 as -> Hn ->.
  assert (Hl : length v = length v') by (revert Hn; nl).
  split; [|split; reflexivity].
  apply (f_equal (firstn (length v))) in E.
  rewrite firstn_app_exact in E by reflexivity.
  rewrite Hl in E. rewrite firstn_app_exact in E by reflexivity. exact E.
Qed.

End Holes.

(* ------------------------------------------------------------------ *)
(* the replacement theorem on denotations                              *)

Section Replace.
Variables (msg strings : bytes).
Variables (strict adj : bool).

Lemma index_path_rhole pre sub post dsub p :
  index_path msg strings strict adj (pre ++ sub ++ post) (nlen pre) p ->
  val_seg msg strings strict adj (nlen pre) sub dsub ->
  exists n q, p = n :: q /\ rhole msg strings strict adj 0 pre sub post n q.
Proof.
  intros (a & sub0 & b & n & q & E & Hk & -> & Hh) Hv.
  exists n, q. split; [reflexivity|].
  destruct (rhole_repl _ _ _ _ _ _ _ _ _ _ Hh) as (_ & dsub0 & _ & Hsub0 & _).
  apply app_eq_len in E; [|revert Hk; unfold nlen; lia]. destruct E as [-> E].
  rewrite N.add_0_l in Hsub0.
  destruct (val_seg_det _ _ _ _ _ _ _ _ _ _ _ Hv Hsub0 E) as (-> & _ & ->). exact Hh.
Qed.

(* C (list level): replacing the segment of the value at index |pre| by a
   segment of the same length that reads as d' (followed by NOPs) replaces
   the value at its path, and nothing else. *)
Theorem replace_value_denote pre sub post sub2 dsub d' p ds :
  denote msg strings (pre ++ sub ++ post) = Some ds ->
  index_path msg strings strict adj (pre ++ sub ++ post) (nlen pre) p ->
  val_seg msg strings strict adj (nlen pre) sub dsub ->
  repl_ok msg strings strict adj (nlen pre) sub sub2 d' ->
  get_docs p ds = Some dsub /\
  denote msg strings (pre ++ sub2 ++ post) = upd_docs p (fun _ => Some d') ds /\
  exists ds2, upd_docs p (fun _ => Some d') ds = Some ds2 /\
              roots_seg msg strings strict adj 0 (pre ++ sub2 ++ post) ds2.
Proof.
  intros Hden Hip Hv Hok.
  destruct (index_path_rhole _ _ _ _ _ Hip Hv) as (n & q & -> & Hh).
  destruct (rhole_repl _ _ _ _ _ _ _ _ _ _ Hh) as (ds0 & dsub0 & Hds0 & Hsub0 & Hg & Hrep).
  rewrite N.add_0_l in Hsub0, Hrep.
  assert (Hne : ds0 <> []).
  { intros ->. cbn in Hg. destruct n; discriminate Hg. }
  pose proof (roots_seg_denote _ _ _ _ _ _ Hds0 Hne) as Hden0.
  rewrite Hden in Hden0. injection Hden0 as ->.
  destruct (val_seg_det _ _ _ _ _ _ _ _ _ [] [] Hv Hsub0 eq_refl) as (_ & -> & _).
  split; [exact Hg|].
  destruct (Hrep sub2 d' Hok) as (ds2 & Hds2 & Hu).
  assert (Hne2 : ds2 <> []).
  { intros ->. cbn [upd_docs] in Hu. destruct ds0 as [|x r]; [congruence|].
    destruct n; cbn [upd_list] in Hu.
    - destruct (upd_doc q (fun _ => Some d') x); discriminate Hu.
    - destruct (upd_list n (upd_doc q (fun _ => Some d')) r); discriminate Hu. }
  rewrite Hu. split; [apply (roots_seg_denote _ _ _ _ _ _ Hds2 Hne2)|].
  exists ds2. repeat split; assumption.
Qed.

End Replace.

Section HoleMono.
Variables (msg strings ext : bytes).
Variables (strict adj : bool).

Lemma hole_mono :
  (forall i a sub b p, vhole msg strings strict adj i a sub b p ->
                       vhole msg (strings ++ ext) strict adj i a sub b p) /\
  (forall i a sub b n p, ihole msg strings strict adj i a sub b n p ->
                         ihole msg (strings ++ ext) strict adj i a sub b n p) /\
  (forall i a sub b n p, mhole msg strings strict adj i a sub b n p ->
                         mhole msg (strings ++ ext) strict adj i a sub b n p).
Proof.
  apply hole_mutind; intros;
    [eapply vh_arr | eapply vh_obj | eapply ih_nop | eapply ih_skip | eapply ih_here
    | eapply ih_in | eapply mh_nop | eapply mh_skip | eapply mh_here | eapply mh_in];
    eauto using string_at_mono;
    first [ eapply (proj1 (seg_mono _ _ _ _ _)); eassumption
          | eapply (proj1 (proj2 (seg_mono _ _ _ _ _))); eassumption
          | eapply (proj2 (proj2 (seg_mono _ _ _ _ _))); eassumption ].
Qed.

Lemma rhole_mono i a sub b n p :
  rhole msg strings strict adj i a sub b n p -> rhole msg (strings ++ ext) strict adj i a sub b n p.
Proof.
  induction 1; [eapply rh_nop | eapply rh_skip | eapply rh_here | eapply rh_in]; eauto;
    first [ eapply (proj1 (seg_mono _ _ _ _ _)); eassumption
          | eapply roots_mono; eassumption
          | eapply (proj1 hole_mono); eassumption ].
Qed.

Lemma index_path_mono tape k p :
  index_path msg strings strict adj tape k p -> index_path msg (strings ++ ext) strict adj tape k p.
Proof.
  intros (a & sub & b & n & q & E1 & E2 & E3 & H).
  exists a, sub, b, n, q. repeat split; auto. apply rhole_mono. exact H.
Qed.

End HoleMono.

(* ------------------------------------------------------------------ *)
(* every abstract path has a tape position                             *)

Section HoleExists.
Variables (msg strings : bytes) (strict adj : bool).
Notation val_seg := (val_seg msg strings strict adj).
Notation items := (items msg strings strict adj).
Notation mitems := (mitems msg strings strict adj).
Notation roots_seg := (roots_seg msg strings strict adj).
Notation vhole := (vhole msg strings strict adj).
Notation ihole := (ihole msg strings strict adj).
Notation mhole := (mhole msg strings strict adj).
Notation rhole := (rhole msg strings strict adj).

Lemma hole_exists :
  (forall i v d, val_seg i v d -> forall p dsub, p <> [] -> get_doc p d = Some dsub ->
     exists a sub b, v = a ++ sub ++ b /\ vhole i a sub b p) /\
  (forall i b l, items i b l -> forall n p x dsub,
     nth_error l n = Some x -> get_doc p x = Some dsub ->
     exists a sub c, b = a ++ sub ++ c /\ ihole i a sub c n p) /\
  (forall i b l, mitems i b l -> forall n p x dsub,
     nth_error l n = Some x -> get_doc p (snd x) = Some dsub ->
     exists a sub c, b = a ++ sub ++ c /\ mhole i a sub c n p).
Proof.
  apply seg_mutind.
  - intros i w len s _ _ [|n q] dsub Hp Hg; [congruence|discriminate Hg].
  - intros i w x _ _ [|n q] dsub Hp Hg; [congruence|discriminate Hg].
  - intros i w x _ _ [|n q] dsub Hp Hg; [congruence|discriminate Hg].
  - intros i w x _ [|n q] dsub Hp Hg; [congruence|discriminate Hg].
  - intros i w _ _ [|n q] dsub Hp Hg; [congruence|discriminate Hg].
  - intros i w _ _ [|n q] dsub Hp Hg; [congruence|discriminate Hg].
  - intros i w _ _ [|n q] dsub Hp Hg; [congruence|discriminate Hg].
  - (* array *)
    intros i w body e l Ht Hit IH He Hv Hs [|n q] dsub Hp Hg; [congruence|].
    cbn [get_doc] in Hg. destruct (nth_error l n) as [x|] eqn:En; [|discriminate Hg].
    destruct (IH n q x dsub En Hg) as (a & sub & c & -> & Hh).
    exists (w :: a), sub, (c ++ [e]). split; [leq|]. apply vh_arr; auto.
  - (* object *)
    intros i w body e l Ht Hit IH He Hv Hs [|n q] dsub Hp Hg; [congruence|].
    cbn [get_doc] in Hg. destruct (nth_error l n) as [x|] eqn:En; [|discriminate Hg].
    destruct (IH n q x dsub En Hg) as (a & sub & c & -> & Hh).
    exists (w :: a), sub, (c ++ [e]). split; [leq|]. apply vh_obj; auto.
  - intros i [|n] p x dsub Hn; discriminate Hn.
  - intros i w junk rest l Ht Hv Hrun _ IH n p x dsub Hn Hg.
    destruct (IH n p x dsub Hn Hg) as (a & sub & c & -> & Hh).
    exists (w :: junk ++ a), sub, c. split; [leq|]. apply ih_nop; auto.
  - intros i v d rest l Hval IHv Hrest IHr [|n] p x dsub Hn Hg.
    + cbn in Hn. injection Hn as <-. destruct p as [|m q].
      * cbn in Hg. injection Hg as <-. exists [], v, rest. split; [reflexivity|].
        eapply ih_here; eauto.
      * destruct (IHv (m :: q) dsub ltac:(discriminate) Hg) as (a & sub & b' & -> & Hh).
        exists a, sub, (b' ++ rest). split; [leq|]. eapply ih_in; eauto.
    + cbn [nth_error] in Hn. destruct (IHr n p x dsub Hn Hg) as (a & sub & c & -> & Hh).
      exists (v ++ a), sub, c. split; [leq|]. eapply ih_skip; eauto.
  - intros i [|n] p x dsub Hn; discriminate Hn.
  - intros i w junk rest l Ht Hv Hrun _ IH n p x dsub Hn Hg.
    destruct (IH n p x dsub Hn Hg) as (a & sub & c & -> & Hh).
    exists (w :: junk ++ a), sub, c. split; [leq|]. apply mh_nop; auto.
  - intros i w len k n2 v d rest l Ht Hk Hn2 Hadj Hval IHv Hrest IHr [|n] p x dsub Hn Hg.
    + cbn in Hn. injection Hn as <-. cbn [snd] in Hg. destruct p as [|m q].
      * cbn in Hg. injection Hg as <-. exists (w :: len :: n2), v, rest. split; [leq|].
        eapply mh_here; eauto.
      * destruct (IHv (m :: q) dsub ltac:(discriminate) Hg) as (a & sub & b' & -> & Hh).
        exists (w :: len :: n2 ++ a), sub, (b' ++ rest). split; [leq|]. eapply mh_in; eauto.
    + cbn [nth_error] in Hn. destruct (IHr n p x dsub Hn Hg) as (a & sub & c & -> & Hh).
      exists (w :: len :: n2 ++ v ++ a), sub, c. split; [leq|]. eapply mh_skip; eauto.
Qed.

Lemma rhole_exists : forall i rest ds, roots_seg i rest ds -> forall n q dsub,
  get_docs (n :: q) ds = Some dsub ->
  exists a sub b, rest = a ++ sub ++ b /\ rhole i a sub b n q.
Proof.
  induction 1 as [i|i w rest Hs Ht Hv|i w junk rest l Ht Hv Hrun Hr IH
                  |i w n1 v d n2 c rest l Ht Hn1 Hval Hn2 Hc Hcv Hwv Hr IH]; intros n q dsub Hg.
  - destruct n; discriminate Hg.
  - destruct n; discriminate Hg.
  - destruct (IH n q dsub Hg) as (a & sub & b & -> & Hh).
    exists (w :: junk ++ a), sub, b. split; [leq|]. apply rh_nop; auto.
  - cbn [get_docs] in Hg. destruct n as [|n]; cbn [nth_error] in Hg.
    + destruct q as [|m q'].
      * cbn in Hg. injection Hg as <-. exists (w :: n1), v, (n2 ++ c :: rest). split; [leq|].
        eapply rh_here; eauto.
      * destruct (proj1 hole_exists _ _ _ Hval (m :: q') dsub ltac:(discriminate) Hg)
          as (a & sub & b' & -> & Hh).
        exists (w :: n1 ++ a), sub, (b' ++ n2 ++ c :: rest). split; [leq|]. eapply rh_in; eauto.
    + destruct (IH n q dsub Hg) as (a & sub & b & -> & Hh).
      exists (w :: n1 ++ v ++ n2 ++ c :: a), sub, b. split; [leq|]. eapply rh_skip; eauto.
Qed.

(* for every abstract path into the denotation there is a tape index *)
Theorem path_index_exists tape ds p dsub :
  roots_seg 0 tape ds -> get_docs p ds = Some dsub ->
  exists k, index_path msg strings strict adj tape k p.
Proof.
  intros Hr Hg. destruct p as [|n q]; [discriminate Hg|].
  destruct (rhole_exists _ _ _ Hr n q dsub Hg) as (a & sub & b & -> & Hh).
  exists (nlen a), a, sub, b, n, q. repeat split. exact Hh.
Qed.

End HoleExists.
