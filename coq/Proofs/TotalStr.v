(* TotalStr.v — the string kernel never runs away when a closing quote exists.
   [qscan s] walks [s] the way a scalar JSON scanner does (a backslash skips
   the next byte) and returns the distance to the first unescaped quote.
   Whenever [qscan mem] is defined, the 32-byte-window walk [str_loop] either
   fails or stops at a quote: it never exhausts a fuel above that distance
   (fuel exhaustion models a read past the end of the buffer). *)
From Coq Require Import ZifyBool ZifyN ZifyNat.
From SJ Require Import Model.Base Model.RefTables Spec.Json Model.Str.
From SJ Require Import Proofs.StrArith Proofs.StrProofs.
Open Scope N_scope.

Fixpoint qscan (s : bytes) : option nat :=
  match s with
  | [] => None
  | b :: r =>
    if b2n b =? cQUOTE then Some 0%nat
    else if b2n b =? cBSLASH then
      match r with
      | [] => None
      | _ :: r' => option_map (fun k => S (S k)) (qscan r')
      end
    else option_map S (qscan r)
  end.

Lemma qscan_lt : forall n s k, (length s <= n)%nat -> qscan s = Some k -> (k < length s)%nat.
Proof.
  induction n as [|n IH]; intros s k Hn H.
  - destruct s; [discriminate|cbn [length] in Hn; lia].
  - destruct s as [|b r]; [discriminate|]. cbn [qscan] in H. cbn [length] in *.
    destruct (b2n b =? cQUOTE); [injection H as <-; lia|].
    destruct (b2n b =? cBSLASH).
    + destruct r as [|e r']; [discriminate|]. cbn [length] in *.
      destruct (qscan r') as [k'|] eqn:E; [|discriminate]. cbn [option_map] in H. injection H as <-.
      apply IH in E; lia.
    + destruct (qscan r) as [k'|] eqn:E; [|discriminate]. cbn [option_map] in H. injection H as <-.
      apply IH in E; lia.
Qed.

Lemma qscan_bound s k : qscan s = Some k -> (k < length s)%nat.
Proof. apply (qscan_lt (length s)). lia. Qed.

(* a prefix without quote and backslash is walked byte by byte *)
Lemma qscan_plain_prefix : forall n s k,
  (forall j, (j < n)%nat -> nth_b s j <> 34 /\ nth_b s j <> 92) ->
  qscan s = Some k -> (n <= k)%nat /\ qscan (skipn n s) = Some (k - n)%nat.
Proof.
  induction n as [|n IH]; intros s k Hpl H.
  - cbn [skipn]. rewrite Nat.sub_0_r. split; [lia|exact H].
  - destruct s as [|b r]; [discriminate|].
    destruct (Hpl 0%nat ltac:(lia)) as [H1 H2]. unfold nth_b in H1, H2. cbn [nth] in H1, H2.
    cbn [qscan] in H. unfold cQUOTE, cBSLASH in H.
    replace (b2n b =? 34) with false in H by lia. replace (b2n b =? 92) with false in H by lia.
    destruct (qscan r) as [k'|] eqn:E; [|discriminate]. cbn [option_map] in H. injection H as <-.
    destruct (IH r k') as [A B]; [|exact E|].
    { intros j Hj. specialize (Hpl (S j) ltac:(lia)). unfold nth_b in *. cbn [nth] in Hpl. exact Hpl. }
    cbn [skipn]. split; [lia|]. rewrite B. f_equal.
Qed.

(* an escape pair *)
Lemma qscan_bs p k : nth_b p 0 = 92 -> qscan p = Some k ->
  (2 <= k)%nat /\ qscan (skipn 2 p) = Some (k - 2)%nat.
Proof.
  intros Hb H. destruct p as [|b r]; [discriminate|].
  unfold nth_b in Hb. cbn [nth] in Hb. cbn [qscan] in H. unfold cQUOTE, cBSLASH in H.
  replace (b2n b =? 34) with false in H by lia. replace (b2n b =? 92) with true in H by lia.
  destruct r as [|e r']; [discriminate|].
  destruct (qscan r') as [k'|] eqn:E; [|discriminate]. cbn [option_map] in H. injection H as <-.
  cbn [skipn]. split; [lia|]. rewrite E. f_equal. lia.
Qed.

Lemma hexval_nth_plain p i v : hexval (nth_b p i) = Some v -> nth_b p i <> 34 /\ nth_b p i <> 92.
Proof.
  unfold hexval, is_digit, c0, c9. intros H.
  destruct ((48 <=? nth_b p i) && (nth_b p i <=? 57)) eqn:E1; [lia|].
  destruct ((97 <=? nth_b p i) && (nth_b p i <=? 102)) eqn:E2; [lia|].
  destruct ((65 <=? nth_b p i) && (nth_b p i <=? 70)) eqn:E3; [lia|discriminate].
Qed.

Lemma hex4_spec_nth_plain p i v :
  hex4_spec (nth i p x00) (nth (S i) p x00) (nth (S (S i)) p x00) (nth (S (S (S i))) p x00) = Some v ->
  forall j, (j < 4)%nat -> nth_b p (i + j) <> 34 /\ nth_b p (i + j) <> 92.
Proof.
  unfold hex4_spec. intros H.
  destruct (hexval (b2n (nth i p x00))) eqn:E0; [|discriminate].
  destruct (hexval (b2n (nth (S i) p x00))) eqn:E1; [|discriminate].
  destruct (hexval (b2n (nth (S (S i)) p x00))) eqn:E2; [|discriminate].
  destruct (hexval (b2n (nth (S (S (S i))) p x00))) eqn:E3; [|discriminate].
  intros j Hj.
  destruct j as [|[|[|[|j]]]]; try lia.
  - rewrite Nat.add_0_r. eapply hexval_nth_plain. exact E0.
  - replace (i + 1)%nat with (S i) by lia. eapply hexval_nth_plain. exact E1.
  - replace (i + 2)%nat with (S (S i)) by lia. eapply hexval_nth_plain. exact E2.
  - replace (i + 3)%nat with (S (S (S i))) by lia. eapply hexval_nth_plain. exact E3.
Qed.

(* the \u branch only continues over real hex digits *)
Lemma str_unicode_digits p dist adv cp :
  str_unicode p dist = Some (adv, cp) -> utf8_len cp <> None ->
  (adv = 6%nat /\ exists v, hex4_spec (nth 2 p x00) (nth 3 p x00) (nth 4 p x00) (nth 5 p x00) = Some v) \/
  (adv = 12%nat /\ nth_b p 6 = 92 /\ nth_b p 7 = 117 /\
   (exists v, hex4_spec (nth 2 p x00) (nth 3 p x00) (nth 4 p x00) (nth 5 p x00) = Some v) /\
   (exists v, hex4_spec (nth 8 p x00) (nth 9 p x00) (nth 10 p x00) (nth 11 p x00) = Some v)).
Proof.
  unfold str_unicode. intros H Hu.
  destruct (dist <? 6)%nat; [discriminate|]. cbv zeta in H.
  set (cp0 := hex4 (nth_b p 2) (nth_b p 3) (nth_b p 4) (nth_b p 5)) in *.
  destruct (hex4_spec (nth 2 p x00) (nth 3 p x00) (nth 4 p x00) (nth 5 p x00)) as [v|] eqn:Eh.
  2:{ exfalso. destruct (hex4_bad _ _ _ _ Eh) as (A & B & _). cbv zeta in A, B.
      change (hex4 (b2n (nth 2 p x00)) (b2n (nth 3 p x00)) (b2n (nth 4 p x00)) (b2n (nth 5 p x00))) with cp0 in A, B.
      rewrite A in H. injection H as <- <-. apply Hu. exact B. }
  destruct (N.land cp0 4294966272 =? 55296).
  - destruct (dist <? 12)%nat; [discriminate|].
    destruct (nth_b p 6 =? cBSLASH) eqn:E6; [|discriminate]. cbn [negb] in H.
    destruct (nth_b p 7 =? c_u) eqn:E7; [|discriminate]. cbn [negb] in H.
    set (lo := hex4 (nth_b p 8) (nth_b p 9) (nth_b p 10) (nth_b p 11)) in *.
    destruct (65535 <? N.lor lo cp0) eqn:El; [discriminate|].
    injection H as <- _. right. split; [reflexivity|].
    split; [unfold cBSLASH in E6; lia|]. split; [unfold c_u in E7; lia|].
    split; [exists v; reflexivity|].
    destruct (hex4_spec (nth 8 p x00) (nth 9 p x00) (nth 10 p x00) (nth 11 p x00)) as [v2|] eqn:Eh2.
    + exists v2. reflexivity.
    + exfalso. destruct (hex4_bad _ _ _ _ Eh2) as (_ & _ & C). cbv zeta in C.
      specialize (C cp0).
      change (hex4 (b2n (nth 8 p x00)) (b2n (nth 9 p x00)) (b2n (nth 10 p x00)) (b2n (nth 11 p x00))) with lo in C.
      rewrite C in El. discriminate.
  - injection H as <- _. left. split; [reflexivity|]. exists v. reflexivity.
Qed.

Lemma model_esc_scan p dist adv o k :
  nth_b p 0 = 92 -> model_esc p dist = Some (adv, o) -> qscan p = Some k ->
  (2 <= adv <= k)%nat /\ qscan (skipn adv p) = Some (k - adv)%nat.
Proof.
  intros Hb Hm Hk.
  destruct (qscan_bs p k Hb Hk) as [Hk2 Hs2].
  unfold model_esc in Hm.
  destruct (nth_b p 1 =? c_u).
  - destruct (str_unicode p dist) as [[adv' cp]|] eqn:Eu; [|discriminate].
    destruct (utf8_len cp) eqn:El; [|discriminate]. injection Hm as <- _.
    assert (Hne : utf8_len cp <> None) by (rewrite El; discriminate).
    destruct (str_unicode_digits p dist adv' cp Eu Hne)
      as [(-> & v & Hv)|(-> & H6 & H7 & (v & Hv) & (v2 & Hv2))].
    + pose proof (hex4_spec_nth_plain p 2 v Hv) as Hpl.
      destruct (qscan_plain_prefix 4 (skipn 2 p) (k - 2)) as [A B]; [|exact Hs2|].
      { intros j Hj. rewrite nth_b_skipn. apply Hpl. exact Hj. }
      rewrite skipn_skipn' in B. cbn [Nat.add] in B. split; [lia|]. rewrite B. f_equal. lia.
    + pose proof (hex4_spec_nth_plain p 2 v Hv) as Hpl.
      destruct (qscan_plain_prefix 4 (skipn 2 p) (k - 2)) as [A B]; [|exact Hs2|].
      { intros j Hj. rewrite nth_b_skipn. apply Hpl. exact Hj. }
      rewrite skipn_skipn' in B. cbn [Nat.add] in B.
      destruct (qscan_bs (skipn 6 p) (k - 2 - 4)) as [C D]; [|exact B|].
      { rewrite nth_b_skipn. rewrite Nat.add_0_r. exact H6. }
      rewrite skipn_skipn' in D. cbn [Nat.add] in D.
      pose proof (hex4_spec_nth_plain p 8 v2 Hv2) as Hpl2.
      destruct (qscan_plain_prefix 4 (skipn 8 p) (k - 2 - 4 - 2)) as [E F]; [|exact D|].
      { intros j Hj. rewrite nth_b_skipn. apply Hpl2. exact Hj. }
      rewrite skipn_skipn' in F. cbn [Nat.add] in F. split; [lia|]. rewrite F. f_equal. lia.
  - destruct (escape_map_ref (nth_b p 1) =? 0); [discriminate|]. injection Hm as <- _.
    split; [lia|exact Hs2].
Qed.

(* one iteration keeps a closing quote ahead and comes closer to it *)
Lemma str_step_scan cur c out adv out' k :
  str_step cur c out = Cont adv out' -> qscan cur = Some k ->
  (1 <= adv <= k)%nat /\ qscan (skipn adv cur) = Some (k - adv)%nat.
Proof.
  unfold str_step. cbv zeta. intros H Hk.
  destruct (first_of cBSLASH (win32 cur)) as [bi|] eqn:Ebs;
    destruct (first_of cQUOTE (win32 cur)) as [qi|] eqn:Eq.
  - pose proof (first_of_some _ _ _ Ebs) as (Hb32 & Hbc & Hbl).
    pose proof (first_of_some _ _ _ Eq) as (Hq32 & Hqc & Hql).
    unfold cQUOTE, cBSLASH in Hbc, Hqc, Hbl, Hql.
    destruct (qi <? bi)%nat eqn:Elt; [discriminate|].
    destruct (model_esc (skipn bi cur) (esc_dist cur bi (Some qi))) as [[a o]|] eqn:Em; [|discriminate].
    injection H as <- _.
    destruct (qscan_plain_prefix bi cur k) as [A B]; [|exact Hk|].
    { intros j Hj. split; [apply Hql; lia|apply Hbl; lia]. }
    assert (Hb0 : nth_b (skipn bi cur) 0 = 92) by (rewrite nth_b_skipn, Nat.add_0_r; exact Hbc).
    destruct (model_esc_scan _ _ _ _ _ Hb0 Em B) as [C D].
    rewrite skipn_skipn' in D. split; [lia|]. rewrite D. f_equal. lia.
  - pose proof (first_of_some _ _ _ Ebs) as (Hb32 & Hbc & Hbl).
    pose proof (first_of_none _ _ Eq) as Hqn.
    unfold cQUOTE, cBSLASH in Hbc, Hbl, Hqn.
    destruct (model_esc (skipn bi cur) (esc_dist cur bi None)) as [[a o]|] eqn:Em; [|discriminate].
    injection H as <- _.
    destruct (qscan_plain_prefix bi cur k) as [A B]; [|exact Hk|].
    { intros j Hj. split; [apply Hqn; lia|apply Hbl; lia]. }
    assert (Hb0 : nth_b (skipn bi cur) 0 = 92) by (rewrite nth_b_skipn, Nat.add_0_r; exact Hbc).
    destruct (model_esc_scan _ _ _ _ _ Hb0 Em B) as [C D].
    rewrite skipn_skipn' in D. split; [lia|]. rewrite D. f_equal. lia.
  - discriminate.
  - pose proof (first_of_none _ _ Ebs) as Hbn.
    pose proof (first_of_none _ _ Eq) as Hqn.
    unfold cQUOTE, cBSLASH in Hbn, Hqn.
    injection H as <- _.
    destruct (qscan_plain_prefix 32 cur k) as [A B]; [|exact Hk|].
    { intros j Hj. split; [apply Hqn; lia|apply Hbn; lia]. }
    split; [lia|exact B].
Qed.

Theorem str_loop_closed : forall fuel cur c out k,
  qscan cur = Some k -> (k < fuel)%nat -> str_loop fuel cur c out None <> StrFuel.
Proof.
  induction fuel as [|f IH]; intros cur c out k Hk Hf; [lia|].
  rewrite str_loop_S.
  destruct (str_step cur c out) as [r|adv out'] eqn:Es.
  - apply str_step_done in Es. tauto.
  - destruct (str_step_scan _ _ _ _ _ _ Es Hk) as [A B].
    apply (IH _ _ _ _ B). lia.
Qed.

(* a successful walk stops exactly at the quote [qscan] finds *)
Lemma str_step_done_scan cur c out n d k :
  str_step cur c out = Done (StrOk n d) -> qscan cur = Some k -> n = (c + k)%nat.
Proof.
  unfold str_step. cbv zeta. intros H Hk.
  assert (Hq : forall qi, nth_b cur qi = 34 ->
             (forall j, (j < qi)%nat -> nth_b cur j <> 34 /\ nth_b cur j <> 92) -> k = qi).
  { intros qi Hqc Hpl. destruct (qscan_plain_prefix qi cur k Hpl Hk) as [A B].
    destruct (skipn qi cur) as [|b r] eqn:Es.
    { discriminate B. }
    pose proof (skipn_head_b _ _ _ _ Es) as Hb. rewrite Hqc in Hb.
    cbn [qscan] in B. unfold cQUOTE in B. replace (b2n b =? 34) with true in B by lia.
    injection B as B. lia. }
  destruct (first_of cBSLASH (win32 cur)) as [bi|] eqn:Ebs;
    destruct (first_of cQUOTE (win32 cur)) as [qi|] eqn:Eq.
  - pose proof (first_of_some _ _ _ Ebs) as (Hb32 & Hbc & Hbl).
    pose proof (first_of_some _ _ _ Eq) as (Hq32 & Hqc & Hql).
    unfold cQUOTE, cBSLASH in Hbc, Hqc, Hbl, Hql.
    destruct (qi <? bi)%nat eqn:Elt.
    + injection H as <- _. f_equal. symmetry. apply Hq; [exact Hqc|].
      intros j Hj. split; [apply Hql; lia|apply Hbl; lia].
    + destruct (model_esc (skipn bi cur) (esc_dist cur bi (Some qi))) as [[a o]|]; discriminate.
  - destruct (model_esc (skipn bi cur) (esc_dist cur bi None)) as [[a o]|]; discriminate.
  - pose proof (first_of_none _ _ Ebs) as Hbn.
    pose proof (first_of_some _ _ _ Eq) as (Hq32 & Hqc & Hql).
    unfold cQUOTE, cBSLASH in Hbn, Hqc, Hql.
    injection H as <- _. f_equal. symmetry. apply Hq; [exact Hqc|].
    intros j Hj. split; [apply Hql; lia|apply Hbn; lia].
  - discriminate.
Qed.

Theorem str_loop_stop : forall fuel cur c out k n d,
  qscan cur = Some k -> str_loop fuel cur c out None = StrOk n d -> n = (c + k)%nat.
Proof.
  induction fuel as [|f IH]; intros cur c out k n d Hk H; [discriminate|].
  rewrite str_loop_S in H.
  destruct (str_step cur c out) as [r|adv out'] eqn:Es.
  - subst r. eapply str_step_done_scan; eassumption.
  - destruct (str_step_scan _ _ _ _ _ _ Es Hk) as [A B].
    rewrite (IH _ _ _ _ _ _ B H). lia.
Qed.

(* parseString on a closed string: a value or an error, never a crash or a
   run-away read *)
Theorem parse_string_closed q0 mem idx max copy slen fuel k :
  qscan mem = Some k -> (k < fuel)%nat ->
  parse_string_model (q0 :: mem) idx max copy slen fuel <> Crash /\
  parse_string_model (q0 :: mem) idx max copy slen fuel <> OutOfFuel.
Proof.
  intros Hk Hf. unfold parse_string_model.
  destruct (str_validate mem max fuel) as [n dec| |] eqn:Ev.
  - destruct (negb (copy || negb (n =? length dec)%nat)); [split; discriminate|].
    rewrite (str_validate_copy_agree _ _ _ _ _ Ev). split; discriminate.
  - split; discriminate.
  - exfalso. unfold str_validate in Ev. exact (str_loop_closed _ _ _ _ _ Hk Hf Ev).
Qed.

Print Assumptions parse_string_closed.
