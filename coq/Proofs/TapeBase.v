(* TapeBase.v — basic facts about tape words, the fuelled abstraction
   function of Model/Tape.v (unfolding equations, fuel monotonicity) and small
   list utilities used by the tape proofs. *)
From SJ Require Import Model.Base Model.RefTables Spec.Json Model.Tape.
From Coq Require Import ZifyBool ZifyN ZifyNat.
Open Scope N_scope.

(* ------------------------------------------------------------------ *)
(* generic tactics                                                     *)

(* case-split on the scrutinee of the outermost match in hypothesis H *)
Ltac dmatch H :=
  match type of H with
  | context [match ?x with _ => _ end] =>
    let E := fresh "E" in
    revert H; destruct x eqn:E; intro H; try discriminate H
  end.

(* ------------------------------------------------------------------ *)
(* A3: tape words                                                      *)

Lemma two56_pos : 0 < two56.
Proof. reflexivity. Qed.

Lemma word_tag_mk t v : v < two56 -> word_tag (mk_word t v) = t.
Proof.
  intros Hv. unfold word_tag, mk_word.
  rewrite N.div_add_l by (intro E; discriminate E).
  rewrite N.div_small by exact Hv. apply N.add_0_r.
Qed.

Lemma word_val_mk t v : v < two56 -> word_val (mk_word t v) = v.
Proof.
  intros Hv. unfold word_val, mk_word.
  rewrite N.add_comm, N.mod_add by (intro E; discriminate E).
  apply N.mod_small. exact Hv.
Qed.

Lemma word_decomp w : w = mk_word (word_tag w) (word_val w).
Proof.
  unfold mk_word, word_tag, word_val.
  rewrite N.mul_comm. apply N.div_mod. intro E; discriminate E.
Qed.

Lemma word_val_lt w : word_val w < two56.
Proof. unfold word_val. apply N.mod_lt. intro E; discriminate E. Qed.

(* the statement asked for: t < 256 is not even needed *)
Lemma word_tag_mk' t v : t < 256 -> v < two56 -> word_tag (mk_word t v) = t.
Proof. intros _. apply word_tag_mk. Qed.

(* ------------------------------------------------------------------ *)
(* unfolding equations                                                 *)

Section Unfold.
Variables (msg strings : bytes).

Lemma skip_nops_0 i rest : skip_nops 0 i rest = None.
Proof. reflexivity. Qed.

Lemma skip_nops_S f i rest :
  skip_nops (S f) i rest =
  match rest with
  | w :: _ =>
    if word_tag w =? TagNop then
      let k := word_val w in
      if k =? 0 then None else skip_nops f (i + k) (skipn (N.to_nat k) rest)
    else Some (i, rest)
  | [] => Some (i, rest)
  end.
Proof. reflexivity. Qed.

Lemma den_value_0 i rest : den_value msg strings 0 i rest = None.
Proof. reflexivity. Qed.
Lemma den_elems_0 i rest acc : den_elems msg strings 0 i rest acc = None.
Proof. reflexivity. Qed.
Lemma den_members_0 i rest acc : den_members msg strings 0 i rest acc = None.
Proof. reflexivity. Qed.

Lemma den_value_S f i rest :
  den_value msg strings (S f) i rest =
    match rest with
    | [] => None
    | w :: r =>
      let t := word_tag w in
      let v := word_val w in
      if t =? TagString then
        match r with
        | len :: r' => match string_at msg strings v len with
                       | Some s => Some (DStr s, i + 2, r')
                       | None => None
                       end
        | [] => None
        end
      else if t =? TagInteger then
        match r with x :: r' => Some (DNum (NInt (s64 x)), i + 2, r') | [] => None end
      else if t =? TagUint then
        match r with x :: r' => Some (DNum (NUint x), i + 2, r') | [] => None end
      else if t =? TagFloat then
        match r with x :: r' => Some (DNum (NFloat x v), i + 2, r') | [] => None end
      else if t =? TagNull then Some (DNull, i + 1, r)
      else if t =? TagBoolTrue then Some (DBool true, i + 1, r)
      else if t =? TagBoolFalse then Some (DBool false, i + 1, r)
      else if t =? TagArrayStart then
        match den_elems msg strings f (i + 1) r [] with
        | Some (l, j, r') => if j =? v then Some (DArr l, j, r') else None
        | None => None
        end
      else if t =? TagObjectStart then
        match den_members msg strings f (i + 1) r [] with
        | Some (l, j, r') => if j =? v then Some (DObj l, j, r') else None
        | None => None
        end
      else None
    end.
Proof. reflexivity. Qed.

Lemma den_elems_S f i rest acc :
  den_elems msg strings (S f) i rest acc =
    match skip_nops f i rest with
    | None => None
    | Some (i', rest') =>
      match rest' with
      | [] => None
      | w :: r =>
        if word_tag w =? TagArrayEnd then Some (rev acc, i' + 1, r)
        else match den_value msg strings f i' rest' with
             | Some (d, j, r') => den_elems msg strings f j r' (d :: acc)
             | None => None
             end
      end
    end.
Proof. reflexivity. Qed.

Lemma den_members_S f i rest acc :
  den_members msg strings (S f) i rest acc =
    match skip_nops f i rest with
    | None => None
    | Some (i', rest') =>
      match rest' with
      | [] => None
      | w :: r =>
        if word_tag w =? TagObjectEnd then Some (rev acc, i' + 1, r)
        else if word_tag w =? TagString then
          match r with
          | len :: r1 =>
            match string_at msg strings (word_val w) len with
            | Some k =>
              match skip_nops f (i' + 2) r1 with
              | Some (i2, r2) =>
                match den_value msg strings f i2 r2 with
                | Some (d, j, r') => den_members msg strings f j r' ((k, d) :: acc)
                | None => None
                end
              | None => None
              end
            | None => None
            end
          | [] => None
          end
        else None
      end
    end.
Proof. reflexivity. Qed.

Lemma den_roots_0 i rest acc : den_roots msg strings 0 i rest acc = None.
Proof. reflexivity. Qed.

Lemma den_roots_S f i rest acc :
  den_roots msg strings (S f) i rest acc =
    match skip_nops f i rest with
    | None => None
    | Some (i', rest') =>
      match rest' with
      | [] => Some (rev acc)
      | w :: r =>
        if word_tag w =? TagRoot then
          match skip_nops f (i' + 1) r with
          | Some (i1, r1) =>
            match den_value msg strings f i1 r1 with
            | Some (d, j, r2) =>
              match skip_nops f j r2 with
              | Some (j', c :: r3) =>
                if (word_tag c =? TagRoot) && (word_val c =? i') && (word_val w =? j' + 1)
                then den_roots msg strings f (j' + 1) r3 (d :: acc) else None
              | _ => None
              end
            | None => None
            end
          | None => None
          end
        else None
      end
    end.
Proof. reflexivity. Qed.

(* ------------------------------------------------------------------ *)
(* A4: fuel monotonicity                                               *)

Lemma skip_nops_mono f : forall f' i rest r,
  (f <= f')%nat -> skip_nops f i rest = Some r -> skip_nops f' i rest = Some r.
Proof.
  induction f as [|f IH]; intros f' i rest r Hle H.
  - discriminate H.
  - destruct f' as [|f']; [lia|].
    rewrite skip_nops_S in *.
    destruct rest as [|w rest0]; [exact H|].
    destruct (word_tag w =? TagNop) eqn:Et; [|exact H].
    cbv zeta in *.
    destruct (word_val w =? 0) eqn:Ek; [discriminate H|].
    apply IH; [lia|exact H].
Qed.

Lemma den_mono f :
  (forall f' i rest r, (f <= f')%nat ->
     den_value msg strings f i rest = Some r -> den_value msg strings f' i rest = Some r) /\
  (forall f' i rest acc r, (f <= f')%nat ->
     den_elems msg strings f i rest acc = Some r -> den_elems msg strings f' i rest acc = Some r) /\
  (forall f' i rest acc r, (f <= f')%nat ->
     den_members msg strings f i rest acc = Some r -> den_members msg strings f' i rest acc = Some r).
Proof.
  induction f as [|f (IHv & IHe & IHm)].
  - repeat split; intros; discriminate.
  - repeat split.
    + intros f' i rest r Hle H. destruct f' as [|f']; [lia|].
      assert (Hle' : (f <= f')%nat) by lia.
      rewrite den_value_S in *. cbv zeta in *.
      destruct rest as [|w r0]; [discriminate H|].
      repeat (match goal with |- context [if ?c then _ else _] => destruct c eqn:?; [exact H|] end).
      destruct (word_tag w =? TagArrayStart) eqn:Ea.
      { dmatch H. apply IHe with (f' := f') in E; [|exact Hle']. rewrite E. exact H. }
      destruct (word_tag w =? TagObjectStart) eqn:Eo; [|exact H].
      dmatch H. apply IHm with (f' := f') in E; [|exact Hle']. rewrite E. exact H.
    + intros f' i rest acc r Hle H. destruct f' as [|f']; [lia|].
      assert (Hle' : (f <= f')%nat) by lia.
      rewrite den_elems_S in *.
      dmatch H. apply skip_nops_mono with (f' := f') in E; [|exact Hle']. rewrite E.
      destruct p as [i' rest']. destruct rest' as [|w r0]; [discriminate H|].
      destruct (word_tag w =? TagArrayEnd) eqn:Ee; [exact H|].
      dmatch H. apply IHv with (f' := f') in E0; [|exact Hle']. rewrite E0.
      destruct p as [[d j] r']. apply IHe; [exact Hle'|exact H].
    + intros f' i rest acc r Hle H. destruct f' as [|f']; [lia|].
      assert (Hle' : (f <= f')%nat) by lia.
      rewrite den_members_S in *.
      dmatch H. apply skip_nops_mono with (f' := f') in E; [|exact Hle']. rewrite E.
      destruct p as [i' rest']. destruct rest' as [|w r0]; [discriminate H|].
      destruct (word_tag w =? TagObjectEnd) eqn:Ee; [exact H|].
      destruct (word_tag w =? TagString) eqn:Es; [|discriminate H].
      destruct r0 as [|len r1]; [discriminate H|].
      destruct (string_at msg strings (word_val w) len) as [k|] eqn:Ek; [|discriminate H].
      dmatch H. apply skip_nops_mono with (f' := f') in E0; [|exact Hle']. rewrite E0.
      destruct p as [i2 r2].
      dmatch H. apply IHv with (f' := f') in E1; [|exact Hle']. rewrite E1.
      destruct p as [[d j] r']. apply IHm; [exact Hle'|exact H].
Qed.

Lemma den_value_mono f f' i rest r : (f <= f')%nat ->
  den_value msg strings f i rest = Some r -> den_value msg strings f' i rest = Some r.
Proof. intros. eapply (proj1 (den_mono f)); eauto. Qed.
Lemma den_elems_mono f f' i rest acc r : (f <= f')%nat ->
  den_elems msg strings f i rest acc = Some r -> den_elems msg strings f' i rest acc = Some r.
Proof. intros. eapply (proj1 (proj2 (den_mono f))); eauto. Qed.
Lemma den_members_mono f f' i rest acc r : (f <= f')%nat ->
  den_members msg strings f i rest acc = Some r -> den_members msg strings f' i rest acc = Some r.
Proof. intros. eapply (proj2 (proj2 (den_mono f))); eauto. Qed.

Lemma den_roots_mono f : forall f' i rest acc r, (f <= f')%nat ->
  den_roots msg strings f i rest acc = Some r -> den_roots msg strings f' i rest acc = Some r.
Proof.
  induction f as [|f IH]; intros f' i rest acc r Hle H; [discriminate H|].
  destruct f' as [|f']; [lia|].
  assert (Hle' : (f <= f')%nat) by lia.
  rewrite den_roots_S in *.
  dmatch H. apply skip_nops_mono with (f' := f') in E; [|exact Hle']. rewrite E.
  destruct p as [i' rest']. destruct rest' as [|w r0]; [exact H|].
  destruct (word_tag w =? TagRoot) eqn:Er; [|discriminate H].
  dmatch H. apply skip_nops_mono with (f' := f') in E0; [|exact Hle']. rewrite E0.
  destruct p as [i1 r1].
  dmatch H. apply den_value_mono with (f' := f') in E1; [|exact Hle']. rewrite E1.
  destruct p as [[d j] r2].
  dmatch H. apply skip_nops_mono with (f' := f') in E2; [|exact Hle']. rewrite E2.
  destruct p as [j' l3]. destruct l3 as [|c r3]; [discriminate H|].
  destruct ((word_tag c =? TagRoot) && (word_val c =? i') && (word_val w =? j' + 1)) eqn:Ec; [|discriminate H].
  apply IH; [exact Hle'|exact H].
Qed.

End Unfold.
