(* DeserSafe.v — Deserialize never panics and never runs out of fuel on the
   model (property C19): [deser_core] and [deser_blob] return a tape or an
   error for every input. *)
From Coq Require Import ZifyBool ZifyN ZifyNat.
From SJ Require Import Model.Base Model.RefTables Model.Iter Model.Serialize.
Open Scope N_scope.

(* ------------------------------------------------------------------ *)
(* tape writes preserve the length                                     *)

Lemma upd_nth_length {A} (f : A -> A) : forall (l : list A) i, length (upd_nth i f l) = length l.
Proof.
  induction l as [|x l IH]; intros [|i]; cbn [upd_nth length]; try reflexivity.
  rewrite IH. reflexivity.
Qed.

Lemma tape_set_length t i w : length (tape_set t i w) = length t.
Proof. unfold tape_set. apply upd_nth_length. Qed.

Lemma flush_nops_S k t off n :
  flush_nops (S k) t off n =
  if n =? 0 then (t, off) else flush_nops k (tape_set t off (mk_word TagNop n)) (off + 1) (n - 1).
Proof. reflexivity. Qed.

Lemma flush_nops_length : forall k t off n, length (fst (flush_nops k t off n)) = length t.
Proof.
  induction k as [|k IH]; intros t off n.
  - reflexivity.
  - rewrite flush_nops_S. destruct (n =? 0) eqn:E; [reflexivity|].
    rewrite IH. apply tape_set_length.
Qed.

Lemma flush_nops_off : forall k t off n, N.of_nat k = n -> snd (flush_nops k t off n) = off + n.
Proof.
  induction k as [|k IH]; intros t off n Hk.
  - cbn [flush_nops snd]. lia.
  - rewrite flush_nops_S. destruct (n =? 0) eqn:E; [lia|].
    rewrite IH by lia. lia.
Qed.

(* ------------------------------------------------------------------ *)
(* the loop                                                            *)

Definition dinv (st : de_st) : Prop := d_off st <= N.of_nat (length (d_tape st)).

Definition safe_out (n : nat) (o : outcome de_st) : Prop :=
  match o with
  | Ok st' => dinv st' /\ length (d_tape st') = n
  | Err => True
  | Crash => False
  | OutOfFuel => False
  end.

Lemma take_val_tape st v st1 : take_val st = Some (v, st1) ->
  d_tape st1 = d_tape st /\ d_off st1 = d_off st /\ d_skips st1 = d_skips st.
Proof.
  unfold take_val. destruct (d_vrem st <? 8); [discriminate|].
  destruct (d_vals st); [discriminate|]. intros H. injection H as _ <-. cbn. auto.
Qed.

Lemma deser_loop_S f tb tr st :
  deser_loop (S f) (tb :: tr) st =
      let len := N.of_nat (length (d_tape st)) in
      if d_off st =? len then Err
      else
        let t := b2n tb in
        let flushed : option de_st :=
          if (0 <? d_skips st) && negb (t =? TagNop) then
            if len - d_off st <? d_skips st then None
            else
              let '(tp, off') := flush_nops (N.to_nat (d_skips st)) (d_tape st) (d_off st) (d_skips st) in
              if off' =? len then None
              else Some {| d_tape := tp; d_off := off'; d_vals := d_vals st; d_vrem := d_vrem st; d_skips := 0 |}
          else Some st in
        match flushed with
        | None => Err
        | Some st =>
          let off := d_off st in
          let tagDst := mk_word t 0 in
          if t =? TagNop then
            deser_loop f tr {| d_tape := d_tape st; d_off := off; d_vals := d_vals st; d_vrem := d_vrem st; d_skips := d_skips st + 1 |}
          else if t =? TagString then
            if d_vrem st <? 16 then Err
            else if len <=? off + 1 then Err
            else match take_val st with
                 | Some (so, st1) =>
                   match take_val st1 with
                   | Some (sl, st2) =>
                     if JSONVALUEMASK <? so then Err
                     else deser_loop f tr (set_tape_off st2 (tape_set (tape_set (d_tape st2) off (N.lor tagDst so)) (off + 1) sl) (off + 2))
                   | None => Err
                   end
                 | None => Err
                 end
          else if (t =? TagFloat) || (t =? TagInteger) || (t =? TagUint) then
            if d_vrem st <? 8 then Err
            else if len <=? off + 1 then Err
            else match take_val st with
                 | Some (v, st1) => deser_loop f tr (set_tape_off st1 (tape_set (tape_set (d_tape st1) off tagDst) (off + 1) v) (off + 2))
                 | None => Err
                 end
          else if t =? tagFloatWithFlag then
            if d_vrem st <? 16 then Err
            else if len <=? off + 1 then Err
            else match take_val st with
                 | Some (w0, st1) =>
                   match take_val st1 with
                   | Some (w1, st2) =>
                     if negb (w0 / two56 =? TagFloat) then Err
                     else deser_loop f tr (set_tape_off st2 (tape_set (tape_set (d_tape st2) off w0) (off + 1) w1) (off + 2))
                   | None => Err
                   end
                 | None => Err
                 end
          else if (t =? TagNull) || (t =? TagBoolTrue) || (t =? TagBoolFalse) || (t =? TagEnd) then
            deser_loop f tr (set_tape_off st (tape_set (d_tape st) off tagDst) (off + 1))
          else if (t =? TagObjectStart) || (t =? TagArrayStart) then
            match take_val st with
            | Some (v, st1) =>
              let val := w64 (v + off) in
              if (len <? val) || (val <=? off) then Err
              else
                let tp := tape_set (d_tape st1) off (N.lor tagDst val) in
                let tp2 := tape_set tp (val - 1) (N.lor (mk_word (tagOpenToClose_ref t) 0) off) in
                deser_loop f tr (set_tape_off st1 tp2 (off + 1))
            | None => Err
            end
          else if t =? TagRoot then
            match take_val st with
            | Some (v, st1) =>
              let val := w64 (v + off) in
              if len <? val then Err
              else deser_loop f tr (set_tape_off st1 (tape_set (d_tape st1) off (N.lor tagDst val)) (off + 1))
            | None => Err
            end
          else if (t =? TagObjectEnd) || (t =? TagArrayEnd) then
            match nth_error (d_tape st) (N.to_nat off) with
            | Some w => if (w / two56) =? t then deser_loop f tr (set_tape_off st (d_tape st) (off + 1)) else Err
            | None => Crash
            end
          else Err
        end.
Proof. reflexivity. Qed.

(* the flush step, as a function *)
Definition do_flush (t : N) (st : de_st) : option de_st :=
  let len := N.of_nat (length (d_tape st)) in
  if (0 <? d_skips st) && negb (t =? TagNop) then
    if len - d_off st <? d_skips st then None
    else
      let '(tp, off') := flush_nops (N.to_nat (d_skips st)) (d_tape st) (d_off st) (d_skips st) in
      if off' =? len then None
      else Some {| d_tape := tp; d_off := off'; d_vals := d_vals st; d_vrem := d_vrem st; d_skips := 0 |}
  else Some st.

Lemma do_flush_safe t st st1 :
  d_off st < N.of_nat (length (d_tape st)) -> do_flush t st = Some st1 ->
  length (d_tape st1) = length (d_tape st) /\ d_off st1 < N.of_nat (length (d_tape st1)).
Proof.
  intros Hoff. unfold do_flush.
  destruct ((0 <? d_skips st) && negb (t =? TagNop)) eqn:Ec.
  2:{ intros H. injection H as <-. auto. }
  destruct (N.of_nat (length (d_tape st)) - d_off st <? d_skips st) eqn:Eb; [discriminate|].
  pose proof (flush_nops_length (N.to_nat (d_skips st)) (d_tape st) (d_off st) (d_skips st)) as Hl.
  pose proof (flush_nops_off (N.to_nat (d_skips st)) (d_tape st) (d_off st) (d_skips st) (N2Nat.id _)) as Ho.
  destruct (flush_nops (N.to_nat (d_skips st)) (d_tape st) (d_off st) (d_skips st)) as [tp off'].
  cbn [fst snd] in Hl, Ho.
  destruct (off' =? N.of_nat (length (d_tape st))) eqn:Ee; [discriminate|].
  intros H. injection H as <-. cbn [d_tape d_off]. rewrite Hl. split; [reflexivity|]. lia.
Qed.

Ltac safe_step IH Hf Hl1 Ho1 :=
  match goal with
  | |- safe_out ?n (deser_loop _ _ ?s) =>
    replace n with (length (d_tape s));
    [ apply IH; [ cbn [length] in Hf; lia
                | unfold dinv, set_tape_off; cbn [d_tape d_off]; rewrite ?tape_set_length;
                  repeat match goal with H : d_tape _ = d_tape _ |- _ => rewrite H end; lia ]
    | unfold set_tape_off; cbn [d_tape]; rewrite ?tape_set_length; congruence ]
  end.

Lemma deser_loop_safe : forall f tags st, (length tags < f)%nat -> dinv st ->
  safe_out (length (d_tape st)) (deser_loop f tags st).
Proof.
  induction f as [|f IH]; intros tags st Hf Hinv; [lia|].
  destruct tags as [|tb tr].
  { cbn [deser_loop safe_out]. auto. }
  rewrite deser_loop_S. cbv zeta.
  destruct (d_off st =? N.of_nat (length (d_tape st))) eqn:Eoff; [exact I|].
  fold (do_flush (b2n tb) st).
  destruct (do_flush (b2n tb) st) as [st1|] eqn:Efl; [|exact I].
  assert (Hlt : d_off st < N.of_nat (length (d_tape st))) by (unfold dinv in Hinv; lia).
  destruct (do_flush_safe _ _ _ Hlt Efl) as [Hl1 Ho1].
  rewrite <- Hl1.
  set (t := b2n tb).
  destruct (t =? TagNop) eqn:E1.
  { safe_step IH Hf Hl1 Ho1. }
  destruct (t =? TagString) eqn:E2.
  { destruct (d_vrem st1 <? 16) eqn:?; [exact I|].
    destruct (N.of_nat (length (d_tape st1)) <=? d_off st1 + 1) eqn:Hle; [exact I|].
    destruct (take_val st1) as [[so st2]|] eqn:Et1; [|exact I].
    destruct (take_val st2) as [[sl st3]|] eqn:Et2; [|exact I].
    destruct (take_val_tape _ _ _ Et1) as (A1 & A2 & A3).
    destruct (take_val_tape _ _ _ Et2) as (B1 & B2 & B3).
    destruct (JSONVALUEMASK <? so) eqn:?; [exact I|].
    safe_step IH Hf Hl1 Ho1. }
  destruct ((t =? TagFloat) || (t =? TagInteger) || (t =? TagUint)) eqn:E3.
  { destruct (d_vrem st1 <? 8) eqn:?; [exact I|].
    destruct (N.of_nat (length (d_tape st1)) <=? d_off st1 + 1) eqn:Hle; [exact I|].
    destruct (take_val st1) as [[so st2]|] eqn:Et1; [|exact I].
    destruct (take_val_tape _ _ _ Et1) as (A1 & A2 & A3).
    safe_step IH Hf Hl1 Ho1. }
  destruct (t =? tagFloatWithFlag) eqn:E4.
  { destruct (d_vrem st1 <? 16) eqn:?; [exact I|].
    destruct (N.of_nat (length (d_tape st1)) <=? d_off st1 + 1) eqn:Hle; [exact I|].
    destruct (take_val st1) as [[so st2]|] eqn:Et1; [|exact I].
    destruct (take_val st2) as [[sl st3]|] eqn:Et2; [|exact I].
    destruct (take_val_tape _ _ _ Et1) as (A1 & A2 & A3).
    destruct (take_val_tape _ _ _ Et2) as (B1 & B2 & B3).
    destruct (negb (so / two56 =? TagFloat)) eqn:?; [exact I|].
    safe_step IH Hf Hl1 Ho1. }
  destruct ((t =? TagNull) || (t =? TagBoolTrue) || (t =? TagBoolFalse) || (t =? TagEnd)) eqn:E5.
  { safe_step IH Hf Hl1 Ho1. }
  destruct ((t =? TagObjectStart) || (t =? TagArrayStart)) eqn:E6.
  { destruct (take_val st1) as [[so st2]|] eqn:Et1; [|exact I].
    destruct (take_val_tape _ _ _ Et1) as (A1 & A2 & A3).
    destruct ((N.of_nat (length (d_tape st1)) <? w64 (so + d_off st1)) || (w64 (so + d_off st1) <=? d_off st1)) eqn:?; [exact I|].
    safe_step IH Hf Hl1 Ho1. }
  destruct (t =? TagRoot) eqn:E7.
  { destruct (take_val st1) as [[so st2]|] eqn:Et1; [|exact I].
    destruct (take_val_tape _ _ _ Et1) as (A1 & A2 & A3).
    destruct (N.of_nat (length (d_tape st1)) <? w64 (so + d_off st1)) eqn:?; [exact I|].
    safe_step IH Hf Hl1 Ho1. }
  destruct ((t =? TagObjectEnd) || (t =? TagArrayEnd)) eqn:E8; [|exact I].
  destruct (nth_error (d_tape st1) (N.to_nat (d_off st1))) as [w|] eqn:En.
  { destruct (w / two56 =? t) eqn:?; [|exact I].
    safe_step IH Hf Hl1 Ho1. }
  apply nth_error_None in En. lia.
Qed.

(* ------------------------------------------------------------------ *)
(* deser_core                                                          *)

Theorem deser_core_no_crash : forall init tags vals,
  deser_core init tags vals <> Crash /\ deser_core init tags vals <> OutOfFuel.
Proof.
  intros init tags vals. unfold deser_core.
  match goal with |- context [deser_loop ?f ?tg ?s] =>
    pose proof (deser_loop_safe f tg s) as H; destruct (deser_loop f tg s) as [st| | |] end.
  - destruct (0 <? d_skips st).
    + destruct (N.of_nat (length (d_tape st)) - d_off st <? d_skips st); [split; discriminate|].
      destruct (flush_nops _ _ _ _) as [tp off].
      destruct (negb (off =? N.of_nat (length (d_tape st)))); [split; discriminate|].
      destruct (0 <? d_vrem st); split; discriminate.
    + destruct (negb (d_off st =? N.of_nat (length (d_tape st)))); [split; discriminate|].
      destruct (0 <? d_vrem st); split; discriminate.
  - split; discriminate.
  - exfalso. apply H; [lia|]. unfold dinv. cbn [d_off]. lia.
  - exfalso. apply H; [lia|]. unfold dinv. cbn [d_off]. lia.
Qed.

Theorem deser_core_length : forall init tags vals t,
  deser_core init tags vals = Ok t -> length t = length init.
Proof.
  intros init tags vals t. unfold deser_core.
  match goal with |- context [deser_loop ?f ?tg ?s] =>
    pose proof (deser_loop_safe f tg s) as H; destruct (deser_loop f tg s) as [st| | |] end;
    try discriminate.
  assert (Hs : dinv st /\ length (d_tape st) = length init).
  { apply H; [lia|]. unfold dinv. cbn [d_off]. lia. }
  destruct Hs as [_ Hl]. clear H.
  destruct (0 <? d_skips st).
  - destruct (N.of_nat (length (d_tape st)) - d_off st <? d_skips st); [discriminate|].
    pose proof (flush_nops_length (N.to_nat (d_skips st)) (d_tape st) (d_off st) (d_skips st)) as Hfl.
    destruct (flush_nops _ _ _ _) as [tp off]. cbn [fst] in Hfl.
    destruct (negb (off =? N.of_nat (length (d_tape st)))); [discriminate|].
    destruct (0 <? d_vrem st); [discriminate|].
    intros E. injection E as <-. congruence.
  - destruct (negb (d_off st =? N.of_nat (length (d_tape st)))); [discriminate|].
    destruct (0 <? d_vrem st); [discriminate|].
    intros E. injection E as <-. exact Hl.
Qed.

(* ------------------------------------------------------------------ *)
(* deser_blob                                                          *)

Theorem deser_blob_no_crash : forall src, deser_blob src <> DCrash /\ deser_blob src <> DFuel.
Proof.
  intros src. unfold deser_blob.
  repeat match goal with
  | |- context [deser_core ?a ?b ?c] =>
    let H := fresh "H" in
    pose proof (deser_core_no_crash a b c) as H;
    destruct (deser_core a b c); [split; discriminate|split; discriminate|exfalso; apply (proj1 H); reflexivity|exfalso; apply (proj2 H); reflexivity]
  | |- context [match ?x with _ => _ end] => destruct x; try (split; discriminate)
  end.
Qed.

Print Assumptions deser_core_no_crash.
Print Assumptions deser_core_length.
Print Assumptions deser_blob_no_crash.
