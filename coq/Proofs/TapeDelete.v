(* TapeDelete.v — Array.DeleteElems / Object.DeleteElems refine the abstract
   deletions (goal D / C14). *)
From SJ Require Import Model.Base Model.RefTables Spec.Json Spec.EditSpec Model.Tape
     Model.Iter Model.Walk Model.Edit.
From SJ Require Import Proofs.TapeBase Proofs.TapeSeg Proofs.TapeDen Proofs.TapePath
     Proofs.TapeEdit Proofs.TapeIter.
From Coq Require Import ZifyBool ZifyN ZifyNat.
Open Scope N_scope.

Lemma with_tape_twice pj a b : with_tape (with_tape pj a) b = with_tape pj b.
Proof. reflexivity. Qed.

Lemma nlen_nop_fill n : nlen (nop_fill n) = N.of_nat n.
Proof. unfold nlen. now rewrite nop_fill_length. Qed.

Lemma abs_del_elems_nil l : abs_del_elems l [] = l.
Proof. destruct l; reflexivity. Qed.

Section AdvanceEnd.
Variables (strict : bool).

Lemma advance_end pj it n e pre X :
  nops_seg strict n -> pj_tape pj = pre ++ n ++ e :: X ->
  (word_tag e = TagArrayEnd \/ word_tag e = TagObjectEnd) ->
  (i_off it + i_add it)%Z = Z.of_nat (length pre) ->
  (Z.of_nat (length pre) + Z.of_nat (length n) < i_len it)%Z ->
  exists it', advance pj it = Ok (it', TypeNone).
Proof.
  intros Hn Ht He Hoff Hlen.
  assert (Hw : word_tag e <> TagNop) by (destruct He as [-> | ->]; discriminate).
  rewrite (advance_at strict pj it n e pre X Hn Ht Hw Hoff Hlen).
  cbv zeta. unfold land, with_calc, set_i, calc_next. cbn [i_add i_off i_cur i_t].
  destruct He as [-> | ->]; eexists; reflexivity.
Qed.

End AdvanceEnd.

Section ArrDelete.
Variables (msg strings : bytes) (strict adj : bool).
Notation val_seg := (val_seg msg strings strict adj).
Notation items := (items msg strings strict adj).
Notation nops_seg := (nops_seg strict).

Lemma arr_delete_loop_spec : forall l body pre, items (nlen pre) body l ->
  forall pj it e post decide ncb f,
  pj_tape pj = pre ++ body ++ e :: post -> word_tag e = TagArrayEnd ->
  (i_off it + i_add it)%Z = Z.of_nat (length pre) ->
  i_len it = Z.of_nat (length pre + length body + 1) ->
  (length l < f)%nat -> nlen pre + nlen body < two56 ->
  exists body', length body' = length body /\ items (nlen pre) body' (abs_del_elems l decide) /\
    arr_delete_loop f pj it decide ncb =
      Ok (with_tape pj (pre ++ body' ++ e :: post), (ncb + length l)%nat).
Proof.
  induction l as [|d l IH]; intros body pre Hit pj it e post decide ncb f Ht He Hoff Hlen Hf Hb;
    apply items_front in Hit.
  - (* no more elements *)
    destruct f as [|f]; [lia|]. cbn [arr_delete_loop].
    destruct (advance_end strict pj it body e pre post Hit Ht (or_introl He) Hoff ltac:(lia)) as (it' & ->).
    cbn [obind]. change (t_is TypeNone TypeNone) with true. cbv iota.
    exists body. split; [reflexivity|]. split.
    + cbn [abs_del_elems]. rewrite <- (app_nil_r body). apply nops_items; [exact Hit|constructor].
    + cbn [length]. rewrite Nat.add_0_r. destruct pj as [t s m]. cbn in Ht. subst t. reflexivity.
  - destruct Hit as (n & v & rest & -> & Hn & Hv & Hrest).
    destruct f as [|f]; [lia|]. cbn [arr_delete_loop].
    destruct (val_seg_head _ _ _ _ _ _ _ Hv) as (w & r & -> & Htag).
    rewrite <- !app_assoc in Ht.
    destruct (advance_value msg strings strict adj pj it n w r d pre (rest ++ e :: post) Hn Ht Hv Hoff)
      as (Hadv & Hon & Hadd & Hl' & Hty).
    { rewrite Hlen. rewrite !app_length. lia. }
    rewrite Hadv. cbn [obind].
    set (it' := land it (Z.of_nat (length pre) + Z.of_nat (length n) + 1) w) in *.
    replace (t_is (TagToType_ref (word_tag w)) TypeNone) with false
      by (symmetry; apply N.eqb_neq; exact Hty).
    cbv iota.
    destruct Hon as (Hoff' & _ & _).
    assert (Hrest' : items (nlen (pre ++ n ++ w :: r)) rest l).
    { eapply items_idx; [|exact Hrest]. nl. }
    assert (keep : forall dec',
      exists body', length body' = length (n ++ (w :: r) ++ rest) /\
        items (nlen pre) body' (d :: abs_del_elems l dec') /\
        arr_delete_loop f pj it' dec' (S ncb) =
          Ok (with_tape pj (pre ++ body' ++ e :: post), (ncb + length (d :: l))%nat)).
    { intros dec'.
      destruct (IH rest (pre ++ n ++ w :: r) Hrest' pj it' e post dec' (S ncb) f) as (b' & Hl & Hi & E).
      - rewrite Ht. leq.
      - exact He.
      - rewrite Hoff', Hadd. rewrite !app_length. cbn [length]. nl.
      - rewrite Hl', Hlen. rewrite !app_length. cbn [length]. lia.
      - cbn [length] in Hf. lia.
      - revert Hb. nl.
      - exists (n ++ (w :: r) ++ b'). split; [rewrite !app_length; cbn [length]; lia|]. split.
        + apply nops_items; [exact Hn|]. apply it_val; [exact Hv|].
          eapply items_idx; [|exact Hi]. nl.
        + rewrite E. f_equal. f_equal; [|cbn [length]; lia]. f_equal. leq. }
    destruct decide as [|[|] dec'].
    + (* callbacks exhausted: keep *)
      destruct (keep []) as (b' & Hl & Hi & E). exists b'. split; [exact Hl|]. split; [|exact E].
      rewrite abs_del_elems_nil in Hi. cbn [abs_del_elems]. exact Hi.
    + (* delete this element *)
      rewrite (delete_span_app (w :: r) (pre ++ n) (rest ++ e :: post) pj (i_len it')
                 (i_off it' - 1) (i_off it' + i_add it')).
      2:{ rewrite Ht. leq. }
      2:{ rewrite Hoff'. rewrite app_length. nl. }
      2:{ rewrite Hoff', Hadd. cbn [length]. lia. }
      2:{ rewrite Hoff', Hadd, Hl', Hlen. rewrite !app_length. cbn [length]. nl. }
      cbn [obind].
      assert (Hfill : N.of_nat (length (w :: r)) < two56) by (revert Hb; nl).
      assert (Hrest2 : items (nlen ((pre ++ n) ++ nop_fill (length (w :: r)))) rest l).
      { eapply items_idx; [|exact Hrest]. rewrite !nlen_app, nlen_nop_fill. nl. }
      destruct (IH rest ((pre ++ n) ++ nop_fill (length (w :: r))) Hrest2
                  (with_tape pj ((pre ++ n) ++ nop_fill (length (w :: r)) ++ rest ++ e :: post))
                  it' e post dec' (S ncb) f) as (b' & Hl & Hi & E).
      * cbn [with_tape pj_tape]. leq.
      * exact He.
      * rewrite Hoff', Hadd. rewrite !app_length, nop_fill_length. cbn [length]. nl.
      * rewrite Hl', Hlen. rewrite !app_length, nop_fill_length. cbn [length]. lia.
      * cbn [length] in Hf. lia.
      * revert Hb. rewrite !nlen_app, nlen_nop_fill. nl.
      * exists (n ++ nop_fill (length (w :: r)) ++ b'). split.
        { rewrite !app_length, nop_fill_length. cbn [length]. lia. }
        split.
        { cbn [abs_del_elems]. apply nops_items; [exact Hn|].
          apply nops_items; [apply nop_fill_nops_seg; exact Hfill|].
          eapply items_idx; [|exact Hi]. rewrite !nlen_app, nlen_nop_fill. nl. }
        rewrite E. rewrite with_tape_twice. f_equal. f_equal; [|cbn [length]; lia]. f_equal. leq.
    + (* keep this element *)
      destruct (keep dec') as (b' & Hl & Hi & E). exists b'. split; [exact Hl|]. split; [|exact E].
      cbn [abs_del_elems]. exact Hi.
Qed.

End ArrDelete.

Section Lengths.
Variables (msg strings : bytes) (strict adj : bool).

Lemma seg_lengths :
  (forall i v d, val_seg msg strings strict adj i v d -> True) /\
  (forall i b l, items msg strings strict adj i b l -> (length l <= length b)%nat) /\
  (forall i b l, mitems msg strings strict adj i b l -> (length l <= length b)%nat).
Proof.
  apply seg_mutind; intros; auto; cbn [length] in *; rewrite ?app_length; cbn [length];
    rewrite ?app_length; try lia;
    match goal with H : val_seg _ _ _ _ _ _ _ |- _ =>
      pose proof (val_seg_nonempty _ _ _ _ _ _ _ H); lia end.
Qed.

End Lengths.

Section ArrDeleteTop.
Variables (strict adj : bool).
Notation vseg pj := (val_seg (pj_msg pj) (pj_strings pj) strict adj).
Notation ipath pj := (index_path (pj_msg pj) (pj_strings pj) strict adj).
Notation rseg pj := (roots_seg (pj_msg pj) (pj_strings pj) strict adj).
Notation den pj := (denote (pj_msg pj) (pj_strings pj) (pj_tape pj)).

Lemma iter_array_on pj it k sub l :
  iter_on it k sub -> vseg pj k sub (DArr l) ->
  iter_array it = Ok {| c_len := Z.of_N k + Z.of_nat (length sub); c_off := Z.of_N k + 1 |}.
Proof.
  intros (Hoff & Hlen & w & r & -> & Hit & Hcur) Hv.
  destruct (val_seg_kind _ _ _ _ _ _ _ _ Hv) as (_ & _ & _ & _ & _ & Kc). specialize (Kc eq_refl).
  inversion Hv; subst. unfold iter_array. rewrite Hit.
  match goal with H : word_tag w = TagArrayStart |- _ => rewrite H end.
  change (negb (TagArrayStart =? TagArrayStart)) with false. cbv iota.
  rewrite Hcur, Kc.
  replace (i_len it <? Z.of_N (k + nlen (w :: body ++ [e])))%Z with false by (revert Hlen; nl).
  rewrite Hoff. f_equal. f_equal. nl.
Qed.

(* Array.DeleteElems on the array at path p: one callback per live element, in
   order; the result denotes the document with abs_delete_arr applied there *)
Theorem arr_delete_refines pj a decide pre sub post p ds l :
  pj_tape pj = pre ++ sub ++ post -> vseg pj (nlen pre) sub (DArr l) ->
  ipath pj (pj_tape pj) (nlen pre) p -> den pj = Some ds ->
  c_off a = (Z.of_N (nlen pre) + 1)%Z ->
  c_len a = (Z.of_N (nlen pre) + Z.of_nat (length sub))%Z ->
  exists sub2,
    arr_delete pj a decide = Ok (with_tape pj (pre ++ sub2 ++ post), length l) /\
    length sub2 = length sub /\
    vseg pj (nlen pre) sub2 (DArr (abs_del_elems l decide)) /\
    denote (pj_msg pj) (pj_strings pj) (pre ++ sub2 ++ post) = upd_docs p (abs_delete_arr decide) ds /\
    exists ds2, upd_docs p (abs_delete_arr decide) ds = Some ds2 /\
                rseg pj 0 (pre ++ sub2 ++ post) ds2.
Proof.
  intros Ht Hv Hip Hden Hoff Hlen.
  inversion Hv; subst.
  match goal with H : items _ _ _ _ _ body l |- _ => rename H into Hit end.
  match goal with H : word_val w = _ |- _ => rename H into Hwv end.
  assert (Hit' : items (pj_msg pj) (pj_strings pj) strict adj (nlen (pre ++ [w])) body l).
  { eapply items_idx; [|exact Hit]. nl. }
  destruct (arr_delete_loop_spec _ _ strict adj l body (pre ++ [w]) Hit' pj (cont_iter a) e post decide 0
              (cont_fuel a)) as (body' & Hl & Hi & E).
  - rewrite Ht. leq.
  - assumption.
  - cbn [cont_iter i_off i_add]. rewrite Hoff, app_length. cbn [length]. nl.
  - cbn [cont_iter i_len]. rewrite Hlen. rewrite !app_length. cbn [length]. rewrite app_length. cbn [length]. nl.
  - pose proof (proj1 (proj2 (seg_lengths _ _ _ _)) _ _ _ Hit) as Hll.
    unfold cont_fuel. rewrite Hlen. cbn [length]. rewrite app_length. lia.
  - pose proof (word_val_lt w) as Hlt. rewrite Hwv in Hlt. revert Hlt. nl.
  - exists (w :: body' ++ [e]).
    assert (Hv2 : vseg pj (nlen pre) (w :: body' ++ [e]) (DArr (abs_del_elems l decide))).
    { apply vs_arr; auto.
      - eapply items_idx; [|exact Hi]. nl.
      - rewrite Hwv. revert Hl. nl. }
    split.
    { unfold arr_delete. rewrite E. f_equal. f_equal. f_equal. leq. }
    split; [cbn [length]; rewrite !app_length; cbn [length]; lia|].
    split; [exact Hv2|].
    rewrite Ht in Hden, Hip.
    apply (refine_core strict adj _ _ pre (w :: body ++ [e]) post p ds (DArr l)
             (w :: body' ++ [e]) (DArr (abs_del_elems l decide)) (abs_delete_arr decide) Hden Hip Hv);
      [|reflexivity].
    exists (w :: body' ++ [e]), []. rewrite app_nil_r. repeat split; auto; [constructor|].
    cbn [length]. rewrite !app_length. cbn [length]. lia.
Qed.

End ArrDeleteTop.

(* ------------------------------------------------------------------ *)
(* strings through the Go accessor                                     *)

Lemma string_byte_at_ok pj payload len s :
  string_at (pj_msg pj) (pj_strings pj) payload len = Some s ->
  N.of_nat (length (pj_msg pj)) < two64 -> N.of_nat (length (pj_strings pj)) < two64 ->
  string_byte_at pj payload len = Ok s.
Proof.
  unfold string_at, string_byte_at, slice. intros H Hm Hs.
  destruct (N.land payload STRINGBUFBIT =? 0).
  - destruct (payload + len <=? N.of_nat (length (pj_msg pj))) eqn:E; [|discriminate H].
    injection H as <-.
    replace (N.of_nat (length (pj_msg pj)) <? len) with false by lia.
    replace (N.of_nat (length (pj_msg pj)) - len <? payload) with false by lia.
    reflexivity.
  - destruct (N.land payload STRINGBUFMASK + len <=? N.of_nat (length (pj_strings pj))) eqn:E;
      [|discriminate H].
    injection H as <-.
    replace (N.of_nat (length (pj_strings pj)) <? len) with false by lia.
    replace (N.of_nat (length (pj_strings pj)) - len <? N.land payload STRINGBUFMASK) with false by lia.
    reflexivity.
Qed.

Section ObjDelete.
Variables (msg strings : bytes) (strict adj : bool).
Notation val_seg := (val_seg msg strings strict adj).
Notation mitems := (mitems msg strings strict adj).
Notation nops_seg := (nops_seg strict).

(* the two Advance calls and the name lookup made for one member *)
Lemma obj_member_step pj tmp pre n w len k n2 wv rv d X :
  pj_msg pj = msg -> pj_strings pj = strings ->
  N.of_nat (length msg) < two64 -> N.of_nat (length strings) < two64 ->
  pj_tape pj = pre ++ n ++ w :: len :: n2 ++ (wv :: rv) ++ X ->
  nops_seg n -> word_tag w = TagString -> string_at msg strings (word_val w) len = Some k ->
  nops_seg n2 -> val_seg (nlen pre + nlen n + 2 + nlen n2) (wv :: rv) d ->
  (i_off tmp + i_add tmp)%Z = Z.of_nat (length pre) ->
  (Z.of_nat (length pre + length n + 2 + length n2 + length (wv :: rv)) < i_len tmp)%Z ->
  let kidx := (Z.of_nat (length pre) + Z.of_nat (length n))%Z in
  let vidx := (kidx + 2 + Z.of_nat (length n2))%Z in
  let tmp1 := land tmp (kidx + 1) w in
  let tmp2 := land tmp1 (vidx + 1) wv in
  advance pj tmp = Ok (tmp1, TypeString) /\
  i_off tmp1 = (kidx + 1)%Z /\ i_len tmp1 = i_len tmp /\
  rd pj (i_len tmp1) (i_off tmp1) = Ok len /\
  string_byte_at pj (i_cur tmp1) len = Ok k /\
  advance pj tmp1 = Ok (tmp2, TagToType_ref (word_tag wv)) /\
  TagToType_ref (word_tag wv) <> TypeNone /\
  i_off tmp2 = (vidx + 1)%Z /\ i_add tmp2 = Z.of_nat (length rv) /\ i_len tmp2 = i_len tmp.
Proof.
  intros Hm Hs Bm Bs Ht Hn Hw Hk Hn2 Hv Hoff Hlen kidx vidx tmp1 tmp2.
  assert (Hkey : val_seg (nlen pre + nlen n) [w; len] (DStr k)) by (apply vs_str; assumption).
  destruct (advance_value msg strings strict adj pj tmp n w [len] (DStr k) pre
              (n2 ++ (wv :: rv) ++ X) Hn) as (A1 & On1 & Add1 & L1 & _); auto.
  { cbn [length] in *. lia. }
  fold kidx in A1, On1, Add1, L1. fold tmp1 in A1, On1, Add1, L1.
  destruct On1 as (Off1 & _ & w0 & r0 & E0 & _ & Cur1). injection E0 as <- <-.
  rewrite Hw in A1. change (TagToType_ref TagString) with TypeString in A1.
  assert (Off1' : i_off tmp1 = (kidx + 1)%Z) by (rewrite Off1; unfold kidx; nl).
  split; [exact A1|]. split; [exact Off1'|]. split; [exact L1|]. split.
  { rewrite (rd_app pj (i_len tmp1) (i_off tmp1) (pre ++ n ++ [w]) len (n2 ++ (wv :: rv) ++ X)).
    - reflexivity.
    - rewrite Ht. leq.
    - rewrite Off1'. unfold kidx. rewrite !app_length. cbn [length]. lia.
    - rewrite L1, Off1'. unfold kidx. cbn [length] in Hlen. lia. }
  split.
  { rewrite Cur1. apply string_byte_at_ok; rewrite ?Hm, ?Hs; assumption. }
  destruct (advance_value msg strings strict adj pj tmp1 n2 wv rv d (pre ++ n ++ [w; len]) X Hn2)
    as (A2 & On2 & Add2 & L2 & Ty2).
  { rewrite Ht. leq. }
  { eapply val_seg_idx; [|exact Hv]. rewrite !nlen_app. nl. }
  { rewrite Off1', Add1. unfold kidx. rewrite !app_length. cbn [length]. lia. }
  { rewrite L1. rewrite !app_length. cbn [length] in *. lia. }
  assert (Eidx : (Z.of_nat (length (pre ++ n ++ [w; len])) + Z.of_nat (length n2) + 1 = vidx + 1)%Z).
  { unfold vidx, kidx. rewrite !app_length. cbn [length]. lia. }
  rewrite Eidx in A2, On2, Add2, L2. fold tmp2 in A2, On2, Add2, L2.
  destruct On2 as (Off2 & _).
  split; [exact A2|]. split; [exact Ty2|]. split.
  { rewrite Off2. unfold vidx, kidx. rewrite !nlen_app. nl. }
  split; [exact Add2|]. rewrite L2. exact L1.
Qed.


Lemma with_tape_same pj : with_tape pj (pj_tape pj) = pj.
Proof. destruct pj; reflexivity. Qed.

Lemma obj_delete_loop_spec : forall l body pre, mitems (nlen pre) body l ->
  forall pj tmp e post only nkeys n decide cbs f,
  pj_msg pj = msg -> pj_strings pj = strings ->
  N.of_nat (length msg) < two64 -> N.of_nat (length strings) < two64 ->
  pj_tape pj = pre ++ body ++ e :: post -> word_tag e = TagObjectEnd ->
  (i_off tmp + i_add tmp)%Z = Z.of_nat (length pre) ->
  i_len tmp = Z.of_nat (length pre + length body + 1) ->
  (length l < f)%nat -> nlen pre + nlen body < two56 ->
  exists body', length body' = length body /\
    mitems (nlen pre) body' (fst (abs_del_members l only nkeys n decide)) /\
    obj_delete_loop f pj tmp only nkeys n decide cbs =
      Ok (with_tape pj (pre ++ body' ++ e :: post),
          rev cbs ++ snd (abs_del_members l only nkeys n decide)).
Proof.
  induction l as [|[k d] l IH];
    intros body pre Hit pj tmp e post only nkeys n decide cbs f Hm Hs Bm Bs Ht He Hoff Hlen Hf Hb;
    apply mitems_front in Hit.
  - destruct f as [|f]; [lia|]. cbn [obj_delete_loop].
    destruct (advance_end strict pj tmp body e pre post Hit Ht (or_intror He) Hoff ltac:(lia)) as (it' & ->).
    cbn [obind]. cbv iota beta.
    change (negb (t_is TypeNone TypeString)) with true. cbn [orb].
    change (t_is TypeNone TypeNone) with true. cbv iota.
    exists body. split; [reflexivity|]. split.
    + cbn [abs_del_members fst]. rewrite <- (app_nil_r body). apply nops_mitems; [exact Hit|constructor].
    + cbn [abs_del_members snd]. rewrite app_nil_r. rewrite <- Ht, with_tape_same. reflexivity.
  - destruct Hit as (n0 & w & len & n2 & v & rest & -> & Hn & Hw & Hk & Hn2 & Hadj & Hv & Hrest).
    destruct f as [|f]; [lia|].
    destruct (val_seg_head _ _ _ _ _ _ _ Hv) as (wv & rv & -> & Htag).
    assert (Ht' : pj_tape pj = pre ++ n0 ++ w :: len :: n2 ++ (wv :: rv) ++ rest ++ e :: post).
    { rewrite Ht. leq. }
    destruct (obj_member_step pj tmp pre n0 w len k n2 wv rv d (rest ++ e :: post)
                Hm Hs Bm Bs Ht' Hn Hw Hk Hn2 Hv Hoff)
      as (A1 & Off1 & L1 & Rd & Nm & A2 & Ty2 & Off2 & Add2 & L2).
    { rewrite Hlen. lens. }
    remember (land tmp (Z.of_nat (length pre) + Z.of_nat (length n0) + 1) w) as tmp1 eqn:Etmp1.
    remember (land tmp1 (Z.of_nat (length pre) + Z.of_nat (length n0) + 2 + Z.of_nat (length n2) + 1) wv)
      as tmp2 eqn:Etmp2.
    clear Etmp1 Etmp2.
    remember (w :: len :: n2 ++ wv :: rv) as old eqn:Eold.
    assert (Lold : length old = (2 + length n2 + 1 + length rv)%nat) by (subst old; lens).
    assert (Hold : N.of_nat (length old) < two56) by (revert Hb; lens).
    assert (Ht'' : pj_tape pj = pre ++ n0 ++ old ++ rest ++ e :: post).
    { rewrite Ht'. subst old. leq. }
    (* the member as it is, or overwritten *)
    assert (Hwrap : forall (dflag : bool) b' L,
      mitems (nlen (pre ++ n0 ++ (if dflag then nop_fill (length old) else old))) b' L ->
      mitems (nlen pre) (n0 ++ (if dflag then nop_fill (length old) else old) ++ b')
             (if dflag then L else (k, d) :: L)).
    { intros dflag b' L HL. apply nops_mitems; [exact Hn|]. destruct dflag.
      - apply nops_mitems; [apply nop_fill_nops_seg; exact Hold|].
        eapply mitems_idx; [|exact HL]. lens.
      - subst old. replace ((w :: len :: n2 ++ wv :: rv) ++ b')
            with (w :: len :: n2 ++ (wv :: rv) ++ b') by leq.
        apply mi_mem; auto.
        eapply mitems_idx; [|exact HL]. lens. }
    (* continuing the loop after this member *)
    assert (Hcont : forall (dflag : bool) n' decide' cbs',
      exists body', length body' = length (n0 ++ old ++ rest) /\
        mitems (nlen pre) body'
          (if dflag then fst (abs_del_members l only nkeys n' decide')
           else (k, d) :: fst (abs_del_members l only nkeys n' decide')) /\
        obj_delete_loop f
          (with_tape pj (pre ++ n0 ++ (if dflag then nop_fill (length old) else old) ++ rest ++ e :: post))
          tmp2 only nkeys n' decide' cbs' =
          Ok (with_tape pj (pre ++ body' ++ e :: post),
              rev cbs' ++ snd (abs_del_members l only nkeys n' decide'))).
    { intros dflag n' decide' cbs'.
      assert (Hrl : length (if dflag then nop_fill (length old) else old) = length old)
        by (destruct dflag; [apply nop_fill_length|reflexivity]).
      remember (if dflag then nop_fill (length old) else old) as repl eqn:Erepl.
      assert (Hrest' : mitems (nlen (pre ++ n0 ++ repl)) rest l).
      { eapply mitems_idx; [|exact Hrest]. lens. }
      destruct (IH rest (pre ++ n0 ++ repl) Hrest' (with_tape pj (pre ++ n0 ++ repl ++ rest ++ e :: post))
                  tmp2 e post only nkeys n' decide' cbs' f)
        as (b' & Hl & Hi & E); auto.
      - cbn [with_tape pj_tape]. leq.
      - rewrite Off2, Add2. lens.
      - rewrite L2, Hlen. lens.
      - cbn [length] in Hf. lia.
      - revert Hb. lens.
      - exists (n0 ++ repl ++ b'). split; [lens|]. split.
        + subst repl. apply Hwrap. exact Hi.
        + rewrite E. rewrite with_tape_twice. f_equal. f_equal. f_equal. leq. }
    cbn [obj_delete_loop]. rewrite A1. cbn [obind]. cbv iota beta.
    change (negb (t_is TypeString TypeString)) with false. cbn [orb].
    replace (i_len tmp1 <=? i_off tmp1 + 1)%Z with false by (rewrite L1, Off1, Hlen; lens).
    rewrite Rd. cbn [obind]. rewrite Nm. cbn [obind].
    rewrite A2. cbn [obind]. cbv iota beta.
    replace (t_is (TagToType_ref (word_tag wv)) TypeNone) with false
      by (symmetry; apply N.eqb_neq; exact Ty2).
    cbn [abs_del_members].
    destruct ((0 <? nkeys)%nat && negb (existsb (bytes_eqb k) only)) eqn:Efilter.
    + (* filtered out: not visited *)
      destruct (Hcont false n decide cbs) as (b' & Hl & Hi & E).
      rewrite <- Ht'', with_tape_same in E.
      destruct (abs_del_members l only nkeys n decide) as [r' c'] eqn:ER. cbn [fst snd] in *.
      exists b'. split; [rewrite Hl; subst old; lens|]. split; [exact Hi|exact E].
    + (* visited *)
      cbv iota.
      assert (Hdel : delete_span pj (i_len tmp2) (i_off tmp1 - 1) (i_off tmp2 + i_add tmp2) =
                     Ok (with_tape pj (pre ++ n0 ++ nop_fill (length old) ++ rest ++ e :: post))).
      { rewrite (delete_span_app old (pre ++ n0) (rest ++ e :: post) pj).
        - f_equal. f_equal. leq.
        - rewrite Ht''. leq.
        - rewrite Off1. lens.
        - rewrite Off1, Off2, Add2. lens.
        - rewrite Off2, Add2, L2, Hlen. lens. }
      assert (Hvisit : forall (dflag : bool) decide' (cb : list bytes), rev cb = cb ->
        exists body', length body' = length (n0 ++ old ++ rest) /\
          mitems (nlen pre) body'
            (fst (let '(r', cbs0) := if (S n =? nkeys)%nat then (l, [])
                                     else abs_del_members l only nkeys (S n) decide' in
                  (if dflag then r' else (k, d) :: r', cb ++ cbs0))) /\
          (do p1 <- (if dflag then delete_span pj (i_len tmp2) (i_off tmp1 - 1) (i_off tmp2 + i_add tmp2)
                     else Ok pj);
           if (S n =? nkeys)%nat then Ok (p1, rev (cb ++ cbs))
           else obj_delete_loop f p1 tmp2 only nkeys (S n) decide' (cb ++ cbs)) =
          Ok (with_tape pj (pre ++ body' ++ e :: post),
              rev cbs ++ snd (let '(r', cbs0) := if (S n =? nkeys)%nat then (l, [])
                                     else abs_del_members l only nkeys (S n) decide' in
                  (if dflag then r' else (k, d) :: r', cb ++ cbs0)))).
      { intros dflag decide' cb Hcb.
        assert (Hrl : length (if dflag then nop_fill (length old) else old) = length old)
          by (destruct dflag; [apply nop_fill_length|reflexivity]).
        assert (Ep1 : (if dflag then delete_span pj (i_len tmp2) (i_off tmp1 - 1) (i_off tmp2 + i_add tmp2)
                       else Ok pj) =
                      Ok (with_tape pj (pre ++ n0 ++ (if dflag then nop_fill (length old) else old)
                                          ++ rest ++ e :: post))).
        { destruct dflag; [exact Hdel|]. rewrite <- Ht'', with_tape_same. reflexivity. }
        rewrite Ep1. cbn [obind].
        destruct (S n =? nkeys)%nat eqn:Estop.
        - (* stop after this member *)
          cbn [fst snd].
          exists (n0 ++ (if dflag then nop_fill (length old) else old) ++ rest).
          split; [lens|]. split.
          { apply Hwrap. eapply mitems_idx; [|exact Hrest]. lens. }
          f_equal. f_equal; [f_equal; leq|].
          rewrite rev_app_distr, app_nil_r, Hcb. reflexivity.
        - destruct (Hcont dflag (S n) decide' (cb ++ cbs)) as (b' & Hl & Hi & E).
          destruct (abs_del_members l only nkeys (S n) decide') as [r' c'] eqn:ER.
          cbn [fst snd] in *.
          exists b'. split; [exact Hl|]. split; [exact Hi|].
          rewrite E. f_equal. f_equal. rewrite rev_app_distr, <- app_assoc, Hcb. reflexivity. }
      destruct decide as [[|x dec']|].
      * destruct (Hvisit false (Some []) [k] eq_refl) as (b' & Hl & Hi & E).
        exists b'. split; [rewrite Hl; subst old; lens|]. split; [exact Hi|exact E].
      * destruct (Hvisit x (Some dec') [k] eq_refl) as (b' & Hl & Hi & E).
        exists b'. split; [rewrite Hl; subst old; lens|]. split; [exact Hi|exact E].
      * destruct (Hvisit true None [] eq_refl) as (b' & Hl & Hi & E).
        exists b'. split; [rewrite Hl; subst old; lens|]. split; [exact Hi|exact E].
Qed.

End ObjDelete.

Lemma distinct_count_keys l : forall seen, distinct_count l seen = distinct_keys l seen.
Proof.
  induction l as [|k r IH]; intros seen; [reflexivity|].
  cbn [distinct_count distinct_keys]. destruct (existsb (bytes_eqb k) seen); apply IH.
Qed.

Section ObjDeleteTop.
Variables (strict adj : bool).
Notation vseg pj := (val_seg (pj_msg pj) (pj_strings pj) strict adj).
Notation ipath pj := (index_path (pj_msg pj) (pj_strings pj) strict adj).
Notation rseg pj := (roots_seg (pj_msg pj) (pj_strings pj) strict adj).
Notation den pj := (denote (pj_msg pj) (pj_strings pj) (pj_tape pj)).

Lemma iter_object_on pj it k sub l :
  iter_on it k sub -> vseg pj k sub (DObj l) ->
  iter_object it = Ok {| c_len := Z.of_N k + Z.of_nat (length sub); c_off := Z.of_N k + 1 |}.
Proof.
  intros (Hoff & Hlen & w & r & -> & Hit & Hcur) Hv.
  destruct (val_seg_kind _ _ _ _ _ _ _ _ Hv) as (_ & _ & _ & _ & _ & Kc). specialize (Kc eq_refl).
  inversion Hv; subst. unfold iter_object. rewrite Hit.
  match goal with H : word_tag w = TagObjectStart |- _ => rewrite H end.
  change (negb (TagObjectStart =? TagObjectStart)) with false. cbv iota.
  rewrite Hcur, Kc.
  replace (Z.of_N (k + nlen (w :: body ++ [e])) <? i_off it)%Z with false by (revert Hoff; nl).
  replace (i_len it <? Z.of_N (k + nlen (w :: body ++ [e])))%Z with false by (revert Hlen; nl).
  rewrite Hoff. f_equal. f_equal. nl.
Qed.

(* Object.DeleteElems on the object at path p: the callbacks are made for the
   visited members in order; the result denotes abs_delete_obj applied there *)
Theorem obj_delete_refines pj o only decide pre sub post p ds l :
  N.of_nat (length (pj_msg pj)) < two64 -> N.of_nat (length (pj_strings pj)) < two64 ->
  pj_tape pj = pre ++ sub ++ post -> vseg pj (nlen pre) sub (DObj l) ->
  ipath pj (pj_tape pj) (nlen pre) p -> den pj = Some ds ->
  c_off o = (Z.of_N (nlen pre) + 1)%Z ->
  c_len o = (Z.of_N (nlen pre) + Z.of_nat (length sub))%Z ->
  let R := abs_del_members l only (distinct_keys only []) 0 decide in
  exists sub2,
    obj_delete pj o only decide = Ok (with_tape pj (pre ++ sub2 ++ post), snd R) /\
    length sub2 = length sub /\
    vseg pj (nlen pre) sub2 (DObj (fst R)) /\
    denote (pj_msg pj) (pj_strings pj) (pre ++ sub2 ++ post) = upd_docs p (abs_delete_obj only decide) ds /\
    exists ds2, upd_docs p (abs_delete_obj only decide) ds = Some ds2 /\
                rseg pj 0 (pre ++ sub2 ++ post) ds2.
Proof.
  intros Bm Bs Ht Hv Hip Hden Hoff Hlen R.
  inversion Hv; subst.
  match goal with H : mitems _ _ _ _ _ body l |- _ => rename H into Hit end.
  match goal with H : word_val w = _ |- _ => rename H into Hwv end.
  assert (Hit' : mitems (pj_msg pj) (pj_strings pj) strict adj (nlen (pre ++ [w])) body l).
  { eapply mitems_idx; [|exact Hit]. nl. }
  destruct (obj_delete_loop_spec _ _ strict adj l body (pre ++ [w]) Hit' pj (cont_iter o) e post only
              (distinct_keys only []) 0%nat decide [] (cont_fuel o)) as (body' & Hl & Hi & E); auto.
  - rewrite Ht. leq.
  - cbn [cont_iter i_off i_add]. rewrite Hoff. lens.
  - cbn [cont_iter i_len]. rewrite Hlen. lens.
  - pose proof (proj2 (proj2 (seg_lengths _ _ _ _)) _ _ _ Hit) as Hll.
    unfold cont_fuel. rewrite Hlen. lens.
  - pose proof (word_val_lt w) as Hlt. rewrite Hwv in Hlt. revert Hlt. lens.
  - fold R in Hi, E. exists (w :: body' ++ [e]).
    assert (Hv2 : vseg pj (nlen pre) (w :: body' ++ [e]) (DObj (fst R))).
    { apply vs_obj; auto.
      - eapply mitems_idx; [|exact Hi]. nl.
      - rewrite Hwv. revert Hl. nl. }
    split.
    { unfold obj_delete. rewrite distinct_count_keys, E. cbn [rev app]. f_equal. f_equal. f_equal. leq. }
    split; [lens|]. split; [exact Hv2|].
    rewrite Ht in Hden, Hip.
    apply (refine_core strict adj _ _ pre (w :: body ++ [e]) post p ds (DObj l)
             (w :: body' ++ [e]) (DObj (fst R)) (abs_delete_obj only decide) Hden Hip Hv);
      [|reflexivity].
    exists (w :: body' ++ [e]), []. rewrite app_nil_r. repeat split; auto; [constructor|]. lens.
Qed.

End ObjDeleteTop.

(* ------------------------------------------------------------------ *)
(* D, first half: one deletion on the level of item sequences           *)

Section OneDeletion.
Variables (msg strings : bytes) (strict adj : bool).
Notation val_seg := (val_seg msg strings strict adj).
Notation items := (items msg strings strict adj).
Notation mitems := (mitems msg strings strict adj).
Notation nops_seg := (nops_seg strict).

Lemma items_app : forall i a la, items i a la -> forall b lb,
  items (i + nlen a) b lb -> items i (a ++ b) (la ++ lb).
Proof.
  induction 1 as [i|i w junk rest l Ht Hv Hrun Hr IH|i v d rest l Hv Hr IH]; intros b lb Hb.
  - rewrite nlen_nil, N.add_0_r in Hb. exact Hb.
  - cbn [app]. rewrite <- app_assoc. apply it_nop; auto. apply IH.
    eapply items_idx; [|exact Hb]. nl.
  - rewrite <- app_assoc. cbn [app]. apply it_val; auto. apply IH.
    eapply items_idx; [|exact Hb]. nl.
Qed.

Lemma mitems_app : forall i a la, mitems i a la -> forall b lb,
  mitems (i + nlen a) b lb -> mitems i (a ++ b) (la ++ lb).
Proof.
  induction 1 as [i|i w junk rest l Ht Hv Hrun Hr IH|i w len k n2 v d rest l Ht Hk Hn2 Hadj Hv Hr IH];
    intros b lb Hb.
  - rewrite nlen_nil, N.add_0_r in Hb. exact Hb.
  - cbn [app]. rewrite <- app_assoc. apply mi_nop; auto. apply IH.
    eapply mitems_idx; [|exact Hb]. nl.
  - cbn [app]. rewrite <- !app_assoc. apply mi_mem; auto. apply IH.
    eapply mitems_idx; [|exact Hb]. nl.
Qed.

(* overwriting the words of one array element with the NOP fill removes
   exactly that element *)
Theorem delete_element i a la v d b lb :
  items i a la -> val_seg (i + nlen a) v d -> items (i + nlen a + nlen v) b lb ->
  N.of_nat (length v) < two56 ->
  items i (a ++ v ++ b) (la ++ d :: lb) /\
  items i (a ++ nop_fill (length v) ++ b) (la ++ lb).
Proof.
  intros Ha Hv Hb Hlen. split.
  - apply items_app; [exact Ha|]. apply it_val; assumption.
  - apply items_app; [exact Ha|]. apply nops_items; [apply nop_fill_nops_seg; exact Hlen|].
    eapply items_idx; [|exact Hb]. rewrite nlen_nop_fill. nl.
Qed.

(* the same for an object member: key, the NOPs before the value, the value *)
Theorem delete_member i a la w len k n2 v d b lb :
  mitems i a la -> word_tag w = TagString -> string_at msg strings (word_val w) len = Some k ->
  nops_seg n2 -> (adj = true -> n2 = []) ->
  val_seg (i + nlen a + 2 + nlen n2) v d ->
  mitems (i + nlen a + 2 + nlen n2 + nlen v) b lb ->
  N.of_nat (length (w :: len :: n2 ++ v)) < two56 ->
  mitems i (a ++ (w :: len :: n2 ++ v) ++ b) (la ++ (k, d) :: lb) /\
  mitems i (a ++ nop_fill (length (w :: len :: n2 ++ v)) ++ b) (la ++ lb).
Proof.
  intros Ha Hw Hk Hn2 Hadj Hv Hb Hlen. split.
  - apply mitems_app; [exact Ha|].
    replace ((w :: len :: n2 ++ v) ++ b) with (w :: len :: n2 ++ v ++ b) by leq.
    apply mi_mem; assumption.
  - apply mitems_app; [exact Ha|]. apply nops_mitems; [apply nop_fill_nops_seg; exact Hlen|].
    eapply mitems_idx; [|exact Hb]. rewrite nlen_nop_fill. lens.
Qed.

End OneDeletion.
