(* MaskProofsBlock.v — the refinement: one block through the mask kernels
   equals 64 iterations of the scalar step [s1_step] of Model/Stage1.v, for
   every block of 64 bytes, every (well-formed) carried state and both values
   of the NDJSON switch. *)
From Coq Require Import Lia ZifyBool ZifyNat ZifyN.
From SJ Require Import Model.Base Model.RefTables Model.Stage1.
From SJ Require Import Proofs.Stage1Proofs Proofs.MaskModel Proofs.MaskProofsBits Proofs.MaskProofsKernels.
Open Scope N_scope.

(* ------------------------------------------------------------------ *)
(* the scalar fold over byte values, and its trace                     *)

Fixpoint s1_foldN (nd : bool) (st : s1st) (p : nat) (B : list N) : s1st * list nat :=
  match B with
  | [] => (st, [])
  | c :: r =>
    let x := s1_foldN nd (fst (s1_step nd st c)) (S p) r in
    if snd (s1_step nd st c) then consp p x else x
  end.

Lemma s1_fold_N nd : forall bs st p, s1_fold nd st p bs = s1_foldN nd st p (map b2n bs).
Proof.
  induction bs as [|b r IH]; intros st p; [reflexivity|].
  cbn [s1_fold s1_foldN map]. rewrite IH. reflexivity.
Qed.

(* state before byte i / structural flag of byte i *)
Fixpoint st_at (nd : bool) (st : s1st) (B : list N) (i : nat) : s1st :=
  match i with
  | O => st
  | S k => fst (s1_step nd (st_at nd st B k) (nth k B 0))
  end.
Definition out_at (nd : bool) (st : s1st) (B : list N) (i : nat) : bool :=
  snd (s1_step nd (st_at nd st B i) (nth i B 0)).

Lemma st_at_cons nd st c r i : st_at nd st (c :: r) (S i) = st_at nd (fst (s1_step nd st c)) r i.
Proof.
  induction i as [|i IH]; [reflexivity|].
  change (st_at nd st (c :: r) (S (S i))) with
    (fst (s1_step nd (st_at nd st (c :: r) (S i)) (nth (S i) (c :: r) 0))).
  rewrite IH. reflexivity.
Qed.

Lemma out_at_cons nd st c r i : out_at nd st (c :: r) (S i) = out_at nd (fst (s1_step nd st c)) r i.
Proof. unfold out_at. rewrite st_at_cons. reflexivity. Qed.

Lemma filter_map_S (f : nat -> bool) l : filter f (map S l) = map S (filter (fun i => f (S i)) l).
Proof.
  induction l as [|x l IH]; [reflexivity|].
  cbn [map filter]. destruct (f (S x)); cbn [map]; rewrite IH; reflexivity.
Qed.

Lemma s1_foldN_trace nd : forall B st p,
  s1_foldN nd st p B =
  (st_at nd st B (length B),
   map (fun i => (p + i)%nat) (filter (out_at nd st B) (seq 0 (length B)))).
Proof.
  induction B as [|c r IH]; intros st p; [reflexivity|].
  cbn [s1_foldN length]. rewrite IH, st_at_cons.
  rewrite <- cons_seq, <- seq_shift. cbn [filter].
  change (out_at nd st (c :: r) 0) with (snd (s1_step nd st c)).
  rewrite filter_map_S.
  assert (Hext : filter (fun i => out_at nd st (c :: r) (S i)) (seq 0 (length r)) =
                 filter (out_at nd (fst (s1_step nd st c)) r) (seq 0 (length r))).
  { apply filter_ext. intros i. apply out_at_cons. }
  rewrite Hext.
  assert (Hmap : forall l, map (fun i => (S p + i)%nat) l = map (fun i => (p + i)%nat) (map S l)).
  { intros l. rewrite map_map. apply map_ext. intros i. lia. }
  rewrite Hmap.
  destruct (snd (s1_step nd st c)); cbn [consp fst snd map]; [rewrite Nat.add_0_r|]; reflexivity.
Qed.

Lemma s1_run_trace nd block st p :
  s1_run nd st p block [] =
  (st_at nd st (map b2n block) (length block),
   map (fun i => (p + i)%nat) (filter (out_at nd st (map b2n block)) (seq 0 (length block)))).
Proof.
  rewrite s1_run_fold, s1_fold_N, s1_foldN_trace, map_length. reflexivity.
Qed.

(* ------------------------------------------------------------------ *)
(* well-formed carried states                                          *)

Lemma kstate_wf_fields k : kstate_wf k ->
  k_odd k = N.b2n (s_bsodd (abs_kstate k)) /\
  k_inq k = inq_word (s_instr (abs_kstate k)) /\
  k_pred k = N.b2n (s_pred (abs_kstate k)) /\
  k_err k < two64.
Proof.
  intros [Ho [Hi [Hp He]]]. cbn [abs_kstate s_bsodd s_instr s_pred].
  repeat split.
  - destruct Ho as [-> | ->]; reflexivity.
  - destruct Hi as [-> | ->]; reflexivity.
  - destruct Hp as [-> | ->]; reflexivity.
  - exact He.
Qed.

Lemma kstate_wfb_ok k : kstate_wfb k = true <-> kstate_wf k.
Proof.
  unfold kstate_wfb, kstate_wf. rewrite !andb_true_iff, !orb_true_iff, !N.eqb_eq, N.ltb_lt. tauto.
Qed.

Lemma conc_wf s : kstate_wf (conc_kstate s).
Proof.
  unfold kstate_wf, conc_kstate. cbn [k_odd k_inq k_pred k_err].
  destruct (s_bsodd s), (s_instr s), (s_pred s), (s_err s); cbn [N.b2n]; repeat split; auto; reflexivity.
Qed.

Lemma abs_conc s : abs_kstate (conc_kstate s) = s.
Proof. destruct s as [a b c d]. destruct a, b, c, d; reflexivity. Qed.

Lemma kstate_init_wf : kstate_wf kstate_init.
Proof. unfold kstate_wf, kstate_init. cbn. repeat split; auto. Qed.

Lemma abs_init : abs_kstate kstate_init = s1_init.
Proof. reflexivity. Qed.

(* ------------------------------------------------------------------ *)
(* one block                                                           *)

(* the scalar step and the mask formulas agree, as a fact about booleans *)
Lemma step_bool (nd isb isq lt32 wsb mk lfb pr iq pd er : bool) :
  let esc := negb isb && pr in
  let uq := isq && negb esc in
  let instr' := xorb iq uq in
  ({| s_bsodd := if isb then negb pr else false;
      s_instr := instr';
      s_pred := (mk && negb instr') || uq || wsb;
      s_err := er || (lt32 && instr') |},
   (((mk && negb instr') || uq) || (pd && negb wsb && negb instr')) && negb (uq && negb instr')
   || (nd && lfb && negb instr'))
  =
  ({| s_bsodd := if isb then negb pr else false;
      s_instr := instr';
      s_pred := (negb instr' && mk) || uq || wsb;
      s_err := er || (lt32 && instr') |},
   (((negb instr' && negb wsb) && pd || ((negb instr' && mk) || uq)) && (negb uq || instr'))
   || (nd && (negb instr' && lfb))).
Proof. destruct nd, isb, isq, lt32, wsb, mk, lfb, pr, iq, pd, er; reflexivity. Qed.

Lemma tb_if_lor (c : bool) a b i : tb (if c then N.lor a b else a) i = tb a i || (c && tb b i).
Proof. destruct c; [rewrite tb_lor|rewrite orb_false_r]; reflexivity. Qed.

Lemma if_lor_lt (c : bool) a b : a < two64 -> b < two64 -> (if c then N.lor a b else a) < two64.
Proof. intros Ha Hb. destruct c; [apply lor_lt; assumption|exact Ha]. Qed.

Section Block.
  Variable nd : bool.
  Variable B : list N.
  Hypothesis HB : length B = 64%nat.
  Variable k : kstate.
  Hypothesis Hwf : kstate_wf k.

  Let st0 := abs_kstate k.
  Let b0 := s_bsodd st0.
  Let q0 := s_instr st0.
  Let p0 := s_pred st0.
  Let e0 := s_err st0.

  Let bs := mask_of (fun b => b =? cBSLASH) B.
  Let quotes := mask_of (fun b => b =? cQUOTE) B.
  Let ctl := mask_of (fun b => b <? 32) B.
  Let ws := mask_of is_json_ws B.
  Let str := mask_of is_markup B.
  Let lf := mask_of (fun b => b =? cLF) B.

  Let oe := fst (find_odd_backslash_sequences bs (N.b2n b0)).
  Let qm := qmask quotes oe q0.
  Let qb := qbits quotes oe.
  Let fin := fin_out str ws qm qb p0.
  Let out := if nd then N.lor fin (find_newline_delimiters lf qm) else fin.

  Let k' : kstate :=
    {| k_odd := N.b2n (par bs b0 64);
       k_inq := inq_word (inq quotes oe q0 64);
       k_pred := N.b2n (ppbit str ws qm qb 63);
       k_err := qerr quotes ctl oe (k_err k) q0 |}.

  Lemma mask_lt p : mask_of p B < two64.
  Proof. apply mask_of_lt. rewrite HB. lia. Qed.

  Lemma bs_lt : bs < two64. Proof. exact (mask_lt _). Qed.
  Lemma quotes_lt : quotes < two64. Proof. exact (mask_lt _). Qed.
  Lemma ctl_lt : ctl < two64. Proof. exact (mask_lt _). Qed.
  Lemma ws_lt : ws < two64. Proof. exact (mask_lt _). Qed.
  Lemma str_lt : str < two64. Proof. exact (mask_lt _). Qed.
  Lemma lf_lt : lf < two64. Proof. exact (mask_lt _). Qed.
  Lemma qb_lt : qb < two64. Proof. exact (quote_bits_lt quotes oe quotes_lt). Qed.
  Lemma kerr_lt : k_err k < two64.
  Proof. destruct (kstate_wf_fields k Hwf) as [_ [_ [_ H]]]. exact H. Qed.
  Hint Resolve bs_lt quotes_lt ctl_lt ws_lt str_lt lf_lt qb_lt kerr_lt : masklt.

  Lemma mask_block_full_eq :
    mask_block_full nd k B =
    (k', {| km_odd_ends := oe; km_quote_mask := qm; km_quote_bits := qb;
            km_whitespace := ws; km_structurals_in := str; km_structurals := out |}).
  Proof.
    destruct (kstate_wf_fields k Hwf) as [Ho [Hi [Hp He]]].
    unfold mask_block_full, mask_block_gen.
    rewrite Ho, Hi, Hp. fold st0. fold b0. fold q0. fold p0. fold bs.
    rewrite (surjective_pairing (find_odd_backslash_sequences bs (N.b2n b0))).
    fold oe. fold quotes. fold ctl. rewrite fqmb_eq. fold qm. fold qb. fold ws. fold str.
    rewrite finalize_eq. fold fin. fold lf.
    rewrite odd_ends_carry by exact bs_lt.
    replace (sar63 qm) with (inq_word (inq quotes oe q0 64))
      by (symmetry; apply prev_inq_next; exact quotes_lt).
    rewrite finalize_pred; [reflexivity|exact str_lt|exact ws_lt|exact qb_lt].
  Qed.

  (* bits of the input masks are the byte predicates *)
  Lemma tb_byte p i : (i < 64)%nat -> tb (mask_of p B) i = p (nth i B 0).
  Proof.
    intros Hi. rewrite tb_mask_of, HB.
    replace (i <? 64)%nat with true by (symmetry; apply Nat.ltb_lt; exact Hi). cbn [andb]. reflexivity.
  Qed.

  Let S (i : nat) : s1st := st_at nd st0 B i.

  Definition errs (i : nat) : bool :=
    e0 || existsb (fun j => tb ctl j && inq quotes oe q0 (Datatypes.S j)) (seq 0 i).

  Lemma byte_bs i : (i < 64)%nat -> tb bs i = (nth i B 0 =? cBSLASH).
  Proof. intros Hi. exact (tb_byte _ i Hi). Qed.
  Lemma byte_quotes i : (i < 64)%nat -> tb quotes i = (nth i B 0 =? cQUOTE).
  Proof. intros Hi. exact (tb_byte _ i Hi). Qed.
  Lemma byte_ctl i : (i < 64)%nat -> tb ctl i = (nth i B 0 <? 32).
  Proof. intros Hi. exact (tb_byte _ i Hi). Qed.
  Lemma byte_ws i : (i < 64)%nat -> tb ws i = is_json_ws (nth i B 0).
  Proof. intros Hi. exact (tb_byte _ i Hi). Qed.
  Lemma byte_str i : (i < 64)%nat -> tb str i = is_markup (nth i B 0).
  Proof. intros Hi. exact (tb_byte _ i Hi). Qed.
  Lemma byte_lf i : (i < 64)%nat -> tb lf i = (nth i B 0 =? cLF).
  Proof. intros Hi. exact (tb_byte _ i Hi). Qed.

  Lemma ltb64 i : (i < 64)%nat -> (i <? 64)%nat = true.
  Proof. intros Hi. apply Nat.ltb_lt. exact Hi. Qed.

  Lemma fin_bit i : (i < 64)%nat -> tb fin i =
    ((negb (tb qm i) && negb (tb ws i)) && predbit str ws qm qb p0 i
      || ((negb (tb qm i) && tb str i) || tb qb i))
     && (negb (tb qb i) || tb qm i).
  Proof.
    intros Hi. unfold fin. rewrite finalize_bits by auto with masklt.
    rewrite (ltb64 i Hi). apply andb_true_l.
  Qed.

  Lemma out_bit i : (i < 64)%nat -> tb out i =
    (((negb (tb qm i) && negb (tb ws i)) && predbit str ws qm qb p0 i
      || ((negb (tb qm i) && tb str i) || tb qb i))
     && (negb (tb qb i) || tb qm i))
    || (nd && (negb (tb qm i) && tb lf i)).
  Proof.
    intros Hi. unfold out. rewrite tb_if_lor, newline_bits, (fin_bit i Hi). reflexivity.
  Qed.

  Lemma errs_S i : errs (Datatypes.S i) = errs i || (tb ctl i && inq quotes oe q0 (Datatypes.S i)).
  Proof.
    unfold errs. rewrite seq_S, existsb_app. cbn [existsb Nat.add]. rewrite orb_false_r, orb_assoc. reflexivity.
  Qed.

  Lemma qm_bit i : (i < 64)%nat -> tb qm i = inq quotes oe q0 (Datatypes.S i).
  Proof.
    intros Hi. unfold qm. rewrite quote_mask_bits by exact quotes_lt.
    rewrite (ltb64 i Hi). apply andb_true_l.
  Qed.

  Lemma qb_bit i : tb qb i = tb quotes i && negb (tb oe i).
  Proof. unfold qb. rewrite quote_bits_bits by exact quotes_lt. reflexivity. Qed.

  Lemma oe_bit i : (i < 64)%nat -> tb oe i = negb (tb bs i) && par bs b0 i.
  Proof.
    intros Hi. unfold oe. rewrite odd_ends_bits by exact bs_lt.
    rewrite (ltb64 i Hi). apply andb_true_l.
  Qed.

  Lemma inq_S i : inq quotes oe q0 (Datatypes.S i) = xorb (inq quotes oe q0 i) (tb quotes i && negb (tb oe i)).
  Proof. reflexivity. Qed.

  Lemma par_S i : par bs b0 (Datatypes.S i) = if tb bs i then negb (par bs b0 i) else false.
  Proof. reflexivity. Qed.

  Lemma predbit_S i : predbit str ws qm qb p0 (Datatypes.S i) =
    (negb (tb qm i) && tb str i) || tb qb i || tb ws i.
  Proof. reflexivity. Qed.

  (* the scalar step on byte i, in terms of the recurrences of the kernels *)
  Lemma step_bits i st : (i < 64)%nat ->
    s_bsodd st = par bs b0 i ->
    s_instr st = inq quotes oe q0 i ->
    s_pred st = predbit str ws qm qb p0 i ->
    s_err st = errs i ->
    s1_step nd st (nth i B 0) =
    ({| s_bsodd := par bs b0 (Datatypes.S i);
        s_instr := inq quotes oe q0 (Datatypes.S i);
        s_pred := predbit str ws qm qb p0 (Datatypes.S i);
        s_err := errs (Datatypes.S i) |},
     tb out i).
  Proof.
    intros Hi Hb Hq Hp He.
    rewrite (out_bit i Hi), errs_S, predbit_S, par_S.
    rewrite (qm_bit i Hi), qb_bit, inq_S, (oe_bit i Hi).
    rewrite (byte_bs i Hi), (byte_quotes i Hi), (byte_ctl i Hi), (byte_ws i Hi), (byte_str i Hi), (byte_lf i Hi).
    unfold s1_step. rewrite Hb, Hq, Hp, He.
    apply step_bool.
  Qed.

  Lemma trace_inv i : (i <= 64)%nat ->
    s_bsodd (S i) = par bs b0 i /\
    s_instr (S i) = inq quotes oe q0 i /\
    s_pred (S i) = predbit str ws qm qb p0 i /\
    s_err (S i) = errs i.
  Proof.
    induction i as [|i IH]; intros Hi.
    - unfold S, errs. cbn [st_at par inq predbit seq existsb]. rewrite orb_false_r. repeat split; reflexivity.
    - destruct IH as [Hb [Hq [Hp He]]]; [lia|].
      unfold S. cbn [st_at]. fold (S i).
      rewrite (step_bits i (S i)) by (assumption || lia).
      cbn [fst s_bsodd s_instr s_pred s_err]. repeat split; reflexivity.
  Qed.

  (* what the intermediate masks mean in terms of the scalar run *)
  Theorem masks_meaning i : (i < 64)%nat ->
    tb oe i = negb (nth i B 0 =? cBSLASH) && s_bsodd (st_at nd st0 B i) /\
    tb qb i = (nth i B 0 =? cQUOTE) && negb (tb oe i) /\
    tb qm i = s_instr (st_at nd st0 B (Datatypes.S i)) /\
    tb ws i = is_json_ws (nth i B 0) /\
    tb str i = is_markup (nth i B 0).
  Proof.
    intros Hi.
    destruct (trace_inv i) as [Hb _]; [lia|].
    destruct (trace_inv (Datatypes.S i)) as [_ [Hq _]]; [lia|].
    fold (S i). fold (S (Datatypes.S i)). rewrite Hb, Hq.
    rewrite qb_bit, (qm_bit i Hi), (oe_bit i Hi), (byte_bs i Hi), (byte_quotes i Hi), (byte_ws i Hi), (byte_str i Hi).
    repeat split; reflexivity.
  Qed.

  Theorem out_bits i : (i < 64)%nat -> tb out i = out_at nd st0 B i.
  Proof.
    intros Hi. unfold out_at. fold (S i).
    destruct (trace_inv i) as [Hb [Hq [Hp He]]]; [lia|].
    rewrite (step_bits i (S i)) by assumption. reflexivity.
  Qed.

  Lemma out_lt : out < two64.
  Proof.
    assert (Hf : fin < two64).
    { unfold fin. apply finalize_lt; auto with masklt. }
    unfold out. apply if_lor_lt; [exact Hf|].
    unfold find_newline_delimiters. apply andn64_lt. exact lf_lt.
  Qed.

  Theorem state_next : abs_kstate k' = st_at nd st0 B 64.
  Proof.
    destruct (trace_inv 64) as [Hb [Hq [Hp He]]]; [lia|]. fold (S 64).
    destruct (S 64) as [sb si sp se]. cbn [s_bsodd s_instr s_pred s_err] in Hb, Hq, Hp, He.
    unfold abs_kstate, k'. cbn [k_odd k_inq k_pred k_err].
    f_equal.
    - rewrite Hb. destruct (par bs b0 64); reflexivity.
    - rewrite Hq. destruct (inq quotes oe q0 64); reflexivity.
    - rewrite Hp. cbn [predbit]. destruct (ppbit str ws qm qb 63); reflexivity.
    - rewrite He. unfold errs.
      rewrite err_next_flag by auto with masklt.
      unfold e0, st0. cbn [abs_kstate s_err]. reflexivity.
  Qed.

  Lemma state_next_wf : kstate_wf k'.
  Proof.
    unfold kstate_wf, k'. cbn [k_odd k_inq k_pred k_err].
    repeat split.
    - destruct (par bs b0 64); auto.
    - destruct (inq quotes oe q0 64); auto.
    - destruct (ppbit str ws qm qb 63); auto.
    - apply err_next_lt; auto with masklt.
  Qed.

  Lemma flatten_out p :
    flatten_bits p out = map (fun i => (p + i)%nat) (filter (out_at nd st0 B) (seq 0 64)).
  Proof.
    unfold flatten_bits. f_equal. apply filter_ext_in. intros i Hi. apply in_seq in Hi.
    fold (tb out i). apply out_bits. lia.
  Qed.
End Block.

(* ------------------------------------------------------------------ *)
(* the refinement theorem for one block                                *)

Theorem mask_block_full_refines nd (block : bytes) (k : kstate) (p : nat) :
  length block = 64%nat -> kstate_wf k ->
  let '(k', m) := mask_block_full nd k (map b2n block) in
  s1_run nd (abs_kstate k) p block [] = (abs_kstate k', flatten_bits p (km_structurals m)) /\
  kstate_wf k' /\ km_structurals m < two64.
Proof.
  intros HB Hwf.
  assert (HB' : length (map b2n block) = 64%nat) by (rewrite map_length; exact HB).
  rewrite (mask_block_full_eq nd (map b2n block) HB' k Hwf). cbn [km_structurals].
  split; [|split].
  - rewrite s1_run_trace, HB.
    rewrite (state_next nd (map b2n block) HB' k Hwf).
    rewrite (flatten_out nd (map b2n block) HB' k). reflexivity.
  - apply state_next_wf; assumption.
  - apply out_lt; assumption.
Qed.

Theorem mask_block_refines nd (block : bytes) (k : kstate) (p : nat) :
  length block = 64%nat -> kstate_wf k ->
  let '(k', m) := mask_block nd k (map b2n block) in
  s1_run nd (abs_kstate k) p block [] = (abs_kstate k', flatten_bits p m) /\
  kstate_wf k' /\ m < two64.
Proof.
  intros HB Hwf. unfold mask_block.
  pose proof (mask_block_full_refines nd block k p HB Hwf) as H.
  destruct (mask_block_full nd k (map b2n block)) as [k' m]. exact H.
Qed.

(* the same, started from an arbitrary scalar state *)
Corollary mask_block_refines_scalar nd (block : bytes) (s : s1st) (p : nat) :
  length block = 64%nat ->
  let '(k', m) := mask_block nd (conc_kstate s) (map b2n block) in
  s1_run nd s p block [] = (abs_kstate k', flatten_bits p m) /\ kstate_wf k'.
Proof.
  intros HB.
  pose proof (mask_block_refines nd block (conc_kstate s) p HB (conc_wf s)) as H.
  destruct (mask_block nd (conc_kstate s) (map b2n block)) as [k' m].
  rewrite abs_conc in H. destruct H as [H1 [H2 _]]. split; assumption.
Qed.

(* the intermediate masks (what VerifSubKernels exposes) *)
Theorem mask_block_full_masks nd (B : list N) (k : kstate) (i : nat) :
  length B = 64%nat -> kstate_wf k -> (i < 64)%nat ->
  let m := snd (mask_block_full nd k B) in
  let st := st_at nd (abs_kstate k) B in
  tb (km_odd_ends m) i = negb (nth i B 0 =? cBSLASH) && s_bsodd (st i) /\
  tb (km_quote_bits m) i = (nth i B 0 =? cQUOTE) && negb (tb (km_odd_ends m) i) /\
  tb (km_quote_mask m) i = s_instr (st (S i)) /\
  tb (km_whitespace m) i = is_json_ws (nth i B 0) /\
  tb (km_structurals_in m) i = is_markup (nth i B 0) /\
  tb (km_structurals m) i = out_at nd (abs_kstate k) B i.
Proof.
  intros HB Hwf Hi. rewrite (mask_block_full_eq nd B HB k Hwf).
  cbn [snd km_odd_ends km_quote_bits km_quote_mask km_whitespace km_structurals_in km_structurals].
  destruct (masks_meaning nd B HB k i Hi) as [H1 [H2 [H3 [H4 H5]]]].
  repeat split; try assumption.
  apply (out_bits nd B HB k i Hi).
Qed.

(* ------------------------------------------------------------------ *)
(* AVX2 mask formation = AVX-512 mask formation                        *)

Theorem mask_block_full_avx2_eq nd k B : length B = 64%nat ->
  mask_block_full_avx2 nd k B = mask_block_full nd k B.
Proof.
  intros HB. unfold mask_block_full_avx2, mask_block_full, mask_block_gen.
  rewrite !(mask_of_avx2_eq _ B HB). reflexivity.
Qed.

Theorem mask_block_avx2_eq nd k B : length B = 64%nat ->
  mask_block_avx2 nd k B = mask_block nd k B.
Proof.
  intros HB. unfold mask_block_avx2, mask_block. rewrite mask_block_full_avx2_eq by exact HB. reflexivity.
Qed.
