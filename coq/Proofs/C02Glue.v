(* Glue for property C02: acceptance + denotation (AcceptProofs), parser tapes
   are well-formed (WFProofs), traversal = denotation on well-formed tapes
   (TapeProofs). *)
From SJ Require Import Model.Base Model.RefTables Spec.Json Model.Stage1 Model.Stage2 Model.Driver Model.Tape Model.Iter Model.Walk Model.WF
     Proofs.AcceptProofs Proofs.TapeProofs Proofs.WFProofs.
From Coq Require Import ZifyBool ZifyN ZifyNat.
Open Scope N_scope.

Definition pj_of (p : parsed) : pjson := {| pj_tape := p_tape p; pj_strings := p_strings p; pj_msg := p_msg p |}.

Lemma parse_message_msg nd copy bs p : parse_message nd copy bs = Ok p -> p_msg p = trim_space_go bs.
Proof.
  unfold parse_message. intros H.
  destruct (run2 copy (trim_space_go bs) (bufs_incs 0 (o_bufs (s1_buffers nd (trim_space_go bs))))); try discriminate H.
  destruct (o_ok (s1_buffers nd (trim_space_go bs))); [|discriminate H].
  injection H as <-. reflexivity.
Qed.

Theorem accepted_document_exposed_exactly : forall copy bs d p,
  N.of_nat (length bs) < 2 ^ 55 -> spec_parse bs = SOk d -> parse_model copy bs = Ok p ->
  N.of_nat (length (p_strings p)) < two64 ->
  denote (p_msg p) (p_strings p) (p_tape p) = Some [d] /\ walk_doc (pj_of p) = Ok [d].
Proof.
  intros copy bs d p Hlen Hs Hp Hstr.
  destruct (parse_accepts_valid copy bs d Hlen Hs) as (p' & Hp' & Hd).
  rewrite Hp in Hp'. injection Hp' as <-. split; [exact Hd|].
  apply walk_doc_wf_false.
  - cbn [pj_of pj_msg]. rewrite (parse_message_msg false copy bs p Hp).
    pose proof (trim_space_go_length bs) as L. unfold two64.
    assert (2 ^ 55 < 18446744073709551616) by (vm_compute; reflexivity). lia.
  - exact Hstr.
  - exact (parse_message_wf false copy bs p Hlen Hp).
  - exact Hd.
Qed.
