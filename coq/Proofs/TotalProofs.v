(* TotalProofs.v — property C05 on the model: for ARBITRARY input bytes, in
   either mode, the model of parseMessage never crashes (no index out of range
   in stage 2, no zero-length index buffer, no pop of an empty scope stack)
   and never runs out of fuel (the string kernel never reads past the message,
   the machine's iteration bound suffices). *)
From Coq Require Import ZifyBool ZifyN ZifyNat.
From SJ Require Import Model.Base Model.RefTables Spec.Json Model.Number Model.Str Model.Stage1.
From SJ Require Import Proofs.StrArith Proofs.StrProofs.
From SJ Require Import Model.Stage2 Model.Driver Model.Tape.
From SJ Require Import Proofs.Stage1Proofs Proofs.Stage1Buffers Proofs.Stage2Base Proofs.AcceptProofs.
From SJ Require Import Proofs.TotalDefs Proofs.TotalStr Proofs.TotalS1.
Open Scope N_scope.
Ltac Zify.zify_post_hook ::= Z.div_mod_to_equations.

(* ------------------------------------------------------------------ *)
(* the scope stack                                                     *)

Definition is_root (l : label) : bool :=
  match l with L_start | L_startContinue | L_ndSkip => true | _ => false end.

(* a stack inside a container: at least two entries; the one above the root
   entry returns to the root level, all others into an object or array *)
Fixpoint cstack (s : list N) : Prop :=
  match s with
  | [] => False
  | e :: s' =>
    match s' with
    | [] => False
    | _ :: s'' =>
      match s'' with
      | [] => e mod 4 = retStart
      | _ :: _ => (e mod 4 = retObject \/ e mod 4 = retArray) /\ cstack s'
      end
    end
  end.

Definition stk_ok (l : label) (s : list N) : Prop :=
  if is_root l then exists e0, s = [e0] else cstack s.

Lemma cstack_pop e st : cstack (e :: st) ->
  (e mod 4 = retStart /\ exists e0, st = [e0]) \/
  ((e mod 4 = retObject \/ e mod 4 = retArray) /\ cstack st).
Proof.
  destruct st as [|a [|b st']]; cbn [cstack].
  - intros [].
  - intros H. left. split; [exact H|]. exists a. reflexivity.
  - intros H. right. exact H.
Qed.

Lemma cstack_push e s : cstack s -> (e mod 4 = retObject \/ e mod 4 = retArray) -> cstack (e :: s).
Proof.
  destruct s as [|a [|b s']]; cbn [cstack]; try (intros []; fail).
  intros H He. split; [exact He|exact H].
Qed.

Lemma cstack_root e e0 : e mod 4 = retStart -> cstack [e; e0].
Proof. intros H. exact H. Qed.

Definition locs_ok (m : m2) : Prop := Forall (fun e => e / 4 < tlen m) (stack m).

Lemma locs_mono (s : list N) t t' : Forall (fun e => e / 4 < t) s -> t <= t' -> Forall (fun e => e / 4 < t') s.
Proof. intros H Ht. eapply Forall_impl; [|exact H]. cbn beta. intros e He. lia. Qed.

Section Tot.
Variable copy : bool.
Variable msg : bytes.

(* ------------------------------------------------------------------ *)
(* position tracking                                                   *)

Record pinv (m : m2) (ps : list nat) : Prop := {
  pi_whole : whole m = msg;
  pi_sfuel : sfuel m = S (S (length msg));
  pi_rb : noempty (rbufs m);
  pi_pend : pending m = incs (N.to_nat (idx1 m)) ps;
  pi_incr : incr_from (N.to_nat (idx1 m)) ps;
  pi_range : Forall (fun p => (p < length msg)%nat) ps;
  pi_closed : strings_closed msg ps;
  pi_cur : idx1 m <> 0 -> cur m = skipn (N.to_nat (idx1 m) - 1) msg
}.

Lemma pinv_same m m' ps :
  pinv m ps -> whole m' = whole m -> sfuel m' = sfuel m -> cbuf m' = cbuf m -> rbufs m' = rbufs m ->
  idx1 m' = idx1 m -> cur m' = cur m -> pinv m' ps.
Proof.
  intros [A B C D E F G H] E1 E2 E3 E4 E5 E6.
  constructor; unfold pending in *; rewrite ?E1, ?E2, ?E3, ?E4, ?E5, ?E6; assumption.
Qed.

(* updateChar on the next handed position: never a crash *)
Lemma uc_step m p ps' : pinv m (p :: ps') ->
  exists cb rb b rest,
    let m1 := adv m (N.of_nat (S p)) (b :: rest) cb rb in
    update_char m = UChar m1 (b2n b) /\ pinv m1 ps' /\
    (b2n b = cQUOTE -> exists k, qscan rest = Some k /\ (k < S (S (length msg)))%nat).
Proof.
  intros [A B C D E F G H].
  rewrite incs_cons in D. cbn [incr_from] in E. destruct E as [E1 E2].
  inversion F as [|? ? F1 F2]; subst. inversion G as [|? ? G1 G2]; subst.
  destruct (update_char_pending m _ _ C D) as (cb & rb & Hrest & Hrb & Hu).
  set (d := (S p - N.to_nat (idx1 m))%nat) in *.
  assert (Hd : (1 <= d)%nat) by (unfold d; lia).
  assert (Hncur : (if idx1 m =? 0 then skipn (d - 1) (whole m) else skipn d (cur m)) = skipn p msg).
  { destruct (N.eqb_spec (idx1 m) 0) as [E0|E0].
    - rewrite A. f_equal. unfold d. lia.
    - rewrite (H E0), skipn_skipn'. f_equal. unfold d. lia. }
  destruct (skipn p msg) as [|b rest] eqn:Esk.
  { exfalso. exact (skipn_nonempty p msg F1 Esk). }
  exists cb, rb, b, rest. cbv zeta.
  assert (Hi1 : idx1 m + N.of_nat d = N.of_nat (S p)) by (unfold d; lia).
  split; [|split].
  - rewrite Hu. cbv zeta. rewrite Hncur, Hi1.
    replace ((d =? 0)%nat) with false by lia. reflexivity.
  - constructor; msimpl; try assumption.
    + unfold pending. msimpl. rewrite Nat2N.id. exact Hrest.
    + rewrite Nat2N.id. exact E2.
    + intros _. rewrite Nat2N.id. replace (S p - 1)%nat with p by lia. symmetry. exact Esk.
  - intros Hq.
    assert (Hnth : nth_b msg p = cQUOTE) by (rewrite <- (skipn_head_b _ _ _ _ Esk); exact Hq).
    assert (Hrest' : skipn (S p) msg = rest).
    { replace (S p) with (p + 1)%nat by lia. rewrite <- skipn_skipn', Esk. reflexivity. }
    specialize (G1 Hnth). rewrite Hrest' in G1.
    destruct (qscan rest) as [k|] eqn:Ek; [|congruence].
    exists k. split; [reflexivity|]. apply qscan_bound in Ek.
    apply (f_equal (@length byte)) in Esk. rewrite skipn_length in Esk. cbn [length] in Esk. lia.
Qed.

(* ------------------------------------------------------------------ *)
(* results that keep the invariants                                    *)

Definition good (ps : list nat) (r : step_res) : Prop :=
  match r with
  | Next l m => pinv m ps /\ stk_ok l (stack m) /\ locs_ok m
  | Fail => True
  | Succeed _ | SCrash | SFuelOut => False
  end.

Lemma div4 t r : r < 4 -> (t * 4 + r) / 4 = t.
Proof. intros H. lia. Qed.

Lemma mod4 t r : r < 4 -> (t * 4 + r) mod 4 = r.
Proof. intros H. lia. Qed.

Lemma push_good m ps l' ret c :
  pinv m ps -> locs_ok m -> ret < 4 -> stk_ok l' ((tlen m * 4 + ret) :: stack m) ->
  good ps (Next l' (write_tape (push_scope m ret) 0 c)).
Proof.
  intros Hp Hl Hr Hs. cbn [good]. split; [|split].
  - apply (pinv_same m); try reflexivity. exact Hp.
  - msimpl. exact Hs.
  - unfold locs_ok in *. msimpl. constructor.
    + rewrite div4 by exact Hr. lia.
    + eapply locs_mono; [exact Hl|lia].
Qed.

Lemma write_tape_good m ps l' v t :
  pinv m ps -> locs_ok m -> stk_ok l' (stack m) -> good ps (Next l' (write_tape m v t)).
Proof.
  intros Hp Hl Hs. cbn [good]. split; [|split].
  - apply (pinv_same m); try reflexivity. exact Hp.
  - msimpl. exact Hs.
  - unfold locs_ok in *. msimpl. eapply locs_mono; [exact Hl|lia].
Qed.

Lemma write_raw2_good m ps l' w1 w2 :
  pinv m ps -> locs_ok m -> stk_ok l' (stack m) -> good ps (Next l' (write_raw2 m w1 w2)).
Proof.
  intros Hp Hl Hs. cbn [good]. split; [|split].
  - apply (pinv_same m); try reflexivity. exact Hp.
  - msimpl. exact Hs.
  - unfold locs_ok in *. msimpl. eapply locs_mono; [exact Hl|lia].
Qed.

Lemma scope_end_good m c ps :
  pinv m ps -> cstack (stack m) -> locs_ok m -> good ps (scope_end m c).
Proof.
  intros Hp Hs Hl. unfold scope_end.
  destruct (stack m) as [|e st] eqn:Es; [destruct Hs|].
  unfold locs_ok in Hl. rewrite Es in Hl. inversion Hl as [|? ? Hl1 Hl2]; subst.
  set (mw := write_tape (set_stack m st) (e / 4) c).
  assert (Hlt : e / 4 < tlen mw) by (unfold mw; msimpl; lia).
  rewrite (annotate_ok mw _ _ Hlt).
  set (m3 := set_tape mw _).
  assert (G : forall l', stk_ok l' st -> good ps (Next l' m3)).
  { intros l' Hl'. cbn [good]. split; [|split].
    - apply (pinv_same m); try reflexivity. exact Hp.
    - unfold m3, mw. msimpl. exact Hl'.
    - unfold locs_ok, m3, mw. msimpl. eapply locs_mono; [exact Hl2|lia]. }
  destruct (cstack_pop e st Hs) as [(Hr & e0 & He0)|(Hr & Hc)].
  - rewrite Hr. change (retStart =? retArray) with false. change (retStart =? retObject) with false.
    cbv iota. apply G. exists e0. exact He0.
  - destruct Hr as [Hr|Hr]; rewrite Hr.
    + change (retObject =? retArray) with false. change (retObject =? retObject) with true.
      cbv iota. apply G. exact Hc.
    + change (retArray =? retArray) with true. cbv iota. apply G. exact Hc.
Qed.

Lemma do_string_good m ps l' b rest k :
  pinv m ps -> cur m = b :: rest -> qscan rest = Some k -> (k < S (S (length msg)))%nat ->
  stk_ok l' (stack m) -> locs_ok m ->
  good ps (do_string copy m (fun m'' => Next l' m'')).
Proof.
  intros Hp Hc Hk Hf Hs Hl. unfold do_string. rewrite Hc, (pi_sfuel _ _ Hp).
  destruct (parse_string_closed b rest (idx1 m - 1) (peek_size m) copy (slen m) _ k Hk Hf) as [H1 H2].
  destruct (parse_string_model (b :: rest) (idx1 m - 1) (peek_size m) copy (slen m) (S (S (length msg))))
    as [r| | |]; try congruence; [|exact I].
  cbn [good]. split; [|split].
  - apply (pinv_same m); try reflexivity. exact Hp.
  - msimpl. exact Hs.
  - unfold locs_ok in *. msimpl. eapply locs_mono; [exact Hl|lia].
Qed.

Lemma value_switch_good m c ret cont ps b rest :
  pinv m ps -> cur m = b :: rest ->
  (c = cQUOTE -> exists k, qscan rest = Some k /\ (k < S (S (length msg)))%nat) ->
  cstack (stack m) -> locs_ok m -> (ret = retObject \/ ret = retArray) -> is_root cont = false ->
  good ps (value_switch copy m c ret cont).
Proof.
  intros Hp Hc Hq Hs Hl Hret Hcont. unfold value_switch.
  assert (Hsc : stk_ok cont (stack m)) by (unfold stk_ok; rewrite Hcont; exact Hs).
  assert (Hr4 : ret < 4) by (destruct Hret as [-> | ->]; reflexivity).
  assert (Hpush : forall l', is_root l' = false -> stk_ok l' ((tlen m * 4 + ret) :: stack m)).
  { intros l' Hl'. unfold stk_ok. rewrite Hl'. apply cstack_push; [exact Hs|]. rewrite mod4 by exact Hr4. exact Hret. }
  destruct (c =? cQUOTE) eqn:E1.
  { apply N.eqb_eq in E1. destruct (Hq E1) as (k & Hk & Hf). eapply do_string_good; eassumption. }
  destruct (c =? c_t) eqn:E2.
  { destruct (is_true_atom (cur m)); [|exact I]. apply write_tape_good; assumption. }
  destruct (c =? c_f) eqn:E3.
  { destruct (is_false_atom (cur m)); [|exact I]. apply write_tape_good; assumption. }
  destruct (c =? c_n) eqn:E4.
  { destruct (is_null_atom (cur m)); [|exact I]. apply write_tape_good; assumption. }
  destruct ((c =? cMINUS) || is_digit c) eqn:E5.
  { destruct (parse_number_model (cur m)) as [[w1 w2]|]; [|exact I]. apply write_raw2_good; assumption. }
  destruct (c =? cLBRACE) eqn:E6.
  { apply push_good; try assumption. apply Hpush. reflexivity. }
  destruct (c =? cLBRACK) eqn:E7.
  { apply push_good; try assumption. apply Hpush. reflexivity. }
  exact I.
Qed.

Lemma continue_root_good m c ps e0 :
  pinv m ps -> stack m = [e0] -> locs_ok m -> good ps (continue_root m c).
Proof.
  intros Hp Hs Hl. unfold continue_root.
  assert (Hpush : forall l', is_root l' = false -> stk_ok l' ((tlen m * 4 + retStart) :: stack m)).
  { intros l' Hl'. unfold stk_ok. rewrite Hl', Hs. apply cstack_root. apply mod4. reflexivity. }
  destruct (c =? cLBRACE); [apply push_good; try assumption; [reflexivity|apply Hpush; reflexivity]|].
  destruct (c =? cLBRACK); [apply push_good; try assumption; [reflexivity|apply Hpush; reflexivity]|].
  exact I.
Qed.

Lemma cycle_root_ok m e0 ps :
  pinv m ps -> stack m = [e0] -> locs_ok m ->
  exists m', cycle_root m = Ok m' /\ pinv m' ps /\ (exists e, stack m' = [e]) /\ locs_ok m'.
Proof.
  intros Hp Hs Hl. unfold cycle_root. rewrite Hs.
  unfold locs_ok in Hl. rewrite Hs in Hl. inversion Hl as [|? ? Hl1 _]; subst.
  rewrite annotate_ok by (msimpl; exact Hl1). cbn [obind].
  eexists. split; [reflexivity|]. split; [|split].
  - apply (pinv_same m); try reflexivity. exact Hp.
  - msimpl. eexists. reflexivity.
  - unfold locs_ok. msimpl. constructor; [|constructor].
    rewrite div4 by reflexivity. lia.
Qed.

(* ------------------------------------------------------------------ *)
(* one step of the machine                                             *)

Lemma step_good l m ps :
  pinv m ps -> stk_ok l (stack m) -> locs_ok m ->
  match ps with
  | [] => step copy l m = Succeed m
  | p :: ps' => good ps' (step copy l m)
  end.
Proof.
  intros Hp Hs Hl. destruct ps as [|p ps'].
  { unfold step. rewrite (update_char_done m (pi_rb _ _ Hp)); [reflexivity|].
    rewrite (pi_pend _ _ Hp). reflexivity. }
  destruct (uc_step m p ps' Hp) as (cb & rb & b & rest & Hu & Hp1 & Hq). cbv zeta in Hu, Hp1.
  set (m1 := adv m (N.of_nat (S p)) (b :: rest) cb rb) in *.
  rewrite (step_uchar copy l m m1 _ Hu).
  assert (Hs1 : stack m1 = stack m) by reflexivity.
  assert (Hl1 : locs_ok m1) by exact Hl.
  assert (Hc1 : cur m1 = b :: rest) by reflexivity.
  assert (Hsame : forall l', stk_ok l' (stack m) -> good ps' (Next l' m1)).
  { intros l' Hl'. cbn [good]. split; [exact Hp1|]. split; [exact Hl'|exact Hl1]. }
  unfold stk_ok in Hs.
  destruct l; cbn [is_root] in Hs.
  - (* L_start *)
    destruct Hs as (e0 & Hs). eapply continue_root_good; [exact Hp1|exact Hs|exact Hl1].
  - (* L_startContinue *)
    destruct (b2n b =? cLF); [|exact I]. apply Hsame. exact Hs.
  - (* L_ndSkip *)
    destruct (b2n b =? cLF); [apply Hsame; exact Hs|].
    destruct Hs as (e0 & Hs).
    destruct (cycle_root_ok m1 e0 ps' Hp1 Hs Hl1) as (m' & Hcy & Hp' & (e & Hs') & Hl').
    rewrite Hcy. eapply continue_root_good; eassumption.
  - (* L_objBegin *)
    destruct (b2n b =? cQUOTE) eqn:E1.
    { apply N.eqb_eq in E1. destruct (Hq E1) as (k & Hk & Hf).
      eapply do_string_good; try eassumption; try exact Hs. }
    destruct (b2n b =? cRBRACE); [|exact I]. apply scope_end_good; assumption.
  - (* L_objColon *)
    destruct (b2n b =? cCOLON); [|exact I]. apply Hsame. exact Hs.
  - (* L_objValue *)
    eapply value_switch_good; try eassumption; [left; reflexivity|reflexivity].
  - (* L_objCont *)
    destruct (b2n b =? cCOMMA); [apply Hsame; exact Hs|].
    destruct (b2n b =? cRBRACE); [|exact I]. apply scope_end_good; assumption.
  - (* L_objKey *)
    destruct (b2n b =? cQUOTE) eqn:E1; [|exact I].
    apply N.eqb_eq in E1. destruct (Hq E1) as (k & Hk & Hf).
    eapply do_string_good; try eassumption; try exact Hs.
  - (* L_arrBegin *)
    destruct (b2n b =? cRBRACK); [apply scope_end_good; assumption|].
    eapply value_switch_good; try eassumption; [right; reflexivity|reflexivity].
  - (* L_arrValue *)
    eapply value_switch_good; try eassumption; [right; reflexivity|reflexivity].
  - (* L_arrCont *)
    destruct (b2n b =? cCOMMA); [apply Hsame; exact Hs|].
    destruct (b2n b =? cRBRACK); [|exact I]. apply scope_end_good; assumption.
Qed.

(* the "succeed:" block never crashes *)
Lemma finish_total l m : stk_ok l (stack m) -> locs_ok m ->
  finish m <> Crash /\ finish m <> OutOfFuel.
Proof.
  intros Hs Hl. unfold finish.
  destruct (stack m) as [|e st] eqn:Es.
  { exfalso. unfold stk_ok in Hs. destruct (is_root l); [destruct Hs as (e0 & Hs); discriminate|destruct Hs]. }
  destruct st as [|e' st']; [|split; discriminate].
  unfold locs_ok in Hl. rewrite Es in Hl. inversion Hl as [|? ? Hl1 _]; subst.
  rewrite annotate_ok by (msimpl; exact Hl1). cbn [obind]. split; discriminate.
Qed.

(* the goto machine: the iteration bound suffices, no crash *)
Theorem run_labels_total : forall fuel l m ps,
  pinv m ps -> stk_ok l (stack m) -> locs_ok m -> (length ps < fuel)%nat ->
  run_labels fuel copy l m <> Crash /\ run_labels fuel copy l m <> OutOfFuel.
Proof.
  induction fuel as [|f IH]; intros l m ps Hp Hs Hl Hf; [lia|].
  cbn [run_labels]. pose proof (step_good l m ps Hp Hs Hl) as Hg.
  destruct ps as [|p ps'].
  - rewrite Hg. eapply finish_total; eassumption.
  - destruct (step copy l m) as [l' m'|m'| | |]; cbn [good] in Hg; try contradiction.
    + destruct Hg as (Hp' & Hs' & Hl'). apply (IH l' m' ps'); try assumption. cbn [length] in Hf. lia.
    + split; discriminate.
Qed.

End Tot.

(* ------------------------------------------------------------------ *)
(* stage 2 on what stage 1 hands over                                  *)

Theorem run2_total (copy : bool) (msg : bytes) (pbufs : list (list nat)) :
  Forall (fun b => b <> []) pbufs ->
  incr_from 0 (concat pbufs) ->
  Forall (fun p => (p < length msg)%nat) (concat pbufs) ->
  strings_closed msg (concat pbufs) ->
  run2 copy msg (bufs_incs 0 pbufs) <> Crash /\ run2 copy msg (bufs_incs 0 pbufs) <> OutOfFuel.
Proof.
  intros Hne Hinc Hrange Hcl. unfold run2. cbv zeta.
  set (bufs := bufs_incs 0 pbufs).
  set (m1 := write_tape (push_scope (m2_init msg bufs) retStart) 0 TagRoot).
  apply (run_labels_total copy msg _ L_start m1 (concat pbufs)).
  - constructor; try reflexivity; try assumption.
    + apply bufs_incs_noempty. exact Hne.
    + unfold pending, m1. msimpl. cbn [m2_init cbuf rbufs app]. unfold bufs. apply bufs_incs_concat.
    + intros H. exfalso. apply H. reflexivity.
  - exists 1. reflexivity.
  - unfold locs_ok, m1. msimpl. cbn [m2_init stack tlen]. constructor; [|constructor]. reflexivity.
  - rewrite fold_left_len. unfold bufs. rewrite bufs_incs_concat, incs_length. lia.
Qed.

(* ------------------------------------------------------------------ *)
(* the main theorem                                                    *)

Theorem parse_message_total : forall (nd copy : bool) (bs : bytes),
  parse_message nd copy bs <> Crash /\ parse_message nd copy bs <> OutOfFuel.
Proof.
  intros nd copy bs. unfold parse_message. cbv zeta.
  set (msg := trim_space_go bs).
  destruct (s1_facts nd msg) as (Hne & Hinc & Hrange & Hcl & _). cbv zeta in *.
  destruct (run2_total copy msg (o_bufs (s1_buffers nd msg)) Hne Hinc Hrange Hcl) as [H1 H2].
  destruct (run2 copy msg (bufs_incs 0 (o_bufs (s1_buffers nd msg)))) as [m| | |]; try congruence.
  - destruct (o_ok (s1_buffers nd msg)); split; discriminate.
  - split; discriminate.
Qed.

Theorem parse_total : forall (nd copy : bool) (bs : bytes),
  N.of_nat (length bs) < 2 ^ 55 ->
  parse_message nd copy bs <> Crash /\ parse_message nd copy bs <> OutOfFuel.
Proof. intros nd copy bs _. apply parse_message_total. Qed.

(* ------------------------------------------------------------------ *)
(* examples                                                            *)

From SJ Require Import Model.Oracle.
Import String.StringSyntax.
Open Scope string_scope.

Definition total_on (nd copy : bool) (bs : bytes) : bool :=
  match parse_message nd copy bs with Crash | OutOfFuel => false | _ => true end.

(* an unterminated string, a lone quote, a dangling backslash, truncated \u
   escapes, unbalanced brackets, a scalar at the root *)
Example ex_total_1 : forallb (fun s => total_on false true s && total_on true false s)
  [lit "{""a"; lit """"; lit "[""\"; lit "[""\u12"; lit "[""\ud800\u"; lit "]]]"; lit "{}}"; lit "1";
   lit ""; lit "[1,"; lit "{""a"":""b\"""; lit "\"""; lit "[""a"",""b"",""c"; lit "[] x"] = true.
Proof. vm_compute. reflexivity. Qed.

(* inputs whose structurals fill several index buffers (strip-and-carry of a
   dangling quote, an unterminated last string, NDJSON) *)
Fixpoint rep (n : nat) (s : bytes) : bytes := match n with O => [] | S k => s ++ rep k s end.
Definition big1 : bytes := lit "[" ++ rep 1000 (lit """a\""b"",") ++ lit """zz".
Definition big2 : bytes := lit "[" ++ rep 1500 (lit "[") ++ lit """unterminated \""".
Definition big3 : bytes := rep 300 (lit "{""k"":[1,2,{""x"":null}]}" ++ [n2b 10]) ++ lit "{""a"":""b".

Example ex_total_2 :
  (total_on false true big1 && total_on true false big1 && total_on false false big2 &&
   total_on true true big3 && total_on false true big3) = true.
Proof. vm_compute. reflexivity. Qed.

Example ex_total_bufs :
  (map (@length nat) (o_bufs (s1_buffers false big1)), map (@length nat) (o_bufs (s1_buffers true big3)))
  = ([1407%nat], [1425%nat; 1424%nat; 1424%nat]).
Proof. vm_compute. reflexivity. Qed.

Print Assumptions run2_total.
Print Assumptions parse_message_total.
Print Assumptions parse_total.
