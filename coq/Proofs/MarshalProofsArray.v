(* MarshalProofsArray.v — property C10 for Array.MarshalJSONBuffer
   (Model.Marshal.marshal_array): on every array of a structured tape — empty,
   non-empty, or consisting only of NOP runs after all elements were deleted —
   it returns the text of the array, exactly as Iter.MarshalJSONBuffer does.
   (Before fix F16 the empty array was an error: AdvanceIter consumes the
   closing bracket and PeekNextTag then no longer sees TagArrayEnd.) *)
From SJ Require Import Model.Base Model.RefTables Spec.Json Model.Tape Model.Iter Model.Walk
     Model.FloatFmt.
From SJ Require Import Proofs.TapeBase Proofs.TapeSeg Proofs.TapeDen Proofs.TapePath Proofs.TapeEdit
     Proofs.TapeIter Proofs.SerBase.
From SJ Require Import Model.Marshal Proofs.MarshalProofsBase Proofs.MarshalProofsRefine.
From Coq Require Import ZifyBool ZifyN ZifyNat.
Open Scope Z_scope.

Definition arr_fin (pj : pjson) (it' : iter) (out : bytes) : outcome bytes :=
  do tg <- peek_next_tag pj it';
  if (tg =? TagArrayEnd)%N then Ok (n2b 91 :: out ++ [n2b 93]) else Err.

Section Go.
Variable pj : pjson.
Fixpoint arr_go (fuel : nat) (it : iter) (out : bytes) : outcome bytes :=
  match fuel with
  | O => OutOfFuel
  | S f =>
    do r <- advance_iter pj it;
    match r with
    | (it', None, _) => arr_fin pj it' out
    | (it', Some el, ty) =>
      if (ty =? TypeNone)%N then
        (if (i_t it' =? TagArrayEnd)%N then Ok (n2b 91 :: out ++ [n2b 93]) else arr_fin pj it' out)
      else
        do s <- marshal_iter pj el;
        do tg <- peek_next_tag pj it';
        if (tg =? TagArrayEnd)%N then arr_fin pj it' (out ++ s) else arr_go f it' (out ++ s ++ [n2b 44])
    end
  end.
End Go.

Lemma marshal_array_eq pj a : marshal_array pj a = arr_go pj (cont_fuel a) (cont_iter a) [].
Proof. reflexivity. Qed.

Section Arr.
Variables (pj : pjson) (strict adj : bool).
Notation msg := (pj_msg pj).
Notation strings := (pj_strings pj).
Notation val_seg := (val_seg msg strings strict adj).
Notation items := (items msg strings strict adj).
Notation mitems := (mitems msg strings strict adj).
Notation nops_seg := (nops_seg strict).

Definition A_items (k : N) (body : list N) (l : list doc) : Prop :=
  forall n0 pre e X it fuel out,
    nops_seg n0 -> pj_tape pj = pre ++ n0 ++ body ++ e :: X -> word_tag e = TagArrayEnd ->
    (nlen pre + nlen n0 = k)%N -> at_pos it (length pre) ->
    i_len it = Z.of_nat (length pre + length n0 + length body + 1) ->
    l <> [] -> (length body < fuel)%nat ->
    arr_go pj fuel it out =
      if forallb fin_doc l then Ok (n2b 91 :: (out ++ pr_elems false l) ++ [n2b 93]) else Err.

Lemma arr_fin_at_end it n e pre X out :
  nops_seg n -> pj_tape pj = pre ++ n ++ e :: X -> word_tag e = TagArrayEnd ->
  at_pos it (length pre) -> Z.of_nat (length pre) + Z.of_nat (length n) < i_len it ->
  arr_fin pj it out = Ok (n2b 91 :: out ++ [n2b 93]).
Proof.
  intros Hn Htape He Hpos Hlen. unfold arr_fin.
  rewrite (peek_at strict pj it n e pre X Hn Htape ltac:(rewrite He; discriminate) Hpos Hlen).
  cbn [obind]. rewrite He. reflexivity.
Qed.

Lemma A_it_val i v d rest l :
  val_seg i v d -> items (i + nlen v)%N rest l -> A_items (i + nlen v)%N rest l ->
  A_items i (v ++ rest) (d :: l).
Proof.
  intros Hv Hit IH n0 pre e X it fuel out Hn0 Htape He Hk Hpos Hlen _ Hf.
  destruct (val_seg_head _ _ _ _ _ _ _ Hv) as (w & r & -> & Htag).
  assert (Htape' : pj_tape pj = pre ++ n0 ++ (w :: r) ++ rest ++ e :: X) by (rewrite Htape; leq).
  assert (Hv' : val_seg (nlen pre + nlen n0) (w :: r) d) by (eapply val_seg_idx; [|exact Hv]; lia).
  destruct (advance_iter_value msg strings strict adj pj it n0 w r d pre _ Hn0 Htape' Hv' Hpos)
    as (it' & el & Hadv & Hon & Hlel & Hpos' & Hlen' & Hty).
  { rewrite Hlen. len. }
  destruct fuel as [|f]; [lia|]. cbn [arr_go]. rewrite Hadv. cbn [obind].
  replace (TagToType_ref (word_tag w) =? TypeNone)%N with false
    by (symmetry; apply N.eqb_neq; exact Hty).
  rewrite (marshal_value_iter pj strict adj (pre ++ n0) (w :: r) (rest ++ e :: X) d w r el).
  2:{ rewrite Htape. leq. }
  2:{ eapply val_seg_idx; [|exact Hv]. len. }
  2:{ reflexivity. }
  2:{ rewrite app_length. exact Hon. }
  2:{ rewrite Hlel. len. }
  unfold value_spec, print_doc. cbn [forallb].
  destruct (fin_doc d); [|reflexivity]. cbn [obind andb].
  assert (Hp2 : at_pos it' (length (pre ++ n0 ++ w :: r))) by len.
  pose proof (items_front msg strings strict adj _ _ _ Hit) as Hfront.
  destruct l as [|d2 l2].
  - (* last element *)
    assert (Ht2 : pj_tape pj = (pre ++ n0 ++ w :: r) ++ rest ++ e :: X) by (rewrite Htape; leq).
    rewrite (peek_at strict pj it' rest e _ X Hfront Ht2 ltac:(rewrite He; discriminate) Hp2)
      by (rewrite Hlen', Hlen; len).
    cbn [obind]. rewrite He. change (TagArrayEnd =? TagArrayEnd)%N with true. cbv iota.
    rewrite (arr_fin_at_end it' rest e _ X _ Hfront Ht2 He Hp2) by (rewrite Hlen', Hlen; len).
    cbn [forallb]. unfold pr_elems. cbn [map join_with app]. rewrite app_nil_r. reflexivity.
  - destruct Hfront as (n & v2 & rest2 & -> & Hn & Hv2 & Hrest2).
    destruct (val_seg_head _ _ _ _ _ _ _ Hv2) as (w2 & r2 & -> & Htag2).
    destruct (val_tag_not _ Htag2) as (T1 & T2 & T3 & _).
    assert (Ht2 : pj_tape pj = (pre ++ n0 ++ w :: r) ++ n ++ w2 :: (r2 ++ rest2 ++ e :: X))
      by (rewrite Htape; leq).
    rewrite (peek_at strict pj it' n w2 _ _ Hn Ht2 T1 Hp2) by (rewrite Hlen', Hlen; len).
    cbn [obind].
    replace (word_tag w2 =? TagArrayEnd)%N with false by (symmetry; apply N.eqb_neq; exact T3).
    rewrite (IH [] (pre ++ n0 ++ w :: r) e X it' f (out ++ pr_doc d ++ [n2b 44])).
    + destruct (forallb fin_doc (d2 :: l2)); [|reflexivity]. do 3 f_equal.
      unfold pr_elems. cbn [map join_with app]. rewrite <- !app_assoc. reflexivity.
    + constructor.
    + rewrite Htape. leq.
    + exact He.
    + len.
    + exact Hp2.
    + rewrite Hlen', Hlen. len.
    + discriminate.
    + revert Hf. len.
Qed.

Lemma A_it_nop i w junk rest l :
  word_tag w = TagNop -> word_val w = (nlen junk + 1)%N ->
  (strict = true -> is_run (w :: junk)) ->
  A_items (i + nlen junk + 1)%N rest l -> A_items i (w :: junk ++ rest) l.
Proof.
  intros Ht Hv Hrun IH n0 pre e X it fuel out Hn0 Htape He Hk Hpos Hlen Hne Hf.
  apply (IH (n0 ++ w :: junk) pre e X it fuel out).
  - apply nops_seg_app; [exact Hn0|apply nops_one; assumption].
  - rewrite Htape. leq.
  - exact He.
  - len.
  - exact Hpos.
  - rewrite Hlen. len.
  - exact Hne.
  - revert Hf. len.
Qed.

Theorem arr_items :
  (forall i v d, val_seg i v d -> True) /\
  (forall i b l, items i b l -> A_items i b l) /\
  (forall i b l, mitems i b l -> True).
Proof.
  apply seg_mutind; intros; auto.
  - intros n0 pre e X it fuel out _ _ _ _ _ _ Hne. congruence.
  - apply A_it_nop; auto.
  - apply A_it_val; auto.
Qed.

(* Array.MarshalJSONBuffer of the array whose segment is w :: body ++ [e];
   [a] is what Iter.Array returns for an iterator on w *)
Theorem marshal_array_refines pre w body e X l :
  pj_tape pj = pre ++ (w :: body ++ [e]) ++ X ->
  items (nlen pre + 1)%N body l -> word_tag e = TagArrayEnd ->
  word_val w = (nlen pre + nlen body + 2)%N -> l <> [] ->
  marshal_array pj {| c_len := Z.of_N (word_val w); c_off := Z.of_nat (length pre) + 1 |} =
    value_spec (DArr l).
Proof.
  intros Htape Hit He Hw Hne. rewrite marshal_array_eq.
  rewrite (proj1 (proj2 arr_items) _ _ _ Hit [] (pre ++ [w]) e X).
  - unfold value_spec, print_doc. cbn [fin_doc].
    destruct (forallb fin_doc l); reflexivity.
  - constructor.
  - rewrite Htape. leq.
  - exact He.
  - len.
  - unfold at_pos, cont_iter. cbn [i_off i_add c_off]. len.
  - unfold cont_iter. cbn [i_len c_len]. rewrite Hw. len.
  - exact Hne.
  - unfold cont_fuel. cbn [c_len]. rewrite Hw. len.
Qed.

(* the empty array (possibly full of NOPs left by deletions): "[]" *)
Theorem marshal_array_empty pre w body e X :
  pj_tape pj = pre ++ (w :: body ++ [e]) ++ X ->
  items (nlen pre + 1)%N body [] -> word_tag e = TagArrayEnd ->
  word_val w = (nlen pre + nlen body + 2)%N ->
  marshal_array pj {| c_len := Z.of_N (word_val w); c_off := Z.of_nat (length pre) + 1 |} =
    Ok [n2b 91; n2b 93].
Proof.
  intros Htape Hit He Hw. rewrite marshal_array_eq.
  pose proof (items_front msg strings strict adj _ _ _ Hit) as Hn. cbv iota in Hn.
  set (a := {| c_len := Z.of_N (word_val w); c_off := Z.of_nat (length pre) + 1 |}).
  set (it := cont_iter a).
  assert (Hl : i_len it = Z.of_nat (length pre + 1 + length body + 1)).
  { subst it a. unfold cont_iter. cbn [i_len c_len]. rewrite Hw. len. }
  assert (Htape' : pj_tape pj = (pre ++ [w]) ++ body ++ e :: X) by (rewrite Htape; leq).
  unfold cont_fuel. cbn [arr_go].
  (* AdvanceIter lands on the closing bracket *)
  unfold advance_iter. change (i_off it + i_add it) with (Z.of_nat (length pre) + 1 + 0).
  destruct (advance_iter_loop_skip strict pj it body Hn (fuel_of it) (pre ++ [w]) (e :: X)
              (Z.of_nat (length pre) + 1 + 0) Htape') as (f' & Hf' & ->).
  { len. } { rewrite Hl. len. } { unfold fuel_of. rewrite Hl. len. }
  destruct f' as [|f']; [lia|]. cbn [advance_iter_loop].
  replace (Z.of_nat (length pre) + 1 + 0 + Z.of_nat (length body) =? i_len it) with false by lia.
  replace (i_len it <? Z.of_nat (length pre) + 1 + 0 + Z.of_nat (length body)) with false by lia.
  assert (Htape2 : pj_tape pj = (pre ++ [w] ++ body) ++ e :: X) by (rewrite Htape; leq).
  rewrite (rd_app pj (i_len it) _ (pre ++ [w] ++ body) e X Htape2) by len.
  cbn [obind]. rewrite He. change (TagArrayEnd =? TagNop)%N with false. cbv iota.
  unfold with_calc, set_i. cbn [i_off i_cur i_t i_add i_len].
  change (calc_next false ?o ?c TagArrayEnd) with 0.
  change (0 <? 0) with false. cbv iota.
  replace (i_len it <? Z.of_nat (length pre) + 1 + 0 + Z.of_nat (length body) + 1 + 0) with false by lia.
  cbn [obind i_t]. change (TagToType_ref TagArrayEnd =? TypeNone)%N with true. cbv iota.
  (* the iterator's tag is the closing bracket it has just consumed *)
  change (TagArrayEnd =? TagArrayEnd)%N with true. cbv iota. reflexivity.
Qed.

(* every array *)
Theorem marshal_array_any pre w body e X l :
  pj_tape pj = pre ++ (w :: body ++ [e]) ++ X ->
  items (nlen pre + 1)%N body l -> word_tag e = TagArrayEnd ->
  word_val w = (nlen pre + nlen body + 2)%N ->
  marshal_array pj {| c_len := Z.of_N (word_val w); c_off := Z.of_nat (length pre) + 1 |} =
    value_spec (DArr l).
Proof.
  intros Htape Hit He Hw. destruct l as [|d l'].
  - rewrite (marshal_array_empty pre w body e X Htape Hit He Hw). reflexivity.
  - apply (marshal_array_refines pre w body e X (d :: l') Htape Hit He Hw). discriminate.
Qed.

End Arr.

(* concrete tapes: [] and an array whose two elements were deleted (NOP runs only) *)
Example ex_empty_array_marshal :
  let pj := {| pj_tape := [mk_word TagRoot 4; mk_word TagArrayStart 3; mk_word TagArrayEnd 1; mk_word TagRoot 0];
               pj_strings := []; pj_msg := [] |} in
  denote (pj_msg pj) (pj_strings pj) (pj_tape pj) = Some [DArr []] /\
  marshal_iter pj (iter0 pj) = Ok [n2b 91; n2b 93] /\
  (do r1 <- advance_into pj (iter0 pj); do r2 <- advance_into pj (fst r1);
   do a <- iter_array (fst r2); marshal_array pj a) = Ok [n2b 91; n2b 93].
Proof. vm_compute. repeat split. Qed.

Example ex_all_deleted_array_marshal :
  let pj := {| pj_tape := [mk_word TagRoot 7; mk_word TagArrayStart 6; mk_word TagNop 3; mk_word TagNop 2;
                           mk_word TagNop 1; mk_word TagArrayEnd 1; mk_word TagRoot 0];
               pj_strings := []; pj_msg := [] |} in
  denote (pj_msg pj) (pj_strings pj) (pj_tape pj) = Some [DArr []] /\
  marshal_iter pj (iter0 pj) = Ok [n2b 91; n2b 93] /\
  (do r1 <- advance_into pj (iter0 pj); do r2 <- advance_into pj (fst r1);
   do a <- iter_array (fst r2); marshal_array pj a) = Ok [n2b 91; n2b 93].
Proof. vm_compute. repeat split. Qed.

Print Assumptions marshal_array_refines.
Print Assumptions marshal_array_any.
