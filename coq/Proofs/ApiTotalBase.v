(* ApiTotalBase.v — the iterator primitives of Model/Iter.v on ARBITRARY tapes:
   for every pj (any tape words, any string buffer, any message) and every
   iterator satisfying the reachability invariant [iter_ok], Advance,
   AdvanceInto, AdvanceIter, PeekNextTag, Root, Object, Array, the typed
   accessors and NextElementBytes never return Crash; all but
   NextElementBytes never return OutOfFuel with the model's own fuel.
   Nothing is assumed about well-formedness of the tape. *)
From SJ Require Import Model.Base Model.RefTables Spec.Json Model.Tape Model.Iter Model.Walk.
From Coq Require Import Lia ZifyBool ZifyNat ZifyN.
Open Scope Z_scope.

(* ------------------------------------------------------------------ *)
(* outcomes                                                            *)

(* [okP fu P o]: o is not Crash; it is not OutOfFuel unless fu = true; a
   result satisfies P *)
Definition okP {A} (fu : bool) (P : A -> Prop) (o : outcome A) : Prop :=
  match o with
  | Ok a => P a
  | Err => True
  | Crash => False
  | OutOfFuel => if fu then True else False
  end.

Lemma okP_bind {A B} fu (P : A -> Prop) (Q : B -> Prop) (o : outcome A) (f : A -> outcome B) :
  okP fu P o -> (forall a, P a -> okP fu Q (f a)) -> okP fu Q (obind o f).
Proof. destruct o as [a| | |]; cbn; intros H K; auto. Qed.

Lemma okP_weaken {A} fu (P Q : A -> Prop) (o : outcome A) :
  (forall a, P a -> Q a) -> okP fu P o -> okP fu Q o.
Proof. destruct o; cbn; auto. Qed.

Lemma okP_fuel {A} fu (P : A -> Prop) (o : outcome A) : okP false P o -> okP fu P o.
Proof. destruct o, fu; cbn; auto; contradiction. Qed.

Lemma okP_no_crash {A} fu (P : A -> Prop) (o : outcome A) : okP fu P o -> o <> Crash.
Proof. destruct o; cbn; intros H; try discriminate; contradiction. Qed.

Lemma okP_no_fuel {A} (P : A -> Prop) (o : outcome A) : okP false P o -> o <> OutOfFuel.
Proof. destruct o; cbn; intros H; try discriminate; contradiction. Qed.

Lemma okP_total {A} (P : A -> Prop) (o : outcome A) : okP false P o -> o = Err \/ exists a, o = Ok a /\ P a.
Proof. destruct o as [a| | |]; cbn; intros H; try contradiction; [right; exists a; auto|left; auto]. Qed.

Lemma okP_intro {A} (o : outcome A) : o <> Crash -> o <> OutOfFuel -> okP false (fun _ => True) o.
Proof. destruct o; cbn; auto. Qed.

Definition top {A} (_ : A) : Prop := True.

(* ------------------------------------------------------------------ *)
(* invariants                                                          *)

Definition tlen (pj : pjson) : Z := Z.of_nat (length (pj_tape pj)).

(* every iterator the API can produce: its view is a prefix of the tape,
   offsets are not negative, and a queued tag was read at off-1 *)
Definition iter_ok (pj : pjson) (i : iter) : Prop :=
  0 <= i_len i <= tlen pj /\ 0 <= i_off i /\ 0 <= i_add i /\ (i_t i <> TagEnd -> 1 <= i_off i).

Definition cont_ok (pj : pjson) (c : cont) : Prop := 0 <= c_len c <= tlen pj /\ 0 <= c_off c.

Lemma iter0_ok pj : iter_ok pj (iter0 pj).
Proof. unfold iter_ok, iter0, tlen; cbn. repeat split; try lia; try (intros H; now elim H). Qed.

Lemma cont_iter_ok pj c : cont_ok pj c -> iter_ok pj (cont_iter c).
Proof. intros [H1 H2]. unfold iter_ok, cont_iter; cbn. repeat split; try lia; try (intros H; now elim H). Qed.

Definition pos (i : iter) : Z := i_off i + i_add i.
(* words left in the view after the queued element *)
Definition mu (i : iter) : nat := Z.to_nat (i_len i - pos i).

(* ------------------------------------------------------------------ *)
(* Tape[off]                                                           *)

Lemma rd_in pj len off : len <= tlen pj -> 0 <= off < len -> exists w, rd pj len off = Ok w.
Proof.
  intros Hl Ho. unfold rd.
  replace ((0 <=? off) && (off <? len)) with true by lia.
  destruct (nth_error (pj_tape pj) (Z.to_nat off)) as [w|] eqn:E.
  - exists w; reflexivity.
  - apply nth_error_None in E. unfold tlen in Hl. lia.
Qed.

(* ------------------------------------------------------------------ *)
(* calcNext                                                            *)

Lemma calc_next_true off cur t : 0 <= calc_next true off cur t <= 1.
Proof. unfold calc_next. destruct (is2 t); [lia|]. destruct (is_open t); lia. Qed.

Lemma calc_next_false off cur t :
  calc_next false off cur t = 1 \/ calc_next false off cur t = 0 \/
  (is_open t = true /\ calc_next false off cur t = Z.of_N cur - off).
Proof. unfold calc_next. destruct (is2 t); [auto|]. destruct (is_open t); auto. Qed.

Lemma TagToType_End : TagToType_ref TagEnd = TypeNone.
Proof. reflexivity. Qed.

Lemma TagToType_nonnone t : TagToType_ref t <> TypeNone -> t <> TagEnd.
Proof. intros H ->. apply H. reflexivity. Qed.

Lemma TagToType_string t : TagToType_ref t = TypeString -> t = TagString.
Proof.
  unfold TagToType_ref.
  destruct (N.eqb_spec t TagString); [auto|].
  repeat match goal with |- context [if ?b then _ else _] => destruct b end; discriminate.
Qed.


Ltac fin :=
  unfold iter_ok, cont_ok, pos in *;
  cbn [set_i move_to_end with_calc i_len i_off i_add i_t i_cur c_len c_off fst snd] in *;
  repeat split; try lia; try (intros; lia); try (let H := fresh in intros H; now elim H); try congruence; auto.

(* ------------------------------------------------------------------ *)
(* Advance                                                             *)

(* what every Advance-like step guarantees, relative to the position p it
   started reading at *)
Record adv_post (pj : pjson) (i : iter) (p : Z) (i' : iter) : Prop := {
  ap_ok : iter_ok pj i';
  ap_len : i_len i' = i_len i;
  ap_prog : p < i_len i -> p < pos i';
  ap_off : p < i_len i -> p < i_off i';
  ap_end : i_len i <= p -> i_off i' = p /\ i_add i' = 0 /\ i_t i' = TagEnd
}.

(* the type answer: TypeNone, or the type of the queued tag which was read
   inside the view *)
Definition ty_post (i : iter) (p : Z) (i' : iter) (ty : N) : Prop :=
  (i_len i <= p -> ty = TypeNone) /\
  (ty <> TypeNone -> ty = TagToType_ref (i_t i') /\ p < i_off i' <= i_len i).

Lemma adv_post_shift pj i p p' i' : p < i_len i -> p < p' ->
  adv_post pj i p' i' -> adv_post pj i p i'.
Proof.
  intros Hp Hx [A B C F D]. split; auto.
  - intros H. destruct (Z_lt_le_dec p' (i_len i)) as [H1|H1]; [specialize (C H1); lia|].
    destruct (D H1) as (D1 & D2 & D3). unfold pos. lia.
  - intros H. destruct (Z_lt_le_dec p' (i_len i)) as [H1|H1]; [specialize (F H1); lia|].
    destruct (D H1) as (D1 & D2 & D3). lia.
  - intros H. lia.
Qed.

Lemma advance_loop_spec : forall fuel pj i off,
  0 <= i_len i <= tlen pj -> 0 <= off -> (Z.to_nat (i_len i - off) < fuel)%nat ->
  okP false (fun r => adv_post pj i off (fst r) /\ ty_post i off (fst r) (snd r))
      (advance_loop fuel pj i off).
Proof.
  induction fuel as [|f IH]; intros pj i off Hl Ho Hf; [lia|].
  cbn [advance_loop].
  destruct (i_len i <=? off) eqn:E.
  - cbn [okP fst snd]. split.
    + split; fin.
    + split; [reflexivity|]. intros H; now elim H.
  - destruct (rd_in pj (i_len i) off (proj2 Hl)) as (v & ->); [lia|]. cbn [obind].
    destruct (word_tag v =? TagNop)%N eqn:En.
    + destruct (word_val v =? 0)%N eqn:Ec.
      * cbn [okP fst snd]. split.
        -- split; fin.
        -- split; [reflexivity|]. intros H; now elim H.
      * assert (Hc : 1 <= Z.of_N (word_val v)) by lia.
        eapply okP_weaken; [|apply (IH pj i (off + 1 + Z.of_N (word_val v) - 1)); lia].
        intros [i' ty] [HA HT]. cbn [fst snd] in *. split.
        -- eapply adv_post_shift; [| |exact HA]; lia.
        -- destruct HT as [T1 T2]. split; [intros; lia|]. intros H. specialize (T2 H). lia.
    + set (a := calc_next false (off + 1) (word_val v) (word_tag v)).
      cbv zeta. cbn [with_calc set_i i_len i_off i_add i_t i_cur]. fold a.
      destruct (a <? 0) eqn:Ea.
      * cbn [okP fst snd]. split.
        -- split; fin.
        -- split; [intros; lia|]. intros H; now elim H.
      * cbn [okP fst snd]. split.
        -- split; fin.
        -- split; [intros; lia|]. intros _. split; [reflexivity|fin].
Qed.

Lemma advance_spec pj i : iter_ok pj i ->
  okP false (fun r => adv_post pj i (pos i) (fst r) /\ ty_post i (pos i) (fst r) (snd r)) (advance pj i).
Proof.
  intros ([H0 H1] & H2 & H3 & H4). unfold advance. apply advance_loop_spec; unfold fuel_of; lia.
Qed.

(* consequence used by every loop: a step either stops (TypeNone at the end
   of the view) or strictly decreases mu *)
Lemma adv_post_mu pj i i' : adv_post pj i (pos i) i' -> (0 < mu i)%nat -> (mu i' < mu i)%nat.
Proof.
  intros [A B C F D] Hm. unfold mu in *. rewrite B.
  assert (pos i < i_len i) by lia. specialize (C H). lia.
Qed.

Lemma adv_post_mu0 pj i i' : adv_post pj i (pos i) i' -> mu i = O -> mu i' = O.
Proof.
  intros [A B C F D] Hm. unfold mu in *. rewrite B.
  assert (i_len i <= pos i) by lia. destruct (D H) as (D1 & D2 & D3). unfold pos in *. lia.
Qed.

Lemma adv_post_mu_le pj i i' : adv_post pj i (pos i) i' -> (mu i' <= mu i)%nat.
Proof.
  intros H. destruct (mu i) eqn:E.
  - rewrite (adv_post_mu0 _ _ _ H E). lia.
  - assert (mu i' < mu i)%nat by (apply (adv_post_mu pj); [exact H|lia]). lia.
Qed.

(* ------------------------------------------------------------------ *)
(* AdvanceInto                                                         *)

Definition tag_post (i : iter) (p : Z) (i' : iter) (t : N) : Prop :=
  (i_len i <= p -> t = TagEnd) /\ (t <> TagEnd -> t = i_t i' /\ p < i_off i' <= i_len i) /\
  (t = TagEnd -> i_t i' = TagEnd).

Lemma advance_into_loop_spec : forall fuel pj i off,
  0 <= i_len i <= tlen pj -> 0 <= off -> (Z.to_nat (i_len i - off) < fuel)%nat ->
  okP false (fun r => adv_post pj i off (fst r) /\ tag_post i off (fst r) (snd r))
      (advance_into_loop fuel pj i off).
Proof.
  induction fuel as [|f IH]; intros pj i off Hl Ho Hf; [lia|].
  cbn [advance_into_loop].
  destruct (i_len i <=? off) eqn:E.
  - cbn [okP fst snd]. split.
    + split; fin.
    + unfold tag_post; fin; try (exfalso; auto; fail).
  - destruct (rd_in pj (i_len i) off (proj2 Hl)) as (v & ->); [lia|]. cbn [obind].
    destruct (word_tag v =? TagNop)%N eqn:En.
    + destruct (word_val v =? 0)%N eqn:Ec.
      * cbn [okP fst snd]. split.
        -- split; fin.
        -- unfold tag_post; fin; try (exfalso; auto; fail).
      * assert (Hc : 1 <= Z.of_N (word_val v)) by lia.
        eapply okP_weaken; [|apply (IH pj i (off + Z.of_N (word_val v))); lia].
        intros [i' ty] [HA HT]. cbn [fst snd] in *. split.
        -- eapply adv_post_shift; [| |exact HA]; lia.
        -- destruct HT as (T1 & T2 & T3). repeat split; auto; try (intros; lia).
           all: intros H; specialize (T2 H); try tauto; lia.
    + set (a := calc_next true (off + 1) (word_val v) (word_tag v)).
      pose proof (calc_next_true (off + 1) (word_val v) (word_tag v)) as Ha. fold a in Ha.
      cbv zeta. cbn [with_calc set_i i_len i_off i_add i_t i_cur]. fold a.
      cbn [okP fst snd]. split.
      * split; fin.
      * unfold tag_post; fin.
Qed.

Lemma advance_into_spec pj i : iter_ok pj i ->
  okP false (fun r => adv_post pj i (pos i) (fst r) /\ tag_post i (pos i) (fst r) (snd r)) (advance_into pj i).
Proof.
  intros ([H0 H1] & H2 & H3 & H4). unfold advance_into. apply advance_into_loop_spec; unfold fuel_of; lia.
Qed.

(* ------------------------------------------------------------------ *)
(* AdvanceIter                                                         *)

(* the restricted destination: inside the source view, queued at the same
   offset, positioned to move INTO the element *)
Definition dst_post (pj : pjson) (i1 : iter) (d : iter) : Prop :=
  iter_ok pj d /\ i_len d = pos i1 /\ i_len d <= i_len i1 /\ i_off d = i_off i1 /\
  i_t d = i_t i1 /\ i_cur d = i_cur i1 /\ 0 <= i_add d <= 1.

Definition ai_post (pj : pjson) (i : iter) (p : Z) (r : iter * option iter * N) : Prop :=
  let '(i1, od, ty) := r in
  adv_post pj i p i1 /\
  match od with
  | None => ty = TypeNone
  | Some d => dst_post pj i1 d /\ ty = TagToType_ref (i_t i1) /\ p < i_off i1 <= i_len i /\ i_t i1 <> TagNop
  end.

Lemma advance_iter_loop_spec : forall fuel pj i off,
  0 <= i_len i <= tlen pj -> 0 <= off -> (Z.to_nat (i_len i - off) < fuel)%nat ->
  okP false (ai_post pj i off) (advance_iter_loop fuel pj i off).
Proof.
  induction fuel as [|f IH]; intros pj i off Hl Ho Hf; [lia|].
  cbn [advance_iter_loop].
  destruct (off =? i_len i) eqn:E.
  - cbn [okP ai_post]. split; [|reflexivity].
    split; fin.
  - destruct (i_len i <? off) eqn:E2; [exact I|].
    destruct (rd_in pj (i_len i) off (proj2 Hl)) as (v & ->); [lia|]. cbn [obind].
    destruct (word_tag v =? TagNop)%N eqn:En.
    + destruct (word_val v =? 0)%N eqn:Ec; [exact I|].
      assert (Hc : 1 <= Z.of_N (word_val v)) by lia.
      eapply okP_weaken; [|apply (IH pj i (off + 1 + Z.of_N (word_val v) - 1)); lia].
      intros [[i1 od] ty] [HA HT]. cbn [ai_post]. split.
      * eapply adv_post_shift; [| |exact HA]; lia.
      * destruct od as [d|]; [|exact HT]. destruct HT as (T1 & T2 & T3 & T4). split; [exact T1|]. split; [exact T2|]. split; [lia|exact T4].
    + set (a := calc_next false (off + 1) (word_val v) (word_tag v)).
      cbv zeta. cbn [with_calc set_i i_len i_off i_add i_t i_cur]. fold a.
      destruct (a <? 0) eqn:Ea; [exact I|].
      set (b := calc_next true (off + 1) (word_val v) (word_tag v)).
      pose proof (calc_next_true (off + 1) (word_val v) (word_tag v)) as Hb. fold b in Hb.
      destruct (i_len i <? off + 1 + a) eqn:Ee; [exact I|].
      cbn [okP ai_post]. split.
      * split; fin.
      * apply N.eqb_neq in En. unfold dst_post. fin.
Qed.

Lemma advance_iter_spec pj i : iter_ok pj i -> okP false (ai_post pj i (pos i)) (advance_iter pj i).
Proof.
  intros ([H0 H1] & H2 & H3 & H4). unfold advance_iter. apply advance_iter_loop_spec; unfold fuel_of; lia.
Qed.

(* ------------------------------------------------------------------ *)
(* PeekNextTag                                                         *)

Lemma peek_loop_spec : forall fuel pj len off,
  len <= tlen pj -> 0 <= off -> (Z.to_nat (len - off) < fuel)%nat ->
  okP false (fun tg => len <= off -> tg = TagEnd) (peek_loop fuel pj len off).
Proof.
  induction fuel as [|f IH]; intros pj len off Hl Ho Hf; [lia|].
  cbn [peek_loop]. destruct (len <=? off) eqn:E; [cbn; auto|].
  destruct (rd_in pj len off Hl) as (v & ->); [lia|]. cbn [obind].
  destruct (word_tag v =? TagNop)%N; [|cbn; intros; lia].
  destruct (word_val v =? 0)%N eqn:Ec; [cbn; auto|].
  eapply okP_weaken; [|apply IH; lia]. cbn. intros; lia.
Qed.

Lemma peek_next_tag_spec pj i : iter_ok pj i ->
  okP false (fun tg => i_len i <= pos i -> tg = TagEnd) (peek_next_tag pj i).
Proof.
  intros ([H0 H1] & H2 & H3 & H4). unfold peek_next_tag. apply peek_loop_spec; unfold fuel_of; lia.
Qed.

(* ------------------------------------------------------------------ *)
(* typed accessors                                                     *)

Lemma payload_spec pj i : iter_ok pj i -> okP false top (payload pj i).
Proof.
  intros ([H0 H1] & H2 & H3 & H4). unfold payload.
  destruct (i_len i <=? i_off i) eqn:E; [exact I|].
  destruct (rd_in pj (i_len i) (i_off i) H1) as (v & ->); [lia|]. exact I.
Qed.

Ltac payload_tac pj i H :=
  let w := fresh "w" in
  pose proof (payload_spec pj i H) as Hp; destruct (payload pj i) as [w| | |]; cbn [okP obind] in *; try tauto.

Lemma iter_int_spec pj i : iter_ok pj i -> okP false top (iter_int pj i).
Proof.
  intros H. unfold iter_int.
  repeat match goal with |- context [if ?b then _ else _] => destruct b end; try exact I.
  all: payload_tac pj i H.
  all: repeat match goal with |- context [if ?b then _ else _] => destruct b end; try exact I.
  all: try (destruct (sf_trunc _); exact I).
Qed.

Lemma iter_uint_spec pj i : iter_ok pj i -> okP false top (iter_uint pj i).
Proof.
  intros H. unfold iter_uint.
  repeat match goal with |- context [if ?b then _ else _] => destruct b end; try exact I.
  all: payload_tac pj i H.
  all: repeat match goal with |- context [if ?b then _ else _] => destruct b end; try exact I.
  all: try (destruct (sf_trunc _); exact I).
  all: unfold top; auto.
Qed.

Lemma iter_float_spec pj i : iter_ok pj i -> okP false top (iter_float pj i).
Proof.
  intros H. unfold iter_float.
  repeat match goal with |- context [if ?b then _ else _] => destruct b end; try exact I.
  all: payload_tac pj i H.
  all: unfold top; auto.
Qed.

Lemma iter_float_flags_spec pj i : iter_ok pj i -> okP false top (iter_float_flags pj i).
Proof.
  intros H. unfold iter_float_flags. eapply okP_bind; [apply iter_float_spec; exact H|].
  intros; exact I.
Qed.

Lemma iter_bool_spec i : okP false top (iter_bool i).
Proof. unfold iter_bool. repeat match goal with |- context [if ?b then _ else _] => destruct b end; exact I. Qed.

(* stringByteAt never indexes outside its buffer, for any offset / length words *)
Lemma string_byte_at_spec pj cur len : okP false top (string_byte_at pj cur len).
Proof.
  unfold string_byte_at.
  repeat match goal with |- context [if ?b then _ else _] => destruct b end; exact I.
Qed.

(* what the Go slice expression needs: offset+length within the buffer *)
Lemma string_byte_at_bounds pj cur len s : string_byte_at pj cur len = Ok s ->
  if (N.land cur STRINGBUFBIT =? 0)%N
  then (cur + len <= N.of_nat (length (pj_msg pj)))%N
  else (N.land cur STRINGBUFMASK + len <= N.of_nat (length (pj_strings pj)))%N.
Proof.
  unfold string_byte_at.
  destruct (N.land cur STRINGBUFBIT =? 0)%N.
  - destruct ((N.of_nat (length (pj_msg pj)) <? len)%N || (N.of_nat (length (pj_msg pj)) - len <? cur)%N) eqn:E;
      [discriminate|]. intros _. lia.
  - destruct ((N.of_nat (length (pj_strings pj)) <? len)%N ||
              (N.of_nat (length (pj_strings pj)) - len <? N.land cur STRINGBUFMASK)%N) eqn:E;
      [discriminate|]. intros _. lia.
Qed.

Lemma string_bytes_spec pj i : iter_ok pj i -> okP false top (string_bytes pj i).
Proof.
  intros ([H0 H1] & H2 & H3 & H4). unfold string_bytes.
  destruct (negb (i_t i =? TagString)%N); [exact I|].
  destruct (i_len i <=? i_off i) eqn:E; [exact I|].
  destruct (rd_in pj (i_len i) (i_off i) H1) as (v & ->); [lia|]. cbn [obind].
  apply string_byte_at_spec.
Qed.

(* ------------------------------------------------------------------ *)
(* Root / Object / Array                                               *)

(* Go slices Tape[:cur-1] in Root: the model does not make a negative bound a
   Crash, so we prove the bound is not negative whenever Root gets that far *)
Lemma iter_root_slice_bound pj i : iter_ok pj i ->
  (i_t i =? TagRoot)%N = true -> (Z.of_N (i_cur i) <? i_off i) = false -> 0 <= Z.of_N (i_cur i) - 1.
Proof.
  intros ([H0 H1] & H2 & H3 & H4) Ht Hc.
  assert (i_t i <> TagEnd) by (intros E; rewrite E in Ht; discriminate). specialize (H4 H). lia.
Qed.

Definition root_post (pj : pjson) (i : iter) (r : iter * N) : Prop :=
  iter_ok pj (fst r) /\ i_len (fst r) = Z.of_N (i_cur i) - 1 /\ i_len (fst r) < i_len i /\
  0 <= i_len (fst r) /\
  (i_off i < i_len (fst r) -> i_off i < pos (fst r)) /\
  (i_len (fst r) <= i_off i -> i_t (fst r) = TagEnd /\ snd r = TypeNone /\ i_len (fst r) <= pos (fst r)) /\
  (i_t (fst r) <> TagEnd -> i_off i < i_off (fst r) <= i_len (fst r)) /\
  snd r = TagToType_ref (i_t (fst r)).

Lemma iter_root_spec pj i : iter_ok pj i -> okP false (root_post pj i) (iter_root pj i).
Proof.
  intros Hok. pose proof Hok as ([H0 H1] & H2 & H3 & H4). unfold iter_root.
  destruct (negb (i_t i =? TagRoot)%N) eqn:Et; [exact I|].
  destruct (i_len i <? Z.of_N (i_cur i)) eqn:E1; [exact I|].
  destruct (Z.of_N (i_cur i) <? i_off i) eqn:E2; [exact I|].
  assert (Hb : 0 <= Z.of_N (i_cur i) - 1).
  { apply (iter_root_slice_bound pj i Hok); [destruct (i_t i =? TagRoot)%N; [reflexivity|discriminate]|exact E2]. }
  set (d := {| i_len := Z.of_N (i_cur i) - 1; i_off := i_off i; i_add := 0; i_cur := i_cur i; i_t := i_t i |}).
  assert (Hd : iter_ok pj d) by (unfold iter_ok, d; cbn; repeat split; try lia; auto).
  eapply okP_bind; [apply (advance_into_spec pj d Hd)|].
  intros [d' tag] [HA HT]. cbn [fst snd] in *. cbn [okP].
  destruct HA as [A B C F D]. destruct HT as (T1 & T2 & T3).
  unfold pos in *. cbn [d i_len i_off i_add] in *. rewrite Z.add_0_r in *.
  assert (Htag : tag = i_t d').
  { destruct (N.eq_dec tag TagEnd) as [->|Hn]; [symmetry; auto|]. apply T2; exact Hn. }
  unfold root_post. cbn [fst snd]. rewrite B. subst tag.
  split; [exact A|]. split; [reflexivity|]. split; [lia|]. split; [lia|].
  split; [exact C|]. split.
  { intros Hle. specialize (T1 Hle). rewrite T1. split; [reflexivity|]. split; [reflexivity|]. unfold pos. lia. }
  split; [|reflexivity].
  intros Hne. specialize (T2 Hne). lia.
Qed.

Lemma iter_object_spec pj i : iter_ok pj i ->
  okP false (fun c => cont_ok pj c /\ c_off c = i_off i /\ c_len c = Z.of_N (i_cur i) /\
                      c_off c <= c_len c <= i_len i /\ i_t i = TagObjectStart) (iter_object i).
Proof.
  intros ([H0 H1] & H2 & H3 & H4). unfold iter_object.
  destruct (N.eqb_spec (i_t i) TagObjectStart) as [Et|Et]; cbn [negb]; [|exact I].
  destruct (Z.of_N (i_cur i) <? i_off i) eqn:E1; [exact I|].
  destruct (i_len i <? Z.of_N (i_cur i)) eqn:E2; [exact I|].
  cbn [okP c_len c_off]. unfold cont_ok. cbn. repeat split; try lia; auto.
Qed.

Lemma iter_array_spec pj i : iter_ok pj i ->
  okP false (fun c => cont_ok pj c /\ c_off c = i_off i /\ c_len c = Z.of_N (i_cur i) /\
                      c_len c <= i_len i /\ i_t i = TagArrayStart) (iter_array i).
Proof.
  intros ([H0 H1] & H2 & H3 & H4). unfold iter_array.
  destruct (N.eqb_spec (i_t i) TagArrayStart) as [Et|Et]; cbn [negb]; [|exact I].
  destruct (i_len i <? Z.of_N (i_cur i)) eqn:E2; [exact I|].
  cbn [okP c_len c_off]. unfold cont_ok. cbn. repeat split; try lia; auto.
Qed.

(* ------------------------------------------------------------------ *)
(* Object.NextElementBytes                                             *)

Lemma next_element_S f pj o :
  next_element (S f) pj o =
    if c_len o <=? c_off o then Ok (o, None)
    else
      do v <- rd pj (c_len o) (c_off o);
      let t := word_tag v in
      if (t =? TagString)%N then
        if c_len o <=? c_off o + 2 then Err
        else
          do len <- rd pj (c_len o) (c_off o + 1);
          do name <- string_byte_at pj (word_val v) len;
          let off2 := c_off o + 2 in
          do v2 <- rd pj (c_len o) off2;
          let off3 := off2 + 1 in
          let cur := word_val v2 in
          let t2 := word_tag v2 in
          let esize := calc_next false off3 cur t2 in
          let add := calc_next true off3 cur t2 in
          if esize <? 0 then Err
          else if c_len o <? off3 + esize then Err
          else if off3 + esize <? 0 then Crash
          else
            Ok ({| c_len := c_len o; c_off := off3 + esize |},
                Some (name, {| i_len := off3 + esize; i_off := off3; i_add := add; i_cur := cur; i_t := t2 |}, TagToType_ref t2))
      else if (t =? TagObjectEnd)%N then Ok (o, None)
      else if (t =? TagNop)%N then
        if (word_val v =? 0)%N then Err
        else next_element f pj {| c_len := c_len o; c_off := c_off o + Z.of_N (word_val v) |}
      else Err.
Proof. reflexivity. Qed.

(* the element handed out, and the object cursor after it *)
Lemma rd_nth pj len off w : rd pj len off = Ok w ->
  nth_error (pj_tape pj) (Z.to_nat off) = Some w /\ 0 <= off < len.
Proof.
  unfold rd. destruct ((0 <=? off) && (off <? len)) eqn:E; [|discriminate].
  destruct (nth_error (pj_tape pj) (Z.to_nat off)) eqn:E2; [|discriminate].
  intros H; injection H as <-. split; [reflexivity|lia].
Qed.

Definition el_post (pj : pjson) (o o' : cont) (el : iter) (ty : N) : Prop :=
  iter_ok pj el /\ c_off o + 3 <= i_off el <= c_len o /\ i_len el = c_off o' /\ i_len el <= c_len o /\
  ty = TagToType_ref (i_t el) /\ 0 <= i_add el <= 1 /\
  (* the element does not extend backwards unless its open tag points backwards *)
  (i_len el < i_off el -> is_open (i_t el) = true /\ Z.of_N (i_cur el) = i_len el) /\
  (* its tag and payload are those of the tape word before it *)
  (exists w, nth_error (pj_tape pj) (Z.to_nat (i_off el - 1)) = Some w /\ i_t el = word_tag w /\ i_cur el = word_val w) /\
  (* the word before that is the length of the key, which fits one of the buffers *)
  (exists wl, nth_error (pj_tape pj) (Z.to_nat (i_off el - 2)) = Some wl /\
     ((wl <= N.of_nat (length (pj_msg pj)))%N \/ (wl <= N.of_nat (length (pj_strings pj)))%N)).

Definition ne_post (pj : pjson) (o : cont) (r : cont * option (bytes * iter * N)) : Prop :=
  let '(o', x) := r in
  cont_ok pj o' /\ c_len o' = c_len o /\
  match x with
  | None => True
  | Some (_, el, ty) => el_post pj o o' el ty
  end.

(* never a Crash and, with the model's fuel, never OutOfFuel: a NOP with skip
   count 0 is an error (fix F17), every other NOP moves forward *)
Lemma next_element_total : forall fuel pj o,
  cont_ok pj o -> (Z.to_nat (c_len o - c_off o) < fuel)%nat ->
  okP false (ne_post pj o) (next_element fuel pj o).
Proof.
  induction fuel as [|f IH]; intros pj o [[Hl0 Hl] Ho] Hf; [lia|].
  rewrite next_element_S.
  destruct (c_len o <=? c_off o) eqn:E.
  { cbn [okP ne_post]. unfold cont_ok. auto. }
  destruct (rd_in pj (c_len o) (c_off o) Hl) as (v & ->); [lia|]. cbn [obind].
  cbv zeta.
  destruct (word_tag v =? TagString)%N.
  - destruct (c_len o <=? c_off o + 2) eqn:E2; [exact I|].
    destruct (rd_in pj (c_len o) (c_off o + 1) Hl) as (len & Hlen); [lia|]. rewrite Hlen. cbn [obind].
    apply rd_nth in Hlen. destruct Hlen as [Hlen _].
    pose proof (string_byte_at_spec pj (word_val v) len) as Hs.
    destruct (string_byte_at pj (word_val v) len) as [name| | |] eqn:Esb; cbn [okP obind] in *; try tauto.
    apply string_byte_at_bounds in Esb.
    destruct (rd_in pj (c_len o) (c_off o + 2) Hl) as (v2 & Hv2); [lia|]. rewrite Hv2. cbn [obind].
    apply rd_nth in Hv2. destruct Hv2 as [Hv2 _].
    set (off3 := c_off o + 2 + 1).
    set (a := calc_next false off3 (word_val v2) (word_tag v2)).
    pose proof (calc_next_true off3 (word_val v2) (word_tag v2)) as Hb.
    pose proof (calc_next_false off3 (word_val v2) (word_tag v2)) as Ha. fold a in Ha.
    destruct (a <? 0) eqn:Ea; [exact I|].
    destruct (c_len o <? off3 + a) eqn:E3; [exact I|].
    assert (Hnn : 0 <= off3 + a) by (destruct Ha as [Ha|[Ha|[_ Ha]]]; lia).
    replace (off3 + a <? 0) with false by lia.
    cbn [okP ne_post]. unfold cont_ok, el_post, iter_ok. cbn [c_len c_off i_len i_off i_add i_t i_cur].
    split; [lia|]. split; [reflexivity|].
    split; [repeat split; try lia|].
    split; [lia|]. split; [reflexivity|]. split; [lia|]. split; [reflexivity|]. split; [lia|].
    split.
    { intros Hlt. destruct Ha as [Ha|[Ha|[Ho3 Ha]]]; [lia|lia|]. split; [exact Ho3|lia]. }
    split.
    { exists v2. replace (off3 - 1) with (c_off o + 2) by (unfold off3; lia). auto. }
    exists len. replace (off3 - 2) with (c_off o + 1) by (unfold off3; lia). split; [exact Hlen|].
    destruct (N.land (word_val v) STRINGBUFBIT =? 0)%N; [left|right]; lia.
  - destruct (word_tag v =? TagObjectEnd)%N.
    { cbn [okP ne_post]. unfold cont_ok. auto. }
    destruct (word_tag v =? TagNop)%N; [|exact I].
    destruct (word_val v =? 0)%N eqn:Ec; [exact I|].
    set (o1 := {| c_len := c_len o; c_off := c_off o + Z.of_N (word_val v) |}).
    assert (H1 : cont_ok pj o1) by (unfold cont_ok, o1; cbn; lia).
    assert (Hf1 : (Z.to_nat (c_len o1 - c_off o1) < f)%nat) by (unfold o1; cbn; lia).
    specialize (IH pj o1 H1 Hf1).
    eapply okP_weaken; [|exact IH].
    intros [o' x]. unfold ne_post. cbn [o1 c_len c_off].
    intros (A & B & C). split; [exact A|]. split; [exact B|].
    destruct x as [[[nm el] ty]|]; [|exact I].
    unfold el_post in *. subst o1. cbn [c_len c_off] in *.
    destruct C as (C1 & C2 & C3 & C4 & C5 & C6 & C7 & C8).
    split; [exact C1|]. split; [lia|]. auto 10.
Qed.

Lemma next_element_total' pj o : cont_ok pj o ->
  okP false (ne_post pj o) (next_element (cont_fuel o) pj o).
Proof. intros Ho. apply next_element_total; auto. unfold cont_fuel. destruct Ho. lia. Qed.

(* an element handed out never extends backwards (fix F19: esize < 0 is an error) *)
Lemma next_element_forward : forall fuel pj o o' name el ty,
  next_element fuel pj o = Ok (o', Some (name, el, ty)) -> i_off el <= i_len el.
Proof.
  induction fuel as [|f IH]; intros pj o o' name el ty H; [discriminate|].
  rewrite next_element_S in H.
  destruct (c_len o <=? c_off o); [discriminate|].
  destruct (rd pj (c_len o) (c_off o)) as [v| | |]; cbn [obind] in H; try discriminate.
  cbv zeta in H.
  destruct (word_tag v =? TagString)%N.
  - destruct (c_len o <=? c_off o + 2); [discriminate|].
    destruct (rd pj (c_len o) (c_off o + 1)) as [len| | |]; cbn [obind] in H; try discriminate.
    destruct (string_byte_at pj (word_val v) len) as [nm| | |]; cbn [obind] in H; try discriminate.
    destruct (rd pj (c_len o) (c_off o + 2)) as [v2| | |]; cbn [obind] in H; try discriminate.
    destruct (calc_next false (c_off o + 2 + 1) (word_val v2) (word_tag v2) <? 0) eqn:Ea; [discriminate|].
    destruct (c_len o <? c_off o + 2 + 1 + calc_next false (c_off o + 2 + 1) (word_val v2) (word_tag v2)); [discriminate|].
    destruct (c_off o + 2 + 1 + calc_next false (c_off o + 2 + 1) (word_val v2) (word_tag v2) <? 0); [discriminate|].
    injection H as _ _ <- _. cbn [i_off i_len]. lia.
  - destruct (word_tag v =? TagObjectEnd)%N; [discriminate|].
    destruct (word_tag v =? TagNop)%N; [|discriminate].
    destruct (word_val v =? 0)%N; [discriminate|].
    eapply IH; exact H.
Qed.

(* with any fuel at all: still no Crash *)
Lemma next_element_no_crash : forall fuel pj o,
  cont_ok pj o -> okP true (ne_post pj o) (next_element fuel pj o).
Proof.
  induction fuel as [|f IH]; intros pj o Hok; [exact I|].
  pose proof Hok as [[Hl0 Hl] Ho].
  destruct (le_lt_dec (S f) (Z.to_nat (c_len o - c_off o))) as [Hle|Hlt];
    [|apply okP_fuel, next_element_total; [exact Hok|lia]].
  rewrite next_element_S.
  destruct (c_len o <=? c_off o) eqn:E; [lia|].
  destruct (rd_in pj (c_len o) (c_off o) Hl) as (v & Hv); [lia|].
  (* the non-recursive paths do not depend on the fuel: reuse the total lemma one level up *)
  pose proof (next_element_total (S (Z.to_nat (c_len o - c_off o))) pj o Hok ltac:(lia)) as Ht.
  rewrite next_element_S in Ht. rewrite E in Ht. rewrite Hv in *. cbn [obind] in *. cbv zeta in *.
  destruct (word_tag v =? TagString)%N; [apply okP_fuel; exact Ht|].
  destruct (word_tag v =? TagObjectEnd)%N; [apply okP_fuel; exact Ht|].
  destruct (word_tag v =? TagNop)%N; [|exact I].
  destruct (word_val v =? 0)%N eqn:Ec; [exact I|].
  set (o1 := {| c_len := c_len o; c_off := c_off o + Z.of_N (word_val v) |}).
  assert (H1 : cont_ok pj o1) by (unfold cont_ok, o1; cbn; lia).
  specialize (IH pj o1 H1).
  eapply okP_weaken; [|exact IH].
  intros [o' x]. unfold ne_post. cbn [o1 c_len c_off].
  intros (A & B & C). split; [exact A|]. split; [exact B|].
  destruct x as [[[nm el] ty]|]; [|exact I].
  unfold el_post in *. subst o1. cbn [c_len c_off] in *.
  destruct C as (C1 & C2 & C3 & C4 & C5 & C6 & C7 & C8).
  split; [exact C1|]. split; [lia|]. auto 10.
Qed.
