(* SerWf.v — the tape rebuilt by Deserialize is again well-formed: [R]
   transports [wf_check] (with NOP runs allowed) to the rebuilt tape over the
   de-duplicated string buffer. *)
From Coq Require Import ZifyBool ZifyN ZifyNat.
From SJ Require Import Model.Base Model.RefTables Spec.Json Model.Tape Model.Iter Model.WF Model.Serialize.
From SJ Require Import Proofs.StrArith Proofs.Stage2Base Proofs.DeserSafe Proofs.SerBase Proofs.SerFlat Proofs.SerDen.
Open Scope N_scope.

Lemma nop_run_nrun : forall k f i r, (k < f)%nat -> N.of_nat k < two56 ->
  nop_run f i (nrun k ++ r) (i + N.of_nat k) = Some (i + N.of_nat k, r).
Proof.
  induction k as [|k IH]; intros f i r Hf Hk; (destruct f as [|f]; [lia|]); rewrite nop_run_S.
  - cbn [nrun app]. replace (i =? i + N.of_nat 0) with true by lia. f_equal. f_equal. lia.
  - replace (i =? i + N.of_nat (S k)) with false by lia.
    cbn [nrun app]. rewrite word_tag_mk, word_val_mk by exact Hk.
    change (TagNop =? TagNop) with true.
    replace (N.of_nat (S k) =? i + N.of_nat (S k) - i) with true by lia.
    replace (i <? i + N.of_nat (S k)) with true by lia. cbn [andb].
    replace (i + N.of_nat (S k)) with (i + 1 + N.of_nat k) by lia.
    apply IH; lia.
Qed.

Lemma skip_runs_nrun_step nops f i k r : (0 < k)%nat -> N.of_nat k < two56 ->
  skip_runs nops (S f) i (nrun k ++ r) = if negb nops then None else skip_runs nops f (i + N.of_nat k) r.
Proof.
  intros Hk Hk2. rewrite skip_runs_S.
  destruct k as [|k]; [lia|]. cbn [nrun app].
  rewrite word_tag_mk, word_val_mk by exact Hk2. change (TagNop =? TagNop) with true. cbv iota.
  replace (N.of_nat (S k) =? 0) with false by lia. rewrite orb_false_r.
  destruct (negb nops); [reflexivity|].
  change (mk_word TagNop (N.of_nat (S k)) :: nrun k ++ r) with (nrun (S k) ++ r).
  rewrite Nat2N.id. rewrite nop_run_nrun by (try exact Hk2; lia). reflexivity.
Qed.

Lemma skip_runs_head nops f i r : head_not_nop r -> skip_runs nops (S f) i r = Some (i, r).
Proof.
  intros H. rewrite skip_runs_S. destruct r as [|w r]; [reflexivity|].
  cbn [head_not_nop] in H. rewrite H. reflexivity.
Qed.

Lemma skip_runs_nruns nops : forall ns, nruns ns -> forall f i r i2 r2, head_not_nop r ->
  skip_runs nops f i (ns ++ r) = Some (i2, r2) ->
  i2 = i + N.of_nat (length ns) /\ r2 = r /\ (1 <= f)%nat /\ (ns <> [] -> 2 <= f)%nat.
Proof.
  induction 1 as [|k ns Hk Hk2 Hns IH]; intros f i r i2 r2 Hh H.
  - destruct f as [|f]; [discriminate|]. cbn [app] in H. rewrite skip_runs_head in H by exact Hh.
    injection H as <- <-. cbn [length]. repeat split; try lia. congruence.
  - destruct f as [|f]; [discriminate|].
    rewrite <- app_assoc in H. rewrite skip_runs_nrun_step in H by assumption.
    destruct (negb nops); [discriminate|].
    destruct (IH _ _ _ _ _ Hh H) as (A & B & C & D).
    rewrite app_length, nrun_length. repeat split; try lia. exact B.
Qed.

Lemma string_at_str_ok m st p len s : string_at m st p len = Some s ->
  str_ok (N.of_nat (length m)) (N.of_nat (length st)) p len = true.
Proof.
  unfold string_at, str_ok, slice. destruct (N.land p STRINGBUFBIT =? 0).
  - destruct (p + len <=? N.of_nat (length m)); [reflexivity|discriminate].
  - destruct (N.land p STRINGBUFMASK + len <=? N.of_nat (length st)); [reflexivity|discriminate].
Qed.

Section Wf.
Variables (msg strs SB : bytes) (nops : bool).
Notation nmsg := (N.of_nat (length msg)).
Notation nstr := (N.of_nat (length strs)).
Notation nSB := (N.of_nat (length SB)).
Notation nnil := (N.of_nat (@length byte [])).
Notation R := (R msg strs SB).

Lemma skip_runs_sim f i rest rest' i2 r2 : R rest rest' -> skip_runs nops f i rest = Some (i2, r2) ->
  exists r2', skip_runs true f i rest' = Some (i2, r2') /\ R r2 r2' /\ head_not_nop r2.
Proof.
  intros HR H. destruct rest as [|w r1].
  { apply R_nil_inv in HR. subst. destruct f as [|f]; [discriminate|].
    cbn [skip_runs] in *. injection H as <- <-. exists []. repeat split. constructor. }
  destruct (R_cons_inv _ _ _ _ _ _ HR) as [[E X]|Hother].
  - destruct X as (ns & k & r & r' & E1 & E2 & Hns & Hne & Hk & Hk2 & Hh & HR').
    rewrite E1 in H. destruct (skip_runs_nruns _ _ Hns _ _ _ _ _ Hh H) as (A & B & C & D).
    specialize (D Hne). destruct f as [|[|f]]; try lia.
    subst rest' i2 r2. exists r'. split; [|split; assumption].
    assert (Hkpos : (0 < k)%nat) by (destruct ns; [congruence|cbn [length] in Hk; lia]).
    rewrite skip_runs_nrun_step by assumption. cbn [negb].
    rewrite skip_runs_head by (apply (R_head _ _ _ _ _ HR' Hh)). rewrite Hk. reflexivity.
  - assert (Hnn : (word_tag w =? TagNop) = false).
    { destruct Hother as [[E _]|[[E _]|[E _]]].
      - rewrite E. reflexivity.
      - destruct E as [E|[E|E]]; rewrite E; reflexivity.
      - destruct E as (E & _). exact E. }
    destruct f as [|f]; [discriminate|].
    rewrite skip_runs_head in H by exact Hnn. injection H as <- <-.
    destruct (R_head_tag _ _ _ _ _ _ HR) as (w' & r1' & -> & Et).
    exists (w' :: r1'). split; [|split; [exact HR|exact Hnn]].
    apply skip_runs_head. cbn [head_not_nop]. rewrite Et. exact Hnn.
Qed.

Lemma wf_value_nop a b c f i w r : word_tag w = TagNop -> wf_value a b c f i (w :: r) = None.
Proof. intros H. destruct f as [|f]; [reflexivity|]. rewrite wf_value_S. cbv zeta. rewrite H. reflexivity. Qed.

Definition Q_v (f : nat) : Prop := forall i rest rest' j r, R rest rest' ->
  wf_value nmsg nstr nops f i rest = Some (j, r) ->
  exists r', wf_value nSB nnil true f i rest' = Some (j, r') /\ R r r'.
Definition Q_e (f : nat) : Prop := forall start i rest rest' endp1 j r, R rest rest' ->
  wf_elems nmsg nstr nops f start i rest endp1 = Some (j, r) ->
  exists r', wf_elems nSB nnil true f start i rest' endp1 = Some (j, r') /\ R r r'.
Definition Q_m (f : nat) : Prop := forall start i rest rest' endp1 j r, R rest rest' ->
  wf_members nmsg nstr nops f start i rest endp1 = Some (j, r) ->
  exists r', wf_members nSB nnil true f start i rest' endp1 = Some (j, r') /\ R r r'.

Lemma wf_sim : forall f, Q_v f /\ Q_e f /\ Q_m f.
Proof.
  induction f as [|f (IHv & IHe & IHm)].
  { repeat split; intros ? **; discriminate. }
  split; [|split].
  - (* value *)
    intros i rest rest' j r HR H.
    destruct rest as [|w r1]; [discriminate|].
    destruct (R_cons_inv _ _ _ _ _ _ HR) as [[E X]|[[E X]|[[E X]|[E X]]]].
    + rewrite wf_value_nop in H by exact E. discriminate.
    + destruct X as (len & r0 & w' & r' & s & -> & -> & Ht' & Hs & Hs' & HR').
      rewrite wf_value_S in H. cbv zeta in H. rewrite E in H.
      change (TagString =? TagString) with true in H. cbv iota in H.
      destruct (str_ok nmsg nstr (word_val w) len); [|discriminate]. injection H as <- <-.
      exists r'. split; [|exact HR'].
      rewrite wf_value_S. cbv zeta. rewrite Ht'. change (TagString =? TagString) with true. cbv iota.
      rewrite (string_at_str_ok _ _ _ _ _ Hs'). reflexivity.
    + destruct X as (v & r0 & r' & -> & -> & HR').
      rewrite wf_value_S in H. rewrite wf_value_S. cbv zeta in *.
      destruct E as [E|[E|E]]; rewrite E in *.
      * change (TagInteger =? TagString) with false in *. cbv iota in *.
        change ((TagInteger =? TagInteger) || (TagInteger =? TagUint)) with true in *. cbv iota in *.
        destruct (word_val w =? 0); [|discriminate]. injection H as <- <-. eauto.
      * change (TagUint =? TagString) with false in *. cbv iota in *.
        change ((TagUint =? TagInteger) || (TagUint =? TagUint)) with true in *. cbv iota in *.
        destruct (word_val w =? 0); [|discriminate]. injection H as <- <-. eauto.
      * change (TagFloat =? TagString) with false in *. cbv iota in *.
        change ((TagFloat =? TagInteger) || (TagFloat =? TagUint)) with false in *. cbv iota in *.
        change (TagFloat =? TagFloat) with true in *. cbv iota in *.
        injection H as <- <-. eauto.
    + destruct X as (r' & -> & HR'). destruct E as (E1 & E2 & E3 & E4 & E5).
      rewrite wf_value_S in H. rewrite wf_value_S. cbv zeta in *.
      rewrite E2, E3, E4, E5 in *. cbn [orb] in *.
      destruct ((word_tag w =? TagNull) || (word_tag w =? TagBoolTrue) || (word_tag w =? TagBoolFalse)).
      { destruct (word_val w =? 0); [|discriminate]. injection H as <- <-. eauto. }
      destruct (word_tag w =? TagArrayStart).
      { apply (IHe _ _ _ _ _ _ _ HR' H). }
      destruct (word_tag w =? TagObjectStart); [|discriminate].
      apply (IHm _ _ _ _ _ _ _ HR' H).
  - (* elements *)
    intros start i rest rest' endp1 j r HR H. rewrite wf_elems_S in H. rewrite wf_elems_S.
    destruct (skip_runs nops f i rest) as [[i' rest1]|] eqn:Esk; [|discriminate].
    destruct (skip_runs_sim _ _ _ _ _ _ HR Esk) as (rest1' & Esk' & HR1 & Hh1). rewrite Esk'.
    destruct rest1 as [|w r1]; [discriminate|].
    destruct (R_head_tag _ _ _ _ _ _ HR1) as (w' & r1' & -> & Et). rewrite Et.
    destruct (word_tag w =? TagArrayEnd) eqn:Ee.
    + apply N.eqb_eq in Ee.
      assert (Ho : one_tag (word_tag w)) by (rewrite Ee; repeat split).
      destruct (R_inv_one _ _ _ _ _ _ Ho HR1) as (r2' & E2 & HR2). injection E2 as -> ->.
      destruct ((word_val w =? start) && (i' + 1 =? endp1)); [|discriminate]. injection H as <- <-. eauto.
    + destruct (wf_value nmsg nstr nops f i' (w :: r1)) as [[j1 r2]|] eqn:Ev; [|discriminate].
      destruct (IHv _ _ _ _ _ HR1 Ev) as (r2' & Ev' & HR2). rewrite Ev'.
      destruct (j1 <? endp1); [|discriminate].
      apply (IHe _ _ _ _ _ _ _ HR2 H).
  - (* members *)
    intros start i rest rest' endp1 j r HR H. rewrite wf_members_S in H. rewrite wf_members_S.
    destruct (skip_runs nops f i rest) as [[i' rest1]|] eqn:Esk; [|discriminate].
    destruct (skip_runs_sim _ _ _ _ _ _ HR Esk) as (rest1' & Esk' & HR1 & Hh1). rewrite Esk'.
    destruct rest1 as [|w r1]; [discriminate|].
    destruct (word_tag w =? TagObjectEnd) eqn:Ee.
    + apply N.eqb_eq in Ee.
      assert (Ho : one_tag (word_tag w)) by (rewrite Ee; repeat split).
      destruct (R_inv_one _ _ _ _ _ _ Ho HR1) as (r2' & -> & HR2). rewrite Ee.
      change (TagObjectEnd =? TagObjectEnd) with true. cbv iota.
      destruct ((word_val w =? start) && (i' + 1 =? endp1)); [|discriminate]. injection H as <- <-. eauto.
    + destruct (word_tag w =? TagString) eqn:Es; [|discriminate]. apply N.eqb_eq in Es.
      destruct (R_inv_str _ _ _ _ _ _ Es HR1) as (len & r0 & w' & r0' & s & -> & -> & Et' & Hs & Hs' & HR0).
      rewrite Et'. change (TagString =? TagObjectEnd) with false. change (TagString =? TagString) with true. cbv iota.
      destruct (str_ok nmsg nstr (word_val w) len); [|discriminate].
      rewrite (string_at_str_ok _ _ _ _ _ Hs').
      destruct (skip_runs nops f (i' + 2) r0) as [[i2 r2]|] eqn:Esk2; [|discriminate].
      destruct (skip_runs_sim _ _ _ _ _ _ HR0 Esk2) as (r2' & Esk2' & HR2 & Hh2). rewrite Esk2'.
      destruct (wf_value nmsg nstr nops f i2 r2) as [[j1 r3]|] eqn:Ev; [|discriminate].
      destruct (IHv _ _ _ _ _ HR2 Ev) as (r3' & Ev' & HR3). rewrite Ev'.
      destruct (j1 <? endp1); [|discriminate].
      apply (IHm _ _ _ _ _ _ _ HR3 H).
Qed.

Lemma wf_roots_sim : forall f i rest rest', R rest rest' ->
  wf_roots nmsg nstr nops f i rest = true -> wf_roots nSB nnil true f i rest' = true.
Proof.
  induction f as [|f IH]; intros i rest rest' HR H; [discriminate|].
  rewrite wf_roots_S in H. rewrite wf_roots_S.
  destruct (skip_runs nops f i rest) as [[i' rest1]|] eqn:Esk; [|discriminate].
  destruct (skip_runs_sim _ _ _ _ _ _ HR Esk) as (rest1' & Esk' & HR1 & Hh1). rewrite Esk'.
  destruct rest1 as [|w r1].
  { apply R_nil_inv in HR1. subst. reflexivity. }
  destruct (word_tag w =? TagRoot) eqn:Et; [|discriminate]. apply N.eqb_eq in Et.
  assert (Ho : one_tag (word_tag w)) by (rewrite Et; repeat split).
  destruct (R_inv_one _ _ _ _ _ _ Ho HR1) as (r1' & -> & HR1'). rewrite Et.
  change (TagRoot =? TagRoot) with true. cbv iota.
  destruct (skip_runs nops f (i' + 1) r1) as [[i1 r2]|] eqn:Esk1; [|discriminate].
  destruct (skip_runs_sim _ _ _ _ _ _ HR1' Esk1) as (r2' & Esk1' & HR2 & Hh2). rewrite Esk1'.
  destruct (wf_value nmsg nstr nops f i1 r2) as [[j r3]|] eqn:Ev; [|discriminate].
  destruct (proj1 (wf_sim f) _ _ _ _ _ HR2 Ev) as (r3' & Ev' & HR3). rewrite Ev'.
  destruct (skip_runs nops f j r3) as [[j' r4]|] eqn:Esk2; [|discriminate].
  destruct (skip_runs_sim _ _ _ _ _ _ HR3 Esk2) as (r4' & Esk2' & HR4 & Hh4). rewrite Esk2'.
  destruct r4 as [|c r5]; [discriminate|].
  apply andb_true_iff in H. destruct H as [Hchk Hroots].
  pose proof Hchk as Hchk'.
  apply andb_true_iff in Hchk'. destruct Hchk' as [Hc' _]. apply andb_true_iff in Hc'. destruct Hc' as [Hc' _].
  apply N.eqb_eq in Hc'.
  assert (Hoc : one_tag (word_tag c)) by (rewrite Hc'; repeat split).
  destruct (R_inv_one _ _ _ _ _ _ Hoc HR4) as (r5' & -> & HR5). rewrite Hchk. cbn [andb].
  apply (IH _ _ _ HR5 Hroots).
Qed.

End Wf.

Theorem wf_check_related nops pj SB T' :
  wf_check nops pj = true -> R (pj_msg pj) (pj_strings pj) SB (pj_tape pj) T' ->
  wf_check true {| pj_tape := T'; pj_strings := []; pj_msg := SB |} = true.
Proof.
  unfold wf_check. cbn [pj_tape pj_strings pj_msg]. intros H HR.
  rewrite <- (R_length _ _ _ _ _ HR).
  apply (wf_roots_sim _ _ _ _ _ _ _ _ HR H).
Qed.

Print Assumptions wf_check_related.
