(* LookupPath.v — Object.FindPath and Iter.FindElement refine abs_find_path
   (property C12, part 2). *)
From SJ Require Import Model.Base Model.RefTables Spec.Json Spec.EditSpec Model.Tape
     Model.Iter Model.Walk Model.Edit Model.WF.
From SJ Require Import Proofs.TapeBase Proofs.TapeSeg Proofs.TapeDen Proofs.TapePath
     Proofs.TapeEdit Proofs.TapeIter Proofs.TapeDelete Proofs.TapeWF Proofs.TapeWalk
     Proofs.LookupBase Proofs.LookupFind.
From Coq Require Import Lia ZifyBool ZifyN ZifyNat.
Open Scope N_scope.

Lemma doc_type_object d : doc_type d = TypeObject <-> exists l, d = DObj l.
Proof.
  split.
  - destruct d as [| | [ | | ] | | |l]; intros H; try discriminate H. exists l. reflexivity.
  - intros (l & ->). reflexivity.
Qed.

Section FindPath.
Variables (strict adj : bool).
Notation vseg pj := (val_seg (pj_msg pj) (pj_strings pj) strict adj).
Notation mseg pj := (mitems (pj_msg pj) (pj_strings pj) strict adj).

Lemma find_path_loop_S f pj tmp0 key path :
  find_path_loop (S f) pj tmp0 key path =
    do r <- advance pj tmp0;
    let '(tmp, typ) := r in
    if negb (t_is typ TypeString) || (i_len tmp <=? i_off tmp + 1)%Z then Ok NotFound
    else
      do len <- rd pj (i_len tmp) (i_off tmp);
      if negb (len =? N.of_nat (length key))%N then
        do r2 <- advance pj tmp;
        let '(tmp2, t2) := r2 in
        if t_is t2 TypeNone then Ok NotFound else find_path_loop f pj tmp2 key path
      else
        match string_byte_at pj (i_cur tmp) len with
        | Ok name =>
          if negb (bytes_eqb name key) then
            do r2 <- advance pj tmp; find_path_loop f pj (fst r2) key path
          else
            match path with
            | [] =>
              match advance_iter pj tmp with
              | Ok (_, Some d, ty) => Ok (Found ty d)
              | Ok (_, None, ty) => Ok (Found ty (move_to_end tmp))
              | Err => Ok OtherErr
              | Crash => Crash
              | OutOfFuel => OutOfFuel
              end
            | k2 :: rest =>
              match advance_iter pj tmp with
              | Ok (i1, Some d, ty) =>
                if negb (t_is ty TypeObject) then Ok OtherErr
                else find_path_loop f pj d k2 rest
              | Ok (i1, None, ty) => Ok OtherErr
              | Err => Ok OtherErr
              | Crash => Crash
              | OutOfFuel => OutOfFuel
              end
            end
        | Err => Ok OtherErr
        | Crash => Crash
        | OutOfFuel => OutOfFuel
        end.
Proof. reflexivity. Qed.

(* the three outcomes of FindPath / FindElement, abstractly *)
Definition lookup_is (pj : pjson) (r : found) (lk : lookup) : Prop :=
  match lk with
  | LFound d => exists it, r = Found (doc_type d) it /\ denotes strict adj pj it d
  | LNotFound => r = NotFound
  | LOtherErr => r = OtherErr
  end.

Lemma abs_find_path_skip k d l key rest :
  bytes_eqb key k = false ->
  abs_find_path (DObj ((k, d) :: l)) (key :: rest) = abs_find_path (DObj l) (key :: rest).
Proof. intros H. cbn [abs_find_path abs_find_key]. rewrite H. reflexivity. Qed.

Lemma abs_find_path_hit k d l key k2 rest :
  bytes_eqb key k = true ->
  abs_find_path (DObj ((k, d) :: l)) (key :: k2 :: rest) =
    match d with DObj _ => abs_find_path d (k2 :: rest) | _ => LOtherErr end.
Proof. intros H. cbn [abs_find_path abs_find_key]. rewrite H. destruct d; reflexivity. Qed.

Lemma abs_find_path_hit_last k d l key :
  bytes_eqb key k = true -> abs_find_path (DObj ((k, d) :: l)) [key] = LFound d.
Proof. intros H. cbn [abs_find_path abs_find_key]. rewrite H. reflexivity. Qed.

Lemma find_path_loop_spec pj :
  N.of_nat (length (pj_msg pj)) < two64 -> N.of_nat (length (pj_strings pj)) < two64 ->
  forall rest key l body pre, mseg pj (nlen pre) body l ->
  forall tmp e post f,
  pj_tape pj = pre ++ body ++ e :: post -> word_tag e = TagObjectEnd ->
  (i_off tmp + i_add tmp)%Z = Z.of_nat (length pre) ->
  i_len tmp = Z.of_nat (length pre + length body + 1) ->
  (length l + S (S (length (pj_tape pj))) * length rest < f)%nat ->
  exists r, find_path_loop f pj tmp key rest = Ok r /\
            lookup_is pj r (abs_find_path (DObj l) (key :: rest)).
Proof.
  intros Bm Bs.
  induction rest as [|k2 rest' IHp]; intros key;
  (induction l as [|[k d] l IH]; intros body pre Hit tmp e post f Ht He Hoff Hlen Hf;
    apply mitems_front in Hit; (destruct f as [|f]; [lia|]); rewrite find_path_loop_S;
   [ destruct (advance_end strict pj tmp body e pre post Hit Ht (or_intror He) Hoff ltac:(lia)) as (it' & ->);
     cbn [obind]; cbv iota beta;
     change (negb (t_is TypeNone TypeString)) with true; cbn [orb];
     exists NotFound; split; reflexivity
   | ]).
  - (* last key of the path *)
    destruct Hit as (n0 & w & len & n2 & v & rest & -> & Hn & Hw & Hk & Hn2 & Hadj & Hv & Hrest).
    destruct (val_seg_head _ _ _ _ _ _ _ Hv) as (wv & rv & -> & Htag).
    assert (Ht' : pj_tape pj = pre ++ n0 ++ w :: len :: n2 ++ (wv :: rv) ++ rest ++ e :: post).
    { rewrite Ht. leq. }
    destruct (obj_member_lookup _ _ strict adj pj tmp pre n0 w len k n2 wv rv d (rest ++ e :: post)
                eq_refl eq_refl Bm Bs Ht' Hn Hw Hk Hn2 Hv Hoff)
      as (tmp1 & tmp2 & A1 & Chk & Rd & Nm & A2 & AI & Ty & Off2 & L2 & W2 & Wsub & _).
    { rewrite Hlen. lens. }
    rewrite A1. cbn [obind]. cbv iota beta.
    change (negb (t_is TypeString TypeString)) with false. cbn [orb].
    rewrite Chk, Rd. cbn [obind].
    assert (Hcont : exists r, find_path_loop f pj tmp2 key [] = Ok r /\
                              lookup_is pj r (abs_find_path (DObj l) [key])).
    { apply (IH rest (pre ++ n0 ++ w :: len :: n2 ++ wv :: rv)) with (e := e) (post := post).
      - eapply mitems_idx; [|exact Hrest]. lens.
      - rewrite Ht. leq.
      - exact He.
      - exact Off2.
      - rewrite L2, Hlen. lens.
      - cbn [length] in Hf |- *. lia. }
    pose proof (string_at_length _ _ _ _ _ Hk) as Hkl.
    destruct (len =? N.of_nat (length key)) eqn:El; cbn [negb].
    + rewrite Nm.
      destruct (bytes_eqb k key) eqn:Ek; cbn [negb].
      * rewrite AI. eexists. split; [reflexivity|].
        rewrite abs_find_path_hit_last by (rewrite bytes_eqb_sym; exact Ek).
        exists (sub_iter tmp2). split; [reflexivity|].
        exists (pre ++ n0 ++ w :: len :: n2), (wv :: rv), (rest ++ e :: post).
        split; [rewrite Ht; leq|]. split; [|exact Wsub].
        eapply val_seg_idx; [|exact Hv]. lens.
      * rewrite A2. cbn [obind fst].
        rewrite abs_find_path_skip by (rewrite bytes_eqb_sym; exact Ek). exact Hcont.
    + rewrite A2. cbn [obind]. cbv iota beta.
      replace (t_is (doc_type d) TypeNone) with false by (symmetry; apply N.eqb_neq; exact Ty).
      rewrite abs_find_path_skip; [exact Hcont|].
      apply bytes_eqb_false_iff. intros ->. lia.
  - (* an inner key *)
    destruct Hit as (n0 & w & len & n2 & v & rest & -> & Hn & Hw & Hk & Hn2 & Hadj & Hv & Hrest).
    destruct (val_seg_head _ _ _ _ _ _ _ Hv) as (wv & rv & -> & Htag).
    assert (Ht' : pj_tape pj = pre ++ n0 ++ w :: len :: n2 ++ (wv :: rv) ++ rest ++ e :: post).
    { rewrite Ht. leq. }
    destruct (obj_member_lookup _ _ strict adj pj tmp pre n0 w len k n2 wv rv d (rest ++ e :: post)
                eq_refl eq_refl Bm Bs Ht' Hn Hw Hk Hn2 Hv Hoff)
      as (tmp1 & tmp2 & A1 & Chk & Rd & Nm & A2 & AI & Ty & Off2 & L2 & W2 & Wsub & Lsub).
    { rewrite Hlen. lens. }
    rewrite A1. cbn [obind]. cbv iota beta.
    change (negb (t_is TypeString TypeString)) with false. cbn [orb].
    rewrite Chk, Rd. cbn [obind].
    assert (Hcont : exists r, find_path_loop f pj tmp2 key (k2 :: rest') = Ok r /\
                              lookup_is pj r (abs_find_path (DObj l) (key :: k2 :: rest'))).
    { apply (IH rest (pre ++ n0 ++ w :: len :: n2 ++ wv :: rv)) with (e := e) (post := post).
      - eapply mitems_idx; [|exact Hrest]. lens.
      - rewrite Ht. leq.
      - exact He.
      - exact Off2.
      - rewrite L2, Hlen. lens.
      - cbn [length] in Hf |- *. lia. }
    pose proof (string_at_length _ _ _ _ _ Hk) as Hkl.
    destruct (len =? N.of_nat (length key)) eqn:El; cbn [negb].
    + rewrite Nm.
      destruct (bytes_eqb k key) eqn:Ek; cbn [negb].
      * rewrite AI.
        rewrite abs_find_path_hit by (rewrite bytes_eqb_sym; exact Ek).
        destruct (t_is (doc_type d) TypeObject) eqn:Eo; cbn [negb].
        -- (* descend *)
           clear Hkl. apply N.eqb_eq in Eo. apply doc_type_object in Eo. destruct Eo as (l' & ->).
           inversion Hv; subst.
           match goal with H : mitems _ _ _ _ _ body l' |- _ => rename H into Hit' end.
           destruct Wsub as ((Soff & _ & w0 & r0 & E0 & St & _) & _ & _).
           injection E0 as <- <-.
           assert (Sadd : i_add (sub_iter tmp2) = 0%Z).
           { change (i_add (sub_iter tmp2)) with
               (calc_next true (i_off tmp2) (i_cur tmp2) (i_t tmp2)).
             change (i_t (sub_iter tmp2)) with (i_t tmp2) in St. rewrite St.
             match goal with H : word_tag wv = TagObjectStart |- _ => rewrite H end. reflexivity. }
           apply (IHp k2 l' body (pre ++ n0 ++ w :: len :: n2 ++ [wv])) with (e := e0)
             (post := rest ++ e :: post).
           ++ eapply mitems_idx; [|exact Hit']. lens.
           ++ rewrite Ht. leq.
           ++ assumption.
           ++ rewrite Soff, Sadd. lens.
           ++ rewrite Lsub. lens.
           ++ pose proof (proj2 (proj2 (seg_lengths _ _ _ _)) _ _ _ Hit') as Hll.
              assert (length body < length (pj_tape pj))%nat by (rewrite Ht; lens).
              cbn [length] in Hf. lia.
        -- eexists. split; [reflexivity|].
           destruct d as [| | [ | | ] | | |l']; try reflexivity. discriminate Eo.
      * rewrite A2. cbn [obind fst].
        rewrite abs_find_path_skip by (rewrite bytes_eqb_sym; exact Ek). exact Hcont.
    + rewrite A2. cbn [obind]. cbv iota beta.
      replace (t_is (doc_type d) TypeNone) with false by (symmetry; apply N.eqb_neq; exact Ty).
      rewrite abs_find_path_skip; [exact Hcont|].
      apply bytes_eqb_false_iff. intros ->. lia.
Qed.

(* FindPath on the object at [pre] (segment sub, members l) *)
Theorem find_path_refines pj o path pre sub post l :
  N.of_nat (length (pj_msg pj)) < two64 -> N.of_nat (length (pj_strings pj)) < two64 ->
  pj_tape pj = pre ++ sub ++ post -> vseg pj (nlen pre) sub (DObj l) -> cont_at o pre sub ->
  exists r, find_path pj o path = Ok r /\ lookup_is pj r (abs_find_path (DObj l) path).
Proof.
  intros Bm Bs Ht Hv (Hoff & Hlen).
  destruct path as [|key rest]; [exists NotFound; split; reflexivity|].
  inversion Hv; subst.
  match goal with H : mitems _ _ _ _ _ body l |- _ => rename H into Hit end.
  unfold find_path.
  apply (find_path_loop_spec pj Bm Bs rest key l body (pre ++ [w])) with (e := e) (post := post).
  - eapply mitems_idx; [|exact Hit]. nl.
  - rewrite Ht. leq.
  - assumption.
  - cbn [cont_iter i_off i_add]. rewrite Hoff. lens.
  - cbn [cont_iter i_len]. rewrite Hlen. lens.
  - pose proof (proj2 (proj2 (seg_lengths _ _ _ _)) _ _ _ Hit) as Hll.
    assert (length body < length (pj_tape pj))%nat by (rewrite Ht; lens).
    cbn [length]. nia.
Qed.

(* ------------------------------------------------------------------ *)
(* Iter.FindElement                                                     *)

Lemma find_element_loop_S f pj cp path :
  find_element_loop (S f) pj cp path =
    if t_is (i_t cp) TagObjectStart then
      match iter_object cp with
      | Ok o => find_path pj o path
      | Err => Ok OtherErr
      | Crash => Crash
      | OutOfFuel => OutOfFuel
      end
    else if t_is (i_t cp) TagRoot then
      match iter_root pj cp with
      | Ok (cp', _) => find_element_loop f pj cp' path
      | Err => Ok OtherErr
      | Crash => Crash
      | OutOfFuel => OutOfFuel
      end
    else if t_is (i_t cp) TagEnd then
      do r <- advance_into pj cp;
      let '(cp', tag) := r in
      if t_is tag TagEnd then Ok NotFound else find_element_loop f pj cp' path
    else Ok OtherErr.
Proof. reflexivity. Qed.

(* on an iterator standing on a value *)
Lemma find_element_loop_value pj it d path f :
  N.of_nat (length (pj_msg pj)) < two64 -> N.of_nat (length (pj_strings pj)) < two64 ->
  denotes strict adj pj it d -> path <> [] ->
  exists r, find_element_loop (S f) pj it path = Ok r /\ lookup_is pj r (abs_find_path d path).
Proof.
  intros Bm Bs (pre & v & post & Ht & Hv & Hw) Hp.
  rewrite find_element_loop_S.
  pose proof Hw as (Hon & _ & _).
  pose proof Hon as (_ & _ & w & r & -> & Hit & _).
  rewrite Hit.
  destruct (val_seg_obj_tag _ _ _ _ _ _ _ _ Hv) as [Ho1 Ho2].
  destruct (t_is (word_tag w) TagObjectStart) eqn:Eo.
  - apply N.eqb_eq in Eo. destruct (Ho1 Eo) as (l & ->).
    rewrite (iter_object_on strict adj pj it _ _ _ Hon Hv).
    eapply find_path_refines; eauto. split; reflexivity.
  - assert (Hnot : forall l, d <> DObj l).
    { intros l ->. rewrite (proj2 (val_seg_obj_tag _ _ _ _ _ _ _ _ Hv)) in Eo by eauto. discriminate Eo. }
    destruct (val_seg_head _ _ _ _ _ _ _ Hv) as (w' & r' & E & Htag). injection E as <- <-.
    assert (Hr : t_is (word_tag w) TagRoot = false /\ t_is (word_tag w) TagEnd = false).
    { unfold is_val_tag in Htag. unfold t_is.
      repeat (apply orb_true_iff in Htag; destruct Htag as [Htag|Htag]);
        apply N.eqb_eq in Htag; rewrite Htag; split; reflexivity. }
    destruct Hr as [-> ->].
    exists OtherErr. split; [reflexivity|].
    destruct path as [|k rest]; [congruence|].
    destruct d; try reflexivity. exfalso. eapply Hnot. reflexivity.
Qed.

Theorem find_element_value pj it d path :
  N.of_nat (length (pj_msg pj)) < two64 -> N.of_nat (length (pj_strings pj)) < two64 ->
  denotes strict adj pj it d ->
  exists r, find_element pj it path = Ok r /\ lookup_is pj r (abs_find_path d path).
Proof.
  intros Bm Bs Hd. destruct path as [|k rest].
  - exists NotFound. split; reflexivity.
  - unfold find_element. apply find_element_loop_value; auto. discriminate.
Qed.

End FindPath.

(* ------------------------------------------------------------------ *)
(* FindElement from the top: a fresh pj.Iter() or an iterator on a root  *)

Section FindElementTop.
Variables (adj : bool).
Notation vseg pj := (val_seg (pj_msg pj) (pj_strings pj) true adj).
Notation rseg pj := (roots_seg (pj_msg pj) (pj_strings pj) true adj).

Lemma advance_into_at_end pj it n pre :
  nops_seg true n -> pj_tape pj = pre ++ n ->
  (i_off it + i_add it)%Z = Z.of_nat (length pre) ->
  i_len it = Z.of_nat (length pre + length n) ->
  exists it', advance_into pj it = Ok (it', TagEnd).
Proof.
  intros Hn Ht Hoff Hlen. unfold advance_into. rewrite Hoff.
  rewrite <- (app_nil_r n) in Ht.
  destruct (advance_into_loop_skip true pj it n Hn (fuel_of it) pre [] _ Ht eq_refl) as (f' & Hf' & ->).
  { rewrite Hlen. lia. } { unfold fuel_of. rewrite Hlen. lia. }
  destruct f' as [|f']; [lia|]. cbn [advance_into_loop].
  replace (i_len it <=? Z.of_nat (length pre) + Z.of_nat (length n))%Z with true by lia.
  eexists. reflexivity.
Qed.

(* an iterator standing on a root word (after Advance or AdvanceInto) *)
Lemma find_element_loop_root pj cp pre w n1 v d X path f :
  N.of_nat (length (pj_msg pj)) < two64 -> N.of_nat (length (pj_strings pj)) < two64 ->
  pj_tape pj = pre ++ w :: n1 ++ v ++ X -> word_tag w = TagRoot -> nops_seg true n1 ->
  vseg pj (nlen pre + 1 + nlen n1) v d ->
  nlen pre + 1 + nlen n1 + nlen v + 1 <= word_val w ->
  word_val w <= nlen pre + 1 + nlen n1 + nlen v + nlen X ->
  i_t cp = TagRoot -> i_cur cp = word_val w -> i_off cp = Z.of_nat (length pre + 1) ->
  (Z.of_N (word_val w) <= i_len cp)%Z -> path <> [] ->
  exists r, find_element_loop (S (S f)) pj cp path = Ok r /\
            lookup_is true adj pj r (abs_find_path d path).
Proof.
  intros Bm Bs Ht Hw Hn1 Hv Hlo Hhi Et Ecur Eoff Elen Hp.
  rewrite find_element_loop_S. rewrite Et.
  change (t_is TagRoot TagObjectStart) with false. change (t_is TagRoot TagRoot) with true. cbv iota.
  unfold iter_root. rewrite Et, Ecur, Eoff.
  change (negb (TagRoot =? TagRoot)) with false. cbv iota.
  replace (i_len cp <? Z.of_N (word_val w))%Z with false by lia.
  replace (Z.of_N (word_val w) <? Z.of_nat (length pre + 1))%Z with false by (revert Hlo; nl).
  destruct (val_seg_head _ _ _ _ _ _ _ Hv) as (wv & rv & -> & Htag).
  assert (HwvN : word_tag wv <> TagNop).
  { intros E. rewrite E in Htag. discriminate Htag. }
  assert (Ht' : pj_tape pj = (pre ++ [w]) ++ n1 ++ wv :: rv ++ X) by (rewrite Ht; leq).
  rewrite (advance_into_at true pj _ n1 wv (pre ++ [w]) _ Hn1 Ht' HwvN).
  2:{ cbn [i_off i_add]. lens. }
  2:{ cbn [i_len]. revert Hlo. lens. }
  cbn [obind]. cbv iota beta.
  match goal with |- context [find_element_loop _ pj ?el] => remember el as el' eqn:Eel end.
  apply find_element_loop_value; auto.
  exists (pre ++ [w] ++ n1), (wv :: rv), X. split; [rewrite Ht; leq|]. split.
  { eapply val_seg_idx; [|exact Hv]. lens. }
  pose proof (calc_next_true_val _ _ _ _ _ _ _ _
                (Z.of_nat (length (pre ++ [w])) + Z.of_nat (length n1) + 1)%Z Hv) as Hcn.
  subst el'. unfold walk_iter, iter_on, with_calc, set_i. cbn [i_off i_len i_add i_cur i_t].
  split; [split; [lens|split; [revert Hlo; lens|]]|].
  - exists wv, rv. repeat split.
  - split; [lia|]. revert Hcn Hlo. lens.
Qed.

Theorem find_element_root pj cp pre w n1 v d X path :
  N.of_nat (length (pj_msg pj)) < two64 -> N.of_nat (length (pj_strings pj)) < two64 ->
  pj_tape pj = pre ++ w :: n1 ++ v ++ X -> word_tag w = TagRoot -> nops_seg true n1 ->
  vseg pj (nlen pre + 1 + nlen n1) v d ->
  nlen pre + 1 + nlen n1 + nlen v + 1 <= word_val w ->
  word_val w <= nlen pre + 1 + nlen n1 + nlen v + nlen X ->
  i_t cp = TagRoot -> i_cur cp = word_val w -> i_off cp = Z.of_nat (length pre + 1) ->
  (Z.of_N (word_val w) <= i_len cp)%Z ->
  exists r, find_element pj cp path = Ok r /\ lookup_is true adj pj r (abs_find_path d path).
Proof.
  intros Bm Bs Ht Hw Hn1 Hv Hlo Hhi Et Ecur Eoff Elen.
  destruct path as [|k rest]; [exists NotFound; split; reflexivity|].
  unfold find_element. eapply find_element_loop_root; eauto. discriminate.
Qed.

(* pj.Iter().FindElement(path...): the lookup is made in the first root *)
Theorem find_element_iter0 pj ds path :
  N.of_nat (length (pj_msg pj)) < two64 -> N.of_nat (length (pj_strings pj)) < two64 ->
  rseg pj 0 (pj_tape pj) ds ->
  exists r, find_element pj (iter0 pj) path = Ok r /\
    lookup_is true adj pj r (match ds with [] => LNotFound | d :: _ => abs_find_path d path end).
Proof.
  intros Bm Bs Hr.
  destruct path as [|k rest].
  { exists NotFound. split; [reflexivity|]. destruct ds; reflexivity. }
  unfold find_element.
  apply roots_front in Hr. destruct ds as [|d ds'].
  - rewrite find_element_loop_S.
    change (t_is (i_t (iter0 pj)) TagObjectStart) with false.
    change (t_is (i_t (iter0 pj)) TagRoot) with false.
    change (t_is (i_t (iter0 pj)) TagEnd) with true. cbv iota.
    destruct (advance_into_at_end pj (iter0 pj) (pj_tape pj) [] Hr eq_refl eq_refl eq_refl) as (it' & ->).
    cbn [obind]. cbv iota beta. change (t_is TagEnd TagEnd) with true. cbv iota.
    exists NotFound. split; reflexivity.
  - destruct Hr as (n & w & n1 & v & n2 & c & rest' & Ht & Hn & Hw & Hn1 & Hv & Hn2 & Hc' & Hwv & Hr').
    assert (HwN : word_tag w <> TagNop) by (rewrite Hw; discriminate).
    rewrite find_element_loop_S.
    change (t_is (i_t (iter0 pj)) TagObjectStart) with false.
    change (t_is (i_t (iter0 pj)) TagRoot) with false.
    change (t_is (i_t (iter0 pj)) TagEnd) with true. cbv iota.
    assert (Ht0 : pj_tape pj = [] ++ n ++ w :: n1 ++ v ++ n2 ++ c :: rest') by exact Ht.
    rewrite (advance_into_at true pj (iter0 pj) n w [] _ Hn Ht0 HwN eq_refl).
    2:{ cbn [iter0 i_len]. rewrite Ht. lens. }
    cbn [obind]. cbv iota beta. rewrite Hw. change (t_is TagRoot TagEnd) with false. cbv iota.
    destruct (length (pj_tape pj)) as [|L] eqn:EL; [rewrite Ht in EL; revert EL; lens|].
    assert (Hv' : vseg pj (nlen n + 1 + nlen n1) v d) by (eapply val_seg_idx; [|exact Hv]; nl).
    assert (Hlo : nlen n + 1 + nlen n1 + nlen v + 1 <= word_val w) by (rewrite Hwv; lens).
    assert (Hhi : word_val w <= nlen n + 1 + nlen n1 + nlen v + nlen (n2 ++ c :: rest'))
      by (rewrite Hwv; lens).
    apply (find_element_loop_root pj _ n w n1 v d (n2 ++ c :: rest') (k :: rest) L
             Bm Bs Ht Hw Hn1 Hv' Hlo Hhi).
    + reflexivity.
    + reflexivity.
    + cbn [with_calc set_i i_off]. lens.
    + cbn [with_calc set_i i_len iter0]. rewrite Hwv.
      assert (HL : length (pj_tape pj) = S L) by exact EL. rewrite Ht in HL |- *. revert HL. lens.
    + discriminate.
Qed.

End FindElementTop.
