(* MaskProofsSlice.v — find_structural_bits_in_slice at mask level
   ([mask_slice]: kernels + flatten_bits_incremental per block) writes the
   increments [to_incs] of the structural positions of the scalar model
   ([s1_blocks]), and keeps  position + 1 + carried = offset of the next block. *)
From Coq Require Import Lia ZifyBool ZifyNat ZifyN.
From SJ Require Import Model.Base Model.RefTables Model.Stage1.
From SJ Require Import Proofs.StrProofs Proofs.Stage1Proofs.
From SJ Require Import Proofs.MaskModel Proofs.MaskProofsBits Proofs.MaskProofsBlock
  Proofs.MaskProofsAll Proofs.MaskProofsFlatten.
Open Scope N_scope.

Lemma to_incs_app : forall a b prev,
  to_incs prev (a ++ b) =
  (fst (to_incs prev a) ++ fst (to_incs (snd (to_incs prev a)) b),
   snd (to_incs (snd (to_incs prev a)) b)).
Proof.
  induction a as [|x a IH]; intros b prev.
  - cbn [app to_incs fst snd]. destruct (to_incs prev b); reflexivity.
  - cbn [app to_incs]. rewrite IH.
    destruct (to_incs (S x) a) as [l e]. cbn [fst snd app]. reflexivity.
Qed.

Lemma map_to_nat_app (a b : list N) : map N.to_nat (a ++ b) = map N.to_nat a ++ map N.to_nat b.
Proof. apply map_app. Qed.

(* one block: kernels then flatten, against the scalar positions ps of the block *)
Lemma slice_step (m carried position : N) (p : nat) (ps : list nat) :
  m < two64 -> position < two64 ->
  (N.to_nat (w64 (position + 1)) + N.to_nat carried = p)%nat ->
  N.of_nat p + 128 < two32 ->
  flatten_bits p m = ps ->
  let prev1 := N.to_nat (w64 (position + 1)) in
  let '(incs, c', pos') := flatten_bits_incremental m carried position in
  map N.to_nat incs = fst (to_incs prev1 ps) /\
  N.to_nat (w64 (pos' + 1)) = snd (to_incs prev1 ps) /\
  (N.to_nat (w64 (pos' + 1)) + N.to_nat c' = p + 64)%nat /\
  pos' < two64.
Proof.
  intros Hm Hp Hinv Hb Hps. cbv zeta.
  assert (Hc : carried + 64 < two32) by (unfold two32 in *; lia).
  assert (Hw : w64 (position + 1) + carried + 64 < two64) by (unfold two32 in *; change two64 with 18446744073709551616; lia).
  pose proof (flatten_bits_incremental_spec m carried position Hm Hc Hp Hw) as H.
  cbv zeta in H. rewrite Hinv, Hps in H.
  destruct (flatten_bits_incremental m carried position) as [[incs c'] pos'].
  destruct H as [H1 [H2 [H3 [H4 H5]]]].
  split; [exact H1|]. split; [|split; [exact H2|exact H5]].
  destruct ps as [|x r].
  - rewrite (H4 eq_refl). reflexivity.
  - apply H3. discriminate.
Qed.

Theorem mask_slice_spec nd : forall fuel (bs : bytes) (k : kstate) (carried position : N) (acc : list N) (p : nat),
  kstate_wf k -> position < two64 ->
  (N.to_nat (w64 (position + 1)) + N.to_nat carried = p)%nat ->
  N.of_nat (p + length bs) + 128 < two32 ->
  let prev1 := N.to_nat (w64 (position + 1)) in
  let '(k', incs, c', pos') := mask_slice fuel nd k carried position (map b2n bs) acc in
  let '(st', L) := s1_blocks fuel nd (abs_kstate k) p bs in
  map N.to_nat incs = map N.to_nat acc ++ fst (to_incs prev1 (concat L)) /\
  N.to_nat (w64 (pos' + 1)) = snd (to_incs prev1 (concat L)) /\
  (N.to_nat (w64 (pos' + 1)) + N.to_nat c' = p + 64 * length L)%nat /\
  kstate_wf k' /\ flags_eq (abs_kstate k') st' /\ pos' < two64.
Proof.
  induction fuel as [|fuel IH]; intros bs k carried position acc p Hwf Hp Hinv Hb; cbv zeta.
  - cbn [mask_slice s1_blocks concat to_incs fst snd length].
    rewrite app_nil_r. split; [reflexivity|]. split; [reflexivity|]. split; [lia|].
    split; [exact Hwf|]. split; [split; reflexivity|exact Hp].
  - destruct bs as [|b r].
    + cbn [mask_slice s1_blocks map concat to_incs fst snd length].
      rewrite app_nil_r. split; [reflexivity|]. split; [reflexivity|]. split; [lia|].
      split; [exact Hwf|]. split; [split; reflexivity|exact Hp].
    + set (bs := b :: r) in *.
      change (mask_slice (S fuel) nd k carried position (map b2n bs) acc) with
        (let '(st', m) := mask_block nd k (take_pad cSPACE 64 (map b2n bs)) in
         let '(incs, c', p') := flatten_bits_incremental m carried position in
         mask_slice fuel nd st' c' p' (skipn 64 (map b2n bs)) (acc ++ incs)).
      change (s1_blocks (S fuel) nd (abs_kstate k) p bs) with
        (let '(st', ps) := s1_run nd (abs_kstate k) p (firstn 64 bs) [] in
         let '(st'', rest) := s1_blocks fuel nd st' (p + 64) (skipn 64 bs) in
         (st'', ps :: rest)).
      destruct (Nat.le_gt_cases 64 (length bs)) as [Hge|Hlt].
      * (* a full block *)
        assert (Hf : length (firstn 64 bs) = 64%nat) by (rewrite firstn_length; lia).
        assert (Htp : take_pad cSPACE 64 (map b2n bs) = map b2n (firstn 64 bs)).
        { rewrite take_pad_firstn by (rewrite map_length; exact Hge). apply firstn_map. }
        rewrite Htp.
        pose proof (mask_block_refines nd (firstn 64 bs) k p Hf Hwf) as H.
        destruct (mask_block nd k (map b2n (firstn 64 bs))) as [k1 m].
        destruct H as [H [Hwf1 Hm]]. rewrite H.
        pose proof (slice_step m carried position p (flatten_bits p m) Hm Hp Hinv ltac:(unfold two32 in *; lia) eq_refl) as Hs.
        cbv zeta in Hs.
        destruct (flatten_bits_incremental m carried position) as [[incs1 c1] pos1].
        destruct Hs as [S1 [S2 [S3 S4]]].
        rewrite skipn_map.
        assert (Hlen : N.of_nat (p + 64 + length (skipn 64 bs)) + 128 < two32) by (rewrite skipn_length; lia).
        specialize (IH (skipn 64 bs) k1 c1 pos1 (acc ++ incs1) (p + 64)%nat Hwf1 S4 S3 Hlen).
        cbv zeta in IH.
        destruct (mask_slice fuel nd k1 c1 pos1 (map b2n (skipn 64 bs)) (acc ++ incs1)) as [[[k2 incs] c2] pos2].
        destruct (s1_blocks fuel nd (abs_kstate k1) (p + 64) (skipn 64 bs)) as [st2 L].
        destruct IH as [I1 [I2 [I3 [I4 [I5 I6]]]]].
        cbn [concat length]. rewrite to_incs_app. cbn [fst snd].
        rewrite S2 in I1, I2.
        split; [rewrite I1, map_to_nat_app, S1, <- app_assoc; reflexivity|].
        split; [exact I2|]. split; [lia|]. split; [exact I4|]. split; [exact I5|exact I6].
      * (* the final, short block *)
        assert (Hsk : skipn 64 bs = []) by (apply skipn_all2; lia).
        assert (Hfn : firstn 64 bs = bs) by (apply firstn_all2; lia).
        rewrite skipn_map, Hsk, Hfn. cbn [map].
        pose proof (mask_block_partial nd bs k p ltac:(lia) Hwf) as H.
        destruct (mask_block nd k (take_pad cSPACE 64 (map b2n bs))) as [k1 m].
        destruct (s1_run nd (abs_kstate k) p bs []) as [st1 ps].
        destruct H as [Hps [Hwf1 [Hi [He [_ Hm]]]]].
        pose proof (slice_step m carried position p ps Hm Hp Hinv ltac:(unfold two32 in *; lia) Hps) as Hs.
        cbv zeta in Hs.
        destruct (flatten_bits_incremental m carried position) as [[incs1 c1] pos1].
        destruct Hs as [S1 [S2 [S3 S4]]].
        assert (Hms : forall f kk cc pp aa, mask_slice f nd kk cc pp [] aa = (kk, aa, cc, pp))
          by (intros [|f] kk cc pp aa; reflexivity).
        assert (Hss : forall f ss pp, s1_blocks f nd ss pp [] = (ss, [])) by (intros [|f] ss pp; reflexivity).
        rewrite Hms, Hss. cbn [concat length]. rewrite app_nil_r.
        split; [rewrite map_to_nat_app, S1; reflexivity|].
        split; [exact S2|]. split; [lia|]. split; [exact Hwf1|]. split; [split; [exact Hi|exact He]|exact S4].
Qed.

(* from the start of a message (position = 2^64-1, carried = 0): the slice
   kernel writes the increments of all structural positions of the model *)
Corollary mask_slice_from_start nd (msg : bytes) :
  N.of_nat (length msg) + 128 < two32 ->
  let '(k', incs, c', pos') := mask_slice (S (length msg / 64)) nd kstate_init 0 ones64 (map b2n msg) [] in
  let '(st', L) := s1_all nd msg in
  map N.to_nat incs = fst (to_incs 0 (concat L)) /\
  N.to_nat (w64 (pos' + 1)) = snd (to_incs 0 (concat L)) /\
  kstate_wf k' /\ flags_eq (abs_kstate k') st'.
Proof.
  intros Hl.
  pose proof (mask_slice_spec nd (S (length msg / 64)) msg kstate_init 0 ones64 [] 0%nat
                kstate_init_wf ltac:(reflexivity) ltac:(reflexivity) ltac:(cbn [Nat.add]; exact Hl)) as H.
  cbv zeta in H. unfold s1_all. rewrite <- abs_init.
  destruct (mask_slice (S (length msg / 64)) nd kstate_init 0 ones64 (map b2n msg) []) as [[[k' incs] c'] pos'].
  destruct (s1_blocks (S (length msg / 64)) nd (abs_kstate kstate_init) 0 msg) as [st' L].
  destruct H as [H1 [H2 [_ [H4 [H5 _]]]]].
  change (N.to_nat (w64 (ones64 + 1))) with 0%nat in H1, H2.
  cbn [map app] in H1. split; [exact H1|]. split; [exact H2|]. split; [exact H4|exact H5].
Qed.
