(* MaskProofsKernels.v — what each mask kernel computes, bit by bit, stated
   without reference to the scalar model: every output bit is a function of a
   small left-to-right recurrence over the input bits (parity of the current
   backslash run, inside-string flag).  The addition trick of
   find_odd_backslash_sequences is proved through an invariant on the carry
   sequence, the carry-less multiplication through the prefix XOR. *)
From Coq Require Import Lia ZifyBool ZifyNat ZifyN.
From SJ Require Import Model.Base Model.RefTables Model.Stage1 Proofs.MaskModel Proofs.MaskProofsBits.
Open Scope N_scope.

Lemma tb_b2n (b : bool) i : tb (N.b2n b) i = (i =? 0)%nat && b.
Proof.
  destruct i as [|i].
  - cbn [Nat.eqb andb]. destruct b; reflexivity.
  - cbn [Nat.eqb andb]. destruct b; [|apply tb_0].
    unfold tb. cbn [N.b2n]. rewrite of_nat_S. apply N.bits_above_log2. cbn. lia.
Qed.

Lemma b2n_lt (b : bool) : N.b2n b < two64.
Proof. destruct b; reflexivity. Qed.

(* the two case analyses on booleans used below *)
Lemma carries_bool (b0 x y p o z : bool) :
  (y = false -> p = z && b0) -> (z = true -> o = false /\ y = false) ->
  (xorb (z && b0) (true && negb o) && (x && negb y)) && x
    || (y && Bool.eqb p o) && ((xorb (z && b0) (true && negb o) && (x && negb y)) || x)
  = x && Bool.eqb (if x then negb p else false) (negb o) /\
  (xorb (z && b0) (true && o) && (x && negb y)) && x
    || (y && xorb p o) && ((xorb (z && b0) (true && o) && (x && negb y)) || x)
  = x && xorb (if x then negb p else false) (negb o).
Proof.
  intros Hnp Hz.
  destruct x, y, p, o, z, b0; cbn; try (split; reflexivity);
    try (specialize (Hnp eq_refl); discriminate);
    try (destruct (Hz eq_refl); discriminate).
Qed.

Lemma odd_ends_bool (b0 x y p o z : bool) :
  (y = false -> p = z && b0) -> (z = true -> o = false /\ y = false) ->
  (p = true -> y = true \/ (z = true /\ b0 = true)) ->
  (true && negb x) && (true && negb o)
    && ((true && xorb (xorb (xorb (z && b0) (true && o) && (x && negb y)) x) (y && xorb p o)) || z && b0)
  || (true && o) && (true && negb x)
    && (true && xorb (xorb (xorb (z && b0) (true && negb o) && (x && negb y)) x) (y && Bool.eqb p o))
  = negb x && p.
Proof.
  intros Hnp Hz Hpt.
  destruct x, y, p, o, z, b0; cbn; try reflexivity;
    try (specialize (Hnp eq_refl); discriminate);
    try (destruct (Hz eq_refl); discriminate);
    try (destruct (Hpt eq_refl) as [Hx|[Hx Hy]]; discriminate).
Qed.

(* ------------------------------------------------------------------ *)
(* find_odd_backslash_sequences                                        *)

Section OddBackslash.
  Variable bs : N.
  Hypothesis Hbs : bs < two64.
  Variable b0 : bool.    (* prev_iter_ends_odd_backslash *)

  Definition isbs (i : nat) : bool := tb bs i.

  (* parity of the backslash run that ends just before position i *)
  Fixpoint par (i : nat) : bool :=
    match i with
    | O => b0
    | S k => if isbs k then negb (par k) else false
    end.

  (* the byte before position i is a backslash of this block *)
  Definition pb (i : nat) : bool := match i with O => false | S k => isbs k end.

  Lemma isbs_high i : (64 <= i)%nat -> isbs i = false.
  Proof. intros H. apply tb_high; assumption. Qed.

  Lemma par_nopb i : pb i = false -> par i = (i =? 0)%nat && b0.
  Proof.
    destruct i as [|k]; cbn [pb par Nat.eqb andb]; [reflexivity|].
    intros ->. reflexivity.
  Qed.

  Let se := N.land bs (not64 (shl1 bs)).
  Let es := N.land (N.lxor (N.b2n b0) even_bits) se.
  Let os := N.land (N.lxor (N.b2n b0) odd_bits) se.

  Lemma tb_se i : tb se i = isbs i && negb (pb i).
  Proof.
    unfold se. rewrite tb_land, tb_not64. fold (isbs i).
    destruct i as [|k].
    - rewrite tb_shl1_0. cbn [pb Nat.ltb Nat.leb negb andb]. reflexivity.
    - rewrite tb_shl1_S. cbn [pb]. fold (isbs k).
      destruct (Nat.ltb_spec (S k) 64) as [Hlt|Hge]; cbn [andb]; [reflexivity|].
      rewrite (isbs_high (S k)) by exact Hge. reflexivity.
  Qed.

  Lemma tb_es i : tb es i =
    xorb ((i =? 0)%nat && b0) ((i <? 64)%nat && Nat.even i) && (isbs i && negb (pb i)).
  Proof. unfold es. rewrite tb_land, tb_lxor, tb_b2n, tb_even_bits, tb_se. reflexivity. Qed.

  Lemma tb_os i : tb os i =
    xorb ((i =? 0)%nat && b0) ((i <? 64)%nat && Nat.odd i) && (isbs i && negb (pb i)).
  Proof. unfold os. rewrite tb_land, tb_lxor, tb_b2n, tb_odd_bits, tb_se. reflexivity. Qed.

  Lemma se_lt : se < two64.
  Proof. unfold se. apply land_lt_l. exact Hbs. Qed.
  Lemma es_lt : es < two64.
  Proof. unfold es. apply land_lt_r. exact se_lt. Qed.
  Lemma os_lt : os < two64.
  Proof. unfold os. apply land_lt_r. exact se_lt. Qed.

  (* the carry into bit i of even_starts + bs_bits is set exactly inside and
     just after a backslash run that began on an even start; of
     odd_starts + bs_bits, on an odd start.  "Began on an even start" is
     expressed by the parity of the run so far and the parity of i. *)
  Lemma carries i : (i <= 64)%nat ->
    carry es bs i = pb i && Bool.eqb (par i) (Nat.odd i) /\
    carry os bs i = pb i && xorb (par i) (Nat.odd i).
  Proof.
    induction i as [|i IH]; intros Hi.
    - cbn [carry pb andb]. split; reflexivity.
    - destruct IH as [IHe IHo]; [lia|].
      cbn [carry]. rewrite IHe, IHo, tb_es, tb_os. fold (isbs i).
      cbn [pb par]. rewrite Nat.odd_succ.
      replace (i <? 64)%nat with true by (symmetry; apply Nat.ltb_lt; lia).
      rewrite <- (Nat.negb_odd i).
      pose proof (par_nopb i) as Hnp.
      assert (Hz : (i =? 0)%nat = true -> Nat.odd i = false /\ pb i = false).
      { intros Hz. apply Nat.eqb_eq in Hz. subst i. split; reflexivity. }
      unfold maj. revert Hnp Hz.
      generalize (isbs i) (pb i) (par i) (Nat.odd i) ((i =? 0)%nat).
      intros x y p o z. destruct b0; apply carries_bool.
  Qed.

  Lemma par_true i : par i = true -> pb i = true \/ (i = 0%nat /\ b0 = true).
  Proof.
    destruct i as [|k]; cbn [par pb].
    - intros ->. right. split; reflexivity.
    - destruct (isbs k); [left; reflexivity|discriminate].
  Qed.

  Theorem odd_ends_bits i :
    tb (fst (find_odd_backslash_sequences bs (N.b2n b0))) i = (i <? 64)%nat && (negb (isbs i) && par i).
  Proof.
    unfold find_odd_backslash_sequences.
    fold se. fold es. fold os.
    destruct (add64 os bs) as [odd_sum cy] eqn:Eo. cbn [fst].
    assert (Hos : odd_sum = fst (add64 os bs)) by (rewrite Eo; reflexivity).
    rewrite tb_lor, !tb_land, tb_lor, tb_not64, tb_even_bits, tb_odd_bits, tb_b2n.
    rewrite Hos, !tb_add64. fold (isbs i).
    destruct (Nat.ltb_spec i 64) as [Hlt|Hge]; cbn [andb orb]; [|try rewrite !andb_false_r; reflexivity].
    destruct (carries i) as [Ce Co]; [lia|]. rewrite Ce, Co, tb_es, tb_os.
    replace (i <? 64)%nat with true by (symmetry; apply Nat.ltb_lt; lia).
    rewrite <- (Nat.negb_odd i).
    pose proof (par_true i) as Hpt. pose proof (par_nopb i) as Hnp.
    assert (Hz : (i =? 0)%nat = true -> Nat.odd i = false /\ pb i = false).
    { intros Hz. apply Nat.eqb_eq in Hz. subst i. split; reflexivity. }
    assert (Hpt' : par i = true -> pb i = true \/ ((i =? 0)%nat = true /\ b0 = true)).
    { intros Hp. destruct (Hpt Hp) as [Hx|[Hx Hy]]; [left; exact Hx|right]. subst i. split; [reflexivity|exact Hy]. }
    clear Hpt. revert Hnp Hz Hpt'.
    generalize (isbs i) (pb i) (par i) (Nat.odd i) ((i =? 0)%nat).
    intros x y p o z. destruct b0; apply odd_ends_bool.
  Qed.

  Theorem odd_ends_carry :
    snd (find_odd_backslash_sequences bs (N.b2n b0)) = N.b2n (par 64).
  Proof.
    unfold find_odd_backslash_sequences.
    fold se. fold es. fold os.
    destruct (add64 os bs) as [odd_sum cy] eqn:Eo. cbn [snd]. f_equal.
    assert (Hcy : cy = snd (add64 os bs)) by (rewrite Eo; reflexivity).
    rewrite Hcy, add64_carry by (exact os_lt || exact Hbs).
    destruct (carries 64) as [_ Co]; [lia|]. rewrite Co.
    change (Nat.odd 64) with false. rewrite xorb_false_r.
    destruct (par 64) eqn:Ep; [|apply andb_false_r].
    destruct (par_true 64 Ep) as [Hx|[Hx _]]; [rewrite Hx; reflexivity|discriminate].
  Qed.

  Lemma odd_ends_lt : fst (find_odd_backslash_sequences bs (N.b2n b0)) < two64.
  Proof.
    apply lt64_of_tb. intros i Hi. rewrite odd_ends_bits.
    replace (i <? 64)%nat with false by (symmetry; apply Nat.ltb_ge; exact Hi). reflexivity.
  Qed.
End OddBackslash.

(* ------------------------------------------------------------------ *)
(* find_quote_mask_and_bits                                            *)

Section QuoteMask.
  Variables quotes ctl odd_ends err : N.
  Hypothesis Hq : quotes < two64.
  Hypothesis Hc : ctl < two64.
  Hypothesis He : err < two64.
  Variable q0 : bool.    (* prev_iter_inside_quote, as a flag *)

  Definition inq_word (b : bool) : N := if b then ones64 else 0.

  Definition qbit (i : nat) : bool := tb quotes i && negb (tb odd_ends i).

  (* inside-string flag after the first i bytes *)
  Fixpoint inq (i : nat) : bool :=
    match i with
    | O => q0
    | S k => xorb (inq k) (qbit k)
    end.

  Definition qbits : N := N.land quotes (not64 odd_ends).
  Definition qmask : N := N.lxor (clmul_lo64 qbits ones64) (inq_word q0).
  Definition qerr : N := N.lor err (N.land ctl qmask).

  Lemma fqmb_eq :
    find_quote_mask_and_bits quotes ctl odd_ends (inq_word q0) err = (qmask, qbits, sar63 qmask, qerr).
  Proof. unfold find_quote_mask_and_bits, qerr, qmask, qbits. reflexivity. Qed.

  Lemma tb_inq_word b i : tb (inq_word b) i = (i <? 64)%nat && b.
  Proof. destruct b; cbn [inq_word]; [rewrite tb_ones64, andb_true_r|rewrite tb_0, andb_false_r]; reflexivity. Qed.

  Lemma inq_word_lt b : inq_word b < two64.
  Proof. destruct b; reflexivity. Qed.

  Theorem quote_bits_bits i : tb qbits i = qbit i.
  Proof.
    unfold qbits. rewrite tb_land, tb_not64. unfold qbit.
    destruct (Nat.ltb_spec i 64) as [Hlt|Hge]; cbn [andb]; [reflexivity|].
    rewrite (tb_high quotes i Hq Hge). reflexivity.
  Qed.

  Lemma quote_bits_lt : qbits < two64.
  Proof. unfold qbits. apply land_lt_l. exact Hq. Qed.

  Lemma inq_prefix n : inq n = xorb (xor_upto qbit n) q0.
  Proof.
    induction n as [|n IH]; cbn [inq xor_upto]; [destruct q0; reflexivity|].
    rewrite IH. destruct (xor_upto qbit n), (qbit n), q0; reflexivity.
  Qed.

  Lemma xor_upto_ext f g n : (forall i, f i = g i) -> xor_upto f n = xor_upto g n.
  Proof. intros H. induction n as [|n IH]; cbn [xor_upto]; [reflexivity|]. rewrite IH, H. reflexivity. Qed.

  Theorem quote_mask_bits i : tb qmask i = (i <? 64)%nat && inq (S i).
  Proof.
    unfold qmask.
    rewrite tb_lxor, tb_clmul_lo64_ones, tb_inq_word.
    destruct (Nat.ltb_spec i 64) as [Hlt|Hge]; cbn [andb]; [|reflexivity].
    rewrite inq_prefix. f_equal. apply xor_upto_ext. intros j. apply quote_bits_bits.
  Qed.

  Lemma quote_mask_lt : qmask < two64.
  Proof using Hq.
    apply lt64_of_tb. intros i Hi. rewrite quote_mask_bits.
    replace (i <? 64)%nat with false by (symmetry; apply Nat.ltb_ge; exact Hi). reflexivity.
  Qed.

  Theorem prev_inq_next : sar63 qmask = inq_word (inq 64).
  Proof using Hq.
    rewrite sar63_eq by exact quote_mask_lt. rewrite quote_mask_bits. reflexivity.
  Qed.

  Lemma err_next_lt : qerr < two64.
  Proof using Hc He.
    unfold qerr. apply lor_lt; [exact He|]. apply land_lt_l. exact Hc.
  Qed.

  Theorem err_next_flag :
    negb (qerr =? 0) =
    negb (err =? 0) || existsb (fun i => tb ctl i && inq (S i)) (seq 0 64).
  Proof using Hq Hc He.
    unfold qerr.
    assert (Hl : N.land ctl qmask < two64) by (apply land_lt_l; exact Hc).
    assert (Hx : negb (N.land ctl qmask =? 0) =
                 existsb (fun i => tb ctl i && inq (S i)) (seq 0 64)).
    { rewrite eqb0_existsb by exact Hl.
      induction (seq 0 64) as [|j l IH]; cbn [existsb]; [reflexivity|].
      rewrite IH, tb_land, quote_mask_bits.
      destruct (Nat.ltb_spec j 64) as [Hlt|Hge]; cbn [andb]; [reflexivity|].
      rewrite (tb_high ctl j Hc Hge). reflexivity. }
    rewrite <- Hx.
    destruct (N.eqb_spec (N.lor err (N.land ctl qmask)) 0) as [E|E].
    - apply N.lor_eq_0_iff in E. destruct E as [-> ->]. reflexivity.
    - destruct (N.eqb_spec err 0) as [E1|E1]; [|reflexivity].
      destruct (N.eqb_spec (N.land ctl qmask) 0) as [E2|E2]; [|reflexivity].
      exfalso. apply E. rewrite E1, E2. reflexivity.
  Qed.
End QuoteMask.

(* ------------------------------------------------------------------ *)
(* finalize_structurals and find_newline_delimiters                    *)

Section Finalize.
  Variables structurals whitespace quote_mask quote_bits : N.
  Hypothesis Hs : structurals < two64.
  Hypothesis Hw : whitespace < two64.
  Hypothesis Hqb : quote_bits < two64.
  Variable p0 : bool.    (* prev_iter_ends_pseudo_pred *)

  (* pseudo-predecessor bit of position i: structural (outside strings),
     unescaped quote or white space *)
  Definition ppbit (i : nat) : bool :=
    (negb (tb quote_mask i) && tb structurals i) || tb quote_bits i || tb whitespace i.

  Definition predbit (i : nat) : bool := match i with O => p0 | S k => ppbit k end.

  Definition fin_s : N := N.lor (andn64 quote_mask structurals) quote_bits.
  Definition fin_pp : N := N.lor fin_s whitespace.
  Definition fin_out : N :=
    N.land (N.lor (N.land (andn64 quote_mask (not64 whitespace)) (N.lor (shl1 fin_pp) (N.b2n p0))) fin_s)
           (N.lor (not64 quote_bits) quote_mask).

  Lemma finalize_eq :
    finalize_structurals structurals whitespace quote_mask quote_bits (N.b2n p0) = (fin_out, shr63 fin_pp).
  Proof. unfold finalize_structurals, fin_out, fin_pp, fin_s. reflexivity. Qed.

  Lemma tb_fin_pp i : tb fin_pp i = ppbit i.
  Proof. unfold fin_pp, fin_s, ppbit. rewrite !tb_lor, tb_andn64. reflexivity. Qed.

  Theorem finalize_bits i : tb fin_out i =
    (i <? 64)%nat &&
    ((((negb (tb quote_mask i) && negb (tb whitespace i)) && predbit i)
      || ((negb (tb quote_mask i) && tb structurals i) || tb quote_bits i))
     && (negb (tb quote_bits i) || tb quote_mask i)).
  Proof using Hs Hw Hqb.
    unfold fin_out.
    rewrite tb_land, !tb_lor, tb_land, tb_lor, !tb_andn64, !tb_not64, tb_b2n.
    unfold fin_s. rewrite tb_lor, tb_andn64.
    destruct (Nat.ltb_spec i 64) as [Hlt|Hge].
    - assert (Hsh : tb (shl1 fin_pp) i || (i =? 0)%nat && p0 = predbit i).
      { destruct i as [|k].
        - rewrite tb_shl1_0. cbn [Nat.eqb orb andb predbit]. reflexivity.
        - rewrite tb_shl1_S. cbn [Nat.eqb andb predbit]. rewrite orb_false_r.
          replace (S k <? 64)%nat with true by (symmetry; apply Nat.ltb_lt; lia).
          cbn [andb]. apply tb_fin_pp. }
      rewrite Hsh. cbn [andb].
      destruct (tb quote_mask i), (tb whitespace i), (tb structurals i), (tb quote_bits i), (predbit i); reflexivity.
    - rewrite (tb_high structurals i Hs Hge), (tb_high quote_bits i Hqb Hge).
      cbn [andb]. rewrite !andb_false_r. reflexivity.
  Qed.

  Lemma finalize_lt : fin_out < two64.
  Proof using Hs Hw Hqb.
    apply lt64_of_tb. intros i Hi. rewrite finalize_bits.
    replace (i <? 64)%nat with false by (symmetry; apply Nat.ltb_ge; exact Hi). reflexivity.
  Qed.

  Theorem finalize_pred : shr63 fin_pp = N.b2n (ppbit 63).
  Proof.
    rewrite shr63_eq.
    - rewrite tb_fin_pp. reflexivity.
    - unfold fin_pp, fin_s. apply lor_lt; [|exact Hw]. apply lor_lt; [|exact Hqb]. apply andn64_lt. exact Hs.
  Qed.
End Finalize.

Lemma newline_bits lf quote_mask i :
  tb (find_newline_delimiters lf quote_mask) i = negb (tb quote_mask i) && tb lf i.
Proof. apply tb_andn64. Qed.
