(* FloatFmtSwitch.v — C18, the ECMAScript layout switch: appendFloat compares
   the float with the float64 constants 1e-6 and 1e21 (bit patterns, in the
   model); ECMAScript's Number::toString switches on the decimal exponent of
   the shortest digits.  The two agree: plain layout iff -6 < dp <= 21. *)
From Coq Require Import ZArith NArith Reals List Bool Lia Lra ZifyBool ZifyN ZifyNat.
From Coq Require Import Floats.SpecFloat.
From Flocq Require Import Core.
From SJ Require Import Model.Base Model.RefTables Spec.Json Model.Number Model.Iter Model.FloatFmt.
From SJ Require Import Proofs.NumLex Proofs.NumFloat Proofs.NumberProofs Proofs.NumberFinal.
From SJ Require Import Proofs.FloatFmtBits Proofs.FloatFmtReal Proofs.FloatFmtSearch Proofs.FloatFmtText
  Proofs.FloatFmtProofs.
Import ListNotations.
Local Open Scope Z_scope.

Ltac Zify.zify_post_hook ::= Z.div_mod_to_equations.

(* ------------------------------------------------------------------ *)
(* the magnitude of a pattern                                           *)

Lemma sf_of_bits_abs bits s m e :
  (bits < two64)%N -> sf_of_bits bits = S754_finite s m e ->
  sf_of_bits (bits mod two63) = S754_finite false m e.
Proof.
  intros Hlt H.
  assert (HE : (((bits mod two63) / 4503599627370496) mod 2048 = (bits / 4503599627370496) mod 2048)%N)
    by (unfold two63, two64 in *; lia).
  assert (HM : ((bits mod two63) mod 4503599627370496 = bits mod 4503599627370496)%N)
    by (unfold two63, two64 in *; lia).
  assert (HS : (two63 <=? bits mod two63)%N = false) by (unfold two63, two64 in *; lia).
  unfold sf_of_bits in *. rewrite HE, HM, HS.
  set (E := ((bits / 4503599627370496) mod 2048)%N) in *.
  set (M := (bits mod 4503599627370496)%N) in *.
  destruct (E =? 2047)%N.
  { destruct (M =? 0)%N; discriminate H. }
  destruct (E =? 0)%N.
  { destruct M; [discriminate H|]. injection H as _ <- <-. reflexivity. }
  destruct (M + 4503599627370496)%N; [discriminate H|]. injection H as _ <- <-. reflexivity.
Qed.

Lemma shortest_abs bits s m e :
  (bits < two64)%N -> sf_of_bits bits = S754_finite s m e ->
  shortest bits = shortest (bits mod two63).
Proof.
  intros Hlt H. unfold shortest. rewrite H, (sf_of_bits_abs bits s m e Hlt H).
  change 9223372036854775808%N with two63. rewrite N.mod_mod by discriminate. reflexivity.
Qed.

(* ------------------------------------------------------------------ *)
(* positive finite patterns are ordered like their values               *)

Lemma xval_eq m e : xval m e = (IZR (Zpos m) * bpow radix2 e)%R.
Proof. reflexivity. Qed.

Lemma xval_lt_same m1 m2 e : (m1 < m2)%positive -> (xval m1 e < xval m2 e)%R.
Proof.
  intros H. rewrite !xval_eq. apply Rmult_lt_compat_r; [apply bpow_gt_0|apply IZR_lt; lia].
Qed.

Lemma xval_lt_far m1 e1 m2 e2 a b :
  0 <= a -> 0 <= b -> Zpos m1 < 2 ^ a -> 2 ^ b <= Zpos m2 -> a + e1 <= b + e2 ->
  (xval m1 e1 < xval m2 e2)%R.
Proof.
  intros Ha Hb H1 H2 Hab. rewrite !xval_eq.
  apply Rlt_le_trans with (bpow radix2 (a + e1)).
  - rewrite bpow_plus. apply Rmult_lt_compat_r; [apply bpow_gt_0|].
    rewrite <- (IZR_Zpower radix2) by exact Ha. apply IZR_lt. exact H1.
  - apply Rle_trans with (bpow radix2 (b + e2)); [apply bpow_le; exact Hab|].
    rewrite bpow_plus. apply Rmult_le_compat_r; [apply bpow_ge_0|].
    rewrite <- (IZR_Zpower radix2) by exact Hb. apply IZR_le. exact H2.
Qed.

Theorem bits_lt_xval b1 b2 s1 m1 e1 s2 m2 e2 :
  (b1 < two63)%N -> (b2 < two63)%N ->
  sf_of_bits b1 = S754_finite s1 m1 e1 -> sf_of_bits b2 = S754_finite s2 m2 e2 ->
  (b1 < b2)%N -> (xval m1 e1 < xval m2 e2)%R.
Proof.
  intros L1 L2 H1 H2 Hlt.
  apply sf_of_bits_finite_cases in H1, H2. destruct H1 as [_ H1], H2 as [_ H2]. cbv zeta in H1, H2.
  assert (HM1 : (b1 mod 4503599627370496 < 4503599627370496)%N) by (apply N.mod_lt; discriminate).
  assert (HM2 : (b2 mod 4503599627370496 < 4503599627370496)%N) by (apply N.mod_lt; discriminate).
  unfold two63 in *.
  set (E1 := ((b1 / 4503599627370496) mod 2048)%N) in *.
  set (E2 := ((b2 / 4503599627370496) mod 2048)%N) in *.
  assert (Hcmp : (E1 < E2)%N \/ (E1 = E2 /\ (b1 mod 4503599627370496 < b2 mod 4503599627370496)%N))
    by (unfold E1, E2; lia).
  change 4503599627370496 with (2 ^ 52) in *.
  destruct H1 as [(A1 & -> & B1)|(A1 & -> & B1)]; destruct H2 as [(A2 & -> & B2)|(A2 & -> & B2)].
  - apply xval_lt_same. lia.
  - apply (xval_lt_far _ _ _ _ 52 52); lia.
  - exfalso. lia.
  - destruct Hcmp as [Hc|[Hc1 Hc2]].
    + apply (xval_lt_far _ _ _ _ 53 52); try lia; change (2 ^ 53) with (2 * 2 ^ 52); lia.
    + rewrite Hc1. apply xval_lt_same. lia.
Qed.

(* ------------------------------------------------------------------ *)
(* digit strings and magnitudes                                         *)

Lemma digits_val_lt ds : all_lt10 ds -> 0 <= digits_val ds 0 < 10 ^ Z.of_nat (length ds).
Proof.
  induction 1 as [|d ds Hd Hds IH].
  - cbn [digits_val length]. change (10 ^ Z.of_nat 0) with 1. lia.
  - cbn [digits_val length]. rewrite digits_val_shift, Nat2Z.inj_succ, Z.pow_succ_r by lia.
    set (P := 10 ^ Z.of_nat (length ds)) in *. nia.
Qed.

Lemma digits_val_ge ds :
  all_lt10 ds -> ds <> [] -> hd 0%N ds <> 0%N -> 10 ^ (Z.of_nat (length ds) - 1) <= digits_val ds 0.
Proof.
  intros Hall Hne Hhd. destruct ds as [|d ds]; [congruence|]. cbn [hd] in Hhd.
  inversion Hall as [|? ? Hd Hds]; subst.
  cbn [digits_val length]. rewrite digits_val_shift, Nat2Z.inj_succ.
  replace (Z.succ (Z.of_nat (length ds)) - 1) with (Z.of_nat (length ds)) by lia.
  pose proof (digits_val_lt ds Hds). set (P := 10 ^ Z.of_nat (length ds)) in *. nia.
Qed.

(* ------------------------------------------------------------------ *)
(* a threshold that is a power of ten                                   *)

Section Threshold.
Variables (b0 : N) (m0 : positive) (e0 j : Z) (ds0 : list N).
Hypothesis Hb0 : (b0 < two63)%N.
Hypothesis Hsf0 : sf_of_bits b0 = S754_finite false m0 e0.
Hypothesis Hdec0 : bits_of_sf (dec_to_float false 1 j) = b0.
Hypothesis Hsh0 : shortest b0 = (ds0, j + 1).

Lemma threshold_rnd : rnd64 (bpow radix10 j) = xval m0 e0.
Proof.
  pose proof (sf_of_bits_valid b0 false m0 e0 Hsf0) as Hv.
  rewrite <- dval_one. apply (dec_ok_iff m0 e0 1 j Hv).
  rewrite (bits_of_sf_of_bits_abs b0 false m0 e0 Hsf0).
  rewrite N.mod_small by exact Hb0. exact Hdec0.
Qed.

Theorem threshold_switch bits s m e ds dp :
  (bits < two64)%N -> sf_of_bits bits = S754_finite s m e -> shortest bits = (ds, dp) ->
  (b0 <=? bits mod two63)%N = (j <? dp).
Proof.
  intros Hlt Hsf Hsh.
  pose proof (sf_of_bits_abs bits s m e Hlt Hsf) as Hsfa.
  assert (Hab : (bits mod two63 < two63)%N) by (apply N.mod_lt; discriminate).
  destruct (shortest_roundtrip bits s m e ds dp Hsf Hsh) as (Hall & Hne & Hhd & Hpos & _ & Hrt).
  pose proof (sf_of_bits_valid bits s m e Hsf) as Hv.
  set (c := digits_val ds 0) in *. set (nd := Z.of_nat (length ds)) in *.
  (* the decimal printed rounds to x and has magnitude dp *)
  assert (Hr : rnd64 (dval c (dp - nd)) = xval m e).
  { destruct c as [|q|q] eqn:Ec; try lia. apply (dec_ok_iff m e q (dp - nd) Hv).
    rewrite (bits_of_sf_of_bits_abs bits s m e Hsf). exact Hrt. }
  assert (Hmag : (bpow radix10 (dp - 1) <= dval c (dp - nd) < bpow radix10 dp)%R).
  { pose proof (digits_val_lt ds Hall) as [_ Hhi]. pose proof (digits_val_ge ds Hall Hne Hhd) as Hlo.
    fold c nd in Hhi, Hlo.
    assert (1 <= nd) by (unfold nd; destruct ds; [congruence|cbn [length]; lia]).
    split.
    - replace (dp - 1) with ((nd - 1) + (dp - nd)) by lia. rewrite <- dval_pow by lia.
      apply dval_le. exact Hlo.
    - replace dp with (nd + (dp - nd)) at 2 by lia. rewrite <- dval_pow by lia.
      apply dval_lt. exact Hhi. }
  pose proof threshold_rnd as Ht.
  assert (Hvalid : Valid_exp b64exp) by (apply FLT_exp_valid; exact Hprec).
  destruct (N.lt_trichotomy (bits mod two63) b0) as [Hlt0|[Heq0|Hgt0]].
  - (* below the threshold *)
    pose proof (bits_lt_xval _ _ _ _ _ _ _ _ Hab Hb0 Hsfa Hsf0 Hlt0) as Hx.
    replace (b0 <=? bits mod two63)%N with false by lia.
    destruct (Z.ltb_spec j dp) as [Hjd|Hjd]; [exfalso|reflexivity].
    assert (rnd64 (bpow radix10 j) <= rnd64 (dval c (dp - nd)))%R.
    { apply round_le; [exact Hvalid|apply valid_rnd_N|].
      apply Rle_trans with (2 := proj1 Hmag). apply bpow_le. lia. }
    lra.
  - (* the threshold itself *)
    rewrite Heq0, N.leb_refl.
    rewrite (shortest_abs bits s m e Hlt Hsf), Heq0, Hsh0 in Hsh. injection Hsh as _ <-. lia.
  - (* above *)
    pose proof (bits_lt_xval _ _ _ _ _ _ _ _ Hb0 Hab Hsf0 Hsfa Hgt0) as Hx.
    replace (b0 <=? bits mod two63)%N with true by lia.
    destruct (Z.ltb_spec j dp) as [Hjd|Hjd]; [reflexivity|exfalso].
    assert (rnd64 (dval c (dp - nd)) <= rnd64 (bpow radix10 j))%R.
    { apply round_le; [exact Hvalid|apply valid_rnd_N|].
      apply Rlt_le, Rlt_le_trans with (1 := proj2 Hmag). apply bpow_le. lia. }
    lra.
Qed.

End Threshold.

(* ------------------------------------------------------------------ *)
(* the two thresholds of appendFloat                                    *)

Lemma switch_1em6 bits s m e ds dp :
  (bits < two64)%N -> sf_of_bits bits = S754_finite s m e -> shortest bits = (ds, dp) ->
  (bits_1em6 <=? bits mod two63)%N = (-6 <? dp).
Proof.
  apply (threshold_switch bits_1em6 4722366482869645 (-72) (-6) [1%N]).
  - vm_compute. reflexivity.
  - vm_compute. reflexivity.
  - vm_compute. reflexivity.
  - vm_compute. reflexivity.
Qed.

Lemma switch_1e21 bits s m e ds dp :
  (bits < two64)%N -> sf_of_bits bits = S754_finite s m e -> shortest bits = (ds, dp) ->
  (bits_1e21 <=? bits mod two63)%N = (21 <? dp).
Proof.
  apply (threshold_switch bits_1e21 7629394531250000 17 21 [1%N]).
  - vm_compute. reflexivity.
  - vm_compute. reflexivity.
  - vm_compute. reflexivity.
  - vm_compute. reflexivity.
Qed.

Lemma bits_of_sf_pos_nonzero m e : -1074 <= e -> bits_of_sf (S754_finite false m e) <> 0%N.
Proof.
  intros He. unfold bits_of_sf, two52.
  destruct (Z.ltb_spec (Z.pos m) 4503599627370496) as [Hlt|Hge]; lia.
Qed.

Lemma abs_nonzero bits s m e :
  sf_of_bits bits = S754_finite s m e -> (bits mod two63 =? 0)%N = false.
Proof.
  intros Hsf. rewrite <- (bits_of_sf_of_bits_abs bits s m e Hsf).
  apply N.eqb_neq. apply bits_of_sf_pos_nonzero.
  apply sf_of_bits_finite_cases in Hsf. destruct Hsf as [_ Hsf]. cbv zeta in Hsf.
  destruct Hsf as [(A & -> & B)|(A & -> & B)]; lia.
Qed.

(* C18, "ECMAScript format": for a finite non-zero float the plain layout is
   used exactly when the decimal exponent of the shortest digits satisfies
   -6 < dp <= 21 (ECMA-262 Number::toString steps 6-8), the exponent layout
   otherwise *)
Theorem fmt_float_es6 bits s m e ds dp :
  (bits < two64)%N -> sf_of_bits bits = S754_finite s m e -> shortest bits = (ds, dp) ->
  fmt_float bits =
  Some (if (-6 <? dp) && (dp <=? 21) then fmt_f (two63 <=? bits)%N ds dp
        else fmt_e (two63 <=? bits)%N ds dp).
Proof.
  intros Hlt Hsf Hsh.
  assert (Hfin : sf_is_finite (sf_of_bits bits) = true) by (rewrite Hsf; reflexivity).
  rewrite (fmt_float_switch bits Hfin). cbv zeta. rewrite Hsh. cbn [fst snd].
  rewrite (abs_nonzero bits s m e Hsf). cbn [orb].
  rewrite (switch_1em6 bits s m e ds dp Hlt Hsf Hsh).
  assert (E21 : (bits mod two63 <? bits_1e21)%N = negb (bits_1e21 <=? bits mod two63)%N).
  { rewrite N.leb_antisym, negb_involutive. reflexivity. }
  rewrite E21, (switch_1e21 bits s m e ds dp Hlt Hsf Hsh).
  assert (E : negb (21 <? dp) = (dp <=? 21)) by (rewrite Z.leb_antisym; reflexivity).
  rewrite E. reflexivity.
Qed.

(* consequently the exponent printed in the exponent layout is >= 21 or <= -7:
   the "e+0X" padding of strconv's %e never shows, "e-0X" is cleaned to "e-X" *)
Corollary fmt_float_exponent_range bits s m e ds dp :
  (bits < two64)%N -> sf_of_bits bits = S754_finite s m e -> shortest bits = (ds, dp) ->
  (-6 <? dp) && (dp <=? 21) = false -> dp - 1 <= -7 \/ 21 <= dp - 1.
Proof. intros _ _ _ H. lia. Qed.

(* the complete picture of the text, by cases *)
Theorem fmt_float_shape bits s m e ds dp :
  (bits < two64)%N -> sf_of_bits bits = S754_finite s m e -> shortest bits = (ds, dp) ->
  let neg := (two63 <=? bits)%N in
  let nd := Z.of_nat (length ds) in
  fmt_float bits = Some (
    if (dp <=? -6) || (21 <? dp) then
      match ds with
      | d1 :: rest =>
        sign_bytes neg ++ [dig d1] ++ (match rest with [] => [] | _ => bDOT :: digs rest end) ++
        b_e :: [exp_sign (dp - 1)] ++ exp_digits (dp - 1)
      | [] => []
      end
    else if dp <=? 0 then sign_bytes neg ++ [b_0] ++ bDOT :: zeros (Z.to_nat (- dp)) ++ digs ds
    else if dp <? nd then
      sign_bytes neg ++ digs (firstn (Z.to_nat dp) ds) ++ bDOT :: digs (skipn (Z.to_nat dp) ds)
    else sign_bytes neg ++ digs ds ++ zeros (Z.to_nat (dp - nd))).
Proof.
  intros Hlt Hsf Hsh. cbv zeta.
  destruct (shortest_roundtrip bits s m e ds dp Hsf Hsh) as (Hall & Hne & _).
  rewrite (fmt_float_es6 bits s m e ds dp Hlt Hsf Hsh). f_equal.
  replace ((dp <=? -6) || (21 <? dp)) with (negb ((-6 <? dp) && (dp <=? 21))) by lia.
  destruct ((-6 <? dp) && (dp <=? 21)); cbn [negb].
  - destruct (Z.leb_spec dp 0) as [H0|H0]; [apply fmt_f_small; assumption|].
    destruct (Z.ltb_spec dp (Z.of_nat (length ds))) as [H1|H1].
    + apply fmt_f_mid. lia.
    + apply fmt_f_big; assumption.
  - destruct ds as [|d1 rest]; [congruence|]. apply fmt_e_shape.
Qed.

Print Assumptions fmt_float_es6.
Print Assumptions fmt_float_shape.
