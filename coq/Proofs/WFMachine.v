(* WFMachine.v — property C17 at the machine level: whenever the stage-2
   machine succeeds, on ARBITRARY input (no specification hypothesis), the tape
   it leaves is well formed in the sense of Model/WF.v (wf_check): root pairs
   with mutual pointers, properly nested containers with mutual start/end
   pointers, strings in range, numbers followed by their payload word.
   Valid for Parse and ParseND alike (the machine is the same).

   The proof is an invariant over run_labels/step:
   - [pinv]: where the machine is in the message and in the index buffers;
   - a budget for the string buffer ([str_budget]) and a label-dependent bound
     on the tape length, which keep every payload below 2^56 / 2^55;
   - [istk]: the tape is a sequence of closed root pairs followed by the open
     root and a stack of open containers, each holding complete items
     (shapes of Proofs/WFMachineBase.v), the state of the top frame being
     determined by the label ([ts_of]). *)
From Coq Require Import ZifyBool ZifyN ZifyNat.
From SJ Require Import Model.Base Model.RefTables Model.Number Model.Str Model.Stage1 Model.Stage2.
From SJ Require Import Model.Tape Model.Iter Model.WF.
From SJ Require Import Proofs.StrArith Proofs.StrProofs Proofs.Stage2Base Proofs.Stage2Proofs Proofs.TotalDefs.
From SJ Require Import Proofs.WFMachineBase.
Open Scope N_scope.

Notation len ws := (N.of_nat (length ws)).

(* ------------------------------------------------------------------ *)
(* the string budget                                                   *)

(* number of bytes parseString appends at most when called at position p *)
Definition strcost (msg : bytes) (p : nat) : nat :=
  if nth_b msg p =? cQUOTE then
    match str_loop (S (S (length msg))) (skipn (S p) msg) 0 [] None with
    | StrOk _ dec => length dec
    | _ => 0%nat
    end
  else 0%nat.

Definition str_budget (msg : bytes) (ps : list nat) : nat := list_sum (map (strcost msg) ps).

Lemma skipn_nth_b (l : bytes) : forall p, (p < length l)%nat ->
  exists b r, skipn p l = b :: r /\ b2n b = nth_b l p /\ r = skipn (S p) l.
Proof.
  induction l as [|x l IH]; intros p Hp; [cbn [length] in Hp; lia|].
  destruct p as [|p].
  - exists x, l. repeat split.
  - cbn [length] in Hp. destruct (IH p) as (b & r & E1 & E2 & E3); [lia|].
    exists b, r. cbn [skipn]. split; [exact E1|]. split; [exact E2|]. exact E3.
Qed.

Section Machine.
Variable copy : bool.
Variable msg : bytes.
Hypothesis Hlen : N.of_nat (length msg) < STRINGBUFBIT.

Notation nmsg := (N.of_nat (length msg)).
Notation shp := (WFMachineBase.shp nmsg).
Notation sok := (WFMachineBase.sok nmsg).
Notation rts := (WFMachineBase.rts nmsg).

(* ------------------------------------------------------------------ *)
(* position tracking                                                   *)

Record pinv (m : m2) (ps : list nat) : Prop := {
  pi_whole : whole m = msg;
  pi_sfuel : sfuel m = S (S (length msg));
  pi_tlen : tlen m = len (tape_rev m);
  pi_slen : slen m = len (strs_rev m);
  pi_rb : noempty (rbufs m);
  pi_pend : pending m = incs (N.to_nat (idx1 m)) ps;
  pi_incr : incr_from (N.to_nat (idx1 m)) ps;
  pi_rng : Forall (fun p => (p < length msg)%nat) ps;
  pi_cur : idx1 m <> 0 -> cur m = skipn (N.to_nat (idx1 m) - 1) msg;
  pi_idx : idx1 m <= nmsg
}.

Lemma pinv_same m1 m2 ps : pinv m1 ps ->
  whole m2 = whole m1 -> sfuel m2 = sfuel m1 -> rbufs m2 = rbufs m1 -> cbuf m2 = cbuf m1 ->
  idx1 m2 = idx1 m1 -> cur m2 = cur m1 ->
  tlen m2 = len (tape_rev m2) -> slen m2 = len (strs_rev m2) -> pinv m2 ps.
Proof.
  intros [A B C D E F G H I J] E1 E2 E3 E4 E5 E6 E7 E8.
  constructor; try assumption.
  - congruence.
  - congruence.
  - rewrite E3. exact E.
  - unfold pending in *. rewrite E3, E4, E5. exact F.
  - rewrite E5. exact G.
  - rewrite E5, E6. exact I.
  - rewrite E5. exact J.
Qed.

(* updateChar on a non-empty list of pending positions *)
Lemma uc_pos m p ps : pinv m (p :: ps) ->
  exists cb rb,
    let m1 := adv m (N.of_nat (S p)) (skipn p msg) cb rb in
    update_char m = UChar m1 (nth_b msg p) /\ pinv m1 ps /\ idx1 m + 1 <= idx1 m1.
Proof.
  intros [A B C D E F G H I J].
  cbn [incr_from] in G. destruct G as [G1 G2].
  inversion H as [|? ? Hp Hps]; subst.
  rewrite incs_cons in F.
  destruct (update_char_pending m _ _ E F) as (cb & rb & Hrest & Hrb & Hu).
  exists cb, rb. cbv zeta.
  set (d := (S p - N.to_nat (idx1 m))%nat) in *.
  assert (Hd : (1 <= d)%nat) by (unfold d; lia).
  destruct (skipn_nth_b msg p Hp) as (b & r & Es & Eb & _).
  assert (Hncur : (if idx1 m =? 0 then skipn (d - 1) (whole m) else skipn d (cur m)) = skipn p msg).
  { destruct (N.eqb_spec (idx1 m) 0) as [E0|E0].
    - rewrite A. f_equal. unfold d. lia.
    - rewrite (I E0), skipn_skipn'. f_equal. unfold d. lia. }
  assert (Hi1 : idx1 m + N.of_nat d = N.of_nat (S p)) by (unfold d; lia).
  split; [|split].
  - rewrite Hu. cbv zeta. rewrite Hncur, Hi1, Es.
    replace ((d =? 0)%nat) with false by lia. cbn [andb]. rewrite Eb. reflexivity.
  - constructor; msimpl; try assumption.
    + unfold pending. msimpl. rewrite Nat2N.id. exact Hrest.
    + rewrite Nat2N.id. exact G2.
    + intros _. rewrite Nat2N.id. f_equal. lia.
    + lia.
  - msimpl. lia.
Qed.

Lemma uc_done m : pinv m [] -> update_char m = UDone m.
Proof. intros [A B C D E F G H I J]. apply update_char_done; [exact E|exact F]. Qed.

(* ------------------------------------------------------------------ *)
(* the stack of open frames                                            *)

Inductive tstate := TRoot0 | TRoot1 | TArr | TObj | TKey.

(* the frame is waiting for a value, which will return to [ret] *)
Definition awaits (ts : tstate) (ret : N) : Prop :=
  (ts = TRoot0 /\ ret = retStart) \/ (ts = TArr /\ ret = retArray) \/ (ts = TKey /\ ret = retObject).

Definition after (ret : N) : tstate :=
  if ret =? retArray then TArr else if ret =? retObject then TObj else TRoot1.

(* [istk sl ts st T]: scope stack [st] (top first) and tape [T] (last word
   first); [ts] is the state of the top frame *)
Inductive istk (sl : N) : tstate -> list N -> list N -> Prop :=
| is_root0 closed : rts sl 0 closed ->
    istk sl TRoot0 [len closed * 4 + retStart] (mk_word TagRoot 0 :: rev closed)
| is_root1 closed v : rts sl 0 closed -> shp sl KV (len closed + 1) v ->
    istk sl TRoot1 [len closed * 4 + retStart] (rev v ++ mk_word TagRoot 0 :: rev closed)
| is_arr ts st T items ret : istk sl ts st T -> awaits ts ret -> shp sl KE (len T + 1) items ->
    istk sl TArr ((len T * 4 + ret) :: st) (rev items ++ mk_word cLBRACK 0 :: T)
| is_obj ts st T items ret : istk sl ts st T -> awaits ts ret -> shp sl KM (len T + 1) items ->
    istk sl TObj ((len T * 4 + ret) :: st) (rev items ++ mk_word cLBRACE 0 :: T)
| is_key ts st T items kw kl ret : istk sl ts st T -> awaits ts ret -> shp sl KM (len T + 1) items ->
    sok sl kw kl ->
    istk sl TKey ((len T * 4 + ret) :: st) (kl :: kw :: rev items ++ mk_word cLBRACE 0 :: T).

Lemma istk_mono sl sl' ts st T : sl <= sl' -> istk sl ts st T -> istk sl' ts st T.
Proof.
  intros Hle H. induction H.
  - apply is_root0. eapply rts_mono; eassumption.
  - apply is_root1; [eapply rts_mono|eapply shp_mono]; eassumption.
  - eapply is_arr; try eassumption. eapply shp_mono; eassumption.
  - eapply is_obj; try eassumption. eapply shp_mono; eassumption.
  - eapply is_key; try eassumption; [eapply shp_mono|eapply sok_mono]; eassumption.
Qed.

Lemma istk_stack sl ts st T : istk sl ts st T -> st <> [].
Proof. intros H. destruct H; discriminate. Qed.

Lemma awaits_lt ts ret : awaits ts ret -> ret < 4.
Proof. intros [[_ ->]|[[_ ->]|[_ ->]]]; reflexivity. Qed.

(* a complete value arrives in a frame that waits for one *)
Lemma istk_value sl ts st T ret v :
  istk sl ts st T -> awaits ts ret -> shp sl KV (len T) v -> istk sl (after ret) st (rev v ++ T).
Proof.
  intros H Ha Hv. destruct Ha as [[-> ->]|[[-> ->]|[-> ->]]]; inversion H; subst.
  - (* root *)
    change (after retStart) with TRoot1. apply is_root1; [assumption|].
    cbn [length] in Hv. rewrite rev_length in Hv.
    replace (len closed + 1) with (N.of_nat (S (length closed))) by lia. exact Hv.
  - (* array *)
    change (after retArray) with TArr.
    rewrite app_assoc, <- rev_app_distr. eapply is_arr; try eassumption.
    apply shp_esnoc; [assumption|].
    rewrite app_length, rev_length in Hv. cbn [length] in Hv.
    replace (len T0 + 1 + len items) with (N.of_nat (length items + S (length T0))) by lia. exact Hv.
  - (* object, after a key *)
    change (after retObject) with TObj.
    replace (rev v ++ kl :: kw :: rev items ++ mk_word cLBRACE 0 :: T0)
      with (rev (items ++ kw :: kl :: v) ++ mk_word cLBRACE 0 :: T0).
    2:{ rewrite rev_app_distr. cbn [rev]. rewrite <- !app_assoc. reflexivity. }
    eapply is_obj; try eassumption.
    apply shp_msnoc; try assumption.
    cbn [length] in Hv. rewrite app_length, rev_length in Hv. cbn [length] in Hv.
    replace (len T0 + 1 + len items + 2) with (N.of_nat (S (S (length items + S (length T0))))) by lia.
    exact Hv.
Qed.

Lemma istk_key sl st T kw kl : istk sl TObj st T -> sok sl kw kl -> istk sl TKey st (kl :: kw :: T).
Proof. intros H Hk. inversion H; subst. eapply is_key; eassumption. Qed.

(* ------------------------------------------------------------------ *)
(* the invariant                                                       *)

Definition ts_of (l : label) : tstate :=
  match l with
  | L_start => TRoot0
  | L_startContinue | L_ndSkip => TRoot1
  | L_objBegin | L_objCont | L_objKey => TObj
  | L_objColon | L_objValue => TKey
  | L_arrBegin | L_arrValue | L_arrCont => TArr
  end.

(* tape length against message position *)
Definition tlb (l : label) (m : m2) : Prop :=
  match l with
  | L_start => tlen m <= 1
  | L_ndSkip => tlen m + 1 <= 2 * idx1 m
  | _ => tlen m <= 2 * idx1 m
  end.

(* words the step leaving label l may write *)
Definition need (l : label) : N :=
  match l with L_start => 1 | L_ndSkip => 3 | _ => 2 end.

Record inv (l : label) (m : m2) (ps : list nat) : Prop := {
  iv_pos : pinv m ps;
  iv_bud : slen m + N.of_nat (str_budget msg ps) < STRINGBUFBIT;
  iv_tl : tlb l m;
  iv_stk : istk (slen m) (ts_of l) (stack m) (tape_rev m)
}.

(* the state between updateChar and the action of the step *)
Record mid (m1 : m2) (p : nat) (ps : list nat) (k : N) (ts : tstate) : Prop := {
  md_pos : pinv m1 ps;
  md_bud : slen m1 + N.of_nat (strcost msg p + str_budget msg ps) < STRINGBUFBIT;
  md_tl : tlen m1 + k <= 2 * idx1 m1;
  md_idx : idx1 m1 = N.of_nat (S p);
  md_cur : cur m1 = skipn p msg;
  md_stk : istk (slen m1) ts (stack m1) (tape_rev m1)
}.

Lemma uc_inv l m p ps : inv l m (p :: ps) ->
  exists m1, update_char m = UChar m1 (nth_b msg p) /\ mid m1 p ps (need l) (ts_of l).
Proof.
  intros [Hp Hb Ht Hs].
  destruct (uc_pos m p ps Hp) as (cb & rb & Hu & Hp1 & Hi). cbv zeta in *.
  eexists. split; [exact Hu|].
  msimpl_in Hi.
  constructor; msimpl.
  - exact Hp1.
  - unfold str_budget in *. cbn [map list_sum fold_right] in Hb. exact Hb.
  - destruct l; cbn [tlb need] in *; lia.
  - reflexivity.
  - reflexivity.
  - exact Hs.
Qed.

(* ------------------------------------------------------------------ *)
(* the actions of a step                                               *)

Definition good (r : Stage2.step_res) (ps : list nat) : Prop :=
  match r with
  | Next l' m' => inv l' m' ps /\ l' <> L_start
  | Succeed _ => False
  | _ => True
  end.

Definition kk (l : label) : N := match l with L_ndSkip => 1 | _ => 0 end.

Lemma tlb_of l m : l <> L_start -> tlen m + kk l <= 2 * idx1 m -> tlb l m.
Proof. intros Hl H. destruct l; cbn [tlb kk] in *; try lia. congruence. Qed.

Lemma mid_bud m1 p ps k ts : mid m1 p ps k ts -> slen m1 + N.of_nat (str_budget msg ps) < STRINGBUFBIT.
Proof. intros H. pose proof (md_bud _ _ _ _ _ H). lia. Qed.

(* nothing written *)
Lemma act_none m1 p ps k ts l' : mid m1 p ps k ts -> ts_of l' = ts -> l' <> L_start -> kk l' <= k ->
  good (Next l' m1) ps.
Proof.
  intros H Et Hl Hk. split; [|exact Hl]. constructor.
  - exact (md_pos _ _ _ _ _ H).
  - exact (mid_bud _ _ _ _ _ H).
  - apply tlb_of; [exact Hl|]. pose proof (md_tl _ _ _ _ _ H). lia.
  - rewrite Et. exact (md_stk _ _ _ _ _ H).
Qed.

Lemma cont_of_after ts ret : awaits ts ret ->
  ts_of (cont_of ret) = after ret /\ cont_of ret <> L_start /\ kk (cont_of ret) = 0.
Proof. intros [[_ ->]|[[_ ->]|[_ ->]]]; repeat split; discriminate. Qed.

(* a complete value arrives in the frame (ts, st, T) *)
Lemma val_inv m1 m2 ps ts st T ret v :
  pinv m1 ps ->
  whole m2 = whole m1 -> sfuel m2 = sfuel m1 -> rbufs m2 = rbufs m1 -> cbuf m2 = cbuf m1 ->
  idx1 m2 = idx1 m1 -> cur m2 = cur m1 ->
  tlen m2 = len (tape_rev m2) -> slen m2 = len (strs_rev m2) ->
  slen m2 + N.of_nat (str_budget msg ps) < STRINGBUFBIT ->
  tlen m2 <= 2 * idx1 m2 ->
  istk (slen m2) ts st T -> awaits ts ret -> shp (slen m2) KV (len T) v ->
  tape_rev m2 = rev v ++ T -> stack m2 = st ->
  good (Next (cont_of ret) m2) ps.
Proof.
  intros Hp E1 E2 E3 E4 E5 E6 E7 E8 Hb Htl Hs Ha Hv Et Est.
  destruct (cont_of_after _ _ Ha) as (C1 & C2 & C3).
  split; [|exact C2]. constructor.
  - eapply pinv_same; eassumption.
  - exact Hb.
  - apply tlb_of; [exact C2|]. rewrite C3. lia.
  - rewrite C1, Et, Est. eapply istk_value; eassumption.
Qed.

(* facts about the position the machine stands on *)
Lemma mid_here m1 p ps k ts : mid m1 p ps k ts ->
  (p < length msg)%nat /\ N.of_nat (S p) < STRINGBUFBIT /\ tlen m1 + k < two56 /\ slen m1 < STRINGBUFBIT /\
  exists b, cur m1 = b :: skipn (S p) msg /\ b2n b = nth_b msg p.
Proof.
  intros H. pose proof (pi_idx _ _ (md_pos _ _ _ _ _ H)) as Hi. rewrite (md_idx _ _ _ _ _ H) in Hi.
  pose proof (md_tl _ _ _ _ _ H) as Ht. rewrite (md_idx _ _ _ _ _ H) in Ht.
  pose proof (md_bud _ _ _ _ _ H) as Hb.
  assert (Hp : (p < length msg)%nat) by lia.
  split; [exact Hp|]. split; [lia|]. split; [rewrite two56_val; lia|]. split; [lia|].
  destruct (skipn_nth_b msg p Hp) as (b & r & E1 & E2 & E3).
  exists b. rewrite (md_cur _ _ _ _ _ H), E1, E3. split; [reflexivity|exact E2].
Qed.

(* parseString *)
Lemma string_facts m1 p ps k ts r :
  mid m1 p ps k ts -> nth_b msg p = cQUOTE ->
  parse_string_model (cur m1) (idx1 m1 - 1) (peek_size m1) copy (slen m1) (sfuel m1) = Ok r ->
  slen m1 <= slen (str_state m1 r) /\
  slen (str_state m1 r) = len (strs_rev (str_state m1 r)) /\
  slen (str_state m1 r) + N.of_nat (str_budget msg ps) < STRINGBUFBIT /\
  sok (slen (str_state m1 r)) (ps_word r) (ps_len r).
Proof.
  intros H Hq Hr.
  destruct (mid_here _ _ _ _ _ H) as (Hp & Hp55 & _ & Hsl & b & Ecur & _).
  pose proof (md_bud _ _ _ _ _ H) as Hb.
  pose proof (pi_slen _ _ (md_pos _ _ _ _ _ H)) as Hslen.
  apply parse_string_model_shape in Hr.
  destruct Hr as (q & mem & n & dec & Ec & Hloop & Hn & Hd & Hcase).
  rewrite Ecur in Ec. apply (f_equal (@tl byte)) in Ec. cbn [tl] in Ec. subst mem.
  rewrite (pi_sfuel _ _ (md_pos _ _ _ _ _ H)) in Hloop.
  assert (Hcost : strcost msg p = length dec).
  { unfold strcost. rewrite Hq, N.eqb_refl, Hloop. reflexivity. }
  rewrite skipn_length in Hn. rewrite (md_idx _ _ _ _ _ H) in Hcase.
  clear Hloop. msimpl.
  destruct Hcase as [(Ew & El & Ea)|(Ew & El & Ea)]; rewrite Ew, El, Ea.
  - cbn [length rev app]. split; [lia|]. split; [lia|]. split; [lia|].
    replace (N.of_nat (S p) - 1 + 1) with (N.of_nat (S p)) by lia.
    assert (B : N.of_nat (S p) < two56) by (rewrite two56_val; lia).
    split; [apply word_tag_mk; exact B|]. intros nstr Hns.
    unfold str_ok. rewrite word_val_mk by exact B.
    rewrite land_bufbit_small by exact Hp55. cbn [N.eqb]. lia.
  - rewrite app_length, rev_length. split; [lia|]. split; [lia|]. split; [lia|].
    assert (B : STRINGBUFBIT + slen m1 < two56) by (rewrite two56_val; lia).
    split; [apply word_tag_mk; exact B|]. intros nstr Hns.
    unfold str_ok. rewrite word_val_mk by exact B.
    rewrite land_bufbit_big by exact Hsl. change (STRINGBUFBIT =? 0) with false. cbv iota.
    rewrite land_bufmask by exact Hsl. lia.
Qed.

Lemma B0 : 0 < two56. Proof. reflexivity. Qed.
Lemma B1 : 1 < two56. Proof. reflexivity. Qed.

(* a key *)
Lemma key_inv m1 p ps : mid m1 p ps 2 TObj -> nth_b msg p = cQUOTE ->
  good (do_string copy m1 (fun m'' => Next L_objColon m'')) ps.
Proof.
  intros H Hq.
  destruct (parse_string_model (cur m1) (idx1 m1 - 1) (peek_size m1) copy (slen m1) (sfuel m1))
    as [r| | |] eqn:Er; try (unfold do_string; rewrite Er; exact I).
  rewrite (do_string_ok _ _ _ _ Er).
  destruct (string_facts _ _ _ _ _ _ H Hq Er) as (S1 & S2 & S3 & S4).
  pose proof (md_pos _ _ _ _ _ H) as Hp. pose proof (md_tl _ _ _ _ _ H) as Htl.
  pose proof (pi_tlen _ _ Hp) as Htlen.
  split; [|discriminate]. constructor.
  - eapply pinv_same; [exact Hp|reflexivity..| |exact S2].
    msimpl. cbn [length]. lia.
  - exact S3.
  - cbn [tlb]. msimpl. lia.
  - cbn [ts_of]. msimpl_in S4. msimpl_in S1. msimpl.
    apply istk_key; [|exact S4]. eapply istk_mono; [exact S1|]. exact (md_stk _ _ _ _ _ H).
Qed.

(* a scalar value *)
Lemma scalar_inv m1 m2 p ps ts ret v :
  mid m1 p ps 2 ts -> awaits ts ret -> shp (slen m1) KV (tlen m1) v -> (length v <= 2)%nat ->
  whole m2 = whole m1 -> sfuel m2 = sfuel m1 -> rbufs m2 = rbufs m1 -> cbuf m2 = cbuf m1 ->
  idx1 m2 = idx1 m1 -> cur m2 = cur m1 -> stack m2 = stack m1 ->
  strs_rev m2 = strs_rev m1 -> slen m2 = slen m1 ->
  tape_rev m2 = rev v ++ tape_rev m1 -> tlen m2 = tlen m1 + len v ->
  good (Next (cont_of ret) m2) ps.
Proof.
  intros H Ha Hv Hl E1 E2 E3 E4 E5 E6 E7 E8 E9 E10 E11.
  pose proof (md_pos _ _ _ _ _ H) as Hp. pose proof (md_tl _ _ _ _ _ H) as Htl.
  pose proof (pi_tlen _ _ Hp) as Htlen.
  eapply val_inv with (m1 := m1) (v := v); try eassumption.
  - rewrite E11, E10, app_length, rev_length. lia.
  - rewrite E9, E8. exact (pi_slen _ _ Hp).
  - rewrite E9. exact (mid_bud _ _ _ _ _ H).
  - rewrite E11, E5. lia.
  - rewrite E9. exact (md_stk _ _ _ _ _ H).
  - rewrite E9, <- Htlen. exact Hv.
Qed.

(* opening a container *)
Lemma open_inv m1 p ps k ts ret c l' :
  mid m1 p ps k ts -> 1 <= k -> awaits ts ret ->
  (c = cLBRACE /\ l' = L_objBegin) \/ (c = cLBRACK /\ l' = L_arrBegin) ->
  good (Next l' (write_tape (push_scope m1 ret) 0 c)) ps.
Proof.
  intros H Hk Ha Hc.
  pose proof (md_pos _ _ _ _ _ H) as Hp. pose proof (md_tl _ _ _ _ _ H) as Htl.
  pose proof (pi_tlen _ _ Hp) as Htlen.
  split; [|destruct Hc as [[_ ->]|[_ ->]]; discriminate]. constructor.
  - eapply pinv_same; [exact Hp|reflexivity..| |exact (pi_slen _ _ Hp)].
    msimpl. cbn [length]. lia.
  - msimpl. exact (mid_bud _ _ _ _ _ H).
  - msimpl. destruct Hc as [[_ ->]|[_ ->]]; cbn [tlb]; msimpl; lia.
  - msimpl. rewrite Htlen.
    destruct Hc as [[-> ->]|[-> ->]]; cbn [ts_of].
    + change (mk_word cLBRACE 0 :: tape_rev m1) with (rev [] ++ mk_word cLBRACE 0 :: tape_rev m1).
      eapply is_obj; [exact (md_stk _ _ _ _ _ H)|exact Ha|apply sh_mnil].
    + change (mk_word cLBRACK 0 :: tape_rev m1) with (rev [] ++ mk_word cLBRACK 0 :: tape_rev m1).
      eapply is_arr; [exact (md_stk _ _ _ _ _ H)|exact Ha|apply sh_enil].
Qed.

(* the value switch *)
Lemma value_switch_inv m1 p ps ts ret : mid m1 p ps 2 ts -> awaits ts ret ->
  good (value_switch copy m1 (nth_b msg p) ret (cont_of ret)) ps.
Proof.
  intros H Ha.
  pose proof (md_pos _ _ _ _ _ H) as Hp. pose proof (md_tl _ _ _ _ _ H) as Htl.
  pose proof (pi_tlen _ _ Hp) as Htlen.
  unfold value_switch.
  destruct (nth_b msg p =? cQUOTE) eqn:Eq.
  { apply N.eqb_eq in Eq.
    destruct (parse_string_model (cur m1) (idx1 m1 - 1) (peek_size m1) copy (slen m1) (sfuel m1))
      as [r| | |] eqn:Er; try (unfold do_string; rewrite Er; exact I).
    rewrite (do_string_ok _ _ _ _ Er).
    destruct (string_facts _ _ _ _ _ _ H Eq Er) as (S1 & S2 & S3 & S4).
    eapply val_inv with (m1 := m1) (v := [ps_word r; ps_len r]);
      [exact Hp|reflexivity..| |exact S2|exact S3| | |exact Ha| |reflexivity|reflexivity].
    - msimpl. cbn [length]. lia.
    - msimpl. lia.
    - eapply istk_mono; [exact S1|]. exact (md_stk _ _ _ _ _ H).
    - apply sh_str. exact S4. }
  destruct (nth_b msg p =? c_t) eqn:Et.
  { destruct (is_true_atom (cur m1)); [|exact I].
    eapply scalar_inv with (v := [mk_word c_t 0]); try eassumption; try reflexivity; try (cbn [length]; lia).
    apply sh_atom; [right; left; exact (word_tag_mk _ _ B0)|exact (word_val_mk _ _ B0)]. }
  destruct (nth_b msg p =? c_f) eqn:Ef.
  { destruct (is_false_atom (cur m1)); [|exact I].
    eapply scalar_inv with (v := [mk_word c_f 0]); try eassumption; try reflexivity; try (cbn [length]; lia).
    apply sh_atom; [right; right; exact (word_tag_mk _ _ B0)|exact (word_val_mk _ _ B0)]. }
  destruct (nth_b msg p =? c_n) eqn:En.
  { destruct (is_null_atom (cur m1)); [|exact I].
    eapply scalar_inv with (v := [mk_word c_n 0]); try eassumption; try reflexivity; try (cbn [length]; lia).
    apply sh_atom; [left; exact (word_tag_mk _ _ B0)|exact (word_val_mk _ _ B0)]. }
  destruct ((nth_b msg p =? cMINUS) || is_digit (nth_b msg p)) eqn:Ed.
  { destruct (parse_number_model (cur m1)) as [[w1 w2]|] eqn:En2; [|exact I].
    apply parse_number_shape in En2.
    eapply scalar_inv with (v := [w1; w2]); try eassumption; try reflexivity; try (cbn [length]; lia).
    destruct En2 as [->|[->|[->| ->]]].
    - apply sh_int; [left; exact (word_tag_mk _ _ B0)|exact (word_val_mk _ _ B0)].
    - apply sh_int; [right; exact (word_tag_mk _ _ B0)|exact (word_val_mk _ _ B0)].
    - apply sh_float. exact (word_tag_mk _ _ B0).
    - apply sh_float. exact (word_tag_mk _ _ B1). }
  destruct (nth_b msg p =? cLBRACE) eqn:Elb.
  { eapply open_inv; [exact H|lia|exact Ha|left; split; reflexivity]. }
  destruct (nth_b msg p =? cLBRACK) eqn:Elk.
  { eapply open_inv; [exact H|lia|exact Ha|right; split; reflexivity]. }
  exact I.
Qed.

(* inversions *)
Lemma istk_arr_inv sl st T : istk sl TArr st T ->
  exists ts st0 T0 items ret, st = (len T0 * 4 + ret) :: st0 /\ T = rev items ++ mk_word cLBRACK 0 :: T0 /\
    istk sl ts st0 T0 /\ awaits ts ret /\ shp sl KE (len T0 + 1) items.
Proof. intros H. inversion H; subst. eexists _, _, _, _, _. repeat split; eassumption. Qed.

Lemma istk_obj_inv sl st T : istk sl TObj st T ->
  exists ts st0 T0 items ret, st = (len T0 * 4 + ret) :: st0 /\ T = rev items ++ mk_word cLBRACE 0 :: T0 /\
    istk sl ts st0 T0 /\ awaits ts ret /\ shp sl KM (len T0 + 1) items.
Proof. intros H. inversion H; subst. eexists _, _, _, _, _. repeat split; eassumption. Qed.

Lemma istk_root1_inv sl st T : istk sl TRoot1 st T ->
  exists closed v, st = [len closed * 4 + retStart] /\ T = rev v ++ mk_word TagRoot 0 :: rev closed /\
    rts sl 0 closed /\ shp sl KV (len closed + 1) v.
Proof. intros H. inversion H; subst. eexists _, _. repeat split; eassumption. Qed.

Lemma istk_single sl ts e T : istk sl ts [e] T -> ts = TRoot0 \/ ts = TRoot1.
Proof.
  intros H. inversion H; subst; try (left; reflexivity); try (right; reflexivity);
    match goal with Hs : istk _ _ [] _ |- _ => apply istk_stack in Hs; congruence end.
Qed.

(* closing a container *)
Lemma close_inv m1 p ps k ts c : mid m1 p ps k ts -> 1 <= k ->
  (ts = TArr /\ c = cRBRACK) \/ (ts = TObj /\ c = cRBRACE) -> good (scope_end m1 c) ps.
Proof.
  intros H Hk Hc.
  pose proof (md_pos _ _ _ _ _ H) as Hp. pose proof (md_tl _ _ _ _ _ H) as Htl.
  pose proof (pi_tlen _ _ Hp) as Htlen. pose proof (md_stk _ _ _ _ _ H) as Hs.
  destruct (mid_here _ _ _ _ _ H) as (_ & _ & Hb56 & _).
  destruct Hc as [[-> ->]|[-> ->]].
  - destruct (istk_arr_inv _ _ _ Hs) as (ts & st0 & T0 & items & ret & Est & Etape & Hs0 & Ha & Hi).
    rewrite (scope_end_ok msg Hlen m1 cRBRACK T0 items (mk_word cLBRACK 0) st0 ret (awaits_lt _ _ Ha) Est Etape Htlen).
    assert (L : tlen m1 = len T0 + len items + 1).
    { rewrite Htlen, Etape, app_length, rev_length. cbn [length]. lia. }
    eapply val_inv with (m1 := m1) (T := T0)
      (v := mk_word cLBRACK (len T0 + len items + 2) :: items ++ [mk_word cRBRACK (len T0)]);
      [exact Hp|reflexivity..| | | | |exact Hs0|exact Ha| | |reflexivity].
    + msimpl. cbn [length]. rewrite app_length, rev_length. cbn [length]. lia.
    + msimpl. exact (pi_slen _ _ Hp).
    + msimpl. exact (mid_bud _ _ _ _ _ H).
    + msimpl. lia.
    + msimpl. apply sh_arr; [exact Hi|lia].
    + msimpl. rewrite lor_mk by lia. rewrite rev_container. cbn [app]. rewrite <- app_assoc. cbn [app].
      replace (tlen m1 + 1) with (len T0 + len items + 2) by lia. reflexivity.
  - destruct (istk_obj_inv _ _ _ Hs) as (ts & st0 & T0 & items & ret & Est & Etape & Hs0 & Ha & Hi).
    rewrite (scope_end_ok msg Hlen m1 cRBRACE T0 items (mk_word cLBRACE 0) st0 ret (awaits_lt _ _ Ha) Est Etape Htlen).
    assert (L : tlen m1 = len T0 + len items + 1).
    { rewrite Htlen, Etape, app_length, rev_length. cbn [length]. lia. }
    eapply val_inv with (m1 := m1) (T := T0)
      (v := mk_word cLBRACE (len T0 + len items + 2) :: items ++ [mk_word cRBRACE (len T0)]);
      [exact Hp|reflexivity..| | | | |exact Hs0|exact Ha| | |reflexivity].
    + msimpl. cbn [length]. rewrite app_length, rev_length. cbn [length]. lia.
    + msimpl. exact (pi_slen _ _ Hp).
    + msimpl. exact (mid_bud _ _ _ _ _ H).
    + msimpl. lia.
    + msimpl. apply sh_obj; [exact Hi|lia].
    + msimpl. rewrite lor_mk by lia. rewrite rev_container. cbn [app]. rewrite <- app_assoc. cbn [app].
      replace (tlen m1 + 1) with (len T0 + len items + 2) by lia. reflexivity.
Qed.

(* closing the root pair *)
Lemma div4 a r : r < 4 -> (a * 4 + r) / 4 = a.
Proof. intros H. rewrite N.div_add_l by lia. rewrite N.div_small by exact H. lia. Qed.

Lemma root_annot m closed v :
  tape_rev m = rev v ++ mk_word TagRoot 0 :: rev closed -> tlen m = len (tape_rev m) -> tlen m + 1 < two56 ->
  annotate m (len closed) (tlen m + 1) =
  Ok (set_tape m (rev v ++ mk_word TagRoot (tlen m + 1) :: rev closed)).
Proof.
  intros Et Hl Hb.
  assert (L : tlen m = len v + 1 + len closed).
  { rewrite Hl, Et, app_length, rev_length. cbn [length]. rewrite rev_length. lia. }
  rewrite annotate_ok by lia. f_equal. f_equal.
  rewrite Et. replace (N.to_nat (tlen m - 1 - len closed)) with (length (rev v)) by (rewrite rev_length; lia).
  rewrite upd_nth_app. rewrite lor_mk by exact Hb. reflexivity.
Qed.

Lemma root_close_shape sl closed v :
  rts sl 0 closed -> shp sl KV (len closed + 1) v -> len closed + len v + 2 < two56 ->
  let closed' := closed ++ mk_word TagRoot (len closed + len v + 2) :: v ++ [mk_word TagRoot (len closed)] in
  rts sl 0 closed' /\
  rev closed' = mk_word TagRoot (len closed) :: rev v ++ mk_word TagRoot (len closed + len v + 2) :: rev closed /\
  len closed' = len closed + len v + 2.
Proof.
  intros Hr Hv Hb. cbv zeta. split; [|split].
  - exact (rts_snoc nmsg sl 0 closed v Hr Hv Hb).
  - rewrite rev_app_distr, rev_container. cbn [app]. rewrite <- app_assoc. reflexivity.
  - rewrite app_length. cbn [length]. rewrite app_length. cbn [length]. lia.
Qed.

Lemma cycle_inv m1 p ps : mid m1 p ps 3 TRoot1 ->
  exists m2, cycle_root m1 = Ok m2 /\ mid m2 p ps 1 TRoot0.
Proof.
  intros H.
  pose proof (md_pos _ _ _ _ _ H) as Hp. pose proof (md_tl _ _ _ _ _ H) as Htl.
  pose proof (pi_tlen _ _ Hp) as Htlen. pose proof (md_stk _ _ _ _ _ H) as Hs.
  destruct (mid_here _ _ _ _ _ H) as (_ & _ & Hb56 & _).
  destruct (istk_root1_inv _ _ _ Hs) as (closed & v & Est & Etape & Hr & Hv).
  assert (L : tlen m1 = len closed + len v + 1).
  { rewrite Htlen, Etape, app_length, rev_length. cbn [length]. rewrite rev_length. lia. }
  destruct (root_close_shape _ closed v Hr Hv) as (R1 & R2 & R3); [lia|].
  unfold cycle_root. rewrite Est. rewrite div4 by reflexivity.
  unfold addOneForRoot.
  rewrite (root_annot (set_stack m1 []) closed v); msimpl; [|exact Etape|exact Htlen|lia].
  cbn [obind]. eexists. split; [reflexivity|].
  constructor; msimpl.
  - eapply pinv_same; [exact Hp|reflexivity..| |exact (pi_slen _ _ Hp)].
    msimpl. cbn [length]. rewrite app_length, rev_length. cbn [length]. rewrite rev_length. lia.
  - exact (md_bud _ _ _ _ _ H).
  - lia.
  - exact (md_idx _ _ _ _ _ H).
  - exact (md_cur _ _ _ _ _ H).
  - replace (tlen m1 + 1) with (len closed + len v + 2) by lia.
    set (cl' := closed ++ mk_word TagRoot (len closed + len v + 2) :: v ++ [mk_word TagRoot (len closed)]) in *.
    rewrite <- R2, <- R3. apply is_root0. exact R1.
Qed.

Lemma finish_stack m mf : finish m = Ok mf -> exists e, stack m = [e].
Proof.
  unfold finish. destruct (stack m) as [|e [|e2 st]]; try discriminate. intros _. exists e. reflexivity.
Qed.

Lemma finish_inv m : pinv m [] -> tlen m <= 2 * idx1 m ->
  istk (slen m) TRoot1 (stack m) (tape_rev m) ->
  exists mf, finish m = Ok mf /\ rts (slen m) 0 (rev (tape_rev mf)) /\ strs_rev mf = strs_rev m.
Proof.
  intros Hp Htl Hs.
  pose proof (pi_tlen _ _ Hp) as Htlen. pose proof (pi_idx _ _ Hp) as Hidx.
  assert (Hb56 : tlen m + 1 < two56) by (rewrite two56_val; lia).
  destruct (istk_root1_inv _ _ _ Hs) as (closed & v & Est & Etape & Hr & Hv).
  assert (L : tlen m = len closed + len v + 1).
  { rewrite Htlen, Etape, app_length, rev_length. cbn [length]. rewrite rev_length. lia. }
  destruct (root_close_shape _ closed v Hr Hv) as (R1 & R2 & R3); [lia|].
  unfold finish. rewrite Est. rewrite div4 by reflexivity.
  unfold addOneForRoot.
  rewrite (root_annot (set_stack m []) closed v); msimpl; [|exact Etape|exact Htlen|lia].
  cbn [obind]. eexists. split; [reflexivity|]. msimpl. split; [|reflexivity].
  replace (tlen m + 1) with (len closed + len v + 2) by lia.
  rewrite <- R2, rev_involutive. exact R1.
Qed.

(* ------------------------------------------------------------------ *)
(* one step preserves the invariant                                    *)

Lemma aw_root : awaits TRoot0 retStart. Proof. left. split; reflexivity. Qed.
Lemma aw_arr : awaits TArr retArray. Proof. right; left. split; reflexivity. Qed.
Lemma aw_key : awaits TKey retObject. Proof. right; right. split; reflexivity. Qed.

Lemma continue_root_inv m1 p ps k : mid m1 p ps k TRoot0 -> 1 <= k ->
  good (continue_root m1 (nth_b msg p)) ps.
Proof.
  intros H Hk. unfold continue_root.
  destruct (nth_b msg p =? cLBRACE) eqn:E1.
  { eapply open_inv; [exact H|exact Hk|exact aw_root|left; split; reflexivity]. }
  destruct (nth_b msg p =? cLBRACK) eqn:E2.
  { eapply open_inv; [exact H|exact Hk|exact aw_root|right; split; reflexivity]. }
  exact I.
Qed.

Theorem step_inv l m p ps : inv l m (p :: ps) -> good (step copy l m) ps.
Proof.
  intros Hi. destruct (uc_inv _ _ _ _ Hi) as (m1 & Hu & Hm).
  rewrite (step_uchar copy l m m1 _ Hu).
  destruct l; cbn [need ts_of] in Hm.
  - (* start *)
    apply (continue_root_inv _ _ _ _ Hm). lia.
  - (* startContinue *)
    destruct (nth_b msg p =? cLF); [|exact I].
    eapply act_none; [exact Hm|reflexivity|discriminate|cbn [kk]; lia].
  - (* ndSkip *)
    destruct (nth_b msg p =? cLF).
    { eapply act_none; [exact Hm|reflexivity|discriminate|cbn [kk]; lia]. }
    destruct (cycle_inv _ _ _ Hm) as (m2 & Ec & Hm2). rewrite Ec.
    apply (continue_root_inv _ _ _ _ Hm2). lia.
  - (* objBegin *)
    destruct (nth_b msg p =? cQUOTE) eqn:Eq.
    { apply N.eqb_eq in Eq. exact (key_inv _ _ _ Hm Eq). }
    destruct (nth_b msg p =? cRBRACE) eqn:Eb; [|exact I].
    apply N.eqb_eq in Eb. rewrite Eb.
    eapply close_inv; [exact Hm|lia|right; split; reflexivity].
  - (* objColon *)
    destruct (nth_b msg p =? cCOLON); [|exact I].
    eapply act_none; [exact Hm|reflexivity|discriminate|cbn [kk]; lia].
  - (* objValue *)
    change L_objCont with (cont_of retObject). exact (value_switch_inv _ _ _ _ _ Hm aw_key).
  - (* objCont *)
    destruct (nth_b msg p =? cCOMMA).
    { eapply act_none; [exact Hm|reflexivity|discriminate|cbn [kk]; lia]. }
    destruct (nth_b msg p =? cRBRACE) eqn:Eb; [|exact I].
    apply N.eqb_eq in Eb. rewrite Eb.
    eapply close_inv; [exact Hm|lia|right; split; reflexivity].
  - (* objKey *)
    destruct (nth_b msg p =? cQUOTE) eqn:Eq; [|exact I].
    apply N.eqb_eq in Eq. exact (key_inv _ _ _ Hm Eq).
  - (* arrBegin *)
    destruct (nth_b msg p =? cRBRACK) eqn:Eb.
    { apply N.eqb_eq in Eb. rewrite Eb.
      eapply close_inv; [exact Hm|lia|left; split; reflexivity]. }
    change L_arrCont with (cont_of retArray). exact (value_switch_inv _ _ _ _ _ Hm aw_arr).
  - (* arrValue *)
    change L_arrCont with (cont_of retArray). exact (value_switch_inv _ _ _ _ _ Hm aw_arr).
  - (* arrCont *)
    destruct (nth_b msg p =? cCOMMA).
    { eapply act_none; [exact Hm|reflexivity|discriminate|cbn [kk]; lia]. }
    destruct (nth_b msg p =? cRBRACK) eqn:Eb; [|exact I].
    apply N.eqb_eq in Eb. rewrite Eb.
    eapply close_inv; [exact Hm|lia|left; split; reflexivity].
Qed.

(* ------------------------------------------------------------------ *)
(* the whole run                                                       *)

Lemma ts_of_root0 l : ts_of l = TRoot0 -> l = L_start.
Proof. destruct l; try discriminate. reflexivity. Qed.

Theorem run_inv : forall fuel l m ps mf, inv l m ps -> (l = L_start -> ps <> []) ->
  run_labels fuel copy l m = Ok mf ->
  wf_check false {| pj_tape := final_tape mf; pj_strings := final_strings mf; pj_msg := msg |} = true.
Proof.
  induction fuel as [|fuel IH]; intros l m ps mf Hi Hne Hrun; [discriminate|].
  cbn [run_labels] in Hrun. destruct ps as [|p ps].
  - unfold step in Hrun. rewrite (uc_done m (iv_pos _ _ _ Hi)) in Hrun.
    destruct (finish_stack _ _ Hrun) as (e & Est).
    pose proof (iv_stk _ _ _ Hi) as Hs. rewrite Est in Hs.
    destruct (istk_single _ _ _ _ Hs) as [E0|E1].
    { apply ts_of_root0 in E0. specialize (Hne E0). congruence. }
    rewrite <- Est, E1 in Hs.
    assert (Htl : tlen m <= 2 * idx1 m).
    { pose proof (iv_tl _ _ _ Hi) as Ht. destruct l; cbn [tlb] in Ht; try discriminate; lia. }
    destruct (finish_inv m (iv_pos _ _ _ Hi) Htl Hs) as (mf' & Ef & Hr & Estr).
    rewrite Ef in Hrun. apply Ok_inj in Hrun. subst mf'.
    unfold wf_check, final_tape, final_strings. cbn [pj_tape pj_strings pj_msg].
    apply (rts_sound nmsg _ _ _ Hr); [|lia].
    rewrite rev_length, Estr, (pi_slen _ _ (iv_pos _ _ _ Hi)). lia.
  - pose proof (step_inv _ _ _ _ Hi) as Hg.
    destruct (step copy l m) as [l' m'| | | |]; cbn [good] in Hg; try discriminate; [|destruct Hg].
    destruct Hg as [Hi' Hl']. eapply IH; [exact Hi'|intros E; congruence|exact Hrun].
Qed.

Theorem run2_inv (pbufs : list (list nat)) (mf : m2) :
  Forall (fun b => b <> []) pbufs ->
  incr_from 0 (concat pbufs) ->
  Forall (fun p => (p < length msg)%nat) (concat pbufs) ->
  concat pbufs <> [] ->
  N.of_nat (str_budget msg (concat pbufs)) < STRINGBUFBIT ->
  run2 copy msg (bufs_incs 0 pbufs) = Ok mf ->
  wf_check false {| pj_tape := final_tape mf; pj_strings := final_strings mf; pj_msg := msg |} = true.
Proof.
  intros Hne Hinc Hrng Hnn Hbud Hrun. unfold run2 in Hrun.
  eapply run_inv; [|intros _; exact Hnn|exact Hrun].
  constructor.
  - constructor; msimpl; cbn [m2_init whole sfuel tlen tape_rev slen strs_rev rbufs idx1 cur cbuf].
    + reflexivity.
    + reflexivity.
    + reflexivity.
    + reflexivity.
    + apply bufs_incs_noempty. exact Hne.
    + unfold pending. msimpl. cbn [m2_init cbuf rbufs app idx1]. apply bufs_incs_concat.
    + exact Hinc.
    + exact Hrng.
    + intros E. congruence.
    + lia.
  - msimpl. cbn [m2_init slen]. lia.
  - cbn [tlb]. msimpl. cbn [m2_init tlen]. lia.
  - cbn [ts_of]. msimpl. cbn [m2_init slen tlen stack tape_rev].
    exact (is_root0 0 [] (rt_nil nmsg 0 0)).
Qed.

End Machine.

(* ------------------------------------------------------------------ *)
(* the theorems                                                        *)

(* General form: besides the position facts, a bound on what parseString can
   append to the string buffer over the whole run. *)
Theorem run2_wf_gen : forall (copy : bool) (msg : bytes) (pbufs : list (list nat)) (m : m2),
  N.of_nat (length msg) < 2 ^ 55 ->
  Forall (fun b => b <> []) pbufs ->
  incr_from 0 (concat pbufs) ->
  Forall (fun p => (p < length msg)%nat) (concat pbufs) ->
  concat pbufs <> [] ->
  N.of_nat (str_budget msg (concat pbufs)) < 2 ^ 55 ->
  run2 copy msg (bufs_incs 0 pbufs) = Ok m ->
  wf_check false {| pj_tape := final_tape m; pj_strings := final_strings m; pj_msg := msg |} = true.
Proof.
  intros copy msg pbufs m Hlen Hne Hinc Hrng Hnn Hbud Hrun.
  exact (run2_inv copy msg Hlen pbufs m Hne Hinc Hrng Hnn Hbud Hrun).
Qed.

(* --- discharging the budget, (A): small messages -------------------- *)

Lemma strcost_le msg p : (strcost msg p <= length msg)%nat.
Proof.
  unfold strcost. destruct (nth_b msg p =? cQUOTE); [|lia].
  destruct (str_loop (S (S (length msg))) (skipn (S p) msg) 0 [] None) as [n dec| |] eqn:E; try lia.
  apply str_loop_bounds in E. rewrite skipn_length in E. cbn [length] in E. lia.
Qed.

Lemma str_budget_le msg : forall ps, (str_budget msg ps <= length ps * length msg)%nat.
Proof.
  induction ps as [|p r IH]; [cbn; lia|].
  unfold str_budget, list_sum in *. cbn [map fold_right length]. rewrite Nat.mul_succ_l.
  pose proof (strcost_le msg p). lia.
Qed.

Lemma incr_from_length n : forall ps lo, incr_from lo ps -> Forall (fun p => (p < n)%nat) ps ->
  (length ps <= n - lo)%nat.
Proof.
  induction ps as [|p r IH]; intros lo Hi Hr; [cbn [length]; lia|].
  cbn [incr_from] in Hi. destruct Hi as [H1 H2]. inversion Hr as [|? ? Hp Hr']; subst.
  specialize (IH _ H2 Hr'). cbn [length]. lia.
Qed.

Theorem run2_wf_small : forall (copy : bool) (msg : bytes) (pbufs : list (list nat)) (m : m2),
  N.of_nat (length msg) < 2 ^ 27 ->
  Forall (fun b => b <> []) pbufs ->
  incr_from 0 (concat pbufs) ->
  Forall (fun p => (p < length msg)%nat) (concat pbufs) ->
  (exists h q, concat pbufs = h ++ [q] /\ (nth_b msg q = cRBRACE \/ nth_b msg q = cRBRACK)) ->
  run2 copy msg (bufs_incs 0 pbufs) = Ok m ->
  wf_check false {| pj_tape := final_tape m; pj_strings := final_strings m; pj_msg := msg |} = true.
Proof.
  intros copy msg pbufs m Hlen Hne Hinc Hrng (h & q & Hq & _) Hrun.
  apply (run2_wf_gen copy msg pbufs m); try assumption.
  - assert (2 ^ 27 < 2 ^ 55) by reflexivity. lia.
  - rewrite Hq. destruct h; discriminate.
  - pose proof (str_budget_le msg (concat pbufs)) as H1.
    pose proof (incr_from_length _ _ _ Hinc Hrng) as H2.
    assert (H3 : (str_budget msg (concat pbufs) <= length msg * length msg)%nat).
    { eapply Nat.le_trans; [exact H1|]. apply Nat.mul_le_mono_r. lia. }
    assert (H4 : N.of_nat (length msg * length msg) < 2 ^ 27 * 2 ^ 27).
    { rewrite Nat2N.inj_mul. apply N.mul_lt_mono; exact Hlen. }
    assert (2 ^ 27 * 2 ^ 27 < 2 ^ 55) by reflexivity. lia.
Qed.

(* --- discharging the budget, (B): strings end before the next position --- *)

(* the closing quote the string kernel finds for a string opened at a handed-over
   position lies before the next handed-over position *)
Definition str_disjoint (msg : bytes) (ps : list nat) : Prop :=
  forall a p p' b n dec, ps = a ++ p :: p' :: b -> nth_b msg p = cQUOTE ->
    str_loop (S (S (length msg))) (skipn (S p) msg) 0 [] None = StrOk n dec -> (p + n < p')%nat.

Lemma str_disjoint_tail msg p r : str_disjoint msg (p :: r) -> str_disjoint msg r.
Proof. intros H a q q' b n dec E. apply (H (p :: a) q q' b n dec). rewrite E. reflexivity. Qed.

Lemma strcost_here msg p : (p < length msg)%nat -> (strcost msg p + p < length msg)%nat.
Proof.
  intros Hp. unfold strcost. destruct (nth_b msg p =? cQUOTE); [|lia].
  destruct (str_loop (S (S (length msg))) (skipn (S p) msg) 0 [] None) as [n dec| |] eqn:E; try lia.
  apply str_loop_bounds in E. rewrite skipn_length in E. cbn [length] in E. lia.
Qed.

Lemma strcost_next msg p p' : (p < p')%nat ->
  (forall n dec, nth_b msg p = cQUOTE ->
     str_loop (S (S (length msg))) (skipn (S p) msg) 0 [] None = StrOk n dec -> (p + n < p')%nat) ->
  (strcost msg p + p <= p')%nat.
Proof.
  intros Hp H. unfold strcost. destruct (nth_b msg p =? cQUOTE) eqn:Eq; [|lia].
  apply N.eqb_eq in Eq.
  destruct (str_loop (S (S (length msg))) (skipn (S p) msg) 0 [] None) as [n dec| |] eqn:E; try lia.
  specialize (H n dec Eq eq_refl). apply str_loop_bounds in E. cbn [length] in E. lia.
Qed.

Lemma str_budget_disjoint msg : forall r p lo, incr_from lo (p :: r) ->
  Forall (fun p => (p < length msg)%nat) (p :: r) -> str_disjoint msg (p :: r) ->
  (str_budget msg (p :: r) + p < length msg)%nat.
Proof.
  induction r as [|p' b IH]; intros p lo Hi Hr Hd.
  - inversion Hr as [|? ? Hp _]; subst. unfold str_budget. cbn [map list_sum fold_right].
    pose proof (strcost_here msg p Hp). lia.
  - cbn [incr_from] in Hi. destruct Hi as [H1 [H2 H3]].
    inversion Hr as [|? ? Hp Hr']; subst.
    assert (Hi' : incr_from (S p) (p' :: b)) by (cbn [incr_from]; split; assumption).
    specialize (IH p' (S p) Hi' Hr' (str_disjoint_tail _ _ _ Hd)).
    assert (Hc : (strcost msg p + p <= p')%nat).
    { apply strcost_next; [lia|]. intros n dec Eq El. exact (Hd [] p p' b n dec eq_refl Eq El). }
    unfold str_budget in *. cbn [map list_sum fold_right] in *. lia.
Qed.

(* property C17 at the machine level *)
Theorem run2_wf : forall (copy : bool) (msg : bytes) (pbufs : list (list nat)) (m : m2),
  N.of_nat (length msg) < 2 ^ 55 ->
  Forall (fun b => b <> []) pbufs ->
  incr_from 0 (concat pbufs) ->
  Forall (fun p => (p < length msg)%nat) (concat pbufs) ->
  (exists h q, concat pbufs = h ++ [q] /\ (nth_b msg q = cRBRACE \/ nth_b msg q = cRBRACK)) ->
  str_disjoint msg (concat pbufs) ->
  run2 copy msg (bufs_incs 0 pbufs) = Ok m ->
  wf_check false {| pj_tape := final_tape m; pj_strings := final_strings m; pj_msg := msg |} = true.
Proof.
  intros copy msg pbufs m Hlen Hne Hinc Hrng (h & q & Hq & _) Hd Hrun.
  apply (run2_wf_gen copy msg pbufs m); try assumption.
  - rewrite Hq. destruct h; discriminate.
  - destruct (concat pbufs) as [|p r] eqn:E; [reflexivity|].
    pose proof (str_budget_disjoint msg r p 0 Hinc Hrng Hd). lia.
Qed.

(* ------------------------------------------------------------------ *)
(* examples                                                            *)

From SJ Require Import Model.Driver Model.Oracle.
Import String.StringSyntax.
Open Scope string_scope.

Definition wf_of_parse (nd copy : bool) (bs : bytes) : option bool :=
  match parse_message nd copy bs with
  | Ok p => Some (wf_check false {| pj_tape := p_tape p; pj_strings := p_strings p; pj_msg := p_msg p |})
  | _ => None
  end.

Definition ex_wf_doc : bytes :=
  lit " {""a"": [1, -2.5e3, 18446744073709551615, true, false, null, ""x\ny""], ""b"": {}, ""c"":[[],{""d"":""plain""}]} ".

Definition ex_wf_nd : bytes :=
  lit "{""k"":""esc\té"",""n"":[1,2.0,{}]}
[""second"", {""x"": null}]


{""third"":[]}".

Example ex_wf_parse_nocopy : wf_of_parse false false ex_wf_doc = Some true.
Proof. vm_compute. reflexivity. Qed.
Example ex_wf_parse_copy : wf_of_parse false true ex_wf_doc = Some true.
Proof. vm_compute. reflexivity. Qed.
Example ex_wf_parsend_nocopy : wf_of_parse true false ex_wf_nd = Some true.
Proof. vm_compute. reflexivity. Qed.
Example ex_wf_parsend_copy : wf_of_parse true true ex_wf_nd = Some true.
Proof. vm_compute. reflexivity. Qed.

(* Without any structural position the machine "succeeds" with the tape
   [root; root], which is not well formed: the non-emptiness of the positions
   (implied by the last-position hypothesis) is necessary. *)
Example ex_no_structurals :
  match run2 false (lit "   ") (bufs_incs 0 []) with
  | Ok m => Some (final_tape m, wf_check false {| pj_tape := final_tape m; pj_strings := final_strings m; pj_msg := lit "   " |})
  | _ => None
  end = Some ([mk_word TagRoot 2; mk_word TagRoot 0], false).
Proof. vm_compute. reflexivity. Qed.

(* With arbitrary (increasing, in-range) positions the string buffer is NOT
   bounded by the message length: positions on escaped quotes make parseString
   copy the rest of the message again and again.  The message is an opening
   bracket, a quote, k times (backslash quote comma), a quote and a closing
   bracket; the positions are 0, 1, then (4+3j, 6+3j) for j < k-1, and the last
   byte.  This is why
   run2_wf_gen carries the budget hypothesis: with length msg < 2^55 alone the
   payload STRINGBUFBIT + slen could overflow into the tag byte. *)
Fixpoint rep_bytes (n : nat) (s : bytes) : bytes := match n with O => [] | S k => s ++ rep_bytes k s end.
Definition adv_msg (k : nat) : bytes := lit "[""" ++ rep_bytes k (lit "\"",") ++ lit """]".
Fixpoint adv_mids (j k : nat) : list nat :=
  match k with O => [] | S k' => (4 + 3 * j)%nat :: (6 + 3 * j)%nat :: adv_mids (S j) k' end.
Definition adv_pos (k : nat) : list nat := [0; 1]%nat ++ adv_mids 0 (k - 1) ++ [(length (adv_msg k) - 1)%nat].

Definition incr_fromb (lo : nat) (ps : list nat) : bool :=
  snd (fold_left (fun '(lo, ok) p => (S p, ok && (lo <=? p)%nat)) ps (lo, true)).

(* (hypotheses hold, length msg, final len(Strings.B), budget, wf_check) *)
Definition adv_res (k : nat) :=
  let msg := adv_msg k in let ps := adv_pos k in
  match run2 false msg (bufs_incs 0 [ps]) with
  | Ok m => Some (incr_fromb 0 ps && forallb (fun p => (p <? length msg)%nat) ps
                    && (nth_b msg (last ps 0%nat) =? cRBRACK),
                  length msg, slen m, str_budget msg ps,
                  wf_check false {| pj_tape := final_tape m; pj_strings := final_strings m; pj_msg := msg |})
  | _ => None
  end.

Example ex_quadratic_10 : adv_res 10 = Some (true, 34%nat, 100%N, 101%nat, true).
Proof. vm_compute. reflexivity. Qed.
Example ex_quadratic_40 : adv_res 40 = Some (true, 124%nat, 1600%N, 1601%nat, true).
Proof. vm_compute. reflexivity. Qed.

Print Assumptions run2_wf_gen.
Print Assumptions run2_wf_small.
Print Assumptions run2_wf.
