(* NdRejectSpec.v — specification-side facts about [nd_spec]:
   the result depends only on the list of non-blank lines, each taken without
   its leading and trailing white space.  Hence leading and trailing white
   space of the whole input (blank lines, a missing or repeated final
   newline), white space around each line (CRLF line ends) and blank lines
   anywhere do not change the result. *)
From Coq Require Import ZifyBool ZifyN ZifyNat.
From SJ Require Import Model.Base Model.RefTables Spec.Json.
From SJ Require Import Proofs.TrimProofs Proofs.NdSpec.
Open Scope N_scope.

(* ------------------------------------------------------------------ *)
(* a line without its surrounding white space                          *)

Definition norm (l : bytes) : bytes := rtrim_ws (skip_ws l).

Lemma rtrim_ws_idem u : rtrim_ws (rtrim_ws u) = rtrim_ws u.
Proof. unfold rtrim_ws. rewrite rev_involutive, skip_ws_idem. reflexivity. Qed.

Lemma rtrim_ws_allws_app x w : allws w -> rtrim_ws (x ++ w) = rtrim_ws x.
Proof.
  intros Hw. unfold rtrim_ws. rewrite rev_app_distr, skip_ws_allws_app by (apply Forall_rev; exact Hw). reflexivity.
Qed.

Lemma rtrim_ws_nil_allws u : rtrim_ws u = [] -> allws u.
Proof. intros H. destruct (rtrim_ws_split u) as (w & Hu & Hw). rewrite H in Hu. subst u. exact Hw. Qed.

Lemma skip_ws_allws w : allws w -> skip_ws w = [].
Proof. intros H. rewrite <- (app_nil_r w). rewrite skip_ws_allws_app by exact H. reflexivity. Qed.

Lemma rtrim_ws_head b r : is_json_ws (b2n b) = false -> exists t', rtrim_ws (b :: r) = b :: t'.
Proof.
  intros Hb. destruct (rtrim_ws_split (b :: r)) as (w & Hu & Hw).
  destruct (rtrim_ws (b :: r)) as [|t0 t'].
  - cbn [app] in Hu. subst w. inversion Hw; congruence.
  - cbn [app] in Hu. injection Hu as <- _. exists t'. reflexivity.
Qed.

Lemma skip_ws_snoc : forall y c, is_json_ws (b2n c) = false -> exists z, skip_ws (y ++ [c]) = z ++ [c].
Proof.
  induction y as [|a y IH]; intros c Hc.
  - exists []. cbn [app skip_ws]. rewrite Hc. reflexivity.
  - cbn [app skip_ws]. destruct (is_json_ws (b2n a)); [apply IH; exact Hc|].
    exists (a :: y). reflexivity.
Qed.

Lemma rtrim_ws_snoc z c : is_json_ws (b2n c) = false -> rtrim_ws (z ++ [c]) = z ++ [c].
Proof.
  intros Hc. unfold rtrim_ws. rewrite rev_app_distr. cbn [rev app].
  rewrite skip_ws_nonws by exact Hc. cbn [rev]. rewrite rev_involutive. reflexivity.
Qed.

Lemma skip_ws_norm l : skip_ws (norm l) = norm l.
Proof.
  unfold norm. destruct (skip_ws l) as [|b r] eqn:E; [reflexivity|].
  pose proof (skip_ws_head _ _ _ E) as Hb.
  destruct (rtrim_ws_head b r Hb) as (t' & ->). apply skip_ws_nonws. exact Hb.
Qed.

Lemma norm_idem l : norm (norm l) = norm l.
Proof. unfold norm at 1. rewrite skip_ws_norm. unfold norm. apply rtrim_ws_idem. Qed.

Lemma blank_norm_nil l : is_blank_line l = true <-> norm l = [].
Proof.
  unfold is_blank_line, norm. destruct (skip_ws l) as [|b r] eqn:E.
  - split; reflexivity.
  - split; [discriminate|]. intros H. exfalso.
    destruct (rtrim_ws_head b r (skip_ws_head _ _ _ E)) as (t' & Ht). rewrite Ht in H. discriminate.
Qed.

Lemma blank_norm l : is_blank_line (norm l) = is_blank_line l.
Proof.
  destruct (is_blank_line l) eqn:E.
  - apply blank_norm_nil. rewrite norm_idem. apply blank_norm_nil. exact E.
  - destruct (is_blank_line (norm l)) eqn:E2; [|reflexivity].
    apply blank_norm_nil in E2. rewrite norm_idem in E2. apply blank_norm_nil in E2. congruence.
Qed.

Lemma spec_parse_norm l : spec_parse (norm l) = spec_parse l.
Proof. unfold spec_parse. cbv zeta. fold (norm (norm l)). fold (norm l). rewrite norm_idem. reflexivity. Qed.

Lemma norm_pad a l b : allws a -> allws b -> norm (a ++ l ++ b) = norm l.
Proof.
  intros Ha Hb. unfold norm. rewrite skip_ws_allws_app by exact Ha.
  destruct (skip_ws l) as [|c r] eqn:E.
  - assert (Hl : allws l).
    { destruct (skip_ws_split l) as (w & Hw & Hall). rewrite E, app_nil_r in Hw. subst w. exact Hall. }
    rewrite skip_ws_allws by (apply Forall_app; split; assumption). reflexivity.
  - rewrite (skip_ws_app _ _ _ b E). change (c :: r ++ b) with ((c :: r) ++ b).
    apply rtrim_ws_allws_app. exact Hb.
Qed.

Lemma blank_pad a l b : allws a -> allws b -> is_blank_line (a ++ l ++ b) = is_blank_line l.
Proof.
  intros Ha Hb. rewrite <- (blank_norm (a ++ l ++ b)), <- (blank_norm l), norm_pad by assumption. reflexivity.
Qed.

Lemma spec_parse_pad a l b : allws a -> allws b -> spec_parse (a ++ l ++ b) = spec_parse l.
Proof.
  intros Ha Hb. rewrite <- (spec_parse_norm (a ++ l ++ b)), <- (spec_parse_norm l), norm_pad by assumption. reflexivity.
Qed.

Lemma blank_allws_iff l : is_blank_line l = true <-> allws l.
Proof.
  split; [apply blank_allws|]. intros H. unfold is_blank_line. rewrite skip_ws_allws by exact H. reflexivity.
Qed.

(* ------------------------------------------------------------------ *)
(* nd_spec as a function of the lines                                  *)

Definition outb (l : bytes) : bool :=
  match (if is_blank_line l then SInvalid else spec_parse l) with SOut => true | _ => false end.

Definition nd_of (ls : list bytes) : sres (list doc) :=
  if existsb outb ls then SOut
  else match nd_lines ls [] with
       | SOk [] => SInvalid
       | r => r
       end.

Lemma nd_spec_of bs : nd_spec bs = nd_of (split_lf bs).
Proof. reflexivity. Qed.

Definition nonblank (l : bytes) : bool := negb (is_blank_line l).
Definition nlz (ls : list bytes) : list bytes := map norm (filter nonblank ls).

Lemma nd_lines_nlz : forall ls acc, nd_lines ls acc = nd_lines (nlz ls) acc.
Proof.
  induction ls as [|l r IH]; intros acc; [reflexivity|].
  unfold nlz. cbn [filter nd_lines]. unfold nonblank at 1.
  destruct (is_blank_line l) eqn:E; cbn [negb].
  - apply IH.
  - cbn [map nd_lines]. rewrite blank_norm, E, spec_parse_norm.
    destruct (spec_parse l); try reflexivity. apply IH.
Qed.

Lemma existsb_nlz : forall ls, existsb outb ls = existsb outb (nlz ls).
Proof.
  induction ls as [|l r IH]; [reflexivity|].
  unfold nlz. cbn [filter existsb]. unfold nonblank at 1.
  destruct (is_blank_line l) eqn:E; cbn [negb].
  - unfold outb at 1. rewrite E. cbn [orb]. apply IH.
  - cbn [map existsb]. unfold outb at 1 3. rewrite blank_norm, E, spec_parse_norm. f_equal. apply IH.
Qed.

Lemma nd_of_nlz ls : nd_of ls = nd_of (nlz ls).
Proof. unfold nd_of. rewrite <- existsb_nlz, <- nd_lines_nlz. reflexivity. Qed.

Lemma nd_of_same ls ls' : nlz ls = nlz ls' -> nd_of ls = nd_of ls'.
Proof. intros H. rewrite (nd_of_nlz ls), (nd_of_nlz ls'), H. reflexivity. Qed.

(* ------------------------------------------------------------------ *)
(* the lines of a concatenation                                        *)

Lemma split_lf_aux_hd : forall s cur,
  split_lf_aux s cur = (rev cur ++ hd [] (split_lf s)) :: tl (split_lf s).
Proof.
  induction s as [|b r IH]; intros cur.
  - cbn. rewrite app_nil_r. reflexivity.
  - unfold split_lf. cbn [split_lf_aux]. destruct (b2n b =? cLF).
    + cbn [rev hd tl app]. rewrite app_nil_r. reflexivity.
    + rewrite (IH (b :: cur)), (IH [b]). cbn [rev hd tl app]. rewrite <- app_assoc. reflexivity.
Qed.

Lemma split_lf_ne s : split_lf s <> [].
Proof. unfold split_lf. rewrite split_lf_aux_hd. discriminate. Qed.

Lemma split_lf_cons b r :
  split_lf (b :: r) = if b2n b =? cLF then [] :: split_lf r else (b :: hd [] (split_lf r)) :: tl (split_lf r).
Proof.
  unfold split_lf at 1. cbn [split_lf_aux]. destruct (b2n b =? cLF); [reflexivity|].
  rewrite split_lf_aux_hd. reflexivity.
Qed.

(* joining two lists of lines: the last line of the first continues with the
   first line of the second *)
Fixpoint glue (ls X : list bytes) : list bytes :=
  match ls with
  | [] => X
  | l :: rest => match rest with
                 | [] => (l ++ hd [] X) :: tl X
                 | _ :: _ => l :: glue rest X
                 end
  end.

Lemma glue_cons l rest X : rest <> [] -> glue (l :: rest) X = l :: glue rest X.
Proof. destruct rest; [congruence|reflexivity]. Qed.

Lemma split_lf_app : forall s w, split_lf (s ++ w) = glue (split_lf s) (split_lf w).
Proof.
  induction s as [|b r IH]; intros w.
  - cbn [app]. change (split_lf []) with [@nil byte]. cbn [glue app].
    destruct (split_lf w) eqn:E; [exfalso; exact (split_lf_ne w E)|reflexivity].
  - cbn [app]. rewrite !split_lf_cons. destruct (b2n b =? cLF).
    + rewrite glue_cons by apply split_lf_ne. rewrite IH. reflexivity.
    + rewrite IH. destruct (split_lf r) as [|h tl0] eqn:E; [exfalso; exact (split_lf_ne r E)|].
      cbn [hd tl]. destruct tl0 as [|h2 tl2]; reflexivity.
Qed.

Lemma allws_lines : forall w, allws w -> Forall allws (split_lf w).
Proof.
  induction w as [|b r IH]; intros H.
  - repeat constructor.
  - inversion H as [|? ? Hb Hr]; subst. rewrite split_lf_cons. specialize (IH Hr).
    destruct (b2n b =? cLF).
    + constructor; [constructor|exact IH].
    + destruct (split_lf r) as [|h tl0]; cbn [hd tl].
      * repeat constructor. exact Hb.
      * inversion IH; subst. constructor; [constructor; assumption|assumption].
Qed.

Lemma nlz_blanks B : Forall allws B -> nlz B = [].
Proof.
  induction 1 as [|x B Hx HB IH]; [reflexivity|].
  unfold nlz. cbn [filter]. unfold nonblank at 1. rewrite (proj2 (blank_allws_iff x) Hx). exact IH.
Qed.

Lemma nlz_cons_pad a l b rest : allws a -> allws b -> nlz ((a ++ l ++ b) :: rest) = nlz (l :: rest).
Proof.
  intros Ha Hb. unfold nlz. cbn [filter]. unfold nonblank. rewrite blank_pad by assumption.
  destruct (is_blank_line l); cbn [negb map]; [reflexivity|]. rewrite norm_pad by assumption. reflexivity.
Qed.

Lemma nlz_cons l rest rest' : nlz rest = nlz rest' -> nlz (l :: rest) = nlz (l :: rest').
Proof.
  intros H. unfold nlz in *. cbn [filter]. destruct (nonblank l); cbn [map]; [f_equal|]; exact H.
Qed.

Lemma nlz_glue_r X : Forall allws X -> X <> [] -> forall ls, ls <> [] -> nlz (glue ls X) = nlz ls.
Proof.
  intros HX HXne. induction ls as [|l rest IH]; intros Hne; [congruence|].
  destruct rest as [|l2 rest2].
  - cbn [glue]. destruct X as [|x B]; [congruence|]. cbn [hd tl]. inversion HX; subst.
    rewrite <- (app_nil_l (l ++ x)). rewrite nlz_cons_pad by (try assumption; constructor).
    apply nlz_cons. rewrite nlz_blanks by assumption. reflexivity.
  - rewrite glue_cons by discriminate. apply nlz_cons. apply IH. discriminate.
Qed.

Lemma nlz_glue_l L : L <> [] -> forall W, Forall allws W -> W <> [] -> nlz (glue W L) = nlz L.
Proof.
  intros HL. induction W as [|x rest IH]; intros HW Hne; [congruence|].
  inversion HW as [|? ? Hx Hrest]; subst.
  destruct rest as [|x2 rest2].
  - cbn [glue]. destruct L as [|h tl0]; [congruence|]. cbn [hd tl].
    rewrite <- (app_nil_r h) at 1. rewrite nlz_cons_pad by (try assumption; constructor). reflexivity.
  - rewrite glue_cons by discriminate.
    unfold nlz at 1. cbn [filter]. unfold nonblank at 1. rewrite (proj2 (blank_allws_iff x) Hx). cbn [negb].
    apply IH; [exact Hrest|discriminate].
Qed.

(* ------------------------------------------------------------------ *)
(* white space around the input                                        *)

Theorem nd_spec_ws_r bs w : allws w -> nd_spec (bs ++ w) = nd_spec bs.
Proof.
  intros Hw. rewrite !nd_spec_of, split_lf_app. apply nd_of_same.
  apply nlz_glue_r; [apply allws_lines; exact Hw|apply split_lf_ne|apply split_lf_ne].
Qed.

Theorem nd_spec_ws_l bs w : allws w -> nd_spec (w ++ bs) = nd_spec bs.
Proof.
  intros Hw. rewrite !nd_spec_of, split_lf_app. apply nd_of_same.
  apply nlz_glue_l; [apply split_lf_ne|apply allws_lines; exact Hw|apply split_lf_ne].
Qed.

Theorem nd_spec_trim bs : nd_spec (rtrim_ws (skip_ws bs)) = nd_spec bs.
Proof.
  destruct (skip_ws_split bs) as (w & Hb & Hw).
  destruct (rtrim_ws_split (skip_ws bs)) as (w2 & Hu & Hw2).
  rewrite Hb at 2. rewrite nd_spec_ws_l by exact Hw. rewrite Hu at 2. rewrite nd_spec_ws_r by exact Hw2. reflexivity.
Qed.

(* a missing final newline does not matter *)
Corollary nd_spec_final_newline bs : nd_spec (bs ++ [bLF]) = nd_spec bs.
Proof. apply nd_spec_ws_r. repeat constructor. Qed.

(* ------------------------------------------------------------------ *)
(* lines put together with LF                                          *)

Lemma split_lf_nolf l : nolf l -> split_lf l = [l].
Proof.
  induction 1 as [|b r Hb Hr IH]; [reflexivity|].
  rewrite split_lf_cons, IH. replace (b2n b =? cLF) with false by (symmetry; apply N.eqb_neq; exact Hb). reflexivity.
Qed.

Lemma split_lf_line l s : nolf l -> split_lf (l ++ bLF :: s) = l :: split_lf s.
Proof.
  intros Hl. rewrite split_lf_app, (split_lf_nolf l Hl). cbn [glue].
  rewrite split_lf_cons. change (b2n bLF =? cLF) with true. cbn [hd tl]. rewrite app_nil_r. reflexivity.
Qed.

Theorem split_lf_join : forall ls, Forall nolf ls -> ls <> [] -> split_lf (join_lf ls) = ls.
Proof.
  induction ls as [|l rest IH]; intros Hnl Hne; [congruence|].
  inversion Hnl as [|? ? Hl Hrest]; subst.
  destruct rest as [|l2 rest2].
  - cbn [join_lf]. apply split_lf_nolf. exact Hl.
  - rewrite join_lf_cons by discriminate. rewrite split_lf_line by exact Hl. f_equal. apply IH; [exact Hrest|discriminate].
Qed.

Theorem nd_spec_join ls : Forall nolf ls -> ls <> [] -> nd_spec (join_lf ls) = nd_of ls.
Proof. intros H1 H2. rewrite nd_spec_of, split_lf_join by assumption. reflexivity. Qed.

(* white space around each line: CRLF line ends, indentation *)
Definition padded (l l' : bytes) : Prop :=
  exists a b, l' = a ++ l ++ b /\ allws a /\ allws b.

Lemma nlz_padded : forall ls ls', Forall2 padded ls ls' -> nlz ls' = nlz ls.
Proof.
  induction 1 as [|l l' ls ls' (a & b & -> & Ha & Hb) H IH]; [reflexivity|].
  rewrite nlz_cons_pad by assumption. apply nlz_cons. exact IH.
Qed.

Theorem nd_spec_padded_lines ls ls' :
  Forall nolf ls -> Forall nolf ls' -> ls <> [] -> Forall2 padded ls ls' ->
  nd_spec (join_lf ls') = nd_spec (join_lf ls).
Proof.
  intros H1 H2 Hne HP.
  assert (Hne' : ls' <> []) by (destruct HP; [congruence|discriminate]).
  rewrite !nd_spec_join by assumption. apply nd_of_same. apply nlz_padded. exact HP.
Qed.

Definition bCR : byte := x0d.

(* every line end written CR LF instead of LF (and a CR before the end of the input) *)
Corollary nd_spec_crlf ls : Forall nolf ls -> ls <> [] ->
  nd_spec (join_lf (map (fun l => l ++ [bCR]) ls)) = nd_spec (join_lf ls).
Proof.
  intros Hnl Hne. apply nd_spec_padded_lines; try assumption.
  - apply Forall_map. eapply Forall_impl; [|exact Hnl]. intros l Hl. apply Forall_app. split; [exact Hl|].
    repeat constructor. discriminate.
  - clear Hne Hnl. induction ls as [|l r IH]; [constructor|]. cbn [map]. constructor; [|exact IH].
    exists [], [bCR]. split; [reflexivity|]. split; repeat constructor.
Qed.

(* a blank line anywhere *)
Theorem nd_spec_blank_line ls1 ls2 w :
  allws w -> nolf w -> Forall nolf (ls1 ++ ls2) -> ls1 ++ ls2 <> [] ->
  nd_spec (join_lf (ls1 ++ w :: ls2)) = nd_spec (join_lf (ls1 ++ ls2)).
Proof.
  intros Hw Hnw Hnl Hne.
  assert (Hnl' : Forall nolf (ls1 ++ w :: ls2)).
  { apply Forall_app in Hnl. destruct Hnl as [A B]. apply Forall_app. split; [exact A|constructor; assumption]. }
  rewrite !nd_spec_join; try assumption; [|destruct ls1; discriminate].
  apply nd_of_same. unfold nlz. rewrite !filter_app. cbn [filter]. unfold nonblank at 2.
  rewrite (proj2 (blank_allws_iff w) Hw). reflexivity.
Qed.
