(* Proofs/RingProofs.v -- safety, ordering, deadlock freedom, termination of
   the ring / channel hand-off model of Model/Ring.v, for every schedule, and
   the converse (the bound CAP + 2 <= S is tight).

   The ring size is called [S]; the successor of [nat] is [Datatypes.S]. *)

From Coq Require Import List Arith Lia PeanoNat Bool.
From SJ Require Import Model.Ring.
Import ListNotations.

Ltac prj :=
  cbn [produced filling term_sent queue held waiting finished failed ring
       consumed n_total].
Ltac prj_in H :=
  cbn [produced filling term_sent queue held waiting finished failed ring
       consumed n_total] in H.

(* ------------------------------------------------------------------ *)
(* Small list / arithmetic lemmas                                      *)
(* ------------------------------------------------------------------ *)

Lemma qids_app (a b : list (option nat)) : qids (a ++ b) = qids a ++ qids b.
Proof.
  induction a as [|x a IH]; [reflexivity|].
  destruct x as [k|]; cbn [qids app]; rewrite IH; reflexivity.
Qed.

Lemma qids_length (q : list (option nat)) : length (qids q) <= length q.
Proof.
  induction q as [|x q IH]; [apply le_n|].
  destruct x as [k|]; cbn [qids length]; lia.
Qed.

Lemma mod_neq (S i q : nat) : 0 < S -> i < q -> q < i + S -> i mod S <> q mod S.
Proof.
  intros HS H1 H2 E.
  pose proof (Nat.div_mod i S ltac:(lia)) as Hi.
  pose proof (Nat.div_mod q S ltac:(lia)) as Hq.
  rewrite E in Hi.
  destruct (Nat.le_gt_cases (q / S) (i / S)) as [Hle|Hgt]; nia.
Qed.

Lemma live_length_le (s : st) : length (live s) <= length (queue s) + 2.
Proof.
  unfold live. rewrite !app_length.
  pose proof (qids_length (queue s)) as Hq.
  destruct (held s), (filling s); cbn [opt_list length]; lia.
Qed.

Lemma safe_b_iff (S : nat) (s : st) : safe_b S s = true <-> Safe S s.
Proof.
  unfold safe_b, Safe. rewrite forallb_forall.
  split; intros H i Hi.
  - apply Nat.eqb_eq. apply H. exact Hi.
  - apply Nat.eqb_eq. apply H. exact Hi.
Qed.

(* ------------------------------------------------------------------ *)
(* Characterisation of [step], event by event                          *)
(* ------------------------------------------------------------------ *)

Lemma step_acquire S CAP s s' :
  step S CAP s Acquire = Some s' ->
  filling s = None /\ term_sent s = false /\ produced s < n_total s /\
  s' = st_acquire S s.
Proof.
  unfold step. intros H.
  destruct (filling s) as [k|]; [discriminate H|].
  destruct (term_sent s); [discriminate H|].
  destruct (Nat.ltb_spec (produced s) (n_total s)) as [Hlt|Hge]; [|discriminate H].
  injection H as H. subst s'. repeat split. exact Hlt.
Qed.

Lemma step_send S CAP s s' :
  step S CAP s Send = Some s' ->
  exists k, filling s = Some k /\ length (queue s) < CAP /\ s' = st_send k s.
Proof.
  unfold step. intros H.
  destruct (filling s) as [k|]; [|discriminate H].
  destruct (Nat.ltb_spec (length (queue s)) CAP) as [Hlt|Hge]; [|discriminate H].
  injection H as H. subst s'. exists k. repeat split. exact Hlt.
Qed.

Lemma step_sendterm S CAP s s' :
  step S CAP s SendTerm = Some s' ->
  filling s = None /\ term_sent s = false /\ produced s = n_total s /\
  length (queue s) < CAP /\ s' = st_sendterm s.
Proof.
  unfold step. intros H.
  destruct (filling s) as [k|]; [discriminate H|].
  destruct (term_sent s); [discriminate H|].
  destruct (Nat.eqb_spec (produced s) (n_total s)) as [Heq|Hne]; [|discriminate H].
  destruct (Nat.ltb_spec (length (queue s)) CAP) as [Hlt|Hge]; [|discriminate H].
  injection H as H. subst s'. repeat split; assumption.
Qed.

Lemma step_recvwait S CAP s s' :
  step S CAP s RecvWait = Some s' ->
  waiting s = false /\ finished s = false /\ s' = st_recvwait s.
Proof.
  unfold step. intros H.
  destruct (waiting s); [discriminate H|].
  destruct (finished s); [discriminate H|].
  injection H as H. subst s'. repeat split.
Qed.

Lemma step_recv S CAP s s' :
  step S CAP s Recv = Some s' ->
  waiting s = true /\
  ((exists k r, queue s = Some k :: r /\ s' = st_recv_buf k r s) \/
   (exists r, queue s = None :: r /\ s' = st_recv_term r s)).
Proof.
  unfold step. intros H.
  destruct (waiting s); [|discriminate H].
  split; [reflexivity|].
  destruct (queue s) as [|[k|] r]; [discriminate H| |].
  - injection H as H. subst s'. left. exists k, r. split; reflexivity.
  - injection H as H. subst s'. right. exists r. split; reflexivity.
Qed.

Lemma step_fail2 S CAP s s' :
  step S CAP s Fail2 = Some s' ->
  finished s = false /\ failed s = false /\ s' = st_fail s.
Proof.
  unfold step. intros H.
  destruct (finished s); [discriminate H|].
  destruct (failed s); [discriminate H|].
  injection H as H. subst s'. repeat split.
Qed.

(* lifting a step-invariant to runs *)
Lemma run_invariant (S CAP : nat) (P : st -> Prop) :
  (forall s e s', P s -> step S CAP s e = Some s' -> P s') ->
  forall evs s s', P s -> run S CAP s evs = Some s' -> P s'.
Proof.
  intros Hstep evs.
  induction evs as [|e evs IH]; intros s s' HP Hrun.
  - cbn [run] in Hrun. injection Hrun as Hrun. subst s'. exact HP.
  - cbn [run] in Hrun.
    destruct (step S CAP s e) as [s1|] eqn:Hs; [|discriminate Hrun].
    apply (IH s1 s'); [|exact Hrun].
    apply (Hstep s e s1 HP Hs).
Qed.

Lemma run_app (S CAP : nat) (a b : list ev) (s : st) :
  run S CAP s (a ++ b) =
  match run S CAP s a with Some s1 => run S CAP s1 b | None => None end.
Proof.
  revert s. induction a as [|e a IH]; intros s; [reflexivity|].
  cbn [run app]. destruct (step S CAP s e) as [s1|]; [apply IH|reflexivity].
Qed.

(* ------------------------------------------------------------------ *)
(* The bookkeeping invariant (independent of the ring size)            *)
(* ------------------------------------------------------------------ *)

Record Inv (CAP n : nat) (s : st) : Prop := mkInv {
  (* live ids are consecutive and end at [produced]; [lo] is the number of
     buffers the consumer has already released *)
  inv_live : exists lo,
      live s = seq lo (produced s - lo) /\ lo <= produced s /\
      length (consumed s) <= lo + length (opt_list (held s)) /\
      (failed s = false -> length (consumed s) = lo + length (opt_list (held s)));
  inv_cap : length (queue s) <= CAP;
  inv_le : produced s <= n_total s;
  (* the terminator, once sent and not yet received, is the last message *)
  inv_shape : queue s = map Some (qids (queue s)) ++
                        (if term_sent s && negb (finished s) then [None] else []);
  inv_term : term_sent s = true -> filling s = None /\ produced s = n_total s;
  inv_fin : finished s = true ->
            term_sent s = true /\ queue s = [] /\ waiting s = false /\ held s = None;
  inv_wait : waiting s = true -> held s = None /\ finished s = false;
  inv_cons : consumed s = seq 0 (length (consumed s));
  inv_n : n_total s = n
}.

Lemma inv_init (CAP n : nat) : Inv CAP n (init n).
Proof.
  constructor; unfold init, live; prj; cbn [opt_list qids app length map andb].
  - exists 0. cbn. repeat split; lia.
  - lia.
  - lia.
  - reflexivity.
  - intros H; discriminate H.
  - intros H; discriminate H.
  - intros H; discriminate H.
  - reflexivity.
  - reflexivity.
Qed.

Lemma inv_step (S CAP n : nat) (s : st) (e : ev) (s' : st) :
  Inv CAP n s -> step S CAP s e = Some s' -> Inv CAP n s'.
Proof.
  intros HI Hs.
  destruct HI as [Hlive Hcap Hle Hshape Hterm Hfin Hwait Hcons Hn].
  destruct Hlive as (lo & Hl & Hlo & Hcl & Hce).
  unfold live in Hl.
  destruct e.
  - (* Acquire *)
    destruct (step_acquire _ _ _ _ Hs) as (Hf & Ht & Hlt & Hs').
    subst s'. clear Hs.
    rewrite Hf in Hl. cbn [opt_list] in Hl. rewrite app_nil_r in Hl.
    constructor; unfold st_acquire, live; prj.
    + exists lo. cbn [opt_list].
      split; [|split; [lia|split; [exact Hcl|exact Hce]]].
      rewrite app_assoc, Hl.
      replace (Datatypes.S (produced s) - lo) with (Datatypes.S (produced s - lo)) by lia.
      rewrite seq_S. f_equal. f_equal. lia.
    + exact Hcap.
    + lia.
    + exact Hshape.
    + intros Ht'. rewrite Ht in Ht'. discriminate Ht'.
    + exact Hfin.
    + exact Hwait.
    + exact Hcons.
    + exact Hn.
  - (* Send *)
    destruct (step_send _ _ _ _ Hs) as (k & Hf & Hlt & Hs').
    subst s'. clear Hs.
    assert (Ht : term_sent s = false).
    { destruct (term_sent s) eqn:Ht; [|reflexivity].
      destruct (Hterm eq_refl) as (Hf' & _). rewrite Hf in Hf'. discriminate Hf'. }
    rewrite Hf in Hl. cbn [opt_list] in Hl.
    rewrite Ht in Hshape. cbn [andb] in Hshape. rewrite app_nil_r in Hshape.
    constructor; unfold st_send, live; prj.
    + exists lo. cbn [opt_list]. rewrite qids_app. cbn [qids]. rewrite app_nil_r.
      split; [exact Hl|split; [exact Hlo|split; [exact Hcl|exact Hce]]].
    + rewrite app_length. cbn [length]. lia.
    + exact Hle.
    + rewrite Ht. cbn [andb]. rewrite app_nil_r, qids_app, map_app. cbn [qids map].
      f_equal. exact Hshape.
    + intros Ht'. rewrite Ht in Ht'. discriminate Ht'.
    + intros Hfi. destruct (Hfin Hfi) as (Ht' & _). rewrite Ht in Ht'. discriminate Ht'.
    + exact Hwait.
    + exact Hcons.
    + exact Hn.
  - (* SendTerm *)
    destruct (step_sendterm _ _ _ _ Hs) as (Hf & Ht & Hp & Hlt & Hs').
    subst s'. clear Hs.
    assert (Hfi : finished s = false).
    { destruct (finished s) eqn:Hfi; [|reflexivity].
      destruct (Hfin eq_refl) as (Ht' & _). rewrite Ht in Ht'. discriminate Ht'. }
    rewrite Ht in Hshape. cbn [andb] in Hshape. rewrite app_nil_r in Hshape.
    constructor; unfold st_sendterm, live; prj.
    + exists lo. rewrite qids_app. cbn [qids]. rewrite app_nil_r.
      split; [exact Hl|split; [exact Hlo|split; [exact Hcl|exact Hce]]].
    + rewrite app_length. cbn [length]. lia.
    + exact Hle.
    + rewrite Hfi. cbn [andb negb]. rewrite qids_app. cbn [qids]. rewrite app_nil_r.
      f_equal. exact Hshape.
    + intros _. split; [exact Hf|exact Hp].
    + intros Hfi'. rewrite Hfi in Hfi'. discriminate Hfi'.
    + exact Hwait.
    + exact Hcons.
    + exact Hn.
  - (* RecvWait *)
    destruct (step_recvwait _ _ _ _ Hs) as (Hw & Hfi & Hs').
    subst s'. clear Hs.
    constructor; unfold st_recvwait, live; prj.
    + cbn [opt_list app length].
      destruct (held s) as [h|] eqn:Hh; cbn [opt_list app length] in Hl, Hcl, Hce.
      * destruct (produced s - lo) as [|m] eqn:Hm; [discriminate Hl|].
        cbn [seq] in Hl. injection Hl as Hh0 Hrest.
        exists (Datatypes.S lo).
        replace (produced s - Datatypes.S lo) with m by lia.
        split; [exact Hrest|split; [lia|split; [lia|]]].
        intros Hfa. specialize (Hce Hfa). lia.
      * exists lo.
        split; [exact Hl|split; [exact Hlo|split; [exact Hcl|exact Hce]]].
    + exact Hcap.
    + exact Hle.
    + exact Hshape.
    + exact Hterm.
    + intros Hfi'. rewrite Hfi in Hfi'. discriminate Hfi'.
    + intros _. split; [reflexivity|exact Hfi].
    + exact Hcons.
    + exact Hn.
  - (* Recv *)
    destruct (step_recv _ _ _ _ Hs) as (Hw & Hcase).
    clear Hs.
    destruct (Hwait Hw) as (Hh & Hfi).
    rewrite Hh in Hl, Hcl, Hce. cbn [opt_list app length] in Hl, Hcl, Hce.
    rewrite Hfi in Hshape. cbn [negb] in Hshape. rewrite andb_true_r in Hshape.
    destruct Hcase as [(k & r & Hq & Hs')|(r & Hq & Hs')]; subst s'.
    + (* a buffer *)
      rewrite Hq in Hl, Hshape, Hcap. cbn [qids app map length] in Hl, Hshape, Hcap.
      assert (Hk : k = lo /\ produced s - lo <> 0).
      { destruct (produced s - lo) as [|m]; [discriminate Hl|].
        cbn [seq] in Hl. injection Hl as Hk _. split; [exact Hk|discriminate]. }
      destruct Hk as (Hk & Hpos).
      constructor; unfold st_recv_buf, live; prj.
      * exists lo. cbn [opt_list app length].
        split; [exact Hl|split; [exact Hlo|]].
        destruct (failed s) eqn:Hfa.
        -- split; [lia|intros Hfa'; discriminate Hfa'].
        -- specialize (Hce eq_refl). rewrite app_length. cbn [length].
           split; [lia|intros _; lia].
      * lia.
      * exact Hle.
      * rewrite Hfi. cbn [negb]. rewrite andb_true_r.
        injection Hshape as Hshape. exact Hshape.
      * exact Hterm.
      * intros Hfi'. rewrite Hfi in Hfi'. discriminate Hfi'.
      * intros Hw'. discriminate Hw'.
      * destruct (failed s) eqn:Hfa; [exact Hcons|].
        specialize (Hce eq_refl).
        rewrite app_length. cbn [length].
        replace (length (consumed s) + 1) with (Datatypes.S (length (consumed s))) by lia.
        rewrite seq_S. rewrite <- Hcons. cbn [plus]. f_equal. f_equal. lia.
      * exact Hn.
    + (* the terminator *)
      rewrite Hq in Hl, Hshape, Hcap. cbn [qids] in Hl, Hshape.
      assert (Hr : r = [] /\ term_sent s = true).
      { destruct (qids r) as [|a l]; cbn [map app] in Hshape.
        - destruct (term_sent s).
          + injection Hshape as Hshape. split; [exact Hshape|reflexivity].
          + discriminate Hshape.
        - discriminate Hshape. }
      destruct Hr as (Hr & Ht). subst r.
      constructor; unfold st_recv_term, live; prj.
      * exists lo. rewrite Hh. cbn [qids opt_list app length].
        cbn [qids app] in Hl.
        split; [exact Hl|split; [exact Hlo|split; [exact Hcl|exact Hce]]].
      * cbn [length]. lia.
      * exact Hle.
      * rewrite Ht. reflexivity.
      * exact Hterm.
      * intros _. repeat split; [exact Ht|exact Hh].
      * intros Hw'. discriminate Hw'.
      * exact Hcons.
      * exact Hn.
  - (* Fail2 *)
    destruct (step_fail2 _ _ _ _ Hs) as (Hfi & Hfa & Hs').
    subst s'. clear Hs.
    constructor; unfold st_fail, live; prj.
    + exists lo.
      split; [exact Hl|split; [exact Hlo|split; [exact Hcl|]]].
      intros Hfa'. discriminate Hfa'.
    + exact Hcap.
    + exact Hle.
    + exact Hshape.
    + exact Hterm.
    + exact Hfin.
    + exact Hwait.
    + exact Hcons.
    + exact Hn.
Qed.

Lemma inv_run (S CAP n : nat) (evs : list ev) (s : st) :
  run S CAP (init n) evs = Some s -> Inv CAP n s.
Proof.
  intros Hrun.
  apply (run_invariant S CAP (Inv CAP n) (inv_step S CAP n) evs (init n) s);
    [apply inv_init|exact Hrun].
Qed.

(* ------------------------------------------------------------------ *)
(* The ring-window invariant (needs 0 < S only) and safety             *)
(* ------------------------------------------------------------------ *)

(* the last S buffers acquired are intact in the ring *)
Definition RingOk (S : nat) (s : st) : Prop :=
  forall i, i < produced s -> produced s <= i + S -> ring s (i mod S) = i.

Lemma ringok_init (S n : nat) : RingOk S (init n).
Proof.
  intros i Hi _. unfold init in Hi. prj_in Hi. lia.
Qed.

Lemma step_ring_same (S CAP : nat) (s : st) (e : ev) (s' : st) :
  e <> Acquire -> step S CAP s e = Some s' ->
  ring s' = ring s /\ produced s' = produced s.
Proof.
  intros He Hs. destruct e.
  - exfalso. apply He. reflexivity.
  - destruct (step_send _ _ _ _ Hs) as (k & _ & _ & Hs'). subst s'. split; reflexivity.
  - destruct (step_sendterm _ _ _ _ Hs) as (_ & _ & _ & _ & Hs'). subst s'. split; reflexivity.
  - destruct (step_recvwait _ _ _ _ Hs) as (_ & _ & Hs'). subst s'. split; reflexivity.
  - destruct (step_recv _ _ _ _ Hs) as (_ & [(k & r & _ & Hs')|(r & _ & Hs')]);
      subst s'; split; reflexivity.
  - destruct (step_fail2 _ _ _ _ Hs) as (_ & _ & Hs'). subst s'. split; reflexivity.
Qed.

Lemma ringok_step (S CAP : nat) (s : st) (e : ev) (s' : st) :
  0 < S -> RingOk S s -> step S CAP s e = Some s' -> RingOk S s'.
Proof.
  intros HS Hr Hs.
  destruct (ev_eqb e Acquire) eqn:He.
  - assert (Ee : e = Acquire) by (destruct e; try discriminate He; reflexivity).
    subst e.
    destruct (step_acquire _ _ _ _ Hs) as (_ & _ & _ & Hs'). subst s'.
    unfold RingOk, st_acquire. prj.
    intros i Hi1 Hi2. unfold upd.
    destruct (Nat.eqb_spec (i mod S) (produced s mod S)) as [E|E].
    + destruct (Nat.eq_dec i (produced s)) as [Ei|Ei]; [symmetry; exact Ei|].
      exfalso.
      assert (A1 : i < produced s) by lia.
      assert (A2 : produced s < i + S) by lia.
      exact (mod_neq S i (produced s) HS A1 A2 E).
    + assert (Ei : i <> produced s) by (intros Ei; subst i; apply E; reflexivity).
      apply Hr; lia.
  - assert (Ne : e <> Acquire) by (intros Ee; subst e; discriminate He).
    destruct (step_ring_same S CAP s e s' Ne Hs) as (Hring & Hp).
    unfold RingOk. rewrite Hring, Hp. exact Hr.
Qed.

Lemma ringok_run (S CAP n : nat) (evs : list ev) (s : st) :
  0 < S -> run S CAP (init n) evs = Some s -> RingOk S s.
Proof.
  intros HS Hrun.
  apply (run_invariant S CAP (RingOk S)
           (fun s0 e s1 H0 H1 => ringok_step S CAP s0 e s1 HS H0 H1)
           evs (init n) s); [apply ringok_init|exact Hrun].
Qed.

Lemma inv_safe (S CAP n : nat) (s : st) :
  CAP + 2 <= S -> Inv CAP n s -> RingOk S s -> Safe S s.
Proof.
  intros HC HI Hr i Hi.
  destruct (inv_live _ _ _ HI) as (lo & Hl & Hlo & _).
  pose proof (live_length_le s) as Hlen.
  pose proof (inv_cap _ _ _ HI) as Hcap.
  rewrite Hl in Hi. apply in_seq in Hi.
  rewrite Hl, seq_length in Hlen.
  apply Hr; lia.
Qed.

(* ===== Theorem 1: safety for every schedule ===== *)
Theorem ring_safe (S CAP n : nat) (evs : list ev) (s : st) :
  CAP + 2 <= S ->
  run S CAP (init n) evs = Some s -> Safe S s.
Proof.
  intros HC Hrun.
  assert (HS : 0 < S) by lia.
  apply (inv_safe S CAP n s HC).
  - exact (inv_run S CAP n evs s Hrun).
  - exact (ringok_run S CAP n evs s HS Hrun).
Qed.

Corollary ring_safe_b (S CAP n : nat) (evs : list ev) (s : st) :
  CAP + 2 <= S ->
  run S CAP (init n) evs = Some s -> safe_b S s = true.
Proof.
  intros HC Hrun. apply safe_b_iff. exact (ring_safe S CAP n evs s HC Hrun).
Qed.

(* safety holds at every intermediate state too: every prefix of an accepted
   schedule is an accepted schedule *)
Lemma run_prefix (S CAP : nat) (a b : list ev) (s s' : st) :
  run S CAP s (a ++ b) = Some s' -> exists s1, run S CAP s a = Some s1.
Proof.
  rewrite run_app. intros H.
  destruct (run S CAP s a) as [s1|]; [exists s1; reflexivity|discriminate H].
Qed.

Corollary ring_safe_always (S CAP n : nat) (a b : list ev) (s : st) :
  CAP + 2 <= S ->
  run S CAP (init n) (a ++ b) = Some s ->
  exists s1, run S CAP (init n) a = Some s1 /\ Safe S s1.
Proof.
  intros HC Hrun.
  destruct (run_prefix S CAP a b (init n) s Hrun) as (s1 & H1).
  exists s1. split; [exact H1|exact (ring_safe S CAP n a s1 HC H1)].
Qed.

(* ===== Theorem 2: in-order, gap-free, repeat-free consumption ===== *)
Theorem ring_in_order (S CAP n : nat) (evs : list ev) (s : st) :
  run S CAP (init n) evs = Some s ->
  consumed s = seq 0 (length (consumed s)) /\
  length (consumed s) <= n /\
  (failed s = false -> final s = true -> consumed s = seq 0 n).
Proof.
  intros Hrun.
  pose proof (inv_run S CAP n evs s Hrun) as HI.
  destruct HI as [Hlive Hcap Hle Hshape Hterm Hfin Hwait Hcons Hn].
  destruct Hlive as (lo & Hl & Hlo & Hcl & Hce).
  assert (Hlen : lo + length (opt_list (held s)) <= produced s).
  { assert (Hll : length (live s) = produced s - lo) by (rewrite Hl; apply seq_length).
    unfold live in Hll. rewrite app_length in Hll. lia. }
  split; [exact Hcons|]. split; [lia|].
  intros Hfa Hfinal.
  unfold final in Hfinal. apply andb_prop in Hfinal. destruct Hfinal as (Ht & Hfi).
  destruct (Hfin Hfi) as (_ & Hq & _ & Hh).
  destruct (Hterm Ht) as (Hf & Hp).
  specialize (Hce Hfa).
  unfold live in Hl. rewrite Hh, Hq, Hf in Hl. cbn [opt_list qids app] in Hl.
  rewrite Hh in Hce. cbn [opt_list length] in Hce.
  assert (Hlo' : lo = produced s).
  { destruct (produced s - lo) eqn:Hm; [lia|discriminate Hl]. }
  rewrite Hcons. f_equal. lia.
Qed.

(* ===== Theorem 5: a final state is clean ===== *)
Theorem ring_final_empty (S CAP n : nat) (evs : list ev) (s : st) :
  run S CAP (init n) evs = Some s -> final s = true ->
  queue s = [] /\ filling s = None /\ produced s = n /\ held s = None /\ live s = [].
Proof.
  intros Hrun Hfinal.
  pose proof (inv_run S CAP n evs s Hrun) as HI.
  unfold final in Hfinal. apply andb_prop in Hfinal. destruct Hfinal as (Ht & Hfi).
  destruct (inv_fin _ _ _ HI Hfi) as (_ & Hq & _ & Hh).
  destruct (inv_term _ _ _ HI Ht) as (Hf & Hp).
  pose proof (inv_n _ _ _ HI) as Hn.
  unfold live. rewrite Hq, Hf, Hh. cbn [opt_list qids app].
  repeat split; try reflexivity. lia.
Qed.

(* ------------------------------------------------------------------ *)
(* Enabledness                                                         *)
(* ------------------------------------------------------------------ *)

Lemma step_acquire_ok S CAP s :
  filling s = None -> term_sent s = false -> produced s < n_total s ->
  step S CAP s Acquire = Some (st_acquire S s).
Proof.
  intros Hf Ht Hlt. unfold step. rewrite Hf, Ht.
  destruct (Nat.ltb_spec (produced s) (n_total s)) as [_|Hge]; [reflexivity|lia].
Qed.

Lemma step_send_ok S CAP s k :
  filling s = Some k -> length (queue s) < CAP ->
  step S CAP s Send = Some (st_send k s).
Proof.
  intros Hf Hlt. unfold step. rewrite Hf.
  destruct (Nat.ltb_spec (length (queue s)) CAP) as [_|Hge]; [reflexivity|lia].
Qed.

Lemma step_sendterm_ok S CAP s :
  filling s = None -> term_sent s = false -> produced s = n_total s ->
  length (queue s) < CAP ->
  step S CAP s SendTerm = Some (st_sendterm s).
Proof.
  intros Hf Ht Hp Hlt. unfold step. rewrite Hf, Ht.
  destruct (Nat.eqb_spec (produced s) (n_total s)) as [_|Hne]; [|contradiction].
  destruct (Nat.ltb_spec (length (queue s)) CAP) as [_|Hge]; [reflexivity|lia].
Qed.

Lemma step_recvwait_ok S CAP s :
  waiting s = false -> finished s = false ->
  step S CAP s RecvWait = Some (st_recvwait s).
Proof.
  intros Hw Hfi. unfold step. rewrite Hw, Hfi. reflexivity.
Qed.

Lemma step_recv_buf_ok S CAP s k r :
  waiting s = true -> queue s = Some k :: r ->
  step S CAP s Recv = Some (st_recv_buf k r s).
Proof.
  intros Hw Hq. unfold step. rewrite Hw, Hq. reflexivity.
Qed.

Lemma step_recv_term_ok S CAP s r :
  waiting s = true -> queue s = None :: r ->
  step S CAP s Recv = Some (st_recv_term r s).
Proof.
  intros Hw Hq. unfold step. rewrite Hw, Hq. reflexivity.
Qed.

Lemma enabled_intro S CAP s e s' :
  step S CAP s e = Some s' -> In e (enabled S CAP s).
Proof.
  intros Hs. unfold enabled. apply filter_In. split.
  - unfold all_evs. destruct e; cbn [In]; tauto.
  - rewrite Hs. reflexivity.
Qed.

Lemma in_enabled S CAP s e :
  In e (enabled S CAP s) <-> step S CAP s e <> None.
Proof.
  split.
  - intros Hin. unfold enabled in Hin. apply filter_In in Hin.
    destruct Hin as (_ & Hsome). intros Hnone. rewrite Hnone in Hsome.
    discriminate Hsome.
  - intros Hne. destruct (step S CAP s e) as [s'|] eqn:Hs.
    + exact (enabled_intro S CAP s e s' Hs).
    + exfalso. apply Hne. reflexivity.
Qed.

(* ===== Theorem 3: no deadlock (progress without failing) ===== *)
Theorem ring_no_deadlock (S CAP n : nat) (evs : list ev) (s : st) :
  1 <= CAP ->
  run S CAP (init n) evs = Some s -> final s = false ->
  exists e, e <> Fail2 /\ In e (enabled S CAP s).
Proof.
  intros HC Hrun Hnf.
  pose proof (inv_run S CAP n evs s Hrun) as HI.
  destruct HI as [Hlive Hcap Hle Hshape Hterm Hfin Hwait Hcons Hn].
  destruct (finished s) eqn:Hfi.
  { (* consumer finished: then the terminator was sent, so the state is final *)
    destruct (Hfin eq_refl) as (Ht & _).
    unfold final in Hnf. rewrite Ht, Hfi in Hnf. discriminate Hnf. }
  destruct (waiting s) eqn:Hw.
  2:{ exists RecvWait. split; [discriminate|].
      apply (enabled_intro S CAP s RecvWait (st_recvwait s)).
      apply step_recvwait_ok; assumption. }
  destruct (queue s) as [|x r] eqn:Hq.
  2:{ exists Recv. split; [discriminate|].
      destruct x as [k|].
      - apply (enabled_intro S CAP s Recv (st_recv_buf k r s)).
        apply step_recv_buf_ok; assumption.
      - apply (enabled_intro S CAP s Recv (st_recv_term r s)).
        apply step_recv_term_ok; assumption. }
  (* consumer blocked on an empty channel: the producer can move *)
  destruct (filling s) as [k|] eqn:Hf.
  { exists Send. split; [discriminate|].
    apply (enabled_intro S CAP s Send (st_send k s)).
    apply step_send_ok; [exact Hf|rewrite Hq; cbn [length]; lia]. }
  destruct (term_sent s) eqn:Ht.
  { (* terminator sent, not received, channel empty: impossible *)
    cbn [qids map negb andb app] in Hshape. discriminate Hshape. }
  destruct (Nat.lt_ge_cases (produced s) (n_total s)) as [Hlt|Hge].
  - exists Acquire. split; [discriminate|].
    apply (enabled_intro S CAP s Acquire (st_acquire S s)).
    apply step_acquire_ok; assumption.
  - exists SendTerm. split; [discriminate|].
    apply (enabled_intro S CAP s SendTerm (st_sendterm s)).
    apply step_sendterm_ok; [exact Hf|exact Ht|lia|rewrite Hq; cbn [length]; lia].
Qed.

Corollary ring_no_deadlock_nonempty (S CAP n : nat) (evs : list ev) (s : st) :
  1 <= CAP ->
  run S CAP (init n) evs = Some s -> final s = false ->
  enabled S CAP s <> [].
Proof.
  intros HC Hrun Hnf Hnil.
  destruct (ring_no_deadlock S CAP n evs s HC Hrun Hnf) as (e & _ & Hin).
  rewrite Hnil in Hin. exact Hin.
Qed.

(* conversely, nothing is enabled in a final state *)
Lemma final_no_step (S CAP n : nat) (evs : list ev) (s : st) :
  run S CAP (init n) evs = Some s -> final s = true -> enabled S CAP s = [].
Proof.
  intros Hrun Hfinal.
  pose proof (inv_run S CAP n evs s Hrun) as HI.
  unfold final in Hfinal. apply andb_prop in Hfinal. destruct Hfinal as (Ht & Hfi).
  destruct (inv_fin _ _ _ HI Hfi) as (_ & Hq & Hw & _).
  destruct (inv_term _ _ _ HI Ht) as (Hf & _).
  unfold enabled, all_evs, step. rewrite Ht, Hfi, Hw, Hf. reflexivity.
Qed.

(* ------------------------------------------------------------------ *)
(* Termination measure                                                 *)
(* ------------------------------------------------------------------ *)

(* messages the consumer has still to receive (buffers + terminator) *)
Definition pending (s : st) : nat :=
  length (queue s) + length (opt_list (filling s)) + (n_total s - produced s) +
  (if term_sent s then 0 else 1).

(* producer steps left: Acquire and Send for each missing buffer, SendTerm *)
Definition mu_prod (s : st) : nat :=
  if term_sent s then 0
  else 2 * (n_total s - produced s) + length (opt_list (filling s)) + 1.

(* consumer steps left: RecvWait and Recv for each pending message *)
Definition mu_cons (s : st) : nat :=
  if finished s then 0
  else 2 * pending s - (if waiting s then 1 else 0).

Definition mu (s : st) : nat := mu_prod s + mu_cons s.

(* counting the (single) possible Fail2 as well *)
Definition mu_all (s : st) : nat := mu s + (if failed s then 0 else 1).

Lemma mu_init (n : nat) : mu (init n) = 4 * n + 3.
Proof.
  unfold mu, mu_prod, mu_cons, pending, init. prj. cbn [opt_list length]. lia.
Qed.

Lemma mu_all_init (n : nat) : mu_all (init n) = 4 * n + 4.
Proof.
  unfold mu_all. rewrite mu_init. unfold init. prj. lia.
Qed.

Lemma pending_pos (CAP n : nat) (s : st) :
  Inv CAP n s -> finished s = false -> 1 <= pending s.
Proof.
  intros HI Hfi. unfold pending.
  destruct (term_sent s) eqn:Ht; [|lia].
  pose proof (inv_shape _ _ _ HI) as Hshape.
  rewrite Ht, Hfi in Hshape. cbn [andb negb] in Hshape.
  apply (f_equal (@length (option nat))) in Hshape.
  rewrite app_length in Hshape. cbn [length] in Hshape. lia.
Qed.

Lemma mu_step (S CAP n : nat) (s : st) (e : ev) (s' : st) :
  Inv CAP n s -> step S CAP s e = Some s' -> e <> Fail2 -> mu s' < mu s.
Proof.
  intros HI Hs He.
  unfold mu, mu_prod, mu_cons, pending.
  destruct e.
  - destruct (step_acquire _ _ _ _ Hs) as (Hf & Ht & Hlt & Hs'). subst s'.
    unfold st_acquire. prj. rewrite Hf, Ht. cbn [opt_list length].
    destruct (finished s), (waiting s); lia.
  - destruct (step_send _ _ _ _ Hs) as (k & Hf & Hlt & Hs'). subst s'.
    unfold st_send. prj. rewrite Hf, app_length. cbn [opt_list length].
    assert (Ht : term_sent s = false).
    { destruct (term_sent s) eqn:Ht; [|reflexivity].
      destruct (inv_term _ _ _ HI Ht) as (Hf' & _). rewrite Hf in Hf'. discriminate Hf'. }
    rewrite Ht.
    destruct (finished s), (waiting s); lia.
  - destruct (step_sendterm _ _ _ _ Hs) as (Hf & Ht & Hp & Hlt & Hs'). subst s'.
    unfold st_sendterm. prj. rewrite Hf, Ht, app_length. cbn [opt_list length].
    destruct (finished s), (waiting s); lia.
  - destruct (step_recvwait _ _ _ _ Hs) as (Hw & Hfi & Hs'). subst s'.
    pose proof (pending_pos CAP n s HI Hfi) as Hpos. unfold pending in Hpos.
    unfold st_recvwait. prj. rewrite Hw, Hfi.
    destruct (term_sent s); lia.
  - destruct (step_recv _ _ _ _ Hs) as (Hw & Hcase).
    destruct (inv_wait _ _ _ HI Hw) as (_ & Hfi).
    destruct Hcase as [(k & r & Hq & Hs')|(r & Hq & Hs')]; subst s'.
    + unfold st_recv_buf. prj. rewrite Hw, Hfi, Hq. cbn [length].
      destruct (term_sent s); lia.
    + unfold st_recv_term. prj. rewrite Hw, Hfi, Hq. cbn [length].
      destruct (term_sent s); lia.
  - exfalso. apply He. reflexivity.
Qed.

Lemma mu_all_step (S CAP n : nat) (s : st) (e : ev) (s' : st) :
  Inv CAP n s -> step S CAP s e = Some s' -> mu_all s' < mu_all s.
Proof.
  intros HI Hs.
  destruct (ev_eqb e Fail2) eqn:Hb.
  - assert (Ee : e = Fail2) by (destruct e; try discriminate Hb; reflexivity).
    subst e.
    destruct (step_fail2 _ _ _ _ Hs) as (Hfi & Hfa & Hs'). subst s'.
    unfold mu_all, mu, mu_prod, mu_cons, pending, st_fail. prj. rewrite Hfa. lia.
  - assert (Ne : e <> Fail2) by (intros Ee; subst e; discriminate Hb).
    pose proof (mu_step S CAP n s e s' HI Hs Ne) as Hlt.
    assert (Hfa : failed s' = failed s).
    { destruct e.
      - destruct (step_acquire _ _ _ _ Hs) as (_ & _ & _ & Hs'). subst s'. reflexivity.
      - destruct (step_send _ _ _ _ Hs) as (k & _ & _ & Hs'). subst s'. reflexivity.
      - destruct (step_sendterm _ _ _ _ Hs) as (_ & _ & _ & _ & Hs'). subst s'. reflexivity.
      - destruct (step_recvwait _ _ _ _ Hs) as (_ & _ & Hs'). subst s'. reflexivity.
      - destruct (step_recv _ _ _ _ Hs) as (_ & [(k & r & _ & Hs')|(r & _ & Hs')]);
          subst s'; reflexivity.
      - exfalso. apply Ne. reflexivity. }
    unfold mu_all. rewrite Hfa. lia.
Qed.

Lemma run_bound_gen (S CAP n : nat) (evs : list ev) :
  forall s s', Inv CAP n s -> run S CAP s evs = Some s' ->
               length evs + mu_all s' <= mu_all s.
Proof.
  induction evs as [|e evs IH]; intros s s' HI Hrun.
  - cbn [run] in Hrun. injection Hrun as Hrun. subst s'. cbn [length]. lia.
  - cbn [run] in Hrun.
    destruct (step S CAP s e) as [s1|] eqn:Hs; [|discriminate Hrun].
    pose proof (mu_all_step S CAP n s e s1 HI Hs) as Hlt.
    pose proof (IH s1 s' (inv_step S CAP n s e s1 HI Hs) Hrun) as Hrec.
    cbn [length]. lia.
Qed.

(* ===== Theorem 4: termination, with an explicit bound ===== *)

(* (a) the measure [mu] strictly decreases along every non-Fail2 step taken
       from a reachable state (and [mu_all] along every step whatsoever) *)
Theorem ring_mu_decreases (S CAP n : nat) (evs : list ev) (s : st) (e : ev) (s' : st) :
  run S CAP (init n) evs = Some s ->
  step S CAP s e = Some s' ->
  (e <> Fail2 -> mu s' < mu s) /\ mu_all s' < mu_all s.
Proof.
  intros Hrun Hs.
  pose proof (inv_run S CAP n evs s Hrun) as HI.
  split.
  - intros He. exact (mu_step S CAP n s e s' HI Hs He).
  - exact (mu_all_step S CAP n s e s' HI Hs).
Qed.

(* (b) any accepted schedule has at most 4*n + 4 events (Fail2 included) *)
Theorem ring_terminates (S CAP n : nat) (evs : list ev) (s : st) :
  run S CAP (init n) evs = Some s ->
  length evs + mu_all s <= 4 * n + 4 /\ length evs <= 4 * n + 4.
Proof.
  intros Hrun.
  pose proof (run_bound_gen S CAP n evs (init n) s (inv_init CAP n) Hrun) as Hb.
  rewrite mu_all_init in Hb. lia.
Qed.

(* (c) Fail2 occurs at most once in an accepted schedule *)
Definition count_fail2 (evs : list ev) : nat := length (filter (ev_eqb Fail2) evs).

Lemma fail2_count_gen (S CAP : nat) (evs : list ev) :
  forall s s', run S CAP s evs = Some s' ->
               count_fail2 evs + (if failed s' then 0 else 1) <= (if failed s then 0 else 1).
Proof.
  induction evs as [|e evs IH]; intros s s' Hrun.
  - cbn [run] in Hrun. injection Hrun as Hrun. subst s'. cbn. lia.
  - cbn [run] in Hrun.
    destruct (step S CAP s e) as [s1|] eqn:Hs; [|discriminate Hrun].
    pose proof (IH s1 s' Hrun) as Hrec.
    unfold count_fail2 in *. cbn [filter].
    destruct e; cbn [ev_eqb length].
    + destruct (step_acquire _ _ _ _ Hs) as (_ & _ & _ & Hs'). subst s1. exact Hrec.
    + destruct (step_send _ _ _ _ Hs) as (k & _ & _ & Hs'). subst s1. exact Hrec.
    + destruct (step_sendterm _ _ _ _ Hs) as (_ & _ & _ & _ & Hs'). subst s1. exact Hrec.
    + destruct (step_recvwait _ _ _ _ Hs) as (_ & _ & Hs'). subst s1. exact Hrec.
    + destruct (step_recv _ _ _ _ Hs) as (_ & [(k & r & _ & Hs')|(r & _ & Hs')]);
        subst s1; exact Hrec.
    + destruct (step_fail2 _ _ _ _ Hs) as (_ & Hfa & Hs'). subst s1.
      rewrite Hfa. unfold st_fail in Hrec. prj_in Hrec. lia.
Qed.

Theorem ring_fail2_once (S CAP n : nat) (evs : list ev) (s : st) :
  run S CAP (init n) evs = Some s -> count_fail2 evs <= 1.
Proof.
  intros Hrun. pose proof (fail2_count_gen S CAP evs (init n) s Hrun) as H.
  change (failed (init n)) with false in H. cbv iota in H.
  destruct (failed s); lia.
Qed.

(* ------------------------------------------------------------------ *)
(* The converse: S < CAP + 2 is unsafe                                 *)
(* ------------------------------------------------------------------ *)

Lemma run_cons (S CAP : nat) (s s1 : st) (e : ev) (r : list ev) :
  step S CAP s e = Some s1 -> run S CAP s (e :: r) = run S CAP s1 r.
Proof.
  intros Hs. cbn [run]. rewrite Hs. reflexivity.
Qed.

(* m rounds of Acquire; Send by an unobstructed producer *)
Lemma run_fill (S CAP : nat) (m : nat) :
  forall s,
    filling s = None -> term_sent s = false ->
    produced s + m <= n_total s -> length (queue s) + m <= CAP ->
    exists s', run S CAP s (rep_evs m [Acquire; Send]) = Some s' /\
               produced s' = produced s + m /\ filling s' = None /\
               term_sent s' = false /\ length (queue s') = length (queue s) + m /\
               held s' = held s /\ n_total s' = n_total s.
Proof.
  induction m as [|m IH]; intros s Hf Ht Hp Hq.
  - exists s. cbn [rep_evs run].
    split; [reflexivity|]. split; [lia|]. split; [exact Hf|]. split; [exact Ht|].
    split; [lia|]. split; reflexivity.
  - cbn [rep_evs app].
    set (s1 := st_acquire S s).
    set (s2 := st_send (produced s) s1).
    assert (H1 : step S CAP s Acquire = Some s1).
    { apply step_acquire_ok; [exact Hf|exact Ht|lia]. }
    assert (H2 : step S CAP s1 Send = Some s2).
    { apply step_send_ok; [reflexivity|]. unfold s1, st_acquire. prj. lia. }
    rewrite (run_cons S CAP s s1 Acquire _ H1).
    rewrite (run_cons S CAP s1 s2 Send _ H2).
    assert (Hp2 : produced s2 = Datatypes.S (produced s)) by reflexivity.
    assert (Hq2 : length (queue s2) = length (queue s) + 1).
    { unfold s2, s1, st_send, st_acquire. prj. rewrite app_length. reflexivity. }
    assert (Hn2 : n_total s2 = n_total s) by reflexivity.
    assert (Hh2 : held s2 = held s) by reflexivity.
    destruct (IH s2) as (s' & Hrun & Hp' & Hf' & Ht' & Hq' & Hh' & Hn').
    + reflexivity.
    + exact Ht.
    + rewrite Hp2, Hn2. lia.
    + rewrite Hq2. lia.
    + exists s'. split; [exact Hrun|].
      rewrite Hp', Hq', Hh', Hn', Hp2, Hq2, Hh2, Hn2.
      repeat split; try assumption; lia.
Qed.

(* the bad schedule is accepted whenever 1 <= S <= CAP + 1, 1 <= CAP and the
   run has at least S + 1 buffers; at its end the consumer still holds
   buffer 0 while slot 0 contains buffer S *)
Lemma bad_schedule_run (S CAP n : nat) :
  0 < S -> 1 <= CAP -> S < CAP + 2 -> S + 1 <= n ->
  exists s, run S CAP (init n) (bad_schedule S CAP) = Some s /\
            held s = Some 0 /\ ring s 0 = S.
Proof.
  intros HS HC HSC Hn.
  unfold bad_schedule.
  set (s1 := st_acquire S (init n)).
  set (s2 := st_send 0 s1).
  set (s3 := st_recvwait s2).
  set (s4 := st_recv_buf 0 [] s3).
  assert (H1 : step S CAP (init n) Acquire = Some s1).
  { apply step_acquire_ok; [reflexivity|reflexivity|]. unfold init. prj. lia. }
  assert (H2 : step S CAP s1 Send = Some s2).
  { apply step_send_ok; [reflexivity|]. unfold s1, st_acquire, init. prj. cbn [length]. lia. }
  assert (H3 : step S CAP s2 RecvWait = Some s3).
  { apply step_recvwait_ok; reflexivity. }
  assert (H4 : step S CAP s3 Recv = Some s4).
  { apply step_recv_buf_ok; reflexivity. }
  rewrite run_app.
  rewrite (run_cons S CAP _ _ _ _ H1), (run_cons S CAP _ _ _ _ H2),
          (run_cons S CAP _ _ _ _ H3), (run_cons S CAP _ _ _ _ H4).
  cbn [run].
  assert (Hp4 : produced s4 = 1) by reflexivity.
  assert (Hq4 : length (queue s4) = 0) by reflexivity.
  assert (Hn4 : n_total s4 = n) by reflexivity.
  assert (Hh4 : held s4 = Some 0) by reflexivity.
  destruct (run_fill S CAP (S - 1) s4) as (s5 & Hrun & Hp5 & Hf5 & Ht5 & _ & Hh5 & Hn5).
  { reflexivity. }
  { reflexivity. }
  { rewrite Hp4, Hn4. lia. }
  { rewrite Hq4. lia. }
  rewrite run_app, Hrun.
  assert (Hp5' : produced s5 = S) by (rewrite Hp5, Hp4; lia).
  assert (H6 : step S CAP s5 Acquire = Some (st_acquire S s5)).
  { apply step_acquire_ok; [exact Hf5|exact Ht5|]. rewrite Hp5', Hn5, Hn4. lia. }
  rewrite (run_cons S CAP _ _ _ _ H6). cbn [run].
  exists (st_acquire S s5). split; [reflexivity|].
  unfold st_acquire. prj. split.
  - rewrite Hh5. exact Hh4.
  - unfold upd. rewrite Hp5', Nat.mod_same by lia. reflexivity.
Qed.

(* ===== Theorem 6: the bound CAP + 2 <= S is tight =====
   NOTE the extra hypothesis 1 <= CAP compared to the naive statement: with
   CAP = 0 this model's channel never accepts a message (there is no
   rendez-vous), nothing is ever received, and every reachable state is safe
   for every S >= 1 (see [ring_cap0_safe] below), although S = 1 < 0 + 2. *)
Theorem Ring_refuted (S CAP : nat) :
  0 < S -> 1 <= CAP -> S < CAP + 2 ->
  exists s, run S CAP (init (CAP + 2)) (bad_schedule S CAP) = Some s /\ ~ Safe S s.
Proof.
  intros HS HC HSC.
  destruct (bad_schedule_run S CAP (CAP + 2) HS HC HSC ltac:(lia)) as (s & Hrun & Hh & Hr).
  exists s. split; [exact Hrun|].
  intros Hsafe.
  assert (Hin : In 0 (live s)).
  { unfold live. rewrite Hh. cbn [opt_list app In]. left. reflexivity. }
  specialize (Hsafe 0 Hin).
  rewrite Nat.mod_0_l in Hsafe by lia.
  rewrite Hr in Hsafe. lia.
Qed.

Corollary Ring_refuted_ex (S CAP : nat) :
  0 < S -> 1 <= CAP -> S < CAP + 2 ->
  exists evs s n, run S CAP (init n) evs = Some s /\ ~ Safe S s.
Proof.
  intros HS HC HSC.
  destruct (Ring_refuted S CAP HS HC HSC) as (s & Hrun & Hns).
  exists (bad_schedule S CAP), s, (CAP + 2). split; [exact Hrun|exact Hns].
Qed.

(* The excluded corner: CAP = 0.  Nothing can ever be sent. *)
Lemma cap0_step (S : nat) (s : st) (e : ev) (s' : st) :
  queue s = [] /\ held s = None -> step S 0 s e = Some s' ->
  queue s' = [] /\ held s' = None.
Proof.
  intros (Hq & Hh) Hs. destruct e.
  - destruct (step_acquire _ _ _ _ Hs) as (_ & _ & _ & Hs'). subst s'.
    split; assumption.
  - destruct (step_send _ _ _ _ Hs) as (k & _ & Hlt & _). lia.
  - destruct (step_sendterm _ _ _ _ Hs) as (_ & _ & _ & Hlt & _). lia.
  - destruct (step_recvwait _ _ _ _ Hs) as (_ & _ & Hs'). subst s'.
    split; [exact Hq|reflexivity].
  - destruct (step_recv _ _ _ _ Hs) as (_ & [(k & r & Hq' & _)|(r & Hq' & _)]);
      rewrite Hq in Hq'; discriminate Hq'.
  - destruct (step_fail2 _ _ _ _ Hs) as (_ & _ & Hs'). subst s'.
    split; assumption.
Qed.

Theorem ring_cap0_safe (S n : nat) (evs : list ev) (s : st) :
  0 < S -> run S 0 (init n) evs = Some s -> Safe S s.
Proof.
  intros HS Hrun.
  pose proof (inv_run S 0 n evs s Hrun) as HI.
  pose proof (ringok_run S 0 n evs s HS Hrun) as Hr.
  assert (H0 : queue s = [] /\ held s = None).
  { apply (run_invariant S 0 (fun s0 => queue s0 = [] /\ held s0 = None)
             (cap0_step S) evs (init n) s); [split; reflexivity|exact Hrun]. }
  destruct H0 as (Hq & Hh).
  destruct (inv_live _ _ _ HI) as (lo & Hl & Hlo & _).
  intros i Hi.
  assert (Hlen : length (live s) <= 1).
  { unfold live. rewrite Hq, Hh. cbn [opt_list qids app].
    destruct (filling s); cbn [opt_list length]; lia. }
  rewrite Hl in Hi, Hlen. rewrite seq_length in Hlen. apply in_seq in Hi.
  apply Hr; lia.
Qed.

(* Summary: for S >= 1 the model is safe for every schedule exactly when
   CAP = 0 or CAP + 2 <= S. *)
Theorem ring_safe_iff (S CAP : nat) :
  0 < S ->
  ((forall n evs s, run S CAP (init n) evs = Some s -> Safe S s) <->
   (CAP = 0 \/ CAP + 2 <= S)).
Proof.
  intros HS. split.
  - intros Hall.
    destruct (Nat.eq_dec CAP 0) as [H0|H0]; [left; exact H0|].
    destruct (Nat.le_gt_cases (CAP + 2) S) as [Hle|Hgt]; [right; exact Hle|].
    exfalso.
    destruct (Ring_refuted S CAP HS ltac:(lia) Hgt) as (s & Hrun & Hns).
    apply Hns. exact (Hall (CAP + 2) (bad_schedule S CAP) s Hrun).
  - intros [H0|Hle] n evs s Hrun.
    + subst CAP. exact (ring_cap0_safe S n evs s HS Hrun).
    + exact (ring_safe S CAP n evs s Hle Hrun).
Qed.

(* ------------------------------------------------------------------ *)
(* Concrete runs (non-vacuity), by computation                         *)
(* ------------------------------------------------------------------ *)

(* The code's parameters: S = 16 slots, channel capacity 14, 40 buffers.
   Lagging consumer: the producer runs until it blocks, then the consumer makes
   one step, and so on.  The schedule is accepted, ends in a final state, every
   visited state is safe and exactly 0..39 were consumed. *)
Definition lagging_schedule : list ev := greedy 16 14 producer_first 1000 (init 40).

Example lagging_run_ok : check_run 16 14 40 lagging_schedule 40 = true.
Proof. vm_compute. reflexivity. Qed.

Example lagging_run_length : length lagging_schedule = 4 * 40 + 3.
Proof. vm_compute. reflexivity. Qed.

(* the producer really gets 15 buffers ahead (14 queued + 1 being filled)
   before the consumer's first step *)
Example lagging_run_prefix :
  firstn 30 lagging_schedule = rep_evs 14 [Acquire; Send] ++ [Acquire; RecvWait].
Proof. vm_compute. reflexivity. Qed.

Example lagging_run_final :
  match run 16 14 (init 40) lagging_schedule with
  | Some s => final s = true /\ consumed s = seq 0 40 /\ safe_b 16 s = true /\
              enabled 16 14 s = []
  | None => False
  end.
Proof. vm_compute. repeat split. Qed.

(* eager consumer: the consumer is always served first *)
Example eager_run_ok :
  check_run 16 14 40 (greedy 16 14 consumer_first 1000 (init 40)) 40 = true.
Proof. vm_compute. reflexivity. Qed.

(* stage-2 failure after 60 steps, then draining: still safe everywhere, ends
   in a final state, consumed is a strict prefix, and the schedule has exactly
   4*n + 4 events: the bound of [ring_terminates] is attained *)
Example failing_run_ok : check_run 16 14 40 (failing_schedule 16 14 40 60) 8 = true.
Proof. vm_compute. reflexivity. Qed.

Example failing_run_length : length (failing_schedule 16 14 40 60) = 4 * 40 + 4.
Proof. vm_compute. reflexivity. Qed.

(* stage-1 give-up: the producer stops after 3 buffers (n_total = 3) *)
Example short_run_ok :
  check_run 16 14 3 (greedy 16 14 producer_first 1000 (init 3)) 3 = true.
Proof. vm_compute. reflexivity. Qed.

Example empty_run_ok :
  check_run 16 14 0 [SendTerm; RecvWait; Recv] 0 = true.
Proof. vm_compute. reflexivity. Qed.

(* one slot too few: S = 16, CAP = 15 *)
Example bad_run_16_15 :
  match run 16 15 (init 17) (bad_schedule 16 15) with
  | Some s => safe_b 16 s = false /\ held s = Some 0 /\ ring s 0 = 16
  | None => False
  end.
Proof. vm_compute. repeat split. Qed.

(* with the real configuration (S = 16, CAP = 14) the same schedule is not
   accepted: the channel is full after 14 sends, so the producer blocks before
   it can get far enough ahead to reach slot 0 again *)
Example bad_schedule_blocked_16_14 :
  run 16 14 (init 17) (bad_schedule 16 14) = None.
Proof. vm_compute. reflexivity. Qed.

(* ------------------------------------------------------------------ *)
(* Assumptions                                                         *)
(* ------------------------------------------------------------------ *)

Print Assumptions ring_safe.
Print Assumptions ring_safe_always.
Print Assumptions ring_in_order.
Print Assumptions ring_no_deadlock.
Print Assumptions ring_no_deadlock_nonempty.
Print Assumptions ring_mu_decreases.
Print Assumptions ring_terminates.
Print Assumptions ring_fail2_once.
Print Assumptions ring_final_empty.
Print Assumptions Ring_refuted.
Print Assumptions ring_cap0_safe.
Print Assumptions ring_safe_iff.
Print Assumptions lagging_run_ok.
Print Assumptions bad_run_16_15.
