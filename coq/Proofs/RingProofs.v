(* Proofs/RingProofs.v -- safety, ordering, deadlock freedom, termination of
   the ring / channel hand-off model of Model/Ring.v, for every schedule, and
   the converse (the bound CAP + 2 <= S is tight).

   The transition system includes BOTH failure paths: the consumer's (Fail2,
   then draining) and the producer's (SendTerm taken while a filled buffer is
   withheld: the buffer is abandoned, see Model/Ring.v).  All theorems are
   about every accepted event list, hence about every combination and order
   of the two failures.  "The sent buffers" are [seq 0 (n_sent evs)], where
   [n_sent evs] is the number of Send events; the acquired ones are
   [seq 0 (n_acquired evs)], and n_acquired evs - n_sent evs <= 1.

   The ring size is called [S]; the successor of [nat] is [Datatypes.S]. *)

From Coq Require Import List Arith Lia PeanoNat Bool.
From SJ Require Import Model.Ring.
Import ListNotations.

Ltac prj :=
  cbn [produced filling term_sent queue held waiting finished failed ring
       consumed n_total].
Ltac prj_in H :=
  cbn [produced filling term_sent queue held waiting finished failed ring
       consumed n_total] in H.

(* ------------------------------------------------------------------ *)
(* Small list / arithmetic lemmas                                      *)
(* ------------------------------------------------------------------ *)

Lemma qids_app (a b : list (option nat)) : qids (a ++ b) = qids a ++ qids b.
Proof.
  induction a as [|x a IH]; [reflexivity|].
  destruct x as [k|]; cbn [qids app]; rewrite IH; reflexivity.
Qed.

Lemma qids_length (q : list (option nat)) : length (qids q) <= length q.
Proof.
  induction q as [|x q IH]; [apply le_n|].
  destruct x as [k|]; cbn [qids length]; lia.
Qed.

Lemma mod_neq (S i q : nat) : 0 < S -> i < q -> q < i + S -> i mod S <> q mod S.
Proof.
  intros HS H1 H2 E.
  pose proof (Nat.div_mod i S ltac:(lia)) as Hi.
  pose proof (Nat.div_mod q S ltac:(lia)) as Hq.
  rewrite E in Hi.
  destruct (Nat.le_gt_cases (q / S) (i / S)) as [Hle|Hgt]; nia.
Qed.

Lemma live_length_le (s : st) : length (live s) <= length (queue s) + 2.
Proof.
  unfold live. rewrite !app_length.
  pose proof (qids_length (queue s)) as Hq.
  destruct (held s), (filling s); cbn [opt_list length]; lia.
Qed.

Lemma safe_b_iff (S : nat) (s : st) : safe_b S s = true <-> Safe S s.
Proof.
  unfold safe_b, Safe. rewrite forallb_forall.
  split; intros H i Hi.
  - apply Nat.eqb_eq. apply H. exact Hi.
  - apply Nat.eqb_eq. apply H. exact Hi.
Qed.

(* ------------------------------------------------------------------ *)
(* Characterisation of [step], event by event                          *)
(* ------------------------------------------------------------------ *)

Lemma step_acquire S CAP s s' :
  step S CAP s Acquire = Some s' ->
  filling s = None /\ term_sent s = false /\ produced s < n_total s /\
  s' = st_acquire S s.
Proof.
  unfold step. intros H.
  destruct (filling s) as [k|]; [discriminate H|].
  destruct (term_sent s); [discriminate H|].
  destruct (Nat.ltb_spec (produced s) (n_total s)) as [Hlt|Hge]; [|discriminate H].
  injection H as H. subst s'. repeat split. exact Hlt.
Qed.

Lemma step_send S CAP s s' :
  step S CAP s Send = Some s' ->
  exists k, filling s = Some k /\ length (queue s) < CAP /\ s' = st_send k s.
Proof.
  unfold step. intros H.
  destruct (filling s) as [k|]; [|discriminate H].
  destruct (Nat.ltb_spec (length (queue s)) CAP) as [Hlt|Hge]; [|discriminate H].
  injection H as H. subst s'. exists k. repeat split. exact Hlt.
Qed.

Lemma step_sendterm S CAP s s' :
  step S CAP s SendTerm = Some s' ->
  term_sent s = false /\ produced s = n_total s /\
  length (queue s) < CAP /\ s' = st_sendterm s.
Proof.
  unfold step. intros H.
  destruct (term_sent s); [discriminate H|].
  destruct (Nat.eqb_spec (produced s) (n_total s)) as [Heq|Hne]; [|discriminate H].
  destruct (Nat.ltb_spec (length (queue s)) CAP) as [Hlt|Hge]; [|discriminate H].
  injection H as H. subst s'. repeat split; assumption.
Qed.

Lemma step_recvwait S CAP s s' :
  step S CAP s RecvWait = Some s' ->
  waiting s = false /\ finished s = false /\ s' = st_recvwait s.
Proof.
  unfold step. intros H.
  destruct (waiting s); [discriminate H|].
  destruct (finished s); [discriminate H|].
  injection H as H. subst s'. repeat split.
Qed.

Lemma step_recv S CAP s s' :
  step S CAP s Recv = Some s' ->
  waiting s = true /\
  ((exists k r, queue s = Some k :: r /\ s' = st_recv_buf k r s) \/
   (exists r, queue s = None :: r /\ s' = st_recv_term r s)).
Proof.
  unfold step. intros H.
  destruct (waiting s); [|discriminate H].
  split; [reflexivity|].
  destruct (queue s) as [|[k|] r]; [discriminate H| |].
  - injection H as H. subst s'. left. exists k, r. split; reflexivity.
  - injection H as H. subst s'. right. exists r. split; reflexivity.
Qed.

Lemma step_fail2 S CAP s s' :
  step S CAP s Fail2 = Some s' ->
  finished s = false /\ failed s = false /\ s' = st_fail s.
Proof.
  unfold step. intros H.
  destruct (finished s); [discriminate H|].
  destruct (failed s); [discriminate H|].
  injection H as H. subst s'. repeat split.
Qed.

(* lifting a step-invariant to runs *)
Lemma run_invariant (S CAP : nat) (P : st -> Prop) :
  (forall s e s', P s -> step S CAP s e = Some s' -> P s') ->
  forall evs s s', P s -> run S CAP s evs = Some s' -> P s'.
Proof.
  intros Hstep evs.
  induction evs as [|e evs IH]; intros s s' HP Hrun.
  - cbn [run] in Hrun. injection Hrun as Hrun. subst s'. exact HP.
  - cbn [run] in Hrun.
    destruct (step S CAP s e) as [s1|] eqn:Hs; [|discriminate Hrun].
    apply (IH s1 s'); [|exact Hrun].
    apply (Hstep s e s1 HP Hs).
Qed.

Lemma run_app (S CAP : nat) (a b : list ev) (s : st) :
  run S CAP s (a ++ b) =
  match run S CAP s a with Some s1 => run S CAP s1 b | None => None end.
Proof.
  revert s. induction a as [|e a IH]; intros s; [reflexivity|].
  cbn [run app]. destruct (step S CAP s e) as [s1|]; [apply IH|reflexivity].
Qed.

(* ------------------------------------------------------------------ *)
(* Counting events of a trace                                          *)
(* ------------------------------------------------------------------ *)

Definition ev_inc (a e : ev) : nat := if ev_eqb a e then 1 else 0.

Lemma count_ev_nil (a : ev) : count_ev a [] = 0.
Proof. reflexivity. Qed.

Lemma count_ev_cons (a e : ev) (evs : list ev) :
  count_ev a (e :: evs) = ev_inc a e + count_ev a evs.
Proof.
  unfold count_ev, ev_inc. cbn [filter]. destruct (ev_eqb a e); reflexivity.
Qed.

Lemma count_ev_app (a : ev) (l1 l2 : list ev) :
  count_ev a (l1 ++ l2) = count_ev a l1 + count_ev a l2.
Proof.
  unfold count_ev. rewrite filter_app, app_length. reflexivity.
Qed.

Lemma count_ev_le_length (a : ev) (evs : list ev) : count_ev a evs <= length evs.
Proof.
  induction evs as [|e evs IH]; [apply le_n|].
  rewrite count_ev_cons. unfold ev_inc. cbn [length]. destruct (ev_eqb a e); lia.
Qed.

(* lifting a step-invariant indexed by two event counters (sends, acquires)
   to runs *)
Lemma run_invariant_cnt (S CAP : nat) (P : nat -> nat -> st -> Prop) :
  (forall k a s e s', P k a s -> step S CAP s e = Some s' ->
                      P (ev_inc Send e + k) (ev_inc Acquire e + a) s') ->
  forall evs k a s s', P k a s -> run S CAP s evs = Some s' ->
                       P (n_sent evs + k) (n_acquired evs + a) s'.
Proof.
  intros Hstep evs.
  induction evs as [|e evs IH]; intros k a s s' HP Hrun.
  - cbn [run] in Hrun. injection Hrun as Hrun. subst s'. exact HP.
  - cbn [run] in Hrun.
    destruct (step S CAP s e) as [s1|] eqn:Hs; [|discriminate Hrun].
    unfold n_sent, n_acquired. rewrite !count_ev_cons.
    replace (ev_inc Send e + count_ev Send evs + k)
      with (n_sent evs + (ev_inc Send e + k)) by (unfold n_sent; lia).
    replace (ev_inc Acquire e + count_ev Acquire evs + a)
      with (n_acquired evs + (ev_inc Acquire e + a)) by (unfold n_acquired; lia).
    apply (IH _ _ s1 s'); [|exact Hrun].
    apply (Hstep k a s e s1 HP Hs).
Qed.

(* ------------------------------------------------------------------ *)
(* The bookkeeping invariant (independent of the ring size)            *)
(* ------------------------------------------------------------------ *)

(* [k] is the number of buffers SENT so far (the number of Send events of the
   trace that led to [s]): the buffers sent are 0 .. k-1.  The producer has
   acquired k buffers, or k+1: the extra one, buffer k, is either being filled
   or has been abandoned together with the sending of the terminator. *)
Record Inv (CAP n k : nat) (s : st) : Prop := mkInv {
  (* the ids sent and not yet released by the consumer are consecutive and end
     at [k]; [lo] is the number of buffers the consumer has already released *)
  inv_live : exists lo,
      opt_list (held s) ++ qids (queue s) = seq lo (k - lo) /\ lo <= k /\
      length (consumed s) <= lo + length (opt_list (held s)) /\
      (failed s = false -> length (consumed s) = lo + length (opt_list (held s)));
  inv_fill : match filling s with
             | Some f => f = k /\ produced s = Datatypes.S k
             | None => produced s = k \/
                       (produced s = Datatypes.S k /\ term_sent s = true)
             end;
  inv_cap : length (queue s) <= CAP;
  inv_le : produced s <= n_total s;
  (* the terminator, once sent and not yet received, is the last message *)
  inv_shape : queue s = map Some (qids (queue s)) ++
                        (if term_sent s && negb (finished s) then [None] else []);
  inv_term : term_sent s = true -> filling s = None /\ produced s = n_total s;
  inv_fin : finished s = true ->
            term_sent s = true /\ queue s = [] /\ waiting s = false /\ held s = None;
  inv_wait : waiting s = true -> held s = None /\ finished s = false;
  inv_cons : consumed s = seq 0 (length (consumed s));
  inv_n : n_total s = n
}.

(* the old formulation: all live ids (the buffer being filled included) are
   consecutive; after an abandon they end one short of [produced] *)
Lemma inv_live_seq (CAP n k : nat) (s : st) :
  Inv CAP n k s ->
  exists lo, live s = seq lo (k + length (opt_list (filling s)) - lo) /\ lo <= k /\
             k + length (opt_list (filling s)) <= produced s <= Datatypes.S k.
Proof.
  intros HI.
  destruct (inv_live _ _ _ _ HI) as (lo & Hl & Hlo & _).
  pose proof (inv_fill _ _ _ _ HI) as Hf.
  exists lo. unfold live. rewrite app_assoc, Hl.
  destruct (filling s) as [f|]; cbn [opt_list length].
  - destruct Hf as (Hf & Hp). subst f.
    split; [|lia].
    replace (k + 1 - lo) with (Datatypes.S (k - lo)) by lia.
    rewrite seq_S. f_equal. f_equal. lia.
  - rewrite app_nil_r, Nat.add_0_r. split; [reflexivity|]. lia.
Qed.

Lemma inv_init (CAP n : nat) : Inv CAP n 0 (init n).
Proof.
  constructor; unfold init, live; prj; cbn [opt_list qids app length map andb].
  - exists 0. cbn. repeat split; lia.
  - left. reflexivity.
  - lia.
  - lia.
  - reflexivity.
  - intros H; discriminate H.
  - intros H; discriminate H.
  - intros H; discriminate H.
  - reflexivity.
  - reflexivity.
Qed.

Lemma inv_step (S CAP n k : nat) (s : st) (e : ev) (s' : st) :
  Inv CAP n k s -> step S CAP s e = Some s' -> Inv CAP n (ev_inc Send e + k) s'.
Proof.
  intros HI Hs.
  destruct HI as [Hlive Hfill Hcap Hle Hshape Hterm Hfin Hwait Hcons Hn].
  destruct Hlive as (lo & Hl & Hlo & Hcl & Hce).
  destruct e; unfold ev_inc; cbn [ev_eqb plus].
  - (* Acquire *)
    destruct (step_acquire _ _ _ _ Hs) as (Hf & Ht & Hlt & Hs').
    subst s'. clear Hs.
    rewrite Hf, Ht in Hfill.
    assert (Hp : produced s = k).
    { destruct Hfill as [Hp|(_ & Hx)]; [exact Hp|discriminate Hx]. }
    constructor; unfold st_acquire; prj.
    + exists lo. split; [exact Hl|split; [exact Hlo|split; [exact Hcl|exact Hce]]].
    + split; [exact Hp|rewrite Hp; reflexivity].
    + exact Hcap.
    + lia.
    + exact Hshape.
    + intros Ht'. rewrite Ht in Ht'. discriminate Ht'.
    + exact Hfin.
    + exact Hwait.
    + exact Hcons.
    + exact Hn.
  - (* Send *)
    destruct (step_send _ _ _ _ Hs) as (f & Hf & Hlt & Hs').
    subst s'. clear Hs.
    assert (Ht : term_sent s = false).
    { destruct (term_sent s) eqn:Ht; [|reflexivity].
      destruct (Hterm eq_refl) as (Hf' & _). rewrite Hf in Hf'. discriminate Hf'. }
    rewrite Hf in Hfill. destruct Hfill as (Hfk & Hp). subst f.
    rewrite Ht in Hshape. cbn [andb] in Hshape. rewrite app_nil_r in Hshape.
    constructor; unfold st_send; prj.
    + exists lo. rewrite qids_app. cbn [qids]. rewrite app_assoc, Hl.
      split; [|split; [lia|split; [exact Hcl|exact Hce]]].
      replace (Datatypes.S k - lo) with (Datatypes.S (k - lo)) by lia.
      rewrite seq_S. f_equal. f_equal. lia.
    + left. exact Hp.
    + rewrite app_length. cbn [length]. lia.
    + exact Hle.
    + rewrite Ht. cbn [andb]. rewrite app_nil_r, qids_app, map_app. cbn [qids map].
      f_equal. exact Hshape.
    + intros Ht'. rewrite Ht in Ht'. discriminate Ht'.
    + intros Hfi. destruct (Hfin Hfi) as (Ht' & _). rewrite Ht in Ht'. discriminate Ht'.
    + exact Hwait.
    + exact Hcons.
    + exact Hn.
  - (* SendTerm, with or without an abandoned buffer *)
    destruct (step_sendterm _ _ _ _ Hs) as (Ht & Hp & Hlt & Hs').
    subst s'. clear Hs.
    assert (Hfi : finished s = false).
    { destruct (finished s) eqn:Hfi; [|reflexivity].
      destruct (Hfin eq_refl) as (Ht' & _). rewrite Ht in Ht'. discriminate Ht'. }
    rewrite Ht in Hshape. cbn [andb] in Hshape. rewrite app_nil_r in Hshape.
    constructor; unfold st_sendterm; prj.
    + exists lo. rewrite qids_app. cbn [qids]. rewrite app_nil_r.
      split; [exact Hl|split; [exact Hlo|split; [exact Hcl|exact Hce]]].
    + destruct (filling s) as [f|].
      * right. split; [exact (proj2 Hfill)|reflexivity].
      * rewrite Ht in Hfill. left.
        destruct Hfill as [Hp'|(_ & Hx)]; [exact Hp'|discriminate Hx].
    + rewrite app_length. cbn [length]. lia.
    + exact Hle.
    + rewrite Hfi. cbn [andb negb]. rewrite qids_app. cbn [qids]. rewrite app_nil_r.
      f_equal. exact Hshape.
    + intros _. split; [reflexivity|exact Hp].
    + intros Hfi'. rewrite Hfi in Hfi'. discriminate Hfi'.
    + exact Hwait.
    + exact Hcons.
    + exact Hn.
  - (* RecvWait *)
    destruct (step_recvwait _ _ _ _ Hs) as (Hw & Hfi & Hs').
    subst s'. clear Hs.
    constructor; unfold st_recvwait; prj.
    + cbn [opt_list app length].
      destruct (held s) as [h|] eqn:Hh; cbn [opt_list app length] in Hl, Hcl, Hce.
      * destruct (k - lo) as [|m] eqn:Hm; [discriminate Hl|].
        cbn [seq] in Hl. injection Hl as Hh0 Hrest.
        exists (Datatypes.S lo).
        replace (k - Datatypes.S lo) with m by lia.
        split; [exact Hrest|split; [lia|split; [lia|]]].
        intros Hfa. specialize (Hce Hfa). lia.
      * exists lo.
        split; [exact Hl|split; [exact Hlo|split; [exact Hcl|exact Hce]]].
    + exact Hfill.
    + exact Hcap.
    + exact Hle.
    + exact Hshape.
    + exact Hterm.
    + intros Hfi'. rewrite Hfi in Hfi'. discriminate Hfi'.
    + intros _. split; [reflexivity|exact Hfi].
    + exact Hcons.
    + exact Hn.
  - (* Recv *)
    destruct (step_recv _ _ _ _ Hs) as (Hw & Hcase).
    clear Hs.
    destruct (Hwait Hw) as (Hh & Hfi).
    rewrite Hh in Hl, Hcl, Hce. cbn [opt_list app length] in Hl, Hcl, Hce.
    rewrite Hfi in Hshape. cbn [negb] in Hshape. rewrite andb_true_r in Hshape.
    destruct Hcase as [(q & r & Hq & Hs')|(r & Hq & Hs')]; subst s'.
    + (* a buffer *)
      rewrite Hq in Hl, Hshape, Hcap. cbn [qids app map length] in Hl, Hshape, Hcap.
      assert (Hk : q = lo /\ k - lo <> 0).
      { destruct (k - lo) as [|m]; [discriminate Hl|].
        cbn [seq] in Hl. injection Hl as Hk _. split; [exact Hk|discriminate]. }
      destruct Hk as (Hk & Hpos).
      constructor; unfold st_recv_buf; prj.
      * exists lo. cbn [opt_list app length].
        split; [exact Hl|split; [exact Hlo|]].
        destruct (failed s) eqn:Hfa.
        -- split; [lia|intros Hfa'; discriminate Hfa'].
        -- specialize (Hce eq_refl). rewrite app_length. cbn [length].
           split; [lia|intros _; lia].
      * exact Hfill.
      * lia.
      * exact Hle.
      * rewrite Hfi. cbn [negb]. rewrite andb_true_r.
        injection Hshape as Hshape. exact Hshape.
      * exact Hterm.
      * intros Hfi'. rewrite Hfi in Hfi'. discriminate Hfi'.
      * intros Hw'. discriminate Hw'.
      * destruct (failed s) eqn:Hfa; [exact Hcons|].
        specialize (Hce eq_refl).
        rewrite app_length. cbn [length].
        replace (length (consumed s) + 1) with (Datatypes.S (length (consumed s))) by lia.
        rewrite seq_S. rewrite <- Hcons. cbn [plus]. f_equal. f_equal. lia.
      * exact Hn.
    + (* the terminator *)
      rewrite Hq in Hl, Hshape, Hcap. cbn [qids] in Hl, Hshape.
      assert (Hr : r = [] /\ term_sent s = true).
      { destruct (qids r) as [|a l]; cbn [map app] in Hshape.
        - destruct (term_sent s).
          + injection Hshape as Hshape. split; [exact Hshape|reflexivity].
          + discriminate Hshape.
        - discriminate Hshape. }
      destruct Hr as (Hr & Ht). subst r.
      constructor; unfold st_recv_term; prj.
      * exists lo. rewrite Hh. cbn [qids opt_list app length].
        cbn [qids app] in Hl.
        split; [exact Hl|split; [exact Hlo|split; [exact Hcl|exact Hce]]].
      * exact Hfill.
      * cbn [length]. lia.
      * exact Hle.
      * rewrite Ht. reflexivity.
      * exact Hterm.
      * intros _. repeat split; [exact Ht|exact Hh].
      * intros Hw'. discriminate Hw'.
      * exact Hcons.
      * exact Hn.
  - (* Fail2 *)
    destruct (step_fail2 _ _ _ _ Hs) as (Hfi & Hfa & Hs').
    subst s'. clear Hs.
    constructor; unfold st_fail; prj.
    + exists lo.
      split; [exact Hl|split; [exact Hlo|split; [exact Hcl|]]].
      intros Hfa'. discriminate Hfa'.
    + exact Hfill.
    + exact Hcap.
    + exact Hle.
    + exact Hshape.
    + exact Hterm.
    + exact Hfin.
    + exact Hwait.
    + exact Hcons.
    + exact Hn.
Qed.

(* the number of Acquire events is [produced] *)
Lemma produced_step (S CAP : nat) (s : st) (e : ev) (s' : st) :
  step S CAP s e = Some s' -> produced s' = ev_inc Acquire e + produced s.
Proof.
  intros Hs. destruct e; unfold ev_inc; cbn [ev_eqb plus].
  - destruct (step_acquire _ _ _ _ Hs) as (_ & _ & _ & Hs'). subst s'. reflexivity.
  - destruct (step_send _ _ _ _ Hs) as (f & _ & _ & Hs'). subst s'. reflexivity.
  - destruct (step_sendterm _ _ _ _ Hs) as (_ & _ & _ & Hs'). subst s'. reflexivity.
  - destruct (step_recvwait _ _ _ _ Hs) as (_ & _ & Hs'). subst s'. reflexivity.
  - destruct (step_recv _ _ _ _ Hs) as (_ & [(q & r & _ & Hs')|(r & _ & Hs')]);
      subst s'; reflexivity.
  - destruct (step_fail2 _ _ _ _ Hs) as (_ & _ & Hs'). subst s'. reflexivity.
Qed.

(* invariant + acquire counter, from an arbitrary start *)
Lemma inv_run_gen (S CAP n : nat) (evs : list ev) (k : nat) (s0 s : st) :
  Inv CAP n k s0 -> run S CAP s0 evs = Some s ->
  Inv CAP n (n_sent evs + k) s /\ produced s = n_acquired evs + produced s0.
Proof.
  intros HI Hrun.
  apply (run_invariant_cnt S CAP
           (fun k a s => Inv CAP n k s /\ produced s = a)
           (fun k a s e s' H Hs =>
              conj (inv_step S CAP n k s e s' (proj1 H) Hs)
                   (eq_trans (produced_step S CAP s e s' Hs)
                             (f_equal (Nat.add (ev_inc Acquire e)) (proj2 H))))
           evs k (produced s0) s0 s (conj HI eq_refl) Hrun).
Qed.

Lemma inv_run (S CAP n : nat) (evs : list ev) (s : st) :
  run S CAP (init n) evs = Some s -> Inv CAP n (n_sent evs) s.
Proof.
  intros Hrun.
  destruct (inv_run_gen S CAP n evs 0 (init n) s (inv_init CAP n) Hrun) as (HI & _).
  rewrite Nat.add_0_r in HI. exact HI.
Qed.

Lemma produced_run (S CAP n : nat) (evs : list ev) (s : st) :
  run S CAP (init n) evs = Some s -> produced s = n_acquired evs.
Proof.
  intros Hrun.
  destruct (inv_run_gen S CAP n evs 0 (init n) s (inv_init CAP n) Hrun) as (_ & Hp).
  rewrite Hp. unfold init. prj. lia.
Qed.

(* ------------------------------------------------------------------ *)
(* The ring-window invariant (needs 0 < S only) and safety             *)
(* ------------------------------------------------------------------ *)

(* the last S buffers acquired are intact in the ring *)
Definition RingOk (S : nat) (s : st) : Prop :=
  forall i, i < produced s -> produced s <= i + S -> ring s (i mod S) = i.

Lemma ringok_init (S n : nat) : RingOk S (init n).
Proof.
  intros i Hi _. unfold init in Hi. prj_in Hi. lia.
Qed.

Lemma step_ring_same (S CAP : nat) (s : st) (e : ev) (s' : st) :
  e <> Acquire -> step S CAP s e = Some s' ->
  ring s' = ring s /\ produced s' = produced s.
Proof.
  intros He Hs. destruct e.
  - exfalso. apply He. reflexivity.
  - destruct (step_send _ _ _ _ Hs) as (k & _ & _ & Hs'). subst s'. split; reflexivity.
  - destruct (step_sendterm _ _ _ _ Hs) as (_ & _ & _ & Hs'). subst s'. split; reflexivity.
  - destruct (step_recvwait _ _ _ _ Hs) as (_ & _ & Hs'). subst s'. split; reflexivity.
  - destruct (step_recv _ _ _ _ Hs) as (_ & [(k & r & _ & Hs')|(r & _ & Hs')]);
      subst s'; split; reflexivity.
  - destruct (step_fail2 _ _ _ _ Hs) as (_ & _ & Hs'). subst s'. split; reflexivity.
Qed.

Lemma ringok_step (S CAP : nat) (s : st) (e : ev) (s' : st) :
  0 < S -> RingOk S s -> step S CAP s e = Some s' -> RingOk S s'.
Proof.
  intros HS Hr Hs.
  destruct (ev_eqb e Acquire) eqn:He.
  - assert (Ee : e = Acquire) by (destruct e; try discriminate He; reflexivity).
    subst e.
    destruct (step_acquire _ _ _ _ Hs) as (_ & _ & _ & Hs'). subst s'.
    unfold RingOk, st_acquire. prj.
    intros i Hi1 Hi2. unfold upd.
    destruct (Nat.eqb_spec (i mod S) (produced s mod S)) as [E|E].
    + destruct (Nat.eq_dec i (produced s)) as [Ei|Ei]; [symmetry; exact Ei|].
      exfalso.
      assert (A1 : i < produced s) by lia.
      assert (A2 : produced s < i + S) by lia.
      exact (mod_neq S i (produced s) HS A1 A2 E).
    + assert (Ei : i <> produced s) by (intros Ei; subst i; apply E; reflexivity).
      apply Hr; lia.
  - assert (Ne : e <> Acquire) by (intros Ee; subst e; discriminate He).
    destruct (step_ring_same S CAP s e s' Ne Hs) as (Hring & Hp).
    unfold RingOk. rewrite Hring, Hp. exact Hr.
Qed.

Lemma ringok_run (S CAP n : nat) (evs : list ev) (s : st) :
  0 < S -> run S CAP (init n) evs = Some s -> RingOk S s.
Proof.
  intros HS Hrun.
  apply (run_invariant S CAP (RingOk S)
           (fun s0 e s1 H0 H1 => ringok_step S CAP s0 e s1 HS H0 H1)
           evs (init n) s); [apply ringok_init|exact Hrun].
Qed.

Lemma inv_safe (S CAP n k : nat) (s : st) :
  CAP + 2 <= S -> Inv CAP n k s -> RingOk S s -> Safe S s.
Proof.
  intros HC HI Hr i Hi.
  destruct (inv_live_seq _ _ _ _ HI) as (lo & Hl & Hlo & Hp).
  pose proof (live_length_le s) as Hlen.
  pose proof (inv_cap _ _ _ _ HI) as Hcap.
  rewrite Hl in Hi. apply in_seq in Hi.
  rewrite Hl, seq_length in Hlen.
  (* the window: at most one buffer (the abandoned one) lies between the live
     ids and [produced]; the terminator then occupies a channel place *)
  assert (Hwin : produced s <= lo + CAP + 2).
  { destruct (filling s) as [f|] eqn:Hf; cbn [opt_list length] in *; [lia|].
    pose proof (inv_fill _ _ _ _ HI) as Hfill. rewrite Hf in Hfill.
    destruct Hfill as [Hpk|(Hpk & Ht)]; [lia|].
    destruct (inv_live _ _ _ _ HI) as (lo' & Hl' & Hlo' & _).
    unfold live in Hl. rewrite Hf in Hl. cbn [opt_list] in Hl.
    rewrite app_nil_r in Hl.
    assert (Hq : length (opt_list (held s)) + length (qids (queue s)) = k - lo).
    { rewrite <- app_length, Hl, seq_length. lia. }
    pose proof (qids_length (queue s)) as Hql.
    destruct (held s); cbn [opt_list length] in Hq; lia. }
  apply Hr; lia.
Qed.

(* ===== Theorem 1: safety for every schedule ===== *)
Theorem ring_safe (S CAP n : nat) (evs : list ev) (s : st) :
  CAP + 2 <= S ->
  run S CAP (init n) evs = Some s -> Safe S s.
Proof.
  intros HC Hrun.
  assert (HS : 0 < S) by lia.
  apply (inv_safe S CAP n (n_sent evs) s HC).
  - exact (inv_run S CAP n evs s Hrun).
  - exact (ringok_run S CAP n evs s HS Hrun).
Qed.

Corollary ring_safe_b (S CAP n : nat) (evs : list ev) (s : st) :
  CAP + 2 <= S ->
  run S CAP (init n) evs = Some s -> safe_b S s = true.
Proof.
  intros HC Hrun. apply safe_b_iff. exact (ring_safe S CAP n evs s HC Hrun).
Qed.

(* safety holds at every intermediate state too: every prefix of an accepted
   schedule is an accepted schedule *)
Lemma run_prefix (S CAP : nat) (a b : list ev) (s s' : st) :
  run S CAP s (a ++ b) = Some s' -> exists s1, run S CAP s a = Some s1.
Proof.
  rewrite run_app. intros H.
  destruct (run S CAP s a) as [s1|]; [exists s1; reflexivity|discriminate H].
Qed.

Corollary ring_safe_always (S CAP n : nat) (a b : list ev) (s : st) :
  CAP + 2 <= S ->
  run S CAP (init n) (a ++ b) = Some s ->
  exists s1, run S CAP (init n) a = Some s1 /\ Safe S s1.
Proof.
  intros HC Hrun.
  destruct (run_prefix S CAP a b (init n) s Hrun) as (s1 & H1).
  exists s1. split; [exact H1|exact (ring_safe S CAP n a s1 HC H1)].
Qed.

(* Safety of EVERY acquire, stated on the step: the write of an Acquire (also
   of the one whose buffer will later be abandoned) goes to a slot that holds
   no live buffer -- everything that was live before is intact afterwards. *)
Corollary ring_acquire_safe (S CAP n : nat) (evs : list ev) (s s' : st) :
  CAP + 2 <= S ->
  run S CAP (init n) evs = Some s -> step S CAP s Acquire = Some s' ->
  filling s' = Some (produced s) /\
  ring s' (produced s mod S) = produced s /\
  (forall i, In i (live s) -> ring s' (i mod S) = i /\ i mod S <> produced s mod S).
Proof.
  intros HC Hrun Hs.
  assert (Hrun' : run S CAP (init n) (evs ++ [Acquire]) = Some s').
  { rewrite run_app, Hrun. cbn [run]. rewrite Hs. reflexivity. }
  pose proof (ring_safe S CAP n _ s' HC Hrun') as Hsafe'.
  pose proof (ring_safe S CAP n _ s HC Hrun) as Hsafe.
  destruct (step_acquire _ _ _ _ Hs) as (Hf & _ & _ & Hs'). subst s'.
  split; [reflexivity|].
  assert (Hnew : ring (st_acquire S s) (produced s mod S) = produced s).
  { unfold st_acquire, upd. prj. rewrite Nat.eqb_refl. reflexivity. }
  split; [exact Hnew|].
  intros i Hi.
  assert (Hi' : In i (live (st_acquire S s))).
  { unfold live, st_acquire. prj. unfold live in Hi. rewrite Hf in Hi.
    cbn [opt_list] in Hi. rewrite app_nil_r in Hi.
    rewrite app_assoc. apply in_or_app. left. exact Hi. }
  pose proof (Hsafe' i Hi') as Hr.
  split; [exact Hr|].
  intros E. rewrite E, Hnew in Hr. subst i.
  (* the new id is not live before the acquire *)
  pose proof (inv_run S CAP n evs s Hrun) as HI.
  destruct (inv_live_seq _ _ _ _ HI) as (lo & Hl & _ & Hp).
  rewrite Hl, Hf in Hi. cbn [opt_list length] in Hi. apply in_seq in Hi.
  pose proof (inv_fill _ _ _ _ HI) as Hfill. rewrite Hf in Hfill.
  destruct (step_acquire _ _ _ _ Hs) as (_ & Ht & _ & _).
  destruct Hfill as [Hpk|(_ & Hx)]; [lia|]. rewrite Ht in Hx. discriminate Hx.
Qed.

(* ===== Theorem 2: in-order, gap-free, repeat-free consumption =====
   The buffers SENT by the producer are [seq 0 (n_sent evs)] (ids are handed
   out in order and every buffer is sent before the next one is acquired; an
   abandoned buffer is the last one and is never sent).  At EVERY reachable
   state the consumer has consumed a prefix of them, in order; as long as it
   has not failed, what it has consumed followed by what is in the channel is
   exactly what was sent; when both sides are done a consumer that did not
   fail has consumed exactly the sent buffers.  All [n] acquired buffers were
   sent, or all but the last one (the producer abandoned it). *)

(* what was sent = what was consumed ++ what is still in the channel *)
Lemma ring_sent_accounted (S CAP n : nat) (evs : list ev) (s : st) :
  run S CAP (init n) evs = Some s -> failed s = false ->
  consumed s ++ qids (queue s) = seq 0 (n_sent evs).
Proof.
  intros Hrun Hfa.
  pose proof (inv_run S CAP n evs s Hrun) as HI.
  destruct (inv_live _ _ _ _ HI) as (lo & Hl & Hlo & _ & Hce).
  specialize (Hce Hfa).
  rewrite (inv_cons _ _ _ _ HI), Hce.
  set (k := n_sent evs) in *.
  destruct (held s) as [h|]; cbn [opt_list app length] in *.
  - destruct (k - lo) as [|m] eqn:Hm; [discriminate Hl|].
    cbn [seq] in Hl. injection Hl as _ Hq. rewrite Hq.
    replace k with ((lo + 1) + m) by lia.
    rewrite (seq_app (lo + 1) m 0). f_equal. f_equal. lia.
  - rewrite Hl. replace k with ((lo + 0) + (k - lo)) at 2 by lia.
    rewrite (seq_app (lo + 0) (k - lo) 0). f_equal. f_equal. lia.
Qed.

Theorem ring_in_order (S CAP n : nat) (evs : list ev) (s : st) :
  run S CAP (init n) evs = Some s ->
  consumed s = seq 0 (length (consumed s)) /\
  length (consumed s) <= n_sent evs /\
  n_sent evs <= n_acquired evs <= n /\ n_acquired evs <= n_sent evs + 1 /\
  (failed s = false -> consumed s ++ qids (queue s) = seq 0 (n_sent evs)) /\
  (failed s = false -> final s = true -> consumed s = seq 0 (n_sent evs)) /\
  (final s = true -> n_acquired evs = n /\
                     (producer_abandoned evs = false -> n_sent evs = n) /\
                     (producer_abandoned evs = true -> n_sent evs + 1 = n)).
Proof.
  intros Hrun.
  pose proof (inv_run S CAP n evs s Hrun) as HI.
  pose proof (produced_run S CAP n evs s Hrun) as Hpa.
  pose proof (inv_live_seq _ _ _ _ HI) as (lo0 & _ & _ & Hpk).
  destruct HI as [Hlive Hfill Hcap Hle Hshape Hterm Hfin Hwait Hcons Hn].
  destruct Hlive as (lo & Hl & Hlo & Hcl & Hce).
  assert (Hlen : lo + length (opt_list (held s)) <= n_sent evs).
  { assert (Hll : length (opt_list (held s) ++ qids (queue s)) = n_sent evs - lo)
      by (rewrite Hl; apply seq_length).
    rewrite app_length in Hll. lia. }
  split; [exact Hcons|]. split; [lia|]. split; [lia|]. split; [lia|].
  split; [exact (ring_sent_accounted S CAP n evs s Hrun)|].
  split.
  - intros Hfa Hfinal.
    unfold final in Hfinal. apply andb_prop in Hfinal. destruct Hfinal as (Ht & Hfi).
    destruct (Hfin Hfi) as (_ & Hq & _ & _).
    pose proof (ring_sent_accounted S CAP n evs s Hrun Hfa) as Hacc.
    rewrite Hq in Hacc. cbn [qids] in Hacc. rewrite app_nil_r in Hacc. exact Hacc.
  - intros Hfinal.
    unfold final in Hfinal. apply andb_prop in Hfinal. destruct Hfinal as (Ht & Hfi).
    destruct (Hterm Ht) as (Hf & Hp).
    unfold producer_abandoned.
    split; [lia|]. split; intros Hab.
    + apply Nat.ltb_ge in Hab. lia.
    + apply Nat.ltb_lt in Hab. lia.
Qed.

(* for a producer that does not fail nothing changes: all [n] buffers *)
Corollary ring_in_order_no_abandon (S CAP n : nat) (evs : list ev) (s : st) :
  run S CAP (init n) evs = Some s ->
  failed s = false -> final s = true -> producer_abandoned evs = false ->
  consumed s = seq 0 n.
Proof.
  intros Hrun Hfa Hfinal Hab.
  destruct (ring_in_order S CAP n evs s Hrun) as (_ & _ & _ & _ & _ & Hc & Hn).
  destruct (Hn Hfinal) as (_ & Hs & _).
  rewrite <- (Hs Hab). exact (Hc Hfa Hfinal).
Qed.

(* the abandon is decided by the state in which the terminator is sent: the
   producer abandons exactly when it sends the terminator while holding a
   buffer; before the terminator is sent, [n_acquired - n_sent] is the number
   of buffers being filled *)
Lemma ring_filling_count (S CAP n : nat) (evs : list ev) (s : st) :
  run S CAP (init n) evs = Some s ->
  (term_sent s = false -> n_acquired evs = n_sent evs + length (opt_list (filling s))) /\
  (filling s <> None -> producer_abandoned evs = true).
Proof.
  intros Hrun.
  pose proof (inv_run S CAP n evs s Hrun) as HI.
  pose proof (produced_run S CAP n evs s Hrun) as Hpa.
  pose proof (inv_fill _ _ _ _ HI) as Hfill.
  split.
  - intros Ht. destruct (filling s) as [f|]; cbn [opt_list length].
    + lia.
    + destruct Hfill as [Hp|(_ & Hx)]; [lia|]. rewrite Ht in Hx. discriminate Hx.
  - intros Hne. unfold producer_abandoned. apply Nat.ltb_lt.
    destruct (filling s) as [f|]; [lia|]. exfalso. apply Hne. reflexivity.
Qed.

Lemma ring_abandon_step (S CAP n : nat) (evs : list ev) (s s' : st) :
  run S CAP (init n) evs = Some s -> step S CAP s SendTerm = Some s' ->
  producer_abandoned (evs ++ [SendTerm]) = is_some (filling s).
Proof.
  intros Hrun Hs.
  destruct (step_sendterm _ _ _ _ Hs) as (Ht & _).
  destruct (ring_filling_count S CAP n evs s Hrun) as (Hc & _).
  specialize (Hc Ht).
  unfold producer_abandoned, n_sent, n_acquired in *.
  rewrite !count_ev_app. cbn [count_ev filter ev_eqb length]. rewrite !Nat.add_0_r.
  destruct (filling s) as [f|]; cbn [opt_list length is_some] in *.
  - apply Nat.ltb_lt. lia.
  - apply Nat.ltb_ge. lia.
Qed.

(* ===== Theorem 5: a final state is clean ===== *)
Theorem ring_final_empty (S CAP n : nat) (evs : list ev) (s : st) :
  run S CAP (init n) evs = Some s -> final s = true ->
  queue s = [] /\ filling s = None /\ produced s = n /\ held s = None /\ live s = [].
Proof.
  intros Hrun Hfinal.
  pose proof (inv_run S CAP n evs s Hrun) as HI.
  unfold final in Hfinal. apply andb_prop in Hfinal. destruct Hfinal as (Ht & Hfi).
  destruct (inv_fin _ _ _ _ HI Hfi) as (_ & Hq & _ & Hh).
  destruct (inv_term _ _ _ _ HI Ht) as (Hf & Hp).
  pose proof (inv_n _ _ _ _ HI) as Hn.
  unfold live. rewrite Hq, Hf, Hh. cbn [opt_list qids app].
  repeat split; try reflexivity. lia.
Qed.

(* ------------------------------------------------------------------ *)
(* Enabledness                                                         *)
(* ------------------------------------------------------------------ *)

Lemma step_acquire_ok S CAP s :
  filling s = None -> term_sent s = false -> produced s < n_total s ->
  step S CAP s Acquire = Some (st_acquire S s).
Proof.
  intros Hf Ht Hlt. unfold step. rewrite Hf, Ht.
  destruct (Nat.ltb_spec (produced s) (n_total s)) as [_|Hge]; [reflexivity|lia].
Qed.

Lemma step_send_ok S CAP s k :
  filling s = Some k -> length (queue s) < CAP ->
  step S CAP s Send = Some (st_send k s).
Proof.
  intros Hf Hlt. unfold step. rewrite Hf.
  destruct (Nat.ltb_spec (length (queue s)) CAP) as [_|Hge]; [reflexivity|lia].
Qed.

Lemma step_sendterm_ok S CAP s :
  term_sent s = false -> produced s = n_total s ->
  length (queue s) < CAP ->
  step S CAP s SendTerm = Some (st_sendterm s).
Proof.
  intros Ht Hp Hlt. unfold step. rewrite Ht.
  destruct (Nat.eqb_spec (produced s) (n_total s)) as [_|Hne]; [|contradiction].
  destruct (Nat.ltb_spec (length (queue s)) CAP) as [_|Hge]; [reflexivity|lia].
Qed.

Lemma step_recvwait_ok S CAP s :
  waiting s = false -> finished s = false ->
  step S CAP s RecvWait = Some (st_recvwait s).
Proof.
  intros Hw Hfi. unfold step. rewrite Hw, Hfi. reflexivity.
Qed.

Lemma step_recv_buf_ok S CAP s k r :
  waiting s = true -> queue s = Some k :: r ->
  step S CAP s Recv = Some (st_recv_buf k r s).
Proof.
  intros Hw Hq. unfold step. rewrite Hw, Hq. reflexivity.
Qed.

Lemma step_recv_term_ok S CAP s r :
  waiting s = true -> queue s = None :: r ->
  step S CAP s Recv = Some (st_recv_term r s).
Proof.
  intros Hw Hq. unfold step. rewrite Hw, Hq. reflexivity.
Qed.

Lemma enabled_intro S CAP s e s' :
  step S CAP s e = Some s' -> In e (enabled S CAP s).
Proof.
  intros Hs. unfold enabled. apply filter_In. split.
  - unfold all_evs. destruct e; cbn [In]; tauto.
  - rewrite Hs. reflexivity.
Qed.

Lemma in_enabled S CAP s e :
  In e (enabled S CAP s) <-> step S CAP s e <> None.
Proof.
  split.
  - intros Hin. unfold enabled in Hin. apply filter_In in Hin.
    destruct Hin as (_ & Hsome). intros Hnone. rewrite Hnone in Hsome.
    discriminate Hsome.
  - intros Hne. destruct (step S CAP s e) as [s'|] eqn:Hs.
    + exact (enabled_intro S CAP s e s' Hs).
    + exfalso. apply Hne. reflexivity.
Qed.

(* ===== Theorem 3: no deadlock (progress without failing) ===== *)
Lemma no_deadlock_inv (S CAP n k : nat) (s : st) :
  1 <= CAP -> Inv CAP n k s -> final s = false ->
  exists e, e <> Fail2 /\ In e (enabled S CAP s).
Proof.
  intros HC HI Hnf.
  destruct HI as [Hlive Hfill Hcap Hle Hshape Hterm Hfin Hwait Hcons Hn].
  destruct (finished s) eqn:Hfi.
  { (* consumer finished: then the terminator was sent, so the state is final *)
    destruct (Hfin eq_refl) as (Ht & _).
    unfold final in Hnf. rewrite Ht, Hfi in Hnf. discriminate Hnf. }
  destruct (waiting s) eqn:Hw.
  2:{ exists RecvWait. split; [discriminate|].
      apply (enabled_intro S CAP s RecvWait (st_recvwait s)).
      apply step_recvwait_ok; assumption. }
  destruct (queue s) as [|x r] eqn:Hq.
  2:{ exists Recv. split; [discriminate|].
      destruct x as [q|].
      - apply (enabled_intro S CAP s Recv (st_recv_buf q r s)).
        apply step_recv_buf_ok; assumption.
      - apply (enabled_intro S CAP s Recv (st_recv_term r s)).
        apply step_recv_term_ok; assumption. }
  (* consumer blocked on an empty channel: the producer can move *)
  destruct (filling s) as [f|] eqn:Hf.
  { exists Send. split; [discriminate|].
    apply (enabled_intro S CAP s Send (st_send f s)).
    apply step_send_ok; [exact Hf|rewrite Hq; cbn [length]; lia]. }
  destruct (term_sent s) eqn:Ht.
  { (* terminator sent, not received, channel empty: impossible *)
    cbn [qids map negb andb app] in Hshape. discriminate Hshape. }
  destruct (Nat.lt_ge_cases (produced s) (n_total s)) as [Hlt|Hge].
  - exists Acquire. split; [discriminate|].
    apply (enabled_intro S CAP s Acquire (st_acquire S s)).
    apply step_acquire_ok; assumption.
  - exists SendTerm. split; [discriminate|].
    apply (enabled_intro S CAP s SendTerm (st_sendterm s)).
    apply step_sendterm_ok; [exact Ht|lia|rewrite Hq; cbn [length]; lia].
Qed.

Theorem ring_no_deadlock (S CAP n : nat) (evs : list ev) (s : st) :
  1 <= CAP ->
  run S CAP (init n) evs = Some s -> final s = false ->
  exists e, e <> Fail2 /\ In e (enabled S CAP s).
Proof.
  intros HC Hrun Hnf.
  exact (no_deadlock_inv S CAP n (n_sent evs) s HC (inv_run S CAP n evs s Hrun) Hnf).
Qed.

(* Progress of each side separately, whatever the producer intends to do with
   the buffer it holds (send it, or -- if it is the last one -- abandon it):
   a producer that is not done can make EACH of the moves its control state
   allows unless the channel is full, and then the consumer can move; a
   consumer that is not done can move unless it waits on an empty channel, and
   then the producer can move. *)
Theorem ring_progress_each (S CAP n : nat) (evs : list ev) (s : st) :
  1 <= CAP ->
  run S CAP (init n) evs = Some s ->
  (term_sent s = false ->
     (length (queue s) < CAP ->
        (forall f, filling s = Some f -> In Send (enabled S CAP s)) /\
        (filling s = None -> produced s < n -> In Acquire (enabled S CAP s)) /\
        (produced s = n -> In SendTerm (enabled S CAP s))) /\
     (length (queue s) = CAP ->
        In RecvWait (enabled S CAP s) \/ In Recv (enabled S CAP s))) /\
  (finished s = false ->
     In RecvWait (enabled S CAP s) \/ In Recv (enabled S CAP s) \/
     (waiting s = true /\ queue s = [] /\ term_sent s = false)).
Proof.
  intros HC Hrun.
  pose proof (inv_run S CAP n evs s Hrun) as HI.
  destruct HI as [Hlive Hfill Hcap Hle Hshape Hterm Hfin Hwait Hcons Hn].
  assert (Hcons_side : finished s = false -> queue s <> [] ->
            In RecvWait (enabled S CAP s) \/ In Recv (enabled S CAP s)).
  { intros Hfi Hq.
    destruct (waiting s) eqn:Hw.
    - right. destruct (queue s) as [|[q|] r] eqn:Hq'; [contradiction| |].
      + apply (enabled_intro S CAP s Recv (st_recv_buf q r s)).
        apply step_recv_buf_ok; assumption.
      + apply (enabled_intro S CAP s Recv (st_recv_term r s)).
        apply step_recv_term_ok; assumption.
    - left. apply (enabled_intro S CAP s RecvWait (st_recvwait s)).
      apply step_recvwait_ok; assumption. }
  split.
  - intros Ht. split.
    + intros Hlt. split; [|split].
      * intros f Hf. apply (enabled_intro S CAP s Send (st_send f s)).
        apply step_send_ok; assumption.
      * intros Hf Hlt'. apply (enabled_intro S CAP s Acquire (st_acquire S s)).
        apply step_acquire_ok; [exact Hf|exact Ht|lia].
      * intros Hp. apply (enabled_intro S CAP s SendTerm (st_sendterm s)).
        apply step_sendterm_ok; [exact Ht|lia|exact Hlt].
    + intros Hfull. apply Hcons_side.
      * destruct (finished s) eqn:Hfi; [|reflexivity].
        destruct (Hfin eq_refl) as (Ht' & _). rewrite Ht in Ht'. discriminate Ht'.
      * intros Hq. rewrite Hq in Hfull. cbn [length] in Hfull. lia.
  - intros Hfi.
    destruct (queue s) as [|x r] eqn:Hq.
    + destruct (waiting s) eqn:Hw.
      * right. right. split; [reflexivity|]. split; [reflexivity|].
        destruct (term_sent s) eqn:Ht; [|reflexivity].
        rewrite Hfi in Hshape. cbn [qids map negb andb app] in Hshape.
        discriminate Hshape.
      * left. apply (enabled_intro S CAP s RecvWait (st_recvwait s)).
        apply step_recvwait_ok; assumption.
    + rewrite <- Hq in *.
      destruct (Hcons_side Hfi) as [H|H]; [rewrite Hq; discriminate| |].
      * left. exact H.
      * right. left. exact H.
Qed.

Corollary ring_no_deadlock_nonempty (S CAP n : nat) (evs : list ev) (s : st) :
  1 <= CAP ->
  run S CAP (init n) evs = Some s -> final s = false ->
  enabled S CAP s <> [].
Proof.
  intros HC Hrun Hnf Hnil.
  destruct (ring_no_deadlock S CAP n evs s HC Hrun Hnf) as (e & _ & Hin).
  rewrite Hnil in Hin. exact Hin.
Qed.

(* conversely, nothing is enabled in a final state *)
Lemma final_no_step (S CAP n : nat) (evs : list ev) (s : st) :
  run S CAP (init n) evs = Some s -> final s = true -> enabled S CAP s = [].
Proof.
  intros Hrun Hfinal.
  pose proof (inv_run S CAP n evs s Hrun) as HI.
  unfold final in Hfinal. apply andb_prop in Hfinal. destruct Hfinal as (Ht & Hfi).
  destruct (inv_fin _ _ _ _ HI Hfi) as (_ & Hq & Hw & _).
  destruct (inv_term _ _ _ _ HI Ht) as (Hf & _).
  unfold enabled, all_evs, step. rewrite Ht, Hfi, Hw, Hf. reflexivity.
Qed.

(* ------------------------------------------------------------------ *)
(* Termination measure                                                 *)
(* ------------------------------------------------------------------ *)

(* messages the consumer may still have to receive (buffers + terminator); an
   upper bound: a buffer being filled is counted although it may be abandoned *)
Definition pending (s : st) : nat :=
  length (queue s) + length (opt_list (filling s)) + (n_total s - produced s) +
  (if term_sent s then 0 else 1).

(* producer steps left (at most): Acquire and Send for each missing buffer,
   SendTerm *)
Definition mu_prod (s : st) : nat :=
  if term_sent s then 0
  else 2 * (n_total s - produced s) + length (opt_list (filling s)) + 1.

(* consumer steps left: RecvWait and Recv for each pending message *)
Definition mu_cons (s : st) : nat :=
  if finished s then 0
  else 2 * pending s - (if waiting s then 1 else 0).

Definition mu (s : st) : nat := mu_prod s + mu_cons s.

(* counting the (single) possible Fail2 as well *)
Definition mu_all (s : st) : nat := mu s + (if failed s then 0 else 1).

Lemma mu_init (n : nat) : mu (init n) = 4 * n + 3.
Proof.
  unfold mu, mu_prod, mu_cons, pending, init. prj. cbn [opt_list length]. lia.
Qed.

Lemma mu_all_init (n : nat) : mu_all (init n) = 4 * n + 4.
Proof.
  unfold mu_all. rewrite mu_init. unfold init. prj. lia.
Qed.

Lemma pending_pos (CAP n k : nat) (s : st) :
  Inv CAP n k s -> finished s = false -> 1 <= pending s.
Proof.
  intros HI Hfi. unfold pending.
  destruct (term_sent s) eqn:Ht; [|lia].
  pose proof (inv_shape _ _ _ _ HI) as Hshape.
  rewrite Ht, Hfi in Hshape. cbn [andb negb] in Hshape.
  apply (f_equal (@length (option nat))) in Hshape.
  rewrite app_length in Hshape. cbn [length] in Hshape. lia.
Qed.

Lemma mu_step (S CAP n k : nat) (s : st) (e : ev) (s' : st) :
  Inv CAP n k s -> step S CAP s e = Some s' -> e <> Fail2 -> mu s' < mu s.
Proof.
  intros HI Hs He.
  unfold mu, mu_prod, mu_cons, pending.
  destruct e.
  - destruct (step_acquire _ _ _ _ Hs) as (Hf & Ht & Hlt & Hs'). subst s'.
    unfold st_acquire. prj. rewrite Hf, Ht. cbn [opt_list length].
    destruct (finished s), (waiting s); lia.
  - destruct (step_send _ _ _ _ Hs) as (f & Hf & Hlt & Hs'). subst s'.
    unfold st_send. prj. rewrite Hf, app_length. cbn [opt_list length].
    assert (Ht : term_sent s = false).
    { destruct (term_sent s) eqn:Ht; [|reflexivity].
      destruct (inv_term _ _ _ _ HI Ht) as (Hf' & _). rewrite Hf in Hf'. discriminate Hf'. }
    rewrite Ht.
    destruct (finished s), (waiting s); lia.
  - destruct (step_sendterm _ _ _ _ Hs) as (Ht & Hp & Hlt & Hs'). subst s'.
    unfold st_sendterm. prj. rewrite Ht, app_length. cbn [opt_list length].
    destruct (filling s) as [f|]; cbn [opt_list length];
      destruct (finished s), (waiting s); lia.
  - destruct (step_recvwait _ _ _ _ Hs) as (Hw & Hfi & Hs'). subst s'.
    pose proof (pending_pos CAP n k s HI Hfi) as Hpos. unfold pending in Hpos.
    unfold st_recvwait. prj. rewrite Hw, Hfi.
    destruct (term_sent s); lia.
  - destruct (step_recv _ _ _ _ Hs) as (Hw & Hcase).
    destruct (inv_wait _ _ _ _ HI Hw) as (_ & Hfi).
    destruct Hcase as [(q & r & Hq & Hs')|(r & Hq & Hs')]; subst s'.
    + unfold st_recv_buf. prj. rewrite Hw, Hfi, Hq. cbn [length].
      destruct (term_sent s); lia.
    + unfold st_recv_term. prj. rewrite Hw, Hfi, Hq. cbn [length].
      destruct (term_sent s); lia.
  - exfalso. apply He. reflexivity.
Qed.

Lemma mu_all_step (S CAP n k : nat) (s : st) (e : ev) (s' : st) :
  Inv CAP n k s -> step S CAP s e = Some s' -> mu_all s' < mu_all s.
Proof.
  intros HI Hs.
  destruct (ev_eqb e Fail2) eqn:Hb.
  - assert (Ee : e = Fail2) by (destruct e; try discriminate Hb; reflexivity).
    subst e.
    destruct (step_fail2 _ _ _ _ Hs) as (Hfi & Hfa & Hs'). subst s'.
    unfold mu_all, mu, mu_prod, mu_cons, pending, st_fail. prj. rewrite Hfa. lia.
  - assert (Ne : e <> Fail2) by (intros Ee; subst e; discriminate Hb).
    pose proof (mu_step S CAP n k s e s' HI Hs Ne) as Hlt.
    assert (Hfa : failed s' = failed s).
    { destruct e.
      - destruct (step_acquire _ _ _ _ Hs) as (_ & _ & _ & Hs'). subst s'. reflexivity.
      - destruct (step_send _ _ _ _ Hs) as (f & _ & _ & Hs'). subst s'. reflexivity.
      - destruct (step_sendterm _ _ _ _ Hs) as (_ & _ & _ & Hs'). subst s'. reflexivity.
      - destruct (step_recvwait _ _ _ _ Hs) as (_ & _ & Hs'). subst s'. reflexivity.
      - destruct (step_recv _ _ _ _ Hs) as (_ & [(q & r & _ & Hs')|(r & _ & Hs')]);
          subst s'; reflexivity.
      - exfalso. apply Ne. reflexivity. }
    unfold mu_all. rewrite Hfa. lia.
Qed.

Lemma run_bound_gen (S CAP n : nat) (evs : list ev) :
  forall k s s', Inv CAP n k s -> run S CAP s evs = Some s' ->
               length evs + mu_all s' <= mu_all s.
Proof.
  induction evs as [|e evs IH]; intros k s s' HI Hrun.
  - cbn [run] in Hrun. injection Hrun as Hrun. subst s'. cbn [length]. lia.
  - cbn [run] in Hrun.
    destruct (step S CAP s e) as [s1|] eqn:Hs; [|discriminate Hrun].
    pose proof (mu_all_step S CAP n k s e s1 HI Hs) as Hlt.
    pose proof (IH _ s1 s' (inv_step S CAP n k s e s1 HI Hs) Hrun) as Hrec.
    cbn [length]. lia.
Qed.

(* ===== Theorem 4: termination, with an explicit bound ===== *)

(* (a) the measure [mu] strictly decreases along every non-Fail2 step taken
       from a reachable state (and [mu_all] along every step whatsoever) *)
Theorem ring_mu_decreases (S CAP n : nat) (evs : list ev) (s : st) (e : ev) (s' : st) :
  run S CAP (init n) evs = Some s ->
  step S CAP s e = Some s' ->
  (e <> Fail2 -> mu s' < mu s) /\ mu_all s' < mu_all s.
Proof.
  intros Hrun Hs.
  pose proof (inv_run S CAP n evs s Hrun) as HI.
  split.
  - intros He. exact (mu_step S CAP n _ s e s' HI Hs He).
  - exact (mu_all_step S CAP n _ s e s' HI Hs).
Qed.

(* (b) any accepted schedule has at most 4*n + 4 events (Fail2 included) *)
Theorem ring_terminates (S CAP n : nat) (evs : list ev) (s : st) :
  run S CAP (init n) evs = Some s ->
  length evs + mu_all s <= 4 * n + 4 /\ length evs <= 4 * n + 4.
Proof.
  intros Hrun.
  pose proof (run_bound_gen S CAP n evs 0 (init n) s (inv_init CAP n) Hrun) as Hb.
  rewrite mu_all_init in Hb. lia.
Qed.

(* (c) Fail2 occurs at most once in an accepted schedule *)
Definition count_fail2 (evs : list ev) : nat := length (filter (ev_eqb Fail2) evs).

Lemma fail2_count_gen (S CAP : nat) (evs : list ev) :
  forall s s', run S CAP s evs = Some s' ->
               count_fail2 evs + (if failed s' then 0 else 1) <= (if failed s then 0 else 1).
Proof.
  induction evs as [|e evs IH]; intros s s' Hrun.
  - cbn [run] in Hrun. injection Hrun as Hrun. subst s'. cbn. lia.
  - cbn [run] in Hrun.
    destruct (step S CAP s e) as [s1|] eqn:Hs; [|discriminate Hrun].
    pose proof (IH s1 s' Hrun) as Hrec.
    unfold count_fail2 in *. cbn [filter].
    destruct e; cbn [ev_eqb length].
    + destruct (step_acquire _ _ _ _ Hs) as (_ & _ & _ & Hs'). subst s1. exact Hrec.
    + destruct (step_send _ _ _ _ Hs) as (k & _ & _ & Hs'). subst s1. exact Hrec.
    + destruct (step_sendterm _ _ _ _ Hs) as (_ & _ & _ & Hs'). subst s1. exact Hrec.
    + destruct (step_recvwait _ _ _ _ Hs) as (_ & _ & Hs'). subst s1. exact Hrec.
    + destruct (step_recv _ _ _ _ Hs) as (_ & [(k & r & _ & Hs')|(r & _ & Hs')]);
        subst s1; exact Hrec.
    + destruct (step_fail2 _ _ _ _ Hs) as (_ & Hfa & Hs'). subst s1.
      rewrite Hfa. unfold st_fail in Hrec. prj_in Hrec. lia.
Qed.

Theorem ring_fail2_once (S CAP n : nat) (evs : list ev) (s : st) :
  run S CAP (init n) evs = Some s -> count_fail2 evs <= 1.
Proof.
  intros Hrun. pose proof (fail2_count_gen S CAP evs (init n) s Hrun) as H.
  change (failed (init n)) with false in H. cbv iota in H.
  destruct (failed s); lia.
Qed.

(* (d) both stages can always run to completion: from every reachable state
       -- whoever has failed so far: nobody, the consumer (Fail2), the producer
       (terminator sent with a buffer withheld), or both in either order --
       some continuation without a further failure reaches a final state, and
       (by (a), (b) and [ring_no_deadlock]) every continuation that is carried
       on long enough does *)
Lemma can_finish_inv (S CAP n : nat) :
  1 <= CAP ->
  forall m k s, Inv CAP n k s -> mu s <= m ->
    exists evs' s', run S CAP s evs' = Some s' /\ final s' = true /\
                    count_fail2 evs' = 0 /\ length evs' <= mu s.
Proof.
  intros HC m.
  induction m as [|m IH]; intros k s HI Hm.
  - destruct (final s) eqn:Hfinal.
    + exists [], s. cbn [run length]. repeat split; [exact Hfinal|lia].
    + exfalso.
      destruct (no_deadlock_inv S CAP n k s HC HI Hfinal) as (e & Hne & Hin).
      apply in_enabled in Hin.
      destruct (step S CAP s e) as [s1|] eqn:Hs; [|apply Hin; reflexivity].
      pose proof (mu_step S CAP n k s e s1 HI Hs Hne). lia.
  - destruct (final s) eqn:Hfinal.
    + exists [], s. cbn [run length]. repeat split; [exact Hfinal|lia].
    + destruct (no_deadlock_inv S CAP n k s HC HI Hfinal) as (e & Hne & Hin).
      apply in_enabled in Hin.
      destruct (step S CAP s e) as [s1|] eqn:Hs; [|exfalso; apply Hin; reflexivity].
      pose proof (mu_step S CAP n k s e s1 HI Hs Hne) as Hlt.
      destruct (IH _ s1 (inv_step S CAP n k s e s1 HI Hs) ltac:(lia))
        as (evs1 & s' & Hrun1 & Hfin1 & Hc1 & Hlen1).
      exists (e :: evs1), s'. cbn [run length]. rewrite Hs.
      split; [exact Hrun1|]. split; [exact Hfin1|]. split; [|lia].
      unfold count_fail2 in *. cbn [filter].
      destruct e; cbn [ev_eqb]; try exact Hc1. exfalso. apply Hne. reflexivity.
Qed.

Theorem ring_can_finish (S CAP n : nat) (evs : list ev) (s : st) :
  1 <= CAP ->
  run S CAP (init n) evs = Some s ->
  exists evs' s', run S CAP (init n) (evs ++ evs') = Some s' /\ final s' = true /\
                  count_fail2 evs' = 0 /\ length evs' <= mu s.
Proof.
  intros HC Hrun.
  destruct (can_finish_inv S CAP n HC (mu s) (n_sent evs) s
              (inv_run S CAP n evs s Hrun) (le_n _))
    as (evs' & s' & Hrun' & Hfin & Hc & Hlen).
  exists evs', s'. rewrite run_app, Hrun. repeat split; assumption.
Qed.

(* a run that cannot be extended has ended properly *)
Corollary ring_maximal_is_final (S CAP n : nat) (evs : list ev) (s : st) :
  1 <= CAP ->
  run S CAP (init n) evs = Some s -> enabled S CAP s = [] -> final s = true.
Proof.
  intros HC Hrun Hnil.
  destruct (final s) eqn:Hfinal; [reflexivity|].
  exfalso. exact (ring_no_deadlock_nonempty S CAP n evs s HC Hrun Hfinal Hnil).
Qed.

(* ------------------------------------------------------------------ *)
(* The converse: S < CAP + 2 is unsafe                                 *)
(* ------------------------------------------------------------------ *)

Lemma run_cons (S CAP : nat) (s s1 : st) (e : ev) (r : list ev) :
  step S CAP s e = Some s1 -> run S CAP s (e :: r) = run S CAP s1 r.
Proof.
  intros Hs. cbn [run]. rewrite Hs. reflexivity.
Qed.

(* m rounds of Acquire; Send by an unobstructed producer *)
Lemma run_fill (S CAP : nat) (m : nat) :
  forall s,
    filling s = None -> term_sent s = false ->
    produced s + m <= n_total s -> length (queue s) + m <= CAP ->
    exists s', run S CAP s (rep_evs m [Acquire; Send]) = Some s' /\
               produced s' = produced s + m /\ filling s' = None /\
               term_sent s' = false /\ length (queue s') = length (queue s) + m /\
               held s' = held s /\ n_total s' = n_total s.
Proof.
  induction m as [|m IH]; intros s Hf Ht Hp Hq.
  - exists s. cbn [rep_evs run].
    split; [reflexivity|]. split; [lia|]. split; [exact Hf|]. split; [exact Ht|].
    split; [lia|]. split; reflexivity.
  - cbn [rep_evs app].
    set (s1 := st_acquire S s).
    set (s2 := st_send (produced s) s1).
    assert (H1 : step S CAP s Acquire = Some s1).
    { apply step_acquire_ok; [exact Hf|exact Ht|lia]. }
    assert (H2 : step S CAP s1 Send = Some s2).
    { apply step_send_ok; [reflexivity|]. unfold s1, st_acquire. prj. lia. }
    rewrite (run_cons S CAP s s1 Acquire _ H1).
    rewrite (run_cons S CAP s1 s2 Send _ H2).
    assert (Hp2 : produced s2 = Datatypes.S (produced s)) by reflexivity.
    assert (Hq2 : length (queue s2) = length (queue s) + 1).
    { unfold s2, s1, st_send, st_acquire. prj. rewrite app_length. reflexivity. }
    assert (Hn2 : n_total s2 = n_total s) by reflexivity.
    assert (Hh2 : held s2 = held s) by reflexivity.
    destruct (IH s2) as (s' & Hrun & Hp' & Hf' & Ht' & Hq' & Hh' & Hn').
    + reflexivity.
    + exact Ht.
    + rewrite Hp2, Hn2. lia.
    + rewrite Hq2. lia.
    + exists s'. split; [exact Hrun|].
      rewrite Hp', Hq', Hh', Hn', Hp2, Hq2, Hh2, Hn2.
      repeat split; try assumption; lia.
Qed.

(* the bad schedule is accepted whenever 1 <= S <= CAP + 1, 1 <= CAP and the
   run has at least S + 1 buffers; at its end the consumer still holds
   buffer 0 while slot 0 contains buffer S *)
Lemma bad_schedule_run (S CAP n : nat) :
  0 < S -> 1 <= CAP -> S < CAP + 2 -> S + 1 <= n ->
  exists s, run S CAP (init n) (bad_schedule S CAP) = Some s /\
            held s = Some 0 /\ ring s 0 = S.
Proof.
  intros HS HC HSC Hn.
  unfold bad_schedule.
  set (s1 := st_acquire S (init n)).
  set (s2 := st_send 0 s1).
  set (s3 := st_recvwait s2).
  set (s4 := st_recv_buf 0 [] s3).
  assert (H1 : step S CAP (init n) Acquire = Some s1).
  { apply step_acquire_ok; [reflexivity|reflexivity|]. unfold init. prj. lia. }
  assert (H2 : step S CAP s1 Send = Some s2).
  { apply step_send_ok; [reflexivity|]. unfold s1, st_acquire, init. prj. cbn [length]. lia. }
  assert (H3 : step S CAP s2 RecvWait = Some s3).
  { apply step_recvwait_ok; reflexivity. }
  assert (H4 : step S CAP s3 Recv = Some s4).
  { apply step_recv_buf_ok; reflexivity. }
  rewrite run_app.
  rewrite (run_cons S CAP _ _ _ _ H1), (run_cons S CAP _ _ _ _ H2),
          (run_cons S CAP _ _ _ _ H3), (run_cons S CAP _ _ _ _ H4).
  cbn [run].
  assert (Hp4 : produced s4 = 1) by reflexivity.
  assert (Hq4 : length (queue s4) = 0) by reflexivity.
  assert (Hn4 : n_total s4 = n) by reflexivity.
  assert (Hh4 : held s4 = Some 0) by reflexivity.
  destruct (run_fill S CAP (S - 1) s4) as (s5 & Hrun & Hp5 & Hf5 & Ht5 & _ & Hh5 & Hn5).
  { reflexivity. }
  { reflexivity. }
  { rewrite Hp4, Hn4. lia. }
  { rewrite Hq4. lia. }
  rewrite run_app, Hrun.
  assert (Hp5' : produced s5 = S) by (rewrite Hp5, Hp4; lia).
  assert (H6 : step S CAP s5 Acquire = Some (st_acquire S s5)).
  { apply step_acquire_ok; [exact Hf5|exact Ht5|]. rewrite Hp5', Hn5, Hn4. lia. }
  rewrite (run_cons S CAP _ _ _ _ H6). cbn [run].
  exists (st_acquire S s5). split; [reflexivity|].
  unfold st_acquire. prj. split.
  - rewrite Hh5. exact Hh4.
  - unfold upd. rewrite Hp5', Nat.mod_same by lia. reflexivity.
Qed.

(* ===== Theorem 6: the bound CAP + 2 <= S is tight =====
   NOTE the extra hypothesis 1 <= CAP compared to the naive statement: with
   CAP = 0 this model's channel never accepts a message (there is no
   rendez-vous), nothing is ever received, and every reachable state is safe
   for every S >= 1 (see [ring_cap0_safe] below), although S = 1 < 0 + 2. *)
Theorem Ring_refuted (S CAP : nat) :
  0 < S -> 1 <= CAP -> S < CAP + 2 ->
  exists s, run S CAP (init (CAP + 2)) (bad_schedule S CAP) = Some s /\ ~ Safe S s.
Proof.
  intros HS HC HSC.
  destruct (bad_schedule_run S CAP (CAP + 2) HS HC HSC ltac:(lia)) as (s & Hrun & Hh & Hr).
  exists s. split; [exact Hrun|].
  intros Hsafe.
  assert (Hin : In 0 (live s)).
  { unfold live. rewrite Hh. cbn [opt_list app In]. left. reflexivity. }
  specialize (Hsafe 0 Hin).
  rewrite Nat.mod_0_l in Hsafe by lia.
  rewrite Hr in Hsafe. lia.
Qed.

Corollary Ring_refuted_ex (S CAP : nat) :
  0 < S -> 1 <= CAP -> S < CAP + 2 ->
  exists evs s n, run S CAP (init n) evs = Some s /\ ~ Safe S s.
Proof.
  intros HS HC HSC.
  destruct (Ring_refuted S CAP HS HC HSC) as (s & Hrun & Hns).
  exists (bad_schedule S CAP), s, (CAP + 2). split; [exact Hrun|exact Hns].
Qed.

(* The excluded corner: CAP = 0.  Nothing can ever be sent. *)
Lemma cap0_step (S : nat) (s : st) (e : ev) (s' : st) :
  queue s = [] /\ held s = None -> step S 0 s e = Some s' ->
  queue s' = [] /\ held s' = None.
Proof.
  intros (Hq & Hh) Hs. destruct e.
  - destruct (step_acquire _ _ _ _ Hs) as (_ & _ & _ & Hs'). subst s'.
    split; assumption.
  - destruct (step_send _ _ _ _ Hs) as (k & _ & Hlt & _). lia.
  - destruct (step_sendterm _ _ _ _ Hs) as (_ & _ & Hlt & _). lia.
  - destruct (step_recvwait _ _ _ _ Hs) as (_ & _ & Hs'). subst s'.
    split; [exact Hq|reflexivity].
  - destruct (step_recv _ _ _ _ Hs) as (_ & [(k & r & Hq' & _)|(r & Hq' & _)]);
      rewrite Hq in Hq'; discriminate Hq'.
  - destruct (step_fail2 _ _ _ _ Hs) as (_ & _ & Hs'). subst s'.
    split; assumption.
Qed.

Theorem ring_cap0_safe (S n : nat) (evs : list ev) (s : st) :
  0 < S -> run S 0 (init n) evs = Some s -> Safe S s.
Proof.
  intros HS Hrun.
  pose proof (inv_run S 0 n evs s Hrun) as HI.
  pose proof (ringok_run S 0 n evs s HS Hrun) as Hr.
  assert (H0 : queue s = [] /\ held s = None).
  { apply (run_invariant S 0 (fun s0 => queue s0 = [] /\ held s0 = None)
             (cap0_step S) evs (init n) s); [split; reflexivity|exact Hrun]. }
  destruct H0 as (Hq & Hh).
  pose proof (inv_fill _ _ _ _ HI) as Hfill.
  intros i Hi.
  unfold live in Hi. rewrite Hq, Hh in Hi. cbn [opt_list qids app] in Hi.
  destruct (filling s) as [f|]; cbn [opt_list In] in Hi; [|contradiction].
  destruct Hi as [Hi|[]]. subst i. destruct Hfill as (Hf & Hp).
  apply Hr; lia.
Qed.

(* Summary: for S >= 1 the model is safe for every schedule exactly when
   CAP = 0 or CAP + 2 <= S. *)
Theorem ring_safe_iff (S CAP : nat) :
  0 < S ->
  ((forall n evs s, run S CAP (init n) evs = Some s -> Safe S s) <->
   (CAP = 0 \/ CAP + 2 <= S)).
Proof.
  intros HS. split.
  - intros Hall.
    destruct (Nat.eq_dec CAP 0) as [H0|H0]; [left; exact H0|].
    destruct (Nat.le_gt_cases (CAP + 2) S) as [Hle|Hgt]; [right; exact Hle|].
    exfalso.
    destruct (Ring_refuted S CAP HS ltac:(lia) Hgt) as (s & Hrun & Hns).
    apply Hns. exact (Hall (CAP + 2) (bad_schedule S CAP) s Hrun).
  - intros [H0|Hle] n evs s Hrun.
    + subst CAP. exact (ring_cap0_safe S n evs s HS Hrun).
    + exact (ring_safe S CAP n evs s Hle Hrun).
Qed.

(* ------------------------------------------------------------------ *)
(* Concrete runs (non-vacuity), by computation                         *)
(* ------------------------------------------------------------------ *)

(* The code's parameters: S = 16 slots, channel capacity 14, 40 buffers.
   Lagging consumer: the producer runs until it blocks, then the consumer makes
   one step, and so on.  The schedule is accepted, ends in a final state, every
   visited state is safe and exactly 0..39 were consumed. *)
Definition lagging_schedule : list ev := greedy 16 14 producer_first 1000 (init 40).

Example lagging_run_ok : check_run 16 14 40 lagging_schedule 40 = true.
Proof. vm_compute. reflexivity. Qed.

Example lagging_run_length : length lagging_schedule = 4 * 40 + 3.
Proof. vm_compute. reflexivity. Qed.

(* the producer really gets 15 buffers ahead (14 queued + 1 being filled)
   before the consumer's first step *)
Example lagging_run_prefix :
  firstn 30 lagging_schedule = rep_evs 14 [Acquire; Send] ++ [Acquire; RecvWait].
Proof. vm_compute. reflexivity. Qed.

Example lagging_run_final :
  match run 16 14 (init 40) lagging_schedule with
  | Some s => final s = true /\ consumed s = seq 0 40 /\ safe_b 16 s = true /\
              enabled 16 14 s = []
  | None => False
  end.
Proof. vm_compute. repeat split. Qed.

(* eager consumer: the consumer is always served first *)
Example eager_run_ok :
  check_run 16 14 40 (greedy 16 14 consumer_first 1000 (init 40)) 40 = true.
Proof. vm_compute. reflexivity. Qed.

(* stage-2 failure after 60 steps, then draining: still safe everywhere, ends
   in a final state, consumed is a strict prefix, and the schedule has exactly
   4*n + 4 events: the bound of [ring_terminates] is attained *)
Example failing_run_ok : check_run 16 14 40 (failing_schedule 16 14 40 60) 8 = true.
Proof. vm_compute. reflexivity. Qed.

Example failing_run_length : length (failing_schedule 16 14 40 60) = 4 * 40 + 4.
Proof. vm_compute. reflexivity. Qed.

(* stage-1 give-up: the producer stops after 3 buffers (n_total = 3) *)
Example short_run_ok :
  check_run 16 14 3 (greedy 16 14 producer_first 1000 (init 3)) 3 = true.
Proof. vm_compute. reflexivity. Qed.

Example empty_run_ok :
  check_run 16 14 0 [SendTerm; RecvWait; Recv] 0 = true.
Proof. vm_compute. reflexivity. Qed.

(* ---- stage-1 failure: the producer abandons the buffer it has filled ---- *)

(* the trace recorded from the real code (unterminated document needing two
   buffers): A W S A T R W R.  Accepted, every state safe, final; buffer 0 was
   sent and consumed, buffer 1 was acquired (its slot written) and never sent *)
Definition real_abandon_trace : list ev :=
  [Acquire; RecvWait; Send; Acquire; SendTerm; Recv; RecvWait; Recv].

Example real_abandon_trace_ok :
  check_run_sent 16 14 2 real_abandon_trace 1 1 true = true.
Proof. vm_compute. reflexivity. Qed.

Example real_abandon_trace_final :
  match run 16 14 (init 2) real_abandon_trace with
  | Some s => final s = true /\ consumed s = [0] /\ produced s = 2 /\ live s = [] /\
              failed s = false /\ enabled 16 14 s = [] /\ ring s 1 = 1
  | None => False
  end.
Proof. vm_compute. repeat split. Qed.

(* before this extension the trace was rejected at the T: the old guard
   [filling s = None] is exactly what fails there *)
Example real_abandon_trace_state_at_T :
  option_map (fun s => (filling s, produced s, n_total s, queue s))
             (run 16 14 (init 2) (firstn 4 real_abandon_trace))
  = Some (Some 1, 2, 2, [Some 0]).
Proof. vm_compute. reflexivity. Qed.

(* nothing outstanding: the very first buffer is abandoned (e.g. a document
   without any structural character); stage 2 only sees the terminator *)
Example abandon_first_buffer :
  check_run_sent 16 14 1 [Acquire; SendTerm; RecvWait; Recv] 0 0 true = true.
Proof. vm_compute. reflexivity. Qed.

(* nothing outstanding, eager consumer: everything sent has been consumed and
   the consumer is blocked in receive when the producer gives up buffer 39 *)
Example abandon_eager_consumer :
  check_run_sent 16 14 40
    (greedy 16 14 consumer_first_producer_fails 1000 (init 40)) 39 39 true = true.
Proof. vm_compute. reflexivity. Qed.

(* one buffer outstanding (queued, not yet received) *)
Example abandon_one_outstanding :
  check_run_sent 16 14 2
    [Acquire; Send; Acquire; SendTerm; RecvWait; Recv; RecvWait; Recv] 1 1 true = true.
Proof. vm_compute. reflexivity. Qed.

(* many outstanding: 13 buffers queued, the 14th abandoned, the terminator
   takes the last place of the channel; the consumer has not started *)
Definition abandon_full_channel : list ev :=
  rep_evs 13 [Acquire; Send] ++ [Acquire; SendTerm] ++ rep_evs 14 [RecvWait; Recv].

Example abandon_many_outstanding :
  check_run_sent 16 14 14 abandon_full_channel 13 13 true = true /\
  option_map (fun s => (length (queue s), filling s))
             (run 16 14 (init 14) (firstn 28 abandon_full_channel)) = Some (14, None).
Proof. vm_compute. split; reflexivity. Qed.

(* ... one more and the producer must wait for the consumer before it can
   even send the terminator: its abandoned buffer stays live (and safe) *)
Example abandon_blocked_on_full_channel :
  option_map (fun s => (enabled 16 14 s, filling s, safe_b 16 s))
             (run 16 14 (init 15) (rep_evs 14 [Acquire; Send] ++ [Acquire]))
  = Some ([RecvWait; Fail2], Some 14, true).
Proof. vm_compute. reflexivity. Qed.

(* lagging consumer over 40 buffers (the ring wraps twice), last one abandoned *)
Example abandon_lagging_consumer :
  check_run_sent 16 14 40
    (greedy 16 14 producer_fails_first 1000 (init 40)) 39 39 true = true.
Proof. vm_compute. reflexivity. Qed.

(* both stages fail.  Consumer first (after 60 steps: 8 buffers consumed),
   then the producer abandons buffer 39 while the consumer drains *)
Example both_fail_consumer_first :
  check_run_sent 16 14 40
    (failing_schedule_prio 16 14 40 60 producer_fails_first producer_fails_first)
    8 39 true = true.
Proof. vm_compute. reflexivity. Qed.

(* consumer fails before anything happens, producer abandons at the end *)
Example both_fail_consumer_at_start :
  check_run_sent 16 14 20
    (failing_schedule_prio 16 14 20 0 producer_fails_first producer_fails_first)
    0 19 true = true.
Proof. vm_compute. reflexivity. Qed.

(* producer first: it abandons buffer 4 with four buffers queued, the consumer
   parses buffer 0, fails, and drains the other three and the terminator *)
Definition both_fail_producer_first : list ev :=
  rep_evs 4 [Acquire; Send] ++ [Acquire; SendTerm; RecvWait; Recv; Fail2] ++
  rep_evs 4 [RecvWait; Recv].

Example both_fail_producer_first_ok :
  check_run_sent 16 14 5 both_fail_producer_first 1 4 true = true.
Proof. vm_compute. reflexivity. Qed.

(* the consumer fails after it has already received the terminator of a
   failed producer?  No: Fail2 is not enabled once it has finished *)
Example no_fail_after_finish :
  run 16 14 (init 1) [Acquire; SendTerm; RecvWait; Recv; Fail2] = None.
Proof. vm_compute. reflexivity. Qed.

(* what the extension does NOT allow: the terminator before the last Acquire
   of the run, and any producer event after the terminator *)
Example no_early_terminator : run 16 14 (init 2) [Acquire; SendTerm] = None.
Proof. vm_compute. reflexivity. Qed.
Example no_send_after_abandon : run 16 14 (init 1) [Acquire; SendTerm; Send] = None.
Proof. vm_compute. reflexivity. Qed.
Example no_acquire_after_abandon : run 16 14 (init 2) [Acquire; Send; Acquire; SendTerm; Acquire] = None.
Proof. vm_compute. reflexivity. Qed.

(* the hypotheses of the theorems are met by a failing-producer run, and the
   conclusions of [ring_in_order] are tight on it *)
Example abandon_in_order_instance :
  match run 16 14 (init 40) (greedy 16 14 producer_fails_first 1000 (init 40)) with
  | Some s => failed s = false /\ final s = true /\ consumed s = seq 0 39 /\
              n_sent (greedy 16 14 producer_fails_first 1000 (init 40)) = 39 /\
              n_acquired (greedy 16 14 producer_fails_first 1000 (init 40)) = 40
  | None => False
  end.
Proof. vm_compute. repeat split. Qed.

(* one slot too few: S = 16, CAP = 15 *)
Example bad_run_16_15 :
  match run 16 15 (init 17) (bad_schedule 16 15) with
  | Some s => safe_b 16 s = false /\ held s = Some 0 /\ ring s 0 = 16
  | None => False
  end.
Proof. vm_compute. repeat split. Qed.

(* with the real configuration (S = 16, CAP = 14) the same schedule is not
   accepted: the channel is full after 14 sends, so the producer blocks before
   it can get far enough ahead to reach slot 0 again *)
Example bad_schedule_blocked_16_14 :
  run 16 14 (init 17) (bad_schedule 16 14) = None.
Proof. vm_compute. reflexivity. Qed.

(* ------------------------------------------------------------------ *)
(* Assumptions                                                         *)
(* ------------------------------------------------------------------ *)

Print Assumptions ring_safe.
Print Assumptions ring_safe_always.
Print Assumptions ring_in_order.
Print Assumptions ring_no_deadlock.
Print Assumptions ring_no_deadlock_nonempty.
Print Assumptions ring_mu_decreases.
Print Assumptions ring_terminates.
Print Assumptions ring_fail2_once.
Print Assumptions ring_final_empty.
Print Assumptions Ring_refuted.
Print Assumptions ring_cap0_safe.
Print Assumptions ring_safe_iff.
Print Assumptions ring_acquire_safe.
Print Assumptions ring_sent_accounted.
Print Assumptions ring_in_order_no_abandon.
Print Assumptions ring_filling_count.
Print Assumptions ring_abandon_step.
Print Assumptions ring_progress_each.
Print Assumptions ring_can_finish.
Print Assumptions ring_maximal_is_final.
Print Assumptions real_abandon_trace_ok.
Print Assumptions lagging_run_ok.
Print Assumptions bad_run_16_15.
