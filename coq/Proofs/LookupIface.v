(* LookupIface.v — Iter.Interface() / Object.Map() / Array.Interface():
   interface_val and interface_doc return the image of the denoted document
   under the map doc -> ival; objects become Go maps, so of two members with
   the same key the later one wins (property C12, part 5). *)
From SJ Require Import Model.Base Model.RefTables Spec.Json Spec.EditSpec Model.Tape
     Model.Iter Model.Walk Model.Edit Model.WF.
From SJ Require Import Proofs.TapeBase Proofs.TapeSeg Proofs.TapeDen Proofs.TapePath
     Proofs.TapeEdit Proofs.TapeIter Proofs.TapeDelete Proofs.TapeWF Proofs.TapeWalk
     Proofs.LookupBase.
From Coq Require Import Lia ZifyBool ZifyN ZifyNat.
Open Scope N_scope.

(* ------------------------------------------------------------------ *)
(* the map doc -> ival                                                  *)

Fixpoint doc_ival (d : doc) : ival :=
  match d with
  | DNull => INil
  | DBool b => IBool b
  | DNum (NInt z) => IInt z
  | DNum (NUint u) => IUint u
  | DNum (NFloat b _) => IFloat b
  | DStr s => IStr s
  | DArr l => IArr (map doc_ival l)
  | DObj l =>
    IMap ((fix go (l : list (bytes * doc)) (acc : list (bytes * ival)) : list (bytes * ival) :=
             match l with
             | [] => acc
             | (k, v) :: r => go r (map_set k (doc_ival v) acc)
             end) l [])
  end.

(* dst[k] = v for each member in order, starting from the map acc *)
Fixpoint members_ival (l : list (bytes * doc)) (acc : list (bytes * ival)) : list (bytes * ival) :=
  match l with
  | [] => acc
  | (k, v) :: r => members_ival r (map_set k (doc_ival v) acc)
  end.

Lemma doc_ival_obj l : doc_ival (DObj l) = IMap (members_ival l []).
Proof.
  cbn [doc_ival]. f_equal.
Qed.

(* Go map semantics of map_set: the key is bound to the new value, other
   keys keep theirs, a key occurs once *)
Fixpoint map_get (k : bytes) (m : list (bytes * ival)) : option ival :=
  match m with
  | [] => None
  | (k', v) :: r => if bytes_eqb k k' then Some v else map_get k r
  end.

Lemma map_get_set_same k v m : map_get k (map_set k v m) = Some v.
Proof.
  induction m as [|[k' v'] r IH]; cbn [map_set map_get].
  - replace (bytes_eqb k k) with true by (symmetry; apply bytes_eqb_true_iff; reflexivity). reflexivity.
  - destruct (bytes_eqb k k') eqn:E; cbn [map_get].
    + replace (bytes_eqb k k) with true by (symmetry; apply bytes_eqb_true_iff; reflexivity). reflexivity.
    + rewrite E. exact IH.
Qed.

Lemma map_get_set_other k k2 v m : bytes_eqb k2 k = false -> map_get k2 (map_set k v m) = map_get k2 m.
Proof.
  intros Hne. induction m as [|[k' v'] r IH]; cbn [map_set map_get].
  - rewrite Hne. reflexivity.
  - destruct (bytes_eqb k k') eqn:E; cbn [map_get].
    + apply bytes_eqb_true_iff in E. subst k'. rewrite Hne. reflexivity.
    + destruct (bytes_eqb k2 k'); [reflexivity|exact IH].
Qed.

(* the value a key has in the resulting map is that of its LAST member *)
Fixpoint abs_find_last (l : list (bytes * doc)) (k : bytes) (cur : option doc) : option doc :=
  match l with
  | [] => cur
  | (k', v) :: r => abs_find_last r k (if bytes_eqb k k' then Some v else cur)
  end.

Lemma members_ival_get k : forall l acc,
  map_get k (members_ival l acc) =
    match abs_find_last l k None with
    | Some v => Some (doc_ival v)
    | None => map_get k acc
    end.
Proof.
  assert (G : forall l acc cur,
    map_get k (members_ival l acc) =
      match abs_find_last l k cur with
      | Some v => if match abs_find_last l k None with Some _ => true | None => false end
                  then Some (doc_ival v) else map_get k acc
      | None => map_get k acc
      end).
  { induction l as [|[k' v] r IH]; intros acc cur.
    - cbn [members_ival abs_find_last]. destruct cur; reflexivity.
    - cbn [members_ival abs_find_last].
      destruct (bytes_eqb k k') eqn:E.
      + apply bytes_eqb_true_iff in E. subst k'.
        rewrite (IH _ (Some v)).
        assert (forall c, exists x, abs_find_last r k (Some c) = Some x) as Hs.
        { clear. induction r as [|[k2 v2] r IH]; intros c; cbn [abs_find_last]; [eauto|].
          destruct (bytes_eqb k k2); apply IH. }
        destruct (Hs v) as (x & Ex). rewrite Ex.
        destruct (abs_find_last r k None) eqn:En.
        * reflexivity.
        * assert (x = v).
          { clear - En Ex. revert v x Ex En.
            induction r as [|[k2 v2] r IH]; intros v x Ex En; cbn [abs_find_last] in *.
            - congruence.
            - destruct (bytes_eqb k k2); [|eauto].
              exfalso. clear - En. revert v2 En. induction r as [|[k3 v3] r IH]; intros v2 En; cbn [abs_find_last] in En; [discriminate|].
              destruct (bytes_eqb k k3); eauto. }
          subst x. rewrite map_get_set_same. reflexivity.
      + rewrite (IH _ cur). rewrite map_get_set_other by exact E. reflexivity. }
  intros l acc. rewrite (G l acc None).
  destruct (abs_find_last l k None); reflexivity.
Qed.

(* ------------------------------------------------------------------ *)
(* the loops of interface_val, named                                    *)

Definition iface_elems (f : nat) (pj : pjson) :=
  fix elems (k : nat) (it : iter) (acc : list ival) : outcome ival :=
    match k with
    | O => OutOfFuel
    | S k' =>
      do r <- advance pj it;
      let '(it', t) := r in
      if t_is t TypeNone then Ok (IArr (rev acc))
      else do d <- interface_val f pj it'; elems k' it' (d :: acc)
    end.

Definition iface_members (f : nat) (pj : pjson) :=
  fix members (k : nat) (ob : cont) (acc : list (bytes * ival)) : outcome ival :=
    match k with
    | O => OutOfFuel
    | S k' =>
      do r <- next_element (cont_fuel ob) pj ob;
      match r with
      | (_, None) => Ok (IMap acc)
      | (ob', Some (name, el, _)) =>
        do d <- interface_val f pj el; members k' ob' (map_set name d acc)
      end
    end.

Lemma interface_val_S f pj i :
  interface_val (S f) pj i =
    let ty := TagToType_ref (i_t i) in
    if t_is ty TypeUint then do u <- iter_uint pj i; Ok (IUint u)
    else if t_is ty TypeInt then do z <- iter_int pj i; Ok (IInt z)
    else if t_is ty TypeFloat then do b <- iter_float pj i; Ok (IFloat b)
    else if t_is ty TypeNull then Ok INil
    else if t_is ty TypeString then do s <- string_bytes pj i; Ok (IStr s)
    else if t_is ty TypeBool then Ok (IBool (t_is (i_t i) TagBoolTrue))
    else if t_is ty TypeArray then
      do a <- iter_array i; iface_elems f pj (S f) (cont_iter a) []
    else if t_is ty TypeObject then
      do o <- iter_object i; iface_members f pj (S f) o []
    else Err.
Proof. reflexivity. Qed.

Lemma iface_elems_S f pj k it acc :
  iface_elems f pj (S k) it acc =
    do r <- advance pj it;
    let '(it', t) := r in
    if t_is t TypeNone then Ok (IArr (rev acc))
    else do d <- interface_val f pj it'; iface_elems f pj k it' (d :: acc).
Proof. reflexivity. Qed.

Lemma iface_members_S f pj k ob acc :
  iface_members f pj (S k) ob acc =
    do r <- next_element (cont_fuel ob) pj ob;
    match r with
    | (_, None) => Ok (IMap acc)
    | (ob', Some (name, el, _)) =>
      do d <- interface_val f pj el; iface_members f pj k ob' (map_set name d acc)
    end.
Proof. reflexivity. Qed.

(* ------------------------------------------------------------------ *)

Section Scalars.
Variables (strict adj : bool).
Notation vseg pj := (val_seg (pj_msg pj) (pj_strings pj) strict adj).

Lemma iface_scalar pj it pre v post d f :
  N.of_nat (length (pj_msg pj)) < two64 -> N.of_nat (length (pj_strings pj)) < two64 ->
  pj_tape pj = pre ++ v ++ post -> vseg pj (nlen pre) v d -> walk_iter it (nlen pre) v ->
  is_container d = false -> interface_val (S f) pj it = Ok (doc_ival d).
Proof.
  intros Bm Bs Ht Hv Hw Hc.
  rewrite interface_val_S. cbv zeta.
  inversion Hv; subst; try discriminate Hc;
    pose proof Hw as ((Hoff & Hlen & w0 & r0 & E0 & Hit & Hcur) & Ha & Hl);
    injection E0 as <- <-; rewrite Hit;
    match goal with Htag : word_tag _ = _ |- _ => rewrite Htag end; tsimp.
  - (* string *)
    unfold string_bytes. rewrite Hit.
    match goal with Htag : word_tag _ = _ |- _ => rewrite Htag end. tsimp.
    cbn [length] in Hlen.
    replace (i_len it <=? i_off it)%Z with false by (revert Hoff Hlen; nl).
    rewrite (rd_app pj (i_len it) (i_off it) (pre ++ [w]) len post)
      by (try (rewrite Ht; leq); revert Hoff Hlen; lens).
    cbn [obind]. rewrite Hcur.
    rewrite (string_byte_at_ok pj (word_val w) len s) by assumption. reflexivity.
  - (* int *)
    unfold iter_int. rewrite Hit.
    match goal with Htag : word_tag _ = _ |- _ => rewrite Htag end. tsimp.
    rewrite (payload_ok pj it pre w x post Ht Hw). reflexivity.
  - (* uint *)
    unfold iter_uint. rewrite Hit.
    match goal with Htag : word_tag _ = _ |- _ => rewrite Htag end. tsimp.
    rewrite (payload_ok pj it pre w x post Ht Hw). reflexivity.
  - (* float *)
    unfold iter_float. rewrite Hit.
    match goal with Htag : word_tag _ = _ |- _ => rewrite Htag end. tsimp.
    rewrite (payload_ok pj it pre w x post Ht Hw). reflexivity.
  - reflexivity.
  - reflexivity.
  - reflexivity.
Qed.

End Scalars.

Section Loops.
Variables (pj : pjson) (strict : bool).
Notation msg := (pj_msg pj).
Notation strings := (pj_strings pj).
Notation val_seg := (val_seg msg strings strict true).
Notation items := (items msg strings strict true).
Notation mitems := (mitems msg strings strict true).
Hypothesis Bm : N.of_nat (length msg) < two64.
Hypothesis Bs : N.of_nat (length strings) < two64.

Definition iface_ok (f : nat) (M : nat) : Prop :=
  forall v d pre post it, (length v <= M)%nat -> pj_tape pj = pre ++ v ++ post ->
    val_seg (nlen pre) v d -> walk_iter it (nlen pre) v -> interface_val f pj it = Ok (doc_ival d).

Lemma iface_elems_ok f M : iface_ok f M ->
  forall l b pre, items (nlen pre) b l -> forall it e post cnt acc,
  (length b <= M)%nat -> pj_tape pj = pre ++ b ++ e :: post -> word_tag e = TagArrayEnd ->
  (i_off it + i_add it)%Z = Z.of_nat (length pre) ->
  i_len it = Z.of_nat (length pre + length b + 1) -> (length l < cnt)%nat ->
  iface_elems f pj cnt it acc = Ok (IArr (rev acc ++ map doc_ival l)).
Proof.
  intros Hval. induction l as [|d l IH]; intros b pre Hit it e post cnt acc HM Ht He Hoff Hlen Hc;
    apply items_front in Hit; (destruct cnt as [|cnt]; [lia|]); rewrite iface_elems_S.
  - destruct (advance_end strict pj it b e pre post Hit Ht (or_introl He) Hoff ltac:(lia)) as (it' & ->).
    cbn [obind map]. tsimp. rewrite app_nil_r. reflexivity.
  - destruct Hit as (n & v & rest & -> & Hn & Hv & Hrest).
    destruct (val_seg_head _ _ _ _ _ _ _ Hv) as (w & r & -> & Htag).
    rewrite <- !app_assoc in Ht.
    destruct (advance_value msg strings strict true pj it n w r d pre (rest ++ e :: post) Hn Ht Hv Hoff)
      as (Hadv & Hon & Hadd & Hl' & Hty).
    { rewrite Hlen. lens. }
    rewrite Hadv. cbn [obind].
    remember (land it (Z.of_nat (length pre) + Z.of_nat (length n) + 1) w) as it' eqn:Eit'. clear Eit'.
    replace (t_is (TagToType_ref (word_tag w)) TypeNone) with false
      by (symmetry; apply N.eqb_neq; exact Hty).
    pose proof Hon as (Hoff' & Hlen' & _).
    rewrite (Hval (w :: r) d (pre ++ n) (rest ++ e :: post) it').
    + cbn [obind].
      rewrite (IH rest (pre ++ n ++ w :: r)) with (e := e) (post := post).
      * cbn [rev map]. rewrite <- app_assoc. reflexivity.
      * eapply items_idx; [|exact Hrest]. lens.
      * revert HM. lens.
      * rewrite Ht. leq.
      * exact He.
      * rewrite Hoff', Hadd. lens.
      * rewrite Hl', Hlen. lens.
      * cbn [length] in Hc. lia.
    + revert HM. lens.
    + rewrite Ht. leq.
    + eapply val_seg_idx; [|exact Hv]. lens.
    + split; [|split].
      * destruct Hon as (A & B & C). split; [rewrite A; lens|]. split; [revert B; lens|exact C].
      * lia.
      * rewrite Hoff', Hadd, Hl', Hlen. lens.
Qed.

Lemma iface_members_ok f M : iface_ok f M ->
  forall l b pre, mitems (nlen pre) b l -> forall ob e post cnt acc,
  (length b <= M)%nat -> pj_tape pj = pre ++ b ++ e :: post -> word_tag e = TagObjectEnd ->
  c_off ob = Z.of_nat (length pre) ->
  c_len ob = Z.of_nat (length pre + length b + 1) -> (length l < cnt)%nat ->
  iface_members f pj cnt ob acc = Ok (IMap (members_ival l acc)).
Proof.
  intros Hval. induction l as [|[k d] l IH]; intros b pre Hit ob e post cnt acc HM Ht He Hoff Hlen Hc;
    apply mitems_front in Hit; (destruct cnt as [|cnt]; [lia|]); rewrite iface_members_S.
  - destruct (next_element_end strict pj b e pre post ob Hit Ht He Hoff ltac:(lia)) as (o' & ->).
    cbn [obind]. reflexivity.
  - destruct Hit as (n & w & len & n2 & v & rest & -> & Hn & Hw & Hk & Hn2 & Hadj & Hv & Hrest).
    rewrite (Hadj eq_refl) in *. cbn [app] in *. rewrite nlen_nil, N.add_0_r in Hv, Hrest.
    destruct (val_seg_head _ _ _ _ _ _ _ Hv) as (wv & rv & -> & Htag).
    assert (Ht' : pj_tape pj = pre ++ n ++ w :: len :: (wv :: rv) ++ rest ++ e :: post)
      by (rewrite Ht; leq).
    destruct (next_element_member msg strings strict true pj n w len k wv rv d pre (rest ++ e :: post) ob
                eq_refl eq_refl Bm Bs Hn Ht' Hw Hk Hv Hoff) as (Hne & Hwi).
    { rewrite Hoff, Hlen. lens. }
    rewrite Hne. cbn [obind].
    match goal with |- context [interface_val f pj ?el] => remember el as el' eqn:Eel end. clear Eel.
    rewrite (Hval (wv :: rv) d (pre ++ n ++ [w; len]) (rest ++ e :: post) el').
    + cbn [obind].
      rewrite (IH rest (pre ++ n ++ w :: len :: wv :: rv)) with (e := e) (post := post).
      * reflexivity.
      * eapply mitems_idx; [|exact Hrest]. lens.
      * revert HM. lens.
      * rewrite Ht. leq.
      * exact He.
      * cbn [c_off]. lens.
      * cbn [c_len]. rewrite Hlen. lens.
      * cbn [length] in Hc. lia.
    + revert HM. lens.
    + rewrite Ht. leq.
    + eapply val_seg_idx; [|exact Hv]. lens.
    + destruct Hwi as ((A & B & C) & D & E). split; [|split; assumption].
      split; [rewrite A; lens|]. split; [revert B; lens|exact C].
Qed.

Lemma interface_val_ok : forall N f, (N < f)%nat -> iface_ok f N.
Proof.
  induction N as [|N IH]; intros f Hf v d pre post it HN Ht Hv Hw.
  - pose proof (val_seg_nonempty _ _ _ _ _ _ _ Hv). lia.
  - destruct f as [|f]; [lia|].
    destruct (is_container d) eqn:Ec.
    2:{ eapply iface_scalar; eauto. }
    assert (Hsub : iface_ok f N) by (apply IH; lia).
    rewrite interface_val_S. cbv zeta.
    pose proof Hw as (Hon & Ha & Hl).
    inversion Hv; subst; try discriminate Ec;
      pose proof Hon as (Hoff & Hlen & w0 & r0 & E0 & Hit & Hcur);
      injection E0 as <- <-; rewrite Hit;
      match goal with Htag : word_tag _ = _ |- _ => rewrite Htag end; tsimp.
    + (* array *)
      rewrite (iter_array_on strict true pj it _ _ _ Hon Hv). cbn [obind].
      rewrite (iface_elems_ok f N Hsub l body (pre ++ [w])) with (e := e) (post := post).
      * reflexivity.
      * eapply items_idx; [|eassumption]. lens.
      * revert HN. lens.
      * rewrite Ht. leq.
      * assumption.
      * cbn [cont_iter i_off i_add c_off]. lens.
      * cbn [cont_iter i_len c_len]. lens.
      * match goal with H : items _ body l |- _ =>
          pose proof (proj1 (proj2 (seg_lengths _ _ _ _)) _ _ _ H) end.
        revert HN. lens.
    + (* object *)
      rewrite (iter_object_on strict true pj it _ _ _ Hon Hv). cbn [obind].
      rewrite (iface_members_ok f N Hsub l body (pre ++ [w])) with (e := e) (post := post).
      * rewrite doc_ival_obj. reflexivity.
      * eapply mitems_idx; [|eassumption]. lens.
      * revert HN. lens.
      * rewrite Ht. leq.
      * assumption.
      * cbn [c_off]. lens.
      * cbn [c_len]. lens.
      * match goal with H : mitems _ body l |- _ =>
          pose proof (proj2 (proj2 (seg_lengths _ _ _ _)) _ _ _ H) end.
        revert HN. lens.
Qed.

End Loops.

(* Interface() on an iterator denoting d *)
Theorem interface_val_denotes strict pj it d :
  N.of_nat (length (pj_msg pj)) < two64 -> N.of_nat (length (pj_strings pj)) < two64 ->
  denotes strict true pj it d ->
  interface_val (S (length (pj_tape pj))) pj it = Ok (doc_ival d).
Proof.
  intros Bm Bs (pre & v & post & Ht & Hv & Hw).
  apply (interface_val_ok pj strict Bm Bs (length v) (S (length (pj_tape pj)))
           ltac:(rewrite Ht; lens) v d pre post it); auto.
Qed.

(* ------------------------------------------------------------------ *)
(* roots: Iter.Interface() on pj.Iter()                                 *)

Section PeekSkip.
Variables (strict : bool).

Lemma peek_loop_skip pj len n : nops_seg strict n -> forall f pre X off,
  pj_tape pj = pre ++ n ++ X -> off = Z.of_nat (length pre) ->
  (off + Z.of_nat (length n) <= len)%Z -> (length n < f)%nat ->
  exists f', (0 < f')%nat /\
    peek_loop f pj len off = peek_loop f' pj len (off + Z.of_nat (length n))%Z.
Proof.
  induction 1 as [|w junk rest Ht Hv Hrun Hrest IH]; intros f pre X off Htape Hoff Hlen Hf.
  - exists f. split; [cbn in Hf; lia|]. cbn [length]. f_equal. lia.
  - destruct f as [|f]; [lia|].
    cbn [length] in Hlen, Hf. rewrite app_length in Hlen, Hf.
    destruct (IH f (pre ++ w :: junk) X (off + Z.of_nat (length junk) + 1)%Z) as (f' & Hf' & E).
    + rewrite Htape. leq.
    + rewrite app_length. cbn [length]. lia.
    + lia.
    + lia.
    + exists f'. split; [exact Hf'|].
      cbn [peek_loop].
      replace (len <=? off)%Z with false by lia.
      cbn [app] in Htape. rewrite <- app_assoc in Htape.
      rewrite (rd_app pj len off pre w _ Htape Hoff) by lia.
      cbn [obind]. rewrite Ht. change (TagNop =? TagNop) with true. cbv iota.
      replace (word_val w =? 0) with false by (rewrite Hv; lia).
      rewrite Hv.
      replace (off + Z.of_N (nlen junk + 1))%Z with (off + Z.of_nat (length junk) + 1)%Z
        by (unfold nlen; lia).
      rewrite E. f_equal. cbn [length]. rewrite app_length. lia.
Qed.

End PeekSkip.

Section IfaceRoots.
Variables (pj : pjson).
Notation msg := (pj_msg pj).
Notation strings := (pj_strings pj).
Notation val_seg := (val_seg msg strings true true).
Notation roots_seg := (roots_seg msg strings true true).
Hypothesis Bm : N.of_nat (length msg) < two64.
Hypothesis Bs : N.of_nat (length strings) < two64.

(* Root() on an iterator standing on a root word *)
Lemma iter_root_on cp pre w n1 wv rv d X :
  pj_tape pj = pre ++ w :: n1 ++ (wv :: rv) ++ X -> word_tag w = TagRoot -> nops_seg true n1 ->
  val_seg (nlen pre + 1 + nlen n1) (wv :: rv) d ->
  nlen pre + 1 + nlen n1 + nlen (wv :: rv) + 1 <= word_val w ->
  i_t cp = TagRoot -> i_cur cp = word_val w -> i_off cp = Z.of_nat (length pre + 1) ->
  (Z.of_N (word_val w) <= i_len cp)%Z ->
  exists el, iter_root pj cp = Ok (el, doc_type d) /\
             walk_iter el (nlen (pre ++ [w] ++ n1)) (wv :: rv).
Proof.
  intros Ht Hw Hn1 Hv Hlo Et Ecur Eoff Elen.
  unfold iter_root. rewrite Et, Ecur, Eoff.
  change (negb (TagRoot =? TagRoot)) with false. cbv iota.
  replace (i_len cp <? Z.of_N (word_val w))%Z with false by lia.
  replace (Z.of_N (word_val w) <? Z.of_nat (length pre + 1))%Z with false by (revert Hlo; nl).
  destruct (val_seg_head _ _ _ _ _ _ _ Hv) as (wv' & rv' & E & Htag). injection E as <- <-.
  assert (HwvN : word_tag wv <> TagNop).
  { intros E. rewrite E in Htag. discriminate Htag. }
  assert (Ht' : pj_tape pj = (pre ++ [w]) ++ n1 ++ wv :: rv ++ X) by (rewrite Ht; leq).
  rewrite (advance_into_at true pj _ n1 wv (pre ++ [w]) _ Hn1 Ht' HwvN).
  2:{ cbn [i_off i_add]. lens. }
  2:{ cbn [i_len]. revert Hlo. lens. }
  cbn [obind]. cbv iota beta.
  rewrite (val_seg_type _ _ _ _ _ _ _ _ Hv).
  eexists. split; [reflexivity|].
  pose proof (calc_next_true_val _ _ _ _ _ _ _ _
                (Z.of_nat (length (pre ++ [w])) + Z.of_nat (length n1) + 1)%Z Hv) as Hcn.
  unfold walk_iter, iter_on, with_calc, set_i. cbn [i_off i_len i_add i_cur i_t].
  split; [split; [lens|split; [revert Hlo; lens|]]|].
  - exists wv, rv. repeat split.
  - split; [lia|]. revert Hcn Hlo. lens.
Qed.

(* the loop over the roots, from an iterator standing on a root *)
Lemma interface_roots_ok : forall ds d pre w n1 v n2 c rest' cp cnt acc,
  pj_tape pj = pre ++ w :: n1 ++ v ++ n2 ++ c :: rest' ->
  word_tag w = TagRoot -> nops_seg true n1 -> val_seg (nlen pre + 1 + nlen n1) v d ->
  nops_seg true n2 -> word_tag c = TagRoot ->
  word_val w = nlen pre + 1 + nlen n1 + nlen v + nlen n2 + 1 ->
  roots_seg (nlen pre + 1 + nlen n1 + nlen v + nlen n2 + 1) rest' ds ->
  i_t cp = TagRoot -> i_cur cp = word_val w -> i_off cp = Z.of_nat (length pre + 1) ->
  i_add cp = (Z.of_N (word_val w) - Z.of_nat (length pre + 1))%Z ->
  i_len cp = Z.of_nat (length (pj_tape pj)) ->
  (length ds < cnt)%nat ->
  interface_roots cnt pj cp acc = Ok (rev acc ++ map doc_ival (d :: ds)).
Proof.
  induction ds as [|d2 ds IH];
    intros d pre w n1 v n2 c rest' cp cnt acc Ht Hw Hn1 Hv Hn2 Hc Hwv Hr Et Ecur Eoff Eadd Elen Hcnt;
    (destruct cnt as [|cnt]; [lia|]); cbn [interface_roots];
    destruct (val_seg_head _ _ _ _ _ _ _ Hv) as (wv & rv & -> & Htag);
    (destruct (iter_root_on cp pre w n1 wv rv d (n2 ++ c :: rest') Ht Hw Hn1 Hv) as (el & -> & Hwi);
     [rewrite Hwv; lens|exact Et|exact Ecur|exact Eoff|rewrite Elen, Ht, Hwv; lens|]);
    cbn [obind]; cbv iota beta;
    (replace (t_is (doc_type d) TypeNone) with false
       by (symmetry; apply N.eqb_neq; rewrite <- (val_seg_type _ _ _ _ _ _ _ _ Hv);
           apply val_tag_type; exact Htag));
    (rewrite (interface_val_ok pj true Bm Bs (length (wv :: rv)) (S (length (pj_tape pj)))
               ltac:(rewrite Ht; lens) (wv :: rv) d (pre ++ [w] ++ n1) (n2 ++ c :: rest') el);
     [|lia|rewrite Ht; leq|eapply val_seg_idx; [|exact Hv]; lens|exact Hwi]);
    cbn [obind]; apply roots_front in Hr.
  - (* last root *)
    assert (Ht2 : pj_tape pj = (pre ++ w :: n1 ++ (wv :: rv) ++ n2 ++ [c]) ++ rest') by (rewrite Ht; leq).
    destruct (advance_at_end true pj cp rest' _ Hr Ht2) as (it' & ->).
    { rewrite Eoff, Eadd, Hwv. lens. }
    { rewrite Elen, Ht. lens. }
    cbn [obind]. cbv iota beta. change (t_is TypeNone TypeRoot) with false. cbv iota.
    cbn [rev map]. reflexivity.
  - destruct Hr as (n & w' & n1' & v' & n2' & c' & rest2 & -> & Hn & Hw' & Hn1' & Hv' & Hn2' & Hc' & Hwv' & Hr').
    assert (HwN : word_tag w' <> TagNop) by (rewrite Hw'; discriminate).
    assert (Ht2 : pj_tape pj = (pre ++ w :: n1 ++ (wv :: rv) ++ n2 ++ [c]) ++ n ++ w' :: n1' ++ v' ++ n2' ++ c' :: rest2)
      by (rewrite Ht; leq).
    rewrite (advance_at true pj cp n w' _ _ Hn Ht2 HwN).
    2:{ rewrite Eoff, Eadd, Hwv. lens. }
    2:{ rewrite Elen, Ht. lens. }
    cbv zeta.
    set (pre2 := pre ++ w :: n1 ++ (wv :: rv) ++ n2 ++ [c]) in *.
    set (k1 := (Z.of_nat (length pre2) + Z.of_nat (length n) + 1)%Z).
    assert (Hadd : i_add (land cp k1 w') = (Z.of_N (word_val w') - k1)%Z).
    { unfold land, with_calc, set_i, calc_next. cbn [i_add i_off i_cur i_t]. rewrite Hw'. reflexivity. }
    rewrite Hadd.
    replace (Z.of_N (word_val w') - k1 <? 0)%Z with false
      by (rewrite Hwv'; unfold k1, pre2; lens).
    cbn [obind]. cbv iota beta. rewrite Hw'. change (t_is (TagToType_ref TagRoot) TypeRoot) with true. cbv iota.
    rewrite (IH d2 (pre2 ++ n) w' n1' v' n2' c' rest2 (land cp k1 w') cnt (doc_ival d :: acc)).
    + cbn [rev map]. rewrite <- !app_assoc. reflexivity.
    + rewrite Ht2. leq.
    + exact Hw'.
    + exact Hn1'.
    + eapply val_seg_idx; [|exact Hv']. unfold pre2. lens.
    + exact Hn2'.
    + exact Hc'.
    + rewrite Hwv'. unfold pre2. lens.
    + eapply roots_idx; [|exact Hr']. unfold pre2. lens.
    + unfold land, with_calc, set_i. cbn [i_t]. exact Hw'.
    + reflexivity.
    + unfold land, with_calc, set_i. cbn [i_off]. unfold k1. lens.
    + rewrite Hadd. unfold k1. lens.
    + unfold land, with_calc, set_i. cbn [i_len]. exact Elen.
    + cbn [length] in Hcnt. lia.
Qed.

(* pj.Iter().Interface(): the images of all roots (an empty tape is an error) *)
Theorem interface_doc_ok ds :
  roots_seg 0 (pj_tape pj) ds ->
  interface_doc pj = match ds with [] => Err | _ => Ok (map doc_ival ds) end.
Proof.
  intros Hr. unfold interface_doc. cbv zeta.
  pose proof (roots_lengths _ _ _ _ _ _ _ Hr) as Hlen.
  apply roots_front in Hr. destruct ds as [|d ds].
  - unfold peek_next_tag.
    assert (Ht0 : pj_tape pj = [] ++ pj_tape pj ++ []) by (rewrite app_nil_r; reflexivity).
    destruct (peek_loop_skip true pj (i_len (iter0 pj)) (pj_tape pj) Hr (fuel_of (iter0 pj)) [] [] 0%Z Ht0 eq_refl)
      as (f' & Hf' & E).
    { cbn [iter0 i_len]. lia. }
    { unfold fuel_of. cbn [iter0 i_len]. lia. }
    change (i_off (iter0 pj) + i_add (iter0 pj))%Z with 0%Z.
    change (i_len (iter0 pj)) with (Z.of_nat (length (pj_tape pj))) in *. rewrite E.
    destruct f' as [|f']; [lia|]. cbn [peek_loop].
    replace (Z.of_nat (length (pj_tape pj)) <=? 0 + Z.of_nat (length (pj_tape pj)))%Z with true by lia.
    cbn [obind]. reflexivity.
  - destruct Hr as (n & w & n1 & v & n2 & c & rest' & Ht & Hn & Hw & Hn1 & Hv & Hn2 & Hc' & Hwv & Hr').
    assert (HwN : word_tag w <> TagNop) by (rewrite Hw; discriminate).
    unfold peek_next_tag.
    assert (Ht0 : pj_tape pj = [] ++ n ++ w :: n1 ++ v ++ n2 ++ c :: rest') by exact Ht.
    destruct (peek_loop_skip true pj (i_len (iter0 pj)) n Hn (fuel_of (iter0 pj)) [] _ 0%Z Ht0 eq_refl)
      as (f' & Hf' & E).
    { cbn [iter0 i_len]. rewrite Ht. lens. }
    { unfold fuel_of. cbn [iter0 i_len]. rewrite Ht. lens. }
    change (i_off (iter0 pj) + i_add (iter0 pj))%Z with 0%Z.
    change (i_len (iter0 pj)) with (Z.of_nat (length (pj_tape pj))) in *. rewrite E.
    destruct f' as [|f']; [lia|]. cbn [peek_loop].
    replace (Z.of_nat (length (pj_tape pj)) <=? 0 + Z.of_nat (length n))%Z with false by (rewrite Ht; lens).
    rewrite (rd_app pj _ (0 + Z.of_nat (length n)) n w _ Ht) by (rewrite ?Ht; lens).
    cbn [obind]. rewrite Hw. change (TagRoot =? TagNop) with false. cbv iota.
    change (t_is TagRoot TagEnd) with false. cbv iota.
    rewrite (advance_at true pj (iter0 pj) n w [] _ Hn Ht0 HwN eq_refl).
    2:{ cbn [iter0 i_len]. rewrite Ht. lens. }
    cbv zeta.
    set (k1 := (Z.of_nat (length (@nil N)) + Z.of_nat (length n) + 1)%Z).
    assert (Hadd : i_add (land (iter0 pj) k1 w) = (Z.of_N (word_val w) - k1)%Z).
    { unfold land, with_calc, set_i, calc_next. cbn [i_add i_off i_cur i_t]. rewrite Hw. reflexivity. }
    rewrite Hadd.
    replace (Z.of_N (word_val w) - k1 <? 0)%Z with false by (rewrite Hwv; unfold k1; lens).
    cbn [obind]. cbv iota beta.
    assert (Et : i_t (land (iter0 pj) k1 w) = TagRoot).
    { unfold land, with_calc, set_i. cbn [i_t]. exact Hw. }
    rewrite Et. change (t_is (TagToType_ref TagRoot) TypeRoot) with true. cbv iota.
    assert (Hv' : val_seg (nlen n + 1 + nlen n1) v d) by (eapply val_seg_idx; [|exact Hv]; lens).
    assert (Hwv2 : word_val w = nlen n + 1 + nlen n1 + nlen v + nlen n2 + 1) by (rewrite Hwv; lens).
    assert (Hr2 : roots_seg (nlen n + 1 + nlen n1 + nlen v + nlen n2 + 1) rest' ds)
      by (eapply roots_idx; [|exact Hr']; lens).
    apply (interface_roots_ok ds d n w n1 v n2 c rest' (land (iter0 pj) k1 w) _ []
             Ht Hw Hn1 Hv' Hn2 Hc' Hwv2 Hr2 Et).
    + reflexivity.
    + unfold land, with_calc, set_i. cbn [i_off]. unfold k1. lens.
    + rewrite Hadd. unfold k1. lens.
    + reflexivity.
    + cbn [length] in Hlen. lia.
Qed.

End IfaceRoots.
