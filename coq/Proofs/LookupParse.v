(* LookupParse.v — Object.Parse and Elements.Lookup (property C12: "Object.Parse /
   Map / Lookup return the values plain traversal would").  Model/Walk.v has no
   separate function for Parse (Map is interface_val on an object); the loop
   below is the Go loop of Object.Parse written over the modelled
   NextElementBytes, in the style of walk_value's member loop.  The loop itself
   (obj_parse) lives in Model/Walk.v and is run against Object.Parse by the
   harness (oracle op "find ... parse"). *)
From SJ Require Import Model.Base Model.RefTables Spec.Json Spec.EditSpec Model.Tape
     Model.Iter Model.Walk Model.Edit Model.WF.
From SJ Require Import Proofs.TapeBase Proofs.TapeSeg Proofs.TapeDen Proofs.TapePath
     Proofs.TapeEdit Proofs.TapeIter Proofs.TapeDelete Proofs.TapeWF Proofs.TapeWalk
     Proofs.LookupBase Proofs.LookupFind Proofs.LookupTop.
From Coq Require Import Lia ZifyBool ZifyN ZifyNat.
Open Scope N_scope.

(* Elements.Lookup: dst.Index[name] = len(dst.Elements) is overwritten by a
   later element of the same name, so the LAST one is returned *)
Fixpoint elements_lookup (els : list (bytes * N * iter)) (key : bytes) (cur : option (N * iter))
  : option (N * iter) :=
  match els with
  | [] => cur
  | (name, ty, it) :: r => elements_lookup r key (if bytes_eqb key name then Some (ty, it) else cur)
  end.

Section Parse.
Variables (strict : bool).
Notation vseg pj := (val_seg (pj_msg pj) (pj_strings pj) strict true).
Notation mseg pj := (mitems (pj_msg pj) (pj_strings pj) strict true).

Definition element_for (pj : pjson) (e : bytes * N * iter) (kd : bytes * doc) : Prop :=
  fst (fst e) = fst kd /\ snd (fst e) = doc_type (snd kd) /\ denotes strict true pj (snd e) (snd kd).

Lemma obj_parse_loop_spec pj :
  N.of_nat (length (pj_msg pj)) < two64 -> N.of_nat (length (pj_strings pj)) < two64 ->
  forall l b pre, mseg pj (nlen pre) b l -> forall ob e post cnt acc,
  pj_tape pj = pre ++ b ++ e :: post -> word_tag e = TagObjectEnd ->
  c_off ob = Z.of_nat (length pre) ->
  c_len ob = Z.of_nat (length pre + length b + 1) -> (length l < cnt)%nat ->
  exists els, obj_parse_loop cnt pj ob acc = Ok (rev acc ++ els) /\
              Forall2 (element_for pj) els l.
Proof.
  intros Bm Bs.
  induction l as [|[k d] l IH]; intros b pre Hit ob e post cnt acc Ht He Hoff Hlen Hc;
    apply mitems_front in Hit; (destruct cnt as [|cnt]; [lia|]); cbn [obj_parse_loop].
  - destruct (next_element_end strict pj b e pre post ob Hit Ht He Hoff ltac:(lia)) as (o' & ->).
    cbn [obind]. exists []. rewrite app_nil_r. split; [reflexivity|constructor].
  - destruct Hit as (n & w & len & n2 & v & rest & -> & Hn & Hw & Hk & Hn2 & Hadj & Hv & Hrest).
    rewrite (Hadj eq_refl) in *. cbn [app] in *. rewrite nlen_nil, N.add_0_r in Hv, Hrest.
    destruct (val_seg_head _ _ _ _ _ _ _ Hv) as (wv & rv & -> & Htag).
    assert (Ht' : pj_tape pj = pre ++ n ++ w :: len :: (wv :: rv) ++ rest ++ e :: post)
      by (rewrite Ht; leq).
    destruct (next_element_member _ _ strict true pj n w len k wv rv d pre (rest ++ e :: post) ob
                eq_refl eq_refl Bm Bs Hn Ht' Hw Hk Hv Hoff) as (Hne & Hwi).
    { rewrite Hoff, Hlen. lens. }
    rewrite Hne. cbn [obind].
    match goal with |- context [Ok (rev acc ++ _)] => idtac end.
    match goal with |- context [(k, TagToType_ref (word_tag wv), ?el)] => remember el as el' eqn:Eel end.
    clear Eel.
    destruct (IH rest (pre ++ n ++ w :: len :: wv :: rv)) with
      (ob := {| c_len := c_len ob;
                c_off := (Z.of_nat (length pre) + Z.of_nat (length n) + 2 + 1 + Z.of_nat (length rv))%Z |})
      (e := e) (post := post) (cnt := cnt) (acc := (k, TagToType_ref (word_tag wv), el') :: acc)
      as (els & E & HF).
    + eapply mitems_idx; [|exact Hrest]. lens.
    + rewrite Ht. leq.
    + exact He.
    + cbn [c_off]. lens.
    + cbn [c_len]. rewrite Hlen. lens.
    + cbn [length] in Hc. lia.
    + exists ((k, TagToType_ref (word_tag wv), el') :: els). split.
      * rewrite E. cbn [rev]. rewrite <- app_assoc. reflexivity.
      * constructor; [|exact HF].
        split; [reflexivity|]. split; [cbn [fst snd]; eapply val_seg_type; eauto|].
        cbn [snd]. exists (pre ++ n ++ [w; len]), (wv :: rv), (rest ++ e :: post).
        split; [rewrite Ht; leq|]. split; [eapply val_seg_idx; [|exact Hv]; lens|].
        destruct Hwi as ((A & B & C) & D & E'). split; [|split; assumption].
        split; [rewrite A; lens|]. split; [revert B; lens|exact C].
Qed.

(* Object.Parse: one element per member, in order, with the member's name,
   the type and an iterator denoting the member's value *)
Theorem obj_parse_refines pj o l :
  N.of_nat (length (pj_msg pj)) < two64 -> N.of_nat (length (pj_strings pj)) < two64 ->
  obj_at strict true pj o l ->
  exists els, obj_parse pj o = Ok els /\ Forall2 (element_for pj) els l.
Proof.
  intros Bm Bs (pre & sub & post & Ht & Hv & (Hoff & Hlen)).
  inversion Hv; subst.
  match goal with H : mitems _ _ _ _ _ body l |- _ => rename H into Hit end.
  unfold obj_parse.
  apply (obj_parse_loop_spec pj Bm Bs l body (pre ++ [w])) with (e := e) (post := post) (acc := []).
  - eapply mitems_idx; [|exact Hit]. nl.
  - rewrite Ht. leq.
  - assumption.
  - rewrite Hoff. lens.
  - rewrite Hlen. lens.
  - pose proof (proj2 (proj2 (seg_lengths _ _ _ _)) _ _ _ Hit) as Hll.
    unfold cont_fuel. rewrite Hlen. lens.
Qed.

(* Elements.Lookup returns the LAST member with the key (FindKey: the first) *)
Fixpoint abs_find_last_from (l : list (bytes * doc)) (k : bytes) (cur : option doc) : option doc :=
  match l with
  | [] => cur
  | (k', v) :: r => abs_find_last_from r k (if bytes_eqb k k' then Some v else cur)
  end.

Lemma elements_lookup_spec pj key : forall els l, Forall2 (element_for pj) els l ->
  forall cur curd,
  match cur, curd with
  | Some (ty, it), Some d => ty = doc_type d /\ denotes strict true pj it d
  | None, None => True
  | _, _ => False
  end ->
  match elements_lookup els key cur, abs_find_last_from l key curd with
  | Some (ty, it), Some d => ty = doc_type d /\ denotes strict true pj it d
  | None, None => True
  | _, _ => False
  end.
Proof.
  induction 1 as [|[[name ty] it] [k d] els l (E1 & E2 & E3) _ IH]; intros cur curd Hc.
  - exact Hc.
  - cbn [elements_lookup abs_find_last_from]. cbn [fst snd] in E1, E2, E3. subst name.
    apply IH. destruct (bytes_eqb key k); [split; assumption|exact Hc].
Qed.

Theorem parse_lookup_last pj o l key :
  N.of_nat (length (pj_msg pj)) < two64 -> N.of_nat (length (pj_strings pj)) < two64 ->
  obj_at strict true pj o l ->
  exists els, obj_parse pj o = Ok els /\
    match elements_lookup els key None, abs_find_last_from l key None with
    | Some (ty, it), Some d => ty = doc_type d /\ denotes strict true pj it d
    | None, None => True
    | _, _ => False
    end.
Proof.
  intros Bm Bs Ho. destruct (obj_parse_refines pj o l Bm Bs Ho) as (els & E & HF).
  exists els. split; [exact E|]. apply (elements_lookup_spec pj key els l HF None None). exact I.
Qed.

(* with unique keys first and last coincide *)
Lemma abs_find_last_unique l key :
  NoDup (map fst l) -> abs_find_last_from l key None = abs_find_key l key.
Proof.
  assert (G : forall l cur, ~ In key (map fst l) -> abs_find_last_from l key cur = cur).
  { induction l0 as [|[k v] r IH]; intros cur Hn; [reflexivity|]. cbn [abs_find_last_from].
    cbn [map fst In] in Hn.
    replace (bytes_eqb key k) with false
      by (symmetry; apply bytes_eqb_false_iff; intros ->; apply Hn; now left).
    apply IH. intros H. apply Hn. now right. }
  induction l as [|[k v] r IH]; intros Hnd; [reflexivity|].
  cbn [abs_find_last_from abs_find_key]. cbn [map fst] in Hnd. apply NoDup_cons_iff in Hnd.
  destruct Hnd as [Hni Hnd].
  destruct (bytes_eqb key k) eqn:E.
  - apply bytes_eqb_true_iff in E. subst k. apply G. exact Hni.
  - apply IH. exact Hnd.
Qed.

End Parse.

Print Assumptions obj_parse_refines.
Print Assumptions parse_lookup_last.
