(* NumFloat.v — C03, float part: the specification's decimal -> binary64
   conversion (Spec.Json.dec_round / dec_to_float) is the correctly rounded
   (nearest, ties-to-even) value, proved against Flocq. *)
From Coq Require Import ZArith Reals Lia Lra.
From Flocq Require Import Core BinarySingleNaN.
From Coq Require Import Floats.SpecFloat.
From SJ Require Import Model.Base Spec.Json.
Local Open Scope Z_scope.

Lemma Hprec : Prec_gt_0 Json.prec. Proof. unfold Prec_gt_0, Json.prec; lia. Qed.
Lemma Hmax : Prec_lt_emax Json.prec Json.emax.
Proof. unfold Prec_lt_emax, Json.prec, Json.emax; lia. Qed.
#[export] Existing Instance Hprec.
#[export] Existing Instance Hmax.

(* the binary64 format, as Flocq names it *)
Notation b64exp := (FLT_exp (-1074) 53).
Notation rnd64 := (round radix2 b64exp ZnearestE).

Lemma fexp_is_FLT : forall e, SpecFloat.fexp Json.prec Json.emax e = b64exp e.
Proof. intros e. unfold SpecFloat.fexp, SpecFloat.emin, FLT_exp, Json.prec, Json.emax. lia. Qed.

Lemma round_fexp_is_FLT : forall x,
  round radix2 (SpecFloat.fexp Json.prec Json.emax) ZnearestE x = rnd64 x.
Proof.
  intros x. unfold round, scaled_mantissa, cexp. rewrite fexp_is_FLT. reflexivity.
Qed.

(* SpecFloat's (mode-less) rounding core is Flocq's with mode_NE *)
Lemma binary_round_aux_NE : forall s m e l,
  SpecFloat.binary_round_aux Json.prec Json.emax s m e l
  = BinarySingleNaN.binary_round_aux Json.prec Json.emax mode_NE s m e l.
Proof.
  intros. unfold SpecFloat.binary_round_aux, BinarySingleNaN.binary_round_aux.
  destruct (shr_fexp Json.prec Json.emax m e l) as [mrs' e'].
  assert (H : round_nearest_even (shr_m mrs') (loc_of_shr_record mrs')
              = choice_mode mode_NE s (shr_m mrs') (loc_of_shr_record mrs')).
  { unfold round_nearest_even, choice_mode, Round.cond_incr, Round.round_N.
    destruct (loc_of_shr_record mrs') as [|[| |]]; try reflexivity.
    destruct (Z.even (shr_m mrs')); reflexivity. }
  rewrite H.
  destruct (shr_fexp Json.prec Json.emax _ e' loc_Exact) as [mrs'' e''].
  destruct (shr_m mrs''); try reflexivity.
Qed.

(* ------------------------------------------------------------------ *)
(* exact real value of a signed decimal  +-m * 10^e10                  *)

Definition radix10 : radix := Build_radix 10 eq_refl.

Definition dec_val (neg : bool) (m : positive) (e10 : Z) : R :=
  ((if neg then -1 else 1) * IZR (Zpos m) * powerRZ 10 e10)%R.

Lemma dec_val_bpow : forall neg m e10,
  dec_val neg m e10 = (IZR (cond_Zopp neg (Zpos m)) * bpow radix10 e10)%R.
Proof.
  intros. unfold dec_val. rewrite bpow_powerRZ. change (IZR radix10) with 10%R.
  destruct neg; unfold cond_Zopp.
  - rewrite opp_IZR. ring.
  - ring.
Qed.

Lemma dec_val_abs : forall neg m e10,
  Rabs (dec_val neg m e10) = (IZR (Zpos m) * bpow radix10 e10)%R.
Proof.
  intros. rewrite dec_val_bpow, Rabs_mult, <- abs_IZR, abs_cond_Zopp.
  rewrite (Rabs_pos_eq (bpow _ _)) by apply bpow_ge_0. reflexivity.
Qed.

Lemma dec_val_neq_0 : forall neg m e10, dec_val neg m e10 <> 0%R.
Proof.
  intros. intro H. apply (f_equal Rabs) in H. rewrite dec_val_abs, Rabs_R0 in H.
  assert (0 < IZR (Zpos m) * bpow radix10 e10)%R.
  { apply Rmult_lt_0_compat. apply IZR_lt; lia. apply bpow_gt_0. }
  lra.
Qed.

(* what "f is the correctly rounded binary64 of the real x, with sign s for
   zeros and infinities" means *)
Definition is_rounding_of (s : bool) (x : R) (f : spec_float) : Prop :=
  if Rlt_bool (Rabs (rnd64 x)) (bpow radix2 1024) then
    SF2R radix2 f = rnd64 x /\ sf_is_finite f = true /\ sign_SF f = s
    /\ valid_binary Json.prec Json.emax f = true
  else f = S754_infinity s.

Lemma sf_is_finite_eq : forall f, sf_is_finite f = is_finite_SF f.
Proof. destruct f; reflexivity. Qed.

Theorem dec_round_correct : forall neg m e10,
  is_rounding_of neg (dec_val neg m e10) (dec_round neg m e10).
Proof.
  intros neg m e10. unfold is_rounding_of. rewrite dec_val_bpow, sf_is_finite_eq.
  rewrite <- round_fexp_is_FLT. unfold dec_round.
  destruct (Z.leb_spec 0 e10) as [He|He].
  - assert (Hp : exists n, Z.pos m * 10 ^ e10 = Z.pos n).
    { assert (0 < Z.pos m * 10 ^ e10) by (apply Z.mul_pos_pos; [lia| apply Z.pow_pos_nonneg; lia]).
      destruct (Z.pos m * 10 ^ e10); try lia. eauto. }
    destruct Hp as [n Hn]. rewrite Hn.
    generalize (Bdiv_correct_aux Json.prec Json.emax Hprec Hmax mode_NE neg n 0 false 1 0).
    cbv zeta.
    replace (xorb neg false) with neg by (destruct neg; reflexivity).
    assert (Hx : (F2R (Float radix2 (cond_Zopp neg (Z.pos n)) 0) / F2R (Float radix2 (cond_Zopp false 1) 0))%R
                 = (IZR (cond_Zopp neg (Z.pos m)) * bpow radix10 e10)%R).
    { rewrite <- IZR_Zpower by lia. change (radix10 ^ e10) with (10 ^ e10). rewrite <- mult_IZR.
      replace (cond_Zopp neg (Z.pos m) * 10 ^ e10) with (cond_Zopp neg (Z.pos n)).
      2:{ rewrite <- Hn. destruct neg; unfold cond_Zopp; [rewrite Z.mul_opp_l|]; reflexivity. }
      unfold F2R, Fnum, Fexp, cond_Zopp at 2. rewrite Rmult_1_r. simpl bpow. field. }
    rewrite Hx.
    destruct (SFdiv_core_binary Json.prec Json.emax (Z.pos n) 0 1 0) as [[mz ez] lz].
    rewrite binary_round_aux_NE.
    intros [Hv H]. destruct Rlt_bool; [destruct H as (H1 & H2 & H3); auto | exact H].
  - assert (Hp : exists d, 10 ^ (- e10) = Z.pos d).
    { assert (0 < 10 ^ (- e10)) by (apply Z.pow_pos_nonneg; lia).
      destruct (10 ^ (- e10)); try lia. eauto. }
    destruct Hp as [d Hd]. rewrite Hd.
    generalize (Bdiv_correct_aux Json.prec Json.emax Hprec Hmax mode_NE neg m 0 false d 0).
    cbv zeta.
    replace (xorb neg false) with neg by (destruct neg; reflexivity).
    assert (Hx : (F2R (Float radix2 (cond_Zopp neg (Z.pos m)) 0) / F2R (Float radix2 (cond_Zopp false (Z.pos d)) 0))%R
                 = (IZR (cond_Zopp neg (Z.pos m)) * bpow radix10 e10)%R).
    { assert (Hb : bpow radix10 e10 = (/ IZR (Z.pos d))%R).
      { rewrite <- Hd. change (10 ^ (- e10)) with (radix10 ^ (- e10)).
        rewrite IZR_Zpower by lia. rewrite <- bpow_opp. f_equal. lia. }
      rewrite Hb.
      unfold F2R, Fnum, Fexp, cond_Zopp at 2. simpl bpow. field. apply IZR_neq. lia. }
    rewrite Hx.
    destruct (SFdiv_core_binary Json.prec Json.emax (Z.pos m) 0 (Z.pos d) 0) as [[mz ez] lz].
    rewrite binary_round_aux_NE.
    intros [Hv H]. destruct Rlt_bool; [destruct H as (H1 & H2 & H3); auto | exact H].
Qed.

(* ------------------------------------------------------------------ *)
(* number of decimal digits                                            *)

Lemma ndigits_aux_spec : forall fuel m acc,
  0 < m < 2 ^ Z.of_nat fuel ->
  let d := ndigits_aux fuel m acc - acc in
  1 <= d /\ 10 ^ (d - 1) <= m < 10 ^ d.
Proof.
  induction fuel as [|k IH]; intros m acc Hm.
  - change (2 ^ Z.of_nat 0) with 1 in Hm. lia.
  - cbn [ndigits_aux]. destruct (Z.ltb_spec m 10) as [Hlt|Hge].
    + replace (acc + 1 - acc) with 1 by lia. cbn zeta. change (10 ^ (1 - 1)) with 1. change (10 ^ 1) with 10. lia.
    + assert (Hk : 0 < m / 10 < 2 ^ Z.of_nat k).
      { rewrite Nat2Z.inj_succ, Z.pow_succ_r in Hm by lia.
        split. apply Z.div_str_pos; lia.
        apply Z.div_lt_upper_bound; lia. }
      specialize (IH (m / 10) (acc + 1) Hk). cbn zeta in IH |- *.
      set (d' := ndigits_aux k (m / 10) (acc + 1) - (acc + 1)) in *.
      replace (ndigits_aux k (m / 10) (acc + 1) - acc) with (d' + 1) by (unfold d'; lia).
      destruct IH as (Hd & Hlo & Hhi).
      replace (d' + 1 - 1) with (Z.succ (d' - 1)) by lia.
      replace (d' + 1) with (Z.succ d') by lia.
      rewrite !Z.pow_succ_r by lia.
      pose proof (Z.div_mod m 10 ltac:(lia)). pose proof (Z.mod_pos_bound m 10 ltac:(lia)).
      lia.
Qed.

Lemma ndigits_spec : forall p,
  1 <= ndigits p /\ 10 ^ (ndigits p - 1) <= Zpos p < 10 ^ ndigits p.
Proof.
  intros p. unfold ndigits.
  pose proof (ndigits_aux_spec (Pos.to_nat (Pos.size p)) (Zpos p) 0) as H.
  cbn zeta in H. rewrite Z.sub_0_r in H. apply H.
  split. lia. rewrite positive_nat_Z.
  pose proof (Pos.size_gt p) as Hs. 
  change 2 with (Z.pos 2). rewrite <- Pos2Z.inj_pow. lia.
Qed.

(* ------------------------------------------------------------------ *)
(* the two clamps of dec_to_float                                      *)

Lemma IZR_pos_bounds : forall p e10,
  (bpow radix10 (ndigits p - 1 + e10) <= IZR (Zpos p) * bpow radix10 e10
   < bpow radix10 (ndigits p + e10))%R.
Proof.
  intros p e10. destruct (ndigits_spec p) as (Hd & Hlo & Hhi).
  rewrite !bpow_plus.
  rewrite <- (IZR_Zpower radix10 (ndigits p - 1)) by lia.
  rewrite <- (IZR_Zpower radix10 (ndigits p)) by lia.
  change (Z.pow radix10) with (Z.pow 10).
  split.
  - apply Rmult_le_compat_r. apply bpow_ge_0. apply IZR_le. exact Hlo.
  - apply Rmult_lt_compat_r. apply bpow_gt_0. apply IZR_lt. exact Hhi.
Qed.

Lemma pow10_310_gt : (bpow radix2 1024 < bpow radix10 310)%R.
Proof.
  rewrite <- !IZR_Zpower by lia. apply IZR_lt. vm_compute. reflexivity.
Qed.

Lemma pow10_m331_lt : (bpow radix10 (-331) < bpow radix2 (-1075))%R.
Proof.
  change (-331) with (- (331)). change (-1075) with (- (1075)).
  rewrite !bpow_opp. apply Rinv_lt. apply bpow_gt_0.
  rewrite <- !IZR_Zpower by lia. apply IZR_lt. vm_compute. reflexivity.
Qed.

Lemma b64_format_2_1024 : generic_format radix2 b64exp (bpow radix2 1024).
Proof. apply generic_format_bpow. unfold FLT_exp. lia. Qed.

Lemma big_overflows : forall x,
  (bpow radix2 1024 <= Rabs x)%R ->
  Rlt_bool (Rabs (rnd64 x)) (bpow radix2 1024) = false.
Proof.
  intros x Hx. apply Rlt_bool_false.
  rewrite <- round_NE_abs by (apply FLT_exp_valid; unfold Prec_gt_0; lia).
  rewrite <- (round_generic radix2 b64exp ZnearestE (bpow radix2 1024)) at 1
    by apply b64_format_2_1024.
  apply round_le; try exact Hx.
  apply FLT_exp_valid; unfold Prec_gt_0; lia.
  apply valid_rnd_N.
Qed.

Lemma tiny_rounds_to_0 : forall x,
  x <> 0%R -> (Rabs x < bpow radix2 (-1075))%R -> rnd64 x = 0%R.
Proof.
  intros x Hx0 Hx.
  pose proof (mag_le_bpow radix2 x (-1075) Hx0 Hx) as Hle.
  destruct (mag radix2 x) as [ex Hex]. cbn [mag_val] in Hle. specialize (Hex Hx0).
  apply round_N_small with (ex := ex). exact Hex.
  unfold FLT_exp. lia.
Qed.

Theorem dec_to_float_correct : forall neg m e10,
  is_rounding_of neg (dec_val neg m e10) (dec_to_float neg (Zpos m) e10).
Proof.
  intros neg m e10. unfold dec_to_float.
  pose proof (IZR_pos_bounds m e10) as [Hlo Hhi]. rewrite <- (dec_val_abs neg) in Hlo, Hhi.
  destruct (Z.ltb_spec 310 (e10 + ndigits m)) as [Hbig|Hnb].
  - unfold is_rounding_of. rewrite big_overflows. reflexivity.
    apply Rle_trans with (2 := Hlo). apply Rlt_le.
    apply Rlt_le_trans with (1 := pow10_310_gt). apply bpow_le. lia.
  - destruct (Z.ltb_spec (e10 + ndigits m) (-330)) as [Hsmall|Hns].
    + unfold is_rounding_of. rewrite tiny_rounds_to_0.
      * rewrite Rabs_R0, Rlt_bool_true by apply bpow_gt_0.
        repeat split; reflexivity.
      * apply dec_val_neq_0.
      * apply Rlt_trans with (1 := Hhi). apply Rle_lt_trans with (2 := pow10_m331_lt).
        apply bpow_le. lia.
    + apply dec_round_correct.
Qed.

(* a zero mantissa gives a zero of the literal's sign *)
Lemma dec_to_float_zero : forall neg e10, dec_to_float neg 0 e10 = S754_zero neg.
Proof. reflexivity. Qed.

(* consequences in the form used by num_spec: the float value is accepted iff
   the correctly rounded value is below 2^1024 in magnitude *)
Corollary dec_to_float_finite_iff : forall neg m e10,
  sf_is_finite (dec_to_float neg (Zpos m) e10) = true <->
  (Rabs (rnd64 (dec_val neg m e10)) < bpow radix2 1024)%R.
Proof.
  intros neg m e10. pose proof (dec_to_float_correct neg m e10) as H.
  unfold is_rounding_of in H.
  destruct (Rlt_bool_spec (Rabs (rnd64 (dec_val neg m e10))) (bpow radix2 1024)) as [Hlt|Hge].
  - tauto.
  - rewrite H. cbn [sf_is_finite]. split; intro H'; [discriminate H' | exfalso; lra].
Qed.

Example dec_round_ex1 : dec_to_float true 125 (-1) = S754_finite true 7036874417766400 (-49).
Proof. vm_compute. reflexivity. Qed.
Example dec_round_ex2 : dec_to_float false 1 400 = S754_infinity false.
Proof. vm_compute. reflexivity. Qed.
Example dec_round_ex3 : bits_of_sf (dec_to_float false 49 (-325)) = 1%N.
Proof. vm_compute. reflexivity. Qed.
Example dec_round_ex4 : dec_to_float true 1 (-400) = S754_zero true.
Proof. vm_compute. reflexivity. Qed.
Example dec_round_ex5 :
  bits_of_sf (dec_to_float false 17976931348623157 292) = 9218868437227405311%N.
Proof. vm_compute. reflexivity. Qed.

Print Assumptions dec_round_correct.
Print Assumptions dec_to_float_correct.
