(* MaskProofsBits.v — bit-level facts about the 64-bit register operations of
   MaskModel.v: every operation is characterised by the value of bit i of its
   result ([tb x i]), addition through an explicit carry sequence, the
   carry-less multiplication by all-ones as a prefix XOR. *)
From Coq Require Import Lia ZifyBool ZifyNat ZifyN.
From SJ Require Import Model.Base Model.RefTables Model.Stage1 Proofs.MaskModel.
Open Scope N_scope.

Definition tb (x : N) (i : nat) : bool := N.testbit x (N.of_nat i).

Lemma two64_pow : two64 = 2 ^ 64.
Proof. reflexivity. Qed.
Lemma two63_pow : two63 = 2 ^ 63.
Proof. reflexivity. Qed.
Lemma ones64_ones : ones64 = N.ones 64.
Proof. reflexivity. Qed.

Lemma of_nat_S i : N.of_nat (S i) = N.succ (N.of_nat i).
Proof. apply Nat2N.inj_succ. Qed.

Lemma tb_ext x y : (forall i, tb x i = tb y i) -> x = y.
Proof.
  intros H. apply N.bits_inj. intros n. specialize (H (N.to_nat n)).
  unfold tb in H. rewrite N2Nat.id in H. exact H.
Qed.

Lemma tb_0 i : tb 0 i = false.
Proof. apply N.bits_0. Qed.

Lemma tb_land x y i : tb (N.land x y) i = tb x i && tb y i.
Proof. apply N.land_spec. Qed.
Lemma tb_lor x y i : tb (N.lor x y) i = tb x i || tb y i.
Proof. apply N.lor_spec. Qed.
Lemma tb_lxor x y i : tb (N.lxor x y) i = xorb (tb x i) (tb y i).
Proof. apply N.lxor_spec. Qed.

Lemma tb_ones64 i : tb ones64 i = (i <? 64)%nat.
Proof.
  unfold tb. rewrite ones64_ones.
  destruct (Nat.ltb_spec i 64) as [Hlt|Hge].
  - apply N.ones_spec_low. lia.
  - apply N.ones_spec_high. lia.
Qed.

Lemma tb_not64 x i : tb (not64 x) i = (i <? 64)%nat && negb (tb x i).
Proof. unfold not64, tb. rewrite N.ldiff_spec. fold (tb ones64 i). rewrite tb_ones64. reflexivity. Qed.

Lemma tb_andn64 a b i : tb (andn64 a b) i = negb (tb a i) && tb b i.
Proof. unfold andn64, tb. rewrite N.ldiff_spec. apply andb_comm. Qed.

Lemma tb_w64 x i : tb (w64 x) i = (i <? 64)%nat && tb x i.
Proof.
  unfold w64, tb. rewrite two64_pow.
  destruct (Nat.ltb_spec i 64) as [Hlt|Hge]; cbn [andb].
  - apply N.mod_pow2_bits_low. lia.
  - apply N.mod_pow2_bits_high. lia.
Qed.

Lemma tb_double_0 x : tb (x + x) 0 = false.
Proof.
  unfold tb. replace (x + x) with (2 * x) by lia. apply N.testbit_even_0.
Qed.
Lemma tb_double_S x i : tb (x + x) (S i) = tb x i.
Proof.
  unfold tb. replace (x + x) with (2 * x) by lia. rewrite of_nat_S. apply N.testbit_even_succ. lia.
Qed.

Lemma tb_shl1_0 x : tb (shl1 x) 0 = false.
Proof. unfold shl1. rewrite tb_w64, tb_double_0. apply andb_false_r. Qed.
Lemma tb_shl1_S x i : tb (shl1 x) (S i) = (S i <? 64)%nat && tb x i.
Proof. unfold shl1. rewrite tb_w64, tb_double_S. reflexivity. Qed.

(* a number below 2^64 has no bits from 64 on, and conversely *)
Lemma tb_high x i : x < two64 -> (64 <= i)%nat -> tb x i = false.
Proof.
  intros Hx Hi. unfold tb.
  destruct (N.eq_dec x 0) as [->|Hnz]; [apply N.bits_0|].
  apply N.bits_above_log2. apply N.log2_lt_pow2; [lia|].
  rewrite two64_pow in Hx.
  apply N.lt_le_trans with (2 ^ 64); [exact Hx|]. apply N.pow_le_mono_r; lia.
Qed.

Lemma lt64_of_tb x : (forall i, (64 <= i)%nat -> tb x i = false) -> x < two64.
Proof.
  intros H. rewrite two64_pow.
  replace x with (x mod 2 ^ 64); [apply N.mod_lt; discriminate|].
  change (2 ^ 64) with two64. fold (w64 x). apply tb_ext. intros i. rewrite tb_w64.
  destruct (Nat.ltb_spec i 64) as [Hlt|Hge]; cbn [andb]; [reflexivity|]. symmetry. apply H. exact Hge.
Qed.

Lemma w64_small x : x < two64 -> w64 x = x.
Proof. intros H. unfold w64. apply N.mod_small. exact H. Qed.

Lemma w64_lt x : w64 x < two64.
Proof. unfold w64. apply N.mod_lt. discriminate. Qed.

Lemma not64_lt x : not64 x < two64.
Proof. apply lt64_of_tb. intros i Hi. rewrite tb_not64. destruct (Nat.ltb_spec i 64); [lia|reflexivity]. Qed.

Lemma land_lt_l x y : x < two64 -> N.land x y < two64.
Proof. intros H. apply lt64_of_tb. intros i Hi. rewrite tb_land, (tb_high x i H Hi). reflexivity. Qed.
Lemma land_lt_r x y : y < two64 -> N.land x y < two64.
Proof. intros H. rewrite N.land_comm. apply land_lt_l. exact H. Qed.
Lemma lor_lt x y : x < two64 -> y < two64 -> N.lor x y < two64.
Proof.
  intros Hx Hy. apply lt64_of_tb. intros i Hi.
  rewrite tb_lor, (tb_high x i Hx Hi), (tb_high y i Hy Hi). reflexivity.
Qed.
Lemma lxor_lt x y : x < two64 -> y < two64 -> N.lxor x y < two64.
Proof.
  intros Hx Hy. apply lt64_of_tb. intros i Hi.
  rewrite tb_lxor, (tb_high x i Hx Hi), (tb_high y i Hy Hi). reflexivity.
Qed.
Lemma andn64_lt a b : b < two64 -> andn64 a b < two64.
Proof. intros H. apply lt64_of_tb. intros i Hi. rewrite tb_andn64, (tb_high b i H Hi). apply andb_false_r. Qed.

(* ------------------------------------------------------------------ *)
(* zero test through bits                                              *)

Lemma eq0_tb x : x = 0 <-> forall i, tb x i = false.
Proof.
  split.
  - intros -> i. apply tb_0.
  - intros H. apply tb_ext. intros i. rewrite tb_0. apply H.
Qed.

Lemma eqb0_existsb x : x < two64 ->
  negb (x =? 0) = existsb (fun i => tb x i) (seq 0 64).
Proof.
  intros Hx.
  destruct (existsb (fun i => tb x i) (seq 0 64)) eqn:E.
  - apply existsb_exists in E. destruct E as [i [_ Hi]].
    destruct (N.eqb_spec x 0) as [->|]; [rewrite tb_0 in Hi; discriminate|reflexivity].
  - destruct (N.eqb_spec x 0) as [|Hnz]; [reflexivity|]. exfalso. apply Hnz.
    apply eq0_tb. intros i.
    destruct (Nat.ltb_spec i 64) as [Hlt|Hge]; [|apply tb_high; assumption].
    destruct (tb x i) eqn:Hb; [|reflexivity].
    assert (Hex : existsb (fun i => tb x i) (seq 0 64) = true).
    { apply existsb_exists. exists i. split; [apply in_seq; lia|exact Hb]. }
    rewrite E in Hex. discriminate.
Qed.

(* ------------------------------------------------------------------ *)
(* masks of byte predicates                                            *)

Lemma tb_b2n_0 a (b : bool) : tb (2 * a + N.b2n b) 0 = b.
Proof. apply N.testbit_0_r. Qed.
Lemma tb_b2n_S a (b : bool) i : tb (2 * a + N.b2n b) (S i) = tb a i.
Proof. unfold tb. rewrite of_nat_S. apply N.testbit_succ_r. Qed.

Lemma tb_mask_of p : forall B i, tb (mask_of p B) i = (i <? length B)%nat && p (nth i B 0).
Proof.
  induction B as [|b r IH]; intros i.
  - cbn [mask_of length]. rewrite tb_0. reflexivity.
  - cbn [mask_of length]. destruct i as [|i].
    + rewrite tb_b2n_0. reflexivity.
    + rewrite tb_b2n_S, IH. cbn [nth]. reflexivity.
Qed.

Lemma mask_of_lt p B : (length B <= 64)%nat -> mask_of p B < two64.
Proof.
  intros H. apply lt64_of_tb. intros i Hi. rewrite tb_mask_of.
  destruct (Nat.ltb_spec i (length B)); [lia|reflexivity].
Qed.

Lemma tb_shiftl x n i : tb (N.shiftl x (N.of_nat n)) i = (n <=? i)%nat && tb x (i - n).
Proof.
  unfold tb. destruct (Nat.leb_spec n i) as [Hle|Hlt]; cbn [andb].
  - rewrite N.shiftl_spec_high' by lia. f_equal. lia.
  - apply N.shiftl_spec_low. lia.
Qed.

Lemma mask_of_avx2_eq p B : length B = 64%nat -> mask_of_avx2 p B = mask_of p B.
Proof.
  intros HB. apply tb_ext. intros i. unfold mask_of_avx2.
  rewrite tb_lor. change 32 with (N.of_nat 32). rewrite tb_shiftl, !tb_mask_of.
  rewrite firstn_length, skipn_length, HB.
  destruct (Nat.ltb_spec i 32) as [Hlt|Hge].
  - replace (i <? Nat.min 32 64)%nat with true by (symmetry; apply Nat.ltb_lt; lia).
    replace (i <? 64)%nat with true by (symmetry; apply Nat.ltb_lt; lia).
    replace (32 <=? i)%nat with false by (symmetry; apply Nat.leb_gt; lia).
    cbn [andb orb]. rewrite orb_false_r. f_equal.
    rewrite <- (firstn_skipn 32 B) at 2. rewrite app_nth1; [reflexivity|].
    rewrite firstn_length. lia.
  - replace (i <? Nat.min 32 64)%nat with false by (symmetry; apply Nat.ltb_ge; lia).
    replace (32 <=? i)%nat with true by (symmetry; apply Nat.leb_le; lia).
    cbn [andb orb].
    destruct (Nat.ltb_spec i 64) as [Hlt2|Hge2].
    + replace (i - 32 <? 64 - 32)%nat with true by (symmetry; apply Nat.ltb_lt; lia).
      cbn [andb]. f_equal.
      rewrite <- (firstn_skipn 32 B) at 2. rewrite app_nth2; rewrite firstn_length; [|lia].
      f_equal. lia.
    + replace (i - 32 <? 64 - 32)%nat with false by (symmetry; apply Nat.ltb_ge; lia).
      reflexivity.
Qed.

(* ------------------------------------------------------------------ *)
(* the constants 0x5555... and 0xAAAA...                               *)

Lemma tb_even_bits i : tb even_bits i = (i <? 64)%nat && Nat.even i.
Proof.
  destruct (Nat.ltb_spec i 64) as [Hlt|Hge]; cbn [andb].
  - assert (H : forallb (fun i => Bool.eqb (tb even_bits i) (Nat.even i)) (seq 0 64) = true)
      by (vm_compute; reflexivity).
    rewrite forallb_forall in H. apply eqb_prop. apply H. apply in_seq. lia.
  - apply tb_high; [reflexivity|exact Hge].
Qed.

Lemma tb_odd_bits i : tb odd_bits i = (i <? 64)%nat && Nat.odd i.
Proof.
  destruct (Nat.ltb_spec i 64) as [Hlt|Hge]; cbn [andb].
  - assert (H : forallb (fun i => Bool.eqb (tb odd_bits i) (Nat.odd i)) (seq 0 64) = true)
      by (vm_compute; reflexivity).
    rewrite forallb_forall in H. apply eqb_prop. apply H. apply in_seq. lia.
  - apply tb_high; [reflexivity|exact Hge].
Qed.

(* ------------------------------------------------------------------ *)
(* addition through an explicit carry sequence                         *)

Definition maj (a b c : bool) : bool := (a && b) || (c && (a || b)).

(* carry into bit i of a + b *)
Fixpoint carry (a b : N) (i : nat) : bool :=
  match i with
  | O => false
  | S k => maj (tb a k) (tb b k) (carry a b k)
  end.

Lemma tb_add a b i : tb (a + b) i = xorb (xorb (tb a i) (tb b i)) (carry a b i).
Proof.
  destruct (N.add_carry_bits a b false) as [c [Hsum [Hnext Hc0]]].
  cbn [N.b2n] in Hsum. rewrite N.add_0_r in Hsum.
  assert (Hc : forall k, tb c k = carry a b k).
  { induction k as [|k IH].
    - exact Hc0.
    - cbn [carry]. rewrite <- IH. unfold tb. rewrite of_nat_S, <- N.div2_bits, Hnext.
      rewrite N.lor_spec, !N.land_spec, N.lor_spec. reflexivity. }
  rewrite Hsum. rewrite !tb_lxor, Hc. reflexivity.
Qed.

(* the carry flag of a 64-bit addition *)
Lemma add64_carry a b : a < two64 -> b < two64 -> snd (add64 a b) = carry a b 64.
Proof.
  intros Ha Hb. unfold add64. cbn [snd].
  assert (H : tb (a + b) 64 = carry a b 64).
  { rewrite tb_add, (tb_high a 64 Ha), (tb_high b 64 Hb) by lia. cbn [xorb]. apply xorb_false_l. }
  rewrite <- H. unfold tb. change (N.of_nat 64) with 64.
  rewrite N.testbit_eqb. change (2 ^ 64) with two64.
  assert (Hs : a + b < 2 * two64) by lia.
  destruct (N.leb_spec two64 (a + b)) as [Hle|Hlt].
  - assert (Hq : (a + b) / two64 = 1).
    { symmetry. apply (N.div_unique (a + b) two64 1 (a + b - two64)); lia. }
    rewrite Hq. reflexivity.
  - rewrite N.div_small by exact Hlt. reflexivity.
Qed.

Lemma add64_fst_lt a b : fst (add64 a b) < two64.
Proof. apply w64_lt. Qed.

Lemma tb_add64 a b i : tb (fst (add64 a b)) i = (i <? 64)%nat && xorb (xorb (tb a i) (tb b i)) (carry a b i).
Proof. unfold add64. cbn [fst]. rewrite tb_w64, tb_add. reflexivity. Qed.

(* ------------------------------------------------------------------ *)
(* carry-less multiplication by all-ones = prefix XOR                  *)

(* XOR of f 0 .. f (n-1) *)
Fixpoint xor_upto (f : nat -> bool) (n : nat) : bool :=
  match n with
  | O => false
  | S k => xorb (xor_upto f k) (f k)
  end.

Lemma tb_clmul_ones a : forall n j, (j < 64)%nat ->
  tb (clmul n a ones64) j = xor_upto (fun i => tb a i) (Nat.min n (S j)).
Proof.
  induction n as [|n IH]; intros j Hj.
  - cbn [clmul Nat.min xor_upto]. apply tb_0.
  - cbn [clmul]. rewrite tb_lxor, IH by exact Hj. fold (tb a n).
    destruct (Nat.leb_spec n j) as [Hle|Hgt].
    + replace (Nat.min (S n) (S j)) with (S n) by lia.
      replace (Nat.min n (S j)) with n by lia.
      cbn [xor_upto]. f_equal.
      destruct (tb a n); [|apply tb_0].
      rewrite tb_shiftl, tb_ones64.
      replace (n <=? j)%nat with true by (symmetry; apply Nat.leb_le; lia).
      replace (j - n <? 64)%nat with true by (symmetry; apply Nat.ltb_lt; lia).
      reflexivity.
    + replace (Nat.min (S n) (S j)) with (S j) by lia.
      replace (Nat.min n (S j)) with (S j) by lia.
      replace (tb (if tb a n then N.shiftl ones64 (N.of_nat n) else 0) j) with false;
        [apply xorb_false_r|].
      destruct (tb a n); [|symmetry; apply tb_0].
      rewrite tb_shiftl.
      replace (n <=? j)%nat with false by (symmetry; apply Nat.leb_gt; lia). reflexivity.
Qed.

Lemma tb_clmul_lo64_ones a j :
  tb (clmul_lo64 a ones64) j = (j <? 64)%nat && xor_upto (fun i => tb a i) (S j).
Proof.
  unfold clmul_lo64. rewrite tb_w64.
  destruct (Nat.ltb_spec j 64) as [Hlt|Hge]; cbn [andb]; [|reflexivity].
  rewrite tb_clmul_ones by exact Hlt. f_equal. lia.
Qed.

(* ------------------------------------------------------------------ *)
(* the shifts by 63                                                    *)

Lemma shr63_eq x : x < two64 -> shr63 x = N.b2n (tb x 63).
Proof.
  intros Hx. unfold shr63, tb. change (N.of_nat 63) with 63.
  rewrite N.shiftr_div_pow2. rewrite N.testbit_eqb.
  assert (Hq : x / 2 ^ 63 < 2).
  { apply N.div_lt_upper_bound; [discriminate|]. change (2 ^ 63 * 2) with two64. exact Hx. }
  assert (Hc : x / 2 ^ 63 = 0 \/ x / 2 ^ 63 = 1) by lia.
  destruct Hc as [-> | ->]; reflexivity.
Qed.

Lemma sar63_eq x : x < two64 -> sar63 x = if tb x 63 then ones64 else 0.
Proof.
  intros Hx. unfold sar63, s64, tb. change (N.of_nat 63) with 63.
  rewrite N.testbit_eqb. rewrite Z.shiftr_div_pow2 by lia.
  assert (Hq : x / 2 ^ 63 < 2).
  { apply N.div_lt_upper_bound; [discriminate|]. change (2 ^ 63 * 2) with two64. exact Hx. }
  change (2 ^ 63) with two63 in *.
  destruct (N.ltb_spec x two63) as [Hlt|Hge].
  - rewrite (N.div_small x two63) by exact Hlt. cbn [N.modulo N.eqb].
    change (0 mod 2 =? 1) with false. cbv iota.
    rewrite Z.div_small; [reflexivity|]. split; [lia|].
    change (2 ^ 63)%Z with (Z.of_N two63). lia.
  - assert (Hq1 : x / two63 = 1).
    { symmetry. apply (N.div_unique x two63 1 (x - two63)); [|lia].
      unfold two63 in *. unfold two64 in Hx. lia. }
    rewrite Hq1. change (1 mod 2 =? 1) with true. cbv iota.
    assert (Hd : ((Z.of_N x - Z.of_N two64) / 2 ^ 63 = -1)%Z).
    { symmetry. apply (Z.div_unique _ _ (-1)%Z (Z.of_N x - Z.of_N two63)%Z).
      - left. change (2 ^ 63)%Z with (Z.of_N two63). unfold two63, two64 in *. lia.
      - change (2 ^ 63)%Z with (Z.of_N two63). unfold two63, two64 in *. lia. }
    rewrite Hd. reflexivity.
Qed.

Lemma sar63_cases x : x < two64 -> sar63 x = 0 \/ sar63 x = ones64.
Proof. intros Hx. rewrite sar63_eq by exact Hx. destruct (tb x 63); auto. Qed.
