(* FloatFmtSearch.v — C18, the digit search of Model.FloatFmt.shortest:
   integer tests against their real-number meaning, the decimal magnitude
   (adjust_p), and the search itself: soundness, minimality of the digit
   count, success at 17 digits, closest candidate. *)
From Coq Require Import ZArith Reals Lia Lra Bool.
From Flocq Require Import Core BinarySingleNaN.
From Coq Require Import Floats.SpecFloat.
From SJ Require Import Model.Base Spec.Json Model.Iter Model.FloatFmt
  Proofs.NumFloat Proofs.FloatFmtBits Proofs.FloatFmtReal.
Local Open Scope Z_scope.

(* ------------------------------------------------------------------ *)
(* powers of ten, decimals as reals                                     *)

Notation T := (bpow radix10).

Definition qval (num den : Z) : R := (IZR num / IZR den)%R.

Lemma T_nonneg k : 0 <= k -> T k = IZR (10 ^ k).
Proof. intros H. symmetry. exact (IZR_Zpower radix10 k H). Qed.

Lemma T_neg k : k < 0 -> T k = (/ IZR (10 ^ (- k)))%R.
Proof.
  intros H. replace k with (- (- k)) at 1 by lia. rewrite bpow_opp, T_nonneg by lia. reflexivity.
Qed.

Lemma pow10_pos k : 0 <= k -> 0 < 10 ^ k.
Proof. intros H. apply Z.pow_pos_nonneg; lia. Qed.

Lemma dval_lt a b k : a < b -> (dval a k < dval b k)%R.
Proof. intros H. unfold dval. apply Rmult_lt_compat_r; [apply bpow_gt_0|apply IZR_lt; exact H]. Qed.

Lemma dval_le a b k : a <= b -> (dval a k <= dval b k)%R.
Proof. intros H. unfold dval. apply Rmult_le_compat_r; [apply bpow_ge_0|apply IZR_le; exact H]. Qed.

Lemma dval_lt_inv a b k : (dval a k < dval b k)%R -> a < b.
Proof.
  intros H. destruct (Z.lt_ge_cases a b) as [Hlt|Hge]; [exact Hlt|exfalso].
  pose proof (dval_le b a k Hge). lra.
Qed.

Lemma dval_pow j k : 0 <= j -> dval (10 ^ j) k = T (j + k).
Proof. intros H. unfold dval. rewrite <- T_nonneg by exact H. rewrite bpow_plus. reflexivity. Qed.

Lemma dval_one k : dval 1 k = T k.
Proof. unfold dval. apply Rmult_1_l. Qed.

Lemma dval_shift c k' k : k <= k' -> dval c k' = dval (c * 10 ^ (k' - k)) k.
Proof.
  intros H. unfold dval. rewrite mult_IZR, <- T_nonneg by lia.
  rewrite Rmult_assoc, <- bpow_plus. f_equal. f_equal. lia.
Qed.

(* comparing a scaled integer with a fraction, in integers *)
Lemma Rcompare_scaled a k num den : 0 < den ->
  Rcompare (dval a k) (qval num den) =
  if 0 <=? k then (a * 10 ^ k * den ?= num) else (a * den ?= num * 10 ^ (- k)).
Proof.
  intros Hden. unfold dval, qval.
  assert (Hd : (0 < IZR den)%R) by (apply IZR_lt; exact Hden).
  destruct (Z.leb_spec 0 k) as [Hk|Hk].
  - rewrite T_nonneg by exact Hk.
    rewrite <- (Rcompare_mult_r (IZR den)) by exact Hd.
    replace (IZR num / IZR den * IZR den)%R with (IZR num) by (field; lra).
    rewrite <- !mult_IZR. apply Rcompare_IZR.
  - rewrite T_neg by exact Hk.
    assert (Hp : (0 < IZR (10 ^ (- k)))%R) by (apply IZR_lt, pow10_pos; lia).
    rewrite <- (Rcompare_mult_r (IZR den * IZR (10 ^ (- k)))) by (apply Rmult_lt_0_compat; assumption).
    replace (IZR a * / IZR (10 ^ (- k)) * (IZR den * IZR (10 ^ (- k))))%R with (IZR a * IZR den)%R
      by (field; lra).
    replace (IZR num / IZR den * (IZR den * IZR (10 ^ (- k))))%R with (IZR num * IZR (10 ^ (- k)))%R
      by (field; lra).
    rewrite <- !mult_IZR. apply Rcompare_IZR.
Qed.

Lemma scaled_le a k num den : 0 < den ->
  (dval a k <= qval num den)%R <->
  (if 0 <=? k then a * 10 ^ k * den <= num else a * den <= num * 10 ^ (- k)).
Proof.
  intros Hden. pose proof (Rcompare_scaled a k num den Hden) as H.
  split.
  - intros Hle. apply Rcompare_not_Gt in Hle. rewrite H in Hle.
    destruct (0 <=? k); exact Hle.
  - intros Hz. apply Rcompare_not_Gt_inv. rewrite H. destruct (0 <=? k); exact Hz.
Qed.

Lemma scaled_gt a k num den : 0 < den ->
  (qval num den < dval a k)%R <->
  (if 0 <=? k then num < a * 10 ^ k * den else num * 10 ^ (- k) < a * den).
Proof.
  intros Hden. pose proof (Rcompare_scaled a k num den Hden) as H.
  split.
  - intros Hlt. apply Rcompare_Gt in Hlt. rewrite H in Hlt.
    destruct (0 <=? k); apply Z.compare_gt_iff in Hlt; exact Hlt.
  - intros Hz. apply Rcompare_Gt_inv. rewrite H.
    destruct (0 <=? k); apply Z.compare_gt_iff; exact Hz.
Qed.

(* ------------------------------------------------------------------ *)
(* the integer tests of the model                                       *)

Section Tests.
Variables num den : Z.
Hypothesis Hnum : 0 < num.
Hypothesis Hden : 0 < den.
Let x := qval num den.

Lemma x_pos : (0 < x)%R.
Proof.
  unfold x, qval. apply Rdiv_lt_0_compat; apply IZR_lt; assumption.
Qed.

(* decimal magnitude *)
Definition mag10 (p : Z) : Prop := (T (p - 1) <= x < T p)%R.

Lemma lt_test p :
  (if 0 <=? p then num <? 10 ^ p * den else num * 10 ^ (- p) <? den) = true <-> (x < T p)%R.
Proof.
  rewrite <- dval_one. unfold x. rewrite (scaled_gt 1 p num den Hden).
  destruct (0 <=? p); rewrite Z.ltb_lt; lia.
Qed.

Lemma ge_test p :
  (if 0 <=? p - 1 then 10 ^ (p - 1) * den <=? num else den <=? num * 10 ^ (1 - p)) = true
  <-> (T (p - 1) <= x)%R.
Proof.
  rewrite <- dval_one. unfold x. rewrite (scaled_le 1 (p - 1) num den Hden).
  replace (- (p - 1)) with (1 - p) by lia.
  destruct (0 <=? p - 1); rewrite Z.leb_le; lia.
Qed.

Lemma adjust_p_spec : forall fuel p P,
  mag10 P -> Z.abs (p - P) < Z.of_nat fuel -> adjust_p fuel num den p = P.
Proof.
  induction fuel as [|f IH]; intros p P HP Hf; [lia|].
  cbn [adjust_p]. cbv zeta.
  destruct HP as [HP1 HP2].
  destruct (if 0 <=? p then num <? 10 ^ p * den else num * 10 ^ (- p) <? den) eqn:Elt.
  - apply lt_test in Elt. cbn [negb].
    destruct (if 0 <=? p - 1 then 10 ^ (p - 1) * den <=? num else den <=? num * 10 ^ (1 - p)) eqn:Ege.
    + apply ge_test in Ege. cbn [negb].
      (* T (p-1) <= x < T p and T (P-1) <= x < T P : p = P *)
      assert (p - 1 < P) by (apply (lt_bpow radix10); lra).
      assert (P - 1 < p) by (apply (lt_bpow radix10); lra).
      lia.
    + cbn [negb].
      assert (Hn : ~ (T (p - 1) <= x)%R).
      { intros H. apply ge_test in H. rewrite H in Ege. discriminate Ege. }
      assert (P < p).
      { destruct (Z.lt_ge_cases P p) as [Hlt|Hge]; [exact Hlt|exfalso]. apply Hn.
        apply Rle_trans with (2 := HP1). apply bpow_le. lia. }
      apply IH; [split; assumption|lia].
  - cbn [negb].
    assert (Hn : ~ (x < T p)%R).
    { intros H. apply lt_test in H. rewrite H in Elt. discriminate Elt. }
    assert (p < P).
    { destruct (Z.lt_ge_cases p P) as [Hlt|Hge]; [exact Hlt|exfalso]. apply Hn.
      apply Rlt_le_trans with (1 := HP2). apply bpow_le. lia. }
    apply IH; [split; assumption|lia].
Qed.

Lemma mag10_exists : exists P, mag10 P.
Proof.
  pose proof x_pos as Hx.
  destruct (mag radix10 x) as [P HP]. exists P.
  specialize (HP ltac:(lra)). rewrite Rabs_pos_eq in HP by lra. exact HP.
Qed.

Lemma mag10_unique p q : mag10 p -> mag10 q -> p = q.
Proof.
  intros [A1 A2] [B1 B2].
  assert (p - 1 < q) by (apply (lt_bpow radix10); lra).
  assert (q - 1 < p) by (apply (lt_bpow radix10); lra).
  lia.
Qed.

Lemma zdigits_bounds z : 0 < z -> (T (zdigits z - 1) <= IZR z < T (zdigits z))%R.
Proof.
  intros Hz. destruct z as [|q|q]; try lia. cbn [zdigits].
  destruct (ndigits_spec q) as (Hd & Hlo & Hhi).
  rewrite !T_nonneg by lia. split; [apply IZR_le; exact Hlo|apply IZR_lt; exact Hhi].
Qed.

(* the estimate used by [shortest] is within one of the magnitude *)
Lemma mag10_estimate P : mag10 P -> Z.abs (zdigits num - zdigits den - P) <= 1.
Proof.
  intros [HP1 HP2].
  destruct (zdigits_bounds num Hnum) as [N1 N2]. destruct (zdigits_bounds den Hden) as [D1 D2].
  set (dn := zdigits num) in *. set (dd := zdigits den) in *.
  assert (Hd : (0 < IZR den)%R) by (apply IZR_lt; exact Hden).
  assert (Hxd : (x * IZR den = IZR num)%R) by (unfold x, qval; field; lra).
  (* x < T (dn - dd + 1) *)
  assert (U : (x < T (dn - dd + 1))%R).
  { apply Rmult_lt_reg_r with (1 := Hd). rewrite Hxd.
    apply Rlt_le_trans with (1 := N2).
    replace dn with ((dn - dd + 1) + (dd - 1)) at 1 by lia. rewrite bpow_plus.
    apply Rmult_le_compat_l; [apply bpow_ge_0|exact D1]. }
  (* T (dn - dd - 1) < x *)
  assert (L : (T (dn - dd - 1) < x)%R).
  { apply Rmult_lt_reg_r with (1 := Hd). rewrite Hxd.
    apply Rlt_le_trans with (2 := N1).
    replace (dn - 1) with ((dn - dd - 1) + dd) by lia. rewrite bpow_plus.
    apply Rmult_lt_compat_l; [apply bpow_gt_0|exact D2]. }
  assert (dn - dd - 1 < P) by (apply (lt_bpow radix10); lra).
  assert (P - 1 < dn - dd + 1) by (apply (lt_bpow radix10); lra).
  lia.
Qed.

Theorem adjust_p_mag10 : mag10 (adjust_p 40 num den (zdigits num - zdigits den)).
Proof.
  destruct mag10_exists as [P HP].
  rewrite (adjust_p_spec 40 _ P HP); [exact HP|].
  pose proof (mag10_estimate P HP). lia.
Qed.

(* floor of x / 10^k *)
Lemma scaled_floor_spec k :
  let lo := scaled_floor num den k in
  0 <= lo /\ (dval lo k <= x < dval (lo + 1) k)%R.
Proof.
  cbv zeta. unfold x. rewrite (scaled_le _ k num den Hden), (scaled_gt _ k num den Hden).
  unfold scaled_floor. destruct (Z.leb_spec 0 k) as [Hk|Hk].
  - pose proof (pow10_pos k Hk) as Hp. set (P := 10 ^ k) in *.
    assert (HD : 0 < den * P) by (apply Z.mul_pos_pos; assumption).
    pose proof (Z.mul_div_le num (den * P) HD) as H1.
    pose proof (Z.mul_succ_div_gt num (den * P) HD) as H2.
    set (lo := num / (den * P)) in *.
    assert (0 <= lo) by (apply Z.div_pos; lia).
    replace (lo * P * den) with (den * P * lo) by ring.
    replace ((lo + 1) * P * den) with (den * P * Z.succ lo) by ring. lia.
  - pose proof (pow10_pos (- k) ltac:(lia)) as Hp. set (P := 10 ^ (- k)) in *.
    pose proof (Z.mul_div_le (num * P) den Hden) as H1.
    pose proof (Z.mul_succ_div_gt (num * P) den Hden) as H2.
    set (lo := num * P / den) in *.
    assert (0 <= lo) by (apply Z.div_pos; [apply Z.mul_nonneg_nonneg|]; lia).
    replace (lo * den) with (den * lo) by ring.
    replace ((lo + 1) * den) with (den * Z.succ lo) by ring. lia.
Qed.

(* with the magnitude known, the candidates at digit count j have j digits *)
Lemma scaled_floor_digits p j :
  mag10 p -> 1 <= j ->
  let lo := scaled_floor num den (p - j) in
  10 ^ (j - 1) <= lo /\ lo + 1 <= 10 ^ j.
Proof.
  intros [HP1 HP2] Hj. cbv zeta.
  destruct (scaled_floor_spec (p - j)) as (H0 & H1 & H2).
  set (lo := scaled_floor num den (p - j)) in *.
  split.
  - assert (10 ^ (j - 1) < lo + 1); [|lia].
    apply (dval_lt_inv _ _ (p - j)). rewrite dval_pow by lia.
    replace (j - 1 + (p - j)) with (p - 1) by lia. lra.
  - assert (lo < 10 ^ j); [|lia].
    apply (dval_lt_inv _ _ (p - j)). rewrite dval_pow by lia.
    replace (j + (p - j)) with p by lia. lra.
Qed.

(* cmp_mid compares x with the midpoint of c*10^k and (c+1)*10^k *)
Lemma cmp_mid_spec c k :
  cmp_mid num den c k = Rcompare (2 * x) (dval (2 * c + 1) k).
Proof.
  assert (E : (2 * x)%R = qval (2 * num) den).
  { unfold x, qval. rewrite mult_IZR. field. apply Rgt_not_eq, IZR_lt. exact Hden. }
  rewrite E, Rcompare_sym, (Rcompare_scaled _ k (2 * num) den Hden).
  unfold cmp_mid. destruct (0 <=? k); rewrite <- Z.compare_antisym; reflexivity.
Qed.

End Tests.

(* ------------------------------------------------------------------ *)
(* the search, one stage at a time                                      *)

Definition okc (b : N) (c k : Z) : bool :=
  match c with
  | Zpos q => (bits_of_sf (dec_to_float false (Zpos q) k) =? b)%N
  | _ => false
  end.

Definition pick (num den lo k : Z) : Z :=
  match cmp_mid num den lo k with
  | Lt => lo
  | Gt => lo + 1
  | Eq => if Z.even lo then lo else lo + 1
  end.

Lemma search_S f n b num den p :
  shortest_search (S f) n b num den p =
  let k := p - n in
  let lo := scaled_floor num den k in
  if okc b lo k && okc b (lo + 1) k then (pick num den lo k, k)
  else if okc b lo k then (lo, k)
  else if okc b (lo + 1) k then (lo + 1, k)
  else shortest_search f (n + 1) b num den p.
Proof.
  cbn [shortest_search]. cbv zeta. fold (okc b (scaled_floor num den (p - n)) (p - n)).
  fold (okc b (scaled_floor num den (p - n) + 1) (p - n)). unfold pick.
  destruct (okc b (scaled_floor num den (p - n)) (p - n) && okc b (scaled_floor num den (p - n) + 1) (p - n));
    [|reflexivity].
  destruct (cmp_mid num den (scaled_floor num den (p - n)) (p - n)); try reflexivity.
  destruct (Z.even (scaled_floor num den (p - n))); reflexivity.
Qed.

Lemma okc_pos b c k : okc b c k = true -> 0 < c.
Proof. destruct c; cbn [okc]; intros H; try discriminate H; lia. Qed.

Lemma okc_bits b c k : okc b c k = true -> bits_of_sf (dec_to_float false c k) = b.
Proof. destruct c; cbn [okc]; intros H; try discriminate H. apply N.eqb_eq. exact H. Qed.

Lemma pick_cases num den lo k : pick num den lo k = lo \/ pick num den lo k = lo + 1.
Proof. unfold pick. destruct (cmp_mid num den lo k); auto. destruct (Z.even lo); auto. Qed.

(* what a successful search returned: the stage n', failures before it, and
   the choice made at it *)
Definition stage_choice (b : N) (num den p n' c : Z) : Prop :=
  let k := p - n' in
  let lo := scaled_floor num den k in
  (okc b lo k = true /\ okc b (lo + 1) k = true /\ c = pick num den lo k) \/
  (okc b lo k = true /\ okc b (lo + 1) k = false /\ c = lo) \/
  (okc b lo k = false /\ okc b (lo + 1) k = true /\ c = lo + 1).

Lemma search_inv : forall fuel n b num den p c k,
  shortest_search fuel n b num den p = (c, k) -> 0 < c ->
  exists n', n <= n' < n + Z.of_nat fuel /\ k = p - n' /\
    (forall j, n <= j < n' ->
       okc b (scaled_floor num den (p - j)) (p - j) = false /\
       okc b (scaled_floor num den (p - j) + 1) (p - j) = false) /\
    stage_choice b num den p n' c.
Proof.
  induction fuel as [|f IH]; intros n b num den p c k H Hc.
  { cbn [shortest_search] in H. injection H as <- <-. lia. }
  rewrite search_S in H. cbv zeta in H.
  destruct (okc b (scaled_floor num den (p - n)) (p - n)) eqn:Elo;
  destruct (okc b (scaled_floor num den (p - n) + 1) (p - n)) eqn:Ehi; cbn [andb] in H.
  - injection H as <- <-. exists n. repeat split; try lia.
    unfold stage_choice. cbv zeta. rewrite Elo, Ehi. left. auto.
  - injection H as <- <-. exists n. repeat split; try lia.
    unfold stage_choice. cbv zeta. rewrite Elo, Ehi. right. left. auto.
  - injection H as <- <-. exists n. repeat split; try lia.
    unfold stage_choice. cbv zeta. rewrite Elo, Ehi. right. right. auto.
  - destruct (IH (n + 1) b num den p c k H Hc) as (n' & Hn' & Hk & Hfail & Hch).
    exists n'. split; [lia|]. split; [exact Hk|]. split; [|exact Hch].
    intros j Hj. destruct (Z.eq_dec j n) as [->|Hne]; [split; assumption|].
    apply Hfail. lia.
Qed.

(* (a) soundness: the decimal returned parses back to the bit pattern *)
Theorem shortest_search_sound : forall fuel n b num den p c k,
  shortest_search fuel n b num den p = (c, k) -> 0 < c ->
  bits_of_sf (dec_to_float false c k) = b.
Proof.
  intros fuel n b num den p c k H Hc.
  destruct (search_inv fuel n b num den p c k H Hc) as (n' & _ & -> & _ & Hch).
  unfold stage_choice in Hch. cbv zeta in Hch.
  destruct Hch as [(A & B & ->)|[(A & B & ->)|(A & B & ->)]].
  - destruct (pick_cases num den (scaled_floor num den (p - n')) (p - n')) as [-> | ->];
      apply okc_bits; assumption.
  - apply okc_bits; assumption.
  - apply okc_bits; assumption.
Qed.

(* ------------------------------------------------------------------ *)
(* the search on a float                                                *)

Section Search.
Variables (m : positive) (e : Z).
Hypothesis Hb : SpecFloat.bounded 53 1024 m e = true.
Variables num den : Z.
Hypothesis Hnum : 0 < num.
Hypothesis Hden : 0 < den.
Hypothesis Hx : qval num den = xval m e.
Let b := bits_of_sf (S754_finite false m e).
Let x := qval num den.

Lemma x_format : generic_format radix2 b64exp x.
Proof. unfold x. rewrite Hx. apply xval_format. exact Hb. Qed.

Lemma okc_iff c k : okc b c k = true <-> 0 < c /\ rnd64 (dval c k) = x.
Proof.
  unfold x. rewrite Hx. destruct c as [|q|q]; cbn [okc].
  - split; [discriminate|lia].
  - rewrite N.eqb_eq. unfold b. rewrite (dec_ok_iff m e q k Hb). split; [intros H; split; [lia|exact H]|tauto].
  - split; [discriminate|lia].
Qed.

(* completeness of a stage: if any decimal with at most j digits parses back
   to x, so does the floor or the ceiling candidate at digit count j *)
Lemma stage_complete p j c' k' :
  mag10 num den p -> 1 <= j -> 0 < c' < 10 ^ j ->
  rnd64 (dval c' k') = x ->
  let lo := scaled_floor num den (p - j) in
  okc b lo (p - j) = true \/ okc b (lo + 1) (p - j) = true.
Proof.
  intros Hp Hj Hc' Hr. cbv zeta.
  destruct (scaled_floor_spec num den Hnum Hden (p - j)) as (H0 & H1 & H2).
  destruct (scaled_floor_digits num den Hnum Hden p j Hp Hj) as (D1 & D2).
  set (k := p - j) in *. set (lo := scaled_floor num den k) in *. fold x in H1, H2.
  destruct Hp as [HP1 HP2]. fold x in HP1, HP2.
  pose proof x_format as Fx.
  assert (Hlopos : 0 < lo) by (pose proof (pow10_pos (j - 1) ltac:(lia)); lia).
  (* decimals with a smaller exponent and at most j digits are below 10^(p-1) *)
  assert (Hsmall : k' < k -> (dval c' k' < T (p - 1))%R).
  { intros Hk. apply Rlt_le_trans with (dval (10 ^ j) k'); [apply dval_lt; lia|].
    rewrite dval_pow by lia. apply bpow_le. lia. }
  assert (Hlo10 : (T (p - 1) <= dval lo k)%R).
  { replace (p - 1) with ((j - 1) + k) by lia. rewrite <- dval_pow by lia. apply dval_le. exact D1. }
  destruct (Rle_or_lt (dval c' k') x) as [Hle|Hgt].
  - left. apply okc_iff. split; [exact Hlopos|].
    apply (rnd_between_lo x (dval c' k')); [exact Fx| |exact H1|exact Hr].
    destruct (Z.le_gt_cases k k') as [Hk|Hk].
    + rewrite (dval_shift c' k' k Hk) in Hle |- *. apply dval_le.
      assert (c' * 10 ^ (k' - k) < lo + 1) by (apply (dval_lt_inv _ _ k); lra). lia.
    + specialize (Hsmall ltac:(lia)). lra.
  - right. apply okc_iff. split; [lia|].
    apply (rnd_between_hi x (dval c' k')); [exact Fx|lra| |exact Hr].
    destruct (Z.le_gt_cases k k') as [Hk|Hk].
    + rewrite (dval_shift c' k' k Hk) in Hgt |- *. apply dval_le.
      assert (lo < c' * 10 ^ (k' - k)) by (apply (dval_lt_inv _ _ k); lra). lia.
    + specialize (Hsmall ltac:(lia)). lra.
Qed.

(* (b) minimality: the search stops at the smallest digit count for which
   any decimal parses back to x *)
Theorem shortest_search_minimal : forall fuel n p c k,
  mag10 num den p -> 1 <= n ->
  shortest_search fuel n b num den p = (c, k) -> 0 < c ->
  forall j c' k', n <= j < p - k -> 0 < c' < 10 ^ j ->
    bits_of_sf (dec_to_float false c' k') <> b.
Proof.
  intros fuel n p c k Hp Hn H Hc j c' k' Hj Hc' Hbits.
  destruct (search_inv fuel n b num den p c k H Hc) as (n' & Hn' & Hk & Hfail & _).
  destruct (Hfail j ltac:(lia)) as [F1 F2].
  assert (Hr : rnd64 (dval c' k') = x).
  { assert (Ho : okc b c' k' = true).
    { destruct c' as [|q|q]; try lia. cbn [okc]. apply N.eqb_eq. exact Hbits. }
    apply okc_iff in Ho. tauto. }
  destruct (stage_complete p j c' k' Hp ltac:(lia) Hc' Hr) as [A|A]; congruence.
Qed.

(* (c) 17 digits always suffice *)
Lemma T_m16 : T (-16) = (/ 10000000000000000)%R.
Proof. rewrite T_neg by lia. reflexivity. Qed.

Lemma stage_17 p :
  mag10 num den p ->
  let lo := scaled_floor num den (p - 17) in
  okc b lo (p - 17) = true \/ okc b (lo + 1) (p - 17) = true.
Proof.
  intros Hp. cbv zeta.
  destruct (scaled_floor_spec num den Hnum Hden (p - 17)) as (H0 & H1 & H2).
  destruct (scaled_floor_digits num den Hnum Hden p 17 Hp ltac:(lia)) as (D1 & D2).
  set (k := p - 17) in *. set (lo := scaled_floor num den k) in *. fold x in H1, H2.
  destruct Hp as [HP1 HP2]. fold x in HP1, HP2.
  pose proof x_format as Fx. pose proof (x_pos num den Hnum Hden) as Hxpos. fold x in Hxpos.
  assert (Hlopos : 0 < lo) by (change (10 ^ (17 - 1)) with 10000000000000000 in D1; lia).
  (* the spacing 10^k is at most x * 10^-16 *)
  assert (Hsp : (T k <= x * / 10000000000000000)%R).
  { rewrite <- T_m16. apply Rle_trans with (T (p - 1) * T (-16))%R.
    - rewrite <- bpow_plus. apply bpow_le. lia.
    - apply Rmult_le_compat_r; [apply bpow_ge_0|exact HP1]. }
  assert (Hstep : (dval (lo + 1) k = dval lo k + T k)%R).
  { unfold dval. rewrite plus_IZR. ring. }
  destruct (Rle_or_lt (x - dval lo k) (T k / 2)) as [Hnear|Hfar].
  - left. apply okc_iff. split; [exact Hlopos|].
    apply rnd_near; [exact Fx|exact Hxpos|].
    rewrite Rabs_left1 by lra. lra.
  - right. apply okc_iff. split; [lia|].
    apply rnd_near; [exact Fx|exact Hxpos|].
    rewrite Rabs_pos_eq by lra. lra.
Qed.

Theorem shortest_exists_17 : forall fuel n p,
  mag10 num den p -> n <= 17 < n + Z.of_nat fuel ->
  exists c k, shortest_search fuel n b num den p = (c, k) /\ 0 < c.
Proof.
  induction fuel as [|f IH]; intros n p Hp Hn; [lia|].
  rewrite search_S. cbv zeta.
  destruct (okc b (scaled_floor num den (p - n)) (p - n)) eqn:Elo;
  destruct (okc b (scaled_floor num den (p - n) + 1) (p - n)) eqn:Ehi; cbn [andb].
  - eexists _, _. split; [reflexivity|].
    destruct (pick_cases num den (scaled_floor num den (p - n)) (p - n)) as [-> | ->];
      eapply okc_pos; eassumption.
  - eexists _, _. split; [reflexivity|]. eapply okc_pos; eassumption.
  - eexists _, _. split; [reflexivity|]. eapply okc_pos; eassumption.
  - destruct (Z.eq_dec n 17) as [->|Hne].
    + exfalso. destruct (stage_17 p Hp) as [A|A]; congruence.
    + apply IH; [exact Hp|lia].
Qed.

(* (d) closest: among the decimals with the returned exponent that parse back
   to x, the one returned is nearest to x; on a tie the even one is returned *)
Theorem shortest_search_closest : forall fuel n p c k,
  shortest_search fuel n b num den p = (c, k) -> 0 < c ->
  forall c', okc b c' k = true ->
    (Rabs (dval c k - x) <= Rabs (dval c' k - x))%R /\
    (c' <> c -> Rabs (dval c k - x) = Rabs (dval c' k - x) -> Z.even c = true).
Proof.
  intros fuel n p c k H Hc c' Hc'.
  destruct (search_inv fuel n b num den p c k H Hc) as (n' & _ & Hk & _ & Hch).
  unfold stage_choice in Hch. cbv zeta in Hch. rewrite <- Hk in Hch.
  destruct (scaled_floor_spec num den Hnum Hden k) as (H0 & H1 & H2). fold x in H1, H2.
  set (lo := scaled_floor num den k) in *.
  pose proof x_format as Fx.
  apply okc_iff in Hc'. destruct Hc' as [Hc'pos Hc'r].
  pose proof (bpow_gt_0 radix10 k) as HT.
  assert (Hstep : forall a, (dval (a + 1) k = dval a k + T k)%R).
  { intros a. unfold dval. rewrite plus_IZR. ring. }
  (* distances *)
  assert (Dlo : c' <= lo -> (Rabs (dval c' k - x) = x - dval c' k)%R /\ (dval c' k <= dval lo k)%R).
  { intros Hle. pose proof (dval_le c' lo k Hle). split; [|assumption]. rewrite Rabs_left1; lra. }
  assert (Dhi : lo + 1 <= c' -> (Rabs (dval c' k - x) = dval c' k - x)%R /\ (dval (lo + 1) k <= dval c' k)%R).
  { intros Hge. pose proof (dval_le (lo + 1) c' k Hge). split; [|assumption]. rewrite Rabs_pos_eq; lra. }
  assert (Dlo1 : c' < lo -> (dval c' k + T k <= dval lo k)%R).
  { intros Hlt. rewrite <- Hstep. apply dval_le. lia. }
  assert (Dhi1 : lo + 1 < c' -> (dval (lo + 1) k + T k <= dval c' k)%R).
  { intros Hlt. rewrite <- Hstep. apply dval_le. lia. }
  assert (Alo : (Rabs (dval lo k - x) = x - dval lo k)%R) by (rewrite Rabs_left1; lra).
  assert (Ahi : (Rabs (dval (lo + 1) k - x) = dval (lo + 1) k - x)%R) by (rewrite Rabs_pos_eq; lra).
  (* a candidate beyond a failed neighbour would make the neighbour succeed *)
  assert (Nhi : okc b (lo + 1) k = false -> c' <= lo).
  { intros Hf. destruct (Z.le_gt_cases c' lo) as [Hle|Hgt]; [exact Hle|exfalso].
    destruct (Dhi ltac:(lia)) as [_ Hd].
    assert (okc b (lo + 1) k = true); [|congruence].
    apply okc_iff. split; [lia|].
    apply (rnd_between_hi x (dval c' k)); [exact Fx|lra|exact Hd|exact Hc'r]. }
  assert (Nlo : okc b lo k = false -> lo + 1 <= c').
  { intros Hf. destruct (Z.le_gt_cases (lo + 1) c') as [Hle|Hgt]; [exact Hle|exfalso].
    destruct (Dlo ltac:(lia)) as [_ Hd].
    assert (okc b lo k = true); [|congruence].
    apply okc_iff. split; [lia|].
    apply (rnd_between_lo x (dval c' k)); [exact Fx|exact Hd|exact H1|exact Hc'r]. }
  destruct Hch as [(A & B & ->)|[(A & B & ->)|(A & B & ->)]].
  - (* both succeed: cmp_mid decides *)
    unfold pick. rewrite (cmp_mid_spec num den Hden lo k). fold x.
    assert (Hmid : (dval (2 * lo + 1) k = dval lo k + dval (lo + 1) k)%R).
    { unfold dval. rewrite !plus_IZR, mult_IZR. ring. }
    destruct (Rcompare_spec (2 * x) (dval (2 * lo + 1) k)) as [Hlt|Heq|Hgt].
    + (* x below the midpoint: lo *)
      rewrite Alo. destruct (Z.le_gt_cases c' lo) as [Hle|Hgt].
      * destruct (Dlo Hle) as [-> Hd]. split; [lra|]. intros Hne Heq. exfalso.
        specialize (Dlo1 ltac:(lia)). lra.
      * destruct (Dhi ltac:(lia)) as [-> Hd]. split; [lra|]. intros _ Heq. exfalso. lra.
    + (* tie *)
      destruct (Z.even lo) eqn:Ev.
      * rewrite Alo. destruct (Z.le_gt_cases c' lo) as [Hle|Hgt].
        -- destruct (Dlo Hle) as [-> Hd]. split; [lra|]. intros _ _. exact Ev.
        -- destruct (Dhi ltac:(lia)) as [-> Hd]. split; [lra|]. intros _ _. exact Ev.
      * assert (Ev' : Z.even (lo + 1) = true).
        { rewrite Z.add_1_r, Z.even_succ, <- Z.negb_even, Ev. reflexivity. }
        rewrite Ahi. destruct (Z.le_gt_cases c' lo) as [Hle|Hgt].
        -- destruct (Dlo Hle) as [-> Hd]. split; [lra|]. intros _ _. exact Ev'.
        -- destruct (Dhi ltac:(lia)) as [-> Hd]. split; [lra|]. intros _ _. exact Ev'.
    + (* x above the midpoint: hi *)
      rewrite Ahi. destruct (Z.le_gt_cases c' lo) as [Hle|Hgt'].
      * destruct (Dlo Hle) as [-> Hd]. split; [lra|]. intros _ Heq. exfalso. lra.
      * destruct (Dhi ltac:(lia)) as [-> Hd]. split; [lra|]. intros Hne Heq. exfalso.
        specialize (Dhi1 ltac:(lia)). lra.
  - (* only the floor candidate *)
    specialize (Nhi B). rewrite Alo. destruct (Dlo Nhi) as [-> Hd]. split; [lra|].
    intros Hne Heq. exfalso. specialize (Dlo1 ltac:(lia)). lra.
  - (* only the ceiling candidate *)
    specialize (Nlo A). rewrite Ahi. destruct (Dhi Nlo) as [-> Hd]. split; [lra|].
    intros Hne Heq. exfalso. specialize (Dhi1 ltac:(lia)). lra.
Qed.

(* the returned integer has the digit count of its stage (or is 10^count) *)
Theorem shortest_search_range : forall fuel n p c k,
  mag10 num den p -> 1 <= n ->
  shortest_search fuel n b num den p = (c, k) -> 0 < c ->
  n <= p - k < n + Z.of_nat fuel /\ 10 ^ (p - k - 1) <= c <= 10 ^ (p - k).
Proof.
  intros fuel n p c k Hp Hn H Hc.
  destruct (search_inv fuel n b num den p c k H Hc) as (n' & Hn' & Hk & _ & Hch).
  replace (p - k) with n' by lia. split; [lia|].
  destruct (scaled_floor_digits num den Hnum Hden p n' Hp ltac:(lia)) as (D1 & D2).
  unfold stage_choice in Hch. cbv zeta in Hch.
  set (lo := scaled_floor num den (p - n')) in *.
  destruct Hch as [(A & B & ->)|[(A & B & ->)|(A & B & ->)]]; try lia.
  destruct (pick_cases num den lo (p - n')) as [-> | ->]; lia.
Qed.

(* (d) in full: among ALL decimals with at most as many digits as the stage
   reached that parse back to x, the one returned is nearest to x *)
Theorem shortest_search_closest_all : forall fuel n p c k,
  mag10 num den p -> 1 <= n ->
  shortest_search fuel n b num den p = (c, k) -> 0 < c ->
  forall c2 k2, 0 < c2 < 10 ^ (p - k) -> rnd64 (dval c2 k2) = x ->
    (Rabs (dval c k - x) <= Rabs (dval c2 k2 - x))%R.
Proof.
  intros fuel n p c k Hp Hn H Hc c2 k2 Hc2 Hr.
  destruct (shortest_search_range fuel n p c k Hp Hn H Hc) as [Hrange _].
  destruct (Z.le_gt_cases k k2) as [Hk|Hk].
  - rewrite (dval_shift c2 k2 k Hk) in Hr |- *.
    apply (shortest_search_closest fuel n p c k H Hc). apply okc_iff. split; [|exact Hr].
    apply Z.mul_pos_pos; [lia|apply pow10_pos; lia].
  - set (j := p - k) in *.
    destruct (scaled_floor_spec num den Hnum Hden k) as (H0 & H1 & H2). fold x in H1, H2.
    destruct (scaled_floor_digits num den Hnum Hden p j Hp ltac:(lia)) as (D1 & D2).
    replace (p - j) with k in D1, D2 by (unfold j; lia).
    set (lo := scaled_floor num den k) in *.
    assert (Hv : (dval c2 k2 < T (p - 1))%R).
    { apply Rlt_le_trans with (dval (10 ^ j) k2); [apply dval_lt; lia|].
      rewrite dval_pow by lia. apply bpow_le. unfold j. lia. }
    assert (Hlo10 : (T (p - 1) <= dval lo k)%R).
    { replace (p - 1) with ((j - 1) + k) by (unfold j; lia). rewrite <- dval_pow by lia.
      apply dval_le. exact D1. }
    assert (Hlo : okc b lo k = true).
    { apply okc_iff. split; [pose proof (pow10_pos (j - 1) ltac:(lia)); lia|].
      apply (rnd_between_lo x (dval c2 k2)); [apply x_format|lra|exact H1|exact Hr]. }
    destruct (shortest_search_closest fuel n p c k H Hc lo Hlo) as [Hcl _].
    apply Rle_trans with (1 := Hcl).
    rewrite (Rabs_left1 (dval lo k - x)) by lra. rewrite (Rabs_left1 (dval c2 k2 - x)) by lra. lra.
Qed.

End Search.

(* ------------------------------------------------------------------ *)
(* numerator / denominator of a float, as [shortest] builds them        *)

Definition fnum (m : positive) (e : Z) : Z := if 0 <=? e then Zpos m * 2 ^ e else Zpos m.
Definition fden (e : Z) : Z := if 0 <=? e then 1 else 2 ^ (- e).

Lemma fnum_fden m e : 0 < fnum m e /\ 0 < fden e /\ qval (fnum m e) (fden e) = xval m e.
Proof.
  unfold fnum, fden, qval, xval, F2R. cbn [Fnum Fexp].
  destruct (Z.leb_spec 0 e) as [He|He].
  - assert (0 < 2 ^ e) by (apply Z.pow_pos_nonneg; lia).
    split; [lia|]. split; [lia|].
    rewrite mult_IZR, (IZR_Zpower radix2) by exact He. field.
  - assert (0 < 2 ^ (- e)) by (apply Z.pow_pos_nonneg; lia).
    split; [lia|]. split; [lia|].
    replace e with (- (- e)) at 2 by lia. rewrite bpow_opp, <- (IZR_Zpower radix2) by lia.
    change (radix2 ^ (- e)) with (2 ^ (- e)). field. apply Rgt_not_eq, IZR_lt. lia.
Qed.

Print Assumptions shortest_search_sound.
Print Assumptions shortest_search_minimal.
Print Assumptions shortest_exists_17.
Print Assumptions shortest_search_closest.
Print Assumptions shortest_search_closest_all.
Print Assumptions adjust_p_mag10.
