(* LookupTop.v — how the hypotheses of the lookup theorems are met: the
   Object / Array obtained from a denoting iterator, the containers at every
   abstract path of a tape_ok tape, and the iterator on the first root. *)
From SJ Require Import Model.Base Model.RefTables Spec.Json Spec.EditSpec Model.Tape
     Model.Iter Model.Walk Model.Edit Model.WF.
From SJ Require Import Proofs.TapeBase Proofs.TapeSeg Proofs.TapeDen Proofs.TapePath
     Proofs.TapeEdit Proofs.TapeIter Proofs.TapeDelete Proofs.TapeWF Proofs.TapeWalk
     Proofs.TapePathFun Proofs.TapeLocal Proofs.TapePathInj Proofs.TapeProofs
     Proofs.LookupBase Proofs.LookupFind Proofs.LookupPath Proofs.LookupEach Proofs.LookupNum
     Proofs.LookupBulk Proofs.LookupIface.
From Coq Require Import Lia ZifyBool ZifyN ZifyNat.
Open Scope N_scope.

(* the Object o stands on the object with members l; the Array a on the array
   with elements l *)
Definition obj_at (strict adj : bool) (pj : pjson) (o : cont) (l : list (bytes * doc)) : Prop :=
  exists pre sub post, pj_tape pj = pre ++ sub ++ post /\
    val_seg (pj_msg pj) (pj_strings pj) strict adj (nlen pre) sub (DObj l) /\ cont_at o pre sub.

Definition arr_at (strict adj : bool) (pj : pjson) (a : cont) (l : list doc) : Prop :=
  exists pre sub post, pj_tape pj = pre ++ sub ++ post /\
    val_seg (pj_msg pj) (pj_strings pj) strict adj (nlen pre) sub (DArr l) /\ cont_at a pre sub.

(* Iter.Object() / Iter.Array() on a denoting iterator *)
Theorem denotes_object strict adj pj it l :
  denotes strict adj pj it (DObj l) -> exists o, iter_object it = Ok o /\ obj_at strict adj pj o l.
Proof.
  intros (pre & v & post & Ht & Hv & (Hon & _)).
  destruct (iter_object_cont_at strict adj pj it pre v l Hon Hv) as (c & E & Hc).
  exists c. split; [exact E|]. exists pre, v, post. auto.
Qed.

Theorem denotes_array strict adj pj it l :
  denotes strict adj pj it (DArr l) -> exists a, iter_array it = Ok a /\ arr_at strict adj pj a l.
Proof.
  intros (pre & v & post & Ht & Hv & (Hon & _)).
  destruct (iter_array_cont_at strict adj pj it pre v l Hon Hv) as (c & E & Hc).
  exists c. split; [exact E|]. exists pre, v, post. auto.
Qed.

(* every object / array of the document of a tape_ok tape has such a position *)
Theorem obj_at_path pj ds p l :
  tape_ok pj -> denote (pj_msg pj) (pj_strings pj) (pj_tape pj) = Some ds ->
  get_docs p ds = Some (DObj l) -> exists o, obj_at true true pj o l.
Proof.
  intros Hok Hden Hg.
  destruct (position_of_path_ok pj ds p (DObj l) Hok Hden Hg) as (pre & sub & post & Ht & Hv & _).
  exists {| c_len := Z.of_N (nlen pre) + Z.of_nat (length sub); c_off := Z.of_N (nlen pre) + 1 |}.
  exists pre, sub, post. repeat split; auto.
Qed.

Theorem arr_at_path pj ds p l :
  tape_ok pj -> denote (pj_msg pj) (pj_strings pj) (pj_tape pj) = Some ds ->
  get_docs p ds = Some (DArr l) -> exists a, arr_at true true pj a l.
Proof.
  intros Hok Hden Hg.
  destruct (position_of_path_ok pj ds p (DArr l) Hok Hden Hg) as (pre & sub & post & Ht & Hv & _).
  exists {| c_len := Z.of_N (nlen pre) + Z.of_nat (length sub); c_off := Z.of_N (nlen pre) + 1 |}.
  exists pre, sub, post. repeat split; auto.
Qed.

(* the documented way in: Advance on a fresh iterator, then Root() *)
Theorem root_value_denotes pj d ds :
  N.of_nat (length (pj_msg pj)) < two64 -> N.of_nat (length (pj_strings pj)) < two64 ->
  roots_seg (pj_msg pj) (pj_strings pj) true true 0 (pj_tape pj) (d :: ds) ->
  exists r it, advance pj (iter0 pj) = Ok (r, TypeRoot) /\
               iter_root pj r = Ok (it, doc_type d) /\ denotes true true pj it d.
Proof.
  intros Bm Bs Hr. apply roots_front in Hr.
  destruct Hr as (n & w & n1 & v & n2 & c & rest' & Ht & Hn & Hw & Hn1 & Hv & Hn2 & Hc' & Hwv & Hr').
  assert (HwN : word_tag w <> TagNop) by (rewrite Hw; discriminate).
  assert (Ht0 : pj_tape pj = [] ++ n ++ w :: n1 ++ v ++ n2 ++ c :: rest') by exact Ht.
  rewrite (advance_at true pj (iter0 pj) n w [] _ Hn Ht0 HwN eq_refl).
  2:{ cbn [iter0 i_len]. rewrite Ht. lens. }
  cbv zeta.
  set (k1 := (Z.of_nat (length (@nil N)) + Z.of_nat (length n) + 1)%Z).
  assert (Hadd : i_add (land (iter0 pj) k1 w) = (Z.of_N (word_val w) - k1)%Z).
  { unfold land, with_calc, set_i, calc_next. cbn [i_add i_off i_cur i_t]. rewrite Hw. reflexivity. }
  rewrite Hadd.
  replace (Z.of_N (word_val w) - k1 <? 0)%Z with false by (rewrite Hwv; unfold k1; lens).
  rewrite Hw. change (TagToType_ref TagRoot) with TypeRoot.
  destruct (val_seg_head _ _ _ _ _ _ _ Hv) as (wv & rv & -> & Htag).
  destruct (iter_root_on pj Bm Bs (land (iter0 pj) k1 w) n w n1 wv rv d (n2 ++ c :: rest')) as (el & E & Hwi).
  - exact Ht.
  - exact Hw.
  - exact Hn1.
  - eapply val_seg_idx; [|exact Hv]. lens.
  - rewrite Hwv. lens.
  - unfold land, with_calc, set_i. cbn [i_t]. exact Hw.
  - reflexivity.
  - unfold land, with_calc, set_i. cbn [i_off]. unfold k1. lens.
  - unfold land, with_calc, set_i. cbn [i_len iter0]. rewrite Hwv, Ht. lens.
  - exists (land (iter0 pj) k1 w), el. split; [reflexivity|]. split; [exact E|].
    exists (n ++ [w] ++ n1), (wv :: rv), (n2 ++ c :: rest').
    split; [rewrite Ht; leq|]. split; [eapply val_seg_idx; [|exact Hv]; lens|exact Hwi].
Qed.

(* ------------------------------------------------------------------ *)
(* totality                                                             *)

Definition total {A} (o : outcome A) : Prop :=
  match o with Crash | OutOfFuel => False | _ => True end.

Lemma total_ok {A} (o : outcome A) a : o = Ok a -> total o.
Proof. intros ->. exact I. Qed.

Lemma omap_total {A B} (f : A -> outcome B) l : (forall x, total (f x)) -> total (omap f l).
Proof.
  intros H. induction l as [|x r IH]; [exact I|]. cbn [omap].
  specialize (H x). destruct (f x); cbn [obind]; try exact H; try exact I.
  destruct (omap f r); cbn [obind]; try exact IH; exact I.
Qed.

Lemma elem_num_total k d : total (elem_num k d).
Proof. destruct (elem_num_ok_err k d) as [(y & ->)| ->]; exact I. Qed.

Lemma doc_string_total d : total (doc_string d).
Proof. destruct d; exact I. Qed.

(* the structure of a tape_ok tape is that of its denotation *)
Lemma tape_ok_roots pj ds :
  tape_ok pj -> denote (pj_msg pj) (pj_strings pj) (pj_tape pj) = Some ds ->
  roots_seg (pj_msg pj) (pj_strings pj) true true 0 (pj_tape pj) ds.
Proof.
  intros (ds' & Hr) Hden.
  apply denote_roots_seg in Hden.
  pose proof (roots_den _ _ _ _ _ _ _ Hr (S (S (length (pj_tape pj)))) [] ltac:(left; lia)) as D1.
  pose proof (roots_den _ _ _ _ _ _ _ Hden (S (S (length (pj_tape pj)))) [] ltac:(left; lia)) as D2.
  rewrite D1 in D2. injection D2 as ->. exact Hr.
Qed.

Lemma words64_of_bool pj : forallb (fun w => w <? two64) (pj_tape pj) = true -> words64 pj.
Proof.
  intros H. unfold words64. apply Forall_forall. intros w Hw.
  rewrite forallb_forall in H. specialize (H w Hw). lia.
Qed.

(* ------------------------------------------------------------------ *)
(* the numeric bulk accessors, for an Array value                       *)

Section AsNumAt.
Variables (strict adj : bool).

(* AsFloat / AsInteger / AsUint64 on an Array value, NOP runs (deleted
   elements) allowed: the conversions of the elements plain traversal yields *)
Theorem as_num_at k pj a l :
  words64 pj -> arr_at strict adj pj a l ->
  as_num k pj a = omap (elem_num k) l /\
  as_num k pj a = (do its <- arr_foreach pj a; omap (iter_num k pj) its).
Proof.
  intros H64 (pre & sub & post & Ht & Hv & Hc). split.
  - exact (as_num_refines strict adj k pj a pre sub post l H64 Ht Hv Hc).
  - exact (as_num_is_foreach strict adj k pj a pre sub post l H64 Ht Hv Hc).
Qed.

Theorem as_num_total k pj a l :
  words64 pj -> arr_at strict adj pj a l -> total (as_num k pj a).
Proof.
  intros H64 Ha. rewrite (proj1 (as_num_at k pj a l H64 Ha)).
  apply omap_total. apply elem_num_total.
Qed.

End AsNumAt.
